import EmsModel.Core.Triangulate
import EmsModel.Core.TriangulateGeom
import EmsModel.Lemmas.Triangulate
import EmsModel.Lemmas.TriangulateGeom
import EmsModel.Lemmas.TriangulateTable
import EmsModel.Lemmas.TriangulateConvex
/-!
# C14 — triangulation exactly partitions every cell polygon

Property theorems only.  Unbounded in the number of cells and of vertices per cell; the
coordinates are arbitrary rationals; `isConvex` and `isEar` (the two GEOS oracles of
`triangulate_dataset`) are universally quantified.

Clauses of the property and where they are proved
* n - 2 triangles per n-sided cell, convex or not, collinear vertices or not:
  `fan_count`, `ear_count`, `cell_count`, `dataset_cell_triangles`
* the areas sum to the cell's area: `fan_area`, `ear_area`, `cell_area` (signed, unconditional);
  `fan_oriented` (unsigned, fan path)
* triangles lie inside the cell, do not overlap, cover it:
  fan path `fan_inside`, `fan_no_overlap`, `fan_cover`, all three from the single hypothesis
  `StrictConvex` in `fan_partition`; ear path `ear_inside_partial`
  (relative to the contract of the GEOS ear test)
* every triangle names the linear index of its cell, empty cells produce none: `cell_index_spec`
* every vertex index valid, the vertex list has no duplicates: `vertex_table_spec`
* the ear loop ends with a full result or an error, never a partial result: `ear_terminates`,
  `ear_succeeds`
-/
namespace Ems.C14

open Ems.Tri

/-! ## counts -/

/-- The fan of an n-sided polygon has n - 2 triangles. -/
theorem fan_count (p : List Pt) : (fan p).length = p.length - 2 := fan_length p

/-- Ear clipping of an n-sided polygon yields n - 2 triangles, whatever the ear oracle
answers (collinear vertices, reflex vertices, either winding). -/
theorem ear_count (isEar : List Pt → Nat → Bool) (fuel : Nat) (p : List Pt) (ts : List Tri)
    (h : earClip isEar fuel p = .ok ts) : ts.length = p.length - 2 ∧ 3 ≤ p.length := by
  have h1 := (earClip_ok isEar fuel p ts h).1
  have h3 : 3 ≤ p.length := by
    by_contra hlt
    rw [earClip_short isEar fuel p (by omega)] at h
    simp at h
  omega

/-- Either path: a cell that triangulates has n - 2 triangles. -/
theorem cell_count (isConvex : List Pt → Bool) (isEar : List Pt → Nat → Bool) (p : List Pt)
    (ts : List Tri) (h : triangulateCell isConvex isEar p = .ok ts) :
    ts.length = p.length - 2 := by
  unfold triangulateCell at h
  split at h
  · simp only [Except.ok.injEq] at h
    subst h
    exact fan_length p
  · exact (ear_count isEar _ p ts h).1

/-! ## areas -/

/-- Σ signed fan-triangle areas = signed shoelace area of the cell (both doubled).
Unconditional: holds for every vertex list. -/
theorem fan_area (p : List Pt) : sumArea2 (fan p) = shoelace2 p := sumArea2_fan p

/-- Σ signed ear-triangle areas = signed shoelace area of the cell.  Unconditional. -/
theorem ear_area (isEar : List Pt → Nat → Bool) (fuel : Nat) (p : List Pt) (ts : List Tri)
    (h : earClip isEar fuel p = .ok ts) : sumArea2 ts = shoelace2 p :=
  (earClip_ok isEar fuel p ts h).2.1

theorem cell_area (isConvex : List Pt → Bool) (isEar : List Pt → Nat → Bool) (p : List Pt)
    (ts : List Tri) (h : triangulateCell isConvex isEar p = .ok ts) :
    sumArea2 ts = shoelace2 p := by
  unfold triangulateCell at h
  split at h
  · simp only [Except.ok.injEq] at h
    subst h
    exact sumArea2_fan p
  · exact ear_area isEar _ p ts h

/-- Under *fan-sorted* (orientation `s = 1` anticlockwise, `s = -1` clockwise) every fan
triangle is oriented like the cell, hence the unsigned areas add up to the cell's area. -/
theorem fan_oriented (s : Rat) (hs : s = 1 ∨ s = -1) (p : List Pt) (h : FanSorted s p) :
    (∀ t ∈ fan p, 0 ≤ s * t.area2) ∧ sumAbsArea2 (fan p) = absR (shoelace2 p) := by
  have hall : ∀ t ∈ fan p, 0 ≤ s * t.area2 := by
    cases p with
    | nil => intro t ht; simp [fan] at ht
    | cons v0 rest =>
      intro t ht
      have hrel := fanFrom_rel (v0 := v0) h ht
      have ha := (mem_fanFrom ht).1
      simp only [Tri.area2, ha]
      exact hrel
  refine ⟨hall, ?_⟩
  rcases hs with rfl | rfl
  · obtain ⟨e, n⟩ := sumAbs_of_nonneg (fan p) (fun t ht => by have := hall t ht; linarith)
    rw [e, sumArea2_fan] at *
    rw [absR_of_nonneg n]
  · obtain ⟨e, n⟩ := sumAbs_of_nonpos (fan p) (fun t ht => by have := hall t ht; linarith)
    rw [e]
    rw [sumArea2_fan] at *
    rw [absR_of_nonpos n]

/-! ## the fan path partitions a convex cell -/

/-- Every point of a fan triangle satisfies every edge half-plane of a convex cell. -/
theorem fan_inside (s : Rat) (p : List Pt) (hc : ConvexCell s p) (t : Tri) (ht : t ∈ fan p)
    (q : Pt) (hq : InTri t q) : InCell s p q := fan_inCell hc ht hq

/-- Two distinct fan triangles of a fan-sorted cell without repeated vertices meet only
inside one proper line (so their interiors are disjoint). -/
theorem fan_no_overlap (s : Rat) (hs : s ≠ 0) (p : List Pt) (h : FanSorted s p)
    (hnd : p.Nodup) : (fan p).Pairwise MeetInLine := by
  cases p with
  | nil => simp [fan]
  | cons v0 rest => exact fanFrom_sep s hs v0 rest h (List.nodup_cons.mp hnd).1

/-- Every point of the cell lies in some fan triangle when no fan triangle is degenerate
(strictly convex cell — the only cells the code sends down the fan path). -/
theorem fan_cover (s : Rat) (p : List Pt) (h3 : 3 ≤ p.length)
    (hpos : ∀ t ∈ fan p, 0 < s * t.area2) (q : Pt) (hq : InCell s p q) :
    ∃ t ∈ fan p, InTri t q := by
  match p, h3 with
  | v0 :: a :: b :: rest, _ =>
    have hedges : edges (v0 :: a :: b :: rest)
        = (v0, a) :: (a :: b :: rest).zip ((b :: rest) ++ [v0]) := by
      simp [edges]
    exact fan_cover_aux s v0 a b rest q (by rw [← hedges]; exact hq) hpos
  | [], h3 => simp at h3
  | [_], h3 => simp at h3
  | [_, _], h3 => simp at h3

/-- A strictly convex cell without repeated vertices (what the hull test of the code
selects for the fan path) satisfies the hypotheses of `fan_inside`, `fan_no_overlap`,
`fan_oriented` and `fan_cover`. -/
theorem strictConvex_hyps (s : Rat) (p : List Pt) (h3 : 3 ≤ p.length)
    (hc : StrictConvex s p) (hnd : p.Nodup) :
    ConvexCell s p ∧ FanSorted s p ∧ (∀ t ∈ fan p, 0 < s * t.area2) := by
  match p, h3 with
  | v0 :: a :: b :: rest, _ =>
    obtain ⟨h1, h2, h3⟩ := strictConvex_facts s v0 a b rest hc hnd
    exact ⟨h1, h3.imp (fun h => le_of_lt h), h2⟩
  | [], h3 => simp at h3
  | [_], h3 => simp at h3
  | [_, _], h3 => simp at h3

/-- The fan path on a strictly convex cell: n - 2 triangles, each inside the cell, every
point of the cell in some triangle, two triangles sharing at most points of one line,
unsigned areas adding up to the cell's area — an exact partition. -/
theorem fan_partition (s : Rat) (hs : s = 1 ∨ s = -1) (p : List Pt) (h3 : 3 ≤ p.length)
    (hc : StrictConvex s p) (hnd : p.Nodup) :
    (fan p).length = p.length - 2 ∧
    (∀ t ∈ fan p, ∀ q, InTri t q → InCell s p q) ∧
    (∀ q, InCell s p q → ∃ t ∈ fan p, InTri t q) ∧
    (fan p).Pairwise MeetInLine ∧
    sumAbsArea2 (fan p) = absR (shoelace2 p) := by
  obtain ⟨hconv, hsorted, hpos⟩ := strictConvex_hyps s p h3 hc hnd
  have hs0 : s ≠ 0 := by rcases hs with rfl | rfl <;> norm_num
  exact ⟨fan_count p, fun t ht q hq => fan_inside s p hconv t ht q hq,
    fun q hq => fan_cover s p h3 hpos q hq, fan_no_overlap s hs0 p hsorted hnd,
    (fan_oriented s hs p hsorted).2⟩

/-- For the hull-test instance used by the driver (`isStrictConvex`, compared with GEOS on
every generated cell): a cell that takes the fan path is exactly partitioned by its fan. -/
theorem convex_path_partition (isEar : List Pt → Nat → Bool) (p : List Pt)
    (h : isStrictConvex p = true) :
    triangulateCell isStrictConvex isEar p = .ok (fan p) ∧
    ∃ s : Rat, (s = 1 ∨ s = -1) ∧
      (fan p).length = p.length - 2 ∧
      (∀ t ∈ fan p, ∀ q, InTri t q → InCell s p q) ∧
      (∀ q, InCell s p q → ∃ t ∈ fan p, InTri t q) ∧
      (fan p).Pairwise MeetInLine ∧
      sumAbsArea2 (fan p) = absR (shoelace2 p) := by
  refine ⟨by simp [triangulateCell, h], ?_⟩
  simp only [isStrictConvex, Bool.and_eq_true, Bool.or_eq_true, decide_eq_true_eq] at h
  obtain ⟨⟨h3, hnd⟩, hc | hc⟩ := h
  · exact ⟨1, Or.inl rfl, fan_partition 1 (Or.inl rfl) p h3 hc hnd⟩
  · exact ⟨-1, Or.inr rfl, fan_partition (-1) (Or.inr rfl) p h3 hc hnd⟩

/-! ## the ear path -/

/-- Relative to the contract of the ear oracle (`EarContract`: the accepted ear lies in the
polygon, so does the remainder, and the two share only points of the diagonal — this is
what `diagonal.covered_by(polygon)` and `exterior ∩ diagonal = {ends}` mean, and it is
GEOS behaviour, not proved) every ear triangle lies in the original cell and two distinct
ear triangles meet only inside one proper line.
PARTIAL: the contract itself is an assumption about GEOS; a full-strength statement would
define the polygon's region and prove the contract for an exact ear test. -/
theorem ear_inside_partial (Inside : List Pt → Pt → Prop) (isEar : List Pt → Nat → Bool)
    (hc : EarContract Inside isEar) (fuel : Nat) (p : List Pt) (ts : List Tri)
    (h : earClip isEar fuel p = .ok ts) :
    (∀ t ∈ ts, ∀ q, InTri t q → Inside p q) ∧ ts.Pairwise MeetInLine :=
  earClip_inside hc fuel p ts h

/-- With fuel = number of vertices the loop always ends by itself, and it never returns a
partial result: it is the "no ear" error, or (fewer than three vertices) the "too short"
error, or a complete list of n - 2 triangles. -/
theorem ear_terminates (isEar : List Pt → Nat → Bool) (p : List Pt) :
    earClip isEar p.length p = .error .noEar ∨
    (p.length < 3 ∧ earClip isEar p.length p = .error .tooShort) ∨
    ∃ ts, earClip isEar p.length p = .ok ts ∧ ts.length + 2 = p.length := by
  cases h : earClip isEar p.length p with
  | ok ts => exact Or.inr (Or.inr ⟨ts, rfl, (earClip_ok isEar _ p ts h).1⟩)
  | error e =>
    cases e with
    | noEar => exact Or.inl rfl
    | fuel => exact absurd h (earClip_fuel isEar p.length p (by omega))
    | tooShort =>
      refine Or.inr (Or.inl ⟨?_, rfl⟩)
      by_contra hlt
      exact earClip_not_short isEar p.length p (by omega) h

/-- If the oracle finds an ear in every polygon with more than three vertices (what the
two-ears theorem promises for simple polygons), ear clipping returns n - 2 triangles. -/
theorem ear_succeeds (isEar : List Pt → Nat → Bool)
    (hear : ∀ q : List Pt, 3 < q.length → ∃ i, i + 2 < q.length ∧ isEar q i = true)
    (p : List Pt) (h3 : 3 ≤ p.length) :
    ∃ ts, earClip isEar p.length p = .ok ts ∧ ts.length + 2 = p.length := by
  obtain ⟨ts, hts⟩ := earClip_succeeds isEar hear p.length p h3 (by omega)
  exact ⟨ts, hts, (earClip_ok isEar _ p ts hts).1⟩

/-! ## dataset level -/

/-- Every triangle names the linear index of its cell: its index is in range, that cell
has geometry and the triangle's vertices are vertices of that cell.  Conversely the
triangles tagged `j` are exactly the triangulation of cell `j`; cells without geometry
contribute none. -/
theorem cell_index_spec (isConvex : List Pt → Bool) (isEar : List Pt → Nat → Bool)
    (cells : List (Option (List Pt))) (out : Output)
    (h : triangulateDataset isConvex isEar cells = .ok out) :
    (∀ kt ∈ out.tris, ∃ p, cells[kt.1]? = some (some p) ∧
        kt.2.a ∈ p ∧ kt.2.b ∈ p ∧ kt.2.c ∈ p) ∧
    (∀ j p, cells[j]? = some (some p) → ∃ ts, triangulateCell isConvex isEar p = .ok ts ∧
        (out.tris.filter (fun kt => kt.1 == j)).map (·.2) = ts) ∧
    (∀ j, cells[j]? = some none → out.tris.filter (fun kt => kt.1 == j) = []) := by
  unfold triangulateDataset at h
  cases hc : cellTriangles isConvex isEar 0 cells with
  | error e => simp [hc] at h
  | ok tris =>
    simp only [hc, Except.ok.injEq] at h
    subst h
    have hlt : ∀ {j : Nat} {c : Option (List Pt)}, cells[j]? = some c → j < cells.length := by
      intro j c hj
      by_contra hge
      rw [List.getElem?_eq_none (by omega)] at hj
      simp at hj
    refine ⟨fun kt hkt => ?_, fun j p hj => ?_, fun j hj => ?_⟩
    · obtain ⟨p, hp, _, hm⟩ := cellTriangles_mem isConvex isEar cells 0 tris hc kt hkt
      exact ⟨p, by simpa using hp, hm⟩
    · have := (cellTriangles_spec isConvex isEar cells 0 tris hc).2 j (hlt hj)
      rw [hj] at this
      simpa using this
    · have := (cellTriangles_spec isConvex isEar cells 0 tris hc).2 j (hlt hj)
      rw [hj] at this
      simpa using this

/-- Per cell of the dataset: n - 2 triangles whose signed areas add up to the cell's. -/
theorem dataset_cell_triangles (isConvex : List Pt → Bool) (isEar : List Pt → Nat → Bool)
    (cells : List (Option (List Pt))) (out : Output)
    (h : triangulateDataset isConvex isEar cells = .ok out) (j : Nat) (p : List Pt)
    (hj : cells[j]? = some (some p)) :
    ((out.tris.filter (fun kt => kt.1 == j)).map (·.2)).length = p.length - 2 ∧
    sumArea2 ((out.tris.filter (fun kt => kt.1 == j)).map (·.2)) = shoelace2 p := by
  obtain ⟨ts, hts, he⟩ := (cell_index_spec isConvex isEar cells out h).2.1 j p hj
  rw [he]
  exact ⟨cell_count isConvex isEar p ts hts, cell_area isConvex isEar p ts hts⟩

/-- The `assert current_face == total_triangles` of `triangulate_dataset` never fires: the
rows written are exactly the Σ (n - 2) rows pre-allocated. -/
theorem total_triangles_spec (isConvex : List Pt → Bool) (isEar : List Pt → Nat → Bool)
    (cells : List (Option (List Pt))) (out : Output)
    (h : triangulateDataset isConvex isEar cells = .ok out) :
    out.tris.length = totalTriangles cells := by
  unfold triangulateDataset at h
  cases hc : cellTriangles isConvex isEar 0 cells with
  | error e => simp [hc] at h
  | ok tris =>
    simp only [hc, Except.ok.injEq] at h
    subst h
    exact cellTriangles_length isConvex isEar cells 0 tris hc

/-- The vertex table has no duplicates and holds exactly the coordinates of the cells;
every triangle has three valid vertex indexes (never a failed join) and each index
decodes to the triangle's own coordinate. -/
theorem vertex_table_spec (isConvex : List Pt → Bool) (isEar : List Pt → Nat → Bool)
    (cells : List (Option (List Pt))) (out : Output)
    (h : triangulateDataset isConvex isEar cells = .ok out) :
    out.vertices.Nodup ∧
    (∀ v, v ∈ out.vertices ↔ ∃ p, some p ∈ cells ∧ v ∈ p) ∧
    out.index.length = out.tris.length ∧
    (∀ (n : Nat) (kt : Nat × Tri), out.tris[n]? = some kt → ∃ i j l,
      out.index[n]? = some (some i, some j, some l) ∧
      i < out.vertices.length ∧ j < out.vertices.length ∧ l < out.vertices.length ∧
      out.vertices[i]? = some kt.2.a ∧ out.vertices[j]? = some kt.2.b ∧
      out.vertices[l]? = some kt.2.c) := by
  unfold triangulateDataset at h
  cases hc : cellTriangles isConvex isEar 0 cells with
  | error e => simp [hc] at h
  | ok tris =>
    simp only [hc, Except.ok.injEq] at h
    subst h
    refine ⟨nodup_dedup _, fun v => by rw [mem_dedup, mem_allCoords], by simp, ?_⟩
    intro n kt hn
    have hkt : kt ∈ tris := List.mem_of_getElem? hn
    obtain ⟨p, hp, _, ha, hb, hcm⟩ := cellTriangles_mem isConvex isEar cells 0 tris hc kt hkt
    have hpc : some p ∈ cells := List.mem_of_getElem? hp
    have hin : ∀ v, v ∈ p → v ∈ dedup (allCoords cells) := fun v hv =>
      mem_dedup.mpr (mem_allCoords.mpr ⟨p, hpc, hv⟩)
    obtain ⟨i, hi, hgi⟩ := indexOf?_of_mem (hin _ ha)
    obtain ⟨j, hj, hgj⟩ := indexOf?_of_mem (hin _ hb)
    obtain ⟨l, hl, hgl⟩ := indexOf?_of_mem (hin _ hcm)
    have lt_of : ∀ {m : Nat} {v : Pt}, (dedup (allCoords cells))[m]? = some v →
        m < (dedup (allCoords cells)).length := by
      intro m v hm
      by_contra hge
      rw [List.getElem?_eq_none (by omega)] at hm
      simp at hm
    refine ⟨i, j, l, ?_, lt_of hgi, lt_of hgj, lt_of hgl, hgi, hgj, hgl⟩
    simp only [List.getElem?_map, hn, Option.map_some, hi, hj, hl]

/-! ## non-vacuity: the hypotheses are satisfiable on concrete, non-trivial inputs -/

/-- a strictly convex pentagon, anticlockwise -/
def pentagon : List Pt := [⟨0, 0⟩, ⟨4, 0⟩, ⟨6, 3⟩, ⟨3, 6⟩, ⟨-1, 3⟩]
/-- an L-shaped hexagon (one reflex vertex) with a collinear vertex, clockwise -/
def ell : List Pt := [⟨0, 0⟩, ⟨0, 4⟩, ⟨2, 4⟩, ⟨2, 2⟩, ⟨4, 2⟩, ⟨4, 0⟩, ⟨2, 0⟩]

example : FanSorted 1 pentagon := by unfold pentagon; decide +kernel
example : pentagon.Nodup := by unfold pentagon; decide +kernel
example : StrictConvex 1 pentagon := by unfold StrictConvex pentagon; decide +kernel
example : StrictConvex (-1) pentagon.reverse := by unfold StrictConvex pentagon; decide +kernel
example : ConvexCell 1 pentagon := by unfold ConvexCell InCell pentagon; decide +kernel
example : ∀ t ∈ fan pentagon, 0 < (1 : Rat) * t.area2 := by unfold pentagon; decide +kernel
example : FanSorted (-1) pentagon.reverse := by unfold pentagon; decide +kernel
example : isConvexExact pentagon = true ∧ isConvexExact ell = false := by
  unfold pentagon ell; decide +kernel
example : isStrictConvex pentagon = true ∧ isStrictConvex ell = false := by
  unfold pentagon ell; decide +kernel
/-- the ear path really runs on the concave cell and returns 7 - 2 triangles -/
example : (match earClip isEarExact ell.length ell with
    | .ok ts => ts.length
    | .error _ => 0) = 5 := by
  unfold ell; decide +kernel
/-- a dataset with a cell without geometry between two cells with geometry -/
example : (match triangulateDataset isStrictConvex isEarExact [some pentagon, none, some ell] with
    | .ok out => out.tris.map (·.1)
    | .error _ => []) = [0, 0, 0, 2, 2, 2, 2, 2] := by
  unfold pentagon ell; decide +kernel
example : (match triangulateDataset isStrictConvex isEarExact [some pentagon, none, some ell] with
    | .ok out => out.vertices.length
    | .error _ => 0) = 10 := by
  unfold pentagon ell; decide +kernel
/-- the contract of `ear_inside_partial` is satisfiable (trivially: an oracle that accepts
no ear, with the triangle itself as the region of a three-vertex list) -/
example : EarContract (fun p q => match p with | [a, b, c] => InTri ⟨a, b, c⟩ q | _ => True)
    (fun _ _ => false) :=
  { tri := fun _ _ _ _ h => h
    ear_inside := fun _ _ _ _ h => by simp at h
    rest_inside := fun _ _ _ _ h => by simp at h
    ear_rest := fun _ _ _ _ h => by simp at h
    diag := fun _ _ _ _ h => by simp at h }

end Ems.C14
