import EmsModel.Lemmas.UgridSrc
import EmsModel.Gen.UgridSrc
/-!
# C07, source level — the UGRID clip-mask code as it is written

`Gen/UgridSrc.lean` is regenerated on every run by `harness/trans_ugridsrc.py` from the SOURCE TEXT of
`emsarray.conventions.ugrid.buffer_faces`, `mask_from_face_indexes` (with `new_element_indexes` and
`_masked_integer_data_array` inlined) and `UGrid.make_clip_mask`, as terms of the language of `Core/UgridSrc.lean`.
The theorems below are about those generated terms: for every masked connectivity table and every index list they
compute the hand models of `Core/MeshMask.lean` (`FaceMesh.bufferFaces`, `maskFromFaceIndexes`, `ugridClipMask`) that
`C07.buffer_faces_spec`, `buffer_iter`, `kept_faces_spec`, `mesh_mask_spec`, `renumber_spec` are about.
-/
set_option linter.unusedSimpArgs false
namespace Ems.C07Src
open Ems.Clip Ems.Clip.FaceMesh Ems.UgridSrc

/-- The translator understood every statement of `buffer_faces`, `mask_from_face_indexes` and
`UGrid.make_clip_mask` of the working tree: nothing was emitted as `unsupported`. -/
theorem ugridsrc_translated : Gen.UgridSrc.complaints = [] := by decide

/-! ## `buffer_faces` -/

/-- **`buffer_faces(face_indexes, topology)`, as written in the source**: for every masked `face_node_array` (rows of
any width, masked entries anywhere) and every list of face indexes inside the table, in any order and with repeats,
the generated term — `numpy.fromiter` over `enumerate(face_node)` keeping an index that is `in` the given set `or`
whose `compressed()` row intersects the set of `unique(face_node[face_indexes].compressed())` — evaluates to the
hand model `FaceMesh.bufferFaces` on the compressed rows. -/
theorem buffer_faces_src (env : UEnv) (F : List Nat) (harg : env.arg = .list F)
    (hF : ∀ f ∈ F, f < env.faceNode.length) :
    eval env Gen.UgridSrc.bufferFaces = .list ((envMesh env).bufferFaces F) := by
  have hall : F.all (· < env.faceNode.length) = true := by simpa using hF
  simp only [Gen.UgridSrc.bufferFaces, eval, harg, hall, if_true, takeRowsVal, compressedVal, uniqueVal, setOfVal,
    tolistVal, memVal, interVal, truthVal, tableRows, orVal_bool]
  rw [gather_map, gatherVal]
  congr 1
  unfold FaceMesh.bufferFaces FaceMesh.nFaces FaceMesh.faceNodes envMesh
  simp only [List.length_map]
  apply List.filter_congr
  intro f _
  congr 1
  rw [getD_map_compressRow]
  apply inter_nonempty
  intro n
  rw [mem_sortU, compressTable_takeRows]

/-- What the source of `buffer_faces` returns, stated directly: `f` is in the array returned iff it is a face of the
mesh and was given or has an unmasked node in common with a given face; the array is in ascending face order without
repeats. -/
theorem buffer_faces_src_spec (env : UEnv) (F : List Nat) (harg : env.arg = .list F)
    (hF : ∀ f ∈ F, f < env.faceNode.length) :
    ∃ R, eval env Gen.UgridSrc.bufferFaces = .list R ∧ R.Pairwise (· < ·) ∧
      ∀ f, f ∈ R ↔ f < env.faceNode.length ∧ (f ∈ F ∨ ∃ f' ∈ F, ∃ n,
        n ∈ compressRow (env.faceNode.getD f' []) ∧ n ∈ compressRow (env.faceNode.getD f [])) := by
  refine ⟨_, buffer_faces_src env F harg hF, sorted_bufferFaces _ _, ?_⟩
  intro f
  rw [mem_bufferFaces]
  simp only [FaceMesh.Shares, FaceMesh.faceNodes, FaceMesh.nFaces, envMesh, List.length_map, getD_map_compressRow]

/-! ## `mask_from_face_indexes` -/

/-- **`mask_from_face_indexes(face_indexes, topology)`, as written in the source**: the dataset the generated program
builds — `new_face_index` over `old_face_index` from `new_element_indexes(face_count, face_indexes)`, under
`if topology.has_edge_dimension` `new_edge_index` over `old_edge_index` from
`sort(unique(face_edge[face_indexes].compressed()))`, `new_node_index` over `old_node_index` from
`sort(unique(face_node[face_indexes].compressed()))`, each a fully masked array with `a[indexes] = arange(len(indexes))`
— read the way `apply_clip_mask` reads it, is the hand model `maskFromFaceIndexes`, for every pair of masked tables and
every index list (any order) whose faces, nodes and edges lie inside the dimensions. -/
theorem mask_from_face_indexes_src (env : UEnv) (F : List Nat) (harg : env.arg = .list F)
    (hnf : env.nFaces = env.faceNode.length)
    (hF : ∀ f ∈ F, f < env.faceNode.length)
    (hN : ∀ f ∈ F, ∀ n ∈ (envMesh env).faceNodes f, n < env.nNodes)
    (hE : env.hasEdge = true → env.faceEdge.length = env.faceNode.length ∧
      ∀ f ∈ F, ∀ e ∈ (envMesh env).faceEdgesOf f, e < env.nEdges) :
    (evalProg env Gen.UgridSrc.maskFromFaceIndexes).bind toMeshMask =
      some (maskFromFaceIndexes (envMesh env) F) := by
  have hall : F.all (· < env.faceNode.length) = true := by simpa using hF
  have hall' : F.all (· < env.nFaces) = true := by rw [hnf]; exact hall
  have hallN : (sortU (F.flatMap fun k => (env.faceNode.map compressRow).getD k [])).all (· < env.nNodes) = true := by
    simp only [List.all_eq_true, decide_eq_true_eq, mem_sortU, List.mem_flatMap]
    rintro n ⟨f, hf, hn⟩
    exact hN f hf n hn
  cases hedge : env.hasEdge
  · simp only [Gen.UgridSrc.maskFromFaceIndexes, evalProg, evalVars, guardsHold, eval, harg, hall, hall', hallN, hedge,
      if_true, takeRowsVal, compressedVal, uniqueVal, sortVal, lenVal, arangeVal, maskedFullVal, setItemVal,
      astypeDoubleVal, filledNanVal, sortL_sortU, compressTable_takeRows, List.length_replicate, List.length_range,
      and_self, Bool.false_and, Bool.and_true, setItems_range]
    rw [hnf]
    simp only [toMeshMask, outVar, List.filter, Option.bind, List.length_cons, List.length_nil, decide_true,
      decide_false, beq_self_eq_true, String.reduceBEq, if_true]
    unfold envMesh; rw [hedge]
    simp only [maskFromFaceIndexes, newElementIndexes, FaceMesh.nFaces, List.length_map, Bool.false_eq_true, if_false,
      if_true, Option.map]
    rfl
  · obtain ⟨hle, hEr⟩ := hE hedge
    have hallE : F.all (· < env.faceEdge.length) = true := by rw [hle]; exact hall
    have hallE' : (sortU (F.flatMap fun k => (env.faceEdge.map compressRow).getD k [])).all (· < env.nEdges) = true := by
      simp only [List.all_eq_true, decide_eq_true_eq, mem_sortU, List.mem_flatMap]
      rintro n ⟨f, hf, hn⟩
      exact hEr f hf n hn
    simp only [Gen.UgridSrc.maskFromFaceIndexes, evalProg, evalVars, guardsHold, eval, harg, hall, hall', hallN, hedge,
      hallE, hallE',
      if_true, takeRowsVal, compressedVal, uniqueVal, sortVal, lenVal, arangeVal, maskedFullVal, setItemVal,
      astypeDoubleVal, filledNanVal, sortL_sortU, compressTable_takeRows, List.length_replicate, List.length_range,
      and_self, Bool.false_and, Bool.and_true, setItems_range]
    rw [hnf]
    simp only [toMeshMask, outVar, List.filter, Option.bind, List.length_cons, List.length_nil, decide_true,
      decide_false, beq_self_eq_true, String.reduceBEq, if_true]
    unfold envMesh; rw [hedge]
    simp only [maskFromFaceIndexes, newElementIndexes, FaceMesh.nFaces, List.length_map, Bool.false_eq_true, if_false,
      if_true, Option.map]
    rfl

/-- **Renumbering, from the source.** If the index list handed to `mask_from_face_indexes` is ascending without
repeats, then in the dataset the source builds the new index of a kept face is the number of kept faces with a smaller
old index and every other face is masked; the node (edge) table does the same for the nodes (edges) of the given
faces — for these no hypothesis on the order is needed, the source sorts them itself (`sort(unique(…))`); without an
edge dimension there is no edge table.  Without the hypothesis the face table numbers the faces in the order given
(see the `example` below): `UGrid.make_clip_mask` has to hand in a sorted list, and `make_clip_mask_src_kept` shows
that the source does. -/
theorem mask_from_face_indexes_src_renumber (env : UEnv) (F : List Nat) (harg : env.arg = .list F)
    (hnf : env.nFaces = env.faceNode.length)
    (hF : ∀ f ∈ F, f < env.faceNode.length)
    (hN : ∀ f ∈ F, ∀ n ∈ (envMesh env).faceNodes f, n < env.nNodes)
    (hE : env.hasEdge = true → env.faceEdge.length = env.faceNode.length ∧
      ∀ f ∈ F, ∀ e ∈ (envMesh env).faceEdgesOf f, e < env.nEdges)
    (hsorted : F.Pairwise (· < ·)) :
    ∃ k, (evalProg env Gen.UgridSrc.maskFromFaceIndexes).bind toMeshMask = some k ∧
      (∀ f, f < env.nFaces → k.newFace[f]? = some (if f ∈ F then some (countLt F f) else none)) ∧
      (∀ n, n < env.nNodes → k.newNode[n]? =
        some (if n ∈ sortU (F.flatMap (envMesh env).faceNodes)
          then some (countLt (sortU (F.flatMap (envMesh env).faceNodes)) n) else none)) ∧
      (env.hasEdge = false → k.newEdge = none) ∧
      (env.hasEdge = true → ∃ t, k.newEdge = some t ∧ ∀ e, e < env.nEdges → t[e]? =
        some (if e ∈ sortU (F.flatMap (envMesh env).faceEdgesOf)
          then some (countLt (sortU (F.flatMap (envMesh env).faceEdgesOf)) e) else none)) := by
  refine ⟨_, mask_from_face_indexes_src env F harg hnf hF hN hE, ?_, ?_, ?_, ?_⟩
  · intro f hf
    have : (envMesh env).nFaces = env.nFaces := by simp [FaceMesh.nFaces, envMesh, hnf]
    simp only [maskFromFaceIndexes, this]
    exact getElem?_newElementIndexes _ F hsorted f hf
  · intro n hn
    exact getElem?_newElementIndexes _ _ (sorted_sortU _) n hn
  · intro h
    simp [maskFromFaceIndexes, envMesh, h]
  · intro h
    refine ⟨_, by simp only [maskFromFaceIndexes, envMesh, h, if_true, Option.map]; rfl, ?_⟩
    intro e he
    exact getElem?_newElementIndexes _ _ (sorted_sortU _) e he

/-! ## `UGrid.make_clip_mask` -/

/-- `for _ in range(n): face_indexes = buffer_faces(face_indexes, self.topology)` as written: `n` applications of the
generated `buffer_faces` term are `n` applications of the hand model. -/
theorem iter_buffer_faces_src (env : UEnv) : ∀ (n : Nat) (F : List Nat), (∀ f ∈ F, f < env.faceNode.length) →
    iter (fun v => eval { env with carried := v } (.withArg .carried Gen.UgridSrc.bufferFaces)) n (.list F) =
      .list ((envMesh env).bufferIter n F)
  | 0, _, _ => rfl
  | n + 1, F, hF => by
    have step : eval { env with carried := .list F } (.withArg .carried Gen.UgridSrc.bufferFaces) =
        .list ((envMesh env).bufferFaces F) := by
      rw [eval_withArg]
      exact buffer_faces_src _ F rfl hF
    show iter _ n (eval { env with carried := .list F } (.withArg .carried Gen.UgridSrc.bufferFaces)) = _
    rw [step, iter_buffer_faces_src env n]
    · rfl
    · intro f hf
      have := ((mem_bufferFaces (envMesh env) F f).mp hf).1
      simpa [FaceMesh.nFaces, envMesh] using this

/-- the index-array expression a program hands to the function it returns the result of -/
def clipArg : UProg → Option UExpr
  | .withArg a _ => some a
  | _ => none

/-- the function a program returns the result of -/
def clipCallee : UProg → Option UProg
  | .withArg _ p => some p
  | _ => none

/-- **What `UGrid.make_clip_mask` hands to `mask_from_face_indexes`, from the source**: the statements
`face_indexes = numpy.sort(self.strtree.query(clip_geometry, predicate='intersects'))`,
`for _ in range(buffer): face_indexes = buffer_faces(face_indexes, self.topology)` and
`return mask_from_face_indexes(face_indexes, self.topology)`, in this order, make the argument of the generated
`mask_from_face_indexes` term the hand model's `keptFaces`: the hits — whatever order the spatial index reports them
in — put in ascending order, grown by `buffer` rings (none for a negative `buffer`); in particular an ascending list
without repeats, which is what `mask_from_face_indexes_src_renumber` needs. -/
theorem make_clip_mask_src_kept (T E : MTable) (nNodes : Nat) (nEdges : Option Nat) (hits : List Nat) (buffer : Int)
    (hnd : hits.Nodup) (hr : ∀ f ∈ hits, f < T.length) :
    ∃ a, clipArg Gen.UgridSrc.makeClipMask = some a ∧
      clipCallee Gen.UgridSrc.makeClipMask = some Gen.UgridSrc.maskFromFaceIndexes ∧
      eval (meshEnv T E nNodes nEdges hits buffer) a = .list (keptFaces (meshOf T E nNodes nEdges) hits buffer) ∧
      (keptFaces (meshOf T E nNodes nEdges) hits buffer).Pairwise (· < ·) := by
  refine ⟨_, rfl, rfl, ?_, ?_⟩
  · generalize henv : meshEnv T E nNodes nEdges hits buffer = env
    have hfn : env.faceNode = T := by rw [← henv]; rfl
    have hs : ∀ f ∈ sortU hits, f < env.faceNode.length := by
      intro f hf; rw [hfn]; exact hr f ((mem_sortU hits f).mp hf)
    have h1 : eval env .buffer = .int buffer := by rw [← henv]; rfl
    have h2 : eval env (.sort (.strtreeQuery "intersects")) = .list (sortU hits) := by
      rw [← sortL_eq_sortU hnd, ← henv]; rfl
    rw [eval_iterate, h1, h2]
    simp only [rangeCount, iterateVal]
    rw [iter_buffer_faces_src _ _ _ hs, ← henv, envMesh_meshEnv]
    rfl
  · exact sorted_bufferIter _ _ _ (sorted_sortU hits)

/-- **`UGrid.make_clip_mask(clip_geometry, buffer)`, as written in the source**: for every mesh (masked tables of any
width whose unmasked entries lie inside the node / edge dimensions), every list of intersecting faces in the order the
spatial index happens to report them (each face once) and every `buffer`, the dataset the generated program returns is
the hand model `ugridClipMask` — the mask `C07.kept_faces_spec`, `mesh_mask_spec`, `renumber_spec` and
`clip_mask_contiguous` are about. -/
theorem make_clip_mask_src (T E : MTable) (nNodes : Nat) (nEdges : Option Nat) (hits : List Nat) (buffer : Int)
    (hnd : hits.Nodup) (hr : ∀ f ∈ hits, f < T.length)
    (hN : ∀ r ∈ T, ∀ n ∈ compressRow r, n < nNodes)
    (hE : ∀ ne, nEdges = some ne → E.length = T.length ∧ ∀ r ∈ E, ∀ e ∈ compressRow r, e < ne) :
    (evalProg (meshEnv T E nNodes nEdges hits buffer) Gen.UgridSrc.makeClipMask).bind toMeshMask =
      some (ugridClipMask (meshOf T E nNodes nEdges) hits buffer) := by
  obtain ⟨a, ha, hp, hev, _⟩ := make_clip_mask_src_kept T E nNodes nEdges hits buffer hnd hr
  have hprog : Gen.UgridSrc.makeClipMask = .withArg a Gen.UgridSrc.maskFromFaceIndexes := by
    revert ha hp
    cases Gen.UgridSrc.makeClipMask <;> simp [clipArg, clipCallee]
    intro h1 h2; exact ⟨h1, h2⟩
  rw [hprog, evalProg_withArg, hev]
  have hK : ∀ f ∈ keptFaces (meshOf T E nNodes nEdges) hits buffer, f < T.length := by
    have := inRange_bufferIter (meshOf T E nNodes nEdges) buffer.toNat (sortU hits) (by
      intro f hf
      simpa [FaceMesh.nFaces, meshOf] using hr f ((mem_sortU hits f).mp hf))
    intro f hf
    simpa [FaceMesh.nFaces, meshOf] using this f hf
  rw [mask_from_face_indexes_src _ (keptFaces (meshOf T E nNodes nEdges) hits buffer) rfl rfl hK]
  · show some (maskFromFaceIndexes (envMesh (meshEnv T E nNodes nEdges hits buffer)) _) = _
    rw [envMesh_meshEnv]
    rfl
  · intro f _ n hn
    obtain ⟨r, hr', hn'⟩ := mem_getD_map_compressRow hn
    exact hN r hr' n hn'
  · intro hedge
    cases nEdges with
    | none => simp [meshEnv] at hedge
    | some ne =>
      obtain ⟨h1, h2⟩ := hE ne rfl
      refine ⟨h1, ?_⟩
      intro f _ e he
      obtain ⟨r, hr', he'⟩ := mem_getD_map_compressRow he
      exact h2 r hr' e he'

/-- The mask `UGrid.make_clip_mask` builds, as written, depends on the SET of hits only: two reports of the same faces
in different orders give the same dataset (this is what the `numpy.sort` in the source buys; fix `2cd1d1b`). -/
theorem make_clip_mask_src_order_irrelevant (T E : MTable) (nNodes : Nat) (nEdges : Option Nat)
    (hits hits' : List Nat) (buffer : Int)
    (hnd : hits.Nodup) (hnd' : hits'.Nodup) (hsame : ∀ f, f ∈ hits ↔ f ∈ hits') (hr : ∀ f ∈ hits, f < T.length)
    (hN : ∀ r ∈ T, ∀ n ∈ compressRow r, n < nNodes)
    (hE : ∀ ne, nEdges = some ne → E.length = T.length ∧ ∀ r ∈ E, ∀ e ∈ compressRow r, e < ne) :
    (evalProg (meshEnv T E nNodes nEdges hits buffer) Gen.UgridSrc.makeClipMask).bind toMeshMask =
      (evalProg (meshEnv T E nNodes nEdges hits' buffer) Gen.UgridSrc.makeClipMask).bind toMeshMask := by
  rw [make_clip_mask_src T E nNodes nEdges hits buffer hnd hr hN hE,
    make_clip_mask_src T E nNodes nEdges hits' buffer hnd' (fun f hf => hr f ((hsame f).mpr hf)) hN hE]
  unfold ugridClipMask keptFaces
  rw [sortU_congr hsame]

/-- The signature of `UGrid.make_clip_mask` in the source: `(self, clip_geometry, buffer=0)` — no buffer ring unless
asked for. -/
theorem make_clip_mask_src_params :
    Gen.UgridSrc.makeClipMaskParams = [("clip_geometry", none), ("buffer", some "0")] := by decide

/-! ## Non-vacuity: the hypotheses hold on concrete meshes, and the generated terms run -/

/-- three triangles in a strip and a quadrilateral, rows padded with masked entries (one of them in the middle of a
row); face-edge table of the same shape -/
def exT : MTable := [[some 0, some 1, some 2, none], [some 1, none, some 3, some 2], [some 2, some 3, some 4, none],
  [some 5, some 6, some 7, some 8]]
def exE : MTable := [[some 0, some 1, some 2, none], [some 3, none, some 4, some 1], [some 4, some 5, some 6, none],
  [some 7, some 8, some 9, some 10]]
def exEnv (hits : List Nat) (buffer : Int) : UEnv := meshEnv exT exE 9 (some 11) hits buffer

example : eval { exEnv [] 0 with arg := .list [2] } Gen.UgridSrc.bufferFaces = .list [0, 1, 2] := by decide
example : eval { exEnv [] 0 with arg := .list [3, 0] } Gen.UgridSrc.bufferFaces = .list [0, 1, 2, 3] := by decide
example : ∀ f ∈ [3, 0], f < (exEnv [] 0).faceNode.length := by decide
/-- an index outside the table is an IndexError, not an empty row -/
example : eval { exEnv [] 0 with arg := .list [4] } Gen.UgridSrc.bufferFaces = .err := by decide

example : (evalProg { exEnv [] 0 with arg := .list [0, 2] } Gen.UgridSrc.maskFromFaceIndexes).bind toMeshMask =
    some { newFace := [some 0, none, some 1, none],
           newEdge := some [some 0, some 1, some 2, none, some 3, some 4, some 5, none, none, none, none],
           newNode := [some 0, some 1, some 2, some 3, some 4, none, none, none, none] } := by decide
/-- the hypothesis of `mask_from_face_indexes_src_renumber` is needed: the faces are numbered in the order given -/
example : ((evalProg { exEnv [] 0 with arg := .list [2, 0] } Gen.UgridSrc.maskFromFaceIndexes).bind toMeshMask).map
    (·.newFace) = some [some 1, none, some 0, none] := by decide
/-- without an edge dimension there is no edge table -/
example : (evalProg { meshEnv exT [] 9 none [] 0 with arg := .list [3] } Gen.UgridSrc.maskFromFaceIndexes).bind
    toMeshMask =
    some { newFace := [none, none, none, some 0], newEdge := none,
           newNode := [none, none, none, none, none, some 0, some 1, some 2, some 3] } := by decide

/-- hits reported as `[2, 0]`, no buffer: faces numbered in index order -/
example : ((evalProg (exEnv [2, 0] 0) Gen.UgridSrc.makeClipMask).bind toMeshMask).map (·.newFace) =
    some [some 0, none, some 1, none] := by decide
example : ((evalProg (exEnv [0] 1) Gen.UgridSrc.makeClipMask).bind toMeshMask).map (·.newFace) =
    some [some 0, some 1, some 2, none] := by decide
example : (evalProg (exEnv [0] (-3)) Gen.UgridSrc.makeClipMask).bind toMeshMask =
    (evalProg (exEnv [0] 0) Gen.UgridSrc.makeClipMask).bind toMeshMask := by decide
example : [2, 0].Nodup ∧ (∀ f ∈ [2, 0], f < exT.length) ∧ (∀ r ∈ exT, ∀ n ∈ compressRow r, n < 9) ∧
    (exE.length = exT.length ∧ ∀ r ∈ exE, ∀ e ∈ compressRow r, e < 11) := by decide

end Ems.C07Src
