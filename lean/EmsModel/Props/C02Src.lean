import EmsModel.Gen.HolesSrc
/-
Props/C02Src.lean — properties C02 / C06, tied to the source text of `utils.make_polygons_with_holes`.

`Gen/HolesSrc.lean` is regenerated on every run from the source.  `holes_generated` proves that the generated description,
given its numpy / shapely meaning by `HolesSrc.eval`, is `Ems.pointsToPolys` — the last step of every structured-grid
polygon pipeline (`C06.cf1d_pipeline_spec`, `cf2d_pipeline_spec`, `arakawa_pipeline_spec` are stated through it) — for every
`(n, m, 2)` array: as many entries as rows, a row with a missing value has no polygon and KEEPS ITS SLOT, every other row has
the polygon of its own points (`C02.hole_no_shift`, `polygons_length_*` rest on exactly this).
-/
namespace Ems.C02
open Ems.HolesSrc Ems.Gen.HolesSrc

theorem allSomeL_none_of_mem_none {β : Type} : ∀ (l : List (Option β)), none ∈ l → allSomeL l = none
  | [], h => by simp at h
  | none :: _, _ => rfl
  | some x :: xs, h => by
    have : none ∈ xs := by simpa using h
    simp [allSomeL, allSomeL_none_of_mem_none xs this]

/-- a row with a missing value has no polygon in the model either -/
theorem rowPolygon_none_of_not_finite (a : NpArr) (m p : Nat) (h : rowFinite a m p = false) :
    rowPolygon a m p = none := by
  unfold rowPolygon
  apply allSomeL_none_of_mem_none
  simp only [rowFinite, List.all_eq_false, List.mem_range] at h
  obtain ⟨k, hk, hne⟩ := h
  simp only [List.mem_map, List.mem_range]
  refine ⟨k, hk, ?_⟩
  cases h0 : a.get [p, k, 0] <;> cases h1 : a.get [p, k, 1] <;> simp_all [optPt]

/-- **`make_polygons_with_holes` as the source has it is `pointsToPolys`**, for every array: one entry per row, in row
order; rows selected by `isfinite(points).all(axis=(1, 2))` carry the polygon of their own points, all others are `None`
and keep their slot. -/
theorem holes_generated (a : NpArr) : HolesSrc.eval holesSrc a = pointsToPolys a := by
  unfold HolesSrc.eval pointsToPolys
  rcases hsh : a.shape with _ | ⟨n, _ | ⟨m, _ | ⟨t, _ | ⟨u, r⟩⟩⟩⟩ <;> try rfl
  case cons.cons.cons.nil =>
    by_cases ht : t = 2
    · subst ht
      simp only [holesSrc, and_self, if_true, Option.some.injEq]
      apply List.map_congr_left
      intro p _
      by_cases h : rowFinite a m p = true
      · simp [h, rowPolygon]
      · have h' : rowFinite a m p = false := by simpa using h
        rw [if_neg h, ← rowPolygon_none_of_not_finite a m p h']
        rfl
    · match t, ht with
      | 0, _ => rfl
      | 1, _ => rfl
      | (k + 3), _ => rfl
  case cons.cons.cons.cons =>
    by_cases ht : t = 2
    · subst ht; rfl
    · match t, ht with
      | 0, _ => rfl
      | 1, _ => rfl
      | (k + 3), _ => rfl

/-- Holes never shift later cells: the number of entries is the number of rows, whatever is missing. -/
theorem holes_generated_length (a : NpArr) (n m : Nat) (hs : a.shape = [n, m, 2]) :
    (HolesSrc.eval holesSrc a).map List.length = some n := by
  simp [HolesSrc.eval, hs, holesSrc]

/-! ### what the evaluator makes of near-misses of the source -/

-- testing finiteness over one axis only, or allocating by another axis, is not this function
example : HolesSrc.eval { holesSrc with finiteAxes := some [1] } ⟨[1, 3, 2], List.replicate 6 (some 0)⟩ = none := rfl
example : HolesSrc.eval { holesSrc with allocAxis := some 1 } ⟨[1, 3, 2], List.replicate 6 (some 0)⟩ = none := rfl
-- two rows, the first with a missing value: it keeps its slot
example : HolesSrc.eval holesSrc ⟨[2, 3, 2], [some 0, some 0, none, some 0, some 1, some 1,
                                      some 0, some 0, some 1, some 0, some 1, some 1]⟩
    = some [none, some [(0, 0), (1, 0), (1, 1)]] := by decide

end Ems.C02
