import EmsModel.Core.CacheKeyDataset
import EmsModel.Core.CacheKeyMarshal
import EmsModel.Lemmas.CacheKey
import EmsModel.Lemmas.CacheKeyInventory
/-!
# C16 — the geometry cache key depends on the geometry and on nothing else

Property theorems only.  `H` (blake2b) is a parameter; the attribute serialiser
(`marshal.dumps`) enters as an opaque byte blob per variable.  All statements are for
arbitrary numbers of variables, ranks, sizes, byte strings and Unicode names.

* `hash_int_*`            values outside int32 are refused, accepted ones are never wrapped
* `framing_*`             every length-prefixed / fixed-width field can be split off a stream
* `key_inputs` …          the stream is a function of the ordered geometry records, the
                          convention identity and the version; global attributes, dimension
                          sizes, non-geometry variables are not inputs
* `edit_*_changes_stream` each single edit of the quantifier changes the stream
* `edit_value_position`   … a value edit exactly at a computable position
* `stream_injective_partial`, `stream_not_injective`
* `marshal_flags_matter`  finding F10: CPython's marshal is not a function of the content
-/
namespace Ems.C16
open Ems Ems.CacheKey

/-! ## hash_int, framing -/

/-! ## hash_int -/

/-- `hash_int` refuses exactly the values outside int32 — nothing is wrapped. -/
theorem hash_int_range (v : Int) :
    hashInt v = none ↔ (v < -2147483648 ∨ 2147483647 < v) := by
  unfold hashInt int32Min int32Max
  split
  · rename_i h; simp; omega
  · rename_i h; simp; omega

/-- An accepted value is written as exactly four bytes from which it can be read back
(two's complement, little endian); so distinct accepted values give distinct bytes. -/
theorem hash_int_decodable (v : Int) (b : Bytes) (h : hashInt v = some b) :
    b.length = 4 ∧ decode32 b = some v :=
  ⟨hashInt_length h, decode32_hashInt h⟩

/-- Distinct accepted values are written as distinct bytes. -/
theorem hash_int_injective (v w : Int) (b : Bytes) (hv : hashInt v = some b)
    (hw : hashInt w = some b) : v = w := hashInt_inj hv hw

/-! ## framing -/

theorem framing_int (v w : Int) (a b x y : Bytes) (hv : hashInt v = some a)
    (hw : hashInt w = some b) (h : a ++ x = b ++ y) : v = w ∧ x = y := hashInt_prefix hv hw h

/-- `hash_string` writes the number of code points and then UTF-8, a prefix code: the string can be
split off the front of any stream (whatever follows). -/
theorem framing_string (s t : String) (a b x y : Bytes) (hs : hashString s = some a)
    (ht : hashString t = some b) (h : a ++ x = b ++ y) : s = t ∧ x = y :=
  hashString_prefix hs ht h

/-- `hash_attributes` writes version, count, byte length and then exactly that many bytes. -/
theorem framing_attributes (c c' : Nat) (blob blob' a a' x y : Bytes)
    (h1 : hashAttrs c blob = some a) (h2 : hashAttrs c' blob' = some a')
    (h : a ++ x = a' ++ y) : c = c' ∧ blob = blob' ∧ x = y := hashAttrs_prefix h1 h2 h

/-- The shape is written as fixed-width extents WITHOUT their number: it can be split off only when
the rank is known. -/
theorem framing_shape_given_rank (s s' : List Nat) (a a' x y : Bytes) (hr : s.length = s'.length)
    (h1 : shapeBytes s = some a) (h2 : shapeBytes s' = some a') (h : a ++ x = a' ++ y) :
    s = s' ∧ x = y := shapeBytes_prefix s s' a a' x y hr h1 h2 h

/-- The shape field alone is NOT decodable: its rank is not written. -/
theorem shape_rank_not_framed :
    ∃ (s s' : List Nat) (a a' x y : Bytes), shapeBytes s = some a ∧ shapeBytes s' = some a' ∧
      a ++ x = a' ++ y ∧ s ≠ s' :=
  ⟨[2], [2, 1], le32 2, le32 2 ++ le32 1, le32 1, [], by decide, by decide, by decide, by decide⟩

/-! ## what the stream depends on -/

theorem key_inputs (spec spec' : ConvSpec) (cid : ConvId) (ver : String) (ds ds' : Dataset)
    (h : geomRecords spec ds = geomRecords spec' ds') :
    datasetStream spec cid ver ds = datasetStream spec' cid ver ds' := by
  simp [datasetStream, h]

/-- *Global attributes* and the sizes of all *dimensions* (time steps among them) are not inputs. -/
theorem global_attrs_and_dims_not_input (spec : ConvSpec) (cid : ConvId) (ver : String)
    (ds : Dataset) (a : List (String × String)) (d : List (String × Nat)) :
    datasetStream spec cid ver { ds with attrs := a, dims := d } = datasetStream spec cid ver ds :=
  rfl

/-- *Data variables changed / time steps.*  Two datasets whose variables look the same to the
inventories (names, dimensions, coordinate status, string attributes, order) and whose inventory
variables carry the same records get the same stream — whatever the values, shapes, types and other
attributes of every other variable. -/
theorem non_geometry_data_not_input (spec : ConvSpec) (cid : ConvId) (ver : String)
    (ds ds' : Dataset) (hv : ds.views = ds'.views)
    (hr : ∀ names, inventory spec ds = some names → ∀ n ∈ names,
      (ds.var? n).map DVar.record = (ds'.var? n).map DVar.record) :
    datasetStream spec cid ver ds = datasetStream spec cid ver ds' := by
  apply key_inputs
  have hi : inventory spec ds' = inventory spec ds := by simp [inventory, hv]
  unfold geomRecords
  rw [hi]
  cases h : inventory spec ds with
  | none => rfl
  | some names =>
    simp only [Option.bind_some]
    exact mapM_option_congr _ _ names (hr names h)

/-- *Data variables added / removed.*  A variable `w` that the inventory neither finds by its
attributes or dimensions (`candidate`) nor looks up by name (`lookedUp`), and whose name is
not an inventory name, can be inserted anywhere among the variables — or, read from right
to left, removed — without changing the stream.  Global attributes and dimension sizes may
change at the same time. -/
theorem insert_variable_not_input (spec : ConvSpec) (cid : ConvId) (ver : String)
    (pre post : List DVar) (w : DVar) (a a' : List (String × String)) (d d' : List (String × Nat))
    (hc : candidate spec w.view = false)
    (hl : ∀ n ∈ lookedUp spec ((pre ++ post).map (·.view)), n ≠ w.view.name)
    (hn : ∀ names, inventory spec ⟨pre ++ post, a, d⟩ = some names → w.view.name ∉ names) :
    datasetStream spec cid ver ⟨pre ++ w :: post, a', d'⟩
      = datasetStream spec cid ver ⟨pre ++ post, a, d⟩ := by
  apply key_inputs
  have hi : inventory spec ⟨pre ++ w :: post, a', d'⟩ = inventory spec ⟨pre ++ post, a, d⟩ := by
    simp only [inventory, Dataset.views, List.map_append, List.map_cons]
    apply inventoryOf_insert _ _ _ _ hc
    simpa using hl
  unfold geomRecords
  rw [hi]
  cases h : inventory spec ⟨pre ++ post, a, d⟩ with
  | none => rfl
  | some names =>
    simp only [Option.bind_some]
    apply mapM_option_congr
    intro n hmem
    have hne : n ≠ w.view.name := fun e => hn names h (e ▸ hmem)
    simp only [Dataset.var?]
    rw [find?_insert]
    simp only [beq_eq_false_iff_ne, ne_eq]
    exact fun e => hne e.symm

/-- *Characteristic edge coordinates of a UGRID mesh are geometry*, whichever optional connectivity
tables are valid (`valid`) — in particular on a mesh with no `edge_dimension` attribute and no
edge_node / edge_face table, whose edge dimension is only the one these variables span: each of the
two names of the mesh's `edge_coordinates` attribute that exists as a variable is in the inventory. -/
theorem ugrid_edge_coordinates_are_geometry (ds : Views) (valid : List String) (mesh : VarView)
    (names : List String) (s x y n : String)
    (hm : meshVar ds none = some mesh) (ha : mesh.attr "edge_coordinates" = some s)
    (hs : splitCoord s = some (x, y)) (h : inventoryOf (.ugrid valid) ds = some names)
    (hn : n = x ∨ n = y) (hv : (ds.var? n).isSome = true) : n ∈ names := by
  have hec : optionalCoords ds mesh "edge_coordinates"
      = some ([x, y].filter fun n => (ds.var? n).isSome) := by
    simp [optionalCoords, ha, hs]
  have hmem : n ∈ [x, y].filter fun n => (ds.var? n).isSome := by
    rcases hn with rfl | rfl <;> simp [hv]
  simp only [inventoryOf, ugridNames, hm] at h
  split at h
  · split at h
    · rw [hec] at h
      split at h
      · rename_i ec fc hE hF
        cases hE
        cases h
        simp only [List.mem_append]
        exact Or.inl (Or.inr hmem)
      · cases h
    · cases h
  · cases h

/-! ## single edits of geometry content change the stream -/

theorem edit_rename_changes_stream (pre post post' : List GeomRec) (r r' : GeomRec)
    (c c' : ConvId) (ver ver' : String) (s s' : Bytes)
    (h : cacheStream (pre ++ r :: post) c ver = some s)
    (h' : cacheStream (pre ++ r' :: post') c' ver' = some s')
    (hne : r.name ≠ r'.name) : s ≠ s' := by
  rintro rfl
  obtain ⟨a, a', q, q', t, t', ha, ha', -, -, -, -, e⟩ := diverge h h'
  exact hne (hashVar_prefix_header ha ha' e).1

/-- *Dtype.*  … differs in its dtype name: the streams differ (whatever happens to its bytes). -/
theorem edit_dtype_changes_stream (pre post post' : List GeomRec) (r r' : GeomRec)
    (c c' : ConvId) (ver ver' : String) (s s' : Bytes)
    (h : cacheStream (pre ++ r :: post) c ver = some s)
    (h' : cacheStream (pre ++ r' :: post') c' ver' = some s')
    (hne : r.dtype ≠ r'.dtype) : s ≠ s' := by
  rintro rfl
  obtain ⟨a, a', q, q', t, t', ha, ha', -, -, -, -, e⟩ := diverge h h'
  exact hne (hashVar_prefix_header ha ha' e).2.1

/-- … differs in its number of elements: the streams differ. -/
theorem edit_size_changes_stream (pre post post' : List GeomRec) (r r' : GeomRec)
    (c c' : ConvId) (ver ver' : String) (s s' : Bytes)
    (h : cacheStream (pre ++ r :: post) c ver = some s)
    (h' : cacheStream (pre ++ r' :: post') c' ver' = some s')
    (hne : Ems.size r.shape ≠ Ems.size r'.shape) : s ≠ s' := by
  rintro rfl
  obtain ⟨a, a', q, q', t, t', ha, ha', -, -, -, -, e⟩ := diverge h h'
  exact hne (hashVar_prefix_header ha ha' e).2.2

/-- *Shape*, same rank: the streams differ, whatever else differs after it. -/
theorem edit_shape_same_rank_changes_stream (pre post post' : List GeomRec) (r r' : GeomRec)
    (c c' : ConvId) (ver ver' : String) (s s' : Bytes)
    (h : cacheStream (pre ++ r :: post) c ver = some s)
    (h' : cacheStream (pre ++ r' :: post') c' ver' = some s')
    (hrank : r.shape.length = r'.shape.length) (hne : r.shape ≠ r'.shape) : s ≠ s' := by
  rintro rfl
  obtain ⟨a, a', q, q', t, t', ha, ha', -, -, -, -, e⟩ := diverge h h'
  obtain ⟨n, tt, sz, sh, at_, hn, ht, hs, hsh, hat, rfl⟩ := hashVar_eq_some ha
  obtain ⟨n', tt', sz', sh', at', hn', ht', hs', hsh', hat', rfl⟩ := hashVar_eq_some ha'
  simp only [List.append_assoc] at e
  obtain ⟨_, e⟩ := hashString_prefix hn hn' e
  obtain ⟨_, e⟩ := hashString_prefix ht ht' e
  obtain ⟨_, e⟩ := hashInt_prefix hs hs' e
  exact hne (shapeBytes_prefix _ _ _ _ _ _ hrank hsh hsh' e).1

/-- *Shape with the same bytes*: one variable gets another shape, nothing else changes. -/
theorem edit_shape_changes_stream (pre post : List GeomRec) (r : GeomRec) (shape' : List Nat)
    (c : ConvId) (ver : String) (s s' : Bytes)
    (h : cacheStream (pre ++ r :: post) c ver = some s)
    (h' : cacheStream (pre ++ { r with shape := shape' } :: post) c ver = some s')
    (hne : r.shape ≠ shape') : s ≠ s' := by
  by_cases hrank : r.shape.length = shape'.length
  · exact edit_shape_same_rank_changes_stream pre post post r _ c c ver ver s s' h h' hrank hne
  · intro hss
    have hl : s.length = s'.length := by rw [hss]
    obtain ⟨p, a, q, t, hp, ha, hq, ht, rfl⟩ := cacheStream_split h
    obtain ⟨p', a', q', t', hp', ha', hq', ht', rfl⟩ := cacheStream_split h'
    rw [hp] at hp'; rw [hq] at hq'; rw [ht] at ht'
    cases hp'; cases hq'; cases ht'
    simp only [List.length_append, hashVar_length ha, hashVar_length ha', varLength, dataOffset] at hl
    omega

/-- *One value* (or any change of the raw bytes that keeps their number): same shape, other bytes ⇒
the streams differ, whatever else differs after the data. -/
theorem edit_value_changes_stream (pre post post' : List GeomRec) (r r' : GeomRec)
    (c c' : ConvId) (ver ver' : String) (s s' : Bytes)
    (h : cacheStream (pre ++ r :: post) c ver = some s)
    (h' : cacheStream (pre ++ r' :: post') c' ver' = some s')
    (hshape : r.shape = r'.shape) (hlen : r.data.length = r'.data.length)
    (hne : r.data ≠ r'.data) : s ≠ s' := by
  rintro rfl
  obtain ⟨a, a', q, q', t, t', ha, ha', -, -, -, -, e⟩ := diverge h h'
  obtain ⟨n, tt, sz, sh, at_, hn, ht, hs, hsh, hat, rfl⟩ := hashVar_eq_some ha
  obtain ⟨n', tt', sz', sh', at', hn', ht', hs', hsh', hat', rfl⟩ := hashVar_eq_some ha'
  simp only [List.append_assoc] at e
  obtain ⟨_, e⟩ := hashString_prefix hn hn' e
  obtain ⟨_, e⟩ := hashString_prefix ht ht' e
  obtain ⟨_, e⟩ := hashInt_prefix hs hs' e
  rw [hshape, hsh'] at hsh
  cases hsh
  exact hne (List.append_inj (List.append_cancel_left e) hlen).1

/-- *The bytes hashed are those of the values held in memory, whatever type the variable is stored
with*: two variables that differ in their value bytes only give different streams for ANY
`encoding['dtype']` (`encDtype`) — nothing is rounded to the storage type first. -/
theorem edit_value_changes_stream_any_storage (pre post : List GeomRec) (v : DVar) (d' : Bytes)
    (c : ConvId) (ver : String) (s s' : Bytes)
    (h : cacheStream (pre ++ v.record :: post) c ver = some s)
    (h' : cacheStream (pre ++ ({ v with data := d' } : DVar).record :: post) c ver = some s')
    (hlen : v.data.length = d'.length) (hne : v.data ≠ d') : s ≠ s' :=
  edit_value_changes_stream pre post post _ _ c c ver ver s s' h h' rfl hlen hne

/-- *Attribute add / change / remove*: same shape and bytes, another attribute count or other
attribute bytes ⇒ the streams differ, whatever follows.  (That different attributes HAVE different
bytes is the assumption on the serialiser, see the trusted base.) -/
theorem edit_attributes_changes_stream (pre post post' : List GeomRec) (r r' : GeomRec)
    (c c' : ConvId) (ver ver' : String) (s s' : Bytes)
    (h : cacheStream (pre ++ r :: post) c ver = some s)
    (h' : cacheStream (pre ++ r' :: post') c' ver' = some s')
    (hshape : r.shape = r'.shape) (hdata : r.data = r'.data)
    (hne : r.attrCount ≠ r'.attrCount ∨ r.attrBlob ≠ r'.attrBlob) : s ≠ s' := by
  rintro rfl
  obtain ⟨a, a', q, q', t, t', ha, ha', -, -, -, -, e⟩ := diverge h h'
  obtain ⟨n, tt, sz, sh, at_, hn, ht, hs, hsh, hat, rfl⟩ := hashVar_eq_some ha
  obtain ⟨n', tt', sz', sh', at', hn', ht', hs', hsh', hat', rfl⟩ := hashVar_eq_some ha'
  simp only [List.append_assoc] at e
  obtain ⟨_, e⟩ := hashString_prefix hn hn' e
  obtain ⟨_, e⟩ := hashString_prefix ht ht' e
  obtain ⟨_, e⟩ := hashInt_prefix hs hs' e
  rw [hshape, hsh'] at hsh
  cases hsh
  rw [hdata] at e
  obtain ⟨hc, hb, _⟩ := hashAttrs_prefix hat hat' (List.append_cancel_left (List.append_cancel_left e))
  rcases hne with h1 | h1
  · exact h1 hc
  · exact h1 hb

/-- *Convention* (module or class name) or package version: same records, another identity ⇒ the
streams differ. -/
theorem edit_convention_changes_stream (rs : List GeomRec) (c c' : ConvId) (ver ver' : String)
    (s s' : Bytes) (h : cacheStream rs c ver = some s) (h' : cacheStream rs c' ver' = some s')
    (hne : c ≠ c' ∨ ver ≠ ver') : s ≠ s' := by
  rintro rfl
  obtain ⟨g, t, hg, ht, rfl⟩ := cacheStream_eq_some h
  obtain ⟨g', t', hg', ht', e⟩ := cacheStream_eq_some h'
  rw [hg] at hg'; cases hg'
  have := List.append_cancel_left e
  subst this
  obtain ⟨hc, hv⟩ := trailer_inj ht ht'
  rcases hne with h1 | h1
  · exact h1 hc
  · exact h1 hv

/-- *One value*: overwriting byte `k` of the data of one variable overwrites exactly the
stream byte at `geomLength pre + dataOffset r + k` and leaves every other byte and the
length alone. -/
theorem edit_value_position (pre post : List GeomRec) (r : GeomRec) (c : ConvId) (ver : String)
    (s : Bytes) (k : Nat) (b : UInt8) (hk : k < r.data.length)
    (h : cacheStream (pre ++ r :: post) c ver = some s) :
    cacheStream (pre ++ { r with data := r.data.set k b } :: post) c ver
      = some (s.set (geomLength pre + dataOffset r + k) b) := by
  obtain ⟨p, a, q, t, hp, ha, hq, ht, rfl⟩ := cacheStream_split h
  obtain ⟨n, tt, sz, sh, at_, hn, htt, hs, hsh, hat, rfl⟩ := hashVar_eq_some ha
  have hvar : hashVar { r with data := r.data.set k b }
      = some (n ++ (tt ++ (sz ++ (sh ++ (r.data.set k b ++ at_))))) := by
    simp [hashVar, hn, htt, hs, hsh, hat]
  have hg := hashGeometry_append_of pre _ _ _ hp (hashGeometry_cons_of hvar hq)
  have hlen : geomLength pre + dataOffset r = (p ++ (n ++ (tt ++ (sz ++ sh)))).length := by
    simp only [List.length_append, hashGeometry_length pre p hp, hashString_length hn,
      hashString_length htt, hashInt_length hs, shapeBytes_length _ _ hsh, dataOffset]
    try omega
  simp only [cacheStream, hg, ht]
  congr 1
  have e1 : p ++ (n ++ (tt ++ (sz ++ (sh ++ (r.data ++ at_)))) ++ (q ++ t))
      = (p ++ (n ++ (tt ++ (sz ++ sh)))) ++ (r.data ++ (at_ ++ (q ++ t))) := by
    simp only [List.append_assoc]
  rw [e1, hlen, set_middle _ _ _ _ _ hk]
  simp only [List.append_assoc]

/-- `valuePos` (the position function the driver evaluates) is the position of `edit_value_position`. -/
theorem valuePos_split (pre post : List GeomRec) (r : GeomRec) (k : Nat) :
    valuePos (pre ++ r :: post) pre.length k = geomLength pre + dataOffset r + k := by
  simp [valuePos]

/-! ## injectivity -/

theorem stream_injective_partial (itemsize : String → Nat) (rs rs' : List GeomRec)
    (c c' : ConvId) (ver ver' : String) (s : Bytes)
    (hwf : ∀ r ∈ rs, WellFormed itemsize r) (hwf' : ∀ r ∈ rs', WellFormed itemsize r)
    (hr : SameRanks rs rs')
    (h : cacheStream rs c ver = some s) (h' : cacheStream rs' c' ver' = some s) :
    rs = rs' ∧ c = c' ∧ ver = ver' := by
  obtain ⟨g, t, hg, ht, rfl⟩ := cacheStream_eq_some h
  obtain ⟨g', t', hg', ht', e⟩ := cacheStream_eq_some h'
  obtain ⟨hrs, htt⟩ := hashGeometry_prefix_partial itemsize rs rs' g g' t t' hwf hwf' hr hg hg' e
  subst htt
  exact ⟨hrs, trailer_inj ht ht'⟩

/-- Without `SameRanks` the stream is not injective, even on well-formed records: a rank-1 and a
rank-2 variable (with different data and attribute bytes) that contribute identical bytes. -/
theorem stream_not_injective :
    ∃ (rs rs' : List GeomRec) (c : ConvId) (ver : String) (s : Bytes),
      cacheStream rs c ver = some s ∧ cacheStream rs' c ver = some s ∧ rs ≠ rs' ∧
      (∀ r ∈ rs, WellFormed (fun _ => 4) r) ∧ (∀ r ∈ rs', WellFormed (fun _ => 4) r) := by
  refine ⟨[witnessA], [witnessB], ⟨"m", "C"⟩, "1", _, rfl, ?_, by decide, ?_, ?_⟩
  · decide
  · simp [WellFormed, witnessA, Ems.size, le32]
  · simp [WellFormed, witnessB, Ems.size, le32]

/-! ## from the stream to the key -/

/-- With a collision-free hash, whatever changes the stream changes the key. -/
theorem edit_changes_key {D : Type} (H : Bytes → D) (hH : ∀ x y, H x = H y → x = y)
    (rs rs' : List GeomRec) (c c' : ConvId) (ver ver' : String) (s s' : Bytes)
    (h : cacheStream rs c ver = some s) (h' : cacheStream rs' c' ver' = some s') (hne : s ≠ s') :
    cacheKey H rs c ver ≠ cacheKey H rs' c' ver' := by
  simp only [cacheKey, h, h', Option.map_some, ne_eq, Option.some.injEq]
  exact fun e => hne (hH _ _ e)

/-- … and whatever leaves the stream alone leaves the key alone, for ANY hash. -/
theorem same_stream_same_key {D : Type} (H : Bytes → D) (rs rs' : List GeomRec) (c c' : ConvId)
    (ver ver' : String) (h : cacheStream rs c ver = cacheStream rs' c' ver') :
    cacheKey H rs c ver = cacheKey H rs' c' ver' := by
  simp [cacheKey, h]

/-! ## finding F10: marshal is not a function of the attribute content -/

/-- Two attribute dictionaries with the same texts in the same order — one made of interned
strings (a literal in source code), one of freshly allocated strings (read from a file) —
are serialised differently by CPython's `marshal.dumps(…, 4)`. -/
theorem marshal_flags_matter :
    ∃ a b : List (PyStr × PyStr), dictContent a = dictContent b ∧
      marshalStrDict true a ≠ marshalStrDict true b :=
  ⟨[(⟨"units", true, true, 1⟩, ⟨"m", true, true, 2⟩)],
   [(⟨"units", false, false, 1⟩, ⟨"m", true, true, 2⟩)], by decide, by decide⟩

/-- Even the reference count alone matters: the same uninterned string, held once or twice. -/
theorem marshal_refcount_matters :
    ∃ a b : List (PyStr × PyStr), dictContent a = dictContent b ∧
      a.map (fun p => (p.1.interned, p.2.interned)) = b.map (fun p => (p.1.interned, p.2.interned)) ∧
      marshalStrDict true a ≠ marshalStrDict true b :=
  ⟨[(⟨"units", false, false, 1⟩, ⟨"degrees_north", false, false, 2⟩)],
   [(⟨"units", false, false, 1⟩, ⟨"degrees_north", false, true, 2⟩)], by decide, by decide, by decide⟩

/-- Hence no serialiser that depends on the content only — which is what the property
demands of the attribute bytes — agrees with it. -/
theorem marshal_not_a_function_of_content :
    ¬ ∃ ser : List (String × String) → Bytes, ∀ items, marshalStrDict true items = ser (dictContent items) := by
  rintro ⟨ser, h⟩
  obtain ⟨a, b, hc, hne⟩ := marshal_flags_matter
  exact hne (by rw [h a, h b, hc])

/-! ## non-vacuity -/

/-- a two-variable CF-like stream exists (every hypothesis `cacheStream … = some s` is satisfiable) -/
example : (cacheStream
    [{ name := "lon", dtype := "float64", shape := [2], data := List.replicate 16 0, attrCount := 1, attrBlob := [0xfb, 0x30] },
     { name := "lät", dtype := "float64", shape := [2, 1], data := List.replicate 16 1, attrCount := 0, attrBlob := [0x7b, 0x30] }]
    ⟨"emsarray.conventions.grid", "CFGrid1D"⟩ "1.0.0").isSome = true := by decide

/-- the records of `stream_injective_partial`'s hypotheses exist: well formed, equal ranks -/
example : WellFormed (fun _ => 8)
    ({ name := "lon", dtype := "float64", shape := [2], data := (List.replicate 16 0), attrCount := 0, attrBlob := [] } : GeomRec) := by
  simp [WellFormed, Ems.size]

/-- an inventory that is `some`: a CF grid with discovered coordinates and one existing bounds variable -/
example : inventoryOf (.cfGrid none none)
    [⟨"t", ["time"], true, []⟩,
     ⟨"lat", ["lat"], true, [("units", "degrees_north")]⟩,
     ⟨"lon", ["lon"], true, [("standard_name", "longitude"), ("bounds", "lon_bnds")]⟩,
     ⟨"lon_bnds", ["lon", "nv"], false, []⟩,
     ⟨"temp", ["time", "lat", "lon"], false, [("units", "K")]⟩]
    = some ["lon", "lat", "lon_bnds"] := by decide

/-- `insert_variable_not_input`'s hypotheses hold for a data variable `temp` added to that grid -/
example : candidate (.cfGrid none none) ⟨"temp", ["time", "lat", "lon"], false, [("units", "K")]⟩ = false
    ∧ "temp" ∉ lookedUp (.cfGrid none none)
      [⟨"lat", ["lat"], true, [("units", "degrees_north")]⟩,
       ⟨"lon", ["lon"], true, [("standard_name", "longitude"), ("bounds", "lon_bnds")]⟩] := by decide

/-- a UGRID inventory with one valid optional connectivity and face coordinates -/
example : inventoryOf (.ugrid ["face_edge_connectivity"])
    [⟨"Mesh2", [], false, [("cf_role", "mesh_topology"), ("node_coordinates", "nx ny"),
        ("face_node_connectivity", "fn"), ("face_edge_connectivity", "fe"), ("edge_node_connectivity", "en"),
        ("face_coordinates", "fx fy")]⟩,
     ⟨"nx", ["n"], false, []⟩, ⟨"ny", ["n"], false, []⟩, ⟨"fn", ["f", "m"], false, []⟩,
     ⟨"fe", ["f", "m"], false, []⟩, ⟨"en", ["e", "two"], false, []⟩, ⟨"fx", ["f"], false, []⟩, ⟨"fy", ["f"], true, []⟩]
    = some ["Mesh2", "fn", "nx", "ny", "fe", "fx", "fy"] := by decide

/-- `ugrid_edge_coordinates_are_geometry`'s hypotheses hold on a mesh WITHOUT an edge dimension (no valid
optional table, no edge table at all): the edge coordinates are in the inventory -/
example : inventoryOf (.ugrid [])
    [⟨"Mesh2", [], false, [("cf_role", "mesh_topology"), ("node_coordinates", "nx ny"),
        ("face_node_connectivity", "fn"), ("edge_coordinates", "ex ey")]⟩,
     ⟨"nx", ["n"], false, []⟩, ⟨"ny", ["n"], false, []⟩, ⟨"fn", ["f", "m"], false, []⟩,
     ⟨"ex", ["e"], false, []⟩, ⟨"ey", ["e"], true, []⟩]
    = some ["Mesh2", "fn", "nx", "ny", "ex", "ey"] := by decide

/-- `edit_value_changes_stream_any_storage`: a float64 variable stored as float32 whose last byte changes -/
example : ∃ s s', cacheStream [(⟨⟨"lon", ["lon"], true, []⟩, "float64", some "float32", [1],
      [0, 0, 0, 0, 0, 0, 0xf0, 0x3f], 0, [0x7b, 0x30]⟩ : DVar).record] ⟨"m", "C"⟩ "1" = some s
    ∧ cacheStream [(⟨⟨"lon", ["lon"], true, []⟩, "float64", some "float32", [1],
      [1, 0, 0, 0, 0, 0, 0xf0, 0x3f], 0, [0x7b, 0x30]⟩ : DVar).record] ⟨"m", "C"⟩ "1" = some s' ∧ s ≠ s' :=
  ⟨_, _, rfl, rfl, by decide⟩

/-- out-of-range and in-range `hash_int` -/
example : hashInt 2147483648 = none ∧ hashInt (-2147483649) = none
    ∧ hashInt 1234 = some [0xd2, 0x04, 0, 0] ∧ hashInt (-1) = some [0xff, 0xff, 0xff, 0xff] := by decide

end Ems.C16

namespace Ems.C16
open Ems Ems.CacheKey

/-! ## the order of the hashed fields is that of the code (T)

`harness/tables.py` translates the loop body of `Convention.hash_geometry`, the body of `make_cache_key` and the three
hash helpers from their ASTs into (hash function, what is hashed) lists, in statement order, regenerated into
`Gen/Tables.lean` on every run (a statement of any other form becomes an `unknown` entry).  The model's own
declaration of its field order (`Core/CacheKey.lean`: `hashVarFields`, `trailerFields`, …) equals the generated lists,
and the model's streams are the concatenation of the declared pieces in the declared order — so swapping, dropping or
adding a hashed field in emsarray breaks a named obligation. -/

theorem hash_fields_generated : Ems.Gen.hashGeometryFields = hashVarFields := by decide +kernel

theorem hash_loop_generated : Ems.Gen.hashGeometryOver = hashGeometryOver := by decide +kernel

theorem trailer_generated :
    Ems.Gen.cacheKeyTrailer = trailerFields ∧ Ems.Gen.makeCacheKeyCalls = makeCacheKeyFields := by
  decide +kernel

theorem hash_helpers_generated :
    Ems.Gen.hashStringCalls = hashStringFields ∧ Ems.Gen.hashAttributesCalls = hashAttrsFields
      ∧ Ems.Gen.hashIntCalls = hashIntFields := by
  decide +kernel

theorem fieldBytes_source (r : GeomRec) (v : VarField) : fieldBytes r v.source = v.bytes r := by
  cases v <;> rfl

theorem hashVar_eq_fields (r : GeomRec) : hashVar r = seqBytes (hashVarFields.map (fieldBytes r)) := by
  have h : hashVarFields.map (fieldBytes r) = hashVarOrder.map (VarField.bytes r) := by
    simp [hashVarFields, List.map_map, Function.comp_def, fieldBytes_source]
  rw [h]
  simp only [hashVarOrder, List.map, VarField.bytes, seqBytes, hashVar]
  cases hashString r.name <;> cases hashString r.dtype <;> cases hashInt (Ems.size r.shape)
    <;> cases shapeBytes r.shape <;> cases hashAttrs r.attrCount r.attrBlob <;> simp

theorem trailerFieldBytes_source (c : ConvId) (ver : String) (v : TrailerField) :
    trailerFieldBytes c ver v.source = v.bytes c ver := by
  cases v <;> rfl

theorem trailer_eq_fields (c : ConvId) (ver : String) :
    trailer c ver = seqBytes (trailerFields.map (trailerFieldBytes c ver)) := by
  have h : trailerFields.map (trailerFieldBytes c ver) = trailerOrder.map (TrailerField.bytes c ver) := by
    simp [trailerFields, List.map_map, Function.comp_def, trailerFieldBytes_source]
  rw [h]
  simp only [trailerOrder, List.map, TrailerField.bytes, seqBytes, trailer]
  cases hashString c.module <;> cases hashString c.className <;> cases hashString ver <;> simp

theorem hashGeometry_eq_seq (rs : List GeomRec) : hashGeometry rs = seqBytes (rs.map hashVar) := by
  induction rs with
  | nil => rfl
  | cons r rs ih => simp only [hashGeometry, List.map, seqBytes, ih]

theorem cacheStream_eq_seq (rs : List GeomRec) (c : ConvId) (ver : String) :
    cacheStream rs c ver = seqBytes [hashGeometry rs, trailer c ver] := by
  simp only [cacheStream, seqBytes]
  cases hashGeometry rs <;> cases trailer c ver <;> simp

theorem hashChars_eq_seq (cs : List Char) :
    hashChars cs = seqBytes [hashInt cs.length, some (utf8Chars cs)] := by
  simp only [hashChars, seqBytes]
  cases hashInt cs.length <;> simp

theorem hashAttrs_eq_seq (count : Nat) (blob : Bytes) :
    hashAttrs count blob = seqBytes [hashInt 4, hashInt count, hashInt blob.length, some blob] := by
  simp only [hashAttrs, seqBytes]
  cases hashInt 4 <;> cases hashInt count <;> cases hashInt blob.length <;> simp

end Ems.C16
