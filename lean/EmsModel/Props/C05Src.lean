import EmsModel.Props.C05
import EmsModel.Gen.SelectSrc
import EmsModel.Lemmas.SelectSrc
/-!
# C05 — the index-selection functions as read from the source compute the hand model

`Gen/SelectSrc.lean` is regenerated on every run from the source text of `DimensionConvention.selector_for_indexes`,
`Convention.select_indexes`, `select_index`, `select_point` and `drop_geometry` (harness/trans_selectsrc.py).  The theorems
here run those generated programs (evaluators of `Core/SelectSrc.lean`) and prove, for every grid table, dataset and request
list, that they compute `Ems.selectIndexes` of `Core/Select.lean`, which the C05 property theorems are about.
-/
namespace Ems.C05
open Ems Ems.NArr Ems.SelectSrc

variable {α : Type}

/-- what `selector_for_indexes` is expected to build: refusals (no index, mixed kinds, unknown kind, tuples of the wrong
length), else one variable per grid dimension of the common kind, in `grid_dimensions` order, the `i`-th holding
component `i` of every index in request order -/
def selectorModel (grids : List (String × List Dim)) (indexes : List (String × List Nat)) (idim : String) :
    Option SelVal :=
  match indexes with
  | [] => none
  | (k, _) :: _ =>
    if indexes.any (fun i => i.1 != k) then none else
    match (grids.find? (fun g => g.1 == k)).map (·.2) with
    | none => none
    | some gd =>
      if !indexes.all (fun i => i.2.length == gd.length) then none else
      some (idim, (List.range gd.length).map fun i => (gd.getD i ("", 0), indexes.map (·.2.getD i 0)))

/-- `DimensionConvention.selector_for_indexes(indexes, index_dimension=idim)` as read from the source — the empty-list
refusal, then the unpacking, then the `len(set(grid_kinds)) > 1` refusal, the grid kind of the first index, its
`grid_dimensions` enumerated in order, variable `dimension` holding `index_array[:, i]` along `index_dimension` — computes
`selectorModel`, for every grid table and request list. Breaks when `> 1` becomes `> 2`, the column becomes a row or a
constant column, the dimensions are enumerated reversed, or a refusal is dropped or moved. -/
theorem selector_src_spec (grids : List (String × List Dim)) (dsDims : List String)
    (indexes : List (String × List Nat)) (idim : String) :
    Gen.SelectSrc.selectorSrc.run grids dsDims indexes (some idim) = selectorModel grids indexes idim := by
  cases indexes with
  | nil => simp [Selector.run, Gen.SelectSrc.selectorSrc, guardsPass, Guard.fires, Qty.eval, Cmp.eval, selectorModel]
  | cons i0 rest =>
    obtain ⟨k, c⟩ := i0
    have hk := numKinds_gt_one k c rest
    simp only [Selector.run, Gen.SelectSrc.selectorSrc, guardsPass, Guard.fires, Qty.eval, Cmp.eval, selectorModel,
      Slice.known, Slice.eval, DimOrder.apply, hk]
    by_cases hmix : ((k, c) :: rest).any (fun i => i.1 != k) = true
    · simp [hmix]
    · have hmix' : ((k, c) :: rest).any (fun i => i.1 != k) = false := by simpa using hmix
      rw [hmix']
      simp only [List.length_cons, Bool.false_eq_true, if_false]
      cases hg : (grids.find? (fun g => g.1 == k)).map (·.2) with
      | none => simp [hg]
      | some gd => simp [hg]

/-- without an `index_dimension` the selector lies along `find_unused_dimension(self.dataset, 'index')` -/
theorem selector_src_default_dim (grids : List (String × List Dim)) (dsDims : List String)
    (indexes : List (String × List Nat)) :
    Gen.SelectSrc.selectorSrc.run grids dsDims indexes none
      = Gen.SelectSrc.selectorSrc.run grids dsDims indexes (some (NArr.findUnused dsDims "index")) := by
  simp [Selector.run, Gen.SelectSrc.selectorSrc]

/-- which column goes where: in the selector the source builds, the `i`-th variable is named after (and sized as) the `i`-th
grid dimension of the common kind, and its `k`-th value is component `i` of request `k` -/
theorem selector_src_columns (grids : List (String × List Dim)) (dsDims : List String)
    (indexes : List (String × List Nat)) (idim along : String) (sel : List (Dim × List Nat))
    (h : Gen.SelectSrc.selectorSrc.run grids dsDims indexes (some idim) = some (along, sel)) :
    along = idim ∧ ∃ k gd, (grids.find? (fun g => g.1 == k)).map (·.2) = some gd ∧ (∀ i ∈ indexes, i.1 = k) ∧
      sel.map (·.1) = gd ∧ sel.map (·.2) = (List.range gd.length).map fun i => indexes.map (·.2.getD i 0) := by
  rw [selector_src_spec] at h
  cases indexes with
  | nil => simp [selectorModel] at h
  | cons i0 rest =>
    obtain ⟨k, c⟩ := i0
    simp only [selectorModel] at h
    split at h
    · simp at h
    · rename_i hmix
      cases hg : (grids.find? (fun g => g.1 == k)).map (·.2) with
      | none => simp [hg] at h
      | some gd =>
        simp only [hg] at h
        split at h
        · simp at h
        · simp only [Option.some.injEq, Prod.mk.injEq] at h
          obtain ⟨h1, h2⟩ := h
          refine ⟨h1.symm, k, gd, hg, ?_, ?_, ?_⟩
          · intro i hi
            have hmix' : ((k, c) :: rest).any (fun i => i.1 != k) = false := by simpa using hmix
            have := List.any_eq_false.1 hmix' i hi
            simpa using this
          · rw [← h2, List.map_map]
            exact range_map_getD gd ("", 0)
          · rw [← h2, List.map_map]; rfl

/-- `Convention.drop_geometry()` as read from the source is the dataset without the geometry variables -/
theorem drop_geometry_src_spec (ds : DSet α) (geometry : List String) :
    Gen.SelectSrc.dropGeomSrc.run ds geometry = some (ds.filter fun v => !geometry.contains v.1) := by
  simp [DropGeom.run, Gen.SelectSrc.dropGeomSrc]

/-- the selection on a given base dataset, for a selector satisfying `selectorModel` -/
theorem isel_model [Inhabited α] (gd : List Dim) (base : DSet α) (idim : String) (reqs : List (List Nat))
    (hlen : ∀ r ∈ reqs, r.length = gd.length) :
    selIselBy base idim reqs.length
        ((List.range gd.length).map fun i => (gd.getD i ("", 0), reqs.map (·.getD i 0)))
      = (if reqs.any (fun r => !decide (InRange (gd.map (·.2)) r)) then none else
         if (gd.map (·.1)).any (fun d => !base.any (fun v => v.2.names.contains d)) then none else
         some (base.map fun v => (v.1, v.2.selectVar (gd.map (·.1)) reqs idim))) := by
  have hnames : ((List.range gd.length).map fun i => (gd.getD i ("", 0), reqs.map (·.getD i 0))).map (·.1) = gd := by
    rw [List.map_map]; exact range_map_getD gd ("", 0)
  have hrows : (List.range reqs.length).map (fun k =>
      ((List.range gd.length).map fun i => (gd.getD i ("", 0), reqs.map (·.getD i 0))).map (·.2.getD k 0)) = reqs := by
    have := rows_of_cols reqs gd.length hlen
    simpa [List.map_map, Function.comp_def] using this
  have hn1 : ((List.range gd.length).map fun i => (gd.getD i ("", 0), reqs.map (·.getD i 0))).map (·.1.1)
      = gd.map (·.1) := by
    have h : ((List.range gd.length).map fun i => (gd.getD i ("", 0), reqs.map (·.getD i 0))).map (·.1.1)
        = (((List.range gd.length).map fun i => (gd.getD i ("", 0), reqs.map (·.getD i 0))).map (·.1)).map (·.1) := by
      simp only [List.map_map, Function.comp_def]
    rw [h, hnames]
  have hn2 : ((List.range gd.length).map fun i => (gd.getD i ("", 0), reqs.map (·.getD i 0))).map (·.1.2)
      = gd.map (·.2) := by
    have h : ((List.range gd.length).map fun i => (gd.getD i ("", 0), reqs.map (·.getD i 0))).map (·.1.2)
        = (((List.range gd.length).map fun i => (gd.getD i ("", 0), reqs.map (·.getD i 0))).map (·.1)).map (·.2) := by
      simp only [List.map_map, Function.comp_def]
    rw [h, hnames]
  simp only [selIselBy, hrows, hn1, hn2]

/-- `Convention.select_indexes(indexes, index_dimension=idim, drop_geometry=True)` as read from the source — the selector
of `selector_for_indexes`, the base `self.drop_geometry()`, the variables kept = those sharing at least one dimension with
the selector's variables, `utils.extract_vars`, `isel(selector)` — computes the hand model `Ems.selectIndexes`, for every
grid table, dataset, geometry list and request list. Breaks when the kept-variables test becomes "all dimensions
shared", `drop_geometry` is ignored, or any mutation of `selector_for_indexes` listed at `selector_src_spec`. -/
theorem select_indexes_src_spec [Inhabited α] (grids : List (String × List Dim)) (ds : DSet α)
    (geometry dsDims : List String) (indexes : List (String × List Nat)) (idim : String) :
    Gen.SelectSrc.selIdxSrc.run Gen.SelectSrc.selectorSrc Gen.SelectSrc.dropGeomSrc grids ds geometry dsDims indexes
        (some idim) true
      = selectIndexes grids ds geometry indexes idim := by
  simp only [SelIdx.run, selector_src_spec]
  simp only [Gen.SelectSrc.selIdxSrc, KeepTest.known, Base.eval, drop_geometry_src_spec, KeepTest.eval,
    Bool.and_self, Bool.not_true, Bool.false_eq_true, if_false, if_true]
  cases indexes with
  | nil => simp [selectorModel, selectIndexes]
  | cons i0 rest =>
    obtain ⟨k, c⟩ := i0
    simp only [selectorModel, selectIndexes]
    by_cases hmix : ((k, c) :: rest).any (fun i => i.1 != k) = true
    · simp only [hmix, if_true]
    · simp only [hmix, Bool.false_eq_true, if_false]
      cases hg : (grids.find? (fun g => g.1 == k)).map (·.2) with
      | none => simp
      | some gd =>
        simp only []
        by_cases hlen : ((k, c) :: rest).all (fun i => i.2.length == gd.length) = true
        · have hlen' : ∀ r ∈ ((k, c) :: rest).map (·.2), r.length = gd.length := by
            intro r hr
            rcases List.mem_map.1 hr with ⟨i, hi, rfl⟩
            simpa using List.all_eq_true.1 hlen i hi
          have hcols : ((List.range gd.length).map fun i => (gd.getD i ("", 0), ((k, c) :: rest).map (·.2.getD i 0)))
              = ((List.range gd.length).map fun i =>
                  (gd.getD i ("", 0), (((k, c) :: rest).map (·.2)).map (·.getD i 0))) := by
            simp [List.map_map, Function.comp_def]
          have hnames : ((List.range gd.length).map fun i =>
              (gd.getD i ("", 0), (((k, c) :: rest).map (·.2)).map (·.getD i 0))).map (·.1.1) = gd.map (·.1) := by
            have h : ((List.range gd.length).map fun i =>
                (gd.getD i ("", 0), (((k, c) :: rest).map (·.2)).map (·.getD i 0))).map (·.1.1)
                = (((List.range gd.length).map fun i =>
                    (gd.getD i ("", 0), (((k, c) :: rest).map (·.2)).map (·.getD i 0))).map (·.1)).map (·.1) := by
              simp only [List.map_map, Function.comp_def]
            have hnm : ((List.range gd.length).map fun i =>
                (gd.getD i ("", 0), (((k, c) :: rest).map (·.2)).map (·.getD i 0))).map (·.1) = gd := by
              rw [List.map_map]; exact range_map_getD gd ("", 0)
            rw [h, hnm]
          have hl : ((k, c) :: rest).length = (((k, c) :: rest).map (·.2)).length := by simp
          simp only [hlen, Bool.not_true, Bool.false_eq_true, if_false, hcols, hnames]
          rw [hl, isel_model gd _ idim _ hlen']
          simp only [keptVars, List.filter_filter, List.any_map, Function.comp_def, Bool.and_comm]
        · have hlen' : ((k, c) :: rest).all (fun i => i.2.length == gd.length) = false := by simpa using hlen
          simp only [hlen', Bool.not_false, if_true]
          obtain ⟨i, hi, hbad⟩ : ∃ i ∈ (k, c) :: rest, i.2.length ≠ gd.length := by
            have := List.all_eq_false.1 hlen'
            obtain ⟨i, hi, h⟩ := this
            exact ⟨i, hi, by simpa using h⟩
          have : ((k, c) :: rest).any (fun i => !decide (InRange (gd.map (·.2)) i.2)) = true := by
            rw [List.any_eq_true]
            refine ⟨i, hi, ?_⟩
            have : ¬ InRange (gd.map (·.2)) i.2 := by
              intro h; exact hbad (by simpa using ((inRange_iff _ _).1 h).1)
            simp [this]
          rw [if_pos this]

/-- with `drop_geometry=False` the same program selects from the whole dataset: the model with no geometry to drop -/
theorem select_indexes_src_keep_geometry [Inhabited α] (grids : List (String × List Dim)) (ds : DSet α)
    (geometry dsDims : List String) (indexes : List (String × List Nat)) (idim : String) :
    Gen.SelectSrc.selIdxSrc.run Gen.SelectSrc.selectorSrc Gen.SelectSrc.dropGeomSrc grids ds geometry dsDims indexes
        (some idim) false
      = selectIndexes grids ds [] indexes idim := by
  rw [← select_indexes_src_spec grids ds [] dsDims indexes idim]
  simp [SelIdx.run, Gen.SelectSrc.selIdxSrc, Base.eval, drop_geometry_src_spec]

/-- the refusals of the property, restated on the program read from the source: no index -/
theorem empty_refused_src [Inhabited α] (grids : List (String × List Dim)) (ds : DSet α) (geometry dsDims : List String)
    (idim : String) :
    Gen.SelectSrc.selIdxSrc.run Gen.SelectSrc.selectorSrc Gen.SelectSrc.dropGeomSrc grids ds geometry dsDims []
      (some idim) true = none := by
  rw [select_indexes_src_spec]; exact empty_refused grids ds geometry idim

/-- … indexes of different grid kinds -/
theorem mixed_kinds_refused_src [Inhabited α] (grids : List (String × List Dim)) (ds : DSet α)
    (geometry dsDims : List String) (idim : String) (k : String) (c : List Nat) (rest : List (String × List Nat))
    (i : String × List Nat) (hi : i ∈ rest) (hne : i.1 ≠ k) :
    Gen.SelectSrc.selIdxSrc.run Gen.SelectSrc.selectorSrc Gen.SelectSrc.dropGeomSrc grids ds geometry dsDims
      ((k, c) :: rest) (some idim) true = none := by
  rw [select_indexes_src_spec]; exact mixed_kinds_refused grids ds geometry idim k c rest i hi hne

/-- `Convention.select_index(index, drop_geometry)` as read from the source is, up to the final
`squeeze(dim=index_dimension, drop=False)`, the model's selection of the one-element request list along
`find_unused_dimension(self.dataset, 'index')` -/
theorem select_index_src_spec [Inhabited α] (grids : List (String × List Dim)) (ds : DSet α)
    (geometry dsDims : List String) (index : String × List Nat) :
    Gen.SelectSrc.selOneSrc.run Gen.SelectSrc.selIdxSrc Gen.SelectSrc.selectorSrc Gen.SelectSrc.dropGeomSrc grids ds
        geometry dsDims index true
      = (selectIndexes grids ds geometry [index] (NArr.findUnused dsDims "index")).map
          fun r => (NArr.findUnused dsDims "index", r) := by
  simp only [SelOne.run, Gen.SelectSrc.selOneSrc, select_indexes_src_spec]
  simp

/-- `Convention.select_point(point)` as read from the source: a point that misses the model is refused before anything is
selected, a hit is `select_index` of the hit's native index -/
theorem select_point_src_spec [Inhabited α] (grids : List (String × List Dim)) (ds : DSet α)
    (geometry dsDims : List String) (hit : Option (String × List Nat)) :
    Gen.SelectSrc.selPointSrc.run Gen.SelectSrc.selOneSrc Gen.SelectSrc.selIdxSrc Gen.SelectSrc.selectorSrc
        Gen.SelectSrc.dropGeomSrc grids ds geometry dsDims hit
      = match hit with
        | none => none
        | some index => (selectIndexes grids ds geometry [index] (NArr.findUnused dsDims "index")).map
            fun r => (NArr.findUnused dsDims "index", r) := by
  cases hit with
  | none => simp [SelPoint.run, Gen.SelectSrc.selPointSrc]
  | some index =>
    simp only [SelPoint.run, Gen.SelectSrc.selPointSrc, select_index_src_spec]
    simp

/-- the translator read everything -/
theorem select_src_no_complaints : Gen.SelectSrc.complaints = [] := rfl

/-! ### non-vacuity: the generated programs select on a concrete dataset -/

def srcExGrids : List (String × List Dim) := [("face", [("y", 2), ("x", 3)])]
def srcExDs : DSet (Option Int) :=
  [("temp", { dims := [("y", 2), ("t", 2), ("x", 3)],
              data := [some 0, some 1, some 2, some 3, some 4, some 5, some 6, some 7, some 8, some 9, some 10, none] }),
   ("time", { dims := [("t", 2)], data := [some 100, some 200] }),
   ("lon", { dims := [("y", 2), ("x", 3)], data := [some 0, some 1, some 2, some 3, some 4, some 5] })]

example : Gen.SelectSrc.selectorSrc.run srcExGrids ["y", "t", "x"] [("face", [1, 2]), ("face", [0, 1])] (some "index")
    = some ("index", [(("y", 2), [1, 0]), (("x", 3), [2, 1])]) := by decide

example : (Gen.SelectSrc.selIdxSrc.run Gen.SelectSrc.selectorSrc Gen.SelectSrc.dropGeomSrc srcExGrids srcExDs ["lon"]
    ["y", "t", "x"] [("face", [1, 2]), ("face", [0, 1])] (some "index") true).map (·.map (·.1)) = some ["temp"] := by
  rw [select_indexes_src_spec]; decide

end Ems.C05
