import EmsModel.Core.Polygons
import EmsModel.Core.GeomCover
import EmsModel.Core.ConvReads
import EmsModel.Lemmas.Polygons
import EmsModel.Lemmas.GeomBox
import EmsModel.Lemmas.BBox
import EmsModel.Lemmas.NpPipelines
import EmsModel.Lemmas.NpDerived2d
import Mathlib.Algebra.Order.Field.Rat
import Mathlib.Tactic.NormNum
import Mathlib.Tactic.Linarith
/-!
# C06 — cell polygons and dataset extent are faithful to the dataset's coordinates

Property theorems only.  Every statement is for arbitrary grid sizes / face sizes.
Geometry validity is a parameter `isValid : Poly → Bool` (GEOS in the real code).
-/
namespace Ems.C06
open Ems

/-! ### CF 1-D -/

/-- documented corner order of an axis-aligned cell -/
theorem rect_corners (x0 x1 y0 y1 : Rat) :
    rect (x0, x1) (y0, y1) = [(x0, y0), (x1, y0), (x1, y1), (x0, y1)] := rfl

theorem cf1d_length (lonb latb : List (Rat × Rat)) :
    (cf1dPolys lonb latb).length = latb.length * lonb.length := by
  unfold cf1dPolys
  exact flatMap_length_uniform _ lonb.length latb (by intro a _; simp)

/-- Cell `(j, i)` — linear position `j * nx + i` — is exactly the rectangle spanned by the
`i`-th longitude bounds and the `j`-th latitude bounds. -/
theorem cf1d_polygon_at (lonb latb : List (Rat × Rat)) (j i : Nat)
    (hj : j < latb.length) (hi : i < lonb.length) :
    (cf1dPolys lonb latb)[j * lonb.length + i]? = some (some (rect lonb[i] latb[j])) := by
  unfold cf1dPolys
  rw [flatMap_getElem_uniform _ lonb.length latb (by intro a _; simp) j i hj hi]
  simp [hi]

/-- Without stored bounds there is one bound pair per coordinate value (needs ≥ 2 values). -/
theorem midBounds_length (vals : List Rat) (h : 2 ≤ vals.length) :
    ∃ b, midBounds vals = some b ∧ b.length = vals.length := by
  match vals, h with
  | v0 :: v1 :: rest, _ =>
    refine ⟨_, rfl, ?_⟩
    simp

theorem midBounds_short (vals : List Rat) (h : vals.length < 2) : midBounds vals = none := by
  match vals, h with
  | [], _ => rfl
  | [_], _ => rfl

theorem avg_getElem : ∀ (l : List Rat) (t : Nat), t + 1 < l.length →
    ((l.zip (l.drop 1)).map (fun p => (p.2 + p.1) / 2))[t]? = some ((l.getD (t + 1) 0 + l.getD t 0) / 2)
  | [], t, h => by simp at h
  | [_], t, h => by simp at h
  | a :: b :: r, 0, _ => by simp
  | a :: b :: r, t + 1, h => by
    have ih := avg_getElem (b :: r) t (by simpa using h)
    simpa using ih

/-- the list of cell edges `mids` that `midBounds` pairs up -/
def mids (vals : List Rat) : List Rat :=
  match vals with
  | v0 :: v1 :: _ =>
    let n := vals.length
    let last := vals.getD (n - 1) 0
    let prev := vals.getD (n - 2) 0
    [v0 - (v1 - v0) / 2] ++ (vals.zip (vals.drop 1)).map (fun p => (p.2 + p.1) / 2) ++ [last + (last - prev) / 2]
  | _ => []

theorem midBounds_eq (vals : List Rat) (h : 2 ≤ vals.length) :
    midBounds vals = some ((mids vals).zip ((mids vals).drop 1)) := by
  match vals, h with
  | v0 :: v1 :: rest, _ => rfl

/-- Interior cell edges are the midpoints of neighbouring coordinate values, and each is
shared by the two neighbouring cells (bounds are contiguous). -/
theorem midBounds_interior (vals : List Rat) (b : List (Rat × Rat)) (hb : midBounds vals = some b)
    (k : Nat) (hk0 : 0 < k) (hk : k < vals.length) :
    (b[k]?).map (·.1) = some ((vals.getD k 0 + vals.getD (k - 1) 0) / 2) ∧
    (b[k - 1]?).map (·.2) = some ((vals.getD k 0 + vals.getD (k - 1) 0) / 2) := by
  match vals, hk with
  | v0 :: v1 :: rest, hk =>
    simp only [midBounds, Option.some.injEq] at hb
    subst hb
    obtain ⟨k', rfl⟩ : ∃ k', k = k' + 1 := ⟨k - 1, by omega⟩
    simp only [List.length_cons] at hk
    have hm : ∀ t, t < rest.length + 1 →
        (([v0 - (v1 - v0) / 2] ++ ((v0 :: v1 :: rest).zip ((v0 :: v1 :: rest).drop 1)).map (fun p => (p.2 + p.1) / 2)
          ++ [(v0 :: v1 :: rest).getD ((v0 :: v1 :: rest).length - 1) 0 +
              ((v0 :: v1 :: rest).getD ((v0 :: v1 :: rest).length - 1) 0 - (v0 :: v1 :: rest).getD ((v0 :: v1 :: rest).length - 2) 0) / 2]) : List Rat)[t + 1]?
        = some (((v0 :: v1 :: rest).getD (t + 1) 0 + (v0 :: v1 :: rest).getD t 0) / 2) := by
      intro t ht
      simp only [List.append_assoc, List.singleton_append, List.getElem?_cons_succ]
      rw [List.getElem?_append_left (by simp; omega)]
      exact avg_getElem (v0 :: v1 :: rest) t (by simp; omega)
    have hA := hm k' (by omega)
    constructor
    · simp only [List.getElem?_zip_eq_some, Option.map_eq_some_iff]
      have hnext : ∃ y, (([v0 - (v1 - v0) / 2] ++ ((v0 :: v1 :: rest).zip ((v0 :: v1 :: rest).drop 1)).map (fun p => (p.2 + p.1) / 2)
          ++ [(v0 :: v1 :: rest).getD ((v0 :: v1 :: rest).length - 1) 0 +
              ((v0 :: v1 :: rest).getD ((v0 :: v1 :: rest).length - 1) 0 - (v0 :: v1 :: rest).getD ((v0 :: v1 :: rest).length - 2) 0) / 2]) : List Rat)[k' + 2]? = some y := by
        have : k' + 2 < (([v0 - (v1 - v0) / 2] ++ ((v0 :: v1 :: rest).zip ((v0 :: v1 :: rest).drop 1)).map (fun p => (p.2 + p.1) / 2)
          ++ [(v0 :: v1 :: rest).getD ((v0 :: v1 :: rest).length - 1) 0 +
              ((v0 :: v1 :: rest).getD ((v0 :: v1 :: rest).length - 1) 0 - (v0 :: v1 :: rest).getD ((v0 :: v1 :: rest).length - 2) 0) / 2]) : List Rat).length := by
          simp; omega
        exact ⟨_, List.getElem?_eq_getElem this⟩
      obtain ⟨y, hy⟩ := hnext
      refine ⟨(_, y), ⟨hA, ?_⟩, rfl⟩
      simpa [List.getElem?_drop, Nat.add_comm] using hy
    · simp only [Nat.add_sub_cancel, List.getElem?_zip_eq_some, Option.map_eq_some_iff]
      have hprev : ∃ y, (([v0 - (v1 - v0) / 2] ++ ((v0 :: v1 :: rest).zip ((v0 :: v1 :: rest).drop 1)).map (fun p => (p.2 + p.1) / 2)
          ++ [(v0 :: v1 :: rest).getD ((v0 :: v1 :: rest).length - 1) 0 +
              ((v0 :: v1 :: rest).getD ((v0 :: v1 :: rest).length - 1) 0 - (v0 :: v1 :: rest).getD ((v0 :: v1 :: rest).length - 2) 0) / 2]) : List Rat)[k']? = some y :=
        ⟨_, List.getElem?_eq_getElem (by simp; omega)⟩
      obtain ⟨y, hy⟩ := hprev
      refine ⟨(y, _), ⟨hy, ?_⟩, rfl⟩
      simpa [List.getElem?_drop, Nat.add_comm] using hA

/-- The outer edges extrapolate by half the adjacent gap. -/
theorem midBounds_outer (v0 v1 : Rat) (rest : List Rat) (b : List (Rat × Rat))
    (hb : midBounds (v0 :: v1 :: rest) = some b) :
    (b[0]?).map (·.1) = some (v0 - (v1 - v0) / 2) := by
  simp only [midBounds, Option.some.injEq] at hb
  subst hb
  simp

/-! ### 2-D grids, node grids, meshes -/

/-- CF 2-D / SHOC simple: cell `(j, i)` is the four (stored or derived) corners of that cell
paired up in stored order; a cell lacking any corner of either coordinate has no polygon. -/
theorem cf2d_polygon_at (lonb latb : Grid (Option (List Rat))) (nx j i : Nat)
    (hlen : lonb.length = latb.length)
    (hx : ∀ r ∈ lonb, r.length = nx) (hy : ∀ r ∈ latb, r.length = nx)
    (hj : j < lonb.length) (hi : i < nx) :
    (cf2dPolys lonb latb)[j * nx + i]? =
      some (match (lonb.get j i).join, (latb.get j i).join with
        | some xs, some ys => some (xs.zip ys)
        | _, _ => none) := by
  unfold cf2dPolys
  have hrow : ∀ a ∈ lonb.zip latb, ((fun (p : List (Option (List Rat)) × List (Option (List Rat))) =>
      (p.1.zip p.2).map fun (q : Option (List Rat) × Option (List Rat)) =>
        match q.1, q.2 with
        | some xs, some ys => some (xs.zip ys)
        | _, _ => none) a).length = nx := by
    intro a ha
    have := List.of_mem_zip ha
    simp [hx a.1 this.1, hy a.2 this.2]
  have hj' : j < (lonb.zip latb).length := by simp [← hlen]; exact hj
  have key := flatMap_getElem_uniform _ nx (lonb.zip latb) hrow j i hj' hi
  have hjl : j < latb.length := by omega
  have hxi : i < (lonb[j]).length := by rw [hx _ (List.getElem_mem hj)]; exact hi
  have hyi : i < (latb[j]).length := by rw [hy _ (List.getElem_mem hjl)]; exact hi
  refine key.trans ?_
  simp only [List.getElem_zip, List.getElem?_map, Grid.get]
  rw [List.getElem?_eq_getElem hj, List.getElem?_eq_getElem hjl]
  simp only [Option.bind_some]
  rw [List.getElem?_eq_getElem (by simp; omega : i < (lonb[j].zip latb[j]).length)]
  simp [List.getElem?_eq_getElem hxi, List.getElem?_eq_getElem hyi]

/-- Stored bounds: a cell's corners are all four stored values, or nothing if any is missing. -/
theorem storedCorners_spec (row : List (List (Option Rat))) (i : Nat) (c : List (Option Rat))
    (hc : row[i]? = some c) :
    ((row.map allSomeL)[i]?).join = (if none ∈ c then none else allSomeL c) := by
  simp only [List.getElem?_map, hc, Option.map_some, Option.join_some]
  split
  · exact (allSomeL_eq_none c).mpr ‹_›
  · rfl

/-- Arakawa C / SHOC standard: cell `(j, i)` is built from the nodes
`(j,i) (j,i+1) (j+1,i+1) (j+1,i)` in that order; any missing node ⇒ no polygon. -/
theorem arakawa_polygon_at (xg yg : Grid (Option Rat)) (ny nx j i : Nat) (hj : j < ny) (hi : i < nx) :
    (arakawaPolys xg yg ny nx)[j * nx + i]? =
      some (allSomeL (
        let nd (jj ii : Nat) : Option Pt :=
          match (xg.get jj ii).join, (yg.get jj ii).join with
          | some x, some y => some (x, y)
          | _, _ => none
        [nd j i, nd j (i + 1), nd (j + 1) (i + 1), nd (j + 1) i])) := by
  unfold arakawaPolys
  rw [flatMap_getElem_uniform _ nx (List.range ny) (by intro a _; simp) j i (by simpa using hj) hi]
  simp only [List.getElem_range, List.getElem?_map, List.getElem?_range hi, Option.map_some]
  rfl

theorem arakawa_length (xg yg : Grid (Option Rat)) (ny nx : Nat) :
    (arakawaPolys xg yg ny nx).length = ny * nx := by
  unfold arakawaPolys
  rw [flatMap_length_uniform _ nx (List.range ny) (by intro a _; simp)]
  simp

/-- UGRID: face `f`'s polygon is its nodes in listed order, whatever the face size. -/
theorem ugrid_polygon_at (nodes : List Pt) (faces : List (List Nat)) (f : Nat) (hf : f < faces.length)
    (hin : ∀ n ∈ faces[f], n < nodes.length) :
    (ugridPolys nodes faces)[f]? = some (some (faces[f].map fun n => nodes.getD n (0, 0))) := by
  unfold ugridPolys
  simp only [List.getElem?_map, List.getElem?_eq_getElem hf, Option.map_some, Option.some.injEq]
  rw [allSomeL_eq_some]
  simp only [List.map_map]
  apply List.map_congr_left
  intro n hn
  have := hin n hn
  simp [List.getD_eq_getElem?_getD, List.getElem?_eq_getElem this]

theorem ugrid_length (nodes : List Pt) (faces : List (List Nat)) :
    (ugridPolys nodes faces).length = faces.length := by simp [ugridPolys]

/-- a node index outside the node table is never silently clamped: no polygon -/
theorem ugrid_bad_node (nodes : List Pt) (faces : List (List Nat)) (f : Nat) (hf : f < faces.length)
    (n : Nat) (hn : n ∈ faces[f]) (hbad : nodes.length ≤ n) :
    (ugridPolys nodes faces)[f]? = some none := by
  unfold ugridPolys
  simp only [List.getElem?_map, List.getElem?_eq_getElem hf, Option.map_some, Option.some.injEq]
  rw [allSomeL_eq_none]
  exact List.mem_map.mpr ⟨n, hn, List.getElem?_eq_none hbad⟩

/-! ### missing coordinates, validity, mask -/

/-- A cell with any missing corner has no polygon. -/
theorem missing_no_polygon {β : Type} (corners : List (Option β)) (h : none ∈ corners) :
    allSomeL corners = none := (allSomeL_eq_none corners).mpr h

/-- `mask n` says exactly whether cell `n` has a polygon. -/
theorem mask_iff (polys : List (Option Poly)) (n : Nat) :
    (polyMask polys)[n]? = some true ↔ ∃ q, polys[n]? = some (some q) := by
  simp only [polyMask, List.getElem?_map, Option.map_eq_some_iff, Option.isSome_iff_exists]
  constructor
  · rintro ⟨p, hp, q, rfl⟩; exact ⟨q, hp⟩
  · rintro ⟨q, hq⟩; exact ⟨some q, hq, q, rfl⟩

theorem mask_length (polys : List (Option Poly)) : (polyMask polys).length = polys.length := by
  simp [polyMask]

/-- For every validity predicate: a cell ends up without polygon iff its coordinates were
missing or its ring is invalid (self-intersecting); a valid cell keeps its polygon unchanged;
cells never move (holes keep their slot). -/
theorem invalid_dropped (isValid : Poly → Bool) (raw : List (Option Poly)) (n : Nat) :
    ((keepValid isValid raw)[n]? = some none ↔
        raw[n]? = some none ∨ ∃ q, raw[n]? = some (some q) ∧ isValid q = false) ∧
    (∀ q, (keepValid isValid raw)[n]? = some (some q) ↔ raw[n]? = some (some q) ∧ isValid q = true) := by
  simp only [keepValid, List.getElem?_map]
  cases h : raw[n]? with
  | none => simp
  | some p =>
    cases p with
    | none => simp
    | some q =>
      cases hv : isValid q <;> simp [hv]

theorem keepValid_length (isValid : Poly → Bool) (raw : List (Option Poly)) :
    (keepValid isValid raw).length = raw.length := by simp [keepValid]

/-- A warning is emitted iff some polygon was dropped for invalidity. -/
theorem warned_iff (isValid : Poly → Bool) (raw : List (Option Poly)) :
    invalidDropped isValid raw = true ↔ ∃ q, some q ∈ raw ∧ isValid q = false := by
  simp only [invalidDropped, List.any_eq_true]
  constructor
  · rintro ⟨p, hp, h⟩
    cases p with
    | none => simp at h
    | some q => exact ⟨q, hp, by simpa using h⟩
  · rintro ⟨q, hq, h⟩
    exact ⟨some q, hq, by simp [h]⟩

/-! ### the accessors of one convention object, read in any order -/

/-- what a cache holds is what the dataset says: `polygons` (if built) are the kept polygons and the warning has been
emitted exactly if building them emits one; `mask` / `bounds` (if read) were computed from those polygons -/
def CacheFaithful (b : Built) (c : ConvCache) : Prop :=
  ((c.polygons = none ∧ c.warned = false) ∨ (c.polygons = some b.1 ∧ c.warned = b.2)) ∧
  (c.mask = none ∨ (c.mask = some (polyMask b.1) ∧ c.polygons = some b.1)) ∧
  (c.bounds = none ∨ (c.bounds = some (polysBounds b.1) ∧ c.polygons = some b.1))

theorem read_faithful (b : Built) (c : ConvCache) (a : Accessor) (h : CacheFaithful b c) :
    CacheFaithful b (c.read b a) := by
  obtain ⟨hp, hm, hb⟩ := h
  cases a <;> rcases hp with ⟨hp, hw⟩ | ⟨hp, hw⟩ <;> rcases hm with hm | ⟨hm, hm'⟩ <;> rcases hb with hb | ⟨hb, hb'⟩ <;>
    simp_all [CacheFaithful, ConvCache.read, ConvCache.readPolygons]

theorem reads_faithful (b : Built) (hs : List Accessor) (c : ConvCache) (h : CacheFaithful b c) :
    CacheFaithful b (hs.foldl (ConvCache.read b) c) := by
  induction hs generalizing c with
  | nil => exact h
  | cons a hs ih => exact ih _ (read_faithful b c a h)

/-- Whatever accessors of one convention object were read before, and in whatever order (`mask` before `polygons`,
`bounds` or `geometry` first, the same one twice, …): `polygons` answers the kept polygons, `mask` says exactly which
of them exist, `bounds` is their bounding box, and the warning has been emitted iff a cell was dropped. -/
theorem reads_order_independent (b : Built) (hs : List Accessor) :
    observeAfter b hs = (b.1, polyMask b.1, polysBounds b.1, b.2) := by
  have h : CacheFaithful b (hs.foldl (ConvCache.read b) {}) :=
    reads_faithful b hs {} (by simp [CacheFaithful])
  unfold observeAfter
  generalize hs.foldl (ConvCache.read b) {} = c at h
  obtain ⟨hp, hm, hb⟩ := h
  rcases hp with ⟨hp, hw⟩ | ⟨hp, hw⟩ <;> rcases hm with hm | ⟨hm, hm'⟩ <;> rcases hb with hb | ⟨hb, hb'⟩ <;>
    simp_all [ConvCache.observe, ConvCache.read, ConvCache.readPolygons]

/-- with the mask read first, the cell a validity test drops is still reported missing by the mask -/
theorem mask_first_iff (isValid : Poly → Bool) (raw : List (Option Poly)) (hs : List Accessor) (n : Nat) :
    (observeAfter (keepValid isValid raw, invalidDropped isValid raw) (.mask :: hs)).2.1[n]? = some true ↔
      ∃ q, raw[n]? = some (some q) ∧ isValid q = true := by
  rw [reads_order_independent]
  simp only [mask_iff]
  constructor
  · rintro ⟨q, hq⟩; exact ⟨q, ((invalid_dropped isValid raw n).2 q).mp hq⟩
  · rintro ⟨q, hq⟩; exact ⟨q, ((invalid_dropped isValid raw n).2 q).mpr hq⟩

/-! ### extent -/

/-- The reported bounds are the bounding box of the vertices: every vertex lies inside, and
each side is attained by some vertex. -/
theorem bbox_spec (pts : List Pt) (a b c d : Rat) (h : bbox pts = some (a, b, c, d)) :
    (∀ p ∈ pts, a ≤ p.1 ∧ p.1 ≤ c ∧ b ≤ p.2 ∧ p.2 ≤ d) ∧
    (∃ p ∈ pts, p.1 = a) ∧ (∃ p ∈ pts, p.2 = b) ∧ (∃ p ∈ pts, p.1 = c) ∧ (∃ p ∈ pts, p.2 = d) :=
  Ems.bbox_extent pts a b c d h

/-! ### non-vacuity -/
example : cf1dPolys [(0, 1), (1, 3)] [(10, 12)] = [some [(0,10),(1,10),(1,12),(0,12)], some [(1,10),(3,10),(3,12),(1,12)]] := by decide
example : midBounds [0, 2, 6] = some [(-1, 1), (1, 4), (4, 8)] := by norm_num [midBounds]
example : arakawaPolys [[some 0, some 2], [some 0, none]] [[some 0, some 0], [some 2, some 2]] 1 1 = [none] := by decide
example : ugridPolys [(0,0),(2,0),(2,2)] [[2,0,1]] = [some [(2,2),(0,0),(2,0)]] := by decide
example : bbox [(0,3),(2,-1)] = some (0, -1, 2, 3) := by decide
/-- a bow-tie next to a square, the mask read before the polygons: the bow-tie is dropped, the mask says so, a warning is out -/
example : (observeAfter (keepValid ringValid [some [(0,0),(2,2),(2,0),(0,2)], some [(2,0),(4,0),(4,2),(2,2)]],
      invalidDropped ringValid [some [(0,0),(2,2),(2,0),(0,2)], some [(2,0),(4,0),(4,2),(2,2)]]) [.mask, .bounds, .polygons]).1
    = [none, some [(2,0),(4,0),(4,2),(2,2)]] := by decide +kernel
example : (observeAfter (keepValid ringValid [some [(0,0),(2,2),(2,0),(0,2)], some [(2,0),(4,0),(4,2),(2,2)]],
      invalidDropped ringValid [some [(0,0),(2,2),(2,0),(0,2)], some [(2,0),(4,0),(4,2),(2,2)]]) [.mask, .bounds, .polygons]).2
    = ([false, true], some (2, 0, 4, 2), true) := by decide +kernel

/-! ### Overall geometry of a CF 1-D grid -/

theorem cf1dGeometryBox_some {lonb latb : List (Rat × Rat)} {x0 y0 x1 y1 : Rat}
    (h : cf1dGeometryBox lonb latb = some (x0, y0, x1, y1)) :
    contiguous lonb = true ∧ contiguous latb = true ∧
    minL (boundEnds lonb) = some x0 ∧ minL (boundEnds latb) = some y0 ∧
    maxL (boundEnds lonb) = some x1 ∧ maxL (boundEnds latb) = some y1 := by
  unfold cf1dGeometryBox at h
  split at h
  · rename_i hc
    simp only [Bool.and_eq_true] at hc
    split at h
    · rename_i a b c d e1 e2 e3 e4
      simp only [Option.some.injEq, Prod.mk.injEq] at h
      obtain ⟨rfl, rfl, rfl, rfl⟩ := h
      exact ⟨hc.1, hc.2, e1, e2, e3, e4⟩
    · simp at h
  · simp at h

/-- **Overall geometry of a CF 1-D grid.** Whenever `CFGrid1D.geometry` answers with the bounding box
(its contiguity test passed on both axes), a point lies in that box exactly when it lies in some cell:
the box *is* the union of the cells — for every number of cells, either axis direction, cells of any
width. -/
theorem cf1d_box_is_union (lonb latb : List (Rat × Rat)) (x0 y0 x1 y1 : Rat)
    (h : cf1dGeometryBox lonb latb = some (x0, y0, x1, y1)) (x y : Rat) :
    (x0 ≤ x ∧ x ≤ x1 ∧ y0 ≤ y ∧ y ≤ y1) ↔ ∃ xb ∈ lonb, ∃ yb ∈ latb, inCell x xb ∧ inCell y yb := by
  obtain ⟨cx, cy, ex0, ey0, ex1, ey1⟩ := cf1dGeometryBox_some h
  constructor
  · rintro ⟨a, b, c, d⟩
    obtain ⟨xb, hxb, hx⟩ := span_covered_of_contiguous lonb x0 x1 cx ex0 ex1 x a b
    obtain ⟨yb, hyb, hy⟩ := span_covered_of_contiguous latb y0 y1 cy ey0 ey1 y c d
    exact ⟨xb, hxb, yb, hyb, hx, hy⟩
  · rintro ⟨xb, hxb, yb, hyb, hx, hy⟩
    have a := cell_within_span lonb x0 x1 ex0 ex1 x xb hxb hx
    have b := cell_within_span latb y0 y1 ey0 ey1 y yb hyb hy
    exact ⟨a.1, a.2, b.1, b.2⟩

/-- … and those cells are the polygons of the dataset: each pair of bounds is the rectangle at a linear index -/
theorem cf1d_cell_is_polygon (lonb latb : List (Rat × Rat)) (xb yb : Rat × Rat)
    (hx : xb ∈ lonb) (hy : yb ∈ latb) :
    ∃ n : Nat, (cf1dPolys lonb latb)[n]? = some (some (rect xb yb)) := by
  obtain ⟨i, hi, rfl⟩ := List.getElem_of_mem hx
  obtain ⟨j, hj, rfl⟩ := List.getElem_of_mem hy
  exact ⟨j * lonb.length + i, cf1d_polygon_at lonb latb j i hj hi⟩

/-- the test is needed: bounds with a gap (here on a north-to-south axis) are refused … -/
example : cf1dGeometryBox [(0, 1), (1, 2)] [(5, 4), (3, 2)] = none := by decide +kernel
/-- … because the box would hold points of no cell; a test `≤` instead of `=` would accept these bounds -/
example : (decide ((3 : Rat) ≤ 4)) = true ∧ ¬ (inCell (7/2 : Rat) (5, 4) ∨ inCell (7/2 : Rat) (3, 2)) := by
  refine ⟨by decide +kernel, ?_⟩
  unfold inCell; norm_num
/-- non-vacuity: contiguous bounds in either direction give the box -/
example : cf1dGeometryBox [(0, 1), (1, 3)] [(5, 4), (4, 2)] = some (0, 2, 3, 5) := by decide +kernel

/-! ### The point set of the overall geometry, whatever the cells do to one another (tile, gap, overlap) -/

/-- **The union of the cells, point by point.** `cellsCover` (what the `cf1dcover` operation evaluates and the
correspondence compares with `dataset.ems.geometry.covers(point)`) decides membership in the union of the cells:
the point's longitude lies in the bounds of some column and its latitude in the bounds of some row.  No
hypothesis on the bounds: neighbouring cells may tile the span, leave gaps or overlap. -/
theorem cellsCover_iff (lonb latb : List (Rat × Rat)) (x y : Rat) :
    cellsCover lonb latb (x, y) = true ↔ ∃ xb ∈ lonb, ∃ yb ∈ latb, inCell x xb ∧ inCell y yb := by
  simp only [cellsCover, Bool.and_eq_true, List.any_eq_true, decide_eq_true_eq]
  constructor
  · rintro ⟨⟨xb, hxb, hx⟩, ⟨yb, hyb, hy⟩⟩
    exact ⟨xb, hxb, yb, hyb, hx, hy⟩
  · rintro ⟨xb, hxb, yb, hyb, hx, hy⟩
    exact ⟨⟨xb, hxb, hx⟩, ⟨yb, hyb, hy⟩⟩

/-- … and every point of the union lies in a polygon of the dataset (`cf1d_cell_is_polygon`): a covered point
comes with the linear index of a cell polygon whose column / row bounds hold it -/
theorem cellsCover_polygon (lonb latb : List (Rat × Rat)) (x y : Rat) (h : cellsCover lonb latb (x, y) = true) :
    ∃ (n : Nat) (xb yb : Rat × Rat), (cf1dPolys lonb latb)[n]? = some (some (rect xb yb)) ∧ inCell x xb ∧ inCell y yb := by
  obtain ⟨xb, hxb, yb, hyb, hx, hy⟩ := (cellsCover_iff lonb latb x y).mp h
  obtain ⟨n, hn⟩ := cf1d_cell_is_polygon lonb latb xb yb hxb hyb
  exact ⟨n, xb, yb, hn, hx, hy⟩

/-- when `CFGrid1D.geometry` answers with the box of its bounds, the probe answers are those of the box -/
theorem cf1d_box_cover (lonb latb : List (Rat × Rat)) (x0 y0 x1 y1 : Rat)
    (h : cf1dGeometryBox lonb latb = some (x0, y0, x1, y1)) (x y : Rat) :
    cellsCover lonb latb (x, y) = true ↔ (x0 ≤ x ∧ x ≤ x1 ∧ y0 ≤ y ∧ y ≤ y1) := by
  rw [cellsCover_iff]
  exact (cf1d_box_is_union lonb latb x0 y0 x1 y1 h x y).symm

/-- non-vacuity: overlapping cells (the point lies in both), a gap (the point lies in neither), north-to-south rows -/
example : cellsCover [(0, 3), (1, 4)] [(1, 0)] (2, 1/2) = true := by decide +kernel
example : cellsCover [(0, 1), (2, 3)] [(0, 1)] (3/2, 1/2) = false := by decide +kernel
example : coverBits [(0, 1), (2, 3)] [(0, 1)] [0, 3/2, 3] [1/2, 2] = [true, false, true, false, false, false] := by
  decide +kernel

/-! ### The numpy pipelines, as the source has them

`Ems.Gen.cf1dPolygonPoints`, `cf2dPolygonPoints`, `arakawaPolygonPoints`, `cf1dMidBounds`, `cf1dFaceCentres`
are terms of the numpy expression language of `Core/NpExpr.lean`, written by `harness/pipelines.py` from the
SOURCE TEXT of the working tree on every run (`numpy.stack`, `expand_dims`, `broadcast_to`, `transpose`,
subscripts, `reshape((-1, 4, 2))`, `concatenate`, `+ - /`).  The theorems below say that these pipelines
compute exactly the comprehension models the theorems above are about — for every grid size.
They are proved through the generic element-wise reading of expressions (`Lemmas/NpExpr.lean: eval_sound`),
not by looking at the shape of the generated term; an edit of the source that changes what is computed
leaves the theorem of that function unprovable. -/

/-- the translator understood every statement of the five functions (otherwise: the Python text it could
not render is listed in `Ems.Gen.pipelineComplaints`) -/
theorem pipelines_translated : Ems.Gen.pipelineComplaints = [] := by decide

/-- Generic `get` lemma, for every expression, environment and shape: when the shapes fit, the evaluator
succeeds and the array it builds (C-order data) has, at every in-range multi-index, the element the index
maps of the operations name (`stack`: operand `idx[k]` at `idx` without position `k`; `expand_dims`;
`broadcast_to`: length-1 axes read at 0; `transpose`: `src[perm[k]] = idx[k]`; subscripts: fixed / shifted
index; `reshape`: same flat position; `concatenate`: the piece holding the row). -/
theorem pipeline_eval_get (env : NpEnv) (henv : env.WF) (e : NpExpr) (s : List Nat) (h : shapeOf env e = some s) :
    ∃ a, eval env e = some a ∧ a.shape = s ∧ a.WF ∧ ∀ idx, InRange s idx → a.get idx = getOf env e idx :=
  eval_get env henv e s h

/-- merging the leading axes, `(ny, nx, 4, 2) → (ny * nx, 4, 2)`: row `n` is cell `(n / nx, n % nx)` -/
theorem reshape_merge_get (ny nx : Nat) (rest r : List Nat) (n : Nat) (hn : n < ny * nx) (hr : InRange rest r) :
    (ravel (ny * nx :: rest) (n :: r)).bind (unravel (ny :: nx :: rest)) = some (n / nx :: n % nx :: r) :=
  ravel_unravel_merge ny nx rest r n hn hr

/-- **`CFGrid1D._make_polygons`, as written in the source**, on bounds arrays of any lengths, yields exactly
`cf1dPolys lonb latb` (whose cell `(j, i)` is the rectangle of `cf1d_polygon_at`). -/
theorem cf1d_pipeline_spec (lonb latb : List (Rat × Rat)) (ny nx : Nat)
    (hx : lonb.length = nx) (hy : latb.length = ny) :
    (eval (cf1dEnv lonb latb ny nx) Gen.cf1dPolygonPoints).bind pointsToPolys = some (cf1dPolys lonb latb) :=
  cf1d_pipeline lonb latb ny nx hx hy

/-- the `assert … .shape == (y_size, x_size, 4)` statements of `CFGrid1D._make_polygons` never fire -/
theorem cf1d_asserts_hold (lonb latb : List (Rat × Rat)) (ny nx : Nat)
    (hx : lonb.length = nx) (hy : latb.length = ny) :
    ∀ p ∈ Gen.cf1dPolygonPointsAsserts,
      (plainDims (cf1dEnv lonb latb ny nx) p.2).isSome ∧
      shapeOf (cf1dEnv lonb latb ny nx) p.1 = plainDims (cf1dEnv lonb latb ny nx) p.2 :=
  cf1d_asserts lonb latb ny nx hx hy

/-- **`CFGrid2D._make_polygons`, as written in the source**, on stored `(ny, nx, 4)` bounds yields exactly
`cf2dPolys` of the stored corners (`cf2d_polygon_at`, `storedCorners_spec`). -/
theorem cf2d_pipeline_spec (blon blat : List (List (List (Option Rat)))) (ny nx : Nat)
    (hxl : blon.length = ny) (hyl : blat.length = ny)
    (hx : ∀ r ∈ blon, r.length = nx ∧ ∀ c ∈ r, c.length = 4)
    (hy : ∀ r ∈ blat, r.length = nx ∧ ∀ c ∈ r, c.length = 4) :
    (eval (cf2dEnv blon blat nx) Gen.cf2dPolygonPoints).bind pointsToPolys
      = some (cf2dPolys (storedCorners blon) (storedCorners blat)) :=
  cf2d_pipeline blon blat ny nx hxl hyl hx hy

/-- **`ArakawaC._make_polygons`, as written in the source**, on `(ny+1, nx+1)` node arrays yields exactly
`arakawaPolys` (`arakawa_polygon_at`: nodes `(j,i) (j,i+1) (j+1,i+1) (j+1,i)`). -/
theorem arakawa_pipeline_spec (xg yg : List (List (Option Rat))) (ny nx : Nat)
    (hxl : xg.length = ny + 1) (hyl : yg.length = ny + 1)
    (hxr : ∀ r ∈ xg, r.length = nx + 1) (hyr : ∀ r ∈ yg, r.length = nx + 1) :
    (eval (arakawaEnv xg yg nx) Gen.arakawaPolygonPoints).bind pointsToPolys = some (arakawaPolys xg yg ny nx) :=
  arakawa_pipeline xg yg ny nx hxl hyl hxr hyr

/-- **the derived-bounds branch of `CFGrid1DTopology._get_or_make_bounds`, as written in the source**, on any
axis with at least two values yields the `(n, 2)` array of `midBounds` (`midBounds_interior`, `midBounds_outer`). -/
theorem cf1d_midbounds_pipeline_spec (vals : List Rat) (h : 2 ≤ vals.length) :
    eval (midEnv (vals.map some)) Gen.cf1dMidBounds = (midBounds vals).map pairsArr :=
  cf1d_midbounds_pipeline vals h

/-- **`CFGrid1D.face_centres`, as written in the source** (`meshgrid`, `flatten`, `column_stack`) -/
theorem cf1d_centres_pipeline_spec (lon lat : List Rat) :
    (eval (centresEnv (lon.map some) (lat.map some)) Gen.cf1dFaceCentres).bind pointsToPairs
      = some ((cf1dCentres lon lat).map fun p => (some p.1, some p.2)) :=
  cf1d_centres_pipeline lon lat

/-! non-vacuity: concrete non-square instances (2 x 3, distinct bounds), evaluated by the kernel -/
example : (eval (cf1dEnv [(0, 1), (1, 3), (3, 7)] [(10, 12), (12, 15)] 2 3) Gen.cf1dPolygonPoints).bind pointsToPolys
    = some [some [(0,10),(1,10),(1,12),(0,12)], some [(1,10),(3,10),(3,12),(1,12)], some [(3,10),(7,10),(7,12),(3,12)],
            some [(0,12),(1,12),(1,15),(0,15)], some [(1,12),(3,12),(3,15),(1,15)], some [(3,12),(7,12),(7,15),(3,15)]] := by
  decide +kernel
example : (eval (arakawaEnv [[some 0, some 1, some 2], [some 10, some 11, none], [some 20, some 21, some 22]]
      [[some 5, some 6, some 7], [some 15, some 16, some 17], [some 25, some 26, some 27]] 2) Gen.arakawaPolygonPoints).bind
      pointsToPolys
    = some [some [(0,5),(1,6),(11,16),(10,15)], none, some [(10,15),(11,16),(21,26),(20,25)], none] := by
  decide +kernel
example : (eval (cf2dEnv [[[some 0, some 2, some 3, some 1], [some 2, some 4, some 5, none]]]
      [[[some 0, some 1, some 3, some 2], [some 1, some 2, some 4, some 3]]] 2) Gen.cf2dPolygonPoints).bind pointsToPolys
    = some [some [(0,0),(2,1),(3,3),(1,2)], none] := by
  decide +kernel
example : eval (midEnv [some 0, some 2, some 6]) Gen.cf1dMidBounds = some (pairsArr [(-1, 1), (1, 4), (4, 8)]) := by
  decide +kernel
/-- an axis with a single value has no derived bounds: numpy raises at `values[1]` -/
example : eval (midEnv [some 3]) Gen.cf1dMidBounds = none := by decide +kernel
example : (eval (centresEnv [some 0, some 2, some 6] [some 10, some 20]) Gen.cf1dFaceCentres).bind pointsToPairs
    = some [(some 0, some 10), (some 2, some 10), (some 6, some 10), (some 0, some 20), (some 2, some 20), (some 6, some 20)] := by
  decide +kernel
/-- what is not understood evaluates to nothing -/
example : eval (midEnv [some 0, some 2]) (.unsupported "numpy.foo(values)") = none := rfl

/-! ### The derived 2-D bounds, as the source has them

`Ems.Gen.cf2dDerivedBounds` is the derived-bounds branch of `CFGrid2DTopology._get_or_make_bounds` (used by CF 2-D and
SHOC simple datasets whose coordinates carry no bounds), translated from the source text like the five pipelines
above: `coordinate.values.copy()`, `numpy.isnan`, `numpy.pad(…, constant_values=False)`, `[:-2, :] & [2:, :]`, `|`,
the assignment `coordinate_values[bound_by_nan] = numpy.nan` (a functional update of the local), the comprehension over
`itertools.product([(1, 0), (0, 1)], [(1, 0), (0, 1)])` unrolled into the four `numpy.pad(…, constant_values=numpy.nan)`,
`numpy.nanmean(…, axis=0)`, the `numpy.stack` of the four shifted views, `numpy.isnan(bounds).any(axis=2)` and
`bounds[cells_with_nans] = numpy.nan`. -/

/-- **The derived-bounds branch of `CFGrid2DTopology._get_or_make_bounds`, as written in the source**, on every
`ny × nx` array of coordinate values (`none` = NaN) yields exactly the `(ny, nx, 4)` array of `derived2d c ny nx`
— the hand model `cf2d_polygon_at` and the correspondence are about: cells bound by NaN on both sides along an axis
are discarded, every corner is the `nanmean` of the up-to-four surrounding centres, and a cell has its four corners
`(j,i) (j,i+1) (j+1,i+1) (j+1,i)` or four NaNs (`cornersArr`). -/
theorem cf2d_derived_pipeline_spec (c : List (List (Option Rat))) (ny nx : Nat)
    (hl : c.length = ny) (hr : ∀ r ∈ c, r.length = nx) :
    eval (derived2dEnv c nx) Gen.cf2dDerivedBounds = some (cornersArr (derived2d c ny nx) nx) :=
  cf2d_derived_pipeline c ny nx hl hr

/-- the shape of the result is `(ny, nx, 4)` -/
theorem cf2d_derived_shape (c : List (List (Option Rat))) (ny nx : Nat) (hl : c.length = ny) :
    shapeOf (derived2dEnv c nx) Gen.cf2dDerivedBounds = some [ny, nx, 4] :=
  d2_shape c ny nx hl

/-- element `[j, i, k]` of the generated term, read through the index maps of the operations, is `bounds[j, i, k]` of
the source read line by line over natural-number indexes (`D2.res`: `nan_coordinates`, `j_pad`, `i_pad`, `bound_by_nan`,
the masked `coordinate_values`, the four padded copies, `grid`, the four shifted views, `cells_with_nans`) -/
theorem cf2d_derived_get (c : List (List (Option Rat))) (ny nx : Nat)
    (hl : c.length = ny) (hr : ∀ r ∈ c, r.length = nx) (j i k : Nat) (hk : k < 4) :
    getOf (derived2dEnv c nx) Gen.cf2dDerivedBounds [j, i, k] = D2.res c ny nx j i k :=
  d2_term_get c ny nx hl hr j i k hk

/-! non-vacuity: a 2 x 3 sheared grid (corners are means of 1, 2 and 4 centres), and a 3 x 3 grid with a missing
centre: the corners around it are means of 3 centres (and the cell itself, all four of its corners being present,
has bounds); a 1 x 3 river cell bound by NaN on both sides is discarded
and takes its neighbours' corners with it -/
example : eval (derived2dEnv [[some 0, some 12, some 24], [some 6, some 18, some 30]] 3) Gen.cf2dDerivedBounds
    = some (cornersArr [[some [0, 6, 9, 3], some [6, 18, 21, 9], some [18, 24, 27, 21]],
                        [some [3, 9, 12, 6], some [9, 21, 24, 12], some [21, 27, 30, 24]]] 3) := by
  decide +kernel
example : eval (derived2dEnv [[some 0, some 12, some 24], [some 6, none, some 30], [some 12, some 24, some 36]] 3)
      Gen.cf2dDerivedBounds
    = some (cornersArr [[some [0, 6, 6, 3], some [6, 18, 22, 6], some [18, 24, 27, 22]],
                        [some [3, 6, 14, 9], some [6, 22, 30, 14], some [22, 27, 33, 30]],
                        [some [9, 14, 18, 12], some [14, 30, 30, 18], some [30, 33, 36, 30]]] 3) := by
  decide +kernel
example : eval (derived2dEnv [[none, some 4, none]] 3) Gen.cf2dDerivedBounds
    = some (cornersArr [[none, none, none]] 3) := by
  decide +kernel

end Ems.C06
