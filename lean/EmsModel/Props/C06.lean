import EmsModel.Core.Polygons
namespace Ems.C06
theorem placeholder : True := trivial
end Ems.C06
