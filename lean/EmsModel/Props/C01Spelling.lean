import EmsModel.Core.IndexSpelling
import EmsModel.Lemmas.Shape
/-!
# C01 — what an index or a convention is *given as* does not change the index space

Property theorems only (plus the helper lemmas they need), about `Core/IndexSpelling.lean`.

* the integer type a native / linear index is spelt in is a representation (`typed_ravel_eq`, `typed_wind_eq`,
  `typed_spelling_irrelevant`);
* the row-major linear index is the left-to-right accumulation `acc * d + i` (`ravel_eq_horner`); the last cell of a
  grid has linear index `size - 1` (`ravel_lastCell`), so the linear index needs as many values as the grid has
  cells, however small the components are: the same accumulation in an arithmetic with fewer values than the grid has
  cells is wrong on the last cell (`narrow_accumulation_wrong`) — why the check probes the last cell of grids larger
  than each integer type;
* the convention of a dataset under a `coordinate_names` table does not change when the coordinate variables are
  renamed consistently (`arakawa_rename`, `arakawa_rename_index`), nor when further variables are added to the
  dataset (`arakawa_more_variables`).  It is a function of the dataset and the table: nothing constructed earlier
  is an argument of it.
-/
namespace Ems.C01

open Ems

/-! ## integer types -/

/-- Spelt in a type that holds its components, a native index ravels as its values do. -/
theorem typed_ravel_eq (c : Conv) (t : Option IntType) (idx : Kind × List Int)
    (h : idx.2.all (IntType.holds t) = true) :
    c.ravelIndexTyped t idx = some (c.ravelIndex idx) := by
  simp [Conv.ravelIndexTyped, h]

/-- Spelt in a type that holds it, a linear index winds as its value does. -/
theorem typed_wind_eq (c : Conv) (t : Option IntType) (kind : Option Kind) (n : Int)
    (h : IntType.holds t n = true) :
    c.windIndexTyped t kind n = some (c.windIndex kind n) := by
  simp [Conv.windIndexTyped, h]

/-- Two spellings of the same index give the same answer. -/
theorem typed_spelling_irrelevant (c : Conv) (t t' : Option IntType) (idx : Kind × List Int)
    (h : idx.2.all (IntType.holds t) = true) (h' : idx.2.all (IntType.holds t') = true) :
    c.ravelIndexTyped t idx = c.ravelIndexTyped t' idx := by
  rw [typed_ravel_eq c t idx h, typed_ravel_eq c t' idx h']

/-! ## the accumulation -/

theorem hornerFrom_of_ravel : ∀ (s idx : List Nat) (acc r : Nat), ravel s idx = some r →
    hornerFrom acc s idx = acc * size s + r
  | [], [], acc, r, h => by simp [ravel] at h; subst h; simp [hornerFrom, size]
  | [], _ :: _, _, _, h => by simp [ravel] at h
  | _ :: _, [], _, _, h => by simp [ravel] at h
  | d :: ds, i :: is, acc, r, h => by
      simp only [ravel] at h
      split at h
      · cases hr : ravel ds is with
        | none => simp [hr] at h
        | some r' =>
          simp [hr] at h
          subst h
          simp only [hornerFrom, size]
          rw [hornerFrom_of_ravel ds is (acc * d + i) r' hr, Nat.add_mul, Nat.mul_assoc, Nat.add_assoc]
      · simp at h

/-- The linear index of an in-range native index is the left-to-right accumulation `acc * d + i` from 0. -/
theorem ravel_eq_horner (s idx : List Nat) (h : InRange s idx) :
    ravel s idx = some (hornerFrom 0 s idx) := by
  obtain ⟨r, hr⟩ := inRange_ravel s idx h
  rw [hornerFrom_of_ravel s idx 0 r hr, hr]
  simp

theorem size_pos_of_pos : ∀ (s : List Nat), (∀ d ∈ s, 0 < d) → 0 < size s
  | [], _ => by simp [size]
  | d :: ds, h => by
      simp only [size]
      exact Nat.mul_pos (h d (by simp)) (size_pos_of_pos ds (fun x hx => h x (by simp [hx])))

theorem lastCell_inRange : ∀ (s : List Nat), (∀ d ∈ s, 0 < d) → InRange s (lastCell s)
  | [], _ => trivial
  | d :: ds, h => by
      have hd : 0 < d := h d (by simp)
      show d - 1 < d ∧ InRange ds (lastCell ds)
      exact ⟨by omega, lastCell_inRange ds (fun x hx => h x (by simp [hx]))⟩

/-- The last cell of a grid without empty dimensions has linear index `size - 1`. -/
theorem ravel_lastCell : ∀ (s : List Nat), (∀ d ∈ s, 0 < d) → ravel s (lastCell s) = some (size s - 1)
  | [], _ => by simp [ravel, lastCell, size]
  | d :: ds, h => by
      have hd : 0 < d := h d (by simp)
      have hs : 0 < size ds := size_pos_of_pos ds (fun x hx => h x (by simp [hx]))
      have ih := ravel_lastCell ds (fun x hx => h x (by simp [hx]))
      have hlt : d - 1 < d := by omega
      simp only [lastCell, List.map_cons] at ih ⊢
      simp only [ravel, hlt, if_true]
      rw [show List.map (fun x => x - 1) ds = lastCell ds from rfl] at *
      rw [ih]
      simp only [Option.map_some, size]
      congr 1
      obtain ⟨d', rfl⟩ : ∃ d', d = d' + 1 := ⟨d - 1, by omega⟩
      generalize size ds = S at hs
      obtain ⟨S', rfl⟩ : ∃ S', S = S' + 1 := ⟨S - 1, by omega⟩
      simp only [Nat.add_sub_cancel, Nat.add_mul, Nat.mul_add, Nat.one_mul, Nat.mul_one]
      omega

theorem hornerModFrom_lt (m : Nat) : ∀ (s idx : List Nat) (acc : Nat), acc < m → hornerModFrom m acc s idx < m
  | [], _, acc, h => by simpa [hornerModFrom] using h
  | _ :: _, [], acc, h => by simpa [hornerModFrom] using h
  | d :: ds, i :: is, acc, h => by
      simp only [hornerModFrom]
      exact hornerModFrom_lt m ds is _ (Nat.mod_lt _ (by omega))

/-- An accumulation in an arithmetic with fewer values than the grid has cells gives the wrong linear index for at
least one in-range native index — the last cell — however small the components are.  (Components of a 200 × 300
grid fit 16 bits with room to spare; the linear index of its last cell does not.) -/
theorem narrow_accumulation_wrong (m : Nat) (hm : 0 < m) (s : List Nat) (hpos : ∀ d ∈ s, 0 < d)
    (hbig : m < size s) :
    InRange s (lastCell s) ∧ ravel s (lastCell s) = some (hornerFrom 0 s (lastCell s))
      ∧ hornerModFrom m 0 s (lastCell s) ≠ hornerFrom 0 s (lastCell s) := by
  have hr := lastCell_inRange s hpos
  have h1 := ravel_eq_horner s (lastCell s) hr
  refine ⟨hr, h1, ?_⟩
  have h2 := ravel_lastCell s hpos
  rw [h2] at h1
  have h3 : hornerFrom 0 s (lastCell s) = size s - 1 := by simpa using h1.symm
  have h4 := hornerModFrom_lt m s (lastCell s) 0 hm
  omega

/-! ## coordinate names -/

theorem dims_rename (σ : String → String) (hσ : ∀ a b, σ a = σ b → a = b) :
    ∀ (ds : DsVars) (v : String),
      DsVars.dims? (ds.map fun e => (σ e.1, e.2)) (σ v) = DsVars.dims? ds v
  | [], v => by simp [DsVars.dims?]
  | e :: rest, v => by
      have ih := dims_rename σ hσ rest v
      unfold DsVars.dims? at ih ⊢
      simp only [List.map_cons, List.find?_cons]
      by_cases hv : e.1 = v
      · have h1 : (e.1 == v) = true := by simp [hv]
        have h2 : (σ e.1 == σ v) = true := by simp [hv]
        simp only [h1, h2]
        rfl
      · have h1 : (e.1 == v) = false := by simp [hv]
        have h2 : (σ e.1 == σ v) = false := by
          simp only [beq_eq_false_iff_ne, ne_eq]
          exact fun h => hv (hσ _ _ h)
        simp only [h1, h2]
        exact ih

/-- Renaming the coordinate variables of a dataset (any injective renaming, applied to the dataset and to the names
table alike) leaves the grids of every kind as they were. -/
theorem arakawa_rename (σ : String → String) (hσ : ∀ a b, σ a = σ b → a = b) (ds : DsVars) :
    ∀ (names : NameTable),
      arakawaConv (ds.map fun e => (σ e.1, e.2)) (names.map fun n => (n.1, σ n.2.1, σ n.2.2))
        = arakawaConv ds names := by
  intro names
  have key : arakawaGrids (ds.map fun e => (σ e.1, e.2)) (names.map fun n => (n.1, σ n.2.1, σ n.2.2))
      = arakawaGrids ds names := by
    induction names with
    | nil => rfl
    | cons n rest ih =>
      obtain ⟨k, lat, lon⟩ := n
      simp only [List.map_cons, arakawaGrids, dims_rename σ hσ ds lat, ih]
  simp only [arakawaConv, key]

/-- … and so every index conversion answers the same. -/
theorem arakawa_rename_index (σ : String → String) (hσ : ∀ a b, σ a = σ b → a = b) (ds : DsVars)
    (names : NameTable) (c : Conv) (h : arakawaConv ds names = some c) :
    ∃ c', arakawaConv (ds.map fun e => (σ e.1, e.2)) (names.map fun n => (n.1, σ n.2.1, σ n.2.2)) = some c'
      ∧ (∀ kind n, c'.windIndex kind n = c.windIndex kind n)
      ∧ (∀ idx, c'.ravelIndex idx = c.ravelIndex idx)
      ∧ (∀ k, c'.gridSize? k = c.gridSize? k) := by
  refine ⟨c, ?_, fun _ _ => rfl, fun _ => rfl, fun _ => rfl⟩
  rw [arakawa_rename σ hσ ds names, h]

theorem dims_append (ds more : DsVars) (v : String) (d : List (String × Nat))
    (h : DsVars.dims? ds v = some d) : DsVars.dims? (ds ++ more) v = some d := by
  simp only [DsVars.dims?, List.find?_append] at h ⊢
  cases hf : List.find? (fun e => e.1 == v) ds with
  | none => simp [hf] at h
  | some e => simpa [hf] using h

/-- Further variables in the dataset (data variables, the coordinates of another dataset's naming scheme, …) do not
change the grids of a convention whose names table is resolved. -/
theorem arakawa_more_variables (ds more : DsVars) :
    ∀ (names : NameTable) (c : Conv), arakawaConv ds names = some c →
      arakawaConv (ds ++ more) names = some c := by
  intro names c h
  have key : ∀ (names : NameTable) (gs : List (Kind × List Nat)), arakawaGrids ds names = some gs →
      arakawaGrids (ds ++ more) names = some gs := by
    intro names
    induction names with
    | nil => intro gs h; simpa [arakawaGrids] using h
    | cons n rest ih =>
      obtain ⟨k, lat, lon⟩ := n
      intro gs h
      simp only [arakawaGrids] at h ⊢
      cases hd : DsVars.dims? ds lat with
      | none => simp [hd] at h
      | some d =>
        cases hr : arakawaGrids ds rest with
        | none => simp [hd, hr] at h
        | some gs' =>
          simp [hd, hr] at h
          simp [dims_append ds more lat d hd, ih gs' hr, h]
  simp only [arakawaConv] at h ⊢
  cases hg : arakawaGrids ds names with
  | none => simp [hg] at h
  | some gs =>
    simp [hg] at h
    simp [key names gs hg, h]

/-! Non-vacuity -/

def exampleVars : DsVars :=
  [("y_centre", [("j_centre", 3), ("i_centre", 5)]), ("x_centre", [("j_centre", 3), ("i_centre", 5)]),
   ("y_left", [("j_left", 3), ("i_left", 6)]), ("x_left", [("j_left", 3), ("i_left", 6)])]

def exampleNames : NameTable := [("face", "y_centre", "x_centre"), ("left", "y_left", "x_left")]

example : (arakawaConv exampleVars exampleNames).map (·.grids) = some [("face", [3, 5]), ("left", [3, 6])] := by
  decide
example : arakawaConv exampleVars [("face", "lat_centre", "lon_centre")] = none := by decide
example : InRange [200, 300] (lastCell [200, 300]) := by decide
example : ravel [200, 300] [198, 1] = some 59401 := by decide
example : hornerModFrom 65536 0 [200, 300] [199, 299] = 59999 := by decide
example : hornerModFrom 256 0 [19, 17] [18, 16] = 66 ∧ hornerFrom 0 [19, 17] [18, 16] = 322 := by decide
example : IntType.holds (some ⟨16, true⟩) 198 = true ∧ IntType.holds (some ⟨16, true⟩) 59401 = false := by decide
example : Conv.ravelIndexTyped { grids := [("left", [3, 6])], default := "left" } (some ⟨8, false⟩) ("left", [2, 5])
    = some (some 17) := by decide

end Ems.C01
