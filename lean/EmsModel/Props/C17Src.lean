import EmsModel.Core.TimeUnitsSrc
import EmsModel.Gen.TimeUnitsSrc
import EmsModel.Lemmas.TimeUnitsSrc
import EmsModel.Lemmas.TimeUnitsFormat
import EmsModel.Props.C17
/-!
# C17 — the theorems about the terms translated from the source

`harness/trans_timeunits.py` re-reads, on every run, the source text of `format_time_units_for_ems`,
`disable_default_fill_value`, `fix_time_units_for_ems` (utils.py) and of `Convention.time_coordinate` with its SHOC
overrides, and writes them as terms of the languages of `Core/TimeUnitsSrc.lean` into `Gen/TimeUnitsSrc.lean`.
The theorems below prove, **for all inputs**, that the generated terms compute the hand-written model functions
of `Core/TimeUnits.lean` that the property theorems of `Props/C17.lean` are about; those theorems are then restated
for the generated terms.  They are proved by *evaluating* the generated terms (`simp` with the interpreters'
equations), not by matching their shape: renaming locals, splitting or merging statements, writing `divmod` as
`//` and `%` leaves them provable, while a change of what is computed (`:02d` → `:2d`, `< 0` → `<= 0`, a dropped
`abs`, `60` → `100`, a swapped field, a missing blank, `not in` → `in`, …) leaves the named theorem unprovable.
-/
set_option linter.unusedSimpArgs false
set_option linter.unusedVariables false
namespace Ems.C17

open Ems.TimeUnits Ems.TimeUnitsSrc

/-! ## the translation is complete -/

/-- Every construct of the four translated functions was understood: no `unsupported` node was emitted. -/
theorem src_translated : Gen.tuComplaints = [] := by decide

/-! ## `format_time_units_for_ems`: the returned f-string -/

/-- **The f-strings of `format_time_units_for_ems`, interpreted, are the model's `render`.**  For every unit
string, every tuple of local epoch fields a datetime can have (year 1…9999, two-digit month … second) and every
offset below 100 h (the function itself admits |offset| < 24 h), evaluating the pieces of
`f'{period} since {dt.year:04d}-{dt:%m-%d %H:%M:%S} {sign}{hours:02d}:{minutes:02d}'` — with Python's
minimum-width, never-truncating zero padding, `divmod(abs(int(offset)), 60)` and the sign chosen by `offset < 0` —
gives exactly `<unit> since YYYY-MM-DD HH:MM:SS ±HH:MM` as the hand model writes it (`render pad4 formatOffset`). -/
theorem src_template_spec (e : TEnv)
    (hy : 1 ≤ e.f.year ∧ e.f.year ≤ 9999) (hmo : e.f.month < 100) (hd : e.f.day < 100)
    (hh : e.f.hour < 100) (hmi : e.f.minute < 100) (hs : e.f.second < 100) (ho : e.off.natAbs < 6000) :
    interp e Gen.tuNewUnits = some (render pad4 formatOffset e.period e.f e.off) := by
  have h60 : (60 : Int) = ((60 : Nat) : Int) := rfl
  have hH : e.off.natAbs / 60 < 100 := by omega
  have hM : e.off.natAbs % 60 < 100 := by omega
  simp [Gen.tuNewUnits, interp, interpPiece, evalS, evalB, evalI, cmpI, isInt, strftime1, spec02]
  simp only [h60, fdiv_natCast, fmod_natCast, fmtInt_02d _ hmo, fmtInt_02d _ hd, fmtInt_02d _ hh, fmtInt_02d _ hmi,
    fmtInt_02d _ hs, fmtInt_02d _ hH, fmtInt_02d _ hM,
    fmtInt_04d_int _ (by omega : 0 ≤ e.f.year) (by omega : e.f.year < 10000)]
  by_cases hneg : e.off < 0 <;> simp [hneg, render, formatOffset, since]

/-- **offset_roundtrip for the generated f-string.**  For every offset below 24 h the string the f-string
evaluates to ends in a blank followed by the offset field `±HH:MM`, and cftime's timezone grammar reads that field
back as the same number of minutes. -/
theorem src_offset_roundtrip (e : TEnv)
    (hy : 1 ≤ e.f.year ∧ e.f.year ≤ 9999) (hmo : e.f.month < 100) (hd : e.f.day < 100)
    (hh : e.f.hour < 100) (hmi : e.f.minute < 100) (hs : e.f.second < 100) (ho : e.off.natAbs < 24 * 60) :
    ∃ pre, interp e Gen.tuNewUnits = some (pre ++ ' ' :: formatOffset e.off) ∧
      parseOffset (formatOffset e.off) = some e.off := by
  refine ⟨e.period ++ ' ' :: since ++ ' ' :: pad4 e.f.year.toNat ++ '-' :: pad2 e.f.month ++ '-' :: pad2 e.f.day ++
    ' ' :: pad2 e.f.hour ++ ':' :: pad2 e.f.minute ++ ':' :: pad2 e.f.second, ?_, offset_roundtrip e.off ho⟩
  rw [src_template_spec e hy hmo hd hh hmi hs (by omega)]
  simp [render]

/-- **output_form for the generated f-string**: whatever the f-string evaluates to on in-range fields has the
form `<unit> since YYYY-MM-DD HH:MM:SS ±HH:MM`. -/
theorem src_template_form (e : TEnv)
    (hy : 1 ≤ e.f.year ∧ e.f.year ≤ 9999) (hmo : e.f.month < 100) (hd : e.f.day < 100)
    (hh : e.f.hour < 100) (hmi : e.f.minute < 100) (hs : e.f.second < 100) (ho : e.off.natAbs < 24 * 60) :
    ∃ out, interp e Gen.tuNewUnits = some out ∧ EmsForm e.period out :=
  ⟨_, src_template_spec e hy hmo hd hh hmi hs (by omega), render_form e.period e.f e.off⟩

/-! ## `format_time_units_for_ems`: the whole function -/

/-- **The generated program is the model.**  For every lawful calendar arithmetic, every calendar name and every
units string: running the statements of `format_time_units_for_ems` as translated from the source — `_datesplit`,
`_parse_date` of the stripped remainder, `pytz.FixedOffset` of its last component, `num2pydate(0, units, calendar)`,
`.replace(tzinfo=UTC).astimezone(tz)`, the f-string, the guard
`if num2pydate(0, new_units, calendar) != reference_datetime: raise`, `return new_units` — returns exactly what the
hand model with the consistency check returns (and raises exactly where it raises). -/
theorem src_format_spec (c : CalOps) (L : CalLaws c) (calendar units : Str) :
    run c Gen.tuFormatProg calendar units = formatTimeUnitsChecked c calendar units := by
  unfold formatTimeUnitsChecked formatWith formatCore parseUnits run objects
  cases hs : datesplit units with
  | none => simp [Gen.tuFormatProg, runSteps, atomOk]
  | some pr =>
    obtain ⟨p, rem⟩ := pr
    cases hb : parseDate (stripR rem) with
    | none => simp [Gen.tuFormatProg, runSteps, atomOk, hb]
    | some b =>
      by_cases ho : 1440 ≤ b.off.natAbs
      · simp [Gen.tuFormatProg, runSteps, atomOk, hb, ho]
      · cases hr : refInstant c calendar units with
        | none => simp [Gen.tuFormatProg, runSteps, atomOk, hb, hr, ho]
        | some r =>
          obtain ⟨t, mic⟩ := r
          by_cases hv : c.valid (c.ofSec (t + 60 * b.off)) = false
          · simp [Gen.tuFormatProg, runSteps, atomOk, hb, hr, ho, localFields, hv]
          · have hv' : c.valid (c.ofSec (t + 60 * b.off)) = true := by simpa using hv
            obtain ⟨hy1, hy2, _, hmo, _, hd, hh, hmi, hsec⟩ := L.bounds _ hv'
            have ht := src_template_spec ⟨p, b.off, c.ofSec (t + 60 * b.off)⟩ ⟨hy1, hy2⟩
              (by simp only; omega) (by simp only; omega) (by simp only; omega) (by simp only; omega)
              (by simp only; omega) (by simp only; omega)
            simp only at ht
            simp [Gen.tuFormatProg, runSteps, atomOk, hb, hr, ho, localFields, hv, tenv, resultTemplate, ht,
              evalCond, atomInstant]
            generalize refInstant c calendar (render pad4 formatOffset p (c.ofSec (t + 60 * b.off)) b.off) = q
            cases q with
            | none => simp
            | some q => by_cases hq : q = (t, mic) <;> simp [hq]

/-- The generated program computes the **primary** model `formatTimeUnits` (the one `output_form`, `same_instant`,
`same_zone`, `format_valid`, `format_some_iff` are about): its own guard only ever rejects a sub-second epoch. -/
theorem src_format_primary (c : CalOps) (L : CalLaws c) (calendar units : Str) :
    run c Gen.tuFormatProg calendar units = formatTimeUnits c calendar units := by
  rw [src_format_spec c L, check_redundant c L]

/-- **output_form for the generated program**: whatever the translated function returns — for any units string,
calendar, date, time of day and offset — has the form `<unit> since YYYY-MM-DD HH:MM:SS ±HH:MM`, `<unit>` being the
lower-cased unit of the input. -/
theorem src_output_form (c : CalOps) (L : CalLaws c) (calendar units out : Str)
    (h : run c Gen.tuFormatProg calendar units = some out) :
    ∃ p b, parseUnits units = some (p, b) ∧ EmsForm p out :=
  output_form c calendar units out (by rw [← src_format_primary c L]; exact h)

/-- **same_instant for the generated program**: the string the translated function returns denotes, through
cftime, exactly the reference instant of the input. -/
theorem src_same_instant (c : CalOps) (L : CalLaws c) (calendar units out : Str)
    (h : run c Gen.tuFormatProg calendar units = some out) :
    refInstant c calendar out = refInstant c calendar units ∧ (refInstant c calendar units).isSome :=
  same_instant c L calendar units out (by rw [← src_format_primary c L]; exact h)

/-- **offset_roundtrip / same_zone for the generated program**: the returned string reads back (cftime's grammar)
as the same unit, the same local fields and the **same offset** as the input. -/
theorem src_same_zone (c : CalOps) (L : CalLaws c) (calendar units out : Str)
    (h : run c Gen.tuFormatProg calendar units = some out) :
    ∃ p b, parseUnits units = some (p, b) ∧ parseUnits out = some (p, ⟨b.f, false, b.off⟩) ∧
      out = render pad4 formatOffset p b.f b.off :=
  same_zone c L calendar units out (by rw [← src_format_primary c L]; exact h)

/-- **Totality of the generated program on the quantified inputs**: it raises on no valid input, whatever its
spelling, and returns the EMS spelling of the unit, local fields and offset it read. -/
theorem src_format_valid (c : CalOps) (L : CalLaws c) (calendar units : Str) (k : CalKind)
    (hk : classifyCalendar calendar = some k) (p : Str) (b : Bits)
    (hp : parseUnits units = some (p, b)) (hv : ValidInput c k p b) :
    run c Gen.tuFormatProg calendar units = some (render pad4 formatOffset p b.f b.off) := by
  rw [src_format_primary c L]; exact format_valid c L calendar units k hk p b hp hv

/-- **End to end on the concrete proleptic Gregorian calendar**: for every unit, real date from year 2 to 9998, time
of day, offset below 24 h and spelling of the family, the translated function returns the EMS form. -/
theorem src_ems_rewrite_gregorian (p : Str) (hp : p ∈ allowedUnits) (f : Fields) (hv : gValid f = true)
    (hy : 2 ≤ f.year ∧ f.year ≤ 9998) (off : Int) (ho : off.natAbs < 1440) (sp : Spelling)
    (hok : sp.Ok f off) :
    run gregorian Gen.tuFormatProg pg (spellUnits p f off sp) = some (render pad4 formatOffset p f off) := by
  rw [src_format_primary gregorian gregorian_lawful]
  exact (ems_rewrite_gregorian p hp f hv hy off ho sp hok).1

/-! ## `disable_default_fill_value` -/

/-- **The translated decision is the model's.**  For every variable description (dtype class in memory and on
disk, state of the `_FillValue` slot of the encoding, presence of the attribute): running the translated loop body —
`if current_dtype == promoted_dtype and "_FillValue" not in variable.encoding and "_FillValue" not in variable.attrs:
variable.encoding["_FillValue"] = None`, with Python's short-circuit `and` — gives `disableDefaultFill`; and the
loop runs over every variable (`_get_variables`). -/
theorem src_fill_spec (v : VarDesc) : fillRun Gen.tuFillProg v = some (disableDefaultFill v) := by
  obtain ⟨mem, disk, enc, attr⟩ := v
  cases mem <;> cases enc <;> cases attr <;> rfl

/-- **fill_decision for the generated term**: the translated code gives a variable `_FillValue = None` in its
encoding iff it is float-like and has no fill value in encoding or attributes, and leaves every other variable
exactly as it was. -/
theorem src_fill_decision (v : VarDesc) :
    (fillRun Gen.tuFillProg v = some { v with enc := .none } ∧ v.enc = .absent ↔
      promoteStable v.mem = true ∧ v.enc = .absent ∧ v.attr = false) ∧
    (¬ (promoteStable v.mem = true ∧ v.enc = .absent ∧ v.attr = false) → fillRun Gen.tuFillProg v = some v) := by
  have h := fill_decision v
  rw [src_fill_spec]
  simpa using h

/-- **no_new_fill for the generated term** (same hypothesis as `no_new_fill`): after the translated code has run,
the saved variable has a `_FillValue` attribute exactly when the source had one. -/
theorem src_no_new_fill (v : VarDesc) (hyp : autoFills v.disk = true → promoteStable v.mem = true) :
    (fillRun Gen.tuFillProg v).map writesFill = some (sourceHasFill v) := by
  rw [src_fill_spec]; simp [no_new_fill v hyp]

/-! ## `Convention.time_coordinate` -/

/-- **The translated generic search is the model's**: walking `dataset.variables` in order, with the nested tests
`'units' in encoding`, `'since' in encoding['units']`, `dtype.type == numpy.datetime64`, and
`NoSuchCoordinateError` after the loop, finds what `timeCoordinate .generic` finds — for every list of variables. -/
theorem src_time_coordinate_generic (vars : List TVar) :
    tcRun Gen.tuTimeCoordGeneric vars = some (timeCoordinate .generic vars) := by
  simp only [Gen.tuTimeCoordGeneric, tcRun, timeCoordinate, timeCoordinateGeneric]
  induction vars with
  | nil => simp [tcSearch]
  | cons v r ih =>
    have hs : ∀ u, strContains ['s', 'i', 'n', 'c', 'e'] u = hasSince u := strContains_since
    cases hu : v.encUnits with
    | none => simp [tcSearch, tcAll, tcCondEval, hu, ih, List.find?]
    | some u =>
      cases hsn : hasSince u <;> cases hd : v.isDatetime <;>
        simp [tcSearch, tcAll, tcCondEval, hu, ih, List.find?, hs, hsn, hd]

/-- **The translated SHOC overrides are the model's**: `ShocStandard` / `ShocSimple` answer with the *variable*
named `t` / `time` and raise `NoSuchCoordinateError` when the dataset has no such variable (a bare dimension is not
one). -/
theorem src_time_coordinate_shoc (vars : List TVar) :
    tcRun Gen.tuTimeCoordShocStandard vars = some (timeCoordinate .shocStandard vars) ∧
    tcRun Gen.tuTimeCoordShocSimple vars = some (timeCoordinate .shocSimple vars) := by
  have key : ∀ n : String, (if vars.any (fun v => v.name == n) = true then some n else none)
      = (vars.find? fun v => v.name == n).map (·.name) := by
    intro n
    induction vars with
    | nil => simp
    | cons v r ih =>
      by_cases h : v.name = n
      · simp [h]
      · have h' : (v.name == n) = false := by simpa using h
        simp only [List.any_cons, h', Bool.false_or, List.find?_cons]
        exact ih
  constructor <;>
    simp only [Gen.tuTimeCoordShocStandard, Gen.tuTimeCoordShocSimple, tcRun, timeCoordinate, timeCoordinateNamed,
      shocTimeName, key]

/-- Which convention class answers `time_coordinate` with which code: the two SHOC classes with their own
override, every other registered convention with the generic search of `Convention` — the assignment the
correspondence (`harness/props/c17.py: CONV_KIND`) and `timeCoordinate` rest on. -/
theorem src_time_coordinate_owners :
    Gen.tuTimeCoordOwners = [("ArakawaC", "Convention"), ("CFGrid1D", "Convention"), ("CFGrid2D", "Convention"),
      ("ShocSimple", "ShocSimple"), ("ShocStandard", "ShocStandard"), ("UGrid", "Convention")] := by decide

/-- **time_coordinate_first for the generated term**: what the translated search returns is the first variable, in
dataset order, with encoding units containing `since` and a datetime64 dtype. -/
theorem src_time_coordinate_first (vars : List TVar) (n : String)
    (h : tcRun Gen.tuTimeCoordGeneric vars = some (some n)) :
    ∃ pre v post u, vars = pre ++ v :: post ∧ v.name = n ∧ v.encUnits = some u ∧ hasSince u = true ∧
      v.isDatetime = true ∧
      ∀ w ∈ pre, ¬ (∃ u', w.encUnits = some u' ∧ hasSince u' = true ∧ w.isDatetime = true) := by
  rw [src_time_coordinate_generic] at h
  exact time_coordinate_first vars n (by simpa using h)

/-- **time_coordinate_none for the generated term**: the translated search raises `NoSuchCoordinateError` exactly
when no variable qualifies (and never raises anything else). -/
theorem src_time_coordinate_none (vars : List TVar) :
    tcRun Gen.tuTimeCoordGeneric vars = some none ↔
      ∀ w ∈ vars, ¬ (∃ u', w.encUnits = some u' ∧ hasSince u' = true ∧ w.isDatetime = true) := by
  rw [src_time_coordinate_generic, ← time_coordinate_none]
  simp

/-! ## `fix_time_units_for_ems` -/

/-- **The translated file rewrite is the model's `fixAttrs`**: opened `r+`, the `units` attribute of the named
variable is replaced by `format_time_units_for_ems(units, calendar)` of the two attributes found in the file, nothing
else is written, and a missing attribute raises — for every formatter and every pair of attributes, the calendar
attribute not being the empty string. -/
theorem src_fix_spec (fmt : Str → Str → Option Str) (units calendar : Option Str) (hc : calendar ≠ some []) :
    fixRun fmt Gen.tuFixSteps units calendar = fixAttrs fmt units calendar := by
  cases units with
  | none => cases calendar <;> simp [Gen.tuFixSteps, fixRun, fixSteps, fixVal, fixGet, fixAttrs]
  | some u =>
    cases calendar with
    | none => simp [Gen.tuFixSteps, fixRun, fixSteps, fixVal, fixGet, fixAttrs]
    | some cal =>
      have hne : cal ≠ [] := fun h => hc (by rw [h])
      cases hf : fmt cal u <;>
        simp [Gen.tuFixSteps, fixRun, fixSteps, fixVal, fixGet, fixAttrs, hne, hf]

/-- The one place where code and model part: an **empty** `calendar` attribute is read as the default calendar
(`getncattr('calendar') or DEFAULT_CALENDAR`), where `fixAttrs` hands the empty name to the formatter. -/
theorem src_fix_empty_calendar (fmt : Str → Str → Option Str) (u : Str) :
    fixRun fmt Gen.tuFixSteps (some u) (some []) = fmt pg u := by
  have hpg : pg = ['p', 'r', 'o', 'l', 'e', 'p', 't', 'i', 'c', '_', 'g', 'r', 'e', 'g', 'o', 'r', 'i', 'a', 'n'] := by
    decide
  rw [hpg]
  cases hf : fmt ['p', 'r', 'o', 'l', 'e', 'p', 't', 'i', 'c', '_', 'g', 'r', 'e', 'g', 'o', 'r', 'i', 'a', 'n'] u <;>
    simp [Gen.tuFixSteps, fixRun, fixSteps, fixVal, fixGet, hf]

/-! ## Non-vacuity: the hypotheses are met and the interpreters do run -/

example : interp ⟨"days".toList, 480, ⟨1990, 1, 1, 0, 0, 0⟩⟩ Gen.tuNewUnits
    = some "days since 1990-01-01 00:00:00 +08:00".toList := by decide
example : interp ⟨"hours".toList, -210, ⟨990, 11, 16, 12, 5, 9⟩⟩ Gen.tuNewUnits
    = some "hours since 0990-11-16 12:05:09 -03:30".toList := by decide
example : run gregorian Gen.tuFormatProg pg "days since 1990-01-01T00:00:00+08:00".toList
    = some "days since 1990-01-01 00:00:00 +08:00".toList := by decide
example : run gregorian Gen.tuFormatProg pg "Hours since 2021-11-16 12:00 -0330".toList
    = some "hours since 2021-11-16 12:00:00 -03:30".toList := by decide
/-- refused inputs: an offset of 24 h, a sub-second epoch (the function's own guard), an unknown calendar -/
example : run gregorian Gen.tuFormatProg pg "days since 1990-01-01 00:00:00 +24:00".toList = none
    ∧ run gregorian Gen.tuFormatProg pg "days since 1990-01-01 00:00:00.5 +10:00".toList = none
    ∧ run gregorian Gen.tuFormatProg "noleap".toList "days since 1990-01-01 00:00:00".toList = none := by decide
/-- Python's integer formatting as the interpreter gives it: minimum width, never truncating; the sign counts -/
example : fmtInt ⟨.minusOnly, true, 2⟩ 7 = "07".toList ∧ fmtInt ⟨.minusOnly, true, 2⟩ 123 = "123".toList
    ∧ fmtInt ⟨.minusOnly, false, 2⟩ 7 = " 7".toList ∧ fmtInt ⟨.minusOnly, false, 0⟩ 7 = "7".toList
    ∧ fmtInt ⟨.minusOnly, true, 2⟩ (-4) = "-4".toList ∧ fmtInt ⟨.plus, true, 3⟩ 8 = "+08".toList
    ∧ fmtInt ⟨.minusOnly, true, 4⟩ 990 = "0990".toList := by decide
example : fillRun Gen.tuFillProg ⟨.float, .float, .absent, false⟩ = some ⟨.float, .float, .none, false⟩
    ∧ fillRun Gen.tuFillProg ⟨.int, .int, .absent, false⟩ = some ⟨.int, .int, .absent, false⟩
    ∧ fillRun Gen.tuFillProg ⟨.float, .float, .value, false⟩ = some ⟨.float, .float, .value, false⟩ := by decide
example : tcRun Gen.tuTimeCoordGeneric [⟨"a", none, true⟩, ⟨"b", some "days".toList, true⟩,
      ⟨"time", some "days since 1990-01-01".toList, true⟩] = some (some "time")
    ∧ tcRun Gen.tuTimeCoordGeneric [⟨"a", none, true⟩] = some none
    ∧ tcRun Gen.tuTimeCoordShocStandard [⟨"time", some "days since 1990-01-01".toList, true⟩] = some none
    ∧ tcRun Gen.tuTimeCoordShocSimple [⟨"temp", none, false⟩, ⟨"time", none, false⟩] = some (some "time") := by decide
example : fixRun (formatTimeUnitsChecked gregorian) Gen.tuFixSteps
      (some "days since 1990-01-01T00:00:00+10:00".toList) (some pg)
    = some "days since 1990-01-01 00:00:00 +10:00".toList := by decide
example : fixRun (formatTimeUnitsChecked gregorian) Gen.tuFixSteps none (some pg) = none := by decide

end Ems.C17
