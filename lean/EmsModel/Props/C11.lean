import EmsModel.Core.Registry
import EmsModel.Core.Binding
import EmsModel.Lemmas.Registry
import EmsModel.Lemmas.RegistryBuiltin
import EmsModel.Lemmas.Binding
/-!
# C11 — convention detection and binding are deterministic and stable

Property theorems only.  The registry theorems hold for *any* type of convention classes,
any `check_dataset` functions (which may raise), any lists of registered and entry-point
classes; the binding theorems for *any* sequence of operations, of any length, on any number
of datasets.  Specificity values and the entry points come from the generated tables.
-/
namespace Ems.C11

open Ems.Reg Ems.Bind

/-! ## Detection -/

/-- `registry.conventions`: no duplicates; exactly the registered classes and the entry points;
ordered by first occurrence in `registered ++ entry points` (so every registered class precedes
every class that is only an entry point); nothing reordered. -/
theorem conventions_spec {α : Type} [DecidableEq α] (reg ep : List α) :
    (conventions reg ep).Nodup
    ∧ (∀ x, x ∈ conventions reg ep ↔ x ∈ reg ∨ x ∈ ep)
    ∧ (conventions reg ep).Pairwise (fun a b => (reg ++ ep).idxOf a < (reg ++ ep).idxOf b)
    ∧ List.Sublist (conventions reg ep) (reg ++ ep)
    ∧ (conventions reg ep).Pairwise (fun a b => b ∈ reg → a ∈ reg) :=
  ⟨nodup_conventions reg ep, mem_conventions reg ep, pairwise_idxOf_dedupAux _ _,
   dedupAux_sublist _ _, conventions_registered_first reg ep⟩

/-- `entry_point_conventions()`: each class that some entry point loads to, exactly once, in
entry-point order; entry points that fail to load or load to something else are skipped. -/
theorem entry_points_spec (eps : List EntryPoint) :
    (scanEntryPoints eps).Nodup
    ∧ (∀ c, c ∈ scanEntryPoints eps ↔ EntryPoint.cls c ∈ eps)
    ∧ List.Sublist ((scanEntryPoints eps).map EntryPoint.cls) eps
    ∧ (scanEntryPoints eps).Pairwise (fun a b =>
        (eps.filterMap EntryPoint.cls?).idxOf a < (eps.filterMap EntryPoint.cls?).idxOf b) := by
  refine ⟨nodup_dedupAux _ _, ?_, ?_, pairwise_idxOf_dedupAux _ _⟩
  · intro c
    rw [scanEntryPoints, mem_dedupAux, mem_filterMap_cls]; simp
  · exact ((dedupAux_sublist _ _).map _).trans (filterMap_cls_sublist eps)

/-- `get_dataset_convention` is `guess_convention` over `registry.conventions` with the
`check_dataset` of each class applied to the dataset's feature record. -/
theorem detect_eq_guess (env : SynthEnv) (reg : List Cls) (f : Features) :
    detect env reg f = guess (fun c => clsCheck env c f) (conventions reg entryPointClasses) := rfl

/-- **The chosen class.**  When no check raises, `c` is chosen iff it matches with some
specificity `s`, every matching class *before* it in registry order is strictly less specific
and every matching class *after* it is at most as specific: the first class, in
registration-then-entry-point order, among those of maximal specificity. -/
theorem guess_spec {α ε : Type} [DecidableEq α] (check : α → Except ε (Option Nat))
    (reg ep : List α) (hok : ∀ c, c ∈ reg ∨ c ∈ ep → ∃ m, check c = .ok m) (c : α) :
    guess check (conventions reg ep) = .ok (some c) ↔
      ∃ pre post s, conventions reg ep = pre ++ c :: post ∧ check c = .ok (some s) ∧
        (∀ d ∈ pre, ∀ t, check d = .ok (some t) → t < s) ∧
        (∀ d ∈ post, ∀ t, check d = .ok (some t) → t ≤ s) :=
  guess_some_iff check _ (fun c hc => hok c ((mem_conventions reg ep c).1 hc)) c

/-- `registry.match_conventions`: when no check raises, the result holds exactly the matching
classes with their specificities (a permutation of the matches in registry order), is ordered
from most to least specific, and is *stable*: two matches that are already in an admissible
order keep their relative order. -/
theorem match_conventions_spec {α ε : Type} [DecidableEq α] (check : α → Except ε (Option Nat))
    (cs : List α) (l : List (α × Nat)) (h : matchConventions check cs = .ok l) :
    l.Pairwise (fun a b => b.2 ≤ a.2)
    ∧ l.Perm (cs.filterMap (okMatch check))
    ∧ ∀ a b, List.Sublist [a, b] (cs.filterMap (okMatch check)) → b.2 ≤ a.2 → List.Sublist [a, b] l := by
  simp only [matchConventions] at h
  cases hc : collect check cs with
  | error e => simp [hc] at h
  | ok m =>
    simp only [hc, Except.ok.injEq] at h
    have hm : m = cs.filterMap (okMatch check) := by
      have := collect_ok check cs (collect_ok_inv check cs m hc)
      rw [hc] at this
      cases this; rfl
    subst h
    rw [← hm]
    refine ⟨?_, List.mergeSort_perm _ _, ?_⟩
    · have := List.pairwise_mergeSort (le := specGe) specGe_trans specGe_total m
      exact this.imp (fun {a b} hab => by simpa [specGe] using hab)
    · intro a b hsub hle
      exact List.pair_sublist_mergeSort specGe_trans specGe_total (by simpa [specGe] using hle) hsub

/-- the chosen class matches, and no class of the registry matches with a higher specificity -/
theorem guess_maximal {α ε : Type} [DecidableEq α] (check : α → Except ε (Option Nat))
    (reg ep : List α) (c : α) (h : guess check (conventions reg ep) = .ok (some c)) :
    (c ∈ reg ∨ c ∈ ep) ∧ ∃ s, check c = .ok (some s) ∧
      ∀ d, d ∈ reg ∨ d ∈ ep → ∀ t, check d = .ok (some t) → t ≤ s := by
  obtain ⟨hc, s, hs, hall⟩ := guess_max check _ c h
  exact ⟨(mem_conventions reg ep c).1 hc, s, hs,
    fun d hd t ht => hall d ((mem_conventions reg ep d).2 hd) t ht⟩

/-- **Refusal.**  `None` is returned iff no class of the registry matches. -/
theorem guess_none_iff {α ε : Type} [DecidableEq α] (check : α → Except ε (Option Nat))
    (reg ep : List α) :
    guess check (conventions reg ep) = .ok none ↔ ∀ c, c ∈ reg ∨ c ∈ ep → check c = .ok none := by
  rw [Ems.Reg.guess_none_iff]
  constructor
  · intro h c hc; exact h c ((mem_conventions reg ep c).2 hc)
  · intro h c hc; exact h c ((mem_conventions reg ep c).1 hc)

/-- detection raises iff the `check_dataset` of some class of the registry raises -/
theorem guess_error_iff {α ε : Type} [DecidableEq α] (check : α → Except ε (Option Nat))
    (reg ep : List α) :
    (∃ e, guess check (conventions reg ep) = .error e) ↔
      ∃ c, (c ∈ reg ∨ c ∈ ep) ∧ ∃ e, check c = .error e := by
  rw [Ems.Reg.guess_error_iff]
  constructor
  · rintro ⟨c, hc, e⟩; exact ⟨c, (mem_conventions reg ep c).1 hc, e⟩
  · rintro ⟨c, hc, e⟩; exact ⟨c, (mem_conventions reg ep c).2 hc, e⟩

/-- **A manually registered convention wins ties.**  If the chosen class was not registered
manually, every manually registered class that matches is *strictly* less specific. -/
theorem manual_wins_ties {α ε : Type} [DecidableEq α] (check : α → Except ε (Option Nat))
    (reg ep : List α) (c : α) (h : guess check (conventions reg ep) = .ok (some c))
    (hc : c ∉ reg) :
    ∃ s, check c = .ok (some s) ∧ ∀ m ∈ reg, ∀ t, check m = .ok (some t) → t < s := by
  have hok := guess_ok_all_ok check _ _ h
  obtain ⟨pre, post, s, hsplit, hs, hpre, _⟩ := (guess_some_iff check _ hok c).1 h
  refine ⟨s, hs, ?_⟩
  intro m hm t ht
  have hmem : m ∈ conventions reg ep := (mem_conventions reg ep m).2 (Or.inl hm)
  have hord := conventions_registered_first reg ep
  rw [hsplit] at hmem hord
  rcases List.mem_append.1 hmem with hp | hp
  · exact hpre m hp t ht
  · rcases List.mem_cons.1 hp with rfl | hp
    · exact absurd hm hc
    · have := (List.pairwise_append.1 hord).2.1
      rw [List.pairwise_cons] at this
      exact absurd (this.1 m hp hm) hc

/-- among manually registered classes, the one registered first wins ties -/
theorem first_registered_wins_ties {α ε : Type} [DecidableEq α] (check : α → Except ε (Option Nat))
    (reg₁ reg₂ ep : List α) (m c : α) (hm : m ∉ reg₁) (hmc : m ≠ c)
    (h : guess check (conventions (reg₁ ++ m :: reg₂) ep) = .ok (some c)) (hc : c ∉ reg₁) :
    ∃ s, check c = .ok (some s) ∧ ∀ t, check m = .ok (some t) → t < s := by
  have hok := guess_ok_all_ok check _ _ h
  obtain ⟨pre, post, s, hsplit, hs, hpre, _⟩ := (guess_some_iff check _ hok c).1 h
  refine ⟨s, hs, ?_⟩
  intro t ht
  have hmem : m ∈ conventions (reg₁ ++ m :: reg₂) ep := (mem_conventions _ ep m).2 (Or.inl (by simp))
  have hord := pairwise_idxOf_dedupAux ((reg₁ ++ m :: reg₂) ++ ep) []
  change (conventions (reg₁ ++ m :: reg₂) ep).Pairwise _ at hord
  rw [hsplit] at hmem hord
  rcases List.mem_append.1 hmem with hp | hp
  · exact hpre m hp t ht
  · rcases List.mem_cons.1 hp with rfl | hp
    · exact absurd rfl hmc
    · exfalso
      have := (List.pairwise_append.1 hord).2.1
      rw [List.pairwise_cons] at this
      have hlt := this.1 m hp
      have hm_idx : ((reg₁ ++ m :: reg₂) ++ ep).idxOf m = reg₁.length := by
        rw [List.append_assoc, List.idxOf_append, if_neg hm]
        simp
      have hc_idx : ((reg₁ ++ m :: reg₂) ++ ep).idxOf c
          = ((m :: reg₂) ++ ep).idxOf c + reg₁.length := by
        rw [List.append_assoc, List.idxOf_append, if_neg hc]
      have hpos : 0 < ((m :: reg₂) ++ ep).idxOf c := by
        have : (m == c) = false := by simp [hmc]
        simp [List.idxOf_cons, this]
      omega

/-- **SHOC over generic CF grids.**  Whatever else is registered: when a SHOC class matches
the dataset, neither generic CF grid class is chosen. -/
theorem shoc_over_cf (env : SynthEnv) (reg : List Cls) (f : Features) (c : Cls)
    (h : detect env reg f = .ok (some c))
    (hshoc : shocSimpleCheck f ≠ none ∨ shocStandardCheck f ≠ none) :
    c ≠ .builtin .CFGrid1D ∧ c ≠ .builtin .CFGrid2D := by
  obtain ⟨_, s, hs, hall⟩ := guess_maximal _ reg entryPointClasses c h
  -- a SHOC class `b` of the registry matches with its own specificity `t ≤ s`
  have key : ∃ b t, (b = Builtin.ShocSimple ∨ b = .ShocStandard) ∧ ownSpec b = some t ∧ t ≤ s := by
    rcases hshoc with hsh | hsh
    · cases hv : shocSimpleCheck f with
      | none => exact absurd hv hsh
      | some t =>
        have hchk : clsCheck env (.builtin .ShocSimple) f = .ok (some t) := by
          simp [clsCheck, builtinCheck, hv]
        exact ⟨.ShocSimple, t, Or.inl rfl, builtinCheck_spec _ f t hchk,
          hall _ (Or.inr (builtin_mem_entryPoints _)) t hchk⟩
    · cases hv : shocStandardCheck f with
      | none => exact absurd hv hsh
      | some t =>
        have hchk : clsCheck env (.builtin .ShocStandard) f = .ok (some t) := by
          simp [clsCheck, builtinCheck, hv]
        exact ⟨.ShocStandard, t, Or.inr rfl, builtinCheck_spec _ f t hchk,
          hall _ (Or.inr (builtin_mem_entryPoints _)) t hchk⟩
  obtain ⟨b, t, hb, hbt, hts⟩ := key
  constructor
  · rintro rfl
    have := shoc_above_cf b .CFGrid1D t s hb (Or.inl rfl) hbt (builtinCheck_spec _ f s hs)
    omega
  · rintro rfl
    have := shoc_above_cf b .CFGrid2D t s hb (Or.inr rfl) hbt (builtinCheck_spec _ f s hs)
    omega

/-- `UGrid.check_dataset` matches exactly when the `Conventions` attribute contains `UGRID`
and the first data variable with `cf_role = "mesh_topology"` has `topology_dimension = 2`. -/
theorem ugrid_check_iff (f : Features) :
    ugridCheck f ≠ none ↔
      containsSub "UGRID" f.conventions = true ∧
      ∃ m, meshVariable f = some m ∧ m.topologyDimension = some (.int 2) := by
  have hsp : ∃ s, ownSpec .UGrid = some s := by
    have := ownSpec_isSome .UGrid (by decide)
    exact Option.isSome_iff_exists.1 this
  obtain ⟨s, hs⟩ := hsp
  unfold ugridCheck
  by_cases hm : containsSub "UGRID" f.conventions = true
  · simp only [hm, if_true, true_and]
    cases hv : meshVariable f with
    | none => simp
    | some m =>
      by_cases htd : m.topologyDimension = some (.int 2)
      · simp [htd, hs]
      · simp [htd]
  · simp [hm]

/-- **UGRID only with its marker and a 2-D mesh variable.**  If `UGrid` is chosen then the
`Conventions` global attribute contains `UGRID` (as an infix) and some data variable has
`cf_role = "mesh_topology"` and `topology_dimension = 2`. -/
theorem ugrid_needs_marker_and_mesh2d (env : SynthEnv) (reg : List Cls) (f : Features)
    (h : detect env reg f = .ok (some (.builtin .UGrid))) :
    (∃ s t, f.conventions.toList = s ++ "UGRID".toList ++ t) ∧
    ∃ m ∈ f.vars, m.isData = true ∧ m.cfRole = some (.str "mesh_topology")
      ∧ m.topologyDimension = some (.int 2) := by
  obtain ⟨_, s, hs, _⟩ := guess_maximal _ reg entryPointClasses _ h
  have hne : ugridCheck f ≠ none := by
    simp only [clsCheck, builtinCheck, Except.ok.injEq] at hs
    rw [hs]; simp
  obtain ⟨hmark, m, hm, htd⟩ := (ugrid_check_iff f).1 hne
  refine ⟨(containsSubL_iff _ _).1 hmark, m, List.mem_of_find?_eq_some hm, ?_⟩
  have hp := List.find?_some hm
  simp only [Bool.and_eq_true] at hp
  refine ⟨hp.1, ?_, htd⟩
  have := hp.2
  unfold eqStr at this
  split at this
  · rename_i t heq
    simp only [beq_iff_eq] at this
    rw [heq, this]
  · cases this

/-! ## Binding -/

/-- **Detection is a function of the dataset's content and the registry alone.**  What
`dataset.ems` does on a dataset without a convention is determined by
`det w.reg f` — the registered classes and the feature record `f` of the dataset —
whatever happened before to this or any other dataset. -/
theorem guess_pure (det : Detector) (w : World) (d : Nat) (f : Features)
    (hf : w.feat d = some f) (hb : w.bound d = none) :
    step det w (.access d) =
      match det w.reg f with
      | .error _ => (w, .errCheck)
      | .ok none => (w, .errNoConvention)
      | .ok (some c) => if constructible c then (w.bindNew d c, .obj w.nObj) else (w, .errConstruct) := by
  simp only [step, hf, hb]
  rfl

/-- **A dataset nothing matches is refused.**  If no class of the registry matches the dataset,
`dataset.ems` raises and attaches nothing. -/
theorem unmatched_refused (env : SynthEnv) (w : World) (d : Nat) (f : Features)
    (hf : w.feat d = some f) (hb : w.bound d = none)
    (hno : ∀ c, c ∈ w.reg ∨ c ∈ entryPointClasses → clsCheck env c f = .ok none) :
    step (detect env) w (.access d) = (w, .errNoConvention) := by
  rw [guess_pure (detect env) w d f hf hb]
  have : detect env w.reg f = .ok none := by
    rw [detect_eq_guess]
    exact (guess_none_iff _ w.reg entryPointClasses).2 hno
  rw [this]

/-- two unbound datasets with equal content, in worlds with the same registered classes,
get a convention of the same class (or the same refusal), whatever their histories -/
theorem guess_pure_two_worlds (det : Detector) (w₁ w₂ : World) (d₁ d₂ : Nat) (f : Features)
    (h₁ : w₁.feat d₁ = some f) (h₂ : w₂.feat d₂ = some f)
    (b₁ : w₁.bound d₁ = none) (b₂ : w₂.bound d₂ = none) (hr : w₁.reg = w₂.reg) :
    let r₁ := step det w₁ (.access d₁)
    let r₂ := step det w₂ (.access d₂)
    (∀ k₁, r₁.2 = .obj k₁ → ∃ k₂ c, r₂.2 = .obj k₂ ∧ r₁.1.obj k₁ = some ⟨d₁, c⟩ ∧ r₂.1.obj k₂ = some ⟨d₂, c⟩)
    ∧ ((∀ k₁, r₁.2 ≠ .obj k₁) → r₂.2 = r₁.2) := by
  intro r₁ r₂
  have e₁ : r₁ = _ := guess_pure det w₁ d₁ f h₁ b₁
  have e₂ : r₂ = _ := guess_pure det w₂ d₂ f h₂ b₂
  rw [hr] at e₁
  rw [e₁, e₂]
  cases det w₂.reg f with
  | error e => simp
  | ok r =>
    cases r with
    | none => simp
    | some c =>
      by_cases hc : constructible c = true
      · simp [hc, World.bindNew, upd]
      · simp [hc]

/-- `dataset.ems` returning an instance means that instance is now attached -/
theorem access_attaches (det : Detector) (w : World) (d k : Nat)
    (h : (step det w (.access d)).2 = .obj k) : (step det w (.access d)).1.bound d = some k := by
  simp only [step] at h ⊢
  cases hf : w.feat d with
  | none => simp [hf] at h
  | some f =>
    cases hb : w.bound d with
    | some k' => simp [hf, hb] at h ⊢; exact h
    | none =>
      simp only [hf, hb] at h ⊢
      cases hdet : det w.reg f with
      | error e => simp [hdet] at h
      | ok r =>
        cases r with
        | none => simp [hdet] at h
        | some c =>
          simp only [hdet] at h ⊢
          split at h
          · rename_i hc
            simp only [hc, if_true]
            cases h
            simp [World.bindNew, upd]
          · cases h

/-- **Once a convention is attached, every later access returns that same object.**
For any start (any datasets, any registered classes), any operations `ops₁` after which
dataset `d` has instance `k` attached, and *any* further operations `ops₂`: `k` is still
attached and `dataset.ems` returns `k`, leaving everything unchanged. -/
theorem bound_stable (det : Detector) (dss : List Features) (reg : List Cls)
    (ops₁ ops₂ : List Op) (d k : Nat)
    (h : (run det (World.init dss reg) ops₁).bound d = some k) :
    let w₂ := run det (run det (World.init dss reg) ops₁) ops₂
    w₂.bound d = some k ∧ step det w₂ (.access d) = (w₂, .obj k) := by
  intro w₂
  have hb : w₂.bound d = some k := run_keeps_bound det ops₂ _ d k h
  have hinv : Inv w₂ := inv_run det ops₂ _ (inv_run det ops₁ _ (inv_init dss reg))
  refine ⟨hb, ?_⟩
  have hlt := hinv.bound_lt d k hb
  have hsome := (hinv.feat_lt d).2 hlt
  obtain ⟨f, hf⟩ := Option.isSome_iff_exists.1 hsome
  simp [step, hf, hb]

/-- the caller's view: once `dataset.ems` has returned an instance, it returns that instance
after any further operations -/
theorem access_stable (det : Detector) (dss : List Features) (reg : List Cls)
    (ops₁ ops₂ : List Op) (d k : Nat) :
    let w₁ := run det (World.init dss reg) ops₁
    (step det w₁ (.access d)).2 = .obj k →
    let w₂ := run det (step det w₁ (.access d)).1 ops₂
    step det w₂ (.access d) = (w₂, .obj k) := by
  intro w₁ h w₂
  have hb := access_attaches det w₁ d k h
  have hrun : (step det w₁ (.access d)).1 = run det (World.init dss reg) (ops₁ ++ [.access d]) := by
    rw [run_append]; rfl
  have := bound_stable det dss reg (ops₁ ++ [.access d]) ops₂ d k (by rw [← hrun]; exact hb)
  simp only at this
  rw [← hrun] at this
  exact this.2

/-- the same from an arbitrary world, well-formed or not: an attached instance is never
detached or replaced -/
theorem bound_stable_any_world (det : Detector) (w : World) (ops : List Op) (d k : Nat)
    (h : w.bound d = some k) : (run det w ops).bound d = some k :=
  run_keeps_bound det ops w d k h

/-- **A second attachment is refused.**  When dataset `d` has a convention, then after any
further operations, `bind()` of any instance constructed for `d` (the attached one included)
and `cls(d).bind()` for any class raise, and change nothing. -/
theorem rebind_refused (det : Detector) (w : World) (ops : List Op) (d k₀ : Nat)
    (h : w.bound d = some k₀) :
    let w₂ := run det w ops
    (∀ k c, w₂.obj k = some ⟨d, c⟩ → step det w₂ (.bind k) = (w₂, .errAlreadyBound))
    ∧ (∀ c, (w₂.feat d).isSome → constructible c = true →
         step det w₂ (.cbind d c) = (w₂, .errAlreadyBound)) := by
  intro w₂
  have hb : w₂.bound d = some k₀ := run_keeps_bound det ops w d k₀ h
  constructor
  · intro k c ho
    simp [step, ho, hb]
  · intro c hf hc
    obtain ⟨f, hf⟩ := Option.isSome_iff_exists.1 hf
    simp [step, hf, hc, hb]

/-- **Copies are independent (frame).**  An operation changes neither the attached convention
nor the content of any existing dataset other than the one it is about. -/
theorem copies_independent (det : Detector) (w : World) (hw : Inv w) (op : Op) (d' : Nat)
    (hex : (w.feat d').isSome) (ht : op.target w ≠ some d') :
    (step det w op).1.bound d' = w.bound d' ∧ (step det w op).1.feat d' = w.feat d' := by
  have hlt := (hw.feat_lt d').1 hex
  exact step_frame det w op d' ht (by omega)

/-- `dataset.copy()` returns a new dataset with the same content and *no* convention, and
leaves every attachment (that of the original included) as it was. -/
theorem copy_fresh (det : Detector) (w : World) (hw : Inv w) (d : Nat) (f : Features)
    (hf : w.feat d = some f) :
    let r := step det w (.copy d)
    r.2 = .ds w.nDs ∧ (w.feat w.nDs = none) ∧ r.1.feat w.nDs = some f ∧ r.1.bound w.nDs = none
      ∧ (∀ d', r.1.bound d' = w.bound d') ∧ (∀ d', d' ≠ w.nDs → r.1.feat d' = w.feat d') := by
  intro r
  have hnone : w.feat w.nDs = none := by
    cases hx : w.feat w.nDs with
    | none => rfl
    | some g =>
      have := (hw.feat_lt w.nDs).1 (by simp [hx])
      omega
  have hbn : w.bound w.nDs = none := by
    cases hx : w.bound w.nDs with
    | none => rfl
    | some k => have := hw.bound_lt _ k hx; omega
  refine ⟨by simp [r, step, hf], hnone, by simp [r, step, hf, upd], by simp [r, step, hf, hbn], ?_, ?_⟩
  · intro d'; simp [r, step, hf]
  · intro d' hd'; simp [r, step, hf, upd, hd']

/-- **No convention instance is ever shared.**  From any start and after any operations, two
different datasets (a dataset and its copy, for instance) never have the same instance
attached, and an attached instance is one that was constructed for that very dataset. -/
theorem no_shared_convention (det : Detector) (dss : List Features) (reg : List Cls)
    (ops : List Op) (d d' k : Nat) :
    let w := run det (World.init dss reg) ops
    (w.bound d = some k → ∃ c, w.obj k = some ⟨d, c⟩)
    ∧ (w.bound d = some k → w.bound d' = some k → d = d') := by
  intro w
  have hinv : Inv w := inv_run det ops _ (inv_init dss reg)
  refine ⟨hinv.bound_obj d k, ?_⟩
  intro h₁ h₂
  obtain ⟨c₁, e₁⟩ := hinv.bound_obj d k h₁
  obtain ⟨c₂, e₂⟩ := hinv.bound_obj d' k h₂
  rw [e₁] at e₂
  cases e₂
  rfl

/-! ## The hypotheses are satisfiable: concrete, non-trivial instances -/

section Examples

def exLat : VarFeat :=
  { name := "lat", isData := false, dims := ["j", "i"], units := some (.str "degrees_north") }
def exLon : VarFeat :=
  { name := "lon", isData := false, dims := ["j", "i"], standardName := some (.str "longitude") }
def exMesh : VarFeat :=
  { name := "Mesh2", isData := true, dims := [], cfRole := some (.str "mesh_topology"),
    topologyDimension := some (.int 2) }

/-- a SHOC simple dataset: also a CF 2-D grid -/
def exShoc : Features := { conventions := "CF-1.0", hasEmsVersion := true, vars := [exLat, exLon] }
/-- the same without `ems_version`: the near-miss is a plain CF 2-D grid -/
def exCf : Features := { exShoc with hasEmsVersion := false }
/-- a hybrid carrying the UGRID marker and mesh *and* the SHOC simple features: a tie at HIGH -/
def exHybrid : Features :=
  { conventions := "CF-1.6, UGRID-1.0", hasEmsVersion := true, vars := [exLat, exLon, exMesh] }

def noSynth : SynthEnv := fun _ => .const none
/-- synthetic class 0 matches everything with specificity 30, class 1 with 10 -/
def exEnv : SynthEnv := fun i => if i = 0 then .const (some 30) else .const (some 10)

example : detect noSynth [] exShoc = .ok (some (.builtin .ShocSimple)) := by rw [detect_eq_detectSpec]; decide
example : detect noSynth [] exCf = .ok (some (.builtin .CFGrid2D)) := by rw [detect_eq_detectSpec]; decide
example : detect noSynth [] { exCf with vars := [exLat] } = .ok none := by rw [detect_eq_detectSpec]; decide
-- hypotheses of `shoc_over_cf`
example : shocSimpleCheck exShoc ≠ none := by decide
-- a tie between two entry points is broken by entry-point order …
example : detect noSynth [] exHybrid = .ok (some (.builtin .ShocSimple)) := by rw [detect_eq_detectSpec]; decide
-- … a manually registered class wins the tie (`manual_wins_ties`), also a shipped one
example : detect noSynth [.builtin .UGrid] exHybrid = .ok (some (.builtin .UGrid)) := by rw [detect_eq_detectSpec]; decide
example : detect exEnv [.synth 1, .synth 0] exHybrid = .ok (some (.synth 0)) := by rw [detect_eq_detectSpec]; decide
-- … but does not win against a strictly more specific entry point
example : detect exEnv [.synth 1] exShoc = .ok (some (.builtin .ShocSimple)) := by rw [detect_eq_detectSpec]; decide
-- hypothesis of `ugrid_needs_marker_and_mesh2d`
example : detect noSynth [] { exHybrid with hasEmsVersion := false } = .ok (some (.builtin .UGrid)) := by
  rw [detect_eq_detectSpec]; decide
-- a raising check (unhashable `units`) makes detection raise (`guess_error_iff`)
example : detect noSynth [] { exCf with vars := [{ exLat with units := some .unhashable }] }
    = .error () := by rw [detect_eq_detectSpec]; decide

/-- a history: access, access again, copy, access the copy, re-bind the original's instance,
construct+bind on the copy -/
def exOps : List Op := [.access 0, .access 0, .copy 0, .access 1, .bind 0, .cbind 1 (.builtin .UGrid)]

example : outputs (detect noSynth) (World.init [exShoc] []) exOps
    = [.obj 0, .obj 0, .ds 1, .obj 1, .errAlreadyBound, .errAlreadyBound] := by
  rw [detect_eq_detectSpec]; decide
-- hypothesis of `bound_stable` / `rebind_refused`
example : (run (detect noSynth) (World.init [exShoc] []) [.access 0]).bound 0 = some 0 := by
  rw [detect_eq_detectSpec]; decide
-- hypothesis of `guess_pure` / `copy_fresh`: the copy exists and is unbound
example : (run (detect noSynth) (World.init [exShoc] []) [.access 0, .copy 0]).bound 1 = none := by
  rw [detect_eq_detectSpec]; decide
example : (run (detect noSynth) (World.init [exShoc] []) [.access 0, .copy 0]).feat 1 = some exShoc := by
  rw [detect_eq_detectSpec]; decide

end Examples

end Ems.C11
