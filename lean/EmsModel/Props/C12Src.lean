import EmsModel.Gen.DepthSrc
import EmsModel.Lemmas.DepthSrc
import EmsModel.Props.C12
import EmsModel.Props.C13Src
/-!
# C12, tied to the source — `_find_ocean_floor_indexes` as it is written now

`Gen.depthFindFloorIndexes` is regenerated on every run by `harness/trans_depth.py` from the SOURCE TEXT
of `emsarray.operations.depth._find_ocean_floor_indexes` (the `ast` of the working tree), as a term of
the expression language `Ems.DepthSrc.FExpr` (`Core/DepthSrc.lean`: `input`, `mulConst`, `addConst`,
`cumsum` with NaN counted as 0, `argmax` skipping NaN and returning the first maximum).  The theorems
below are about that generated term, for every water column of every length: it computes the hand
model's `Ems.Depth.floorIndex`, the function `Ems.C12.floor_index_spec` and every dataset-level theorem
of `Props/C12.lean` are about.  A change of the expression that changes what is computed (`argmin`,
`* 1`, `+ 0`, no `cumsum`, another dimension) leaves `find_floor_term_spec` unprovable.
-/
namespace Ems.C12

open Ems Ems.Depth Ems.DepthSrc

/-- Everything in the three translated functions of `operations/depth.py` was understood by the
translator (no `unsupported` term was emitted). -/
theorem depth_source_translated : Gen.depthSrcComplaints = [] := by decide

/-- **The source expression computes the hand model.** For every non-empty water column (numbers and
NaN, any length) the expression `_find_ocean_floor_indexes` returns, read with xarray's `cumsum` /
`argmax` semantics, evaluates to `floorIndex col` — the running count of valid layers followed by the
first arg-max. -/
theorem find_floor_term_spec (col : List Val) (h : col ≠ []) :
    Gen.depthFindFloorIndexes.eval col = some (.idx (floorIndex col)) := by
  simp only [Gen.depthFindFloorIndexes, FExpr.eval]
  rw [indicator_map _ _ rfl rfl]
  rw [cumsum_indicator_zero, argmax_nat _ (runCount_ne_nil 0 col h)]
  rfl

/-- On an axis with no level the expression raises (`argmax` of an empty column), as xarray does. -/
theorem find_floor_term_empty : Gen.depthFindFloorIndexes.eval [] = none := by
  simp [Gen.depthFindFloorIndexes, FExpr.eval, fCumsumFrom, fArgmax, fArgmaxGo]

/-- **`floor_index_spec` for the source expression**: when layer `i` is the last valid layer of the
column, the expression as written returns exactly `i`, which is in range, holds data, and has only
missing layers after it — gaps inside the column do not matter. -/
theorem find_floor_term_last_valid (col : List Val) (i : Nat) (h : lastValid col = some i) :
    Gen.depthFindFloorIndexes.eval col = some (.idx i) ∧ i < col.length ∧ (∃ a, col[i]? = some (some a))
      ∧ ∀ j, i < j → j < col.length → col[j]? = some none := by
  obtain ⟨h1, h2, h3, h4⟩ := floor_index_spec col i h
  have hne : col ≠ [] := by
    intro hc; subst hc; simp at h2
  exact ⟨by rw [find_floor_term_spec col hne, h1], h2, h3, h4⟩

/-- a column without any valid layer gets index 0 (the value picked there is missing, as wanted) -/
theorem find_floor_term_all_missing (col : List Val) (hne : col ≠ []) (h : ∀ x ∈ col, x = none) :
    Gen.depthFindFloorIndexes.eval col = some (.idx 0) := by
  rw [find_floor_term_spec col hne, (floor_index_none col).2 h]

/-! ## `ocean_floor`: statement order and the constants the dataset-level model depends on -/

/-- The statements of `ocean_floor` as the dataset-level model `Ems.Depth.oceanFloorOrd` reads them, in source
order (positional parameters `p0` = dataset, `p1` = depth coordinates; locals numbered in order of first
binding: `v0` depth dimensions, `v1` non-spatial dimensions, `v2` the depth dimension of the iteration, `v3`
the groups, `v4`/`v5` name / variable, `v6` spatial dimension set, `v7` the names of a group, `v8` the example
array, `v9` the floor indexes, `v10` the subset).  Model definitions, line by line:
`normalize … (some true) (some false)`; `dimsOf` twice; the depth dimensions in the order `order`; `groupsOf`
(`spatialOf`, skip when the depth dimension is missing or no spatial dimension is left, `addToGroups`);
`floorGroup`: the example is the FIRST name of the group with every non-spatial dimension at index 0
(`zeroNs`), `floorIdx` = `_find_ocean_floor_indexes` of it along the depth dimension, `inSubset kb` =
`extract_vars(…, keep_bounds=kb)` minus the one-dimensional coordinates of the depth dimension, `floorVar` =
`isel({depth: indexes})`, the result merged in front of the rest; `dropDims`. -/
def oceanFloorSourceSteps : List (String × String) := [
    ("def", "(p0, p1; non_spatial_variables)"),
    ("assign", "p1 = list(p1)"),
    ("assign", "p0 = normalize_depth_variables(p0, p1, positive_down=True, deep_to_shallow=False)"),
    ("if", "non_spatial_variables is None"),
    ("assign", "non_spatial_variables = []"),
    ("end", "if"),
    ("assign", "v0 = utils.dimensions_from_coords(p0, p1)"),
    ("assign", "v1 = utils.dimensions_from_coords(p0, non_spatial_variables)"),
    ("for", "v2 in sorted(v0, key=hash)"),
    ("assign", "v3 = defaultdict(list)"),
    ("for", "(v4, v5) in p0.data_vars.items()"),
    ("if", "v2 not in v5.dims"),
    ("continue", "continue"),
    ("end", "if"),
    ("assign", "v6 = frozenset(v5.dims).difference({v2}, v1)"),
    ("if", "not v6"),
    ("continue", "continue"),
    ("end", "if"),
    ("expr", "v3[v6].append(v4)"),
    ("end", "for"),
    ("for", "(v6, v7) in v3.items()"),
    ("assign", "v8 = p0.data_vars[v7[0]].isel({v4: 0 for v4 in v1}, drop=True, missing_dims='ignore')"),
    ("assign", "v9 = _find_ocean_floor_indexes(v8, v2)"),
    ("assign", "v10 = utils.extract_vars(p0, v7, keep_bounds=False)"),
    ("assign", "v10 = v10.drop_vars([v4 for v4, v11 in v10.coords.items() if v11.dims == (v2,)])"),
    ("assign", "v10 = v10.isel({v2: v9}, drop=True, missing_dims='ignore')"),
    ("assign", "p0 = v10.merge(p0, compat='override')"),
    ("end", "for"),
    ("end", "for"),
    ("assign", "p0 = p0.drop_dims(v0, errors='ignore')"),
    ("return", "return p0")]

/-- **Statement order of `ocean_floor`.** The statements of the function as the source has them now — which
variable of a group the floor index is computed from (`v7[0]`, non-spatial dimensions at index 0), along which
dimension, what is indexed with it (`isel({v2: v9})` on the subset of `extract_vars`), the order normalise →
group → index → merge → drop — are exactly the sequence the model `oceanFloorOrd` was written against. -/
theorem ocean_floor_steps_generated : Gen.depthOceanFloorSteps = oceanFloorSourceSteps := by decide

/-- the keyword constants the model is parameterised by: `positive_down=True, deep_to_shallow=False` for the
normalisation, `keep_bounds=False` for `extract_vars` (the repaired call: the theorems of `Props/C12.lean`
need no extra hypothesis for `kb = false`) -/
theorem ocean_floor_constants_generated :
    Gen.depthOceanFloorNormalizeOpts = (some true, some false) ∧ Gen.depthOceanFloorKeepBounds = some false := by
  decide

/-- `ocean_floor` with the pieces that are translated from the source put in: the loop body generated from
`normalize_depth_variables` run with the generated options, then the grouping of the hand model with the
generated `keep_bounds` -/
def oceanFloorSrc (ds : Dataset) (coords ns order : List String) : Option Dataset :=
  match Gen.depthOceanFloorKeepBounds with
  | none => none
  | some kb =>
    match runNormalize Gen.depthNormalizeBody ds coords Gen.depthOceanFloorNormalizeOpts.1
        Gen.depthOceanFloorNormalizeOpts.2 with
    | none => none
    | some (nds, _) =>
      match dimsOf nds coords, dimsOf nds ns with
      | some ddims, some nsdims =>
        if order.all (· ∈ ddims) && ddims.all (· ∈ order) then
          (floorDims kb nsdims nds order).map (·.dropDims ddims)
        else none
      | _, _ => none

/-- **The dataset-level model is the source's.** With the normalisation loop and the three keyword constants
taken from the source, `ocean_floor` is `oceanFloorOrd false` — the function `floor_spec`,
`ocean_floor_succeeds`, `other_vars_untouched`, `depth_removed`, `sizes_kept` are about (for `kb = false`,
i.e. without the hypothesis that excludes the repaired finding). -/
theorem ocean_floor_src_spec (ds : Dataset) (coords ns order : List String)
    (hn : Names ds) (hwf : Ems.C13.CoordWF ds)
    (hself : ∀ c ∈ coords, ∀ v, ds.find c = some v → v.bounds ≠ some c) :
    oceanFloorSrc ds coords ns order = oceanFloorOrd false ds coords ns order := by
  unfold oceanFloorSrc oceanFloorOrd
  rw [ocean_floor_constants_generated.2, ocean_floor_constants_generated.1]
  simp only []
  rw [Ems.C13.normalize_src_spec ds coords (some true) (some false) hn hwf hself]
  cases normalize ds coords (some true) (some false) with
  | none => rfl
  | some r => rfl

/-! ### non-vacuity -/

example : Gen.depthFindFloorIndexes.eval [some 5, none, some (-3), none] = some (.idx 2) := by
  rw [find_floor_term_spec _ (by simp)]; decide

example : lastValid [some (5 : Rat), none, some (-3), none] = some 2 := by decide

example : Gen.depthFindFloorIndexes.eval [none, none] = some (.idx 0) :=
  find_floor_term_all_missing _ (by simp) (by simp)

end Ems.C12
