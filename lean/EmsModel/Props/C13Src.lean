import EmsModel.Gen.DepthSrc
import EmsModel.Lemmas.DepthSrcNorm
import EmsModel.Props.C13
/-!
# C13, tied to the source — the loop of `normalize_depth_variables` as it is written now

`Gen.depthNormalizeBody` is regenerated on every run by `harness/trans_depth.py` from the SOURCE TEXT of
`emsarray.operations.depth.normalize_depth_variables`: the body of its `for variable in depth_coordinates:`
loop as a program of the statement language `Ems.DepthSrc.NStmt` (`Core/DepthSrc.lean`) — guards, comparison
operators, constants (`'down'`, `'up'`, `-1`, `2`, `[0:2]`, `[::-1]`), which local every expression reads,
the order of the statements, and every effect on the working dataset are in the term.  The theorems below
run that program with the interpreter `NStmt.run` and prove, for every dataset, coordinate and option pair,
that it computes `Ems.Depth.normStep` — one iteration of the hand model all C13 theorems are about —
warnings included; and that the whole function is `Ems.Depth.normalize`.

The proofs execute the generated program symbolically (`simp` with the equations of the interpreter), in
three parts: the head (look-ups, the `positive` attribute, the sign decision), the sign flip, the ordering.
They mention local variables only through their slot numbers (1 `name`, 2 `dimension`, 3 `new_variable`,
5 `data_positive_down`): renaming locals, comments, log lines and layout leave the generated file
byte-identical; a change of what is computed leaves the part it belongs to unprovable.

Hypotheses (all are `xarray` invariants or hypotheses of the C13 theorems): variable names are unique; a
variable called like its only dimension is a coordinate (`CoordWF`); no depth coordinate names itself as
its own `bounds` (there the code reads the first two levels from a stale `new_variable`, the hand model
from the dataset — they differ; outside the property's hypotheses).
-/
namespace Ems.C13

open Ems Ems.Depth Ems.DepthSrc

/-- the loop body up to and including the decision of `data_positive_down` -/
def srcHead : List NStmt := Gen.depthNormalizeBody.take 7
/-- `if positive_down is not None and data_positive_down != positive_down: …` -/
def srcFlip : List NStmt := (Gen.depthNormalizeBody.drop 7).take 1
/-- `if deep_to_shallow is not None: …` -/
def srcOrder : List NStmt := Gen.depthNormalizeBody.drop 8

theorem src_parts : Gen.depthNormalizeBody = srcHead ++ (srcFlip ++ srcOrder) := by
  have h : ∀ l : List NStmt, l = l.take 7 ++ ((l.drop 7).take 1 ++ l.drop 8) := by
    intro l
    have : l.drop 8 = (l.drop 7).drop 1 := by simp
    rw [this, List.take_append_drop, List.take_append_drop]
  exact h _

/-- `xarray`: a variable whose only dimension has its own name is an (index) coordinate -/
def CoordWF (ds : Dataset) : Prop := ∀ v ∈ ds.vars, v.dims = [v.name] → v.isCoord = true

/-- What surrounds the loop is `new_dataset = dataset.copy()`, `for … in depth_coordinates:`, `return
new_dataset`, with the keyword-only parameters `positive_down`, `deep_to_shallow` — the frame
`Ems.DepthSrc.runNormalize` gives the body. -/
theorem normalize_frame_generated :
    Gen.depthNormalizeFrame =
      ["keywords: positive_down,deep_to_shallow", "W = param0.copy()", "for item in param1: body", "return W"] := by
  decide

/-- **Head of the loop body.** From the start of an iteration on the coordinate `item` (found in the
function's argument with the single dimension `dim`, and in the working dataset) the statements up to the
sign decision do not raise and leave: the working dataset with `positive` set as requested
(`withPositive`), the warning exactly when the attribute is missing, `name`, `dimension`,
`data_positive_down = signDown` (attribute `== 'down'`, or the majority guess `positive_values >
total_values / 2`) and `new_variable` = the coordinate in the working dataset. -/
theorem normalize_src_head (orig new : Dataset) (pd dts : Option Bool) (item dim : String) (cvar nv : Var)
    (ho : orig.find item = some cvar) (hd : cvar.dims = [dim]) (hnew : new.find item = some nv) :
    match NStmt.runBlock ⟨orig, pd, dts⟩ { new := new, epoch := 0, env := [(0, .str item)], warns := [] } srcHead with
    | .done s => s.new = withPositive pd new item
        ∧ s.warns = (if cvar.positive.isNone then [item ++ ":" ++ posName (signDown cvar)] else [])
        ∧ List.lookup 1 s.env = some (.str item) ∧ List.lookup 2 s.env = some (.str dim)
        ∧ List.lookup 5 s.env = some (.bool (signDown cvar))
        ∧ ∃ nv1 ep, List.lookup 3 s.env = some (.view nv1 ep) ∧ (withPositive pd new item).find item = some nv1
    | .raised _ _ => False := by
  have hcn : cvar.name = item := find_name _ _ _ ho
  have hnn : nv.name = item := find_name _ _ _ hnew
  have hfm : ∀ s, (new.modify item (Var.setPositive s)).find item = some (Var.setPositive s nv) := by
    intro s; rw [find_modify _ _ _ _ (setPositive_name s), hnew]; simp [hnn]
  have hsd : signDown cvar = match cvar.positive with | some s => s == "down" | none => guessDown cvar.data := rfl
  rcases pd with _ | b <;> cases hp : cvar.positive <;> rw [hp] at hsd <;> simp only [] at hsd <;>
    cases hv : signDown cvar <;> rw [hv] at hsd <;> (try cases b) <;>
    simp [srcHead, Gen.depthNormalizeBody, NStmt.runBlock, NStmt.run, NExpr.eval, envGet, envSet, List.lookup,
      ho, hd, hcn, hnn, hnew, hp, ← hsd, hfm, cmpVals, truthy, optBoolVal, attrLookup, natIndex, withPositive,
      evalArgs, maskSelect_map, cmpScalar_gt, vgt_zero, guess_eq_vgt, intercalate_two, cmpScalar_ne_some,
      cmpScalar_eq_some, otherViewOf, posName] <;>
    simpa using hsd.symm

/-- **The sign flip.** From any state in which `name`, `dimension`, `data_positive_down = d` and
`new_variable` (the coordinate `nv1` of the working dataset) are as the head leaves them, the statement
`if positive_down is not None and data_positive_down != positive_down:` does not raise and leaves the
working dataset `flipSign`-ed exactly when `wantFlip` (coordinate values times −1 through `assign_coords` +
re-attached attributes / encoding when `name == dimension`, through `assign` with the `(dims, values,
attrs, encoding)` tuple otherwise; the variable named by the `bounds` attribute, when it exists, times −1),
`data_positive_down` updated to the request, `new_variable` re-read from the dataset. -/
theorem normalize_src_flip (orig : Dataset) (pd dts : Option Bool) (item dim : String) (s : NState) (nv1 : Var)
    (ep : Option Nat) (d : Bool)
    (hnames : Names s.new) (hwf : CoordWF s.new)
    (h1 : List.lookup 1 s.env = some (.str item)) (h2 : List.lookup 2 s.env = some (.str dim))
    (h5 : List.lookup 5 s.env = some (.bool d)) (h3 : List.lookup 3 s.env = some (.view nv1 ep))
    (hf : s.new.find item = some nv1) (hd : nv1.dims = [dim]) (hself : nv1.bounds ≠ some item) :
    match NStmt.runBlock ⟨orig, pd, dts⟩ s srcFlip with
    | .done s' => s'.new = (if wantFlip pd d then flipSign s.new item else s.new) ∧ s'.warns = s.warns
        ∧ List.lookup 2 s'.env = some (.str dim)
        ∧ List.lookup 5 s'.env = some (.bool (if wantFlip pd d then !d else d))
        ∧ ∃ nv2 ep2, List.lookup 3 s'.env = some (.view nv2 ep2) ∧ s'.new.find item = some nv2
    | .raised _ _ => False := by
  obtain ⟨N, e, env, w⟩ := s
  simp only at hnames hwf h1 h2 h5 h3 hf ⊢
  have hnn : nv1.name = item := find_name _ _ _ hf
  have hm2 : N.modify item (fun v => rebuilt v (nv1.data.map vneg) v.isCoord (some nv1) (some nv1))
      = N.modify item negVar :=
    modify_of_find N hnames item nv1 hf _ _ (rebuilt_self nv1 _ rfl)
  have hm1 : item = dim → N.modify item (fun v => rebuilt v (nv1.data.map vneg) true (some nv1) (some nv1))
      = N.modify item negVar := by
    intro hid
    have hc : nv1.isCoord = true := hwf nv1 (find_mem _ _ _ hf) (by rw [hd, hnn, hid])
    exact modify_of_find N hnames item nv1 hf _ _ (rebuilt_self nv1 _ hc.symm)
  have hf2 : (N.modify item negVar).find item = some (negVar nv1) := by
    rw [find_modify _ _ _ _ negVar_name, hf]; simp [hnn]
  have hnames2 : Names (N.modify item negVar) := names_modify _ _ _ negVar_name hnames
  have hm3 : ∀ bn bv, (N.modify item negVar).find bn = some bv →
      (N.modify item negVar).modify bn (fun v => rebuilt v (bv.data.map vneg) v.isCoord (some bv) (some bv))
        = (N.modify item negVar).modify bn negVar :=
    fun bn bv hb => modify_of_find _ hnames2 bn bv hb _ _ (rebuilt_self bv _ rfl)
  have hf3 : ∀ bn, bn ≠ item → ((N.modify item negVar).modify bn negVar).find item = some (negVar nv1) := by
    intro bn hne
    rw [find_modify _ _ _ _ negVar_name, hf2]
    simp [negVar_name, hnn, Ne.symm hne]
  rcases pd with _ | b
  · simp [srcFlip, Gen.depthNormalizeBody, NStmt.runBlock, NStmt.run, NExpr.eval, envGet, envSet, List.lookup,
      h1, h2, h3, h5, hf, cmpVals, truthy, optBoolVal, wantFlip]
  · by_cases hbd : b = d
    · subst hbd
      cases b <;>
      simp [srcFlip, Gen.depthNormalizeBody, NStmt.runBlock, NStmt.run, NExpr.eval, envGet, envSet, List.lookup,
        h1, h2, h3, h5, hf, cmpVals, truthy, optBoolVal, wantFlip]
    · have hw : wantFlip (some b) d = true := by cases b <;> cases d <;> simp_all [wantFlip]
      have hdb : (!d) = b := by cases b <;> cases d <;> simp_all
      simp only [hw, if_true, hdb]
      have hne : NVal.bool d ≠ NVal.bool b := by intro h; injection h with h; exact hbd h.symm
      have hbnd : (negVar nv1).bounds = nv1.bounds := rfl
      by_cases hid : item = dim
      · subst hid
        have hm1' := hm1 rfl
        cases hb : nv1.bounds with
        | none =>
          cases b <;>
          simp [srcFlip, Gen.depthNormalizeBody, NStmt.runBlock, NStmt.run, NExpr.eval, envGet, envSet, List.lookup,
            h1, h2, h3, h5, hf, cmpVals, truthy, optBoolVal, hne, hd, vmul_neg_one_fun, evalAttrsSrc, evalEncSrc,
            flipSign, hb, hm1', hf2, attrLookup, hbnd]
        | some bn =>
          have hbi : bn ≠ item := fun h => hself (by rw [hb, h])
          cases hfb : (N.modify item negVar).find bn with
          | none =>
            have := modify_of_find_none _ bn hfb negVar
            cases b <;>
            simp [srcFlip, Gen.depthNormalizeBody, NStmt.runBlock, NStmt.run, NExpr.eval, envGet, envSet, List.lookup,
              h1, h2, h3, h5, hf, cmpVals, truthy, optBoolVal, hne, hd, vmul_neg_one_fun, evalAttrsSrc, evalEncSrc,
              flipSign, hb, hm1', hf2, attrLookup, hbnd, hfb, this]
          | some bv =>
            have := hm3 bn bv hfb
            have := hf3 bn hbi
            cases b <;>
            simp [srcFlip, Gen.depthNormalizeBody, NStmt.runBlock, NStmt.run, NExpr.eval, envGet, envSet, List.lookup,
              h1, h2, h3, h5, hf, cmpVals, truthy, optBoolVal, hne, hd, vmul_neg_one_fun, evalAttrsSrc, evalEncSrc,
              flipSign, hb, hm1', hf2, attrLookup, hbnd, hfb, *]
      · have hsd : NVal.str item ≠ NVal.str dim := by intro h; injection h with h; exact hid h
        cases hb : nv1.bounds with
        | none =>
          cases b <;>
          simp [srcFlip, Gen.depthNormalizeBody, NStmt.runBlock, NStmt.run, NExpr.eval, envGet, envSet, List.lookup,
            h1, h2, h3, h5, hf, cmpVals, truthy, optBoolVal, hne, hd, hsd, vmul_neg_one_fun, evalAttrsSrc, evalEncSrc,
            flipSign, hb, hm2, hf2, attrLookup, hbnd]
        | some bn =>
          have hbi : bn ≠ item := fun h => hself (by rw [hb, h])
          cases hfb : (N.modify item negVar).find bn with
          | none =>
            have := modify_of_find_none _ bn hfb negVar
            cases b <;>
            simp [srcFlip, Gen.depthNormalizeBody, NStmt.runBlock, NStmt.run, NExpr.eval, envGet, envSet, List.lookup,
              h1, h2, h3, h5, hf, cmpVals, truthy, optBoolVal, hne, hd, hsd, vmul_neg_one_fun, evalAttrsSrc,
              evalEncSrc, flipSign, hb, hm2, hf2, attrLookup, hbnd, hfb, this]
          | some bv =>
            have := hm3 bn bv hfb
            have := hf3 bn hbi
            cases b <;>
            simp [srcFlip, Gen.depthNormalizeBody, NStmt.runBlock, NStmt.run, NExpr.eval, envGet, envSet, List.lookup,
              h1, h2, h3, h5, hf, cmpVals, truthy, optBoolVal, hne, hd, hsd, vmul_neg_one_fun, evalAttrsSrc,
              evalEncSrc, flipSign, hb, hm2, hf2, attrLookup, hbnd, hfb, *]

/-- **The ordering.** From any state in which `dimension`, `data_positive_down = d2` and `new_variable`
(a one-dimensional variable `nv2`) are as the flip leaves them, the statement `if deep_to_shallow is not
None:` does what the hand model does: nothing when the option is unset; otherwise it raises when there
are fewer than two levels (`d1, d2 = values[0:2]`), and else reverses the whole dataset along the
dimension (`isel({dimension: numpy.s_[::-1]})`) exactly when `((d1 > d2) == data_positive_down) !=
deep_to_shallow`. -/
theorem normalize_src_order (orig : Dataset) (pd dts : Option Bool) (dim : String) (s : NState) (nv2 : Var)
    (ep : Option Nat) (d2 : Bool)
    (h2 : List.lookup 2 s.env = some (.str dim)) (h5 : List.lookup 5 s.env = some (.bool d2))
    (h3 : List.lookup 3 s.env = some (.view nv2 ep)) (hdim : nv2.dims = [dim]) :
    (NStmt.runBlock ⟨orig, pd, dts⟩ s srcOrder).result
    = match dts with
      | none => some (s.new, s.warns)
      | some t =>
        match deepFirst d2 nv2.data with
        | some dds => some (if dds != t then s.new.reverseAlong dim else s.new, s.warns)
        | none => none := by
  obtain ⟨N, e, env, w⟩ := s
  simp only at h2 h5 h3 ⊢
  rcases dts with _ | t
  · simp [NOut.result, srcOrder, Gen.depthNormalizeBody, NStmt.runBlock, NStmt.run, NExpr.eval, envGet, envSet, List.lookup,
      h2, h3, h5, cmpVals, truthy, optBoolVal]
  · rcases hdat : nv2.data with _ | ⟨x, _ | ⟨y, rest⟩⟩
    · simp [NOut.result, srcOrder, Gen.depthNormalizeBody, NStmt.runBlock, NStmt.run, NExpr.eval, envGet, envSet, List.lookup,
        h2, h3, h5, cmpVals, truthy, optBoolVal, hdim, hdat, sliceVals, deepFirst, firstTwo]
    · simp [NOut.result, srcOrder, Gen.depthNormalizeBody, NStmt.runBlock, NStmt.run, NExpr.eval, envGet, envSet, List.lookup,
        h2, h3, h5, cmpVals, truthy, optBoolVal, hdim, hdat, sliceVals, deepFirst, firstTwo]
    · cases t <;> cases d2 <;> cases hv : vgt x y <;>
      simp [NOut.result, srcOrder, Gen.depthNormalizeBody, NStmt.runBlock, NStmt.run, NExpr.eval, envGet, envSet, List.lookup,
        h2, h3, h5, cmpVals, truthy, optBoolVal, hdim, hdat, sliceVals, deepFirst, firstTwo, cmpScalar_gt, hv]

/-- what an iteration needs to know about the working dataset: unique names, index coordinates are
coordinates, and every variable of the argument is still there with its dimensions and `bounds` -/
structure SrcInv (orig new : Dataset) : Prop where
  names : Names new
  wf : CoordWF new
  same : ∀ n v, orig.find n = some v → ∃ w, new.find n = some w ∧ w.dims = v.dims ∧ w.bounds = v.bounds

theorem srcInv_self (ds : Dataset) (hn : Names ds) (hwf : CoordWF ds) : SrcInv ds ds :=
  ⟨hn, hwf, fun _ v h => ⟨v, h, rfl, rfl⟩⟩

theorem srcInv_mapVars (orig new : Dataset) (g : Var → Var) (hg : Keeps g) (h : SrcInv orig new) :
    SrcInv orig (new.mapVars g) where
  names := names_mapVars new g (fun v => (hg v).1) h.names
  wf := by
    intro v hv hd
    simp only [Dataset.mapVars, List.mem_map] at hv
    obtain ⟨u, hu, rfl⟩ := hv
    obtain ⟨a, b, _, c⟩ := hg u
    rw [c]; exact h.wf u hu (by rw [← a, ← b]; exact hd)
  same := by
    intro n v hv
    obtain ⟨w, hw, hd, hb⟩ := h.same n v hv
    refine ⟨g w, ?_, ?_, ?_⟩
    · rw [find_mapVars new g n (fun v => (hg v).1), hw]; rfl
    · rw [(hg w).2.1]; exact hd
    · rw [(hg w).2.2.1]; exact hb

/-- **The loop body as written computes one step of the hand model.** For every argument dataset `orig`,
working dataset `new` (related by `SrcInv`), option pair and coordinate name: running the program that
was generated from the source of the loop body — the new dataset and the warnings, or an exception —
is `Ems.Depth.normStep`, the function `normalize` iterates and the C13 theorems are about. -/
theorem normalize_body_spec (orig new : Dataset) (pd dts : Option Bool) (item : String) (hinv : SrcInv orig new)
    (hself : ∀ v, orig.find item = some v → v.bounds ≠ some item) :
    runIter Gen.depthNormalizeBody ⟨orig, pd, dts⟩ new item = normStep orig pd dts new item := by
  cases ho : orig.find item with
  | none =>
    simp [runIter, NOut.result, Gen.depthNormalizeBody, NStmt.runBlock, NStmt.run, NExpr.eval, envGet, envSet, List.lookup, ho,
      normStep]
  | some cvar =>
    rcases hd : cvar.dims with _ | ⟨dim, _ | ⟨d2, rest⟩⟩
    · simp [runIter, NOut.result, Gen.depthNormalizeBody, NStmt.runBlock, NStmt.run, NExpr.eval, envGet, envSet, List.lookup, ho,
        hd, normStep, cmpVals, truthy, cmpScalar_ne_some, natCast_succ_ne_zero]
    · -- the one-dimensional coordinate
      obtain ⟨nv, hnew, hnd, hnb⟩ := hinv.same item cvar ho
      rw [hd] at hnd
      have hnn : nv.name = item := find_name _ _ _ hnew
      unfold runIter
      rw [src_parts, runBlock_append]
      have H1 := normalize_src_head orig new pd dts item dim cvar nv ho hd hnew
      cases hr1 : NStmt.runBlock ⟨orig, pd, dts⟩ { new := new, epoch := 0, env := [(0, .str item)], warns := [] } srcHead with
      | raised e s => rw [hr1] at H1; exact H1.elim
      | done s1 =>
        rw [hr1] at H1
        obtain ⟨hn1, hw1, h1, h2, h5, nv1, ep, h3, hf1⟩ := H1
        simp only []
        obtain ⟨g1, hg1, e1⟩ := withPositive_mapVars pd new item
        have hinv1 : SrcInv orig s1.new := by rw [hn1, e1]; exact srcInv_mapVars orig new g1 hg1 hinv
        have hnv1 : nv1 = g1 nv := by
          rw [e1, find_mapVars new g1 item (fun v => (hg1 v).1), hnew] at hf1
          exact (Option.some.inj hf1).symm
        have hd1 : nv1.dims = [dim] := by rw [hnv1, (hg1 nv).2.1]; exact hnd
        have hb1 : nv1.bounds ≠ some item := by
          rw [hnv1, (hg1 nv).2.2.1, hnb]; exact hself cvar ho
        rw [runBlock_append]
        have H2 := normalize_src_flip orig pd dts item dim s1 nv1 ep (signDown cvar) hinv1.names hinv1.wf
          h1 h2 h5 h3 (by rw [hn1]; exact hf1) hd1 hb1
        cases hr2 : NStmt.runBlock ⟨orig, pd, dts⟩ s1 srcFlip with
        | raised e s => rw [hr2] at H2; exact H2.elim
        | done s2 =>
          rw [hr2] at H2
          obtain ⟨hn2, hw2, h2', h5', nv2, ep2, h3', hf2⟩ := H2
          simp only []
          have hd2 : nv2.dims = [dim] := by
            by_cases hw : wantFlip pd (signDown cvar) = true
            · rw [hn2, if_pos hw] at hf2
              obtain ⟨g, hg, e⟩ := flipSign_mapVars s1.new item
              rw [e, find_mapVars _ g item (fun v => (hg v).1), hn1, hf1] at hf2
              rw [← Option.some.inj hf2, (hg nv1).2.1]; exact hd1
            · rw [hn2, if_neg hw, hn1, hf1] at hf2
              rw [← Option.some.inj hf2]; exact hd1
          have H3 := normalize_src_order orig pd dts dim s2 nv2 ep2 _ h2' h5' h3' hd2
          rw [H3]
          simp only [normStep, ho, hd]
          rw [← hn1, ← hn2, hf2, hw2, hw1]
          cases dts <;> rfl
    · simp [runIter, NOut.result, Gen.depthNormalizeBody, NStmt.runBlock, NStmt.run, NExpr.eval, envGet, envSet, List.lookup, ho,
        hd, normStep, cmpVals, truthy, cmpScalar_ne_some, natCast_succ_ne_zero]

/-- the invariant of the loop is kept by one step -/
theorem srcInv_step (orig new : Dataset) (pd dts : Option Bool) (c : String) (new' : Dataset) (w : List String)
    (hinv : SrcInv orig new) (h : normStep orig pd dts new c = some (new', w)) : SrcInv orig new' := by
  obtain ⟨g, hg, e⟩ := normStep_mapVars orig new pd dts c new' w h
  rw [e]; exact srcInv_mapVars orig new g hg hinv

theorem run_loop_spec (orig : Dataset) (pd dts : Option Bool) : ∀ (coords : List String) (new : Dataset) (w : List String),
    SrcInv orig new → (∀ c ∈ coords, ∀ v, orig.find c = some v → v.bounds ≠ some c) →
    runLoop Gen.depthNormalizeBody ⟨orig, pd, dts⟩ coords new w = normLoop orig pd dts coords new w
  | [], _, _, _, _ => rfl
  | c :: cs, new, w, hinv, hself => by
    simp only [runLoop, normLoop]
    rw [normalize_body_spec orig new pd dts c hinv (hself c (by simp))]
    cases hs : normStep orig pd dts new c with
    | none => rfl
    | some r =>
      obtain ⟨new', w'⟩ := r
      simp only []
      exact run_loop_spec orig pd dts cs new' (w ++ w') (srcInv_step orig new pd dts c new' w' hinv hs)
        (fun c' hc' => hself c' (List.mem_cons_of_mem _ hc'))

/-- **`normalize_depth_variables` as written is the hand model.** For every dataset with unique variable
names whose index coordinates are coordinates, every list of depth coordinates none of which names itself
as its bounds, and every `positive_down` / `deep_to_shallow`: the function as the source has it — the
frame of `normalize_frame_generated` around the generated loop body — returns the dataset and emits the
warnings `Ems.Depth.normalize` does, and raises when it does.  Every theorem of `Props/C13.lean` is
therefore a statement about the code as written. -/
theorem normalize_src_spec (ds : Dataset) (coords : List String) (pd dts : Option Bool)
    (hn : Names ds) (hwf : CoordWF ds)
    (hself : ∀ c ∈ coords, ∀ v, ds.find c = some v → v.bounds ≠ some c) :
    runNormalize Gen.depthNormalizeBody ds coords pd dts = normalize ds coords pd dts :=
  run_loop_spec ds pd dts coords ds [] (srcInv_self ds hn hwf) hself

/-- the hypotheses of the C13 theorems include "no coordinate is its own bounds" -/
theorem valid_notSelf {ds : Dataset} {coords : List String} (h : Valid ds coords) :
    ∀ c ∈ coords, ∀ v, ds.find c = some v → v.bounds ≠ some c := by
  intro c hc v hv
  obtain ⟨cv, d, hg⟩ := h.good c hc
  have : v = cv := Option.some.inj (hv.symm.trans hg.found)
  subst this
  exact hg.notSelf

/-- **The C13 theorems speak about the source.** On every input that satisfies the hypotheses of the C13
theorems (`Valid`; plus the `xarray` invariant `CoordWF`) the function as written returns exactly what the
hand model returns — so `normalize_succeeds`, `normalize_sign`, `normalize_order`, `bounds_follow`,
`data_attached`, `normalize_idempotent`, … hold of the source's result: it does not raise, keeps sizes,
names and dimensions, and warns exactly about the coordinates without a `positive` attribute. -/
theorem normalize_src_succeeds (ds : Dataset) (coords : List String) (pd dts : Option Bool) (h : Valid ds coords)
    (hwf : CoordWF ds) :
    runNormalize Gen.depthNormalizeBody ds coords pd dts = normalize ds coords pd dts
    ∧ ∃ out, runNormalize Gen.depthNormalizeBody ds coords pd dts = some (out, coords.flatMap (warnFor ds))
      ∧ out.sizes = ds.sizes
      ∧ out.vars.map (·.name) = ds.vars.map (·.name)
      ∧ out.vars.map (·.dims) = ds.vars.map (·.dims) := by
  have e := normalize_src_spec ds coords pd dts h.names hwf (valid_notSelf h)
  obtain ⟨out, hn, h1, h2, h3⟩ := normalize_succeeds ds coords pd dts h
  exact ⟨e, out, by rw [e]; exact hn, h1, h2, h3⟩

/-! ### non-vacuity -/

/-- the example dataset of `Props/C13.lean` satisfies the extra hypothesis -/
example : CoordWF exDs := by unfold CoordWF; decide

example : Names exDs := by unfold Names; decide

/-- … and on it the loop as written flips the sign of `zc` and its bounds, reverses the data, and warns
about the coordinate that has no `positive` attribute: the same result as the hand model, non-trivial -/
example : runNormalize Gen.depthNormalizeBody exDs ["zc", "zsed"] (some true) (some true)
    = normalize exDs ["zc", "zsed"] (some true) (some true) :=
  (normalize_src_succeeds exDs ["zc", "zsed"] (some true) (some true) exValid (by unfold CoordWF; decide)).1

example : (runNormalize Gen.depthNormalizeBody exDs ["zc", "zsed"] (some true) (some true)).map
    (fun r => decide (r.1 ≠ exDs) && !r.2.isEmpty) = some true := by
  rw [(normalize_src_succeeds exDs ["zc", "zsed"] (some true) (some true) exValid (by unfold CoordWF; decide)).1]
  decide

/-- outside the hypotheses (a coordinate that names itself as its bounds) the loop as written and the hand
model really differ: the code reads the two first levels from the `new_variable` it took before the bounds
were negated -/
example :
    let ds : Dataset := { sizes := [("z", 2)], vars := [
      { name := "z", dims := ["z"], data := [some 1, some 2], positive := some "up", bounds := some "z",
        isCoord := true, extra := "e" }] }
    runNormalize Gen.depthNormalizeBody ds ["z"] (some true) (some true) ≠ normalize ds ["z"] (some true) (some true) := by
  decide +kernel

end Ems.C13
