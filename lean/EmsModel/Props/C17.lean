import EmsModel.Core.TimeUnits
import EmsModel.Lemmas.TimeUnits
import EmsModel.Lemmas.TimeUnitsFormat
import EmsModel.Lemmas.TimeUnitsCal
import EmsModel.Lemmas.TimeUnitsSpell
/-!
# C17 — saving with the EMS fixes: the rewritten time units and the fill-value decision

Property theorems only.  The theorems about `formatTimeUnits` hold for **every** units string,
calendar name, date, time of day and offset, and for every calendar arithmetic `c` that satisfies
`CalLaws` (a bijection between field tuples and seconds).  The netCDF file round trip itself
(data, geometry, convention after reopening) is runtime behaviour compared by the correspondence,
not modelled here (*Partial* in DESIGN.md).
-/
namespace Ems.C17

open Ems.TimeUnits

/-! ## the offset field -/

/-- Every offset below 24 h that the formatter writes is read back by cftime's timezone grammar
as the same number of minutes. -/
theorem offset_roundtrip (m : Int) (h : m.natAbs < 24 * 60) : parseOffset (formatOffset m) = some m :=
  parseOffset_formatOffset m h

/-- The offset field is `±HH:MM`: explicit sign, two digits, colon, two digits — for every `m`. -/
theorem offset_form (m : Int) :
    ∃ sg a b c d, formatOffset m = [sg, a, b, ':', c, d] ∧ (sg = '+' ∨ sg = '-') ∧
      isDig a = true ∧ isDig b = true ∧ isDig c = true ∧ isDig d = true := by
  refine ⟨if m < 0 then '-' else '+', dch (m.natAbs / 60 / 10), dch (m.natAbs / 60),
    dch (m.natAbs % 60 / 10), dch (m.natAbs % 60), by simp [formatOffset, pad2], ?_,
    isDig_dch _, isDig_dch _, isDig_dch _, isDig_dch _⟩
  by_cases h : m < 0 <;> simp [h]

/-- The sign written is the sign of the offset and the digits are its hours and minutes. -/
theorem offset_digits (m : Int) (h : m.natAbs < 24 * 60) :
    formatOffset m = (if m < 0 then '-' else '+') :: (pad2 (m.natAbs / 60) ++ ':' :: pad2 (m.natAbs % 60)) ∧
    m.natAbs / 60 < 24 ∧ m.natAbs % 60 < 60 := by
  refine ⟨rfl, by omega, by omega⟩

/-! ## the form of the output -/

/-- **output_form.** Whatever the formatter returns — for any units string, calendar, date, time
of day and offset — has the form `<unit> since YYYY-MM-DD HH:MM:SS ±HH:MM`, where `<unit>` is the
(lower-cased) unit of the input. -/
theorem output_form (c : CalOps) (calendar units out : Str)
    (h : formatTimeUnits c calendar units = some out) :
    ∃ p b, parseUnits units = some (p, b) ∧ EmsForm p out := by
  unfold formatTimeUnits at h
  cases hc : formatCore pad4 formatOffset c calendar units with
  | none => simp [hc] at h
  | some r =>
    obtain ⟨o, t, mic⟩ := r
    cases mic with
    | true => simp [hc] at h
    | false =>
      simp only [hc, Option.some.injEq] at h
      subst h
      obtain ⟨p, b, hp, _, _, _, ho⟩ := formatCore_some _ _ _ _ _ _ _ hc
      exact ⟨p, b, hp, ho ▸ render_form p _ _⟩

/-! ## the instant -/

/-- **same_instant.** For every units string, calendar, date, time of day and offset: if the
formatter returns `out`, then `out` denotes (through cftime) exactly the reference instant of the
input. -/
theorem same_instant (c : CalOps) (L : CalLaws c) (calendar units out : Str)
    (h : formatTimeUnits c calendar units = some out) :
    refInstant c calendar out = refInstant c calendar units ∧ (refInstant c calendar units).isSome := by
  unfold formatTimeUnits at h
  cases hc : formatCore pad4 formatOffset c calendar units with
  | none => simp [hc] at h
  | some r =>
    obtain ⟨o, t, mic⟩ := r
    cases mic with
    | true => simp [hc] at h
    | false =>
      simp only [hc, Option.some.injEq] at h
      subst h
      obtain ⟨h1, _⟩ := refInstant_formatCore c L _ _ _ _ hc
      obtain ⟨_, _, _, _, hr, _, _⟩ := formatCore_some _ _ _ _ _ _ _ hc
      simp [h1, hr]

/-- the zone and the unit are kept: the output reads back as the same unit, the same local fields
and the same offset as the input -/
theorem same_zone (c : CalOps) (L : CalLaws c) (calendar units out : Str)
    (h : formatTimeUnits c calendar units = some out) :
    ∃ p b, parseUnits units = some (p, b) ∧ parseUnits out = some (p, ⟨b.f, false, b.off⟩) ∧
      out = render pad4 formatOffset p b.f b.off := by
  unfold formatTimeUnits at h
  cases hc : formatCore pad4 formatOffset c calendar units with
  | none => simp [hc] at h
  | some r =>
    obtain ⟨o, t, mic⟩ := r
    cases mic with
    | true => simp [hc] at h
    | false =>
      simp only [hc, Option.some.injEq] at h
      subst h
      exact (refInstant_formatCore c L _ _ _ _ hc).2

/-- **Totality on the quantified inputs**, with the exact output: the formatter does not raise on
any valid input, whatever its spelling, and writes the unit, the local fields and the offset it
read in the EMS form. -/
theorem format_valid (c : CalOps) (L : CalLaws c) (calendar units : Str) (k : CalKind)
    (hk : classifyCalendar calendar = some k) (p : Str) (b : Bits)
    (hp : parseUnits units = some (p, b)) (hv : ValidInput c k p b) :
    formatTimeUnits c calendar units = some (render pad4 formatOffset p b.f b.off) := by
  obtain ⟨hu, hval, ho, hmic, hlo, hhi, hpy⟩ := hv
  have hr : refInstant c calendar units = some (c.toSec b.f - 60 * b.off, false) := by
    have hlo' : ¬ (c.toSec b.f - 60 * b.off < c.toSec firstFields ∨ c.toSec lastFields < c.toSec b.f - 60 * b.off) := by omega
    simp [refInstant, hk, hp, hu, bitsInstant, hval, hlo', hpy, hmic]
  have hloc : c.ofSec (c.toSec b.f) = b.f := L.ofSec_toSec b.f hval
  have ho' : ¬ (1440 ≤ b.off.natAbs) := by omega
  simp [formatTimeUnits, formatCore, hp, ho', hr, hloc, hval]

/-- **Exactly the quantified inputs are rewritten.** The formatter returns a string iff the input
has a supported unit and calendar, a real date and time of day, an offset below 24 h, no sub-second
part and a representable UTC instant; every other input is refused (the real function raises). -/
theorem format_some_iff (c : CalOps) (L : CalLaws c) (calendar units : Str) :
    (formatTimeUnits c calendar units).isSome = true ↔
      ∃ k p b, classifyCalendar calendar = some k ∧ parseUnits units = some (p, b) ∧ ValidInput c k p b := by
  constructor
  · intro h
    unfold formatTimeUnits at h
    cases hc : formatCore pad4 formatOffset c calendar units with
    | none => simp [hc] at h
    | some r =>
      obtain ⟨o, t, mic⟩ := r
      cases mic with
      | true => simp [hc] at h
      | false =>
        obtain ⟨p, b, hp, ho, hr, _, _⟩ := formatCore_some _ _ _ _ _ _ _ hc
        obtain ⟨k, p', b', hk, hp', hu, hv, ht, hmic, hlo, hhi, hpy⟩ := refInstant_some c calendar units t false hr
        rw [hp] at hp'
        obtain ⟨rfl, rfl⟩ : p = p' ∧ b = b' := by simpa using hp'
        exact ⟨k, p, b, hk, hp, ⟨hu, hv, ho, hmic.symm, by omega, by omega, by rw [← ht]; exact hpy⟩⟩
  · rintro ⟨k, p, b, hk, hp, hv⟩
    simp [format_valid c L calendar units k hk p b hp hv]

/-- The function's own consistency check (`num2pydate(0, new_units) != reference → raise`) never
fires for the demanded formatter except to reject a sub-second epoch: the model with the check
and the model without it are the same function. -/
theorem check_redundant (c : CalOps) (L : CalLaws c) (calendar units : Str) :
    formatTimeUnitsChecked c calendar units = formatTimeUnits c calendar units := by
  unfold formatTimeUnitsChecked formatWith formatTimeUnits
  cases hc : formatCore pad4 formatOffset c calendar units with
  | none => rfl
  | some r =>
    obtain ⟨o, t, mic⟩ := r
    obtain ⟨h1, _⟩ := refInstant_formatCore c L _ _ _ _ hc
    simp only [h1]
    cases mic <;> simp

/-- **Time instants are preserved**: every stored number decodes to the same instant under the
rewritten units as under the original ones. -/
theorem time_instants_preserved (c : CalOps) (L : CalLaws c) (calendar units out : Str)
    (h : formatTimeUnits c calendar units = some out) (n : Int) :
    decodeValue c calendar out n = decodeValue c calendar units n := by
  obtain ⟨hi, _⟩ := same_instant c L calendar units out h
  obtain ⟨p, b, hp, hpo, _⟩ := same_zone c L calendar units out h
  rcases hr : refInstant c calendar units with _ | ⟨t, mic⟩
  · simp [decodeValue, hi, hr]
  · cases mic <;> simp [decodeValue, hi, hp, hpo, hr]

/-- the default calendar name -/
def pg : Str := "proleptic_gregorian".toList

/-! ## every spelling of the quantifier -/

/-- **All spellings.** Written with `T`, a blank or any other separator, with or without seconds,
zero-padded or not (`1990-1-1 0:00`), with the offset as `±HH:MM`, `±HHMM`, `±HH`, `Z` or absent, attached or after a blank: cftime reads
the same unit, fields and offset — so the hypotheses of `format_valid` are met by every member of
the family. -/
theorem parseUnits_spelled (c : CalOps) (L : CalLaws c) (p : Str) (hp : p ∈ allowedUnits) (f : Fields)
    (hv : c.valid f = true) (off : Int) (ho : off.natAbs < 1440) (sp : Spelling) (hok : sp.Ok f off) :
    parseUnits (spellUnits p f off sp) = some (p, ⟨f, false, off⟩) := by
  obtain ⟨hy1, hy2, _, hm, _, hd, hh, hmi, hs⟩ := L.bounds f hv
  have hP := isPeriod_of_allowed p hp
  have hsplit : datesplit (spellUnits p f off sp) = some (p, spellDate f off sp) := by
    have : spellDate f off sp = dch (f.year.toNat / 1000) :: (dch (f.year.toNat / 100) ::
        dch (f.year.toNat / 10) :: dch f.year.toNat :: ('-' :: (w2 sp.pad f.month ++ '-' :: (w2 sp.pad f.day ++ sp.sep ::
        (w2 sp.pad f.hour ++ ':' :: (w2 sp.pad f.minute ++ ((if sp.seconds then ':' :: w2 sp.pad f.second else []) ++ tzPart off sp))))))) := by
      simp [spellDate, pad4]
    unfold spellUnits
    rw [this]
    exact datesplit_render p hP _ (isWs_dch _) _
  have hparse := parseDate_spellDate f off sp hok ⟨by omega, by omega⟩ (by omega) (by omega) (by omega) (by omega) (by omega) ho
  simp [parseUnits, hsplit, stripR_spellDate, hparse]

/-- **The property on strings**, for every lawful calendar: any spelling of a valid reference is
rewritten to the EMS spelling of the same unit, local fields and offset. -/
theorem format_spelled (c : CalOps) (L : CalLaws c) (calendar : Str) (k : CalKind)
    (hk : classifyCalendar calendar = some k) (p : Str) (f : Fields) (off : Int) (sp : Spelling)
    (hok : sp.Ok f off) (hv : ValidInput c k p ⟨f, false, off⟩) :
    formatTimeUnits c calendar (spellUnits p f off sp) = some (render pad4 formatOffset p f off) :=
  format_valid c L calendar _ k hk p ⟨f, false, off⟩
    (parseUnits_spelled c L p hv.unit f hv.valid off hv.off sp hok) hv

/-! ## the concrete proleptic Gregorian calendar -/

theorem same_instant_gregorian (calendar units out : Str)
    (h : formatTimeUnits gregorian calendar units = some out) :
    refInstant gregorian calendar out = refInstant gregorian calendar units :=
  (same_instant gregorian gregorian_lawful calendar units out h).1

theorem check_redundant_gregorian (calendar units : Str) :
    formatTimeUnitsChecked gregorian calendar units = formatTimeUnits gregorian calendar units :=
  check_redundant gregorian gregorian_lawful calendar units

/-- any real date from year 2 to 9998, any time of day and any offset below 24 h is inside the
quantifier (the UTC instant stays representable) -/
theorem validInput_gregorian (p : Str) (hp : p ∈ allowedUnits) (f : Fields) (hv : gValid f = true)
    (hy : 2 ≤ f.year ∧ f.year ≤ 9998) (off : Int) (ho : off.natAbs < 1440) :
    ValidInput gregorian .proleptic p ⟨f, false, off⟩ := by
  obtain ⟨_, _, hm1, hm, hd1, hd, hh, hmi, hs⟩ := (gValid_iff f).mp hv
  have hcum : cum (isLeap f.year) f.month + f.day ≤ cum (isLeap f.year) (f.month + 1) := by
    have := daysInMonth_eq f.year f.month hm1 hm; omega
  have hle := cum_succ_le (isLeap f.year) f.month hm1 hm
  have hle' : cum (isLeap f.year) (f.month + 1) ≤ 366 := by
    cases h : isLeap f.year <;> simp [h] at hle <;> omega
  have hlo : gToSec firstFields = -62135596800 := by decide
  have hhi : gToSec lastFields = 253402300799 := by decide
  have hby : daysBeforeYear f.year ≥ 365 ∧ daysBeforeYear f.year ≤ 3651329 := by
    unfold daysBeforeYear; omega
  refine ⟨hp, hv, ho, rfl, ?_, ?_, rfl⟩
  · show gToSec firstFields ≤ gToSec f - 60 * off
    rw [hlo]; simp only [gToSec, toDays, unixDay]; omega
  · show gToSec f - 60 * off ≤ gToSec lastFields
    rw [hhi]; simp only [gToSec, toDays, unixDay]; omega

/-- **End to end, no hypothesis left about the calendar**: for every unit, every real date from
year 2 to 9998, every time of day, every offset below 24 h and every spelling of the family, the
formatter returns the EMS form, and that string denotes the instant `local time − offset`. -/
theorem ems_rewrite_gregorian (p : Str) (hp : p ∈ allowedUnits) (f : Fields) (hv : gValid f = true)
    (hy : 2 ≤ f.year ∧ f.year ≤ 9998) (off : Int) (ho : off.natAbs < 1440) (sp : Spelling)
    (hok : sp.Ok f off) :
    formatTimeUnits gregorian pg (spellUnits p f off sp) = some (render pad4 formatOffset p f off) ∧
    EmsForm p (render pad4 formatOffset p f off) ∧
    refInstant gregorian pg (render pad4 formatOffset p f off) = some (gToSec f - 60 * off, false) ∧
    refInstant gregorian pg (spellUnits p f off sp) = some (gToSec f - 60 * off, false) := by
  have hvi := validInput_gregorian p hp f hv hy off ho
  have hfmt := format_spelled gregorian gregorian_lawful pg .proleptic (by decide) p f off sp hok hvi
  have hsame := same_instant_gregorian pg _ _ hfmt
  have hpu := parseUnits_spelled gregorian gregorian_lawful p hp f hv off ho sp hok
  have hin : refInstant gregorian pg (spellUnits p f off sp) = some (gToSec f - 60 * off, false) := by
    have hlo' : ¬ (gregorian.toSec f - 60 * off < gregorian.toSec firstFields ∨
        gregorian.toSec lastFields < gregorian.toSec f - 60 * off) := by
      have := hvi.lo; have := hvi.hi; simp only at *; omega
    have hcl : classifyCalendar pg = some .proleptic := by decide
    have hval : gregorian.valid f = true := hv
    simp only [refInstant, hcl, hpu, hp, if_true, bitsInstant, hval, hlo', pythonDate]
    simp [gregorian]
  exact ⟨hfmt, render_form p f off, hsame ▸ hin, hin⟩

/-! ## `disable_default_fill_value` -/

/-- **fill_decision.** A variable receives `_FillValue = None` in its encoding iff it is
float-like (its dtype is unchanged by promotion) and has no fill value in its encoding or its
attributes; every other variable is left exactly as it was. -/
theorem fill_decision (v : VarDesc) :
    (disableDefaultFill v = { v with enc := .none } ∧ v.enc = .absent ↔
      promoteStable v.mem = true ∧ v.enc = .absent ∧ v.attr = false) ∧
    (¬ (promoteStable v.mem = true ∧ v.enc = .absent ∧ v.attr = false) → disableDefaultFill v = v) := by
  obtain ⟨mem, disk, enc, attr⟩ := v
  cases enc <;> cases attr <;> cases h : promoteStable mem <;> simp [disableDefaultFill, h]

/-- every dtype xarray would give an automatic NaN fill value is float-like -/
theorem autofill_covered (k : DKind) (h : autoFills k = true) : promoteStable k = true := by
  cases k <;> simp_all [autoFills, promoteStable]

/-- **No fill value appears that the source lacked, none is lost.** Provided the encoding does not
cast a non-float-like variable to a floating on-disk dtype, the saved variable has a `_FillValue`
attribute exactly when the source had one. -/
theorem no_new_fill (v : VarDesc) (hyp : autoFills v.disk = true → promoteStable v.mem = true) :
    writesFill (disableDefaultFill v) = sourceHasFill v := by
  obtain ⟨mem, disk, enc, attr⟩ := v
  cases enc <;> cases attr <;> cases h : promoteStable mem <;> cases h' : autoFills disk <;>
    simp_all [disableDefaultFill, writesFill, sourceHasFill] <;> decide

/-- when a variable is written with its own dtype the hypothesis of `no_new_fill` holds -/
theorem no_new_fill_same_dtype (v : VarDesc) (h : v.disk = v.mem) :
    writesFill (disableDefaultFill v) = sourceHasFill v :=
  no_new_fill v (by rw [h]; exact autofill_covered v.mem)

/-- the hypothesis is needed: an integer variable cast to float by its encoding gets a NaN fill
value although the source had none (outside the property's datasets; recorded as an observation) -/
theorem no_new_fill_needs_hyp :
    ∃ v : VarDesc, writesFill (disableDefaultFill v) = true ∧ sourceHasFill v = false :=
  ⟨⟨.int, .float, .absent, false⟩, by decide⟩

/-- without the fix a float variable with no fill value of its own gets one -/
theorem fix_matters : writesFill ⟨.float, .float, .absent, false⟩ = true ∧
    writesFill (disableDefaultFill ⟨.float, .float, .absent, false⟩) = false := by decide

/-! ## time coordinate discovery -/

/-- The generic rule returns the first variable, in dataset order, that has encoding units
containing `since` and a datetime64 dtype. -/
theorem time_coordinate_first (vars : List TVar) (n : String)
    (h : timeCoordinate .generic vars = some n) :
    ∃ pre v post u, vars = pre ++ v :: post ∧ v.name = n ∧ v.encUnits = some u ∧ hasSince u = true ∧
      v.isDatetime = true ∧
      ∀ w ∈ pre, ¬ (∃ u', w.encUnits = some u' ∧ hasSince u' = true ∧ w.isDatetime = true) := by
  simp only [timeCoordinate, timeCoordinateGeneric, Option.map_eq_some_iff] at h
  obtain ⟨v, hf, hn⟩ := h
  obtain ⟨hpv, pre, post, hvars, hpre⟩ := List.find?_eq_some_iff_append.mp hf
  cases hu : v.encUnits with
  | none => simp [hu] at hpv
  | some u =>
    simp only [hu, Bool.and_eq_true] at hpv
    refine ⟨pre, v, post, u, hvars, hn, hu, hpv.1, hpv.2, ?_⟩
    intro w hw ⟨u', hu', hs', hd'⟩
    have := hpre w hw
    simp [hu', hs', hd'] at this

/-- no candidate, no rewrite: the generic rule finds nothing exactly when no variable qualifies -/
theorem time_coordinate_none (vars : List TVar) :
    timeCoordinate .generic vars = none ↔
      ∀ w ∈ vars, ¬ (∃ u', w.encUnits = some u' ∧ hasSince u' = true ∧ w.isDatetime = true) := by
  simp only [timeCoordinate, timeCoordinateGeneric, Option.map_eq_none_iff, List.find?_eq_none]
  constructor
  · intro h w hw ⟨u', hu', hs', hd'⟩
    have := h w hw
    simp [hu', hs', hd'] at this
  · intro h w hw
    cases hu : w.encUnits with
    | none => simp
    | some u =>
      have := h w hw
      simp only [not_exists, not_and] at this
      have := this u hu
      simp only [Bool.and_eq_true, not_and]
      intro hs
      simpa using this hs

/-! ## Non-vacuity: concrete inputs meet the hypotheses -/

example : parseUnits "days since 1990-01-01T00:00:00+08:00".toList
    = some ("days".toList, ⟨⟨1990, 1, 1, 0, 0, 0⟩, false, 480⟩) := by decide
example : parseUnits "Hours  SINCE 2021-11-16 12:00 -0330".toList
    = some ("hours".toList, ⟨⟨2021, 11, 16, 12, 0, 0⟩, false, -210⟩) := by decide
example : parseUnits "days since 990-1-1 0:00:00 +10".toList
    = some ("days".toList, ⟨⟨990, 1, 1, 0, 0, 0⟩, false, 600⟩) := by decide
example : formatTimeUnits gregorian pg "days since 1990-01-01T00:00:00+08:00".toList
    = some "days since 1990-01-01 00:00:00 +08:00".toList := by decide
example : formatTimeUnits gregorian pg "hours since 2021-11-16 12:00 -0330".toList
    = some "hours since 2021-11-16 12:00:00 -03:30".toList := by decide
example : formatTimeUnits gregorian pg "days since 0990-01-01 00:00:00 +10:00".toList
    = some "days since 0990-01-01 00:00:00 +10:00".toList := by decide
/-- the local date and the UTC date differ (UTC is 1999-12-31 14:00) -/
example : refInstant gregorian pg "days since 2000-01-01 00:00:00 +10:00".toList
    = some (946648800, false) := by decide
/-- members of the spelling family -/
example : spellUnits "days".toList ⟨1990, 1, 1, 0, 0, 0⟩ 600 ⟨'T', true, .colon, false, true⟩
    = "days since 1990-01-01T00:00:00+10:00".toList := by decide
example : spellUnits "hours".toList ⟨2021, 11, 16, 12, 30, 0⟩ (-210) ⟨' ', false, .compact, true, true⟩
    = "hours since 2021-11-16 12:30 -0330".toList := by decide
/-- the spelling used by the repository's own test -/
example : spellUnits "days".toList ⟨1990, 1, 1, 0, 0, 0⟩ 600 ⟨' ', true, .hours, true, false⟩
    = "days since 1990-1-1 0:0:0 +10".toList := by decide
example : (⟨'T', true, .colon, false, true⟩ : Spelling).Ok ⟨1990, 1, 1, 0, 0, 0⟩ 600 :=
  ⟨by decide, by simp, by simp, by simp, by simp⟩
example : (⟨' ', true, .hours, true, false⟩ : Spelling).Ok ⟨1990, 1, 1, 0, 0, 0⟩ 600 :=
  ⟨by decide, fun _ => by decide, by simp, fun _ => by decide, by simp⟩
example : gValid ⟨2000, 2, 29, 23, 59, 59⟩ = true := by decide
example : timeCoordinate .generic [⟨"a", none, true⟩, ⟨"time", some "days since 1990-01-01".toList, true⟩]
    = some "time" := by decide
example : timeCoordinate .shocStandard [⟨"time", some "days since 1990-01-01".toList, true⟩] = none := by decide
/-- a SHOC simple dataset with a `time` dimension but no `time` variable has no time coordinate
(finding fixed in the repository: the save used to raise there) -/
example : timeCoordinate .shocSimple [⟨"temp", none, false⟩] = none
    ∧ saveTimeVariable (timeCoordinate .shocSimple [⟨"temp", none, false⟩]) [⟨"temp", none, false⟩] = none := by decide
/-- the offsets the unrepaired formatter got wrong (finding F5, fixed in the repository) -/
example : formatOffset 480 = "+08:00".toList ∧ formatOffset (-210) = "-03:30".toList ∧ formatOffset 0 = "+00:00".toList := by decide
example : parseOffset "+8:00".toList = none ∧ parseOffset "-4:30".toList = none := by decide


end Ems.C17
