import EmsModel.Core.Named
import EmsModel.Lemmas.NDArray
import EmsModel.Lemmas.Ravel
import EmsModel.Lemmas.Unused
/-!
# C03 — flattening and winding variables are exact inverses

Property theorems only (helper lemmas live in `Lemmas/NDArray.lean`; the few list facts
needed only here are marked `private`-style with a leading underscore section below).
All statements are for arbitrary rank, sizes, dimension order and position.
-/
namespace Ems.C03
open Ems Ems.NArr

variable {α : Type}

/-! ### list facts used below -/

theorem filter_names (dims : List Dim) (p : String → Bool) :
    (dims.filter (fun d => p d.1)).map (·.1) = (dims.map (·.1)).filter p := by
  induction dims with
  | nil => rfl
  | cons x xs ih =>
    simp only [List.filter_cons, List.map_cons]
    split <;> simp [ih]

theorem moveOrder_perm (names dims : List String) (hn : names.Nodup) (hd : dims.Nodup)
    (hsub : ∀ d ∈ dims, d ∈ names) :
    ((names.filter (fun d => !dims.contains d)) ++ dims).Perm names := by
  have h1 := List.filter_append_perm (fun d => !dims.contains d) names
  have h2 : dims.Perm (names.filter (fun d => !!dims.contains d)) := by
    rw [List.perm_ext_iff_of_nodup hd (hn.filter _)]
    intro d
    simp only [List.mem_filter, Bool.not_not, List.contains_iff_mem]
    exact ⟨fun h => ⟨hsub d h, h⟩, fun h => h.2⟩
  exact (List.Perm.append_left _ h2).trans h1

theorem idxOf_append_fresh (l : List String) (x : String) (r : List String) (h : x ∉ l) :
    (l ++ x :: r).idxOf? x = some l.length := by
  induction l with
  | nil => simp [List.idxOf?_cons]
  | cons y ys ih =>
    have hy : (y == x) = false := by
      have : y ≠ x := fun e => h (by simp [e])
      simp [this]
    have := ih (fun hm => h (by simp [hm]))
    simp [List.idxOf?_cons, hy, this]

/-! ### `move_dimensions_to_end` is a genuine transposition -/

/-- The result of moving dimensions to the end has the other dimensions first, in their
original order, then the requested ones in the requested order, each with its own size. -/
theorem moveToEnd_dims [Inhabited α] (a : NArr α) (gd : List Dim) (hwf : a.WF)
    (hgn : (gd.map (·.1)).Nodup) (hsub : ∀ d ∈ gd, d ∈ a.dims) :
    ∃ m, a.moveToEnd (gd.map (·.1)) = some m ∧
      m.dims = a.dims.filter (fun d => !(gd.map (·.1)).contains d.1) ++ gd ∧ m.data.length = a.data.length := by
  have hall : (gd.map (·.1)).all (a.names.contains ·) = true := by
    simp only [List.all_eq_true, List.contains_iff_mem]
    intro d hd
    obtain ⟨d', hd', rfl⟩ := List.mem_map.mp hd
    exact List.mem_map_of_mem (hsub d' hd')
  refine ⟨_, by unfold moveToEnd; rw [if_pos hall], ?_, ?_⟩
  · simp only [transposeTo, ofFn_dims, List.filterMap_append]
    congr 1
    · have := filter_names a.dims (fun d => !(gd.map (·.1)).contains d)
      simp only [names]
      rw [← this]
      apply filterMap_lookup_self
      · rw [this]; exact hwf.2.filter _
      · intro d hd
        exact lookup_dims a.dims hwf.2 d (List.mem_filter.mp hd).1
    · exact filterMap_lookup_self gd hgn a.dims (fun d hd => lookup_dims a.dims hwf.2 d (hsub d hd))
  · have hperm : ((a.names.filter (fun d => !(gd.map (·.1)).contains d)) ++ gd.map (·.1)).Perm a.names :=
      moveOrder_perm a.names _ hwf.2 hgn (by
        intro d hd
        obtain ⟨d', hd', rfl⟩ := List.mem_map.mp hd
        exact List.mem_map_of_mem (hsub d' hd'))
    have hp := transposeTo_dims_perm a _ hwf hperm
    have hw := transposeTo_wf a _ hwf hperm
    rw [hw.1, hwf.1]
    simp only [shape]
    have : ∀ (l₁ l₂ : List Dim), l₁.Perm l₂ → size (l₁.map (·.2)) = size (l₂.map (·.2)) := by
      intro l₁ l₂ h
      induction h with
      | nil => rfl
      | cons x _ ih => simp [size, ih]
      | swap x y l => simp [size, Nat.mul_left_comm]
      | trans _ _ ih1 ih2 => exact ih1.trans ih2
    exact this _ _ hp

/-- Values are only moved, never altered: every read of the moved array equals the read of
the original at the same assignment of indexes to dimension names. -/
theorem moveToEnd_get [Inhabited α] (a : NArr α) (gd : List Dim) (hwf : a.WF)
    (hgn : (gd.map (·.1)).Nodup) (hsub : ∀ d ∈ gd, d ∈ a.dims) :
    ∃ m, a.moveToEnd (gd.map (·.1)) = some m ∧ m.WF ∧
      ∀ (e : Env) (v : String → Nat), (∀ d ∈ a.dims, e.get d.1 = some (v d.1) ∧ v d.1 < d.2) →
        m.get? e = a.get? e := by
  have hall : (gd.map (·.1)).all (a.names.contains ·) = true := by
    simp only [List.all_eq_true, List.contains_iff_mem]
    intro d hd
    obtain ⟨d', hd', rfl⟩ := List.mem_map.mp hd
    exact List.mem_map_of_mem (hsub d' hd')
  have hperm : ((a.names.filter (fun d => !(gd.map (·.1)).contains d)) ++ gd.map (·.1)).Perm a.names :=
    moveOrder_perm a.names _ hwf.2 hgn (by
      intro d hd
      obtain ⟨d', hd', rfl⟩ := List.mem_map.mp hd
      exact List.mem_map_of_mem (hsub d' hd'))
  refine ⟨_, by unfold moveToEnd; rw [if_pos hall], transposeTo_wf a _ hwf hperm, ?_⟩
  intro e v hv
  exact transposeTo_get a _ e v hwf hperm hv

/-- A named dimension the array lacks is refused. -/
theorem moveToEnd_missing [Inhabited α] (a : NArr α) (dims : List String) (d : String)
    (hd : d ∈ dims) (hnot : d ∉ a.names) : a.moveToEnd dims = none := by
  have : ¬ (dims.all (a.names.contains ·) = true) := by
    intro hall
    rw [List.all_eq_true] at hall
    have := hall d hd
    rw [List.contains_iff_mem] at this
    exact hnot this
  unfold moveToEnd
  rw [if_neg this]

/-! ### flatten then wind -/

/-- **wind ∘ ravel**: flattening the grid dimensions `gd` (anywhere, in any order, among any
other dimensions) into a fresh linear dimension and winding that dimension back gives the
array transposed to `others ++ gd` — i.e. exactly `move_dimensions_to_end`, whose reads
equal the original's (`moveToEnd_get`): other dimensions and their order are untouched. -/
theorem wind_ravel [Inhabited α] (a : NArr α) (gd : List Dim) (lin : String) (hwf : a.WF)
    (hgn : (gd.map (·.1)).Nodup) (hsub : ∀ d ∈ gd, d ∈ a.dims)
    (hfresh : lin ∉ (a.dims.filter (fun d => !(gd.map (·.1)).contains d.1)).map (·.1)) :
    ∃ r, a.ravelDims (gd.map (·.1)) (some lin) = some r ∧
      r.dims = a.dims.filter (fun d => !(gd.map (·.1)).contains d.1) ++ [(lin, size (gd.map (·.2)))] ∧
      r.windDim gd lin = a.moveToEnd (gd.map (·.1)) := by
  obtain ⟨m, hm, hdims, _⟩ := moveToEnd_dims a gd hwf hgn hsub
  let others := a.dims.filter (fun d => !(gd.map (·.1)).contains d.1)
  have hlen : m.dims.length - (gd.map (·.1)).length = others.length := by
    simp [hdims, others]
  have htake : m.dims.take others.length = others := by simp [hdims, others]
  have hdrop : m.dims.drop others.length = gd := by simp [hdims, others]
  have hfresh' : lin ∉ others.map (·.1) := hfresh
  have hcont : ((others.map (·.1)).contains lin) = false := by
    cases h : (others.map (·.1)).contains lin with
    | false => rfl
    | true => exact absurd (List.contains_iff_mem.mp h) hfresh'
  refine ⟨{ dims := others ++ [(lin, size (gd.map (·.2)))], data := m.data }, ?_, rfl, ?_⟩
  · simp only [ravelDims, hm, hlen, htake, hdrop, Option.getD_some, hcont]
    simp
  · -- winding: the linear dimension sits right after `others`
    have hidx : (others.map (·.1) ++ lin :: []).idxOf? lin = some others.length := by
      have := idxOf_append_fresh (others.map (·.1)) lin [] hfresh'
      simpa using this
    have hgdfresh : gd.any (fun d => (others.map (·.1)).contains d.1) = false := by
      rw [List.any_eq_false]
      intro d hd
      simp only [List.contains_iff_mem, others, List.mem_map, List.mem_filter, not_exists, not_and]
      intro x hx hx1
      have : d.1 ∈ gd.map (·.1) := List.mem_map_of_mem hd
      simp [hx1, this] at hx
    simp only [windDim, names, shape, List.map_append, List.map_cons, List.map_nil, hidx]
    have htk : List.take others.length (others ++ [(lin, size (gd.map (·.2)))]) = others := by simp
    have hdr : List.drop 1 (List.drop others.length (others ++ [(lin, size (gd.map (·.2)))])) = [] := by simp
    have h2 : (others.map (·.2) ++ [size (gd.map (·.2))]).getD others.length 0 = size (gd.map (·.2)) := by
      simp [List.getD_eq_getElem?_getD]
    rw [h2]
    simp only [htk, hdr, List.map_nil, List.append_nil, ne_eq, not_true_eq_false, if_false, hgdfresh,
      Bool.false_eq_true]
    rw [hm]
    have : splice (others ++ [(lin, size (gd.map (·.2)))]) others.length gd = others ++ gd := by
      simp [splice]
    rw [this]
    cases m
    simp only at hdims
    simp [hdims, others]

/-- A custom linear name that collides with a remaining dimension is refused,
never silently accepted. -/
theorem ravel_collision_refused [Inhabited α] (a : NArr α) (dims : List String) (lin : String)
    (m : NArr α) (hm : a.moveToEnd dims = some m)
    (hcol : lin ∈ (m.dims.take (m.dims.length - dims.length)).map (·.1)) :
    a.ravelDims dims (some lin) = none := by
  have : ((m.dims.take (m.dims.length - dims.length)).map (·.1)).contains lin = true :=
    List.contains_iff_mem.mpr hcol
  unfold ravelDims
  simp only [hm, Option.getD_some]
  rw [if_pos this]

/-! ### grid kind inference -/

/-- A variable none of whose dimension sets covers a grid is refused. -/
theorem no_grid_refused [Inhabited α] (c : GridConv) (a : NArr α) (lin : Option String)
    (h : ∀ g ∈ c.grids, ∃ d ∈ g.2, d.1 ∉ a.names) : c.ravel a lin = none := by
  have : c.getGridKind a.names = none := by
    simp only [GridConv.getGridKind, Option.map_eq_none_iff, List.find?_eq_none]
    intro g hg
    obtain ⟨d, hd, hn⟩ := h g hg
    intro hall
    rw [List.all_eq_true] at hall
    exact hn (List.contains_iff_mem.mp (hall d hd))
  simp [GridConv.ravel, this]

/-- The grid kind chosen is the first, in declaration order, whose dimensions are all
present (superset test). -/
theorem kind_first_match (c : GridConv) (names : List String) (k : String)
    (h : c.getGridKind names = some k) :
    ∃ pre g post, c.grids = pre ++ g :: post ∧ g.1 = k ∧ (∀ d ∈ g.2, d.1 ∈ names) ∧
      ∀ g' ∈ pre, ∃ d ∈ g'.2, d.1 ∉ names := by
  simp only [GridConv.getGridKind, Option.map_eq_some_iff] at h
  obtain ⟨g, hg, rfl⟩ := h
  obtain ⟨hp, pre, post, hsplit, hpre⟩ := List.find?_eq_some_iff_append.mp hg
  refine ⟨pre, g, post, hsplit, rfl, ?_, ?_⟩
  · simpa [List.all_eq_true, List.contains_iff_mem] using hp
  · intro g' hg'
    have := hpre g' hg'
    simpa [List.all_eq_true, List.contains_iff_mem] using this

/-! ### winding modes -/

/-- `axis`, the default (last dimension) and an explicit name select the linear dimension
as Python indexing does; an axis outside `[-rank, rank)` is refused. -/
theorem pyIndex_neg_one {β : Type} (l : List β) (x : β) : GridConv.pyIndex (l ++ [x]) (-1) = some x := by
  have h1 : ¬ ((0 : Int) ≤ -1) := by omega
  have h2 : (-(-1 : Int)) ≤ ((l ++ [x]).length : Int) := by simp; omega
  have h3 : (l ++ [x]).length - (-(-1 : Int)).toNat = l.length := by simp
  simp only [GridConv.pyIndex, h1, if_false, h2, if_true, h3]
  simp

theorem pyIndex_out_of_range {β : Type} (l : List β) (i : Int)
    (h : (l.length : Int) ≤ i ∨ i < -(l.length : Int)) : GridConv.pyIndex l i = none := by
  simp only [GridConv.pyIndex]
  rcases h with h | h
  · have h0 : 0 ≤ i := by omega
    have : l.length ≤ i.toNat := by omega
    rw [if_pos h0]
    exact List.getElem?_eq_none this
  · have h0 : ¬ (0 ≤ i) := by omega
    have : ¬ (-i ≤ (l.length : Int)) := by omega
    rw [if_neg h0, if_neg this]

/-! ### non-vacuity -/

def exA : NArr Int := { dims := [("y", 2), ("t", 2), ("x", 3)], data := [0,1,2,3,4,5,6,7,8,9,10,11] }
def exConv : GridConv := { grids := [("face", [("y", 2), ("x", 3)])], default := "face" }

example : exA.WF := by constructor <;> decide
example : exA.moveToEnd ["y", "x"] = some { dims := [("t", 2), ("y", 2), ("x", 3)], data := [0,1,2,6,7,8,3,4,5,9,10,11] } := by decide
example : exConv.ravel exA (some "index") = some { dims := [("t", 2), ("index", 6)], data := [0,1,2,6,7,8,3,4,5,9,10,11] } := by decide
example : (exConv.ravel exA (some "index")).bind (fun r => exConv.wind r none none none) = exA.moveToEnd ["y", "x"] := by decide
example : exConv.ravel exA (some "t") = none := by decide
-- the linear dimension may carry the name of a grid dimension (`hfresh` of `wind_ravel` / `wind_get` only
-- excludes the dimensions that are kept): flattened to "x", wound back; linear data called "y" at position 0
example : exConv.ravel exA (some "x") = some { dims := [("t", 2), ("x", 6)], data := [0,1,2,6,7,8,3,4,5,9,10,11] } := by decide
example : (exConv.ravel exA (some "x")).bind (fun r => exConv.wind r none none none) = exA.moveToEnd ["y", "x"] := by decide
example : exConv.wind ({ dims := [("y", 6), ("t", 2)], data := [0,1,2,3,4,5,6,7,8,9,10,11] } : NArr Int) none (some 0) none
    = some { dims := [("y", 2), ("x", 3), ("t", 2)], data := [0,1,2,3,4,5,6,7,8,9,10,11] } := by decide
example : exConv.ravel ({ dims := [("t", 2)], data := [1, 2] } : NArr Int) none = none := by decide

end Ems.C03

namespace Ems.C03
open Ems Ems.NArr
variable {α : Type}

/-- **Meaning of a flattened variable.**  Element `n` of the linear dimension of
`ravel v` (at any assignment `e` of the other dimensions) is the value `v` holds at the
grid multi-index `unravel n` — flattened order is row-major order over the grid
dimensions in the convention's order, wherever those dimensions sat in `v`. -/
theorem ravel_get [Inhabited α] (a : NArr α) (gd : List Dim) (lin : String) (hwf : a.WF)
    (hgn : (gd.map (·.1)).Nodup) (hsub : ∀ d ∈ gd, d ∈ a.dims)
    (hfresh : lin ∉ (a.dims.filter (fun d => !(gd.map (·.1)).contains d.1)).map (·.1))
    (e : Env) (v : String → Nat) (n : Nat) (ig : List Nat)
    (hv : ∀ d ∈ a.dims.filter (fun d => !(gd.map (·.1)).contains d.1),
      e.get d.1 = some (v d.1) ∧ v d.1 < d.2)
    (hn : e.get lin = some n) (hig : unravel (gd.map (·.2)) n = some ig) :
    ∃ r, a.ravelDims (gd.map (·.1)) (some lin) = some r ∧
      r.get? e = a.get? ((gd.map (·.1)).zip ig ++ e) := by
  obtain ⟨m, hm, hmwf, hmget⟩ := moveToEnd_get a gd hwf hgn hsub
  obtain ⟨m', hm', hdims, _⟩ := moveToEnd_dims a gd hwf hgn hsub
  rw [hm] at hm'; cases hm'
  let others := a.dims.filter (fun d => !(gd.map (·.1)).contains d.1)
  have hlen : m.dims.length - (gd.map (·.1)).length = others.length := by simp [hdims, others]
  have htake : m.dims.take others.length = others := by simp [hdims, others]
  have hdrop : m.dims.drop others.length = gd := by simp [hdims, others]
  have hfresh' : lin ∉ others.map (·.1) := hfresh
  have hcont : ((others.map (·.1)).contains lin) = false := by
    cases h : (others.map (·.1)).contains lin with
    | false => rfl
    | true => exact absurd (List.contains_iff_mem.mp h) hfresh'
  refine ⟨{ dims := others ++ [(lin, size (gd.map (·.2)))], data := m.data }, ?_, ?_⟩
  · simp only [ravelDims, hm, hlen, htake, hdrop, Option.getD_some, hcont]
    simp
  · rw [get_flat m others gd lin e v n ig hdims hmwf hv hn hig]
    -- the moved array reads like the original at the extended environment
    let e' : Env := (gd.map (·.1)).zip ig ++ e
    have hir : InRange (gd.map (·.2)) ig := ravel_inRange _ _ _ (ravel_of_unravel _ _ _ hig)
    have hspec := zip_env_spec gd ig hgn hir
    apply hmget e' (fun d => (e'.get d).getD 0)
    intro d hd
    by_cases hg : d.1 ∈ gd.map (·.1)
    · -- a grid dimension: it is the listed one (names are distinct)
      obtain ⟨g, hgmem, hgname⟩ := List.mem_map.mp hg
      have hga := hsub g hgmem
      have hsame : g = d := by
        have h1 := lookup_dims a.dims hwf.2 g hga
        have h2 := lookup_dims a.dims hwf.2 d hd
        rw [hgname] at h1
        rw [h1] at h2
        exact Prod.ext hgname (by simpa using h2)
      subst hsame
      obtain ⟨x, hx, hlt⟩ := hspec g hgmem
      have : e'.get g.1 = some x := lookup_append_left_some _ _ _ x hx
      exact ⟨by simp [this], by simp [this, hlt]⟩
    · have hdo : d ∈ others := by
        simp only [others, List.mem_filter]
        refine ⟨hd, ?_⟩
        cases hc : (gd.map (·.1)).contains d.1 with
        | false => rfl
        | true => exact absurd (List.contains_iff_mem.mp hc) hg
      have : e'.get d.1 = e.get d.1 := lookup_append_left_none _ _ _ (lookup_zip_none _ _ _ hg)
      have hvd := hv d hdo
      exact ⟨by simp [this, hvd.1], by simp [this, hvd.1, hvd.2]⟩

/-- **Meaning of a wound array.**  Winding the linear dimension `lin` (at any position
`pre … lin … post`) into the grid dimensions `gd` puts at grid multi-index `ig` the value
the input held at linear position `ravel ig`; all other dimensions keep their place. -/
theorem wind_get (x : NArr α) (pre post gd : List Dim) (lin : String)
    (hx : x.dims = pre ++ ((lin, size (gd.map (·.2))) :: post)) (hwf : x.WF)
    (hgn : (gd.map (·.1)).Nodup)
    (hfresh : ∀ d ∈ gd, d.1 ∉ (pre ++ post).map (·.1)) :
    ∃ y, x.windDim gd lin = some y ∧ y.dims = pre ++ (gd ++ post) ∧ y.data = x.data ∧
      ∀ (e : Env) (v : String → Nat) (n : Nat) (ig : List Nat),
        (∀ d ∈ pre ++ post, e.get d.1 = some (v d.1) ∧ v d.1 < d.2) →
        e.get lin = some n → unravel (gd.map (·.2)) n = some ig → y.WF →
        x.get? e = y.get? ((gd.map (·.1)).zip ig ++ e) := by
  have hnod : (x.dims.map (·.1)).Nodup := hwf.2
  rw [hx] at hnod
  simp only [List.map_append, List.map_cons, List.nodup_append, List.nodup_cons] at hnod
  have hlin_pre : lin ∉ pre.map (·.1) := fun h => hnod.2.2 lin h lin (by simp) rfl
  have hidx : x.names.idxOf? lin = some pre.length := by
    have := idxOf_append_fresh (pre.map (·.1)) lin (post.map (·.1)) hlin_pre
    simpa [names, hx] using this
  have hrest : ((x.dims.take pre.length ++ (x.dims.drop pre.length).drop 1).map (·.1)) = (pre ++ post).map (·.1) := by
    simp [hx]
  have hsz : x.shape.getD pre.length 0 = size (gd.map (·.2)) := by
    simp [shape, hx, List.getD_eq_getElem?_getD]
  have hany : gd.any (fun d => ((pre ++ post).map (·.1)).contains d.1) = false := by
    rw [List.any_eq_false]
    intro d hd hc
    exact hfresh d hd (List.contains_iff_mem.mp hc)
  have hsplice : splice x.dims pre.length gd = pre ++ (gd ++ post) := by
    simp [splice, hx]
  refine ⟨{ dims := pre ++ (gd ++ post), data := x.data }, ?_, rfl, rfl, ?_⟩
  · simp only [windDim, hidx, hrest, hsz, ne_eq, not_true_eq_false, if_false, hany, Bool.false_eq_true,
      hsplice]
  · intro e v n ig hv hn hig hywf
    have := get_flat_mid ({ dims := pre ++ (gd ++ post), data := x.data } : NArr α) pre gd post lin e v n ig
      rfl hywf hv hn hig
    rw [← this]
    cases x
    simp only at hx
    simp [hx]

end Ems.C03

namespace Ems.C03
open Ems Ems.NArr
variable {α : Type}

theorem filter_all_false {β : Type} (p : β → Bool) : ∀ (l : List β), (∀ x ∈ l, p x = false) → l.filter p = []
  | [], _ => rfl
  | x :: xs, h => by
    simp only [List.filter_cons, h x (by simp)]
    exact filter_all_false p xs (fun y hy => h y (by simp [hy]))

theorem filter_all_true {β : Type} (p : β → Bool) : ∀ (l : List β), (∀ x ∈ l, p x = true) → l.filter p = l
  | [], _ => rfl
  | x :: xs, h => by
    simp only [List.filter_cons, h x (by simp), if_true]
    rw [filter_all_true p xs (fun y hy => h y (by simp [hy]))]

/-- **ravel ∘ wind**: winding arbitrary linear data (linear dimension at any position `pre … lin
… post`, chosen by default, axis or name — the name is what reaches this level) and flattening
it again gives back every value: the result has dimensions `pre ++ post ++ [lin]` and reads, at
every assignment of indexes, exactly as the input did (the identity up to moving `lin` last;
the identity outright when `lin` was already last). -/
theorem ravel_wind [Inhabited α] (x : NArr α) (pre post gd : List Dim) (lin : String)
    (hx : x.dims = pre ++ ((lin, size (gd.map (·.2))) :: post)) (hwf : x.WF)
    (hgn : (gd.map (·.1)).Nodup)
    (hfresh : ∀ d ∈ gd, d.1 ∉ (pre ++ post).map (·.1))
    (e : Env) (v : String → Nat) (n : Nat) (ig : List Nat)
    (hv : ∀ d ∈ pre ++ post, e.get d.1 = some (v d.1) ∧ v d.1 < d.2)
    (hn : e.get lin = some n) (hig : unravel (gd.map (·.2)) n = some ig) :
    ∃ y r, x.windDim gd lin = some y ∧ y.ravelDims (gd.map (·.1)) (some lin) = some r ∧
      r.dims = (pre ++ post) ++ [(lin, size (gd.map (·.2)))] ∧ r.get? e = x.get? e := by
  obtain ⟨y, hy, hydims, hydata, hyget⟩ := wind_get x pre post gd lin hx hwf hgn hfresh
  -- name bookkeeping from the input's well-formedness
  have hnod : (x.dims.map (·.1)).Nodup := hwf.2
  rw [hx] at hnod
  simp only [List.map_append, List.map_cons, List.nodup_append, List.nodup_cons] at hnod
  obtain ⟨hpre_nd, ⟨hlin_post, hpost_nd⟩, hdisj⟩ := hnod
  have hlin_pre : lin ∉ pre.map (·.1) := fun h => hdisj lin h lin (by simp) rfl
  have hpp : ∀ a ∈ pre.map (·.1), ∀ b ∈ post.map (·.1), a ≠ b := fun a ha b hb =>
    hdisj a ha b (by simp [hb])
  -- the wound array is well formed
  have hywf : y.WF := by
    refine ⟨?_, ?_⟩
    · rw [hydata, hwf.1]
      simp only [shape, hx, hydims, List.map_append, List.map_cons, size_append, size]
    · simp only [names, hydims, List.map_append, List.nodup_append]
      refine ⟨hpre_nd, ⟨hgn, hpost_nd, ?_⟩, ?_⟩
      · intro a ha b hb hab
        obtain ⟨d, hd, rfl⟩ := List.mem_map.mp ha
        exact hfresh d hd (by rw [hab]; simp [hb])
      · intro a ha b hb hab
        rcases List.mem_append.mp hb with hb | hb
        · obtain ⟨d, hd, rfl⟩ := List.mem_map.mp hb
          exact hfresh d hd (by rw [← hab]; simp [ha])
        · exact hpp a ha b hb hab
  -- the dimensions of `y` other than the grid's are `pre ++ post`
  have hothers : y.dims.filter (fun d => !(gd.map (·.1)).contains d.1) = pre ++ post := by
    rw [hydims, List.filter_append, List.filter_append]
    have h1 : pre.filter (fun d => !(gd.map (·.1)).contains d.1) = pre :=
      filter_all_true _ pre (by
        intro d hd
        cases hc : (gd.map (·.1)).contains d.1 with
        | false => rfl
        | true =>
          obtain ⟨g, hg, hge⟩ := List.mem_map.mp (List.contains_iff_mem.mp hc)
          exact absurd (by rw [hge]; simp [List.mem_map_of_mem hd] : g.1 ∈ (pre ++ post).map (·.1)) (hfresh g hg))
    have h2 : gd.filter (fun d => !(gd.map (·.1)).contains d.1) = [] :=
      filter_all_false _ gd (by
        intro d hd
        have : (gd.map (·.1)).contains d.1 = true := List.contains_iff_mem.mpr (List.mem_map_of_mem hd)
        show (!(gd.map (·.1)).contains d.1) = false
        rw [this]; rfl)
    have h3 : post.filter (fun d => !(gd.map (·.1)).contains d.1) = post :=
      filter_all_true _ post (by
        intro d hd
        cases hc : (gd.map (·.1)).contains d.1 with
        | false => rfl
        | true =>
          obtain ⟨g, hg, hge⟩ := List.mem_map.mp (List.contains_iff_mem.mp hc)
          exact absurd (by rw [hge]; simp [List.mem_map_of_mem hd] : g.1 ∈ (pre ++ post).map (·.1)) (hfresh g hg))
    rw [h1, h2, h3]; simp
  have hsub : ∀ d ∈ gd, d ∈ y.dims := by intro d hd; rw [hydims]; simp [hd]
  have hlin_fresh : lin ∉ (y.dims.filter (fun d => !(gd.map (·.1)).contains d.1)).map (·.1) := by
    rw [hothers]
    simp only [List.map_append, List.mem_append, not_or]
    exact ⟨hlin_pre, hlin_post⟩
  obtain ⟨r, hr, hrget⟩ := ravel_get y gd lin hywf hgn hsub hlin_fresh e v n ig
    (by rw [hothers]; exact hv) hn hig
  obtain ⟨r', hr', hrdims, _⟩ := wind_ravel y gd lin hywf hgn hsub hlin_fresh
  rw [hr] at hr'; cases hr'
  refine ⟨y, r, hy, hr, by rw [hrdims, hothers], ?_⟩
  rw [hrget]
  exact (hyget e v n ig hv hn hig hywf).symm

end Ems.C03

namespace Ems.C03
/-- the automatically chosen linear dimension name is never a dimension already in use, and is
the plain prefix whenever that is free (`find_unused_dimension`) -/
theorem findUnused_fresh (existing : List String) (pfx : String) :
    Ems.NArr.findUnused existing pfx ∉ existing ∧
    (pfx ∉ existing → Ems.NArr.findUnused existing pfx = pfx) :=
  ⟨Ems.NArr.findUnused_fresh existing pfx, Ems.NArr.findUnused_prefix_if_free existing pfx⟩
end Ems.C03
