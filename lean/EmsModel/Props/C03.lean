import EmsModel.Core.Named
namespace Ems.C03
open Ems
theorem placeholder : True := trivial
end Ems.C03
