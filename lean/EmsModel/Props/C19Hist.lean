import EmsModel.Core.PlotHistory
/-!
# C19 — histories: an artist handed out earlier is the caller's

The patches, values and colour limits of a collection are those of the cells **whatever the caller did
to the artists it was handed before** (moved their vertices in place, overwrote their values, changed their
limits), and an artist nobody touched stays what it was when it was built.
-/
namespace Ems.C19
open Ems

theorem playPlotFrom_append (polys : List (Option Poly)) (held : List PlotResult) (h₁ h₂ : List PlotStep) :
    playPlotFrom polys held (h₁ ++ h₂) = playPlotFrom polys (playPlotFrom polys held h₁) h₂ := by
  simp [playPlotFrom, List.foldl_append]

/-- **A call after any history hands out exactly what it hands out on a fresh convention**: the new
artist is `makePolyCollection` of the cells and the data — no trace of the earlier artists or of what was
done to them — and the artists already held are not touched by the call. -/
theorem history_build_fresh (polys : List (Option Poly)) (h : List PlotStep)
    (data : Option (Option (List (Option Rat)))) (ov : PlotOverrides) :
    playPlot polys (h ++ [.build data ov]) = playPlot polys h ++ [makePolyCollection polys data ov] := by
  simp [playPlot, playPlotFrom, plotStep]

/-- the same, read off the list: the last artist of such a history is the fresh one -/
theorem history_build_last (polys : List (Option Poly)) (h : List PlotStep)
    (data : Option (Option (List (Option Rat)))) (ov : PlotOverrides) :
    (playPlot polys (h ++ [.build data ov])).getLast? = some (makePolyCollection polys data ov) := by
  rw [history_build_fresh]; simp

/-- **An edit concerns the edited artist alone** -/
theorem history_edit_local (polys : List (Option Poly)) (h : List PlotStep) (i j : Nat)
    (f : PlotResult → PlotResult) (hij : i ≠ j) :
    (playPlot polys (h ++ [.edit i f]))[j]? = (playPlot polys h)[j]? := by
  simp [playPlot, playPlotFrom, plotStep, hij]

/-- the edited artist is `f` of what it was -/
theorem history_edit_at (polys : List (Option Poly)) (h : List PlotStep) (i : Nat) (f : PlotResult → PlotResult) :
    (playPlot polys (h ++ [.edit i f]))[i]? = ((playPlot polys h)[i]?).map f := by
  simp [playPlot, playPlotFrom, plotStep]

theorem playPlotFrom_untouched (polys : List (Option Poly)) (j : Nat) :
    ∀ (h : List PlotStep) (held : List PlotResult), editsArtist j h = false →
      (playPlotFrom polys held h)[j]? = (held ++ plotBuilds polys h)[j]?
  | [], held, _ => by simp [playPlotFrom, plotBuilds]
  | .build data ov :: h, held, hj => by
    have ih := playPlotFrom_untouched polys j h (held ++ [makePolyCollection polys data ov])
      (by simpa [editsArtist] using hj)
    simpa [playPlotFrom, plotStep, plotBuilds, List.append_assoc] using ih
  | .edit i f :: h, held, hj => by
    simp only [editsArtist, Bool.or_eq_false_iff, beq_eq_false_iff_ne] at hj
    have ih := playPlotFrom_untouched polys j h (held.modify i f) hj.2
    have : playPlotFrom polys held (.edit i f :: h) = playPlotFrom polys (held.modify i f) h := by
      simp [playPlotFrom, plotStep]
    rw [this, ih, plotBuilds]
    by_cases hlt : j < held.length
    · rw [List.getElem?_append_left (by simpa using hlt), List.getElem?_append_left hlt,
        List.getElem?_modify]
      simp [hj.1]
    · rw [List.getElem?_append_right (by simpa using Nat.le_of_not_lt hlt),
        List.getElem?_append_right (Nat.le_of_not_lt hlt)]
      simp

/-- **An artist the caller never touched is, at the end of any history, what its own call built**:
the `j`-th artist held equals the `j`-th thing `make_poly_collection` handed out (each a function of the
cells and that call's data alone) — however many other artists were built, moved, overwritten in between. -/
theorem history_untouched (polys : List (Option Poly)) (h : List PlotStep) (j : Nat)
    (hj : editsArtist j h = false) :
    (playPlot polys h)[j]? = (plotBuilds polys h)[j]? := by
  simpa [playPlot] using playPlotFrom_untouched polys j h [] hj

/-! ### non-vacuity -/
def exPolysH : List (Option Poly) := [some [(0,0),(2,0),(2,2)], none, some [(4,0),(6,0),(6,2)]]
def exHist : List PlotStep :=
  [.build (some (some [some 5, some 7, none])) {}, .edit 0 (ArtistEdit.shift 360 0).apply,
   .build (some (some [some 5, some 7, none])) {}]
example : editsArtist 1 exHist = false := by decide
example : ((playPlot exPolysH exHist)[1]?).map (fun r => match r with | .ok p _ _ => p | _ => []) =
    some [[(0,0),(2,0),(2,2)], [(4,0),(6,0),(6,2)]] := by decide +kernel
example : ((playPlot exPolysH exHist)[0]?).map (fun r => match r with | .ok p _ _ => p | _ => []) =
    some [[(360,0),(362,0),(362,2)], [(364,0),(366,0),(366,2)]] := by decide +kernel

end Ems.C19
