import EmsModel.Gen.MaskingSrc
import EmsModel.Lemmas.MaskingSrc
import EmsModel.Props.C08
/-!
# C08, source level — the decision code of `emsarray.masking` as it is written now

`harness/trans_masking.py` regenerates `Gen/MaskingSrc.lean` from the source text of `find_fill_value`,
`calculate_grid_mask_bounds`, `mask_grid_data_array` and `mask_grid_dataset` on every run.  The theorems below are about those
generated terms, for every input and without a size bound: they tie the terms to the hand-written model of `Core/Clip.lean`
(`fillDecision`, `trueBounds`, `maskBounds`, `allBounds`, `governingMask`, `clipVar`) that the theorems of `Props/C08.lean` are
about.  An edit of the Python that changes what is computed leaves one of them unprovable.
-/
namespace Ems.C08
open Ems Ems.NArr

variable {α : Type}

/-- Everything in the four functions was understood by the translator: no `unsupported` term was emitted. -/
theorem masking_translated : Gen.maskingSrcComplaints = [] := by decide

/-! ### `find_fill_value` -/

/-- **The chain of tests of `find_fill_value`, as written, takes the required decision** for every variable: a masked array →
`numpy.ma.masked`; otherwise the `_FillValue` attribute if present, otherwise the `missing_value` attribute if present (in this
order, the value of that very attribute); otherwise the missing value of a dtype that is its own promotion (NaN, NaT); otherwise
`ValueError`. -/
theorem find_fill_value_generated (f : MsFeatures) :
    msDecide f Gen.msFindFillValue = some (msFillOutcome f) := by
  obtain ⟨m, attrs, enc, sp, fl⟩ := f
  simp only [Gen.msFindFillValue, msDecide, MsCond.eval, msFillOutcome]
  cases m <;> cases h1 : attrs.contains "_FillValue" <;> cases h2 : attrs.contains "missing_value" <;> cases sp <;> rfl

/-- … and this is the fill decision of the model (`fillDecision`, the subject of `fill_decision_table`): `find_fill_value`
raises `ValueError` — the variable is left unmasked — exactly when the variable is not a masked array, carries neither
attribute and has a dtype that cannot hold a missing value; in every other case it returns a fill value. -/
theorem find_fill_value_kind (f : MsFeatures) :
    (msDecide f Gen.msFindFillValue).bind MsOutcome.kind =
      some (fillDecision f.isMasked (f.attrs.contains "_FillValue") (f.attrs.contains "missing_value") f.selfPromotes) := by
  rw [find_fill_value_generated]
  obtain ⟨m, attrs, enc, sp, fl⟩ := f
  simp only [msFillOutcome, fillDecision, Option.bind_some]
  cases m <;> cases h1 : attrs.contains "_FillValue" <;> cases h2 : attrs.contains "missing_value" <;> cases sp <;> rfl

/-- `find_fill_value` only ever reads an attribute it has just found (no `KeyError`), and `_FillValue` has priority:
`missing_value` is returned only in the absence of `_FillValue`. -/
theorem find_fill_value_attr (f : MsFeatures) (n : String) (h : msDecide f Gen.msFindFillValue = some (.attrValue n)) :
    n ∈ f.attrs ∧ (n = "_FillValue" ∨ (n = "missing_value" ∧ "_FillValue" ∉ f.attrs)) := by
  rw [find_fill_value_generated] at h
  obtain ⟨m, attrs, enc, sp, fl⟩ := f
  simp only [msFillOutcome] at h
  cases m <;> cases h1 : attrs.contains "_FillValue" <;> cases h2 : attrs.contains "missing_value" <;> cases sp <;>
    simp_all <;> (subst h; simp_all)

/-! ### `calculate_grid_mask_bounds` -/

/-- **The `slice(start, stop)` that `calculate_grid_mask_bounds` builds for one dimension** — the two index expressions as
written, evaluated on the vector "is any cell marked at this position" — is `[first marked, last marked + 1)`, i.e.
`trueBounds` (what `trueBounds_spec` is about), for every Boolean vector holding a `true`, of any length. -/
theorem bounds_slice_generated (l : List Bool) (h : true ∈ l) :
    Gen.msBoundsProg.slice.eval l = (trueBounds l).map fun b => ((b.1 : Int), (b.2 : Int)) := by
  obtain ⟨a, ha, _⟩ := msIdxOf_of_mem l true h
  obtain ⟨r, hr, hrl⟩ := msIdxOf_reverse_of_mem l true h
  rw [msTrueBounds_of_mem l a r ha hr]
  simp [Gen.msBoundsProg, MsSlice.eval, MsInt.eval, MsVec.eval, ha, hr]
  omega

/-- the same as the pair of naturals handed to `isel` -/
theorem bounds_slice_nat (l : List Bool) (h : true ∈ l) : Gen.msBoundsProg.slice.evalNat l = trueBounds l := by
  obtain ⟨a, ha, _⟩ := msIdxOf_of_mem l true h
  obtain ⟨r, hr, hrl⟩ := msIdxOf_reverse_of_mem l true h
  have hg := bounds_slice_generated l h
  rw [msTrueBounds_of_mem l a r ha hr] at hg ⊢
  simp only [MsSlice.evalNat, hg, Option.map_some]
  simp

/-- **The slice, stated directly**: for a vector holding a `true`, the generated `(start, stop)` are naturals `lo < hi ≤ length`
with `lo` the first marked position and `hi - 1` the last one. -/
theorem bounds_slice_spec (l : List Bool) (h : true ∈ l) :
    ∃ lo hi : Nat, Gen.msBoundsProg.slice.eval l = some ((lo : Int), (hi : Int)) ∧
      l[lo]? = some true ∧ (∀ j, j < lo → l[j]? ≠ some true) ∧
      lo < hi ∧ hi ≤ l.length ∧ l[hi - 1]? = some true ∧ (∀ j, hi ≤ j → l[j]? ≠ some true) := by
  obtain ⟨a, ha, _⟩ := msIdxOf_of_mem l true h
  obtain ⟨r, hr, hrl⟩ := msIdxOf_reverse_of_mem l true h
  have htb := msTrueBounds_of_mem l a r ha hr
  refine ⟨a, l.length - r, ?_, trueBounds_spec l a (l.length - r) htb⟩
  rw [bounds_slice_generated l h, htb]; rfl

/-- The loop structure of `calculate_grid_mask_bounds` as written: every mask variable in the dataset's order; the emptiness test
`if not mask.any().item(): raise ValueError` first; every dimension of the mask in order; the vector is `any` over all the *other*
dimensions; the slice is stored under the dimension's name in the one dict that is returned. -/
theorem bounds_structure_generated :
    Gen.msBoundsProg.maskIter = .dataVarsInOrder ∧ Gen.msBoundsProg.guard = .raiseIfNoTrue ∧
    Gen.msBoundsProg.dimIter = .maskDimsInOrder ∧ Gen.msBoundsProg.reduce = .anyOverOtherDims ∧
    Gen.msBoundsProg.store = .byDimension := by decide

/-- **`calculate_grid_mask_bounds` as written computes the model's bounds** (`allBounds`: per mask and per dimension
`[first marked, last marked + 1)`, a later mask overriding an earlier one on a shared dimension; `none` = an empty mask is refused),
for every list of well-formed masks of any rank and size. -/
theorem bounds_generated (masks : List (String × NArr Bool)) (hwf : ∀ m ∈ masks, m.2.WF) :
    Gen.msBoundsProg.run masks = allBounds masks :=
  msRun_eq Gen.msBoundsProg bounds_structure_generated.1 bounds_structure_generated.2.2.2.2
    bounds_structure_generated.2.2.1 bounds_structure_generated.2.2.2.1 bounds_structure_generated.2.1
    bounds_slice_nat masks hwf

/-! ### `mask_grid_data_array` -/

/-- **Which mask governs, and what is done with it, as written**: when `find_fill_value` raised `ValueError` the variable is
returned unchanged; otherwise the masks are walked in the dataset's order and the *first* one all of whose dimensions are
dimensions of the variable (`set(data_array.dims) >= set(mask.dims)`) decides — `data_array.where(that mask, other=fill value)`
is returned from inside the loop; when no mask passes, the variable is returned unchanged.  That is `governingMask`. -/
theorem apply_generated (masks : List (String × NArr Bool)) (fill : FillKind) (varNames : List String) :
    Gen.msApplyProg.run masks fill varNames =
      some (match fill, governingMask masks varNames with
        | .maskable, some m => .masked m
        | _, _ => .unchanged) := by
  cases fill with
  | unmaskable => simp [Gen.msApplyProg, MsApplyProg.run, MsDimTest.compile, MsApplyRet.eval]
  | maskable =>
    simp only [Gen.msApplyProg, MsApplyProg.run, MsDimTest.compile, MsDims.eval, msSubset, governingMask]
    cases masks.find? (fun m => m.2.names.all (varNames.contains ·)) with
    | none => simp [MsApplyRet.eval]
    | some m => simp [MsApplyRet.eval]

/-- First match wins (ties `apply_generated` to `governing_first`): if the code as written masks the variable with `m`, then `m`
is a mask of the dataset whose dimensions all belong to the variable, every mask before it has a dimension the variable lacks,
and a fill value had been found. -/
theorem apply_first_match (masks : List (String × NArr Bool)) (fill : FillKind) (varNames : List String) (m : NArr Bool)
    (h : Gen.msApplyProg.run masks fill varNames = some (.masked m)) :
    fill = .maskable ∧ ∃ pre x post, masks = pre ++ x :: post ∧ x.2 = m ∧ (∀ d ∈ m.names, d ∈ varNames) ∧
      ∀ y ∈ pre, ∃ d ∈ y.2.names, d ∉ varNames := by
  rw [apply_generated] at h
  cases fill with
  | unmaskable => simp at h
  | maskable =>
    cases hg : governingMask masks varNames with
    | none => simp [hg] at h
    | some m' =>
      simp only [hg, Option.some.injEq, MsApplied.masked.injEq] at h
      subst h
      exact ⟨rfl, governing_first masks varNames m' hg⟩

/-- The result of `where` gets the attributes and the encoding of the original variable back before it is returned. -/
theorem apply_restores_attrs_encoding :
    "attrs" ∈ Gen.msApplyProg.onMatch.restored ∧ "encoding" ∈ Gen.msApplyProg.onMatch.restored := by decide

/-! ### `mask_grid_dataset` -/

/-- The steps of `mask_grid_dataset` in source order are those the model `clipVar` assumes: bounds from the *uncropped* mask,
mask and dataset both cropped to them, every data variable masked with the *cropped* mask, coordinates of the cropped dataset
saved unmasked, the files merged, the result laid out like the cropped dataset. -/
theorem dataset_steps_generated : Gen.msDatasetSteps = msDatasetSteps := by decide

/-- **`clipVar`, the subject of `grid_clip_spec` / `unmaskable_never_altered` / `empty_mask_refused`, is the composition of the
three programs as written**: the bounds program on the masks, then the mask-selection program on the variable's dimensions —
unchanged ⇒ the cropped variable; masked by `m` ⇒ the cropped variable where the cropped `m` is true, missing elsewhere. -/
theorem clip_var_from_source [Inhabited α] (masks : List (String × NArr Bool)) (hwf : ∀ m ∈ masks, m.2.WF)
    (fill : FillKind) (a : NArr (Option α)) :
    clipVar masks fill a =
      (Gen.msBoundsProg.run masks).bind fun bounds =>
        (Gen.msApplyProg.run masks fill a.names).map fun r =>
          match r with
          | .unchanged => a.crop bounds
          | .masked m => (a.crop bounds).whereMask (m.crop bounds) := by
  rw [bounds_generated masks hwf, apply_generated]
  unfold clipVar
  cases allBounds masks with
  | none => rfl
  | some bounds =>
    cases fill <;> cases governingMask masks a.names <;> rfl

/-! ### non-vacuity -/

/-- an integer variable with both attributes: `_FillValue` wins -/
example : msDecide ⟨false, ["units", "missing_value", "_FillValue"], [], false, false⟩ Gen.msFindFillValue =
    some (.attrValue "_FillValue") := by decide
/-- an integer variable with nothing: `ValueError` -/
example : msDecide ⟨false, ["units"], ["_FillValue"], false, false⟩ Gen.msFindFillValue = some .raiseValueError := by decide
/-- a float variable: NaN -/
example : msDecide ⟨false, [], [], true, true⟩ Gen.msFindFillValue = some .promotedFill := by decide
example : Gen.msBoundsProg.slice.eval [false, true, false, true, false] = some (1, 4) := by decide
example : true ∈ [false, true, false, true, false] := by decide
example : exMask.WF := ⟨by decide, by decide⟩
example : Gen.msBoundsProg.run [("cell_mask", exMask)] = some [("y", 1, 3), ("x", 1, 3)] := by decide +kernel
example : Gen.msApplyProg.run [("node_mask", { dims := [("yn", 4), ("xn", 4)], data := [] }), ("cell_mask", exMask)]
    .maskable ["t", "x", "y"] = some (.masked exMask) := by decide +kernel
example : Gen.msApplyProg.run [("cell_mask", exMask)] .maskable ["t"] = some .unchanged := by decide +kernel
example : Gen.msApplyProg.run [("cell_mask", exMask)] .unmaskable ["y", "x"] = some .unchanged := by decide +kernel

end Ems.C08
