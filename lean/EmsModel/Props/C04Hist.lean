import EmsModel.Core.LookupSession
import EmsModel.Props.C04
/-!
C04, input classes of round 6 — what a lookup's native index is, whatever else the dataset declares and whatever
the convention object was asked before:

* `lookup_native_rowmajor`     the native index is the default (face) kind's row-major position of the linear index
                               in the shape the CONVENTION declares for that kind (`Conv.grids`, (y, x) order);
* `lookup_native_rowmajor_2d`  spelt out for a two-dimensional grid: `(n / nx, n % nx)`;
* `lookup_native_not_other_kind` it is never the index of another grid kind — also when that kind has the very
                               same shape (a mesh with as many nodes as faces);
* `session_lookup_history_independent` / `session_reply_history_independent` in a sequence of questions put to one
                               convention object every reply is the reply to that question alone.
-/
namespace Ems.C04

/-- **The native index of the cell found is the row-major position of its linear index in the declared shape of
the default grid kind, tagged with that kind** — a function of `n` and that shape alone; the other grids of the
dataset (`c.grids` is arbitrary otherwise) have no say. -/
theorem lookup_native_rowmajor (intersects : Poly → Pt → Bool) (c : Conv) (polys : List (Option Poly)) (pt : Pt)
    (hits : List Nat) (hperm : hits.Perm (hitSet intersects polys pt)) (item : LookupItem)
    (h : getIndexForPoint c polys hits = some item)
    (shape : List Nat) (hs : c.shape? c.default = some shape) (hsize : polys.length = size shape) :
    ∃ idx, unravel shape item.linear = some idx ∧ item.native = some (c.default, idx) ∧
      ravel shape idx = some item.linear := by
  obtain ⟨⟨p, hp, _⟩, _⟩ := lookup_least intersects c polys pt hits hperm item h
  simp only [getIndexForPoint, Option.map_eq_some_iff] at h
  obtain ⟨n, _, rfl⟩ := h
  have hlt : n < size shape := by
    rw [← hsize]
    exact (List.getElem?_eq_some_iff.mp hp).1
  obtain ⟨idx, hidx⟩ := unravel_isSome_of_lt shape n hlt
  refine ⟨idx, hidx, ?_, ravel_of_unravel shape n idx hidx⟩
  simp [Conv.windIndex, hs, hidx]

/-- on a two-dimensional grid of `ny` rows and `nx` columns: `(j, i) = (n / nx, n % nx)`, y major -/
theorem lookup_native_rowmajor_2d (intersects : Poly → Pt → Bool) (c : Conv) (polys : List (Option Poly)) (pt : Pt)
    (hits : List Nat) (hperm : hits.Perm (hitSet intersects polys pt)) (item : LookupItem)
    (h : getIndexForPoint c polys hits = some item)
    (ny nx : Nat) (hs : c.shape? c.default = some [ny, nx]) (hsize : polys.length = ny * nx) :
    item.native = some (c.default, [item.linear / nx, item.linear % nx]) := by
  obtain ⟨idx, hidx, hnat, _⟩ := lookup_native_rowmajor intersects c polys pt hits hperm item h [ny, nx] hs
    (by simp [size, hsize])
  rw [hnat]
  have hlt : item.linear < ny * nx := by
    have := unravel_lt_size [ny, nx] item.linear idx hidx
    simpa [size] using this
  have hnx : 0 < nx := by
    rcases Nat.eq_zero_or_pos nx with h0 | h0
    · subst h0; simp at hlt
    · exact h0
  have : unravel [ny, nx] item.linear = some [item.linear / nx, item.linear % nx] := by
    simp [unravel, size, hlt, Nat.mod_lt _ hnx, Nat.mod_one]
  rw [this] at hidx
  cases hidx
  rfl

/-- **The native index of a lookup is never an index of another grid kind**, also when that kind has the same
shape as the default kind. -/
theorem lookup_native_not_other_kind (intersects : Poly → Pt → Bool) (c : Conv) (polys : List (Option Poly)) (pt : Pt)
    (hits : List Nat) (hperm : hits.Perm (hitSet intersects polys pt)) (item : LookupItem)
    (h : getIndexForPoint c polys hits = some item)
    (shape : List Nat) (hs : c.shape? c.default = some shape) (hsize : polys.length = size shape)
    (k : Kind) (hk : k ≠ c.default) (m : Int) :
    item.native ≠ c.windIndex (some k) m := by
  obtain ⟨idx, _, hnat, _⟩ := lookup_native_rowmajor intersects c polys pt hits hperm item h shape hs hsize
  rw [hnat]
  intro heq
  simp only [Conv.windIndex, Option.getD_some] at heq
  cases hk' : c.shape? k with
  | none => simp [hk'] at heq
  | some sh =>
    simp only [hk'] at heq
    split at heq
    · cases heq
    · cases hu : unravel sh m.toNat with
      | none => simp [hu] at heq
      | some j =>
        simp [hu] at heq
        exact hk heq.1.symm

/-- every reply of a session is the reply to that question alone -/
theorem session_reply_history_independent (c : Conv) (polys : List (Option Poly))
    (before after : List LookupQuestion) (q : LookupQuestion) :
    (lookupSession c polys (before ++ q :: after))[before.length]? = some (lookupReply c polys q) := by
  simp [lookupSession]

/-- **What a convention object was asked before a lookup does not change the lookup**: the last reply of a
session that ends in a lookup is `getIndexForPoint` of that lookup. -/
theorem session_lookup_history_independent (c : Conv) (polys : List (Option Poly))
    (before : List LookupQuestion) (hits : List Nat) :
    (lookupSession c polys (before ++ [.lookup hits])).getLast? = some (.item (getIndexForPoint c polys hits)) := by
  simp [lookupSession, lookupReply]

/-! non-vacuity: a mesh with three nodes and three faces; node indexes wound first, then a lookup -/
def histMesh : Conv := { grids := [("node", [3]), ("face", [3])], default := "face" }
def histTri : List (Option Poly) :=
  [some [(0, 0), (1, 0), (0, 1)], some [(1, 0), (1, 1), (0, 1)], some [(1, 0), (2, 0), (1, 1)]]

example : hitSet exactIntersects histTri (1, 1) = [1, 2] := by decide +kernel
example : ∃ item, (lookupSession histMesh histTri
    [.wind "node" 0, .wind "node" 1, .wind "node" 2, .lookup [2, 1]]).getLast? = some (.item (some item)) ∧
    item.linear = 1 ∧ item.native = some ("face", [1]) := by
  have hs := session_lookup_history_independent histMesh histTri [.wind "node" 0, .wind "node" 1, .wind "node" 2] [2, 1]
  simp only [List.cons_append, List.nil_append] at hs
  cases h : firstHit [2, 1] with
  | none => have := (firstHit_spec [2, 1]).1.mp h; simp at this
  | some n =>
    obtain ⟨hm, hl⟩ := (firstHit_spec [2, 1]).2 n h
    have : n = 1 := by
      have h1 := hl 1 (by simp)
      simp at hm
      omega
    subst this
    refine ⟨{ linear := 1, native := histMesh.windIndex none 1, polygon := histTri[1]?.join }, ?_, rfl, by decide +kernel⟩
    rw [hs]; simp [getIndexForPoint, h]

example : histMesh.windIndex (some "node") 1 = some ("node", [1]) := by decide +kernel

end Ems.C04
