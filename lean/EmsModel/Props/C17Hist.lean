import EmsModel.Core.SaveSession
import EmsModel.Props.C17
/-!
C17, input classes of round 6 — the `_FillValue` attributes of a saved file for variables of every rank and after
any history of earlier saves (`Core/SaveSession.lean`):

* `save_session_is_map` / `save_history_independent`  on the machine the property demands the file of a call is the
                                 file of that call alone, whatever calls (with whatever `encoding=`, failed or not)
                                 came before it;
* `plain_save_no_new_fill`       a plain save writes a `_FillValue` exactly on the variables whose source had one —
                                 for a dataset of variables of ANY rank, rank 0 included;
* `plain_save_after_history`     the two together: the clause of the property for a plain save at the end of any history;
* `save_rank_irrelevant`         re-ranking the variables (selecting a layer, a snapshot) changes nothing;
* `scalar_no_new_fill`           spelt out for one variable without dimensions written with its own dtype;
* `explicit_encoding_overrides`  an `encoding=` that names a float variable without a `_FillValue` of its own (a
                                 compression request, say) DOES give that file a `_FillValue` the source lacked: the
                                 arguments matter for their own call (recorded as an observation: the property's
                                 quantifier has no keyword arguments);
* `leaky_session_differs`        the machine that stores the caller's arguments fails `save_history_independent`.
-/
namespace Ems.C17
open Ems.TimeUnits Ems.SaveSession

theorem runWith_stepSession (st : List EncArg) (h : List SaveCall) :
    runWith stepSession st h = h.map fun c => saveWith (c.args ++ st) c.vars := by
  induction h generalizing st with
  | nil => rfl
  | cons c h ih => simp [runWith, stepSession, ih]

/-- **Every file of a process is the file of its own call.** -/
theorem save_session_is_map (h : List SaveCall) : runSession h = h.map save := by
  simp [runSession, runWith_stepSession, save]

/-- **History independence**: whatever calls came before (any datasets, any `encoding=`, calls that raised), the
file of the last call is the file that call writes in a fresh process. -/
theorem save_history_independent (h : List SaveCall) (c : SaveCall) :
    (runSession (h ++ [c])).getLast? = some (save c) := by
  simp [save_session_is_map]

/-- **A plain save adds no fill value and loses none, at every rank.** Provided no variable is cast from a dtype that
is not float-like to a floating on-disk dtype (the hypothesis of `no_new_fill`), the file has a `_FillValue` exactly
on the variables whose source had one. The ranks of the variables are arbitrary. -/
theorem plain_save_no_new_fill (vars : List SVar)
    (hyp : ∀ v ∈ vars, autoFills v.desc.disk = true → promoteStable v.desc.mem = true) :
    saveWith [] vars = some (sourceFills vars) := by
  simp only [saveWith, argsOk, List.all_nil, if_true, sourceFills, Option.some.injEq]
  apply List.map_congr_left
  intro v hv
  simp only [effective, List.find?_nil]
  rw [no_new_fill v.desc (hyp v hv)]

/-- the clause of the property for a plain save at the end of any history -/
theorem plain_save_after_history (h : List SaveCall) (vars : List SVar)
    (hyp : ∀ v ∈ vars, autoFills v.desc.disk = true → promoteStable v.desc.mem = true) :
    (runSession (h ++ [⟨[], vars⟩])).getLast? = some (some (sourceFills vars)) := by
  rw [save_history_independent, save, plain_save_no_new_fill vars hyp]

/-- **The rank of a variable has no say**: a dataset whose variables were re-ranked in any way (one layer, one
snapshot selected: the coordinate of the selected dimension is left without dimensions) is written with the same
`_FillValue` attributes. -/
theorem save_rank_irrelevant (args : List EncArg) (vars : List SVar) (r : SVar → Nat) :
    saveWith args (vars.map fun v => { v with rank := r v }) = saveWith args vars := by
  simp [saveWith, argsOk, effective, List.map_map, Function.comp_def, List.any_map]

/-- one variable without dimensions, written with its own dtype: a `_FillValue` iff the source had one -/
theorem scalar_no_new_fill (name : String) (d : VarDesc) (h : d.disk = d.mem) :
    saveWith [] [⟨name, 0, d⟩] = some [(name, sourceHasFill d)] := by
  have := plain_save_no_new_fill [⟨name, 0, d⟩] (by
    intro v hv
    simp only [List.mem_singleton] at hv
    subst hv
    simp only [h]
    exact autofill_covered d.mem)
  simpa [sourceFills] using this

/-- the keyword arguments matter for the call they are given to: naming a float variable that has no fill value of
its own in `encoding=` (the slot of the caller's dict is empty) gives the file a `_FillValue` the source lacked -/
theorem explicit_encoding_overrides :
    ∃ c : SaveCall, save c = some [("temp", true)] ∧ sourceFills c.vars = [("temp", false)] ∧
      save { c with args := [] } = some [("temp", false)] :=
  ⟨⟨[⟨"temp", .float, .absent⟩], [⟨"temp", 3, ⟨.float, .float, .absent, false⟩⟩]⟩, by decide⟩

/-- the machine that stores the caller's arguments is told apart: after one packed save of another dataset, its plain
save of a float variable of the same name carries a `_FillValue` -/
theorem leaky_session_differs :
    ∃ (h : List SaveCall) (c : SaveCall), (runLeaky (h ++ [c])).getLast? ≠ some (save c) :=
  ⟨[⟨[⟨"temp", .int, .value⟩], [⟨"temp", 3, ⟨.float, .float, .absent, false⟩⟩]⟩],
   ⟨[], [⟨"temp", 3, ⟨.float, .float, .absent, false⟩⟩]⟩, by decide⟩

/-- non-vacuity: a history with a packed save, a save that raises and a compressed save, then the plain save of the
surface layer of a dataset (a float coordinate without dimensions, a float variable, an integer variable with a fill
value of its own) -/
example :
    (runSession ([⟨[⟨"temp", .int, .value⟩], [⟨"temp", 3, ⟨.float, .float, .absent, false⟩⟩]⟩,
                  ⟨[⟨"nosuch", .int, .value⟩], [⟨"temp", 3, ⟨.float, .float, .absent, false⟩⟩]⟩,
                  ⟨[⟨"temp", .float, .absent⟩], [⟨"temp", 3, ⟨.float, .float, .absent, false⟩⟩]⟩] ++
                 [⟨[], [⟨"depth", 0, ⟨.float, .float, .absent, false⟩⟩, ⟨"temp", 2, ⟨.float, .float, .absent, false⟩⟩,
                        ⟨"flag", 2, ⟨.int, .int, .absent, true⟩⟩]⟩])) =
      [some [("temp", true)], none, some [("temp", true)],
       some [("depth", false), ("temp", false), ("flag", true)]] := by decide

end Ems.C17
