import EmsModel.Core.Clip
namespace Ems.C08
theorem placeholder : True := trivial
end Ems.C08
