import EmsModel.Lemmas.Clip
import EmsModel.Lemmas.ClipCompose
import EmsModel.Props.C07
/-!
# C08 — clipping keeps every selected value and blanks everything else

Stored values are `Option`: `none` is a missing value.  All statements hold for arrays of
any rank, any dimension order, any mask.
-/
namespace Ems.C08
open Ems Ems.NArr

variable {α : Type}

/-! ### the crop -/

/-- `trueBounds` is the tightest slice containing every marked position. -/
theorem trueBounds_spec (l : List Bool) (lo hi : Nat) (h : trueBounds l = some (lo, hi)) :
    l[lo]? = some true ∧ (∀ j, j < lo → l[j]? ≠ some true) ∧
    lo < hi ∧ hi ≤ l.length ∧ l[hi - 1]? = some true ∧ (∀ j, hi ≤ j → l[j]? ≠ some true) := by
  simp only [trueBounds] at h
  cases h1 : l.idxOf? true with
  | none => simp [h1] at h
  | some a =>
    simp only [h1, Option.some.injEq, Prod.mk.injEq] at h
    obtain ⟨rfl, rfl⟩ := h
    obtain ⟨ha1, hlo, ha2⟩ := List.idxOf?_eq_some_iff.mp h1
    -- the reversed list also contains `true`
    have hmem : true ∈ l.reverse := by
      rw [List.mem_reverse]; rw [← hlo]; exact List.getElem_mem _
    cases h2 : l.reverse.idxOf? true with
    | none => rw [List.idxOf?_eq_none_iff] at h2; exact absurd hmem h2
    | some r =>
      obtain ⟨hr1, hrv, hr2⟩ := List.idxOf?_eq_some_iff.mp h2
      simp only [List.length_reverse] at hr1
      simp only [Option.getD_some]
      have hrv' : l[l.length - 1 - r] = true := by
        rw [List.getElem_reverse] at hrv; exact hrv
      have hlast : l[l.length - r - 1]? = some true := by
        have : l.length - r - 1 = l.length - 1 - r := by omega
        rw [this, List.getElem?_eq_getElem (by omega), hrv']
      refine ⟨by rw [List.getElem?_eq_getElem ha1, hlo], ?_, ?_, by omega, hlast, ?_⟩
      · intro j hj hjt
        have hjl : j < l.length := (List.getElem?_eq_some_iff.mp hjt).1
        have := ha2 j hj
        rw [List.getElem?_eq_getElem hjl] at hjt
        simp at hjt
        simp [hjt] at this
      · -- lo ≤ last true position
        by_cases hc : a < l.length - r
        · exact hc
        · exfalso
          have hge : l.length - r - 1 < a := by omega
          have := ha2 (l.length - r - 1) hge
          have hx : l[l.length - r - 1] = true := by
            have : l.length - r - 1 = l.length - 1 - r := by omega
            simp only [this]; exact hrv'
          simp [hx] at this
      · intro j hj hjt
        have hjl : j < l.length := (List.getElem?_eq_some_iff.mp hjt).1
        -- position j corresponds to reversed position l.length - 1 - j < r
        have hlt : l.length - 1 - j < r := by omega
        have := hr2 (l.length - 1 - j) hlt
        have hx : l.reverse[l.length - 1 - j]'(by simp; omega) = true := by
          rw [List.getElem_reverse]
          have : l.length - 1 - (l.length - 1 - j) = j := by omega
          simp only [this]
          rw [List.getElem?_eq_getElem hjl] at hjt
          simpa using hjt
        simp [hx] at this

/-- **Cropping preserves values and order**: position `k` of a cropped dimension is position
`k + lo` of the original; other dimensions are untouched. -/
theorem crop_get [Inhabited α] (a : NArr α) (bounds : List (String × Nat × Nat)) (e : Env)
    (v : String → Nat) (hwf : a.WF)
    (hv : ∀ d ∈ a.dims, e.get d.1 = some (v d.1) ∧ v d.1 < cropSize bounds d.1 d.2)
    (hin : ∀ d ∈ a.dims, cropShift bounds d.1 (v d.1) < d.2) :
    (a.crop bounds).get? e = a.get? (e.map fun p => (p.1, cropShift bounds p.1 p.2)) := by
  unfold crop
  have hnames : ((a.dims.map fun d => (d.1, cropSize bounds d.1 d.2)).map (·.1)) = a.names := by
    simp [names, List.map_map, Function.comp_def]
  rw [get_ofFn_congr _ _ e v (by rw [hnames]; exact hwf.2)]
  · -- the read on the right succeeds (in range), so `getD default` is the identity
    obtain ⟨x, hx⟩ := get_isSome a (e.map fun p => (p.1, cropShift bounds p.1 p.2))
      (fun d => cropShift bounds d (v d)) hwf (by
        intro d hd
        refine ⟨?_, hin d hd⟩
        simp only [Env.get]
        rw [lookup_map_values (cropShift bounds) e d.1]
        have := (hv d hd).1
        simp only [Env.get] at this
        rw [this]; rfl)
    rw [hx]; rfl
  · intro d hd
    obtain ⟨d', hd', rfl⟩ := List.mem_map.mp hd
    exact hv d' hd'
  · intro e1 e2 hagree
    apply get_congr
    intro d hd
    simp only [Env.get]
    rw [lookup_map_values (cropShift bounds) e1 d, lookup_map_values (cropShift bounds) e2 d]
    have := hagree d (by rw [hnames]; exact hd)
    simp only [Env.get] at this
    rw [this]

/-! ### masking -/

/-- **`where(mask, fill)`**: a value survives exactly where the mask is true; elsewhere the
variable holds a missing value. -/
theorem where_get [Inhabited α] (a : NArr (Option α)) (mask : NArr Bool) (e : Env) (v : String → Nat)
    (hwf : a.WF) (hv : ∀ d ∈ a.dims, e.get d.1 = some (v d.1) ∧ v d.1 < d.2)
    (hsub : ∀ d ∈ mask.names, d ∈ a.names) (b : Bool) (hb : mask.get? e = some b) :
    (a.whereMask mask).get? e = if b then a.get? e else some none := by
  unfold whereMask
  rw [get_ofFn_congr a.dims _ e v hwf.2 hv]
  · obtain ⟨x, hx⟩ := get_isSome a e v hwf hv
    cases b <;> simp [hb, hx]
  · intro e1 e2 hagree
    have h1 : mask.get? e1 = mask.get? e2 := get_congr mask e1 e2 (fun d hd => hagree d (hsub d hd))
    have h2 : a.get? e1 = a.get? e2 := get_congr a e1 e2 hagree
    simp only [h1, h2]

/-- `find_fill_value` as a table: only a variable that is neither a masked array, nor carries
`_FillValue` / `missing_value`, nor has a float-like dtype is unmaskable. -/
theorem fill_decision_table (m f mv fl : Bool) :
    fillDecision m f mv fl = .unmaskable ↔ (m = false ∧ f = false ∧ mv = false ∧ fl = false) := by
  cases m <;> cases f <;> cases mv <;> cases fl <;> simp [fillDecision]

/-- The governing mask is the first mask, in the mask dataset's order, whose dimensions are
all dimensions of the variable. -/
theorem governing_first (masks : List (String × NArr Bool)) (varNames : List String) (m : NArr Bool)
    (h : governingMask masks varNames = some m) :
    ∃ pre x post, masks = pre ++ x :: post ∧ x.2 = m ∧ (∀ d ∈ m.names, d ∈ varNames) ∧
      ∀ y ∈ pre, ∃ d ∈ y.2.names, d ∉ varNames := by
  simp only [governingMask, Option.map_eq_some_iff] at h
  obtain ⟨x, hx, rfl⟩ := h
  obtain ⟨hp, pre, post, hsplit, hpre⟩ := List.find?_eq_some_iff_append.mp hx
  refine ⟨pre, x, post, hsplit, rfl, ?_, ?_⟩
  · simpa [List.all_eq_true, List.contains_iff_mem] using hp
  · intro y hy
    have := hpre y hy
    simpa [List.all_eq_true, List.contains_iff_mem] using this

/-- A mask that marks nothing is refused. -/
theorem empty_mask_refused [Inhabited α] (name : String) (m : NArr Bool) (rest : List (String × NArr Bool))
    (fill : FillKind) (a : NArr (Option α)) (h : m.data.any id = false) :
    clipVar ((name, m) :: rest) fill a = none := by
  have hb : m.maskBounds = none := by simp [maskBounds, h]
  have : allBounds ((name, m) :: rest) = none := by
    simp only [allBounds, List.foldl_cons, hb]
    -- once `none`, the fold stays `none`
    have stay : ∀ (l : List (String × NArr Bool)),
        l.foldl (fun acc (m : String × NArr Bool) =>
          match acc, m.2.maskBounds with
          | some bs, some nb => some (nb ++ bs.filter fun b => !(nb.map (·.1)).contains b.1)
          | _, _ => none) (none : Option (List (String × Nat × Nat))) = none := by
      intro l
      induction l with
      | nil => rfl
      | cons x xs ih => simpa using ih
    exact stay rest
  simp [clipVar, this]

/-- **The grid clip, pointwise.**  Inside the crop, a maskable variable holds its original
value where the governing mask is true and a missing value elsewhere … -/
theorem grid_clip_spec [Inhabited α] (masks : List (String × NArr Bool)) (a : NArr (Option α))
    (bounds : List (String × Nat × Nat)) (m : NArr Bool)
    (hb : allBounds masks = some bounds) (hg : governingMask masks a.names = some m) :
    clipVar masks .maskable a = some ((a.crop bounds).whereMask (m.crop bounds)) := by
  simp [clipVar, hb, hg]

/-- … while a variable that cannot represent a missing value is cropped but never altered,
and so is a variable that no mask governs (no spatial dimensions). -/
theorem unmaskable_never_altered [Inhabited α] (masks : List (String × NArr Bool)) (a : NArr (Option α))
    (bounds : List (String × Nat × Nat)) (hb : allBounds masks = some bounds) :
    clipVar masks .unmaskable a = some (a.crop bounds) ∧
    (governingMask masks a.names = none → ∀ fill, clipVar masks fill a = some (a.crop bounds)) := by
  constructor
  · simp [clipVar, hb]
  · intro hg fill
    cases fill <;> simp [clipVar, hb, hg]

/-- No data from outside the region survives: a value present in the masked output belongs
to a cell the mask marks. -/
theorem nothing_outside_survives [Inhabited α] (a : NArr (Option α)) (mask : NArr Bool) (e : Env)
    (v : String → Nat) (hwf : a.WF) (hv : ∀ d ∈ a.dims, e.get d.1 = some (v d.1) ∧ v d.1 < d.2)
    (hsub : ∀ d ∈ mask.names, d ∈ a.names) (b : Bool) (hb : mask.get? e = some b)
    (x : α) (hx : (a.whereMask mask).get? e = some (some x)) : b = true := by
  rw [where_get a mask e v hwf hv hsub b hb] at hx
  cases b with
  | true => rfl
  | false => simp at hx


/-! ### end to end on a grid: what `clip(geometry, buffer)` leaves in a variable

C08's theorems above take the mask as given; C07's `grid_mask_spec` says what `make_clip_mask` puts in it.
Composed: after masking a variable with the face mask computed from the clip geometry, the value at a
grid cell survives **iff** that cell lies within `buffer` rings (eight directions, inside the grid) of a
cell whose polygon intersects the geometry; every other cell holds a missing value — for every
`intersects`, every order of the spatial-index hits, every rank and dimension order of the variable. -/

/-- cell `(j, i)` is selected: within `b` rings of an intersecting cell -/
def Selected {Poly Geom : Type} (intersects : Poly → Geom → Bool) (polys : List (Option Poly)) (g : Geom)
    (ny nx b j i : Nat) : Prop :=
  ∃ j' i', j' < ny ∧ i' < nx ∧ j' ≤ j + b ∧ j ≤ j' + b ∧ i' ≤ i + b ∧ i ≤ i' + b ∧
    ∃ p, polys[j' * nx + i']? = some (some p) ∧ intersects p g = true

theorem clip_end_to_end [Inhabited α] {Poly Geom : Type} (intersects : Poly → Geom → Bool)
    (polys : List (Option Poly)) (g : Geom) (ny nx : Nat) (hits : List Nat)
    (hhits : ∀ n, n ∈ hits ↔ ∃ p, polys[n]? = some (some p) ∧ intersects p g = true)
    (buffer : Int) (ydim xdim : String) (hne : ydim ≠ xdim)
    (a : NArr (Option α)) (hwf : a.WF) (hy : (ydim, ny) ∈ a.dims) (hx : (xdim, nx) ∈ a.dims)
    (e : Env) (v : String → Nat) (hv : ∀ d ∈ a.dims, e.get d.1 = some (v d.1) ∧ v d.1 < d.2) :
    let out := (a.whereMask (faceMaskVar ydim xdim (Clip.gridClipMask ny nx hits buffer))).get? e
    (Selected intersects polys g ny nx buffer.toNat (v ydim) (v xdim) → out = a.get? e) ∧
    (¬ Selected intersects polys g ny nx buffer.toNat (v ydim) (v xdim) → out = some none) := by
  intro out
  have hjy := hv _ hy
  have hix := hv _ hx
  have hmask := faceMaskVar_get ydim xdim hne (Clip.gridClipMask ny nx hits buffer) e (v ydim) (v xdim)
    hjy.1 hix.1 (by rw [gridClipMask_ny]; exact hjy.2) (by rw [gridClipMask_nx]; exact hix.2)
  have hsub : ∀ d ∈ (faceMaskVar ydim xdim (Clip.gridClipMask ny nx hits buffer)).names, d ∈ a.names := by
    intro d hd
    rw [faceMaskVar_names] at hd
    simp only [List.mem_cons, List.not_mem_nil, or_false] at hd
    rcases hd with rfl | rfl
    · exact List.mem_map.mpr ⟨_, hy, rfl⟩
    · exact List.mem_map.mpr ⟨_, hx, rfl⟩
  have hw := where_get a _ e v hwf hv hsub _ hmask
  have hspec := Clip.get_gridClipMask ny nx hits buffer (v ydim) (v xdim)
  simp only [hhits] at hspec
  constructor
  · intro hsel
    have : (Clip.gridClipMask ny nx hits buffer).get (v ydim) (v xdim) = true :=
      hspec.mpr ⟨hjy.2, hix.2, hsel⟩
    show (a.whereMask _).get? e = _
    rw [hw, this]; rfl
  · intro hsel
    have : (Clip.gridClipMask ny nx hits buffer).get (v ydim) (v xdim) = false := by
      cases h : (Clip.gridClipMask ny nx hits buffer).get (v ydim) (v xdim) with
      | false => rfl
      | true => exact absurd (hspec.mp h).2.2 hsel
    show (a.whereMask _).get? e = _
    rw [hw, this]; rfl

/-! non-vacuity: a 1 x 3 grid whose cell 0 alone intersects the geometry, buffer 1: cell 1 is selected
(one ring away), cell 2 is not -/
example : Selected (fun (p : Nat) (_ : Unit) => p == 0) [some 0, some 1, some 2] () 1 3 1 0 1 :=
  ⟨0, 0, by decide, by decide, by decide, by decide, by decide, by decide, 0, by decide, by decide⟩
example : ¬ Selected (fun (p : Nat) (_ : Unit) => p == 0) [some 0, some 1, some 2] () 1 3 1 0 2 := by
  rintro ⟨j', i', hj, hi, _, _, _, h4, p, hp, hint⟩
  have hj0 : j' = 0 := by omega
  subst hj0
  have hi' : i' = 1 ∨ i' = 2 := by omega
  rcases hi' with rfl | rfl <;> simp at hp <;> subst hp <;> simp at hint

/-! ### meshes: boolean row selection -/

theorem keptRows_spec (keep : List Bool) :
    (∀ i, i ∈ keptRows keep ↔ keep[i]? = some true) ∧ (keptRows keep).Pairwise (· < ·) := by
  constructor
  · intro i
    simp only [keptRows, List.mem_filter, List.mem_range]
    constructor
    · rintro ⟨hlt, h⟩
      rw [List.getD_eq_getElem?_getD, List.getElem?_eq_getElem hlt] at h
      rw [List.getElem?_eq_getElem hlt]; simpa using h
    · intro h
      have hlt := (List.getElem?_eq_some_iff.mp h).1
      exact ⟨hlt, by simp [List.getD_eq_getElem?_getD, h]⟩
  · exact List.Pairwise.filter _ List.pairwise_lt_range

/-- **Row selection keeps exactly the kept rows, in original order**: row `k` of the output
along the mesh dimension is the `k`-th kept row of the input; all other dimensions untouched. -/
theorem selectRows_get [Inhabited α] (a : NArr α) (dim : String) (keep : List Bool) (e : Env)
    (v : String → Nat) (hwf : a.WF)
    (hv : ∀ d ∈ a.dims, e.get d.1 = some (v d.1) ∧
      v d.1 < (if d.1 == dim then (keptRows keep).length else d.2))
    (hin : ∀ d ∈ a.dims, (if d.1 == dim then (keptRows keep).getD (v d.1) 0 else v d.1) < d.2) :
    (a.selectRows dim keep).get? e =
      a.get? (e.map fun p => (p.1, if p.1 == dim then (keptRows keep).getD p.2 0 else p.2)) := by
  unfold selectRows
  have hnames : ((a.dims.map fun x => (x.1, if x.1 == dim then (keptRows keep).length else x.2)).map (·.1)) = a.names := by
    simp [names, List.map_map, Function.comp_def]
  let g : String → Nat → Nat := fun d x => if d == dim then (keptRows keep).getD x 0 else x
  have hmap : ∀ e' : Env, (e'.map fun p => (p.1, if p.1 == dim then (keptRows keep).getD p.2 0 else p.2))
      = e'.map fun p => (p.1, g p.1 p.2) := fun _ => rfl
  rw [get_ofFn_congr _ _ e v (by rw [hnames]; exact hwf.2)]
  · obtain ⟨x, hx⟩ := get_isSome a (e.map fun p => (p.1, g p.1 p.2)) (fun d => g d (v d)) hwf (by
        intro d hd
        refine ⟨?_, hin d hd⟩
        simp only [Env.get]
        rw [lookup_map_values g e d.1]
        have := (hv d hd).1
        simp only [Env.get] at this
        rw [this]; rfl)
    rw [hmap, hx]; rfl
  · intro d hd
    obtain ⟨d', hd', rfl⟩ := List.mem_map.mp hd
    exact hv d' hd'
  · intro e1 e2 hagree
    rw [hmap, hmap]
    apply get_congr
    intro d hd
    simp only [Env.get]
    rw [lookup_map_values g e1 d, lookup_map_values g e2 d]
    have := hagree d (by rw [hnames]; exact hd)
    simp only [Env.get] at this
    rw [this]

/-- a variable without the mesh dimension passes through unchanged -/
theorem meshRows_passthrough [Inhabited α] (dimMasks : List (String × List Bool)) (a : NArr α)
    (h : ∀ dm ∈ dimMasks, dm.1 ∉ a.names) : meshRows dimMasks a = a := by
  unfold meshRows
  induction dimMasks with
  | nil => rfl
  | cons dm rest ih =>
    have hdm : a.names.contains dm.1 = false := by
      cases hc : a.names.contains dm.1 with
      | false => rfl
      | true => exact absurd (List.contains_iff_mem.mp hc) (h dm (by simp))
    simp only [List.foldl_cons, hdm, Bool.false_eq_true, if_false]
    exact ih (fun d hd => h d (by simp [hd]))

/-! ### non-vacuity -/
def exMask : NArr Bool := { dims := [("y", 3), ("x", 3)], data := [false, false, false, false, true, true, false, false, true] }
def exVar : NArr (Option Int) := { dims := [("y", 3), ("x", 3)], data := [some 0, some 1, some 2, some 3, some 4, some 5, some 6, some 7, some 8] }
example : trueBounds [false, true, true, false] = some (1, 3) := by decide
example : allBounds [("cell_mask", exMask)] = some [("y", 1, 3), ("x", 1, 3)] := by decide +kernel
example : (clipVar [("cell_mask", exMask)] .maskable exVar).map (·.data) = some [some 4, some 5, none, some 8] := by decide +kernel
example : (clipVar [("cell_mask", exMask)] .unmaskable exVar).map (·.data) = some [some 4, some 5, some 7, some 8] := by decide +kernel
example : keptRows [false, true, true, false] = [1, 2] := by decide

/-! ### end to end on a mesh

`UGrid.apply_clip_mask` keeps the rows of the face dimension whose `new_face_index` is not masked.
Composed with C07 (`kept_faces_spec`, `mesh_mask_spec`, `kept_faces_sorted`): the rows that survive are the
faces within `buffer` node-sharing rings of a face whose polygon intersects the geometry, in their original
order, and row `k` of every face variable after the clip is the row of the `k`-th such face before it. -/
theorem mesh_clip_end_to_end [Inhabited α] {Poly Geom : Type} (intersects : Poly → Geom → Bool)
    (polys : List (Option Poly)) (g : Geom) (m : Clip.FaceMesh) (hlen : polys.length = m.nFaces)
    (hits : List Nat)
    (hhits : ∀ n, n ∈ hits ↔ ∃ p, polys[n]? = some (some p) ∧ intersects p g = true)
    (buffer : Int) (faceDim : String) (a : NArr α) (hwf : a.WF) :
    let keep := (Clip.ugridClipMask m hits buffer).newFace.map Option.isSome
    let K := Clip.keptFaces m hits buffer
    keptRows keep = K ∧ K.Pairwise (· < ·) ∧
    (∀ f, f ∈ K ↔ C07.Within m (fun n => ∃ p, polys[n]? = some (some p) ∧ intersects p g = true) buffer.toNat f) ∧
    (∀ (e : Env) (v : String → Nat),
      (∀ d ∈ a.dims, e.get d.1 = some (v d.1) ∧ v d.1 < (if d.1 == faceDim then K.length else d.2)) →
      (∀ d ∈ a.dims, (if d.1 == faceDim then K.getD (v d.1) 0 else v d.1) < d.2) →
      (a.selectRows faceDim keep).get? e =
        a.get? (e.map fun p => (p.1, if p.1 == faceDim then K.getD p.2 0 else p.2))) := by
  intro keep K
  have hr : ∀ f ∈ hits, f < m.nFaces := by
    intro f hf
    obtain ⟨p, hp, _⟩ := (hhits f).mp hf
    rw [← hlen]; exact (List.getElem?_eq_some_iff.mp hp).1
  have hsorted : K.Pairwise (· < ·) := C07.kept_faces_sorted m hits buffer
  have hmask := (C07.mesh_mask_spec m hits hr buffer).1
  have hrows : keptRows keep = K := by
    apply Clip.sorted_ext _ _ (keptRows_spec keep).2 hsorted
    intro f
    rw [(keptRows_spec keep).1 f, ← hmask f]
    simp only [keep, C07.IsKept, List.getElem?_map]
    constructor
    · intro h
      cases hx : (Clip.ugridClipMask m hits buffer).newFace[f]? with
      | none => simp [hx] at h
      | some o =>
        cases o with
        | none => simp [hx] at h
        | some w => exact ⟨w, rfl⟩
    · rintro ⟨w, hw⟩
      simp [hw]
  refine ⟨hrows, hsorted, C07.kept_faces_spec intersects polys g m hlen hits hhits buffer, ?_⟩
  intro e v hv hin
  have := selectRows_get a faceDim keep e v hwf (by rw [hrows]; exact hv) (by rw [hrows]; exact hin)
  rw [hrows] at this
  exact this

end Ems.C08
