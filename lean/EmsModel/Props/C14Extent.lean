import EmsModel.Props.C14
import EmsModel.Lemmas.TriangulateExtent
/-!
# C14, extent — the triangulation does not depend on the unit of the coordinates

Property theorems only.  `sim k ox oy` is the similarity `q ↦ (ox, oy) + k · q` with `k ≠ 0`
(a mesh in degrees at 2⁻³⁰ resolution, the same mesh in metres, the same mesh moved elsewhere).
The harness generates exactly these images of its integer cells (`harness/gen/c14_extra6.py`,
`k = 2^exp`, integer origin — exact in binary floating point) and checks the clauses of C14 on
the real output in exact rationals.
-/
namespace Ems.C14
open Ems.Tri

/-- The convex / concave split (hull test) is the same at every extent: no cell becomes "convex"
because it is small, and none becomes "concave" because it is large. -/
theorem split_extent_invariant {k : Rat} (hk : k ≠ 0) (ox oy : Rat) (p : List Pt) :
    isStrictConvex (p.map (sim k ox oy)) = isStrictConvex p :=
  isStrictConvex_sim hk ox oy p

/-- A strictly convex cell at any extent takes the fan path, its triangles are the images of the
triangles of the unit cell, and they partition the cell exactly (every clause of
`convex_path_partition`, on the scaled cell). -/
theorem convex_path_partition_extent {k : Rat} (hk : k ≠ 0) (ox oy : Rat)
    (isEar : List Pt → Nat → Bool) (p : List Pt) (h : isStrictConvex p = true) :
    let p' := p.map (sim k ox oy)
    triangulateCell isStrictConvex isEar p' = .ok ((fan p).map (simTri k ox oy)) ∧
    ∃ s : Rat, (s = 1 ∨ s = -1) ∧
      (fan p').length = p'.length - 2 ∧
      (∀ t ∈ fan p', ∀ q, InTri t q → InCell s p' q) ∧
      (∀ q, InCell s p' q → ∃ t ∈ fan p', InTri t q) ∧
      (fan p').Pairwise MeetInLine ∧
      sumAbsArea2 (fan p') = absR (shoelace2 p') := by
  intro p'
  have h' : isStrictConvex p' = true := by rw [split_extent_invariant hk]; exact h
  obtain ⟨h1, h2⟩ := convex_path_partition isEar p' h'
  refine ⟨?_, h2⟩
  rw [h1]
  exact congrArg _ (fan_map (sim k ox oy) p)

/-- A cell that is not strictly convex takes the ear path at every extent, however small the cell
and however shallow its reflex corner: it is never handed to the fan. -/
theorem concave_path_extent {k : Rat} (hk : k ≠ 0) (ox oy : Rat)
    (isEar : List Pt → Nat → Bool) (p : List Pt) (h : isStrictConvex p = false) :
    triangulateCell isStrictConvex isEar (p.map (sim k ox oy)) =
      earClip isEar p.length (p.map (sim k ox oy)) := by
  simp [triangulateCell, split_extent_invariant hk, h]

/-- The exact-area clause is homogeneous: a list of triangles covers the cell's area at extent `k`
iff the unit triangles cover the unit cell's area.  (Nothing is "close enough" at a small extent.) -/
theorem area_clause_extent {k : Rat} (hk : k ≠ 0) (ox oy : Rat) (p : List Pt) (ts : List Tri) :
    sumAbsArea2 (ts.map (simTri k ox oy)) = absR (shoelace2 (p.map (sim k ox oy))) ↔
      sumAbsArea2 ts = absR (shoelace2 p) := by
  rw [sumAbsArea2_sim, shoelace2_sim, absR_mul_nonneg (mul_self_nonneg k)]
  exact mul_right_inj' (mul_self_ne_zero.mpr hk)

/-! ### Non-vacuity -/

/-- a dart whose first vertex does not see the whole cell -/
def dart : List Pt := [⟨0, 4⟩, ⟨1, 2⟩, ⟨0, 0⟩, ⟨4, 2⟩]
def square : List Pt := [⟨0, 0⟩, ⟨2, 0⟩, ⟨2, 2⟩, ⟨0, 2⟩]

example : isStrictConvex dart = false ∧ isStrictConvex square = true := by
  unfold dart square; decide +kernel
/-- the dart 2⁻³⁰ units across, at (150, -30), is still concave … -/
example : isStrictConvex (dart.map (sim (1 / 1073741824) 150 (-30))) = false := by
  rw [split_extent_invariant (by norm_num)]; unfold dart; decide +kernel
/-- … and fanning it from its first vertex would NOT partition it: the triangle areas sum to 20 / 2,
the cell has area 12 / 2 — at the unit extent, hence (by `area_clause_extent`) at every extent. -/
example : sumAbsArea2 (fan dart) = 20 ∧ absR (shoelace2 dart) = 12 := by
  unfold dart; decide +kernel
example : ¬ (sumAbsArea2 ((fan dart).map (simTri (1 / 1073741824) 150 (-30)))
    = absR (shoelace2 (dart.map (sim (1 / 1073741824) 150 (-30))))) := by
  rw [area_clause_extent (by norm_num)]
  have h : sumAbsArea2 (fan dart) = 20 ∧ absR (shoelace2 dart) = 12 := by unfold dart; decide +kernel
  rw [h.1, h.2]; norm_num

end Ems.C14
