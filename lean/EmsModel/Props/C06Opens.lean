import EmsModel.Core.ConvOpen
/-
Props/C06Opens.lean — C06, convention objects constructed one after the other in one process, some of them configured
through their constructor (`coordinate_names=`, `latitude=` / `longitude=`, `topology=`): the cells of a dataset are the
ones its own coordinate set describes, whatever was constructed before (model: `Core/ConvOpen.lean`).
-/
namespace Ems.C06
open Ems

/-- constructing convention objects, configured or not, leaves what is hard coded on the class as it was -/
theorem class_names_unchanged (cls : Option String) (hs : List OpenCfg) : classAfter cls hs = cls := by
  induction hs generalizing cls with
  | nil => rfl
  | cons h hs ih => simpa [classAfter, construct] using ih cls

/-- What a convention object looks at does not depend on the objects constructed before it: only on how it was
constructed itself and on its own dataset. -/
theorem open_history_independent {α : Type} (cls : Option String) (hs : List OpenCfg) (last : OpenCfg)
    (sets : List (String × α)) : openAfter cls hs last sets = openAfter cls [] last sets := by
  simp [openAfter, namesAfter, class_names_unchanged]

/-- A dataset opened the ordinary way — after any number of objects configured to look at other coordinate sets — is
described by the coordinate set of the class's own names. -/
theorem default_open_after_configured {α : Type} (d : String) (hs : List OpenCfg) (sets : List (String × α)) :
    openAfter (some d) hs none sets = List.lookup d sets := by
  rw [open_history_independent]; rfl

/-- An object given names uses them, whatever the class hard codes and whatever was constructed before. -/
theorem configured_open_uses_given {α : Type} (cls : Option String) (hs : List OpenCfg) (n : String)
    (sets : List (String × α)) : openAfter cls hs (some n) sets = List.lookup n sets := by
  rw [open_history_independent]; rfl

/-- a class without names of its own (plain `ArakawaC`) cannot be opened the ordinary way, before or after configured
objects of it -/
theorem no_names_no_open {α : Type} (hs : List OpenCfg) (sets : List (String × α)) :
    openAfter none hs none sets = none := by
  rw [open_history_independent]; rfl

/-! ### non-vacuity -/
/-- a geographic and a projected node grid; an object configured for the projected one, then the dataset the ordinary way -/
example : openAfter (some "y_grid/x_grid") [some "y_grid_m/x_grid_m", none] none
    [("y_grid/x_grid", 1), ("y_grid_m/x_grid_m", 2)] = some 1 := by decide
example : openAfter (some "y_grid/x_grid") [none] (some "y_grid_m/x_grid_m")
    [("y_grid/x_grid", 1), ("y_grid_m/x_grid_m", 2)] = some 2 := by decide
/-- a later dataset that does not carry the projected grid at all is still described by its own node grid -/
example : openAfter (some "y_grid/x_grid") [some "y_grid_m/x_grid_m"] none [("y_grid/x_grid", 7)] = some 7 := by decide
/-- names the dataset does not have: nothing to look at (`KeyError`) -/
example : openAfter (some "y_grid/x_grid") [] (some "y_grid_m/x_grid_m") [("y_grid/x_grid", 7)] = none := by decide

end Ems.C06
