import EmsModel.Core.Index
import EmsModel.Lemmas.Shape
/-!
# C01 — native and linear indexes form a bijection on every grid

Property theorems only.  Unbounded in rank, shape and index.
-/
namespace Ems.C01

open Ems

theorem natList_ofNat (idx : List Nat) : natList? (idx.map Int.ofNat) = some idx := by
  induction idx with
  | nil => rfl
  | cons x xs ih =>
    have : ¬ ((x : Int) < 0) := by omega
    simp [natList?, ih, this]

theorem natList_some_nonneg : ∀ (l : List Int) (r : List Nat), natList? l = some r →
    l = r.map Int.ofNat
  | [], r, h => by simp [natList?] at h; subst h; rfl
  | x :: xs, r, h => by
    simp only [natList?] at h
    split at h
    · simp at h
    · cases hx : natList? xs with
      | none => simp [hx] at h
      | some r' =>
        simp [hx] at h; subst h
        have := natList_some_nonneg xs r' hx
        simp only [List.map_cons, this]
        congr 1
        show x = ((x.toNat : Nat) : Int)
        omega

/-- Linear → native → linear is the identity for every in-range linear index. -/
theorem ravel_wind (c : Conv) (k : Kind) (shape : List Nat) (hs : c.shape? k = some shape)
    (n : Nat) (hn : n < size shape) :
    ∃ idx, c.windIndex (some k) (n : Int) = some (k, idx)
         ∧ c.ravelIndex (k, idx.map Int.ofNat) = some n := by
  obtain ⟨idx, hidx⟩ := unravel_isSome_of_lt shape n hn
  refine ⟨idx, ?_, ?_⟩
  · have : ¬ ((n : Int) < 0) := by omega
    simp [Conv.windIndex, hs, this, hidx]
  · simp [Conv.ravelIndex, hs, natList_ofNat, ravel_of_unravel shape n idx hidx]

/-- Native → linear → native is the identity for every in-range native index. -/
theorem wind_ravel (c : Conv) (k : Kind) (shape : List Nat) (hs : c.shape? k = some shape)
    (idx : List Nat) (h : InRange shape idx) :
    ∃ n, c.ravelIndex (k, idx.map Int.ofNat) = some n ∧ n < size shape
       ∧ c.windIndex (some k) (n : Int) = some (k, idx) := by
  obtain ⟨n, hn⟩ := inRange_ravel shape idx h
  refine ⟨n, ?_, ravel_lt_size _ _ _ hn, ?_⟩
  · simp [Conv.ravelIndex, hs, natList_ofNat, hn]
  · have : ¬ ((n : Int) < 0) := by omega
    simp [Conv.windIndex, hs, this, unravel_of_ravel shape idx n hn]

/-- A linear index outside `[0, size)` is rejected: never wrapped or clamped. -/
theorem wind_rejects (c : Conv) (k : Kind) (shape : List Nat) (hs : c.shape? k = some shape)
    (n : Int) (h : n < 0 ∨ (size shape : Int) ≤ n) : c.windIndex (some k) n = none := by
  simp only [Conv.windIndex, Option.getD_some, hs]
  split
  · rfl
  · rename_i hneg
    have : size shape ≤ n.toNat := by omega
    simp [unravel_none_of_ge shape n.toNat this]

/-- A native index with a negative component, the wrong rank, or a component
at or beyond its dimension is rejected. -/
theorem ravel_rejects (c : Conv) (k : Kind) (shape : List Nat) (hs : c.shape? k = some shape)
    (idx : List Int)
    (h : ¬ ∃ nat, idx = nat.map Int.ofNat ∧ InRange shape nat) :
    c.ravelIndex (k, idx) = none := by
  simp only [Conv.ravelIndex, hs]
  cases hn : natList? idx with
  | none => rfl
  | some nat =>
    simp only
    apply ravel_none_of_not_inRange
    intro hr
    exact h ⟨nat, natList_some_nonneg idx nat hn, hr⟩

/-- An unknown grid kind is rejected by both conversions. -/
theorem unknown_kind_rejected (c : Conv) (k : Kind) (hs : c.shape? k = none)
    (n : Int) (idx : List Int) :
    c.windIndex (some k) n = none ∧ c.ravelIndex (k, idx) = none := by
  simp [Conv.windIndex, Conv.ravelIndex, hs]

/-- Omitting the grid kind means the default grid kind. -/
theorem default_kind (c : Conv) (n : Int) :
    c.windIndex none n = c.windIndex (some c.default) n := rfl

/-- Whatever `wind_index` returns is an in-range index of the requested kind. -/
theorem wind_inRange (c : Conv) (k : Kind) (shape : List Nat) (hs : c.shape? k = some shape)
    (n : Int) (k' : Kind) (idx : List Nat) (h : c.windIndex (some k) n = some (k', idx)) :
    k' = k ∧ InRange shape idx ∧ 0 ≤ n ∧ n < size shape := by
  simp only [Conv.windIndex, Option.getD_some, hs] at h
  split at h
  · simp at h
  · rename_i hn
    cases hu : unravel shape n.toNat with
    | none => simp [hu] at h
    | some i =>
      simp [hu] at h
      obtain ⟨rfl, rfl⟩ := h
      have h1 := ravel_of_unravel shape _ _ hu
      have h2 := unravel_lt_size shape _ _ hu
      exact ⟨rfl, ravel_inRange shape _ _ h1, by omega, by omega⟩

/-- `grid_size` is exactly the number of distinct addressable locations:
`wind_index` restricted to `[0, size)` is injective … -/
theorem wind_injective (c : Conv) (k : Kind) (shape : List Nat) (hs : c.shape? k = some shape)
    (m n : Nat) (r : Kind × List Nat)
    (hm : c.windIndex (some k) (m : Int) = some r) (hn : c.windIndex (some k) (n : Int) = some r) :
    m = n := by
  have hm0 : ¬ ((m : Int) < 0) := by omega
  have hn0 : ¬ ((n : Int) < 0) := by omega
  simp only [Conv.windIndex, Option.getD_some, hs, hm0, hn0, if_false, Int.toNat_natCast] at hm hn
  cases hum : unravel shape m with
  | none => simp [hum] at hm
  | some im =>
    cases hun : unravel shape n with
    | none => simp [hun] at hn
    | some inn =>
      simp [hum] at hm; simp [hun] at hn
      have e : im = inn := by rw [← hm] at hn; simpa using hn.symm
      subst e
      have a := ravel_of_unravel shape m im hum
      have b := ravel_of_unravel shape n im hun
      rw [a] at b; simpa using b

/-- … and onto the in-range native indexes. -/
theorem wind_surjective (c : Conv) (k : Kind) (shape : List Nat) (hs : c.shape? k = some shape)
    (idx : List Nat) (h : InRange shape idx) :
    ∃ n, n < size shape ∧ c.windIndex (some k) (n : Int) = some (k, idx) := by
  obtain ⟨n, _, h2, h3⟩ := wind_ravel c k shape hs idx h
  exact ⟨n, h2, h3⟩

/-- Linear order is row-major: on a two-dimensional grid `(j, i) ↦ j * nx + i`. -/
theorem ravel_rowmajor_2d (c : Conv) (k : Kind) (ny nx : Nat) (hs : c.shape? k = some [ny, nx])
    (j i : Nat) (hj : j < ny) (hi : i < nx) :
    c.ravelIndex (k, [(j : Int), (i : Int)]) = some (j * nx + i) := by
  have : natList? [(j : Int), (i : Int)] = some [j, i] := natList_ofNat [j, i]
  simp [Conv.ravelIndex, hs, this, ravel_2d ny nx j i hj hi]

/-- On a one-dimensional grid (UGRID) the linear index is the component itself. -/
theorem ravel_1d (c : Conv) (k : Kind) (n : Nat) (hs : c.shape? k = some [n])
    (i : Nat) (hi : i < n) : c.ravelIndex (k, [(i : Int)]) = some i := by
  have : natList? [(i : Int)] = some [i] := natList_ofNat [i]
  simp [Conv.ravelIndex, hs, this, Ems.ravel_1d n i hi]

/-- Linear order is row-major in every rank: native indexes compare
lexicographically exactly as their linear indexes compare. -/
theorem ravel_rowmajor (c : Conv) (k : Kind) (shape : List Nat) (hs : c.shape? k = some shape)
    (a b : List Nat) (m n : Nat)
    (ha : c.ravelIndex (k, a.map Int.ofNat) = some m)
    (hb : c.ravelIndex (k, b.map Int.ofNat) = some n) :
    LexLt a b ↔ m < n := by
  simp only [Conv.ravelIndex, hs, natList_ofNat] at ha hb
  exact ravel_lex shape a b m n ha hb

/-! Non-vacuity: a concrete SHOC-standard-like convention meets the hypotheses. -/
def exampleConv : Conv :=
  { grids := [("face", [3, 5]), ("left", [3, 6]), ("back", [4, 5]), ("node", [4, 6])],
    default := "face" }

example : exampleConv.shape? "left" = some [3, 6] := by decide
example : exampleConv.windIndex (some "left") 17 = some ("left", [2, 5]) := by decide
example : exampleConv.ravelIndex ("left", [2, 5]) = some 17 := by decide
example : exampleConv.windIndex (some "left") 18 = none := by decide
example : exampleConv.windIndex none (-1) = none := by decide
example : exampleConv.ravelIndex ("face", [0, 5]) = none := by decide
example : exampleConv.ravelIndex ("face", [-1, 0]) = none := by decide

end Ems.C01
