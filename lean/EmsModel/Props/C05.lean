import EmsModel.Lemmas.Select
import EmsModel.Props.C04
/-!
# C05 — index and point selection return the stored values, complete and in order
-/
namespace Ems.C05
open Ems Ems.NArr

variable {α : Type}

/-! ### which variables are kept -/

/-- Kept variables are exactly the non-geometry variables having at least one dimension of
the selected grid kind — nothing else — in their original order. -/
theorem select_vars (ds : DSet α) (geometry gdNames : List String) (v : String × NArr α) :
    v ∈ keptVars ds geometry gdNames ↔
      v ∈ ds ∧ v.1 ∉ geometry ∧ ∃ d ∈ v.2.names, d ∈ gdNames := by
  simp only [keptVars, List.mem_filter, Bool.and_eq_true, Bool.not_eq_true', List.any_eq_true,
    List.contains_iff_mem]
  constructor
  · rintro ⟨h1, h2, h3⟩
    refine ⟨h1, ?_, h3⟩
    intro hm
    have := List.contains_iff_mem.mpr hm
    rw [h2] at this; simp at this
  · rintro ⟨h1, h2, h3⟩
    refine ⟨h1, ?_, h3⟩
    cases hc : geometry.contains v.1 with
    | false => rfl
    | true => exact absurd (List.contains_iff_mem.mp hc) h2

theorem select_vars_order (ds : DSet α) (geometry gdNames : List String) :
    (keptVars ds geometry gdNames).Sublist ds := List.filter_sublist

/-! ### the values -/

theorem filter_names (dims : List Dim) (p : String → Bool) :
    (dims.filter (fun d => p d.1)).map (·.1) = (dims.map (·.1)).filter p := by
  induction dims with
  | nil => rfl
  | cons x xs ih =>
    simp only [List.filter_cons, List.map_cons]
    split <;> simp [ih]

/-- **One entry per request, in request order, repeats allowed, every other dimension
intact**: entry `k` of the new dimension, read at any assignment `e` of the remaining
dimensions, is the value stored at request `k` (bit for bit, missing values included). -/
theorem select_values [Inhabited α] (a : NArr α) (gdNames : List String) (reqs : List (List Nat))
    (idim : String) (hwf : a.WF) (hfresh : idim ∉ a.names)
    (e : Env) (v : String → Nat) (k : Nat) (req : List Nat)
    (hk : reqs[k]? = some req) (hlen : req.length = gdNames.length) (hek : e.get idim = some k)
    (hv : ∀ d ∈ a.dims.filter (fun d => !gdNames.contains d.1), e.get d.1 = some (v d.1) ∧ v d.1 < d.2)
    (hsome : ∃ x, a.get? (gdNames.zip req ++ e) = some x) :
    (a.selectVar gdNames reqs idim).get? e = a.get? (gdNames.zip req ++ e) := by
  let others := a.dims.filter (fun d => !gdNames.contains d.1)
  let v' : String → Nat := fun d => if d = idim then k else v d
  have hklt : k < reqs.length := (List.getElem?_eq_some_iff.mp hk).1
  have hothers_names : ∀ d ∈ others, d.1 ≠ idim := by
    intro d hd heq
    apply hfresh
    rw [← heq]
    exact List.mem_map_of_mem (List.mem_filter.mp hd).1
  have hn : (((idim, reqs.length) :: others).map (·.1)).Nodup := by
    simp only [List.map_cons, List.nodup_cons]
    refine ⟨?_, ?_⟩
    · intro hm
      obtain ⟨d, hd, hde⟩ := List.mem_map.mp hm
      exact hothers_names d hd hde
    · have := filter_names a.dims (fun d => !gdNames.contains d)
      show (others.map (·.1)).Nodup
      simp only [others]
      rw [this]; exact hwf.2.filter _
  have hv' : ∀ d ∈ (idim, reqs.length) :: others, e.get d.1 = some (v' d.1) ∧ v' d.1 < d.2 := by
    intro d hd
    rcases List.mem_cons.mp hd with rfl | hd
    · simp [v', hek, hklt]
    · have := hothers_names d hd
      simp only [v', this, if_false]
      exact hv d hd
  have hidx : e.index (((idim, reqs.length) :: others).map (·.1)) = some ((((idim, reqs.length) :: others).map (·.1)).map v') :=
    index_of_fun e v' _ (by
      intro d hd
      obtain ⟨d', hd', rfl⟩ := List.mem_map.mp hd
      exact (hv' d' hd').1)
  have hr := inRange_map v' ((idim, reqs.length) :: others) (fun d hd => (hv' d hd).2)
  unfold selectVar
  rw [get_ofFn _ _ e _ hidx hr]
  -- the canonical environment
  let ce : Env := (((idim, reqs.length) :: others).map (·.1)).zip ((((idim, reqs.length) :: others).map (·.1)).map v')
  have hce_idim : ce.get idim = some k := by
    have h := lookup_zip_map v' _ hn idim (by simp)
    have hv'k : v' idim = k := by simp [v']
    rw [hv'k] at h
    exact h
  have hce_other : ∀ d ∈ others, ce.get d.1 = e.get d.1 := by
    intro d hd
    have h1 := lookup_zip_map v' _ hn d.1 (by simp [List.mem_map_of_mem hd])
    have h2 := (hv' d (by simp [hd])).1
    simp only [Env.get, ce] at *
    rw [h1, h2]
  have hcong : a.get? (gdNames.zip req ++ ce) = a.get? (gdNames.zip req ++ e) := by
    apply get_congr
    intro d hd
    simp only [Env.get]
    cases hz : List.lookup d (gdNames.zip req) with
    | some x => rw [lookup_append_left_some _ _ _ x hz, lookup_append_left_some _ _ _ x hz]
    | none =>
      rw [lookup_append_left_none _ _ _ hz, lookup_append_left_none _ _ _ hz]
      -- d is a dimension of `a`; either a kept one, or a grid dimension that the (short) request lacks
      obtain ⟨d', hd', rfl⟩ := List.mem_map.mp hd
      by_cases hg : gdNames.contains d'.1 = true
      · -- a grid dimension is always assigned by the request (it has the rank of the kind)
        obtain ⟨x, hx⟩ := lookup_zip_of_mem gdNames req hlen.symm d'.1 (List.contains_iff_mem.mp hg)
        rw [hx] at hz; simp at hz
      · have hdo : d' ∈ others := by
          simp only [others, List.mem_filter]
          exact ⟨hd', by simpa using hg⟩
        exact hce_other d' hdo
  obtain ⟨x, hx⟩ := hsome
  simp only [ce] at hce_idim
  simp only [hce_idim, hk]
  rw [hcong, hx]; rfl

/-! ### refusals -/

theorem empty_refused [Inhabited α] (grids : List (String × List Dim)) (ds : DSet α) (geometry : List String)
    (idim : String) : selectIndexes grids ds geometry [] idim = none := rfl

/-- indexes of different grid kinds are refused -/
theorem mixed_kinds_refused [Inhabited α] (grids : List (String × List Dim)) (ds : DSet α)
    (geometry : List String) (idim : String) (k : String) (c : List Nat) (rest : List (String × List Nat))
    (i : String × List Nat) (hi : i ∈ rest) (hne : i.1 ≠ k) :
    selectIndexes grids ds geometry ((k, c) :: rest) idim = none := by
  have : ((k, c) :: rest).any (fun j => j.1 != k) = true := by
    rw [List.any_eq_true]
    exact ⟨i, by simp [hi], by simp [hne]⟩
  simp [selectIndexes, this]

/-- an index with a component outside its dimension (or the wrong rank) is refused -/
theorem out_of_range_refused [Inhabited α] (grids : List (String × List Dim)) (ds : DSet α)
    (geometry : List String) (idim : String) (k : String) (c : List Nat) (rest : List (String × List Nat))
    (gd : List Dim) (hg : (grids.find? (fun g => g.1 == k)).map (·.2) = some gd)
    (i : String × List Nat) (hi : i ∈ (k, c) :: rest) (hbad : ¬ InRange (gd.map (·.2)) i.2) :
    selectIndexes grids ds geometry ((k, c) :: rest) idim = none := by
  simp only [selectIndexes, hg]
  split
  · rfl
  · have : ((k, c) :: rest).any (fun i => !decide (InRange (gd.map (·.2)) i.2)) = true := by
      rw [List.any_eq_true]
      exact ⟨i, hi, by simp [hbad]⟩
    rw [if_pos this]

/-- a grid on which no (non-geometry) variable is defined cannot be selected: refused -/
theorem no_variable_refused [Inhabited α] (grids : List (String × List Dim)) (ds : DSet α)
    (geometry : List String) (idim : String) (indexes : List (String × List Nat)) (k : String) (c : List Nat)
    (rest : List (String × List Nat)) (hidx : indexes = (k, c) :: rest)
    (gd : List Dim) (hg : (grids.find? (fun g => g.1 == k)).map (·.2) = some gd)
    (d : String) (hd : d ∈ gd.map (·.1))
    (hnone : ∀ v ∈ keptVars ds geometry (gd.map (·.1)), d ∉ v.2.names) :
    selectIndexes grids ds geometry indexes idim = none := by
  subst hidx
  simp only [selectIndexes, hg]
  split
  · rfl
  · split
    · rfl
    · have : (gd.map (·.1)).any (fun d => !(keptVars ds geometry (gd.map (·.1))).any (fun v => v.2.names.contains d)) = true := by
        rw [List.any_eq_true]
        refine ⟨d, hd, ?_⟩
        simp only [Bool.not_eq_true', List.any_eq_false, List.contains_iff_mem]
        intro v hv; simpa using hnone v hv
      rw [if_pos this]

/-- what a successful selection returns: the kept variables, in order, each selected at the
requested indexes in request order -/
theorem select_result [Inhabited α] (grids : List (String × List Dim)) (ds out : DSet α)
    (geometry : List String) (idim : String) (indexes : List (String × List Nat))
    (h : selectIndexes grids ds geometry indexes idim = some out) :
    ∃ k gd, (grids.find? (fun g => g.1 == k)).map (·.2) = some gd ∧ (∀ i ∈ indexes, i.1 = k) ∧
      out = (keptVars ds geometry (gd.map (·.1))).map fun v =>
        (v.1, v.2.selectVar (gd.map (·.1)) (indexes.map (·.2)) idim) := by
  cases indexes with
  | nil => simp [selectIndexes] at h
  | cons i0 rest =>
    obtain ⟨k, c⟩ := i0
    simp only [selectIndexes] at h
    split at h
    · simp at h
    · rename_i hmix
      cases hg : (grids.find? (fun g => g.1 == k)).map (·.2) with
      | none => simp [hg] at h
      | some gd =>
        simp only [hg] at h
        split at h
        · simp at h
        · split at h
          · simp at h
          · refine ⟨k, gd, hg, ?_, by simpa using h.symm⟩
            intro i hi
            have := hmix
            simp only [Bool.not_eq_true, List.any_eq_false] at this
            have := this i hi
            simpa using this

/-! ### missing-point policies -/

/-- positions reported by the `error` policy are exactly the points that miss the model -/
theorem policy_error [Inhabited α] (grids : List (String × List Dim)) (ds : DSet α) (geometry : List String)
    (hits : List (Option (String × List Nat))) (pdim : String) :
    (∀ m, extractPoints grids ds geometry hits pdim "error" = .error m →
      m ≠ [] ∧ ∀ (i : Nat), i ∈ m ↔ hits[i]? = some none) ∧
    ((∃ (i : Nat), hits[i]? = some none) → ∃ m, extractPoints grids ds geometry hits pdim "error" = .error m) := by
  have hmem : ∀ (i : Nat), i ∈ (List.range hits.length).filter (fun i => (hits[i]?).join.isNone) ↔ hits[i]? = some none := by
    intro i
    simp only [List.mem_filter, List.mem_range]
    constructor
    · rintro ⟨hlt, h⟩
      rw [List.getElem?_eq_getElem hlt] at h ⊢
      cases hh : hits[i] with
      | none => rfl
      | some x => simp [hh] at h
    · intro h
      exact ⟨(List.getElem?_eq_some_iff.mp h).1, by simp [h]⟩
  constructor
  · intro m hm
    simp only [extractPoints] at hm
    split at hm
    · rename_i hc
      simp only [Extract.error.injEq] at hm
      subst hm
      refine ⟨?_, hmem⟩
      intro he
      simp [he] at hc
    · split at hm <;> simp at hm
  · rintro ⟨i, hi⟩
    have : ¬ ((List.range hits.length).filter (fun i => (hits[i]?).join.isNone)).isEmpty = true := by
      intro he
      have := (hmem i).mpr hi
      rw [List.isEmpty_iff.mp he] at this
      simp at this
    refine ⟨(List.range hits.length).filter (fun i => (hits[i]?).join.isNone), ?_⟩
    simp only [extractPoints]
    rw [if_pos]
    simp [this]

/-- `drop` keeps exactly the points that hit, in order, labelled with their original
positions (one label per row, increasing). -/
theorem policy_drop [Inhabited α] (grids : List (String × List Dim)) (ds : DSet α) (geometry : List String)
    (hits : List (Option (String × List Nat))) (pdim : String) (labels : List Nat) (out : DSet α)
    (h : extractPoints grids ds geometry hits pdim "drop" = .ok labels out) :
    selectIndexes grids ds geometry (hits.filterMap id) pdim = some out ∧
    labels = (List.range hits.length).filter (fun i => (hits[i]?).join.isSome) ∧
    (∀ (i : Nat), i ∈ labels ↔ ∃ x, hits[i]? = some (some x)) ∧
    labels.Pairwise (· < ·) := by
  simp only [extractPoints, show (("drop" : String) == "error") = false by decide, Bool.false_and,
    Bool.false_eq_true, if_false] at h
  cases hs : selectIndexes grids ds geometry (hits.filterMap id) pdim with
  | none => simp [hs] at h
  | some d =>
    simp only [hs, Extract.ok.injEq] at h
    obtain ⟨rfl, rfl⟩ := h
    refine ⟨rfl, rfl, ?_, ?_⟩
    · intro i
      simp only [List.mem_filter, List.mem_range]
      constructor
      · rintro ⟨hlt, hx⟩
        rw [List.getElem?_eq_getElem hlt] at hx ⊢
        cases hh : hits[i] with
        | none => simp [hh] at hx
        | some x => exact ⟨x, rfl⟩
      · rintro ⟨x, hx⟩
        exact ⟨(List.getElem?_eq_some_iff.mp hx).1, by simp [hx]⟩
    · exact List.Pairwise.filter _ (List.pairwise_lt_range)

/-- `fill`: every request gets a row; a hit's row is its selected row, a miss's row holds
missing values only. -/
theorem policy_fill (n : Nat) (labels : List Nat) (rows : List (List (Option α))) (i : Nat) (hi : i < n) :
    (fillRows n labels rows)[i]? =
      some (match labels.idxOf? i with
        | some k => rows.getD k []
        | none => (rows.headD []).map fun _ => none) := by
  simp [fillRows, hi]
  rfl

theorem policy_fill_length (n : Nat) (labels : List Nat) (rows : List (List (Option α))) :
    (fillRows n labels rows).length = n := by simp [fillRows]


/-! ### end to end: selecting by points (composition with C04)

`select_points` / `extract_points` first look every point up (`Convention.get_index_for_point`, C04) and
then select the native indexes found (`select_indexes`, above).  Composed: whatever `intersects` is and in
whatever order the spatial index reports its hits, a point is a *miss* iff no cell polygon intersects it,
and the index selected for a *hit* is the native index of the lowest-indexed intersecting cell — so, by
`select_values`, its row holds the values stored at exactly that cell. -/

/-- the lookup of every requested point: `none` = the point misses the model -/
def lookupPoints (intersects : Poly → Pt → Bool) (c : Conv) (polys : List (Option Poly)) (pts : List Pt) :
    List (Option (String × List Nat)) :=
  pts.map fun pt => (getIndexForPoint c polys (hitSet intersects polys pt)).bind (·.native)

/-- no cell polygon intersects the point -/
def Misses (intersects : Poly → Pt → Bool) (polys : List (Option Poly)) (pt : Pt) : Prop :=
  ∀ (n : Nat) (p : Poly), polys[n]? = some (some p) → intersects p pt = false

theorem lookupPoints_spec (intersects : Poly → Pt → Bool) (c : Conv) (polys : List (Option Poly))
    (pts : List Pt) (shape : List Nat) (hs : c.shape? c.default = some shape)
    (hsize : polys.length = size shape) (i : Nat) (hi : i < pts.length) :
    ((lookupPoints intersects c polys pts)[i]? = some none ↔ Misses intersects polys pts[i]) ∧
    (∀ x, (lookupPoints intersects c polys pts)[i]? = some (some x) →
      ∃ n idx, x = (c.default, idx) ∧ c.ravelIndex (c.default, idx.map Int.ofNat) = some n ∧
        (∃ p, polys[n]? = some (some p) ∧ intersects p pts[i] = true) ∧
        ∀ (m : Nat) (p : Poly), polys[m]? = some (some p) → intersects p pts[i] = true → n ≤ m) := by
  have hget : (lookupPoints intersects c polys pts)[i]? =
      some ((getIndexForPoint c polys (hitSet intersects polys pts[i])).bind (·.native)) := by
    simp [lookupPoints, hi]
  have hperm : (hitSet intersects polys pts[i]).Perm (hitSet intersects polys pts[i]) := List.Perm.refl _
  constructor
  · rw [hget, Option.some.injEq]
    constructor
    · intro h
      cases hl : getIndexForPoint c polys (hitSet intersects polys pts[i]) with
      | none => exact (C04.lookup_none_iff intersects c polys pts[i] _ hperm).mp hl
      | some item =>
        obtain ⟨_, idx, hn, _⟩ := C04.lookup_coherent intersects c polys pts[i] _ hperm item hl shape hs hsize
        simp [hl, hn] at h
    · intro h
      rw [(C04.lookup_none_iff intersects c polys pts[i] _ hperm).mpr h]; rfl
  · intro x hx
    rw [hget, Option.some.injEq] at hx
    cases hl : getIndexForPoint c polys (hitSet intersects polys pts[i]) with
    | none => simp [hl] at hx
    | some item =>
      obtain ⟨_, idx, hn, hr⟩ := C04.lookup_coherent intersects c polys pts[i] _ hperm item hl shape hs hsize
      obtain ⟨hex, hle⟩ := C04.lookup_least intersects c polys pts[i] _ hperm item hl
      simp only [hl, Option.bind_some, hn, Option.some.injEq] at hx
      exact ⟨item.linear, idx, hx.symm, hr, hex, hle⟩

/-- **`missing_points='error'`, end to end**: the call raises iff some requested point intersects no
cell, and the positions it names are exactly those points. -/
theorem points_error_end_to_end [Inhabited α] (intersects : Poly → Pt → Bool) (c : Conv)
    (polys : List (Option Poly)) (pts : List Pt) (shape : List Nat) (hs : c.shape? c.default = some shape)
    (hsize : polys.length = size shape)
    (grids : List (String × List Dim)) (ds : DSet α) (geometry : List String) (pdim : String) :
    (∀ m, extractPoints grids ds geometry (lookupPoints intersects c polys pts) pdim "error" = .error m →
      ∀ (i : Nat), i ∈ m ↔ ∃ (hi : i < pts.length), Misses intersects polys pts[i]) ∧
    ((∃ (i : Nat) (hi : i < pts.length), Misses intersects polys pts[i]) →
      ∃ m, extractPoints grids ds geometry (lookupPoints intersects c polys pts) pdim "error" = .error m) := by
  obtain ⟨h1, h2⟩ := policy_error grids ds geometry (lookupPoints intersects c polys pts) pdim
  have hlen : (lookupPoints intersects c polys pts).length = pts.length := by simp [lookupPoints]
  constructor
  · intro m hm i
    rw [(h1 m hm).2 i]
    constructor
    · intro h
      have hi : i < pts.length := by rw [← hlen]; exact (List.getElem?_eq_some_iff.mp h).1
      exact ⟨hi, (lookupPoints_spec intersects c polys pts shape hs hsize i hi).1.mp h⟩
    · rintro ⟨hi, h⟩
      exact (lookupPoints_spec intersects c polys pts shape hs hsize i hi).1.mpr h
  · rintro ⟨i, hi, h⟩
    exact h2 ⟨i, (lookupPoints_spec intersects c polys pts shape hs hsize i hi).1.mpr h⟩

/-- **`missing_points='drop'`, end to end**: the rows kept are exactly the requested points some cell
intersects, labelled with their original positions in increasing order, and what is selected for them
are the native indexes of the lowest-indexed intersecting cells. -/
theorem points_drop_end_to_end [Inhabited α] (intersects : Poly → Pt → Bool) (c : Conv)
    (polys : List (Option Poly)) (pts : List Pt) (shape : List Nat) (hs : c.shape? c.default = some shape)
    (hsize : polys.length = size shape)
    (grids : List (String × List Dim)) (ds : DSet α) (geometry : List String) (pdim : String)
    (labels : List Nat) (out : DSet α)
    (h : extractPoints grids ds geometry (lookupPoints intersects c polys pts) pdim "drop" = .ok labels out) :
    (∀ (i : Nat), i ∈ labels ↔ ∃ (hi : i < pts.length), ¬ Misses intersects polys pts[i]) ∧
    labels.Pairwise (· < ·) ∧
    selectIndexes grids ds geometry ((lookupPoints intersects c polys pts).filterMap id) pdim = some out ∧
    (∀ x ∈ (lookupPoints intersects c polys pts).filterMap id, ∃ (i : Nat) (hi : i < pts.length) (n : Nat) (idx : List Nat),
      x = (c.default, idx) ∧ c.ravelIndex (c.default, idx.map Int.ofNat) = some n ∧
      (∃ p, polys[n]? = some (some p) ∧ intersects p pts[i] = true) ∧
      ∀ (m : Nat) (p : Poly), polys[m]? = some (some p) → intersects p pts[i] = true → n ≤ m) := by
  obtain ⟨hsel, _, hmem, hsorted⟩ := policy_drop grids ds geometry _ pdim labels out h
  have hlen : (lookupPoints intersects c polys pts).length = pts.length := by simp [lookupPoints]
  refine ⟨?_, hsorted, hsel, ?_⟩
  · intro i
    rw [hmem i]
    constructor
    · rintro ⟨x, hx⟩
      have hi : i < pts.length := by rw [← hlen]; exact (List.getElem?_eq_some_iff.mp hx).1
      refine ⟨hi, fun hmiss => ?_⟩
      have := (lookupPoints_spec intersects c polys pts shape hs hsize i hi).1.mpr hmiss
      rw [hx] at this; simp at this
    · rintro ⟨hi, hnot⟩
      have hlt : i < (lookupPoints intersects c polys pts).length := by rw [hlen]; exact hi
      cases hx : (lookupPoints intersects c polys pts)[i]? with
      | none => rw [List.getElem?_eq_getElem hlt] at hx; simp at hx
      | some o =>
        cases o with
        | none => exact absurd ((lookupPoints_spec intersects c polys pts shape hs hsize i hi).1.mp hx) hnot
        | some x => exact ⟨x, rfl⟩
  · intro x hx
    rw [List.mem_filterMap] at hx
    obtain ⟨o, ho, hox⟩ := hx
    simp only [id] at hox
    subst hox
    obtain ⟨i, hlt, hi⟩ := List.getElem_of_mem ho
    have hip : i < pts.length := by rw [← hlen]; exact hlt
    have hget : (lookupPoints intersects c polys pts)[i]? = some (some x) := by
      rw [List.getElem?_eq_getElem hlt, hi]
    obtain ⟨n, idx, h1, h2, h3, h4⟩ := (lookupPoints_spec intersects c polys pts shape hs hsize i hip).2 x hget
    exact ⟨i, hip, n, idx, h1, h2, h3, h4⟩

/-! ### non-vacuity -/
def exV : NArr (Option Int) := { dims := [("y", 2), ("t", 2), ("x", 3)], data := [some 0, some 1, some 2, some 3, some 4, some 5, some 6, some 7, some 8, some 9, some 10, none] }
example : (exV.selectVar ["y", "x"] [[1, 1], [0, 2], [1, 1]] "index").get? [("index", 2), ("t", 1)] = some (some 10) := by decide +kernel
example : (selectIndexes [("face", [("y", 2), ("x", 3)])] [("v", exV), ("w", { dims := [("t", 2)], data := [some 1, some 2] })]
    [] [("face", [1, 2]), ("face", [0, 0])] "index").map (·.map (·.1)) = some ["v"] := by decide +kernel
example : ∃ m, extractPoints [("face", [("y", 2), ("x", 3)])] [("v", exV)] [] [some ("face", [1, 1]), none] "point" "error"
    = (.error m : Extract (Option Int)) :=
  (policy_error _ _ _ _ _).2 ⟨1, rfl⟩

/-! non-vacuity of the composition: the point (2,1) lies on the edge shared by cells 0 and 1 and is looked up
as cell 0 (the least of its hits), the point (5,1) misses, so `lookupPoints … [(2,1),(5,1)]` has one hit and one miss -/
example : C04.exConv.shape? C04.exConv.default = some [1, 3] ∧ C04.exPolys.length = size [1, 3] := by decide
example : hitSet (fun p q => pointInPoly q p) C04.exPolys (2, 1) = [0, 1] := by decide +kernel
example : Misses (fun p q => pointInPoly q p) C04.exPolys (5, 1) := by
  intro n p hp
  have hn : n < 3 := (List.getElem?_eq_some_iff.mp hp).1
  have : n = 0 ∨ n = 1 ∨ n = 2 := by omega
  rcases this with rfl | rfl | rfl <;> simp [C04.exPolys] at hp <;> subst hp <;> decide +kernel

end Ems.C05
