import EmsModel.Props.C08
import EmsModel.Core.CGridClip
/-!
# C08 on the edge and node grids of an Arakawa C dataset (sixth round)

`C08.clip_end_to_end` composes C07's face mask with C08's masking for a *face* variable.  The property says the same
of edge and node variables "with respect to the selected edges and nodes": an edge is selected when a face beside it
is selected, a node when one of the faces round it is.  Here that is composed for the three other masks
`ArakawaC.make_clip_mask` computes (`Clip.arakawaClipMask`): after masking, the value at an element of the left / back
/ node grid survives **iff** the element belongs to a selected face; every other element holds a missing value - for
every `intersects`, hit order, buffer, rank and dimension order of the variable.

`edge_between_selected_nodes_not_selected` records that deriving the edges from the *nodes* ("an edge whose two ends are
selected") is a different, larger selection as soon as the selected faces leave a gap one cell wide.
-/
namespace Ems.C08
open Ems Ems.NArr Ems.Clip

variable {α : Type}

/-- masking with a two-dimensional mask held as a mask variable: the value at an environment survives iff the mask
marks the grid position the environment points at -/
theorem mask_var_where_get [Inhabited α] (m : Clip.Mask) (ydim xdim : String) (hne : ydim ≠ xdim)
    (a : NArr (Option α)) (hwf : a.WF) (hy : (ydim, m.ny) ∈ a.dims) (hx : (xdim, m.nx) ∈ a.dims)
    (e : Env) (v : String → Nat) (hv : ∀ d ∈ a.dims, e.get d.1 = some (v d.1) ∧ v d.1 < d.2) :
    (a.whereMask (faceMaskVar ydim xdim m)).get? e =
      if m.get (v ydim) (v xdim) then a.get? e else some none := by
  have hjy := hv _ hy
  have hix := hv _ hx
  have hmask := faceMaskVar_get ydim xdim hne m e (v ydim) (v xdim) hjy.1 hix.1 hjy.2 hix.2
  have hsub : ∀ d ∈ (faceMaskVar ydim xdim m).names, d ∈ a.names := by
    intro d hd
    rw [faceMaskVar_names] at hd
    simp only [List.mem_cons, List.not_mem_nil, or_false] at hd
    rcases hd with rfl | rfl
    · exact List.mem_map.mpr ⟨_, hy, rfl⟩
    · exact List.mem_map.mpr ⟨_, hx, rfl⟩
  exact where_get a _ e v hwf hv hsub _ hmask

/-- … hence, for any statement `P` of which positions the mask marks: kept where `P`, missing elsewhere -/
theorem mask_var_clip_of_spec [Inhabited α] (m : Clip.Mask) (P : Nat → Nat → Prop)
    (hm : ∀ j i, m.get j i = true ↔ P j i) (ydim xdim : String) (hne : ydim ≠ xdim)
    (a : NArr (Option α)) (hwf : a.WF) (hy : (ydim, m.ny) ∈ a.dims) (hx : (xdim, m.nx) ∈ a.dims)
    (e : Env) (v : String → Nat) (hv : ∀ d ∈ a.dims, e.get d.1 = some (v d.1) ∧ v d.1 < d.2) :
    let out := (a.whereMask (faceMaskVar ydim xdim m)).get? e
    (P (v ydim) (v xdim) → out = a.get? e) ∧ (¬ P (v ydim) (v xdim) → out = some none) := by
  intro out
  have h := mask_var_where_get m ydim xdim hne a hwf hy hx e v hv
  constructor
  · intro hp
    show (a.whereMask _).get? e = _
    rw [h, (hm _ _).mpr hp]; rfl
  · intro hp
    have : m.get (v ydim) (v xdim) = false := by
      cases hg : m.get (v ydim) (v xdim) with
      | false => rfl
      | true => exact absurd ((hm _ _).mp hg) hp
    show (a.whereMask _).get? e = _
    rw [h, this]; rfl

/-- face `(j, i)` of the `ny × nx` grid is selected: a cell of the grid within `b` rings of an intersecting cell -/
def FaceSelected {Poly Geom : Type} (intersects : Poly → Geom → Bool) (polys : List (Option Poly)) (g : Geom)
    (ny nx b j i : Nat) : Prop :=
  j < ny ∧ i < nx ∧ Selected intersects polys g ny nx b j i

/-- element `(j, i)` of an edge or node grid is selected: it is one of the elements `elemsOf j' i'` of a selected face -/
def ElemSelected (faceSel : Nat → Nat → Prop) (elemsOf : Nat → Nat → List (Nat × Nat)) (j i : Nat) : Prop :=
  ∃ j' i', faceSel j' i' ∧ (j, i) ∈ elemsOf j' i'

/-- the face mask of `make_clip_mask` marks exactly the selected faces -/
theorem face_mask_selected {Poly Geom : Type} (intersects : Poly → Geom → Bool)
    (polys : List (Option Poly)) (g : Geom) (ny nx : Nat) (hits : List Nat)
    (hhits : ∀ n, n ∈ hits ↔ ∃ p, polys[n]? = some (some p) ∧ intersects p g = true) (buffer : Int) (j i : Nat) :
    (Clip.gridClipMask ny nx hits buffer).get j i = true ↔
      FaceSelected intersects polys g ny nx buffer.toNat j i := by
  have hspec := Clip.get_gridClipMask ny nx hits buffer j i
  simp only [hhits] at hspec
  exact hspec

/-- **edge and node variables of an Arakawa C dataset, end to end**: after masking with the left / back / node mask
computed from the clip geometry, the value at an element survives iff the element belongs to a selected face -
a left edge `(j, i)` to face `(j, i - 1)` or `(j, i)`, a back edge to face `(j - 1, i)` or `(j, i)`, a node to one of the
four faces round it - and is missing otherwise. -/
theorem arakawa_edge_node_clip_end_to_end [Inhabited α] {Poly Geom : Type} (intersects : Poly → Geom → Bool)
    (polys : List (Option Poly)) (g : Geom) (ny nx : Nat) (hits : List Nat)
    (hhits : ∀ n, n ∈ hits ↔ ∃ p, polys[n]? = some (some p) ∧ intersects p g = true)
    (buffer : Int) (ydim xdim : String) (hne : ydim ≠ xdim)
    (a : NArr (Option α)) (hwf : a.WF)
    (e : Env) (v : String → Nat) (hv : ∀ d ∈ a.dims, e.get d.1 = some (v d.1) ∧ v d.1 < d.2) :
    let c := Clip.arakawaClipMask ny nx hits buffer
    let sel := FaceSelected intersects polys g ny nx buffer.toNat
    ((ydim, ny) ∈ a.dims → (xdim, nx + 1) ∈ a.dims →
      let out := (a.whereMask (faceMaskVar ydim xdim c.left)).get? e
      (ElemSelected sel C07.leftEdgesOf (v ydim) (v xdim) → out = a.get? e) ∧
      (¬ ElemSelected sel C07.leftEdgesOf (v ydim) (v xdim) → out = some none)) ∧
    ((ydim, ny + 1) ∈ a.dims → (xdim, nx) ∈ a.dims →
      let out := (a.whereMask (faceMaskVar ydim xdim c.back)).get? e
      (ElemSelected sel C07.backEdgesOf (v ydim) (v xdim) → out = a.get? e) ∧
      (¬ ElemSelected sel C07.backEdgesOf (v ydim) (v xdim) → out = some none)) ∧
    ((ydim, ny + 1) ∈ a.dims → (xdim, nx + 1) ∈ a.dims →
      let out := (a.whereMask (faceMaskVar ydim xdim c.node)).get? e
      (ElemSelected sel C07.nodesOf (v ydim) (v xdim) → out = a.get? e) ∧
      (¬ ElemSelected sel C07.nodesOf (v ydim) (v xdim) → out = some none)) := by
  intro c sel
  have hface := face_mask_selected intersects polys g ny nx hits hhits buffer
  obtain ⟨_, hl, hb, hn⟩ := C07.arakawa_mask_spec ny nx hits buffer
  obtain ⟨_, ⟨hlny, hlnx⟩, ⟨hbny, hbnx⟩, ⟨hnny, hnnx⟩⟩ := C07.cmask_shapes (Clip.gridClipMask ny nx hits buffer)
  rw [gridClipMask_ny] at hlny hbny hnny
  rw [gridClipMask_nx] at hlnx hbnx hnnx
  have lift : ∀ (elemsOf : Nat → Nat → List (Nat × Nat)) (m : Clip.Mask),
      (∀ j i, m.get j i = true ↔ ∃ j' i', (Clip.gridClipMask ny nx hits buffer).get j' i' = true ∧ (j, i) ∈ elemsOf j' i') →
      ∀ j i, m.get j i = true ↔ ElemSelected sel elemsOf j i := by
    intro elemsOf m hm j i
    rw [hm]
    constructor
    · rintro ⟨j', i', hf, hmem⟩
      exact ⟨j', i', (hface j' i').mp hf, hmem⟩
    · rintro ⟨j', i', hf, hmem⟩
      exact ⟨j', i', (hface j' i').mpr hf, hmem⟩
  refine ⟨?_, ?_, ?_⟩
  · intro hy hx
    exact mask_var_clip_of_spec c.left _ (lift _ _ hl) ydim xdim hne a hwf
      (by show (ydim, c.left.ny) ∈ a.dims; rw [show c.left.ny = ny from hlny]; exact hy)
      (by show (xdim, c.left.nx) ∈ a.dims; rw [show c.left.nx = nx + 1 from hlnx]; exact hx) e v hv
  · intro hy hx
    exact mask_var_clip_of_spec c.back _ (lift _ _ hb) ydim xdim hne a hwf
      (by show (ydim, c.back.ny) ∈ a.dims; rw [show c.back.ny = ny + 1 from hbny]; exact hy)
      (by show (xdim, c.back.nx) ∈ a.dims; rw [show c.back.nx = nx from hbnx]; exact hx) e v hv
  · intro hy hx
    exact mask_var_clip_of_spec c.node _ (lift _ _ hn) ydim xdim hne a hwf
      (by show (ydim, c.node.ny) ∈ a.dims; rw [show c.node.ny = ny + 1 from hnny]; exact hy)
      (by show (xdim, c.node.nx) ∈ a.dims; rw [show c.node.nx = nx + 1 from hnnx]; exact hx) e v hv

/-- "an edge is selected when the nodes at both of its ends are" is NOT the property's selection: on a 3 × 1 grid
with faces 0 and 2 selected, both ends of the left edge `(1, 0)` are selected nodes, yet no selected face has that
edge - the face between them is the one-cell gap. -/
theorem edge_between_selected_nodes_not_selected :
    let c := Clip.cMaskFromCentres (Clip.Mask.reshape 3 1 [true, false, true])
    c.node.get 1 0 = true ∧ c.node.get 2 0 = true ∧ c.left.get 1 0 = false ∧ c.left.get 1 1 = false := by
  decide

/-- the mask dataset of an Arakawa C clip lists its four masks in the order `c_mask_from_centres` declares them, and
the clip of one variable is `mask_grid_dataset` with that dataset -/
theorem arakawa_clip_var_unfold [Inhabited α] (d : CGridDims) (ny nx : Nat) (hits : List Nat) (buffer : Int)
    (fill : FillKind) (a : NArr (Option α)) :
    arakawaClipVar d ny nx hits buffer fill a =
      clipVar [("face_mask", faceMaskVar d.face.1 d.face.2 (Clip.gridClipMask ny nx hits buffer)),
               ("back_mask", faceMaskVar d.back.1 d.back.2 (Clip.arakawaClipMask ny nx hits buffer).back),
               ("left_mask", faceMaskVar d.left.1 d.left.2 (Clip.arakawaClipMask ny nx hits buffer).left),
               ("node_mask", faceMaskVar d.node.1 d.node.2 (Clip.arakawaClipMask ny nx hits buffer).node)] fill a :=
  rfl

/-! non-vacuity: on a 3 × 1 grid whose faces 0 and 2 intersect the geometry (buffer 0), left edge `(0, 0)` is
selected (face `(0, 0)` has it) and left edge `(1, 0)` is not -/
example : ElemSelected (FaceSelected (fun (p : Nat) (_ : Unit) => p != 1) [some 0, some 1, some 2] () 3 1 0)
    C07.leftEdgesOf 0 0 :=
  ⟨0, 0, ⟨by decide, by decide, 0, 0, by decide, by decide, by decide, by decide, by decide, by decide, 0, by decide, by decide⟩,
    by simp [C07.leftEdgesOf]⟩
example : ¬ ElemSelected (FaceSelected (fun (p : Nat) (_ : Unit) => p != 1) [some 0, some 1, some 2] () 3 1 0)
    C07.leftEdgesOf 1 0 := by
  rintro ⟨j', i', ⟨hj, hi, j'', i'', hj'', hi'', h1, h2, h3, h4, p, hp, hint⟩, hmem⟩
  simp [C07.leftEdgesOf] at hmem
  have hj1 : j' = 1 := by omega
  subst hj1
  have hi0 : i' = 0 := by omega
  subst hi0
  have : j'' = 1 := by omega
  subst this
  have : i'' = 0 := by omega
  subst this
  simp at hp
  subst hp
  simp at hint

end Ems.C08
