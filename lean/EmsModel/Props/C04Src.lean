import EmsModel.Gen.LookupSrc
/-
Props/C04Src.lean — property C04, tied to the source text.

`Gen/LookupSrc.lean` is regenerated on every run from the source of `Convention.get_index_for_point`.  The theorems
below prove that the generated description, given its Python meaning by `LookupSrc.eval`, is the model function
`Ems.getIndexForPoint` — the one `C04.lookup_none_iff`, `lookup_least`, `lookup_coherent`, `lookup_order_independent`
are about — for every dataset, every polygon array and every hit list in any order.
-/
namespace Ems.C04
open Ems.LookupSrc Ems.Gen.LookupSrc

/-- **`get_index_for_point` as the source has it is `Ems.getIndexForPoint`**: the hits of the `intersects` query are
sorted, nothing is returned for no hit, otherwise the first of the sorted hits is the linear index, its native index is
`wind_index` of it (default grid kind) and its polygon is `polygons[linear_index]`. -/
theorem lookup_generated (c : Conv) (polys : List (Option Poly)) (hits : List Nat) :
    eval lookupSrc c polys hits = some (getIndexForPoint c polys hits) := by
  simp only [eval, lookupSrc, getIndexForPoint, firstHit, and_self, if_true]
  cases h : hits.mergeSort (fun a b => decide (a ≤ b)) with
  | nil => rfl
  | cons x xs => simp [lkGet]

/-- Hence the answer is the least intersecting cell whatever order the spatial index reports its hits in — stated on the
generated description: two hit lists that are permutations of each other give the same item. -/
theorem lookup_generated_order_independent (c : Conv) (polys : List (Option Poly)) (h₁ h₂ : List Nat)
    (hp : h₁.Perm h₂) :
    eval lookupSrc c polys h₁ = eval lookupSrc c polys h₂ := by
  rw [lookup_generated, lookup_generated]
  have hs : h₁.mergeSort (fun a b => decide (a ≤ b)) = h₂.mergeSort (fun a b => decide (a ≤ b)) := by
    apply List.Perm.eq_of_pairwise (le := fun a b => a ≤ b)
    · intro a b _ _ hab hba; exact Nat.le_antisymm hab hba
    · have := List.pairwise_mergeSort (le := fun a b => decide (a ≤ b))
        (fun a b c hab hbc => by simp only [decide_eq_true_eq] at *; omega)
        (fun a b => by simp only [Bool.or_eq_true, decide_eq_true_eq]; omega) h₁
      simpa using this
    · have := List.pairwise_mergeSort (le := fun a b => decide (a ≤ b))
        (fun a b c hab hbc => by simp only [decide_eq_true_eq] at *; omega)
        (fun a b => by simp only [Bool.or_eq_true, decide_eq_true_eq]; omega) h₂
      simpa using this
    · exact ((List.mergeSort_perm h₁ _).trans hp).trans (List.mergeSort_perm h₂ _).symm
  simp only [getIndexForPoint, firstHit, hs]

/-- Nothing is returned exactly when the spatial index reports no hit — never a nearest cell. -/
theorem lookup_generated_none_iff (c : Conv) (polys : List (Option Poly)) (hits : List Nat) :
    eval lookupSrc c polys hits = some none ↔ hits = [] := by
  rw [lookup_generated]
  simp only [Option.some.injEq, getIndexForPoint, firstHit, Option.map_eq_none_iff, List.head?_eq_none_iff]
  constructor
  · intro h
    have := (List.mergeSort_perm hits (fun a b => decide (a ≤ b))).length_eq
    rw [h] at this
    exact List.length_eq_zero_iff.mp this.symm
  · intro h; subst h; simp

/-! ### what the evaluator makes of near-misses of the source -/

-- without the sort the answer depends on the order the index reports its hits in
example : eval { lookupSrc with sortsHits := false } ⟨[("face", [2, 2])], "face"⟩ [] [3, 1]
    = some (some { linear := 3, native := some ("face", [1, 1]), polygon := none }) := by rfl
-- `hits[-1]` is the highest-indexed hit
example : lkGet [1, 3] (-1) = some 3 := by rfl
-- any other predicate has no meaning in the model (the hit list is the `intersects` list by contract)
example : eval { lookupSrc with predicate := "contains" } ⟨[("face", [2, 2])], "face"⟩ [] [1] = none := by rfl

end Ems.C04
