import EmsModel.Lemmas.UgridSrcPoly
import EmsModel.Gen.UgridSrc
/-!
# C06, source level — `UGrid._make_polygons` as it is written

`Gen.UgridSrc.ugridPolygons` is regenerated on every run by `harness/trans_ugridsrc.py` from the SOURCE TEXT of
`emsarray.conventions.ugrid.UGrid._make_polygons` (a preallocated object array, the polygon sizes as the number of
unmasked entries per row, one `shapely.polygons(coords, indices=…, out=…)` per distinct size) as a program of
`Core/UgridSrcPoly.lean`.  The theorems below are about that generated program: it computes the hand model
`Ems.ugridPolys` (what `C06.ugrid_polygon_at`, `ugrid_length`, `ugrid_bad_node` are about) whenever the masked entries of
every row of `face_node_array` are trailing — and a row with a masked entry in the middle is exactly where the code and
the model part.
-/
set_option linter.unusedSimpArgs false
namespace Ems.C06Src
open Ems Ems.Clip Ems.UgridSrc

/-- The translator understood every statement of `UGrid._make_polygons` of the working tree. -/
theorem ugrid_polygons_translated : Gen.UgridSrc.polygonComplaints = [] := by decide

theorem getD_map_fst (T : DTable) (i : Nat) :
    (T.map fun r => r.map fun x => x.fst).getD i [] = (T.getD i []).map (·.1) := by
  simp only [List.getD_eq_getElem?_getD, List.getElem?_map]
  cases T[i]? <;> simp

/-- **`UGrid._make_polygons`, as written in the source**: for every masked `face_node_array` (rows of any width, any
number of faces, any mix of polygon sizes) in which the masked entries of every row are TRAILING (`trailingMasked`, a
decidable condition: unmasked entries first, then only masked ones) and whose unmasked entries are rows of the node
coordinate arrays, the generated program — `polygons = numpy.full(face_count, None)`; sizes =
`numpy.sum(~getmaskarray(face_node), axis=1)`; for every distinct size: `indices = flatnonzero(sizes == size)`,
`nodes = getdata(face_node)[indices, :size]`, `coords = stack([node_x[nodes], node_y[nodes]], axis=-1)`,
`shapely.polygons(coords, indices=indices, out=polygons)` — returns the hand model `ugridPolys`: one polygon per face,
at the face's own position, made of the face's unmasked nodes in listed order.  The hypothesis is where the code and the
model part: the source takes the FIRST `size` entries of the data under the mask, so in a row with a masked entry in the
middle it reads the fill value as a node and drops the last node (see the `example` below); `compressed()`, which the
model and `buffer_faces` / `mask_from_face_indexes` use, would not. -/
theorem ugrid_polygons_src (T : DTable) (xs ys : List Rat)
    (htrail : ∀ r ∈ T, trailingMasked r = true)
    (hlen : ys.length = xs.length)
    (hrange : ∀ r ∈ T, ∀ e ∈ r, e.2 = false → e.1 < xs.length) :
    pRun (polyEnv T xs ys) Gen.UgridSrc.ugridPolygons = some (ugridPolys (xs.zip ys) (T.map compressD)) := by
  -- the first `usize` data entries of a row of the table are its unmasked entries, all inside the node table
  have hrow : ∀ i, i < T.length → ((T.getD i []).map (·.1)).take (usize (T.getD i [])) = compressD (T.getD i []) ∧
      ∀ n ∈ compressD (T.getD i []), n < xs.length := by
    intro i hi
    have hmem : T.getD i [] ∈ T := by
      simp [List.getD_eq_getElem?_getD, List.getElem?_eq_getElem hi]
    exact ⟨take_usize_of_trailing _ (htrail _ hmem), fun n hn => hrange _ hmem (n, false) (mem_compressD hn) rfl⟩
  unfold Gen.UgridSrc.ugridPolygons
  simp only [pRun, pEval, polyEnv, fullNoneVal, getmaskVal, invertVal, sumAxis1Val, puniqueVal, sizes_eq]
  apply batchFold_eq _ _ _ T.length (fun i => usize (T.getD i []))
    (fun s i => (((T.getD i []).map (·.1)).take s).map fun n => (xs.getD n 0, ys.getD n 0))
  · simp
  · simp [ugridPolys]
  · intro i hi
    have hs : usize (T.getD i []) ∈ sortU (T.map usize) := by
      rw [mem_sortU]
      exact List.mem_map.mpr ⟨T.getD i [], by simp [List.getD_eq_getElem?_getD, List.getElem?_eq_getElem hi], rfl⟩
    obtain ⟨h1, h2⟩ := hrow i hi
    simp only [hs, if_true, h1]
    unfold ugridPolys
    have hTi : T.getD i [] = T[i] := by simp [List.getD_eq_getElem?_getD, List.getElem?_eq_getElem hi]
    simp only [List.getElem?_map, List.getElem?_eq_getElem hi, Option.map_some, Option.some.injEq, hTi] at h2 ⊢
    rw [allSomeL_eq_some]
    simp only [List.map_map]
    apply List.map_congr_left
    intro n hn
    have hx := h2 n hn
    have hy : n < ys.length := by omega
    simp [List.getD_eq_getElem?_getD, List.getElem?_eq_getElem hx, List.getElem?_eq_getElem hy, List.getElem?_zip_eq_some]
  · intro s out hout
    have hI : ((List.range T.length).filter fun i => usize (T.getD i []) == s).all (fun x => decide (x < T.length)) =
        true := by
      simp only [List.all_eq_true, List.mem_filter, List.mem_range, decide_eq_true_eq]
      intro x hx; exact hx.1
    have hG : ∀ (zs : List Rat), zs.length = xs.length →
        (List.map (fun i => List.take s (List.map (fun x => x.fst) (T.getD i [])))
          ((List.range T.length).filter fun i => usize (T.getD i []) == s)).all
            (fun r => r.all fun x => decide (x < zs.length)) = true := by
      intro zs hz
      simp only [List.all_eq_true, List.mem_map, List.mem_filter, List.mem_range, decide_eq_true_eq, beq_iff_eq]
      rintro r ⟨i, ⟨hi, hsz⟩, rfl⟩ n hn
      obtain ⟨h1, h2⟩ := hrow i hi
      rw [← hsz, h1] at hn
      rw [hz]; exact h2 n hn
    simp only [pEval, getmaskVal, invertVal, sumAxis1Val, getdataVal, eqScalarVal, flatnonzeroVal, sizes_eq,
      flatnonzero_sizes, takeRowsColsVal, List.length_map, hI, if_true, getD_map_fst]
    simp only [gatherTVal, hG xs rfl, hG ys hlen, if_true, stackLastVal, List.map_map, Function.comp_def,
      List.length_map, zipWith_map_same, zip_map_same, batchStep, hout, hI, and_self]

/-- Face `f`'s polygon, from the source: the unmasked nodes of row `f` in listed order, each with its own coordinates,
written to position `f` (polygons of different sizes are made in different batches but land at their own index). -/
theorem ugrid_polygon_src_at (T : DTable) (xs ys : List Rat)
    (htrail : ∀ r ∈ T, trailingMasked r = true)
    (hlen : ys.length = xs.length)
    (hrange : ∀ r ∈ T, ∀ e ∈ r, e.2 = false → e.1 < xs.length) (f : Nat) (hf : f < T.length) :
    ∃ R, pRun (polyEnv T xs ys) Gen.UgridSrc.ugridPolygons = some R ∧ R.length = T.length ∧
      R[f]? = some (some ((compressD T[f]).map fun n => (xs.getD n 0, ys.getD n 0))) := by
  refine ⟨_, ugrid_polygons_src T xs ys htrail hlen hrange, by simp [ugridPolys], ?_⟩
  unfold ugridPolys
  simp only [List.getElem?_map, List.getElem?_eq_getElem hf, Option.map_some, Option.some.injEq]
  rw [allSomeL_eq_some]
  simp only [List.map_map]
  apply List.map_congr_left
  intro n hn
  have hx : n < xs.length := hrange _ (List.getElem_mem hf) (n, false) (mem_compressD hn) rfl
  have hy : n < ys.length := by omega
  simp [List.getD_eq_getElem?_getD, List.getElem?_eq_getElem hx, List.getElem?_eq_getElem hy,
    List.getElem?_zip_eq_some]

/-! ## Non-vacuity, and the input on which code and model part -/

/-- a triangle, a quadrilateral and a triangle (mixed sizes, so two batches), masked entries trailing -/
def exT : DTable := [[(0, false), (1, false), (2, false), (999, true)], [(1, false), (3, false), (4, false), (2, false)],
  [(2, false), (4, false), (5, false), (999, true)]]
def exX : List Rat := [0, 2, 1, 3, 3, 2]
def exY : List Rat := [0, 0, 2, 1, 3, 4]

example : (∀ r ∈ exT, trailingMasked r = true) ∧ exY.length = exX.length ∧
    (∀ r ∈ exT, ∀ e ∈ r, e.2 = false → e.1 < exX.length) := by decide
example : pRun (polyEnv exT exX exY) Gen.UgridSrc.ugridPolygons =
    some [some [(0, 0), (2, 0), (1, 2)], some [(2, 0), (3, 1), (3, 3), (1, 2)], some [(1, 2), (3, 3), (2, 4)]] := by
  decide +kernel
example : ugridPolys (exX.zip exY) (exT.map compressD) =
    [some [(0, 0), (2, 0), (1, 2)], some [(2, 0), (3, 1), (3, 3), (1, 2)], some [(1, 2), (3, 3), (2, 4)]] := by
  decide +kernel
/-- a masked entry in the MIDDLE of a row (data under the mask: 5): the source reads node 5 as the second vertex and
drops node 2, the model keeps nodes 0, 1, 2 -/
example : trailingMasked [(0, false), (5, true), (1, false), (2, false)] = false ∧
    pRun (polyEnv [[(0, false), (5, true), (1, false), (2, false)]] exX exY) Gen.UgridSrc.ugridPolygons =
      some [some [(0, 0), (2, 4), (2, 0)]] ∧
    ugridPolys (exX.zip exY) [compressD [(0, false), (5, true), (1, false), (2, false)]] =
      [some [(0, 0), (2, 0), (1, 2)]] := by
  decide +kernel
/-- … and when the data under the mask is a fill value outside the node table, numpy raises -/
example : pRun (polyEnv [[(0, false), (999, true), (1, false), (2, false)]] exX exY) Gen.UgridSrc.ugridPolygons = none := by
  decide +kernel

end Ems.C06Src
