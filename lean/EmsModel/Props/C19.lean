import EmsModel.Core.Plot
import EmsModel.Lemmas.BBox
import Mathlib.Algebra.Order.Field.Rat
/-!
# C19 — plot artists pair every value with its own cell
-/
namespace Ems.C19
open Ems

/-- **One patch per cell that has geometry, in linear order, each with that cell's outline and
that cell's value**: zipping the plotted paths with the plotted values gives exactly the
(polygon, value) pairs of the cells that have a polygon, in order.  Cells without geometry
contribute neither a patch nor a value, and do not shift later cells. -/
theorem collection_pairs {β : Type} : ∀ (polys : List (Option Poly)) (values : List β),
    polys.length = values.length →
    (plottedPaths polys).zip (plottedValues polys values) =
      (polys.zip values).filterMap fun pv => pv.1.map fun q => (q, pv.2)
  | [], [], _ => rfl
  | [], _ :: _, h => by simp at h
  | _ :: _, [], h => by simp at h
  | p :: ps, v :: vs, h => by
    have ih := collection_pairs ps vs (by simpa using h)
    cases p with
    | none => simpa [plottedPaths, plottedValues] using ih
    | some q =>
      simp only [plottedPaths, plottedValues] at ih ⊢
      simp [ih]

theorem collection_lengths {β : Type} (polys : List (Option Poly)) (values : List β)
    (h : polys.length = values.length) :
    (plottedValues polys values).length = (plottedPaths polys).length := by
  induction polys generalizing values with
  | nil => cases values <;> simp [plottedPaths, plottedValues]
  | cons p ps ih =>
    cases values with
    | nil => simp at h
    | cons v vs =>
      have := ih vs (by simpa using h)
      cases p <;> simp_all [plottedPaths, plottedValues]

/-- the patch of a cell is that cell's outline and value -/
theorem collection_at {β : Type} (polys : List (Option Poly)) (values : List β) (h : polys.length = values.length)
    (q : Poly) (x : β) :
    (q, x) ∈ (plottedPaths polys).zip (plottedValues polys values) ↔
      ∃ (n : Nat), polys[n]? = some (some q) ∧ values[n]? = some x := by
  rw [collection_pairs polys values h]
  simp only [List.mem_filterMap, Option.map_eq_some_iff, Prod.mk.injEq]
  constructor
  · rintro ⟨⟨p, v⟩, hmem, q', hq', rfl, rfl⟩
    obtain ⟨n, hn⟩ := List.getElem?_of_mem hmem
    simp only [List.getElem?_zip_eq_some] at hn
    have hq'' : p = some q' := hq'
    exact ⟨n, by rw [hn.1, hq''], hn.2⟩
  · rintro ⟨n, hp, hv⟩
    refine ⟨(some q, x), ?_, q, rfl, rfl, rfl⟩
    exact List.mem_of_getElem? (List.getElem?_zip_eq_some.mpr ⟨hp, hv⟩)

/-- **Default colour limits span exactly the plotted values**: every plotted (non-missing)
value lies inside, and both ends are attained by a plotted value. -/
theorem clim_spec (values : List (Option Rat)) (lo hi : Rat) (h : defaultClim values = some (lo, hi)) :
    (∀ x, some x ∈ values → lo ≤ x ∧ x ≤ hi) ∧ some lo ∈ values ∧ some hi ∈ values := by
  simp only [defaultClim] at h
  cases hb : bbox ((values.filterMap id).map fun x => (x, x)) with
  | none => simp [hb] at h
  | some b =>
    obtain ⟨a, b', c, d⟩ := b
    simp only [hb, Option.some.injEq, Prod.mk.injEq] at h
    obtain ⟨rfl, rfl⟩ := h
    obtain ⟨hall, ⟨p1, hp1, e1⟩, _, ⟨p3, hp3, e3⟩, _⟩ := Ems.bbox_extent _ a b' c d hb
    refine ⟨?_, ?_, ?_⟩
    · intro x hx
      have := hall (x, x) (by simp [List.mem_filterMap]; exact hx)
      exact ⟨this.1, this.2.1⟩
    · simp only [List.mem_map, List.mem_filterMap, id] at hp1
      obtain ⟨y, ⟨z, hz, rfl⟩, rfl⟩ := hp1
      simp at e1; subst e1; exact hz
    · simp only [List.mem_map, List.mem_filterMap, id] at hp3
      obtain ⟨y, ⟨z, hz, rfl⟩, rfl⟩ := hp3
      simp at e3; subst e3; exact hz

/-- limits exist iff some plotted value is present -/
theorem clim_none_iff (values : List (Option Rat)) : defaultClim values = none ↔ ∀ x, some x ∉ values := by
  simp only [defaultClim]
  cases h : values.filterMap id with
  | nil =>
    simp [bbox]
    intro x hx
    have : x ∈ values.filterMap id := by simp [List.mem_filterMap]; exact hx
    rw [h] at this; simp at this
  | cons y ys =>
    have hy : y ∈ values.filterMap id := by rw [h]; simp
    simp [List.mem_filterMap] at hy
    simp [bbox]
    exact ⟨y, hy⟩

/-- a user `clim` wins; `array=` together with a data array is refused; a variable with
leftover non-spatial dimensions is refused instead of being plotted wrongly -/
theorem overrides_spec (polys : List (Option Poly)) (values : List (Option Rat)) (c : Rat × Rat) :
    makePolyCollection polys (some (some values)) { clim := some c } =
      .ok (plottedPaths polys) (some (plottedValues polys values)) (some c) ∧
    (∀ r ov, ov.array = true → makePolyCollection polys (some r) ov = .typeError) ∧
    (∀ ov, ov.array = false → makePolyCollection polys (some none) ov = .valueError) := by
  refine ⟨by simp [makePolyCollection], ?_, ?_⟩
  · intro r ov h; simp [makePolyCollection, h]
  · intro ov h; simp [makePolyCollection, h]

/-- **Arrow `n` sits at face centre `n` with the components of cell `n`.** -/
theorem quiver_spec {γ β : Type} (centres : List γ) (u v : List β) (n : Nat) (c : γ) (a b : β)
    (hc : centres[n]? = some c) (hu : u[n]? = some a) (hv : v[n]? = some b) :
    (makeQuiver centres u v)[n]? = some (c, a, b) := by
  simp [makeQuiver, List.getElem?_zip_eq_some, hc, hu, hv]

/-! ### non-vacuity -/
def exPolys : List (Option Poly) := [some [(0,0),(2,0),(2,2)], none, some [(4,0),(6,0),(6,2)]]
example : plottedValues exPolys [some (5 : Rat), some 7, none] = [some 5, none] := by decide
example : (plottedPaths exPolys).length = 2 := by decide
example : defaultClim [some 5, none, some 3] = some (3, 5) := by decide +kernel

end Ems.C19
