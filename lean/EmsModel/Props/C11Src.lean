import EmsModel.Gen.RegistrySrc
import EmsModel.Lemmas.Registry
/-
Props/C11Src.lean — property C11, tied to the source text.

`Gen/RegistrySrc.lean` is regenerated on every run from the source of `ConventionRegistry.conventions`,
`match_conventions` and `guess_convention`.  The theorems below prove that, given their Python meaning by the evaluator
of `Core/RegistrySrc.lean`, the generated descriptions are exactly the model functions `Reg.conventions`,
`Reg.matchConventions` and `Reg.guess` — the ones `C11.conventions_spec`, `match_conventions_spec`, `guess_spec`,
`manual_wins_ties` … are about — for every registry, every entry-point list and every family of `check_dataset` results
(including checks that raise).
-/
namespace Ems.C11
open Ems.Reg Ems.RegSrc Ems.Gen.RegistrySrc

section
variable {α : Type} [DecidableEq α]

/-- **`ConventionRegistry.conventions` as the source has it is `Reg.conventions`**: manually registered classes
first, then the entry points, a class seen before is skipped — whatever `self.conventions` currently holds plays no
part. -/
theorem conventions_generated (reg ep convs : List α) :
    evalL reg ep convs conventionsSrc = some (conventions reg ep) := by
  simp [conventionsSrc, evalL, conventions]

theorem specGe_eq : (fun (a b : α × Nat) => if true then decide (b.2 ≤ a.2) else decide (a.2 ≤ b.2)) = specGe := by
  funext a b
  simp [specGe]

/-- **`match_conventions` as the source has it is `Reg.matchConventions`** when it runs over the registry's
`conventions`: one `check_dataset` per class in registry order, a pair kept exactly when the result is not `None`, the
first check that raises aborts, and the pairs are sorted by their specificity (component 1), descending, stably. -/
theorem match_generated {ε : Type} (reg ep : List α) (check : α → Except ε (Option Nat)) :
    evalMatch matchSrc reg ep (conventions reg ep) check = some (matchConventions check (conventions reg ep)) := by
  simp only [evalMatch, matchSrc, evalL, if_true, matchConventions]
  cases collect check (conventions reg ep) with
  | error e => rfl
  | ok l =>
    have : (fun (a b : α × Nat) => decide (b.2 ≤ a.2)) = specGe := by funext a b; rfl
    simp [evalSort, this]

/-- **`guess_convention` as the source has it is `Reg.guess`**: it asks `match_conventions`, answers `None` for no
match and otherwise the class (component 0) of the first pair (position 0). -/
theorem guess_generated {ε : Type} (reg ep : List α) (check : α → Except ε (Option Nat)) :
    (evalMatch matchSrc reg ep (conventions reg ep) check).bind (evalGuess guessSrc)
      = some (guess check (conventions reg ep)) := by
  rw [match_generated]
  simp only [Option.bind_some, evalGuess, guessSrc, guess, Bool.and_self, if_true]
  cases matchConventions check (conventions reg ep) with
  | error e => rfl
  | ok l =>
    cases l with
    | nil => rfl
    | cons p ps => simp [pyGet]

/-- The whole detection path, from the three generated descriptions: **the class `get_dataset_convention` answers with
is the first class, in registered-then-entry-point order, among those of greatest specificity** (`C11.guess_spec`
restated on what the source says). -/
theorem detection_generated {ε : Type} (reg ep : List α) (check : α → Except ε (Option Nat))
    (hok : ∀ c, c ∈ reg ∨ c ∈ ep → ∃ m, check c = .ok m) (c : α) :
    ((evalL reg ep [] conventionsSrc).bind fun cs =>
        (evalMatch matchSrc reg ep cs check).bind (evalGuess guessSrc)) = some (.ok (some c)) ↔
      ∃ pre post s, conventions reg ep = pre ++ c :: post ∧ check c = .ok (some s) ∧
        (∀ d ∈ pre, ∀ t, check d = .ok (some t) → t < s) ∧
        (∀ d ∈ post, ∀ t, check d = .ok (some t) → t ≤ s) := by
  rw [conventions_generated]
  simp only [Option.bind_some]
  rw [guess_generated]
  simp only [Option.some.injEq]
  exact guess_some_iff check _ (fun c hc => hok c ((mem_conventions reg ep c).1 hc)) c

end

/-! ### what the evaluator makes of near-misses of the source (so that the theorems above are not vacuous about it) -/

-- a key other than the specificity, or a loop that does not keep exactly the non-None pairs, has no meaning here
example : evalSort (α := String) { keyIndex := 0, reverse := true } [("A", 1)] = none := rfl
example : evalMatch (α := String) (ε := Unit) { matchSrc with appendsPairWhenNotNone := false }
    [] ["A"] ["A"] (fun _ => .ok (some 1)) = none := rfl
-- `matches[-1][0]` would answer with the class of the last (least specific) pair, `matches[0][0]` with the first
example : evalGuess (α := String) (ε := Unit) { guessSrc with outer := -1 } (.ok [("B", 2), ("A", 1)])
    = some (.ok (some "A")) := by rfl
example : evalGuess (α := String) (ε := Unit) guessSrc (.ok [("B", 2), ("A", 1)]) = some (.ok (some "B")) := by rfl
example : evalGuess (α := String) (ε := Unit) guessSrc (.ok []) = some (.ok none) := by rfl
-- a tie: the class registered by hand wins over the entry point listed first
example : (evalL ["Mine"] ["A", "Mine", "B"] [] conventionsSrc) = some ["Mine", "A", "B"] := by rfl

end Ems.C11
