import EmsModel.Lemmas.ClipTablesMore
import EmsModel.Lemmas.ClipTablesC10More
import EmsModel.Props.C10
/-!
# C09, continued — the connectivity tables of a clipped mesh stay consistent with one another

`tables_stay_consistent` (DESIGN.md section 6, C09): if the five tables of a mesh — face-node, edge-node,
face-edge, edge-face, face-face, as `UGrid.apply_clip_mask` hands them to `update_connectivity`
(`Ems.updateConnectivity`) — satisfy the relations of `C10.derived_tables_consistent`
(`ClipTables.Consistent`), the faces are clipped by any mask, the surviving nodes and edges are those named
by the kept faces (`mask_from_face_indexes`, `Ems.referencedBy`) and every element is renumbered by the
order-preserving renumbering of `C09.renumber_spec`, then the five clipped tables satisfy the same relations.

All statements are for every mesh, every mask, with no size bound; the relations are those the oracle
`check_tables_consistent` of `harness/props/c09.py` evaluates on the real clipped dataset.
-/
namespace Ems.C09
open Ems Ems.ClipTables

theorem any_congr_mem {β : Type} (f g : β → Bool) : ∀ (l : List β), (∀ x ∈ l, f x = g x) → l.any f = l.any g
  | [], _ => rfl
  | a :: as, h => by
    simp only [List.any_cons, h a (by simp), any_congr_mem f g as (fun x hx => h x (List.mem_cons_of_mem _ hx))]

theorem getD_map_of_lt {β γ : Type} (f : β → γ) (l : List β) (c : Nat) (d : β) (d' : γ) (h : c < l.length) :
    (l.map f).getD c d' = f (l.getD c d) := by
  simp [List.getD_eq_getElem?_getD, List.getElem?_eq_getElem h]

/-- **Every row of a clipped table is a kept row of the input.**  `update_connectivity` returns one row per
kept primary element and nothing else: row `r'` of the output is the row of a kept element `r` whose new
index (the number of kept elements before it) is `r'`, entry by entry renumbered. -/
theorem clipped_row_is_kept_row (T : Tab) (rowKeep colKeep : List Bool) (hlen : rowKeep.length = T.length)
    (r' : Nat) (h : r' < (updateConnectivity T rowKeep (renumber colKeep)).length) :
    ∃ r, r < T.length ∧ rowKeep.getD r false = true ∧ newIndex rowKeep r = r' ∧
      (updateConnectivity T rowKeep (renumber colKeep)).getD r' [] = (T.getD r []).map (ren colKeep) := by
  obtain ⟨r, hr, hk, rfl⟩ := row_before T rowKeep colKeep hlen r' h
  exact ⟨r, hr, hk, rfl, getD_row_after T rowKeep colKeep hlen r hr hk⟩

/-- **What becomes of one entry** of a kept row (`update_connectivity` on, say, `edge_face_connectivity`): a
fill entry stays fill; an entry naming a kept element becomes that element's new index; an entry naming a
**dropped** element — the neighbour of a boundary edge that the clip removed — **becomes fill**; nothing moves to
another column. -/
theorem dropped_neighbours_become_fill (T : Tab) (rowKeep colKeep : List Bool) (hlen : rowKeep.length = T.length)
    (r c : Nat) (hr : r < T.length) (hk : rowKeep.getD r false = true) :
    entry (updateConnectivity T rowKeep (renumber colKeep)) (newIndex rowKeep r) c =
      match entry T r c with
      | none => none
      | some none => some none
      | some (some x) => some (if colKeep.getD x false then some (newIndex colKeep x) else none) := by
  rw [entry_after T rowKeep colKeep hlen r c hr hk]
  cases h : entry T r c with
  | none => rfl
  | some e =>
    cases e with
    | none => rfl
    | some x =>
      cases hx : colKeep.getD x false with
      | true => simp only [Option.map_some, ren_kept colKeep x hx]; rw [if_pos hx]
      | false => simp only [Option.map_some, ren_dropped colKeep x hx]; rw [if_neg (by rw [hx]; exact Bool.false_ne_true)]

/-- **The clipped edge-node table still lists every edge once.**  Every row of the clipped
`edge_node_connectivity` is a pair of present nodes (both nodes of a surviving edge survive, because the edge
is a side of a kept face), and two surviving edges never join the same undirected node pair. -/
theorem edges_distinct_after_clip (fn en fe : Tab) (keepF : List Bool) (nN : Nat)
    (hnodes : ∀ row ∈ fn, ∀ x, some x ∈ row → x < nN)
    (hd : EdgesDistinct en) (hfe : FaceEdgeDescribes fn en fe) :
    EdgesDistinct (updateConnectivity en (referencedBy fe keepF en.length) (renumber (referencedBy fn keepF nN))) := by
  have hlenE : (referencedBy fe keepF en.length).length = en.length := referencedBy_length _ _ _
  constructor
  · intro k' hk'
    obtain ⟨k, hk, hkk, rfl⟩ := row_before en _ _ hlenE k' hk'
    obtain ⟨q, hq, h1, h2⟩ := kept_edge_pair fn en fe keepF nN hnodes hfe k hkk
    rw [edgePair_after en _ _ hlenE k hk hkk q hq h1 h2]; rfl
  · intro k' hk' l' hl' hany
    obtain ⟨k, hk, hkk, rfl⟩ := row_before en _ _ hlenE k' hk'
    obtain ⟨l, hl, hkl, rfl⟩ := row_before en _ _ hlenE l' hl'
    obtain ⟨q, hq, h1, h2⟩ := kept_edge_pair fn en fe keepF nN hnodes hfe k hkk
    rw [edgePair_after en _ _ hlenE k hk hkk q hq h1 h2, Option.any_some,
      edgeHasPair_after fn en fe keepF nN hnodes hfe l hkl q h1 h2] at hany
    have := hd.2 k hk l hl (by rw [hq, Option.any_some]; exact hany)
    rw [this]

/-- **Face-edge after the clip.**  In the clipped dataset, column `c` of every face's `face_edge_connectivity`
row names an edge of the clipped `edge_node_connectivity` whose (renumbered) node pair is the face's `c`-th
consecutive node pair in the clipped `face_node_connectivity`; the columns after the face's last side are fill. -/
theorem face_edge_after_clip (fn en fe : Tab) (keepF : List Bool) (nN : Nat) (hF : keepF.length = fn.length)
    (hnodes : ∀ row ∈ fn, ∀ x, some x ∈ row → x < nN) (hfe : FaceEdgeDescribes fn en fe) :
    FaceEdgeDescribes (updateConnectivity fn keepF (renumber (referencedBy fn keepF nN)))
      (updateConnectivity en (referencedBy fe keepF en.length) (renumber (referencedBy fn keepF nN)))
      (updateConnectivity fe keepF (renumber (referencedBy fe keepF en.length))) := by
  have hlenE : (referencedBy fe keepF en.length).length = en.length := referencedBy_length _ _ _
  have hFe : keepF.length = fe.length := hF.trans hfe.1.symm
  refine ⟨after_length fe fn keepF _ _ hfe.1, ?_, ?_⟩
  · intro i' hi' c hc
    obtain ⟨i, hi, hki, rfl⟩ := row_before fn keepF _ hF i' hi'
    have hie : i < fe.length := by rw [hfe.1]; exact hi
    rw [faceSides_after fn keepF nN hF hnodes i hi hki] at hc ⊢
    rw [List.length_map] at hc
    obtain ⟨k, hk, hent, hp⟩ := hfe.2.1 i hi c hc
    have hkk : (referencedBy fe keepF en.length).getD k false = true :=
      referenced_kept fe keepF en.length i k hie hki hk (mem_of_entry fe i c _ hent)
    refine ⟨newIndex (referencedBy fe keepF en.length) k, newIndex_lt_after en _ _ hlenE k hk hkk, ?_, ?_⟩
    · rw [entry_after fe keepF _ hFe i c hie hki, hent]
      simp [ren_kept _ k hkk]
    · rw [getD_map_of_lt _ _ c (0, 0) (0, 0) hc]
      obtain ⟨h1, h2⟩ := side_nodes_kept fn keepF nN hnodes i hi hki _ (getD_mem_of_lt _ c (0, 0) hc)
      rw [edgeHasPair_after fn en fe keepF nN hnodes hfe k hkk _ h1 h2]
      exact hp
  · intro i' hi' c hc hle
    obtain ⟨i, hi, hki, rfl⟩ := row_before fn keepF _ hF i' hi'
    have hie : i < fe.length := by rw [hfe.1]; exact hi
    rw [getD_row_after fe keepF _ hFe i hie hki, List.length_map] at hc
    rw [faceSides_after fn keepF nN hF hnodes i hi hki, List.length_map] at hle
    rw [entry_after fe keepF _ hFe i c hie hki, hfe.2.2 i hi c hc hle]
    rfl

/-- **Edge-face after the clip.**  In the clipped dataset, a surviving edge lists exactly the surviving faces
that have its node pair as a side: a kept neighbour stays (under its new number), a dropped neighbour is gone
(its entry is fill, `dropped_neighbours_become_fill`), and no face is listed that does not contain the edge. -/
theorem edge_face_after_clip (fn en fe ef : Tab) (keepF : List Bool) (nN : Nat) (hF : keepF.length = fn.length)
    (hnodes : ∀ row ∈ fn, ∀ x, some x ∈ row → x < nN)
    (hfe : FaceEdgeDescribes fn en fe) (hef : EdgeFaceDescribes fn en ef) :
    EdgeFaceDescribes (updateConnectivity fn keepF (renumber (referencedBy fn keepF nN)))
      (updateConnectivity en (referencedBy fe keepF en.length) (renumber (referencedBy fn keepF nN)))
      (updateConnectivity ef (referencedBy fe keepF en.length) (renumber keepF)) := by
  have hlenE : (referencedBy fe keepF en.length).length = en.length := referencedBy_length _ _ _
  refine ⟨after_length ef en _ _ _ hef.1, ?_⟩
  intro k' hk' i' hi'
  obtain ⟨k, hk, hkk, rfl⟩ := row_before en _ _ hlenE k' hk'
  obtain ⟨i, hi, hki, rfl⟩ := row_before fn keepF _ hF i' hi'
  rw [contains_after ef _ keepF (hlenE.trans hef.1.symm) k i (by rw [hef.1]; exact hk) hkk hki,
    hef.2 k hk i hi, faceSides_after fn keepF nN hF hnodes i hi hki, List.any_map]
  apply Eq.to_iff
  congr 1
  apply any_congr_mem
  intro p hp
  obtain ⟨h1, h2⟩ := side_nodes_kept fn keepF nN hnodes i hi hki p hp
  exact (edgeHasPair_after fn en fe keepF nN hnodes hfe k hkk p h1 h2).symm

/-- **Face-face after the clip.**  In the clipped dataset, a surviving face lists exactly the surviving faces
(other than itself) with which it has a side in common. -/
theorem face_face_after_clip (fn ff : Tab) (keepF : List Bool) (nN : Nat) (hF : keepF.length = fn.length)
    (hnodes : ∀ row ∈ fn, ∀ x, some x ∈ row → x < nN) (hff : FaceFaceDescribes fn ff) :
    FaceFaceDescribes (updateConnectivity fn keepF (renumber (referencedBy fn keepF nN)))
      (updateConnectivity ff keepF (renumber keepF)) := by
  have hFf : keepF.length = ff.length := hF.trans hff.1.symm
  refine ⟨after_length ff fn keepF _ _ hff.1, ?_⟩
  intro i' hi' j' hj'
  obtain ⟨i, hi, hki, rfl⟩ := row_before fn keepF _ hF i' hi'
  obtain ⟨j, hj, hkj, rfl⟩ := row_before fn keepF _ hF j' hj'
  rw [contains_after ff keepF keepF hFf i j (by rw [hff.1]; exact hi) hki hkj, hff.2 i hi j hj,
    faceSides_after fn keepF nN hF hnodes i hi hki, faceSides_after fn keepF nN hF hnodes j hj hkj, List.any_map]
  have hne : newIndex keepF i ≠ newIndex keepF j ↔ i ≠ j :=
    not_congr ⟨newIndex_inj keepF i j hki hkj, fun h => by rw [h]⟩
  rw [hne]
  refine and_congr_right (fun _ => Eq.to_iff ?_)
  congr 1
  apply any_congr_mem
  intro p hp
  obtain ⟨h1, h2⟩ := side_nodes_kept fn keepF nN hnodes i hi hki p hp
  simp only [Function.comp, List.any_map]
  apply any_congr_mem
  intro q hq
  obtain ⟨h3, h4⟩ := side_nodes_kept fn keepF nN hnodes j hj hkj q hq
  exact (samePair_newIndex _ p q h1 h2 h3 h4).symm

/-- **Face-face stays symmetric on the survivors** — from the symmetry of the input alone (no other table is
needed): after `update_connectivity` of `face_face_connectivity` by the face mask, face `f'` lists `g'` iff `g'`
lists `f'`. -/
theorem face_face_symmetric_after_clip (ff : Tab) (keepF : List Bool) (hF : keepF.length = ff.length)
    (h : FaceFaceSymmetric ff) : FaceFaceSymmetric (updateConnectivity ff keepF (renumber keepF)) := by
  intro i' hi' j' hj'
  obtain ⟨i, hi, hki, rfl⟩ := row_before ff keepF _ hF i' hi'
  obtain ⟨j, hj, hkj, rfl⟩ := row_before ff keepF _ hF j' hj'
  rw [contains_after ff keepF keepF hF i j hi hki hkj, contains_after ff keepF keepF hF j i hj hkj hki]
  exact h i hi j hj

/-- **No orphan edge survives.**  Every edge of the clipped `edge_node_connectivity` is a side of some face of the
clipped `face_node_connectivity` (an edge both of whose nodes survive but which borders no kept face is not
kept); with `face_edge_after_clip` — every side of every face has an edge — the clipped edge set is exactly
the set of sides of the clipped faces, which is the first test of the oracle `check_tables_consistent`. -/
theorem no_orphan_edge_after_clip (fn en fe : Tab) (keepF : List Bool) (nN : Nat) (hF : keepF.length = fn.length)
    (hnodes : ∀ row ∈ fn, ∀ x, some x ∈ row → x < nN) (hfe : FaceEdgeDescribes fn en fe)
    (k' : Nat)
    (hk' : k' < (updateConnectivity en (referencedBy fe keepF en.length) (renumber (referencedBy fn keepF nN))).length) :
    ∃ i', i' < (updateConnectivity fn keepF (renumber (referencedBy fn keepF nN))).length ∧
      (faceSides (updateConnectivity fn keepF (renumber (referencedBy fn keepF nN))) i').any
        (edgeHasPair (updateConnectivity en (referencedBy fe keepF en.length) (renumber (referencedBy fn keepF nN))) k')
        = true := by
  have hlenE : (referencedBy fe keepF en.length).length = en.length := referencedBy_length _ _ _
  obtain ⟨k, hk, hkk, rfl⟩ := row_before en _ _ hlenE k' hk'
  obtain ⟨_, g, hg, hkg, c, hc, hp⟩ := kept_edge_side fn en fe keepF hfe k hkk
  refine ⟨newIndex keepF g, newIndex_lt_after fn keepF _ hF g hg hkg, ?_⟩
  rw [faceSides_after fn keepF nN hF hnodes g hg hkg, List.any_map, List.any_eq_true]
  have hmem := getD_mem_of_lt (faceSides fn g) c (0, 0) hc
  obtain ⟨h1, h2⟩ := side_nodes_kept fn keepF nN hnodes g hg hkg _ hmem
  refine ⟨_, hmem, ?_⟩
  simp only [Function.comp]
  rw [edgeHasPair_after fn en fe keepF nN hnodes hfe k hkk _ h1 h2]
  exact hp

/-- **`tables_stay_consistent`.**  Let the five connectivity tables of a mesh satisfy the C10 relations
(`ClipTables.Consistent`: what `C10.derived_tables_consistent` proves of derived tables and `supplied_valid_iff`
demands of supplied ones), let `keepF` be any face mask, let the surviving nodes and edges be those named by the
kept faces' `face_node` / `face_edge` rows (`mask_from_face_indexes`), and let every table be re-indexed by
`update_connectivity` with the order-preserving renumbering.  Then the five clipped tables satisfy the same
relations: each face-edge entry of a kept face names the edge whose renumbered node pair is the face's
corresponding consecutive node pair; each edge-face row names exactly the kept faces containing the edge; the
face-face rows name exactly the kept faces sharing a side; the edges are still distinct node pairs. -/
theorem tables_stay_consistent (fn en fe ef ff : Tab) (keepF : List Bool) (nN : Nat)
    (hF : keepF.length = fn.length) (hnodes : ∀ row ∈ fn, ∀ x, some x ∈ row → x < nN)
    (h : Consistent fn en fe ef ff) :
    Consistent (updateConnectivity fn keepF (renumber (referencedBy fn keepF nN)))
      (updateConnectivity en (referencedBy fe keepF en.length) (renumber (referencedBy fn keepF nN)))
      (updateConnectivity fe keepF (renumber (referencedBy fe keepF en.length)))
      (updateConnectivity ef (referencedBy fe keepF en.length) (renumber keepF))
      (updateConnectivity ff keepF (renumber keepF)) := by
  obtain ⟨hd, hfe, hef, hff⟩ := h
  exact ⟨edges_distinct_after_clip fn en fe keepF nN hnodes hd hfe,
    face_edge_after_clip fn en fe keepF nN hF hnodes hfe,
    edge_face_after_clip fn en fe ef keepF nN hF hnodes hfe hef,
    face_face_after_clip fn ff keepF nN hF hnodes hff⟩

/-- the relation `FaceFaceDescribes` is symmetric by its form, so a consistent mesh has a symmetric face-face table -/
theorem consistent_face_face_symmetric (fn ff : Tab) (h : FaceFaceDescribes fn ff) : FaceFaceSymmetric ff := by
  intro i hi j hj
  rw [h.1] at hi hj
  rw [h.2 i hi j hj, h.2 j hj i hi]
  constructor
  · rintro ⟨hne, hany⟩
    refine ⟨fun e => hne e.symm, ?_⟩
    simp only [List.any_eq_true] at hany ⊢
    obtain ⟨p, hp, q, hq, hs⟩ := hany
    exact ⟨q, hq, p, hp, by rw [samePair_symm]; exact hs⟩
  · rintro ⟨hne, hany⟩
    refine ⟨fun e => hne e.symm, ?_⟩
    simp only [List.any_eq_true] at hany ⊢
    obtain ⟨p, hp, q, hq, hs⟩ := hany
    exact ⟨q, hq, p, hp, by rw [samePair_symm]; exact hs⟩

/-! ### the hypothesis is what C10 proves -/

/-- **The tables emsarray derives are `Consistent`.**  For every mesh on which `C10.derived_tables_consistent`
applies (an edge table without repeated edges covering every side, faces no wider than the table, manifold), the
face-edge, edge-face and face-face tables that `make_face_edge_array`, `make_edge_face_array`,
`make_face_face_array` return, read as the natural-number tables `update_connectivity` works on, satisfy
`ClipTables.Consistent` — so `tables_stay_consistent` applies to them: *derived tables, clipped, are consistent*. -/
theorem derived_tables_satisfy_consistent (w : Nat) (fn en fe ef ff : Tab) (pairs : List Mesh.Pair)
    (hpairs : Mesh.pairsOfTable (toIntTab en) = some pairs)
    (hnd : (pairs.map Mesh.normPair).Nodup)
    (hcover : ∀ f ∈ Mesh.facesOf (toIntTab fn), ∀ p ∈ Mesh.facePairs f, ∃ e ∈ pairs, Mesh.normPair e = Mesh.normPair p)
    (hw : ∀ f ∈ Mesh.facesOf (toIntTab fn), f.length ≤ w) (hm : Mesh.Manifold (Mesh.facesOf (toIntTab fn)))
    (hfe : Mesh.makeFaceEdge w pairs (Mesh.facesOf (toIntTab fn)) = .ok (toIntTab fe))
    (hef : Mesh.makeEdgeFace pairs.length ((toIntTab fe).map Mesh.compress) = .ok (toIntTab ef))
    (hff : Mesh.makeFaceFace (Mesh.facesOf (toIntTab fn)).length w (toIntTab ef) = .ok (toIntTab ff)) :
    Consistent fn en fe ef ff := by
  obtain ⟨fe', ef', ff', hfe', hef', hff', r1, r2, _, r4, _⟩ :=
    C10.derived_tables_consistent w pairs (Mesh.facesOf (toIntTab fn)) hnd hcover hw hm
  rw [hfe] at hfe'
  cases Except.ok.inj hfe'
  rw [hef] at hef'
  cases Except.ok.inj hef'
  rw [hff] at hff'
  cases Except.ok.inj hff'
  obtain ⟨fe2, hfe2, hlen2, hspec⟩ := C10.face_edge_spec w pairs (Mesh.facesOf (toIntTab fn)) hcover hw
  rw [hfe] at hfe2
  cases Except.ok.inj hfe2
  have hfl : (Mesh.facesOf (toIntTab fn)).length = fn.length := by simp [Mesh.facesOf, toIntTab]
  have hpl := (pairs_cast en pairs hpairs).1
  apply consistent_of_c10 fn en fe ef ff pairs hpairs hnd
  · have : (toIntTab fe).length = fe.length := by simp [toIntTab]
    rw [← this, hlen2, hfl]
  · have := (Mesh.makeEdgeFace_ok hef).2.2.1
    rw [← hpl, ← this]; simp [toIntTab]
  · have := (C10.face_face_shape _ _ _ _ hff).1
    rw [← hfl, ← this]; simp [toIntTab]
  · exact r1
  · intro i hi c hle hc
    obtain ⟨row, hrow, hrl, _, hfillr⟩ := hspec i hi
    have hcw : c < w := by
      have hrow' : (toIntTab fe)[i]? = some row := hrow
      simp only [toIntTab, List.getElem?_map, Option.map_eq_some_iff] at hrow'
      obtain ⟨r0, hr0, rfl⟩ := hrow'
      rw [List.length_map] at hrl
      have : fe.getD i [] = r0 := by simp [List.getD_eq_getElem?_getD, hr0]
      rw [this, hrl] at hc
      exact hc
    rw [hrow]
    exact hfillr c hle hcw
  · exact r2
  · exact r4

/-! ### non-vacuity: three quadrilaterals in a row and a triangle (padded row), 9 nodes, 12 edges; the second
quadrilateral is clipped away.  The input satisfies every hypothesis of `tables_stay_consistent`; the clipped tables
are shown, and (decided independently of the theorem) are consistent. -/
def exFn : Tab := [[some 0, some 1, some 5, some 4], [some 1, some 2, some 6, some 5], [some 2, some 3, some 7, some 6],
  [some 3, some 8, some 7, none]]
def exEn : Tab := [[some 0, some 1], [some 1, some 5], [some 4, some 5], [some 0, some 4], [some 1, some 2], [some 5, some 6],
  [some 2, some 6], [some 2, some 3], [some 3, some 7], [some 6, some 7], [some 3, some 8], [some 7, some 8]]
def exFe : Tab := [[some 0, some 1, some 2, some 3], [some 4, some 6, some 5, some 1], [some 7, some 8, some 9, some 6],
  [some 10, some 11, some 8, none]]
def exEf : Tab := [[some 0, none], [some 0, some 1], [some 0, none], [some 0, none], [some 1, none], [some 1, none],
  [some 1, some 2], [some 2, none], [some 2, some 3], [some 2, none], [some 3, none], [some 3, none]]
def exFf : Tab := [[some 1, none, none, none], [some 0, some 2, none, none], [some 1, some 3, none, none],
  [some 2, none, none, none]]
def exKeep : List Bool := [true, false, true, true]

example : Consistent exFn exEn exFe exEf exFf := by decide +kernel
example : exKeep.length = exFn.length ∧ ∀ row ∈ exFn, ∀ x, some x ∈ row → x < 9 := by
  refine ⟨rfl, ?_⟩
  intro row hrow x hx
  simp only [exFn, List.mem_cons, List.not_mem_nil, or_false] at hrow
  rcases hrow with rfl | rfl | rfl | rfl <;> simp at hx <;> omega
example : referencedBy exFe exKeep exEn.length =
    [true, true, true, true, false, false, true, true, true, true, true, true] := by decide +kernel
/-- edge 1 (between the kept face 0 and the dropped face 1) keeps face 0 and loses its other neighbour; edge 6
likewise; faces 0 and 2 are no longer neighbours of anything they were joined to through face 1 -/
example : updateConnectivity exEf (referencedBy exFe exKeep exEn.length) (renumber exKeep) =
    [[some 0, none], [some 0, none], [some 0, none], [some 0, none], [none, some 1], [some 1, none], [some 1, some 2],
     [some 1, none], [some 2, none], [some 2, none]] := by decide +kernel
example : updateConnectivity exFf exKeep (renumber exKeep) =
    [[none, none, none, none], [none, some 2, none, none], [some 1, none, none, none]] := by decide +kernel
example : Consistent (updateConnectivity exFn exKeep (renumber (referencedBy exFn exKeep 9)))
    (updateConnectivity exEn (referencedBy exFe exKeep exEn.length) (renumber (referencedBy exFn exKeep 9)))
    (updateConnectivity exFe exKeep (renumber (referencedBy exFe exKeep exEn.length)))
    (updateConnectivity exEf (referencedBy exFe exKeep exEn.length) (renumber exKeep))
    (updateConnectivity exFf exKeep (renumber exKeep)) := by decide +kernel
/-- the hypotheses matter: an edge-face table that still lists the dropped face's number is not consistent -/
example : ¬ EdgeFaceDescribes [[some 0, some 1, some 2]] [[some 0, some 1], [some 1, some 2], [some 2, some 0]]
    [[some 0], [some 0], [some 1]] := by decide +kernel

/-! The example tables are not made up: they are what the C10 model functions (`Mesh.makeFaceEdge`,
`makeEdgeFace`, `makeFaceFace` — `make_face_edge_array` … of emsarray, the functions `C10.derived_tables_consistent`
is about) derive for this mesh from its face-node and edge-node tables.  So `Consistent` holds of tables derived
by the modelled code, as the C10 theorem says it must. -/
def exPairs : List Mesh.Pair := [(0, 1), (1, 5), (4, 5), (0, 4), (1, 2), (5, 6), (2, 6), (2, 3), (3, 7), (6, 7), (3, 8), (7, 8)]
example : Mesh.makeFaceEdge 4 exPairs (Mesh.facesOf (toIntTab exFn)) = .ok (toIntTab exFe) := by decide +kernel
example : Mesh.makeEdgeFace 12 ((toIntTab exFe).map Mesh.compress) = .ok (toIntTab exEf) := by decide +kernel
example : Mesh.makeFaceFace 4 4 (toIntTab exEf) = .ok (toIntTab exFf) := by decide +kernel

/-- and the example mesh meets every hypothesis of `derived_tables_satisfy_consistent` -/
example : Mesh.pairsOfTable (toIntTab exEn) = some exPairs ∧ (exPairs.map Mesh.normPair).Nodup ∧
    (∀ f ∈ Mesh.facesOf (toIntTab exFn), ∀ p ∈ Mesh.facePairs f, ∃ e ∈ exPairs, Mesh.normPair e = Mesh.normPair p) ∧
    (∀ f ∈ Mesh.facesOf (toIntTab exFn), f.length ≤ 4) ∧ Mesh.Manifold (Mesh.facesOf (toIntTab exFn)) := by
  decide +kernel

end Ems.C09
