import EmsModel.Props.C02
/-!
# C02 — results that are held: a batch of selections asked for first and used afterwards

A script asks for the selections of several positions first and uses them later, in any order.
In the model a selection is a value, `a.isel (names.zip ig)`; the answers to a list of requests
are the list `held a gd reqs`.  The theorems say what the harness plays on the real code
(`harness/gen/c02_extra6.py: held_history`): the answer kept for request `k` is the one of its
own position - it is element `n_k` of the flattened variable, whatever was asked before or
after it (`held_selection_at`), it does not depend on the rest of the list
(`held_selection_own_request`), and using the answers in another order changes none of them
(`held_selection_perm`).
-/
namespace Ems.C02
open Ems Ems.NArr

/-- the answers to a list of requests (native indexes `ig` of the grid dimensions `gd`), in the
order in which they were asked -/
def held [Inhabited α] (a : NArr α) (gd : List Dim) (reqs : List (List Nat)) : List (NArr α) :=
  reqs.map (fun ig => a.isel ((gd.map (·.1)).zip ig))

theorem held_length [Inhabited α] (a : NArr α) (gd : List Dim) (reqs : List (List Nat)) :
    (held a gd reqs).length = reqs.length := by simp [held]

/-- The answer held for request `k` - the native index of linear position `ns[k]` - reads, at every
assignment of the other dimensions, element `ns[k]` of the flattened variable: whatever the other
requests of the history are, before it or after it. -/
theorem held_selection_at [Inhabited α] (a : NArr α) (gd : List Dim) (lin : String) (hwf : a.WF)
    (hgn : (gd.map (·.1)).Nodup) (hsub : ∀ d ∈ gd, d ∈ a.dims)
    (hfresh : lin ∉ (a.dims.filter (fun d => !(gd.map (·.1)).contains d.1)).map (·.1))
    (ns : List Nat) (reqs : List (List Nat)) (hlen : reqs.length = ns.length)
    (hreq : ∀ k (hk : k < ns.length), unravel (gd.map (·.2)) ns[k] = some (reqs[k]'(by omega)))
    (k : Nat) (hk : k < ns.length) (e : Env) (v : String → Nat)
    (hv : ∀ d ∈ a.dims.filter (fun d => !(gd.map (·.1)).contains d.1),
      e.get d.1 = some (v d.1) ∧ v d.1 < d.2)
    (hn : e.get lin = some ns[k]) :
    ∃ r, a.ravelDims (gd.map (·.1)) (some lin) = some r ∧
      r.get? e = ((held a gd reqs)[k]'(by rw [held_length]; omega)).get? e := by
  obtain ⟨r, hr, hget⟩ := ravel_eq_select a gd lin hwf hgn hsub hfresh e v ns[k] (reqs[k]'(by omega)) hv hn (hreq k hk)
  exact ⟨r, hr, by simpa [held] using hget⟩

/-- An answer depends on its own request only: equal requests in two different histories have
equal answers. -/
theorem held_selection_own_request [Inhabited α] (a : NArr α) (gd : List Dim) (reqs reqs' : List (List Nat))
    (k k' : Nat) (hk : k < reqs.length) (hk' : k' < reqs'.length) (h : reqs[k] = reqs'[k']) :
    (held a gd reqs)[k]'(by rw [held_length]; exact hk) = (held a gd reqs')[k']'(by rw [held_length]; exact hk') := by
  simp [held, h]

/-- Using the answers in another order (any permutation of the history) permutes them and
changes none. -/
theorem held_selection_perm [Inhabited α] (a : NArr α) (gd : List Dim) (reqs reqs' : List (List Nat))
    (h : reqs.Perm reqs') : (held a gd reqs).Perm (held a gd reqs') := by
  exact h.map _

/-! ### non-vacuity -/
example : ((held exA [("y", 2), ("x", 3)] [[0, 2], [1, 1], [0, 0]])[1]?).bind (fun p => p.get? [("t", 1)]) = some 10 := by simp only [held, List.map]; decide
example : ((held exA [("y", 2), ("x", 3)] [[1, 1]])[0]?).bind (fun p => p.get? [("t", 1)]) = some 10 := by simp only [held, List.map]; decide
example : unravel [2, 3] 4 = some [1, 1] := by decide

end Ems.C02
