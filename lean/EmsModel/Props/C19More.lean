import EmsModel.Core.PlotRavel
import EmsModel.Props.C19
import EmsModel.Props.C03
/-!
# C19, continued — leftover dimensions are refused for every shape; a hole shifts nothing; default limits come from
plotted cells only; the artist does not depend on the order of the cells

About `Ems.makePolyCollection`, `plottedPaths`, `plottedValues`, `defaultClim`, `makeQuiver` (`Core/Plot.lean`), and
their composition with `NArr.ravelDims` (`Core/PlotRavel.lean`).
-/
namespace Ems.C19
open Ems Ems.NArr

/-! ### leftover dimensions -/

/-- a ravelled variable that keeps a dimension besides the linear one is not plotted -/
theorem plotRavelled_extra (a : NArr (Option Rat)) (gd : List Dim) (hwf : a.WF)
    (hgn : (gd.map (·.1)).Nodup) (hsub : ∀ d ∈ gd, d ∈ a.dims)
    (d : Dim) (hd : d ∈ a.dims) (hextra : d.1 ∉ gd.map (·.1)) :
    plotRavelled a (gd.map (·.1)) = none := by
  obtain ⟨m, hm, hdims, _⟩ := C03.moveToEnd_dims a gd hwf hgn hsub
  let others := a.dims.filter (fun d => !(gd.map (·.1)).contains d.1)
  have hmem : d ∈ others := by
    simp only [others, List.mem_filter, Bool.not_eq_true', hd, true_and]
    cases h : (gd.map (·.1)).contains d.1 with
    | false => rfl
    | true => exact absurd (List.contains_iff_mem.mp h) hextra
  have hpos : 0 < others.length := List.length_pos_of_mem hmem
  have hlen : m.dims.length - (gd.map (·.1)).length = others.length := by
    simp [hdims, others]
  have htake : m.dims.take others.length = others := by simp [hdims, others]
  simp only [plotRavelled, ravelDims, hm, hlen, htake]
  split
  · rfl
  · rename_i r hr
    split at hr
    · simp at hr
    · have := Option.some.inj hr
      subst this
      simp only [List.length_append, List.length_cons, List.length_nil]
      rw [if_pos (by omega)]

/-- **`extra_dims_refused`: a variable with a dimension left over after `ravel` is refused, for every shape.**
Whatever the variable's rank, sizes and dimension order, if it has a dimension that is not a grid dimension
(time, depth …) then `make_poly_collection(data_array)` returns no artist: `ValueError` ("extra dimensions") —
or `TypeError` when `array=` was passed as well, which is tested first.  The values are never plotted
against the wrong cells. -/
theorem extra_dims_refused (polys : List (Option Poly)) (a : NArr (Option Rat)) (gd : List Dim) (hwf : a.WF)
    (hgn : (gd.map (·.1)).Nodup) (hsub : ∀ d ∈ gd, d ∈ a.dims)
    (d : Dim) (hd : d ∈ a.dims) (hextra : d.1 ∉ gd.map (·.1)) (ov : PlotOverrides) :
    makePolyCollection polys (some (plotRavelled a (gd.map (·.1)))) ov =
      if ov.array then .typeError else .valueError := by
  rw [plotRavelled_extra a gd hwf hgn hsub d hd hextra]
  cases h : ov.array <;> simp [makePolyCollection, h]

/-- … and whatever is handed over as ravelled values, the flag "extra dimensions" alone decides: no overrides
turn a refused variable into an artist -/
theorem extra_dims_never_ok (polys : List (Option Poly)) (ov : PlotOverrides) (paths : List Poly)
    (arr : Option (List (Option Rat))) (clim : Option (Rat × Rat)) :
    makePolyCollection polys (some none) ov ≠ .ok paths arr clim := by
  cases h : ov.array <;> simp [makePolyCollection, h]

/-- **A variable over exactly the grid dimensions is plotted**, in any stored dimension order: the values handed
to the artist are the data of the variable transposed to the grid's dimension order (`move_dimensions_to_end`,
whose reads are the original's by `C03.moveToEnd_get`), one per cell. -/
theorem exact_dims_plotted (a : NArr (Option Rat)) (gd : List Dim) (hwf : a.WF)
    (hgn : (gd.map (·.1)).Nodup) (hsub : ∀ d ∈ gd, d ∈ a.dims)
    (hall : ∀ d ∈ a.dims, d.1 ∈ gd.map (·.1)) :
    ∃ m, a.moveToEnd (gd.map (·.1)) = some m ∧ m.dims = gd ∧
      plotRavelled a (gd.map (·.1)) = some m.data := by
  obtain ⟨m, hm, hdims, _⟩ := C03.moveToEnd_dims a gd hwf hgn hsub
  have hnil : a.dims.filter (fun d => !(gd.map (·.1)).contains d.1) = [] := by
    apply C03.filter_all_false
    intro d hd
    have := List.contains_iff_mem.mpr (hall d hd)
    rw [this]; rfl
  rw [hnil, List.nil_append] at hdims
  refine ⟨m, hm, hdims, ?_⟩
  simp only [plotRavelled, ravelDims, hm, hdims, List.length_map, Nat.sub_self, List.take_zero, List.map_nil,
    List.contains_nil, Bool.false_eq_true, if_false, List.nil_append, List.length_cons, List.length_nil]
  simp

/-! ### quiver -/

/-- **`quiver_dims_refused`: `u` and `v` with different dimensions are refused**, and so are components with a
leftover dimension; otherwise arrow `n` is `(centre n, u n, v n)` of the ravelled components. -/
theorem quiver_dims_refused {γ : Type} (centres : List γ) (gridDims : List String) (u v : NArr (Option Rat)) :
    (u.names ≠ v.names → makeQuiverChecked centres gridDims u v = .valueError) ∧
    (plotRavelled u gridDims = none ∨ plotRavelled v gridDims = none →
      makeQuiverChecked centres gridDims u v = .valueError) ∧
    (∀ arrows, makeQuiverChecked centres gridDims u v = .ok arrows →
      u.names = v.names ∧ ∃ us vs, plotRavelled u gridDims = some us ∧ plotRavelled v gridDims = some vs ∧
        arrows = makeQuiver centres us vs) := by
  refine ⟨?_, ?_, ?_⟩
  · intro h; simp [makeQuiverChecked, h]
  · intro h
    unfold makeQuiverChecked
    split
    · rfl
    · rcases h with h | h
      · rw [h]
      · rw [h]; cases plotRavelled u gridDims <;> rfl
  · intro arrows h
    unfold makeQuiverChecked at h
    split at h
    · cases h
    · rename_i hn
      cases hu : plotRavelled u gridDims with
      | none => simp [hu] at h
      | some us =>
        cases hv : plotRavelled v gridDims with
        | none => simp [hu, hv] at h
        | some vs =>
          simp only [hu, hv, QuiverResult.ok.injEq] at h
          exact ⟨Classical.not_not.mp hn, us, vs, rfl, rfl, h.symm⟩

/-- a component with a leftover dimension, for every shape -/
theorem quiver_extra_dims_refused {γ : Type} (centres : List γ) (u v : NArr (Option Rat)) (gd : List Dim)
    (hwf : u.WF) (hgn : (gd.map (·.1)).Nodup) (hsub : ∀ d ∈ gd, d ∈ u.dims)
    (d : Dim) (hd : d ∈ u.dims) (hextra : d.1 ∉ gd.map (·.1)) :
    makeQuiverChecked centres (gd.map (·.1)) u v = .valueError :=
  (quiver_dims_refused centres _ u v).2.1 (Or.inl (plotRavelled_extra u gd hwf hgn hsub d hd hextra))

/-! ### holes -/

theorem plottedValues_append {β : Type} : ∀ (p1 p2 : List (Option Poly)) (v1 v2 : List β), p1.length = v1.length →
    plottedValues (p1 ++ p2) (v1 ++ v2) = plottedValues p1 v1 ++ plottedValues p2 v2 := by
  intro p1 p2 v1 v2 h
  simp only [plottedValues]
  rw [List.zip_append h, List.filterMap_append]

/-- **`collection_holes_skip`: a hole contributes neither a patch nor a value, and does not shift the pairing of
later cells.**  The artist built from cells `pre ++ [hole] ++ post` with values `vpre ++ [x] ++ vpost` is the artist
built from `pre ++ post` with `vpre ++ vpost`: the hole's value `x` (whatever it is) appears nowhere, every later
cell keeps its own value. -/
theorem collection_holes_skip {β : Type} (pre post : List (Option Poly)) (vpre vpost : List β) (x : β)
    (h : pre.length = vpre.length) :
    plottedPaths (pre ++ none :: post) = plottedPaths (pre ++ post) ∧
    plottedValues (pre ++ none :: post) (vpre ++ x :: vpost) = plottedValues (pre ++ post) (vpre ++ vpost) := by
  constructor
  · simp [plottedPaths]
  · rw [plottedValues_append _ _ _ _ h, plottedValues_append _ _ _ _ h]
    simp [plottedValues]

/-- the same at the level of `make_poly_collection`: same paths, same array, same limits -/
theorem collection_holes_skip_artist (pre post : List (Option Poly)) (vpre vpost : List (Option Rat)) (x : Option Rat)
    (h : pre.length = vpre.length) (ov : PlotOverrides) :
    makePolyCollection (pre ++ none :: post) (some (some (vpre ++ x :: vpost))) ov =
      makePolyCollection (pre ++ post) (some (some (vpre ++ vpost))) ov := by
  obtain ⟨h1, h2⟩ := collection_holes_skip pre post vpre vpost x h
  simp only [makePolyCollection, h1, h2]

/-! ### colour limits -/

theorem mem_plottedValues {β : Type} (polys : List (Option Poly)) (values : List β) (x : β) :
    x ∈ plottedValues polys values ↔ ∃ (n : Nat) (q : Poly), polys[n]? = some (some q) ∧ values[n]? = some x := by
  simp only [plottedValues, List.mem_filterMap]
  constructor
  · rintro ⟨⟨p, v⟩, hmem, hx⟩
    cases p with
    | none => simp at hx
    | some q =>
      simp only [Option.isSome_some, if_true, Option.some.injEq] at hx
      subst hx
      obtain ⟨n, hn⟩ := List.getElem?_of_mem hmem
      rw [List.getElem?_zip_eq_some] at hn
      exact ⟨n, q, hn.1, hn.2⟩
  · rintro ⟨n, q, hp, hv⟩
    exact ⟨(some q, x), List.mem_of_getElem? (List.getElem?_zip_eq_some.mpr ⟨hp, hv⟩), by simp⟩

/-- **`clim_within_values`: the default colour limits are attained by plotted cells.**  When
`make_poly_collection(data_array)` is called without `clim`, both limits are values of cells that have a polygon
(the value of a hole never sets a limit), and every value handed to the artist lies between them. -/
theorem clim_within_values (polys : List (Option Poly)) (values : List (Option Rat)) (paths : List Poly)
    (arr : List (Option Rat)) (lo hi : Rat)
    (h : makePolyCollection polys (some (some values)) {} = .ok paths (some arr) (some (lo, hi))) :
    arr = plottedValues polys values ∧
    (∃ (n : Nat) (q : Poly), polys[n]? = some (some q) ∧ values[n]? = some (some lo)) ∧
    (∃ (n : Nat) (q : Poly), polys[n]? = some (some q) ∧ values[n]? = some (some hi)) ∧
    (∀ x, some x ∈ arr → lo ≤ x ∧ x ≤ hi) := by
  simp only [makePolyCollection, Bool.false_eq_true, if_false, Option.isNone_none, Bool.and_true] at h
  split at h
  · cases h
  · simp only [PlotResult.ok.injEq, Option.some.injEq] at h
    obtain ⟨_, harr, hclim⟩ := h
    subst harr
    obtain ⟨hall, hlo, hhi⟩ := clim_spec _ lo hi hclim
    exact ⟨rfl, (mem_plottedValues polys values _).mp hlo, (mem_plottedValues polys values _).mp hhi, hall⟩

/-! ### the order of the cells does not matter -/

/-- the default limits depend only on which values are present -/
theorem clim_congr (v w : List (Option Rat)) (h : ∀ x, some x ∈ v ↔ some x ∈ w) : defaultClim v = defaultClim w := by
  cases hv : defaultClim v with
  | none =>
    have := (clim_none_iff v).mp hv
    exact ((clim_none_iff w).mpr fun x hx => this x ((h x).mpr hx)).symm
  | some a =>
    obtain ⟨lo, hi⟩ := a
    cases hw : defaultClim w with
    | none =>
      have := (clim_none_iff w).mp hw
      obtain ⟨_, hlo, _⟩ := clim_spec v lo hi hv
      exact absurd ((h lo).mp hlo) (this lo)
    | some b =>
      obtain ⟨lo', hi'⟩ := b
      obtain ⟨hall, hlo, hhi⟩ := clim_spec v lo hi hv
      obtain ⟨hall', hlo', hhi'⟩ := clim_spec w lo' hi' hw
      have e1 : lo = lo' := le_antisymm (hall _ ((h _).mpr hlo')).1 (hall' _ ((h _).mp hlo)).1
      have e2 : hi = hi' := le_antisymm (hall' _ ((h _).mp hhi)).2 (hall _ ((h _).mpr hhi')).2
      rw [e1, e2]

/-- **`collection_perm_invariant`: listing the cells in another order permutes the patches with their values and
leaves the limits alone.**  If the (polygon, value) pairs of two datasets are a permutation of one another, so are
the (patch, value) pairs of the two artists — each patch keeps its own value — and the default colour limits are
equal. -/
theorem collection_perm_invariant (polys polys' : List (Option Poly)) (values values' : List (Option Rat))
    (h : polys.length = values.length) (h' : polys'.length = values'.length)
    (hperm : (polys.zip values).Perm (polys'.zip values')) :
    ((plottedPaths polys).zip (plottedValues polys values)).Perm
      ((plottedPaths polys').zip (plottedValues polys' values')) ∧
    defaultClim (plottedValues polys values) = defaultClim (plottedValues polys' values') := by
  constructor
  · rw [collection_pairs polys values h, collection_pairs polys' values' h']
    exact hperm.filterMap _
  · apply clim_congr
    intro x
    have hp : (plottedValues polys values).Perm (plottedValues polys' values') := by
      simp only [plottedValues]
      exact hperm.filterMap _
    exact hp.mem_iff

/-! ### non-vacuity -/
def exVar : NArr (Option Rat) := { dims := [("t", 2), ("y", 1), ("x", 3)], data := [some 1, some 2, some 3, some 4, some 5, some 6] }
def exFlat : NArr (Option Rat) := { dims := [("x", 3), ("y", 1)], data := [some 1, some 2, some 3] }
example : exVar.WF ∧ exFlat.WF := ⟨⟨by decide, by decide⟩, ⟨by decide, by decide⟩⟩
/-- a (t, y, x) variable on a (y, x) grid: refused; a (x, y) variable: plotted in grid order -/
example : plotRavelled exVar ["y", "x"] = none := by decide +kernel
example : plotRavelled exFlat ["y", "x"] = some [some 1, some 2, some 3] := by decide +kernel
example : plottedValues (exPolys ++ none :: exPolys) ([some (5 : Rat), some 7, none] ++ some 99 :: [some 1, some 2, some 3])
    = [some 5, none, some 1, some 3] := by decide +kernel
example : makePolyCollection exPolys (some (some [some 5, some 100, some 3])) {} =
    .ok (plottedPaths exPolys) (some [some 5, some 3]) (some (3, 5)) := by
  simp only [makePolyCollection, Bool.false_eq_true, if_false]
  rw [show plottedValues exPolys [some (5 : Rat), some 100, some 3] = [some 5, some 3] by decide +kernel]
  rw [show defaultClim [some (5 : Rat), some 3] = some (3, 5) by decide +kernel]
  rfl

end Ems.C19
