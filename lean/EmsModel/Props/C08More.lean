import EmsModel.Props.C08
/-!
# C08, continued — the crop contains every marked cell and is tight; masking and cropping twice change nothing
more; selecting rows twice is selecting the composed rows

About `NArr.maskBounds` / `trueBounds` / `cropShift` (`masking.calculate_grid_mask_bounds`), `NArr.whereMask`
(`mask_grid_data_array`) and `NArr.selectRows` / `NArr.keptRows` (`UGrid.apply_clip_mask`) of `Core/Clip.lean`.
Every statement is for masks and variables of any rank, any dimension order, any size.
-/
namespace Ems.C08
open Ems Ems.NArr

variable {α : Type}

/-! ### helpers -/

theorem find_dims : ∀ (dims : List Dim), (dims.map (·.1)).Nodup → ∀ d ∈ dims,
    dims.find? (·.1 == d.1) = some d
  | [], _, d, hd => by simp at hd
  | x :: xs, hn, d, hd => by
    have hn' : x.1 ∉ xs.map (·.1) ∧ (xs.map (·.1)).Nodup := List.nodup_cons.mp hn
    rcases List.mem_cons.mp hd with h | h
    · subst h; simp
    · have hne : x.1 ≠ d.1 := by
        intro heq
        apply hn'.1
        rw [heq]
        exact List.mem_map_of_mem h
      have hb : (x.1 == d.1) = false := by simp [hne]
      rw [List.find?_cons, hb]
      exact find_dims xs hn'.2 d h

theorem lookup_filterMap_self {β : Type} (f : String → Option β) : ∀ (names : List String) (d : String) (b : β),
    d ∈ names → f d = some b → List.lookup d (names.filterMap fun x => (f x).map fun y => (x, y)) = some b
  | [], d, b, hd, _ => by simp at hd
  | n :: ns, d, b, hd, hf => by
    by_cases h : d = n
    · subst h
      simp [hf]
    · have hd' : d ∈ ns := by
        rcases List.mem_cons.mp hd with h' | h'
        · exact absurd h' h
        · exact h'
      have ih := lookup_filterMap_self f ns d b hd' hf
      have hb : (d == n) = false := by simp [h]
      cases hfn : f n with
      | none => simp [hfn, ih]
      | some y => simp [hfn, List.lookup_cons, hb, ih]

theorem trueBounds_isSome (l : List Bool) (k : Nat) (h : l[k]? = some true) : ∃ lo hi, trueBounds l = some (lo, hi) := by
  have hmem : true ∈ l := List.mem_of_getElem? h
  cases h1 : l.idxOf? true with
  | none => rw [List.idxOf?_eq_none_iff] at h1; exact absurd hmem h1
  | some lo => exact ⟨lo, l.length - (l.reverse.idxOf? true).getD 0, by simp [trueBounds, h1]⟩

/-- the flags `calculate_grid_mask_bounds` computes for one dimension: entry `k` is "some marked cell has index
`k` along `d`" -/
theorem anyAlong_get (m : NArr Bool) (hwf : m.WF) (d : Dim) (hd : d ∈ m.dims) (k : Nat) :
    (m.anyAlong d.1)[k]? = some true ↔
      k < d.2 ∧ ∃ p idx, unravel m.shape p = some idx ∧ List.lookup d.1 (m.names.zip idx) = some k ∧
        m.data[p]? = some true := by
  have hfind := find_dims m.dims hwf.2 d hd
  simp only [anyAlong, hfind]
  constructor
  · intro h
    have hk : k < d.2 := by
      have := (List.getElem?_eq_some_iff.mp h).1
      simpa using this
    refine ⟨hk, ?_⟩
    simp only [List.getElem?_map, List.getElem?_range hk, Option.map_some, Option.some.injEq,
      List.any_eq_true, List.mem_range] at h
    obtain ⟨p, hp, hq⟩ := h
    cases hu : unravel m.shape p with
    | none => simp [hu] at hq
    | some idx =>
      simp only [hu, Bool.and_eq_true, beq_iff_eq] at hq
      refine ⟨p, idx, hu, hq.1, ?_⟩
      rw [List.getElem?_eq_getElem hp]
      have := hq.2
      simp [List.getD_eq_getElem?_getD, List.getElem?_eq_getElem hp] at this
      rw [this]
  · rintro ⟨hk, p, idx, hu, hl, hdat⟩
    have hp : p < m.data.length := (List.getElem?_eq_some_iff.mp hdat).1
    simp only [List.getElem?_map, List.getElem?_range hk, Option.map_some, Option.some.injEq,
      List.any_eq_true, List.mem_range]
    refine ⟨p, hp, ?_⟩
    simp [hu, hl, List.getD_eq_getElem?_getD, hdat]

theorem anyAlong_length (m : NArr Bool) (hwf : m.WF) (d : Dim) (hd : d ∈ m.dims) :
    (m.anyAlong d.1).length = d.2 := by
  simp [anyAlong, find_dims m.dims hwf.2 d hd]

/-- what an in-range environment reads -/
theorem get_at (a : NArr α) (e : Env) (v : String → Nat)
    (hv : ∀ d ∈ a.dims, e.get d.1 = some (v d.1) ∧ v d.1 < d.2) :
    ∃ p, ravel a.shape (a.names.map v) = some p ∧ unravel a.shape p = some (a.names.map v) ∧
      a.get? e = a.data[p]? := by
  have hidx : e.index a.names = some (a.names.map v) :=
    index_of_fun e v a.names (by
      intro d hd
      obtain ⟨d', hd', rfl⟩ := List.mem_map.mp hd
      exact (hv d' hd').1)
  have hr : InRange a.shape (a.names.map v) := inRange_map v a.dims (fun d hd => (hv d hd).2)
  obtain ⟨n, hn⟩ := inRange_ravel _ _ hr
  exact ⟨n, hn, unravel_of_ravel _ _ _ hn, by simp [get?, hidx, hn]⟩

/-! ### the crop -/

/-- **The crop contains every marked cell, for every rank.**  Let `bounds` be what
`calculate_grid_mask_bounds` computes for a mask of any number of dimensions.  A cell the mask marks lies inside
the slice of every dimension: `lo ≤ index < hi ≤ size`. So cropping never cuts a selected cell away. -/
theorem crop_contains_all_marked (m : NArr Bool) (hwf : m.WF) (bounds : List (String × Nat × Nat))
    (hb : m.maskBounds = some bounds) (e : Env) (v : String → Nat)
    (hv : ∀ d ∈ m.dims, e.get d.1 = some (v d.1) ∧ v d.1 < d.2) (hmarked : m.get? e = some true) :
    ∀ d ∈ m.dims, ∃ lo hi, List.lookup d.1 bounds = some (lo, hi) ∧ lo ≤ v d.1 ∧ v d.1 < hi ∧ hi ≤ d.2 := by
  intro d hd
  obtain ⟨p, _, hun, hget⟩ := get_at m e v hv
  rw [hget] at hmarked
  have hname : d.1 ∈ m.names := List.mem_map_of_mem hd
  have hflag : (m.anyAlong d.1)[v d.1]? = some true :=
    (anyAlong_get m hwf d hd (v d.1)).mpr
      ⟨(hv d hd).2, p, _, hun, lookup_zip_map v m.names hwf.2 d.1 hname, hmarked⟩
  obtain ⟨lo, hi, htb⟩ := trueBounds_isSome _ _ hflag
  obtain ⟨_, hbelow, _, hlen, _, habove⟩ := trueBounds_spec _ lo hi htb
  refine ⟨lo, hi, ?_, ?_, ?_, ?_⟩
  · simp only [maskBounds] at hb
    split at hb
    · simp at hb
    · rw [← Option.some.inj hb]
      exact lookup_filterMap_self (fun x => trueBounds (m.anyAlong x)) m.names d.1 (lo, hi) hname htb
  · exact Nat.le_of_not_lt fun hlt => hbelow _ hlt hflag
  · exact Nat.lt_of_not_le fun hle => habove _ hle hflag
  · rw [anyAlong_length m hwf d hd] at hlen; exact hlen

/-- **The crop is tight.**  On every dimension the first and the last kept index each hold a marked cell: the
slice `[lo, hi)` cannot be shortened at either end without losing a selected cell. -/
theorem crop_tight (m : NArr Bool) (hwf : m.WF) (bounds : List (String × Nat × Nat))
    (hb : m.maskBounds = some bounds) (d : Dim) (hd : d ∈ m.dims) (lo hi : Nat)
    (hl : List.lookup d.1 bounds = some (lo, hi)) :
    (∃ e : Env, m.get? e = some true ∧ e.get d.1 = some lo) ∧
    (∃ e : Env, m.get? e = some true ∧ e.get d.1 = some (hi - 1)) := by
  have hname : d.1 ∈ m.names := List.mem_map_of_mem hd
  -- the bounds of `d` are `trueBounds` of its flags
  have htb : trueBounds (m.anyAlong d.1) = some (lo, hi) := by
    simp only [maskBounds] at hb
    split at hb
    · simp at hb
    · rw [← Option.some.inj hb] at hl
      cases ht : trueBounds (m.anyAlong d.1) with
      | none =>
        -- then `d` has no entry at all
        exfalso
        have : ∀ (names : List String),
            List.lookup d.1 (names.filterMap fun x => (trueBounds (m.anyAlong x)).map fun y => (x, y)) = none := by
          intro names
          induction names with
          | nil => rfl
          | cons n ns ih =>
            by_cases h : d.1 = n
            · subst h; simp [ht, ih]
            · have hbq : (d.1 == n) = false := by simp [h]
              cases hfn : trueBounds (m.anyAlong n) with
              | none => simp [hfn, ih]
              | some y => simp [hfn, List.lookup_cons, hbq, ih]
        rw [this m.names] at hl
        simp at hl
      | some b =>
        have := lookup_filterMap_self (fun x => trueBounds (m.anyAlong x)) m.names d.1 b hname ht
        rw [this] at hl
        rw [Option.some.inj hl]
  obtain ⟨hlo, _, _, _, hhi, _⟩ := trueBounds_spec _ lo hi htb
  have witness : ∀ k, (m.anyAlong d.1)[k]? = some true → ∃ e : Env, m.get? e = some true ∧ e.get d.1 = some k := by
    intro k hk
    obtain ⟨_, p, idx, hu, hlk, hdat⟩ := (anyAlong_get m hwf d hd k).mp hk
    refine ⟨m.names.zip idx, ?_, hlk⟩
    have hlen : m.names.length = idx.length := by
      rw [unravel_length _ _ _ hu]; simp [names, shape]
    simp only [get?, index_zip m.names idx hwf.2 hlen, ravel_of_unravel _ _ _ hu]
    exact hdat
  exact ⟨witness lo hlo, witness (hi - 1) hhi⟩

/-- **Cropping preserves order** (and so never duplicates or merges positions): along every dimension the map
from a position of the cropped array to the position it was read from is strictly increasing. With `crop_get`
(position `k` reads position `k + lo`): the cropped array is a contiguous window of the original, in the
original order. -/
theorem crop_preserves_order (bounds : List (String × Nat × Nat)) (d : String) (x y : Nat) :
    (x < y ↔ cropShift bounds d x < cropShift bounds d y) ∧
    (cropShift bounds d x = cropShift bounds d y ↔ x = y) := by
  unfold cropShift
  cases List.lookup d bounds with
  | none => simp
  | some b =>
    obtain ⟨lo, hi⟩ := b
    show (x < y ↔ x + lo < y + lo) ∧ (x + lo = y + lo ↔ x = y)
    omega

/-- **Cropping an already cropped mask crops nothing.**  If `[lo, hi)` are the bounds of a row of flags, the
bounds of the flags restricted to that window are the whole window `[0, hi − lo)`: a second clip with the (cropped)
mask keeps every row and column of the first. -/
theorem crop_bounds_idempotent (l : List Bool) (lo hi : Nat) (h : trueBounds l = some (lo, hi)) :
    trueBounds ((l.drop lo).take (hi - lo)) = some (0, hi - lo) := by
  obtain ⟨hlo, _, hlt, hlen, hhi, _⟩ := trueBounds_spec l lo hi h
  have hlen' : ((l.drop lo).take (hi - lo)).length = hi - lo := by
    simp only [List.length_take, List.length_drop]; omega
  have hfirst : ((l.drop lo).take (hi - lo))[0]? = some true := by
    rw [List.getElem?_take_of_lt (by omega), List.getElem?_drop]; simpa using hlo
  have hlast : ((l.drop lo).take (hi - lo))[hi - lo - 1]? = some true := by
    rw [List.getElem?_take_of_lt (by omega), List.getElem?_drop]
    have : lo + (hi - lo - 1) = hi - 1 := by omega
    rw [this]; exact hhi
  generalize (l.drop lo).take (hi - lo) = w at hlen' hfirst hlast
  have h1 : w.idxOf? true = some 0 := by
    cases w with
    | nil => simp at hfirst
    | cons a as =>
      simp only [List.getElem?_cons_zero, Option.some.injEq] at hfirst
      subst hfirst
      simp [List.idxOf?_cons]
  have h2 : w.reverse.idxOf? true = some 0 := by
    have hr : w.reverse[0]? = some true := by
      rw [List.getElem?_reverse (by omega)]
      have : w.length - 1 - 0 = hi - lo - 1 := by omega
      rw [this]; exact hlast
    cases hw : w.reverse with
    | nil => rw [hw] at hr; simp at hr
    | cons a as =>
      rw [hw] at hr
      simp only [List.getElem?_cons_zero, Option.some.injEq] at hr
      subst hr
      simp [List.idxOf?_cons]
  simp [trueBounds, h1, h2, hlen']

/-! ### masking twice -/

theorem whereMask_wf [Inhabited α] (a : NArr (Option α)) (mask : NArr Bool) (hwf : a.WF) :
    (a.whereMask mask).WF ∧ (a.whereMask mask).dims = a.dims := by
  refine ⟨⟨?_, ?_⟩, rfl⟩
  · simp [whereMask, ofFn_length, shape, ofFn_dims]
  · exact hwf.2

/-- **Masking is idempotent**: applying `where(mask, fill)` with the same mask to an already masked variable
changes nothing — every position reads what it read after the first application (the kept values are kept again,
the blanked ones are blanked again). -/
theorem where_idempotent [Inhabited α] (a : NArr (Option α)) (mask : NArr Bool) (e : Env) (v : String → Nat)
    (hwf : a.WF) (hv : ∀ d ∈ a.dims, e.get d.1 = some (v d.1) ∧ v d.1 < d.2)
    (hsub : ∀ d ∈ mask.names, d ∈ a.names) (b : Bool) (hb : mask.get? e = some b) :
    ((a.whereMask mask).whereMask mask).get? e = (a.whereMask mask).get? e := by
  obtain ⟨hwf', hdims⟩ := whereMask_wf a mask hwf
  have hnames : (a.whereMask mask).names = a.names := by simp [names, hdims]
  rw [where_get (a.whereMask mask) mask e v hwf' (by rw [hdims]; exact hv) (by rw [hnames]; exact hsub) b hb]
  cases b with
  | true => rfl
  | false => rw [where_get a mask e v hwf hv hsub false hb]; rfl

/-! ### selecting rows twice -/

/-- the mask over the original rows that selecting by `k1` and then by `k2` (a mask over the rows `k1` kept)
amounts to: row `i` survives both iff `k1` keeps it and `k2` keeps its position among the kept rows -/
def composeKeep : List Bool → List Bool → List Bool
  | [], _ => []
  | false :: k1, k2 => false :: composeKeep k1 k2
  | true :: k1, [] => false :: composeKeep k1 []
  | true :: k1, b :: k2 => b :: composeKeep k1 k2

theorem keptRows_cons (b : Bool) (bs : List Bool) :
    keptRows (b :: bs) = (if b then [0] else []) ++ (keptRows bs).map (· + 1) := by
  simp only [keptRows, List.length_cons]
  rw [List.range_succ_eq_map, List.filter_cons]
  simp only [List.getD_cons_zero, List.filter_map]
  cases b <;> simp [Function.comp_def]

theorem keptRows_lt (keep : List Bool) : ∀ k ∈ keptRows keep, k < keep.length := by
  intro k hk
  exact List.mem_range.mp (List.mem_filter.mp hk).1

theorem keptRows_length_le (keep : List Bool) : (keptRows keep).length ≤ keep.length := by
  have := List.length_filter_le (fun i => keep.getD i false) (List.range keep.length)
  simpa [keptRows] using this

theorem map_getD_shift (l : List Nat) : ∀ (ks : List Nat), (∀ k ∈ ks, k < l.length) →
    ks.map (fun k => (l.map (· + 1)).getD k 0) = (ks.map fun k => l.getD k 0).map (· + 1) := by
  intro ks h
  rw [List.map_map]
  apply List.map_congr_left
  intro k hk
  have := h k hk
  simp [List.getD_eq_getElem?_getD, List.getElem?_eq_getElem this]

/-- **Row selections compose** (list level): the rows that survive selecting by `k1` and then by `k2`, named by
their original positions, are the rows the composed mask keeps — in the same (original) order. -/
theorem keptRows_compose : ∀ (k1 k2 : List Bool), k2.length ≤ (keptRows k1).length →
    (keptRows k2).map (fun k => (keptRows k1).getD k 0) = keptRows (composeKeep k1 k2)
  | [], k2, h => by
    have : k2 = [] := by
      cases k2 with
      | nil => rfl
      | cons b bs => simp [keptRows] at h
    subst this; rfl
  | false :: k1, k2, h => by
    have h' : k2.length ≤ (keptRows k1).length := by simpa [keptRows_cons] using h
    have ih := keptRows_compose k1 k2 h'
    simp only [composeKeep, keptRows_cons, Bool.false_eq_true, if_false, List.nil_append]
    rw [map_getD_shift _ _ (fun k hk => Nat.lt_of_lt_of_le (keptRows_lt k2 k hk) h'), ih]
  | true :: k1, [], _ => by
    have ih := keptRows_compose k1 [] (Nat.zero_le _)
    simp only [composeKeep, keptRows_cons, Bool.false_eq_true, if_false, List.nil_append]
    rw [← ih]; rfl
  | true :: k1, b :: k2, h => by
    have h' : k2.length ≤ (keptRows k1).length := by
      simp only [keptRows_cons, if_true, List.length_append, List.length_cons, List.length_nil, List.length_map] at h
      omega
    have ih := keptRows_compose k1 k2 h'
    simp only [composeKeep, keptRows_cons, if_true]
    rw [List.map_append, List.map_map]
    have hshift : (keptRows k2).map ((fun k => ([0] ++ (keptRows k1).map (· + 1)).getD k 0) ∘ (· + 1)) =
        (keptRows k2).map (fun k => ((keptRows k1).map (· + 1)).getD k 0) := by
      apply List.map_congr_left
      intro k _
      simp [List.getD_eq_getElem?_getD]
    rw [hshift, map_getD_shift _ _ (fun k hk => Nat.lt_of_lt_of_le (keptRows_lt k2 k hk) h'), ih]
    cases b <;> simp [List.getD_eq_getElem?_getD]

theorem selectRows_wf [Inhabited α] (a : NArr α) (dim : String) (keep : List Bool) (hwf : a.WF) :
    (a.selectRows dim keep).WF ∧
    (a.selectRows dim keep).dims = a.dims.map fun x => (x.1, if x.1 == dim then (keptRows keep).length else x.2) := by
  refine ⟨⟨?_, ?_⟩, rfl⟩
  · simp [selectRows, ofFn_length, shape, ofFn_dims]
  · have : (a.selectRows dim keep).names = a.names := by
      simp [selectRows, names, ofFn_dims, List.map_map, Function.comp_def]
    rw [this]; exact hwf.2

/-- **`mesh_rows_compose`: selecting the kept faces and then a sub-selection of them is selecting the composed
rows.**  For a variable of any rank: the array obtained by boolean row selection along the mesh dimension with
`k1` and then with `k2` (a mask over the rows that `k1` kept) reads, at every position, what the single selection
with `composeKeep k1 k2` reads — the value of the original row `keptRows k1 [keptRows k2 [r]]`. -/
theorem mesh_rows_compose [Inhabited α] (a : NArr α) (dim : String) (k1 k2 : List Bool) (e : Env)
    (v : String → Nat) (hwf : a.WF) (hk : k2.length = (keptRows k1).length)
    (hk1 : ∀ d ∈ a.dims, d.1 = dim → k1.length = d.2)
    (hv : ∀ d ∈ a.dims, e.get d.1 = some (v d.1) ∧
      v d.1 < (if d.1 == dim then (keptRows k2).length else d.2)) :
    ((a.selectRows dim k1).selectRows dim k2).get? e = (a.selectRows dim (composeKeep k1 k2)).get? e := by
  have hcomp := keptRows_compose k1 k2 (Nat.le_of_eq hk)
  have hlen : (keptRows (composeKeep k1 k2)).length = (keptRows k2).length := by
    rw [← hcomp]; simp
  obtain ⟨hwf1, hdims1⟩ := selectRows_wf a dim k1 hwf
  -- reading index `x` of the twice-selected dimension
  have hidx : ∀ x, x < (keptRows k2).length →
      (keptRows (composeKeep k1 k2)).getD x 0 = (keptRows k1).getD ((keptRows k2).getD x 0) 0 := by
    intro x hx
    rw [← hcomp]
    simp [List.getD_eq_getElem?_getD, List.getElem?_eq_getElem hx]
  have hk2lt : ∀ x, x < (keptRows k2).length → (keptRows k2).getD x 0 < (keptRows k1).length := by
    intro x hx
    rw [← hk]
    apply keptRows_lt k2
    simp [List.getD_eq_getElem?_getD, List.getElem?_eq_getElem hx]
  have hk1lt : ∀ y, y < (keptRows k1).length → (keptRows k1).getD y 0 < k1.length := by
    intro y hy
    apply keptRows_lt k1
    simp [List.getD_eq_getElem?_getD, List.getElem?_eq_getElem hy]
  -- the right-hand side
  have hR := selectRows_get a dim (composeKeep k1 k2) e v hwf
    (by intro d hd; rw [hlen]; exact hv d hd)
    (by
      intro d hd
      have := (hv d hd).2
      by_cases hdd : d.1 = dim
      · have hb : (d.1 == dim) = true := by simp [hdd]
        simp only [hb, if_true] at this ⊢
        rw [hidx _ this, ← hk1 d hd hdd]
        exact hk1lt _ (hk2lt _ this)
      · have hb : (d.1 == dim) = false := by simp [hdd]
        simp only [hb, Bool.false_eq_true, if_false] at this ⊢
        exact this)
  -- the left-hand side, outer selection
  have hL2 := selectRows_get (a.selectRows dim k1) dim k2 e v hwf1
    (by
      intro d hd
      rw [hdims1] at hd
      obtain ⟨d', hd', rfl⟩ := List.mem_map.mp hd
      refine ⟨(hv d' hd').1, ?_⟩
      have := (hv d' hd').2
      by_cases hdd : d'.1 = dim
      · have hb : (d'.1 == dim) = true := by simp [hdd]
        simp only [hb, if_true] at this ⊢
        exact this
      · have hb : (d'.1 == dim) = false := by simp [hdd]
        simp only [hb, Bool.false_eq_true, if_false] at this ⊢
        exact this)
    (by
      intro d hd
      rw [hdims1] at hd
      obtain ⟨d', hd', rfl⟩ := List.mem_map.mp hd
      have := (hv d' hd').2
      by_cases hdd : d'.1 = dim
      · have hb : (d'.1 == dim) = true := by simp [hdd]
        simp only [hb, if_true] at this ⊢
        exact hk2lt _ this
      · have hb : (d'.1 == dim) = false := by simp [hdd]
        simp only [hb, Bool.false_eq_true, if_false] at this ⊢
        exact this)
  -- the left-hand side, inner selection, at the environment shifted by the outer one
  let g2 : String → Nat → Nat := fun d x => if d == dim then (keptRows k2).getD x 0 else x
  have hL1 := selectRows_get a dim k1 (e.map fun p => (p.1, g2 p.1 p.2)) (fun d => g2 d (v d)) hwf
    (by
      intro d hd
      have := hv d hd
      refine ⟨?_, ?_⟩
      · simp only [Env.get]
        rw [lookup_map_values g2 e d.1]
        have h1 := this.1
        simp only [Env.get] at h1
        rw [h1]; rfl
      · by_cases hdd : d.1 = dim
        · have hb : (d.1 == dim) = true := by simp [hdd]
          have h2 := this.2
          simp only [hb, if_true] at h2 ⊢
          simp only [g2, hb, if_true]
          exact hk2lt _ h2
        · have hb : (d.1 == dim) = false := by simp [hdd]
          have h2 := this.2
          simp only [hb, Bool.false_eq_true, if_false] at h2 ⊢
          simp only [g2, hb, Bool.false_eq_true, if_false]
          exact h2)
    (by
      intro d hd
      have := (hv d hd).2
      by_cases hdd : d.1 = dim
      · have hb : (d.1 == dim) = true := by simp [hdd]
        simp only [hb, if_true] at this ⊢
        simp only [g2, hb, if_true]
        rw [← hk1 d hd hdd]
        exact hk1lt _ (hk2lt _ this)
      · have hb : (d.1 == dim) = false := by simp [hdd]
        simp only [hb, Bool.false_eq_true, if_false] at this ⊢
        simp only [g2, hb, Bool.false_eq_true, if_false]
        exact this)
  rw [hL2, hR]
  have hmap : (e.map fun p => (p.1, if p.1 == dim then (keptRows k2).getD p.2 0 else p.2)) =
      e.map fun p => (p.1, g2 p.1 p.2) := rfl
  rw [hmap, hL1]
  -- both sides read `a`; the environments agree on every dimension of `a`
  apply get_congr
  intro d hd
  obtain ⟨d', hd', rfl⟩ := List.mem_map.mp hd
  have hvd := hv d' hd'
  let g1 : String → Nat → Nat := fun d x => if d == dim then (keptRows k1).getD x 0 else x
  let gc : String → Nat → Nat := fun d x => if d == dim then (keptRows (composeKeep k1 k2)).getD x 0 else x
  have e1 : ((e.map fun p => (p.1, g2 p.1 p.2)).map fun p => (p.1, if p.1 == dim then (keptRows k1).getD p.2 0 else p.2)) =
      (e.map fun p => (p.1, g2 p.1 p.2)).map fun p => (p.1, g1 p.1 p.2) := rfl
  have e2 : (e.map fun p => (p.1, if p.1 == dim then (keptRows (composeKeep k1 k2)).getD p.2 0 else p.2)) =
      e.map fun p => (p.1, gc p.1 p.2) := rfl
  rw [e1, e2]
  simp only [Env.get]
  rw [lookup_map_values g1, lookup_map_values g2, lookup_map_values gc]
  have h1 := hvd.1
  simp only [Env.get] at h1
  rw [h1]
  simp only [Option.map_some, Option.some.injEq]
  by_cases hdd : d'.1 = dim
  · have hb : (d'.1 == dim) = true := by simp [hdd]
    have h2 := hvd.2
    simp only [hb, if_true] at h2
    simp only [g1, g2, gc, hb, if_true]
    exact (hidx _ h2).symm
  · have hb : (d'.1 == dim) = false := by simp [hdd]
    simp only [g1, g2, gc, hb, Bool.false_eq_true, if_false]

/-! ### non-vacuity -/
def exMask3 : NArr Bool :=
  { dims := [("t", 2), ("y", 3), ("x", 3)]
    data := [false, false, false, false, true, false, false, false, false,
             false, false, false, false, false, true, false, false, true] }
example : exMask3.WF := ⟨by decide, by decide⟩
example : exMask3.maskBounds = some [("t", 0, 2), ("y", 1, 3), ("x", 1, 3)] := by decide +kernel
/-- the marked cell (t, y, x) = (1, 2, 2) meets the hypotheses of `crop_contains_all_marked` -/
example : exMask3.get? [("x", 2), ("t", 1), ("y", 2)] = some true := by decide +kernel
example : trueBounds [false, true, false, true, false] = some (1, 4) ∧
    trueBounds (([false, true, false, true, false].drop 1).take (4 - 1)) = some (0, 3) := by decide
example : composeKeep [true, false, true, true, false, true] [false, true, true, false] =
    [false, false, true, true, false, false] := by decide
example : (keptRows [false, true, true, false]).map (fun k => (keptRows [true, false, true, true, false, true]).getD k 0)
    = keptRows (composeKeep [true, false, true, true, false, true] [false, true, true, false]) := by decide
def exRows : NArr Nat := { dims := [("t", 2), ("face", 6)], data := [0, 1, 2, 3, 4, 5, 10, 11, 12, 13, 14, 15] }
example : (((exRows.selectRows "face" [true, false, true, true, false, true]).selectRows "face" [false, true, true, false]).data
    = [2, 3, 12, 13]) ∧
    (exRows.selectRows "face" (composeKeep [true, false, true, true, false, true] [false, true, true, false])).data
    = [2, 3, 12, 13] := by decide +kernel

end Ems.C08
