import EmsModel.Gen.DimsSrc
import EmsModel.Core.Named
/-
Props/C03Src.lean — property C03, tied to the source text.

`Gen/DimsSrc.lean` is regenerated on every run from the source of `utils.move_dimensions_to_end`, `ravel_dimensions`,
`wind_dimension`, `splice_tuple` and `find_unused_dimension`.  The theorems below prove that the generated expressions
compute exactly the dimension lists and shapes the model functions `NArr.moveToEnd`, `NArr.ravelDims`, `NArr.windDim`,
`NArr.splice`, `NArr.findUnused` (the ones the theorems of `Props/C03.lean` are about) use — for arrays of every rank
and every position of the dimensions involved.
-/
namespace Ems.C03
open Ems.DimsSrc Ems.Gen.DimsSrc

/-! ### auxiliary facts: names as atoms -/

theorem nm_injective : Function.Injective Atom.nm := fun _ _ h => by cases h; rfl

theorem contains_map_nm (m : List String) (d : String) : (m.map Atom.nm).contains (Atom.nm d) = m.contains d := by
  rw [Bool.eq_iff_iff]
  simp only [List.contains_iff_mem, List.mem_map]
  constructor
  · rintro ⟨a, ha, he⟩
    cases he
    exact ha
  · intro h
    exact ⟨d, h, rfl⟩

theorem filter_map_nm (l m : List String) :
    (l.map Atom.nm).filter (fun x => !(m.map Atom.nm).contains x)
      = (l.filter (fun d => !m.contains d)).map Atom.nm := by
  induction l with
  | nil => rfl
  | cons x xs ih =>
    simp only [List.map_cons, List.filter_cons, contains_map_nm, ih]
    split <;> simp

theorem idxOf_map_nm (l : List String) (d : String) : (l.map Atom.nm).idxOf? (Atom.nm d) = l.idxOf? d := by
  induction l with
  | nil => rfl
  | cons x xs ih =>
    simp only [List.map_cons, List.idxOf?_cons, ih]
    by_cases h : x = d
    · subst h; simp
    · have : Atom.nm x ≠ Atom.nm d := fun e => h (nm_injective e)
      simp [h, this]

theorem splice_map {β γ : Type} (f : β → γ) (l v : List β) (k : Nat) :
    NArr.splice (l.map f) k (v.map f) = (NArr.splice l k v).map f := by
  simp [NArr.splice, List.map_take, List.map_drop]

/-! ### `splice_tuple` -/

/-- **`splice_tuple(t, index, values)` as the source has it is `NArr.splice`**: the part of `t` before `index`, then
`values`, then the part of `t` after position `index` — for every tuple, every position (also past the end) and every
replacement. -/
theorem splice_generated (l v : List Atom) (k : Nat) :
    evalWith (fun _ _ _ => none) (env3 "t" (.tup l) "index" (.int (Int.ofNat k)) "values" (.tup v)) spliceBody
      = some (.tup (NArr.splice l k v)) := by
  have h1 : ("index" == "t") = false := by decide
  have h2 : ("values" == "t") = false := by decide
  have h3 : ("values" == "index") = false := by decide
  have hk : (0 : Int) ≤ Int.ofNat k := Int.natCast_nonneg k
  simp [spliceBody, evalWith, env3, h1, h2, h3, pySliceTo, pySliceFrom, NArr.splice, hk]

/-! ### `move_dimensions_to_end` -/

def envMove (dims dimensions : List String) : String → Option V :=
  fun s => if s == "dims" then some (names dims) else if s == "dimensions" then some (names dimensions) else none

/-- **The order `move_dimensions_to_end` hands to `transpose`, as the source has it**, is: the array's other dimensions
in their original order, then the requested dimensions in the requested order — the list `NArr.moveToEnd` transposes to —
for every array and every request. -/
theorem move_order_generated (dims dimensions : List String) :
    eval spliceBody (envMove dims dimensions) moveNewOrder
      = some (names (dims.filter (fun d => !dimensions.contains d) ++ dimensions)) := by
  have h1 : ("dimensions" == "dims") = false := by decide
  simp only [eval, moveNewOrder, evalWith, envMove, h1, names, beq_self_eq_true, if_true, Bool.false_eq_true,
    if_false, filter_map_nm, List.map_append]

/-- The source refuses a request naming a dimension the array lacks before doing anything else, and transposes unless
the dimensions are already in the requested order (then it returns the array as it is): the two structural facts
`NArr.moveToEnd` takes for granted. -/
theorem move_structure_generated : moveGuard = true ∧ moveTransposes = true := ⟨rfl, rfl⟩

/-! ### `ravel_dimensions` -/

def envRavel (dims : List String) (shape : List Nat) (dimensions : List String) (lin : String) : String → Option V :=
  fun s => if s == "dims" then some (names dims) else if s == "shape" then some (nums shape)
    else if s == "dimensions" then some (names dimensions)
    else if s == "linear_dimension" then some (.atom (.nm lin)) else none

theorem sliceTo_neg_len (l : List Atom) (n : Nat) (hn : 0 < n) :
    pySliceTo l (-(Int.ofNat n)) = l.take (l.length - n) := by
  have : ¬ (0 : Int) ≤ -(Int.ofNat n) := by
    simp only [Int.ofNat_eq_natCast]; omega
  unfold pySliceTo
  rw [if_neg this]
  congr 2
  simp

/-- **What `ravel_dimensions` keeps, names and tests, as the source has it.** For an array whose flattened dimensions
have been moved to the end (`ravelMovesFirst`), with at least one dimension to flatten: the kept dimensions are all but
the last `len(dimensions)`; the result's dimensions are the kept ones followed by the linear dimension; the shape handed
to `reshape` is the kept sizes followed by `-1`; the requested linear name is tested against exactly the kept
dimensions, and a hit raises — the expressions `NArr.ravelDims` is written with. -/
theorem ravel_dims_generated (mdims : List String) (mshape : List Nat) (dimensions : List String) (lin : String)
    (hne : dimensions ≠ []) :
    eval spliceBody (envRavel mdims mshape dimensions lin) ravelKeptDims
        = some (names (mdims.take (mdims.length - dimensions.length)))
    ∧ eval spliceBody (envRavel mdims mshape dimensions lin) ravelNewDims
        = some (names (mdims.take (mdims.length - dimensions.length) ++ [lin]))
    ∧ eval spliceBody (envRavel mdims mshape dimensions lin) ravelNewShape
        = some (.tup ((mshape.take (mshape.length - dimensions.length)).map (fun n => Atom.num (Int.ofNat n))
            ++ [Atom.num (-1)]))
    ∧ ravelMovesFirst = true ∧ ravelCollisionRaises = true
    ∧ ravelDefaultPrefix = .atomLit (.nm "index") := by
  have h1 : ("dimensions" == "dims") = false := by decide
  have h2 : ("dimensions" == "shape") = false := by decide
  have h3 : ("shape" == "dims") = false := by decide
  have h4 : ("linear_dimension" == "dims") = false := by decide
  have h5 : ("linear_dimension" == "shape") = false := by decide
  have h6 : ("linear_dimension" == "dimensions") = false := by decide
  have hpos : 0 < dimensions.length := List.length_pos_iff.mpr hne
  have hs := fun l => sliceTo_neg_len l dimensions.length hpos
  simp only [Int.ofNat_eq_natCast] at hs
  refine ⟨?_, ?_, ?_, rfl, rfl, rfl⟩
  · simp [eval, ravelKeptDims, evalWith, envRavel, h1, names, hs, List.map_take]
  · simp [eval, ravelNewDims, evalWith, envRavel, h1, h4, h6, names, hs, List.map_take]
  · simp [eval, ravelNewShape, evalWith, envRavel, h1, h2, h3, names, nums, hs, List.map_take]

/-- The excluded point of `ravel_dims_generated`: with **no** dimension to flatten, Python's `dims[:-0]` is the empty
tuple, so the source would keep nothing where the model keeps everything. Every grid kind has at least one dimension,
so the property's quantifier never reaches this call; it is recorded, not assumed away silently. -/
theorem ravel_no_dimensions_keeps_nothing (mdims : List String) (mshape : List Nat) (lin : String) :
    eval spliceBody (envRavel mdims mshape [] lin) ravelKeptDims = some (names []) := by
  have h1 : ("dimensions" == "dims") = false := by decide
  simp [eval, ravelKeptDims, evalWith, envRavel, h1, names, pySliceTo]

/-- **The generated expressions are the ones the model's `ravelDims` uses**: whenever the model flattens successfully
with a requested linear name, the dimension names of its result are what the source's `dims=` expression evaluates to
on the moved array. -/
theorem ravel_generated_matches_model {α : Type} [Inhabited α] (a m r : NArr α) (dimensions : List String)
    (lin : String) (hne : dimensions ≠ []) (hm : a.moveToEnd dimensions = some m)
    (hr : a.ravelDims dimensions (some lin) = some r) :
    eval spliceBody (envRavel m.names m.shape dimensions lin) ravelNewDims = some (names r.names) := by
  rw [(ravel_dims_generated m.names m.shape dimensions lin hne).2.1]
  unfold NArr.ravelDims at hr
  simp only [hm, Option.getD_some] at hr
  split at hr
  · simp at hr
  · simp only [Option.some.injEq] at hr
    subst hr
    simp [NArr.names, List.map_take]

/-! ### `wind_dimension` -/

def envWind (dims : List String) (shape : List Nat) (newNames : List String) (sizes : List Nat) (lin : String) :
    String → Option V :=
  fun s => if s == "dims" then some (names dims) else if s == "shape" then some (nums shape)
    else if s == "dimensions" then some (names newNames) else if s == "sizes" then some (nums sizes)
    else if s == "linear_dimension" then some (.atom (.nm lin)) else none

/-- **The dimensions and the shape `wind_dimension` produces, as the source has it**: the linear dimension is looked up
by name (first occurrence); the new names replace it in place, the new sizes replace its length in place, everything
before and after stays where it was — `NArr.splice` at the position `NArr.windDim` finds — for every rank and every
position of the linear dimension; an absent linear dimension raises. -/
theorem wind_dims_generated (dims : List String) (shape : List Nat) (newNames : List String) (sizes : List Nat)
    (lin : String) :
    (∀ k, dims.idxOf? lin = some k →
      eval spliceBody (envWind dims shape newNames sizes lin) windNewDims = some (names (NArr.splice dims k newNames))
      ∧ eval spliceBody (envWind dims shape newNames sizes lin) windNewShape = some (nums (NArr.splice shape k sizes)))
    ∧ (dims.idxOf? lin = none →
      eval spliceBody (envWind dims shape newNames sizes lin) windNewDims = none
      ∧ eval spliceBody (envWind dims shape newNames sizes lin) windNewShape = none) := by
  have h1 : ("dimensions" == "dims") = false := by decide
  have h2 : ("dimensions" == "shape") = false := by decide
  have h3 : ("shape" == "dims") = false := by decide
  have h4 : ("linear_dimension" == "dims") = false := by decide
  have h5 : ("linear_dimension" == "shape") = false := by decide
  have h6 : ("linear_dimension" == "dimensions") = false := by decide
  have h7 : ("linear_dimension" == "sizes") = false := by decide
  have h8 : ("sizes" == "dims") = false := by decide
  have h9 : ("sizes" == "shape") = false := by decide
  have h10 : ("sizes" == "dimensions") = false := by decide
  constructor
  · intro k hk
    have hs1 := splice_generated (dims.map Atom.nm) (newNames.map Atom.nm) k
    have hs2 := splice_generated (shape.map (fun n => Atom.num (Int.ofNat n))) (sizes.map (fun n => Atom.num (Int.ofNat n))) k
    rw [splice_map] at hs1 hs2
    constructor
    · simp only [eval, windNewDims, evalWith, envWind, h1, h2, h3, h4, h5, h6, h7, h8, h9, h10, names,
        idxOf_map_nm, hk, Option.map_some, beq_self_eq_true, if_true, Bool.false_eq_true, if_false]
      exact hs1
    · simp only [eval, windNewShape, evalWith, envWind, h1, h2, h3, h4, h5, h6, h7, h8, h9, h10, names, nums,
        idxOf_map_nm, hk, Option.map_some, beq_self_eq_true, if_true, Bool.false_eq_true, if_false]
      exact hs2
  · intro hk
    constructor
    · simp [eval, windNewDims, evalWith, envWind, h1, h2, h3, h4, h5, h6, h7, h8, h9, h10, names, idxOf_map_nm, hk]
    · simp [eval, windNewShape, evalWith, envWind, h1, h2, h3, h4, h5, h6, h7, h8, h9, h10, names, nums,
        idxOf_map_nm, hk]

/-- **The generated expressions are the ones the model's `windDim` uses**: whenever the model winds successfully, the
dimension names and the shape of its result are what the source's `dims=` and `reshape` expressions evaluate to. -/
theorem wind_generated_matches_model {α : Type} (a r : NArr α) (newDims : List Dim) (lin : String)
    (hr : a.windDim newDims lin = some r) :
    eval spliceBody (envWind a.names a.shape (newDims.map (·.1)) (newDims.map (·.2)) lin) windNewDims
        = some (names r.names)
    ∧ eval spliceBody (envWind a.names a.shape (newDims.map (·.1)) (newDims.map (·.2)) lin) windNewShape
        = some (nums r.shape) := by
  unfold NArr.windDim at hr
  split at hr
  · simp at hr
  · rename_i k hk
    split at hr
    · simp at hr
    · dsimp only at hr
      split at hr
      · simp at hr
      · simp only [Option.some.injEq] at hr
        subst hr
        have := (wind_dims_generated a.names a.shape (newDims.map (·.1)) (newDims.map (·.2)) lin).1 k hk
        simpa [NArr.names, NArr.shape, splice_map] using this

/-! ### `find_unused_dimension` -/

/-- **`find_unused_dimension` as the source has it searches the names the model's `findUnused` searches**: the bare
prefix first, then `prefix_0`, `prefix_1`, … (separator `_`, counting from 0). -/
theorem find_unused_generated :
    findUnusedPrefixFirst = true ∧ findUnusedSeparator = "_" ∧ findUnusedStart = 0 := ⟨rfl, rfl, rfl⟩

/-- Nothing in the translated functions was beyond the translator. -/
theorem dims_functions_translated : complaints = [] := rfl

/-! ### non-vacuity -/

-- v(time, lat, depth, lon): moving (lat, lon) to the end gives (time, depth, lat, lon)
example : eval spliceBody (envMove ["time", "lat", "depth", "lon"] ["lat", "lon"]) moveNewOrder
    = some (names ["time", "depth", "lat", "lon"]) := by
  rw [move_order_generated]; rfl
-- flattening the last two of (time, depth, lat, lon), sizes (2, 5, 3, 4), under the name "index"
example : eval spliceBody (envRavel ["time", "depth", "lat", "lon"] [2, 5, 3, 4] ["lat", "lon"] "index") ravelNewDims
    = some (names ["time", "depth", "index"]) := by
  rw [(ravel_dims_generated _ _ _ _ (by simp)).2.1]; rfl
-- winding "index" (in the middle) of (time, index, depth) back into (lat, lon)
example : eval spliceBody (envWind ["time", "index", "depth"] [2, 12, 5] ["lat", "lon"] [3, 4] "index") windNewDims
    = some (names ["time", "lat", "lon", "depth"]) := by
  rw [((wind_dims_generated _ _ _ _ _).1 1 (by decide)).1]; rfl

end Ems.C03
