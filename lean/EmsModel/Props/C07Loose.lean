import EmsModel.Props.C07
/-!
# C07 — rows of the node / edge table that no face uses, and selections of the whole mesh

UGRID does not promise that every row of the node table is a corner of a face, nor that every row of a
stored edge table is a side of one.  `FaceMesh.nNodes` / `nEdges` are the lengths of those tables and are
independent of `faces` / `faceEdges`, so such meshes are ordinary inputs of the model.  The theorems below
say what the property's "exactly the edges and nodes that belong to at least one marked cell" means for
them, for every mesh, hit order and buffer:

* a node (edge) that belongs to no face is dropped by every clip mask — also by one that selects every face;
* when every face is selected the kept faces are all faces, and a node (edge) is kept iff it belongs to some
  face; the kept nodes are numbered by the count of smaller nodes *that belong to a face* (loose rows do not
  take a number).
-/
namespace Ems.C07

open Ems.Clip Ems.Clip.FaceMesh

/-- A node that is a corner of no face is dropped by every clip mask, whatever is selected. -/
theorem loose_node_never_kept (m : FaceMesh) (hits : List Nat) (hr : ∀ f ∈ hits, f < m.nFaces)
    (buffer : Int) (n : Nat) (hloose : ∀ f, n ∉ m.faceNodes f) :
    ¬ IsKept (ugridClipMask m hits buffer).newNode n := by
  intro hk
  obtain ⟨_, hn, _, _⟩ := mesh_mask_spec m hits hr buffer
  obtain ⟨_, f, _, hm⟩ := (hn n).mp hk
  exact hloose f hm

/-- An edge that is a side of no face is dropped by every clip mask, whatever is selected. -/
theorem loose_edge_never_kept (m : FaceMesh) (hits : List Nat) (hr : ∀ f ∈ hits, f < m.nFaces)
    (buffer : Int) (e : Nat) (hloose : ∀ f, e ∉ m.faceEdgesOf f)
    (t : List (Option Nat)) (ht : (ugridClipMask m hits buffer).newEdge = some t) :
    ¬ IsKept t e := by
  intro hk
  obtain ⟨_, _, he, _⟩ := mesh_mask_spec m hits hr buffer
  obtain ⟨_, f, _, hm⟩ := (he t ht e).mp hk
  exact hloose f hm

/-- When every face is hit, every face is kept (and nothing else), for every buffer. -/
theorem whole_mesh_kept_faces (m : FaceMesh) (hits : List Nat) (hr : ∀ f ∈ hits, f < m.nFaces)
    (hall : ∀ f, f < m.nFaces → f ∈ hits) (buffer : Int) (f : Nat) :
    f ∈ keptFaces m hits buffer ↔ f < m.nFaces := by
  have hr' : ∀ f ∈ sortU hits, f < m.nFaces := fun f hf => hr f ((mem_sortU _ _).mp hf)
  unfold keptFaces
  constructor
  · exact inRange_bufferIter m _ _ hr' f
  · intro hf
    rw [buffer_iter m _ hr']
    exact Within.mono_rings (Nat.zero_le _) (.base ((mem_sortU _ _).mpr (hall f hf)))

/-- the kept faces of a whole-mesh selection, as a list -/
theorem whole_mesh_kept_faces_eq (m : FaceMesh) (hits : List Nat) (hr : ∀ f ∈ hits, f < m.nFaces)
    (hall : ∀ f, f < m.nFaces → f ∈ hits) (buffer : Int) :
    keptFaces m hits buffer = List.range m.nFaces :=
  sorted_ext _ _ (kept_faces_sorted m hits buffer) List.pairwise_lt_range
    (fun f => by rw [whole_mesh_kept_faces m hits hr hall buffer f, List.mem_range])

/-- **Selecting the whole mesh keeps exactly what belongs to a face.**  Every face is kept; a node is kept iff
it is a row of the node table and a corner of some face; an edge is kept iff it is a row of the edge table and a
side of some face.  Rows used by no face stay dropped. -/
theorem whole_mesh_mask_spec (m : FaceMesh) (hits : List Nat) (hr : ∀ f ∈ hits, f < m.nFaces)
    (hall : ∀ f, f < m.nFaces → f ∈ hits) (buffer : Int) :
    let M := ugridClipMask m hits buffer
    (∀ f, IsKept M.newFace f ↔ f < m.nFaces) ∧
    (∀ n, IsKept M.newNode n ↔ n < m.nNodes ∧ ∃ f, f < m.nFaces ∧ n ∈ m.faceNodes f) ∧
    (∀ t, M.newEdge = some t →
      ∀ e, IsKept t e ↔ (∃ ne, m.nEdges = some ne ∧ e < ne) ∧ ∃ f, f < m.nFaces ∧ e ∈ m.faceEdgesOf f) := by
  intro M
  obtain ⟨hf, hn, he, _⟩ := mesh_mask_spec m hits hr buffer
  have hK := whole_mesh_kept_faces m hits hr hall buffer
  refine ⟨fun f => (hf f).trans (hK f), ?_, ?_⟩
  · intro n
    rw [hn n]
    constructor
    · rintro ⟨h, f, hfk, hm⟩; exact ⟨h, f, (hK f).mp hfk, hm⟩
    · rintro ⟨h, f, hfk, hm⟩; exact ⟨h, f, (hK f).mpr hfk, hm⟩
  · intro t ht e
    rw [he t ht e]
    constructor
    · rintro ⟨h, f, hfk, hm⟩; exact ⟨h, f, (hK f).mp hfk, hm⟩
    · rintro ⟨h, f, hfk, hm⟩; exact ⟨h, f, (hK f).mpr hfk, hm⟩

/-- **Numbering under a whole-mesh selection**: with `U` the (ascending) nodes that are a corner of some face, node
`n` of the table receives the number of members of `U` below it if it is in `U`, and is masked otherwise — a row
used by no face takes no number, so the rows after it are not shifted. -/
theorem whole_mesh_node_numbering (m : FaceMesh) (hits : List Nat) (hr : ∀ f ∈ hits, f < m.nFaces)
    (hall : ∀ f, f < m.nFaces → f ∈ hits) (buffer : Int) (n : Nat) (hn : n < m.nNodes) :
    let U := keptNodes m (List.range m.nFaces)
    (ugridClipMask m hits buffer).newNode[n]? = some (if n ∈ U then some (countLt U n) else none) := by
  intro U
  obtain ⟨_, ⟨_, h⟩, _⟩ := renumber_spec m hits buffer
  have := h n hn
  rw [whole_mesh_kept_faces_eq m hits hr hall buffer] at this
  exact this

/-! ## Non-vacuity: a mesh with a loose node in the middle of the node table and a loose edge -/

/-- two triangles on nodes `0, 1, 3, 4`; node `2` (middle of the table) and node `5` (end) belong to no face; edge
`2` (joining the two loose nodes) is a side of no face -/
def looseMesh : FaceMesh :=
  { nNodes := 6, faces := [[0, 1, 3], [1, 4, 3]], nEdges := some 6,
    faceEdges := [[0, 1, 3], [4, 5, 1]] }

example : ∀ f ∈ [1, 0], f < looseMesh.nFaces := by decide
example : ∀ f, f < looseMesh.nFaces → f ∈ [1, 0] := by decide
/-- every face selected: the loose rows stay masked and take no number -/
example : ugridClipMask looseMesh [1, 0] 0 =
    { newFace := [some 0, some 1],
      newEdge := some [some 0, some 1, none, some 2, some 3, some 4],
      newNode := [some 0, some 1, none, some 2, some 3, none] } := by decide
example : ugridClipMask looseMesh [0] 1 = ugridClipMask looseMesh [1, 0] 0 := by decide

end Ems.C07
