import EmsModel.Core.Export
import EmsModel.Props.C01
/-!
# C15 — geometry export round-trips every cell with its indexes
-/
namespace Ems.C15
open Ems

/-! ### index JSON round trip -/

theorem decodeNums_nums (l : List Nat) : decodeNums (l.map fun (n : Nat) => JAtom.num (n : Int)) = some l := by
  induction l with
  | nil => rfl
  | cons x xs ih =>
    have : ¬ ((x : Int) < 0) := by omega
    simp [decodeNums, this, ih]

/-- decoding the recorded index gives back the native index, for both spellings -/
theorem index_json_roundtrip (style : IndexStyle) (k : Kind) (comps : List Nat) :
    decodeIndex style k (encodeIndex style (k, comps)) = some (k, comps) := by
  cases style <;> simp [encodeIndex, decodeIndex, decodeNums_nums]

/-- the kinded spelling round-trips whatever the default kind passed to the decoder -/
theorem index_json_roundtrip_kinded (k k' : Kind) (comps : List Nat) :
    decodeIndex .kinded k' (encodeIndex .kinded (k, comps)) = some (k, comps) := by
  simp [encodeIndex, decodeIndex, decodeNums_nums]

/-! ### features -/

theorem mem_features (c : Conv) (polys : List (Option Poly)) (f : Feature) :
    f ∈ features c polys ↔
      polys[f.linear]? = some (some f.polygon) ∧ f.index = c.windIndex none (f.linear : Int) := by
  simp only [features, List.mem_filterMap, List.mem_range]
  constructor
  · rintro ⟨n, hn, h⟩
    cases hp : polys[n]? with
    | none => simp [hp] at h
    | some o =>
      cases o with
      | none => simp [hp] at h
      | some p =>
        simp [hp] at h; subst h
        exact ⟨hp, rfl⟩
  · rintro ⟨hp, hi⟩
    refine ⟨f.linear, (List.getElem?_eq_some_iff.mp hp).1, ?_⟩
    simp only [hp, Option.join_some, Option.some.injEq]
    cases f; simp_all

/-- **Exactly the cells that have polygons, each once, with identical coordinates** -/
theorem features_spec (c : Conv) (polys : List (Option Poly)) (n : Nat) (p : Poly) :
    polys[n]? = some (some p) ↔ ∃ f ∈ features c polys, f.linear = n ∧ f.polygon = p := by
  constructor
  · intro h
    exact ⟨{ linear := n, index := c.windIndex none (n : Int), polygon := p },
      (mem_features c polys _).mpr ⟨h, rfl⟩, rfl, rfl⟩
  · rintro ⟨f, hf, rfl, rfl⟩
    exact ((mem_features c polys f).mp hf).1

/-- features come **in linear order** (strictly increasing linear index: no cell twice) -/
theorem features_sorted (c : Conv) (polys : List (Option Poly)) :
    ((features c polys).map (·.linear)).Pairwise (· < ·) := by
  rw [List.pairwise_map]
  unfold features
  refine List.Pairwise.filterMap _ ?_ List.pairwise_lt_range
  intro a a' hlt b hb b' hb'
  cases ha : (polys[a]?).join with
  | none => simp [ha] at hb
  | some p =>
    cases ha' : (polys[a']?).join with
    | none => simp [ha'] at hb'
    | some p' =>
      simp [ha] at hb; simp [ha'] at hb'
      subst hb hb'
      exact hlt

/-- **The recorded native index identifies that same cell**: it is the index of the recorded
linear index, and converting it back gives that linear index. -/
theorem feature_index_identifies (c : Conv) (polys : List (Option Poly)) (shape : List Nat)
    (hs : c.shape? c.default = some shape) (hsize : polys.length = size shape)
    (f : Feature) (hf : f ∈ features c polys) :
    ∃ idx, f.index = some (c.default, idx) ∧ c.ravelIndex (c.default, idx.map Int.ofNat) = some f.linear := by
  obtain ⟨hp, hi⟩ := (mem_features c polys f).mp hf
  have hlt : f.linear < size shape := by
    rw [← hsize]; exact (List.getElem?_eq_some_iff.mp hp).1
  obtain ⟨idx, h1, h2⟩ := C01.ravel_wind c c.default shape hs f.linear hlt
  exact ⟨idx, by rw [hi, C01.default_kind]; exact h1, h2⟩

/-- and after a JSON round trip it still does -/
theorem recorded_index_roundtrip (style : IndexStyle) (c : Conv) (polys : List (Option Poly)) (shape : List Nat)
    (hs : c.shape? c.default = some shape) (hsize : polys.length = size shape)
    (f : Feature) (hf : f ∈ features c polys) :
    ∃ idx, (f.index.map (encodeIndex style)).bind (decodeIndex style c.default) = some (c.default, idx) ∧
      c.ravelIndex (c.default, idx.map Int.ofNat) = some f.linear := by
  obtain ⟨idx, h1, h2⟩ := feature_index_identifies c polys shape hs hsize f hf
  exact ⟨idx, by simp [h1, index_json_roundtrip], h2⟩

/-! ### WKT / WKB and shapefile -/

/-- the MultiPolygon members are the existing polygons in linear order, i.e. the polygons of the features -/
theorem multipolygon_spec (c : Conv) (polys : List (Option Poly)) :
    multipolygon polys = (features c polys).map (·.polygon) := by
  simp only [multipolygon, features, List.map_filterMap]
  have : ∀ (l : List (Option Poly)), l.filterMap id =
      (List.range l.length).filterMap fun n => (l[n]?).join := by
    intro l
    induction l with
    | nil => rfl
    | cons x xs ih =>
      rw [List.length_cons, List.range_succ_eq_map, List.filterMap_cons, List.filterMap_cons]
      simp only [List.filterMap_map, Function.comp_def, List.getElem?_cons_succ, List.getElem?_cons_zero,
        Option.join_some, id]
      cases x <;> simp [ih]
  rw [this]
  congr 1
  funext n
  cases (polys[n]?).join <;> simp

/-- every shapefile record holds the linear index and the encoded native index of its feature -/
theorem dbf_record_spec (style : IndexStyle) (c : Conv) (polys : List (Option Poly)) (k : Nat) (f : Feature)
    (hf : (features c polys)[k]? = some f) :
    (dbfRecords style c polys)[k]? = some
      { name := s!"polygon{f.linear}", linear := some f.linear, index := f.index.map (encodeIndex style) } := by
  simp [dbfRecords, hf]

theorem dbf_count (style : IndexStyle) (c : Conv) (polys : List (Option Poly)) :
    (dbfRecords style c polys).length = (multipolygon polys).length := by
  rw [multipolygon_spec c]; simp [dbfRecords]

/-! ### non-vacuity -/
def exPolys : List (Option Poly) := [some [(0,0),(2,0),(2,2),(0,2)], none, some [(4,0),(6,0),(6,2),(4,2)]]
def exConv : Conv := { grids := [("face", [1, 3])], default := "face" }
example : (features exConv exPolys).map (·.linear) = [0, 2] := by decide
example : (features exConv exPolys).map (·.index) = [some ("face", [0, 0]), some ("face", [0, 2])] := by decide
example : encodeIndex .kinded ("face", [0, 2]) = [.str "face", .num 0, .num 2] := by decide
example : multipolygon exPolys = [[(0,0),(2,0),(2,2),(0,2)], [(4,0),(6,0),(6,2),(4,2)]] := by decide

end Ems.C15
