import EmsModel.Gen.PlotSrc
import EmsModel.Core.PlotRavel
import EmsModel.Lemmas.PlotSrc
/-!
# C19 — the plot artists, from the source text

`Gen/PlotSrc.lean` is regenerated on every run by `harness/trans_plotsrc.py` from the source text of
`Convention.make_poly_collection`, `Convention.make_quiver` (conventions/_base.py) and `plot.polygons_to_collection`
(plot.py).  The theorems here state that running the generated programs (`psRun`, `Core/PlotSrc.lean`) computes the
hand-written model functions the C19 property theorems are about — `Ems.makePolyCollection` over `Ems.plotRavelled`,
`Ems.makeQuiverChecked` — for every input, with no size bound.
-/
namespace Ems.C19
open Ems Ems.Gen

/-- the `transform=` keyword the artist ends up with: the caller's, else `self.data_crs` -/
def srcTransform (t : Option Nat) : PsV :=
  match t with
  | some t => .user t
  | none => .crs

set_option linter.unusedSimpArgs false

/-- **`src_poly_collection_spec`: the generated `make_poly_collection` is the hand model, for every input.**
For every polygon list (with holes), every variable `data` (or none), grid dimensions, and every combination of the
keywords `array=`, `clim=`, `transform=` a caller may pass: running the statements of `Convention.make_poly_collection`
as translated from the source — `array=` with a data array → `TypeError`; `self.ravel`; `len(dims) > 1` → `ValueError`;
`kwargs['array'] = values[self.mask]`; `clim` defaulted to `(nanmin, nanmax)` of those masked values only when no
`clim=` was given; `transform` defaulted to `self.data_crs` only when not given;
`polygons_to_collection(self.polygons[self.mask], **kwargs)` — gives exactly
`Ems.makePolyCollection polys (data.map (plotRavelled · gridDims)) ov`, and an artist gets the caller's `transform` if
there is one. -/
theorem src_poly_collection_spec (polys : List (Option Poly)) (centres : List (Rat × Rat)) (gd : List String)
    (data u v : Option (NArr (Option Rat))) (ov : PlotOverrides) (t : Option Nat) :
    psPolyResult (psRun ⟨polys, centres, gd, data, u, v⟩ plotSrcMakePolyCollection (psInitKw ov t)) =
      some (makePolyCollection polys (data.map (plotRavelled · gd)) ov,
        match makePolyCollection polys (data.map (plotRavelled · gd)) ov with
        | .ok _ _ _ => some (srcTransform t)
        | _ => none) := by
  obtain ⟨ovArray, ovClim⟩ := ov
  cases data with
  | none =>
    cases ovArray <;> cases ovClim <;> cases t <;>
      simp [plotSrcMakePolyCollection, psRun, psAll, PsCond.eval, PsExpr.eval, PsExpr.given, psInitKw, psPolyResult,
        makePolyCollection, psKwArray, psKwClim, List.lookup, srcTransform]
  | some a =>
    cases ovArray with
    | true =>
      cases ovClim <;> cases t <;>
        simp [plotSrcMakePolyCollection, psRun, psAll, PsCond.eval, PsExpr.eval, PsExpr.given, psInitKw, psPolyResult,
          makePolyCollection, List.lookup]
    | false =>
      cases hr : a.ravelDims gd none with
      | none =>
        cases ovClim <;> cases t <;>
          simp [plotSrcMakePolyCollection, psRun, psAll, PsCond.eval, PsExpr.eval, PsExpr.given, psInitKw, psPolyResult,
            makePolyCollection, plotRavelled, List.lookup, hr]
      | some r =>
        by_cases hd : 1 < r.dims.length
        · cases ovClim <;> cases t <;>
            simp [plotSrcMakePolyCollection, psRun, psAll, PsCond.eval, PsExpr.eval, PsExpr.given, psInitKw, psPolyResult,
              makePolyCollection, plotRavelled, List.lookup, hr, hd]
        · cases ovClim with
          | some c =>
            cases t <;>
              simp [plotSrcMakePolyCollection, psRun, psAll, PsCond.eval, PsExpr.eval, PsExpr.given, psInitKw, psPolyResult,
                makePolyCollection, plotRavelled, List.lookup, hr, hd, psKwArray, psKwClim, srcTransform]
          | none =>
            cases he : (plottedValues polys r.data).isEmpty <;> cases t <;>
              simp [plotSrcMakePolyCollection, psRun, psAll, PsCond.eval, PsExpr.eval, PsExpr.given, psInitKw, psPolyResult,
                makePolyCollection, plotRavelled, List.lookup, hr, hd, he, psKwArray, psKwClim, srcTransform] <;>
              (generalize defaultClim _ = dc; cases dc <;> rfl)

/-- `zip(transpose(c)[0], transpose(c)[1])` is `c` again: the rows of `face_centres` are recovered from its two columns -/
theorem src_zip_fst_snd {α β : Type} (l : List (α × β)) : (l.map (·.1)).zip (l.map (·.2)) = l := by
  induction l with
  | nil => rfl
  | cons h t ih => simp [ih]

/-- **`src_quiver_spec`: the generated `make_quiver` with both components given is the hand model.**
For every pair of variables `u`, `v`, face centres, grid dimensions and keywords: running the statements of
`Convention.make_quiver` as translated from the source — `x, y = numpy.transpose(self.face_centres)` (x the first column,
y the second); `u.dims != v.dims` → `ValueError`; both ravelled; `len(u.dims) > 1` → `ValueError`;
`Quiver(axes, x, y, u.values, v.values, **kwargs)` with `transform` defaulted to `self.data_crs` — gives exactly
`Ems.makeQuiverChecked centres gridDims u v`: arrow `n` is `(centre n, u n, v n)`.  The source tests only `u` for leftover
dimensions; that is enough because variables with the same dimension names ravel to the same number of dimensions
(`NArr.plotsrc_ravelDims_length_congr`, Lemmas/PlotSrc.lean). -/
theorem src_quiver_spec (polys : List (Option Poly)) (centres : List (Rat × Rat)) (gd : List String)
    (data : Option (NArr (Option Rat))) (u v : NArr (Option Rat)) (ov : PlotOverrides) (t : Option Nat) :
    psQuiverResult (psRun ⟨polys, centres, gd, data, some u, some v⟩ plotSrcMakeQuiver (psInitKw ov t)) =
      some (makeQuiverChecked centres gd u v,
        match makeQuiverChecked centres gd u v with
        | .ok _ => some (srcTransform t)
        | .valueError => none) := by
  have hlen := NArr.plotsrc_ravelDims_length_congr u v gd
  obtain ⟨ovArray, ovClim⟩ := ov
  by_cases hn : u.names = v.names
  · cases hu : u.ravelDims gd none with
    | none =>
      cases ovArray <;> cases ovClim <;> cases t <;>
        simp [plotSrcMakeQuiver, psRun, psAll, PsCond.eval, PsExpr.eval, PsExpr.given, psInitKw, psQuiverResult,
          makeQuiverChecked, plotRavelled, List.lookup, hn, hu]
    | some ru =>
      by_cases hd : 1 < ru.dims.length
      · cases ovArray <;> cases ovClim <;> cases t <;>
          simp [plotSrcMakeQuiver, psRun, psAll, PsCond.eval, PsExpr.eval, PsExpr.given, psInitKw, psQuiverResult,
            makeQuiverChecked, plotRavelled, List.lookup, hn, hu, hd]
      · cases hv : v.ravelDims gd none with
        | none =>
          cases ovArray <;> cases ovClim <;> cases t <;>
            simp [plotSrcMakeQuiver, psRun, psAll, PsCond.eval, PsExpr.eval, PsExpr.given, psInitKw, psQuiverResult,
              makeQuiverChecked, plotRavelled, List.lookup, hn, hu, hv, hd]
        | some rv =>
          have hd' : ¬ 1 < rv.dims.length := by rw [← hlen hn ru rv hu hv]; exact hd
          cases ovArray <;> cases ovClim <;> cases t <;>
            simp [plotSrcMakeQuiver, psRun, psAll, PsCond.eval, PsExpr.eval, PsExpr.given, psInitKw, psQuiverResult,
              makeQuiverChecked, plotRavelled, List.lookup, hn, hu, hv, hd, hd', makeQuiver, src_zip_fst_snd, srcTransform]
  · cases ovArray <;> cases ovClim <;> cases t <;>
      simp [plotSrcMakeQuiver, psRun, psAll, PsCond.eval, PsExpr.eval, PsExpr.given, psInitKw, psQuiverResult,
        makeQuiverChecked, List.lookup, hn]

/-- **`src_quiver_default`: without both components the arrows are all `(nan, nan)`.**  When `u` or `v` is not passed, the
generated `make_quiver` raises nothing and builds `Quiver(axes, x, y, numpy.nan, numpy.nan, **kwargs)`: one arrow per face
centre, in order, with no components, `transform` the caller's or `self.data_crs`. -/
theorem src_quiver_default (polys : List (Option Poly)) (centres : List (Rat × Rat)) (gd : List String)
    (data u v : Option (NArr (Option Rat))) (ov : PlotOverrides) (t : Option Nat) (h : u = none ∨ v = none) :
    psQuiverResult (psRun ⟨polys, centres, gd, data, u, v⟩ plotSrcMakeQuiver (psInitKw ov t)) =
      some (.ok (centres.map fun c => (c, none, none)), some (srcTransform t)) := by
  obtain ⟨ovArray, ovClim⟩ := ov
  cases u <;> cases v <;> simp at h <;> cases ovArray <;> cases ovClim <;> cases t <;>
    simp [plotSrcMakeQuiver, psRun, psAll, PsCond.eval, PsExpr.eval, PsExpr.given, psInitKw, psQuiverResult,
      List.lookup, src_zip_fst_snd, srcTransform]

/-- **`src_collection_spec`: the generated `polygons_to_collection`** walks its first parameter in order, makes one vertex
list per polygon from `numpy.asarray(polygon.exterior.coords)`, passes `closed=False` and the caller's keywords: the
artist's paths are the polygons handed over, in order, not re-closed. -/
theorem src_collection_spec (paths : List Poly) :
    psCollectionRun plotSrcPolygonsToCollection paths = some (paths, false) := by
  simp [psCollectionRun, plotSrcPolygonsToCollection]

/-- the translator understood every statement of the three functions -/
theorem src_no_complaints : plotSrcComplaints = [] := rfl

/-- **`src_poly_paths_and_values_share_mask`**: whenever the generated `make_poly_collection` returns an artist for a data
array, its paths are `polygons[mask]` and its values are `ravelled values[mask]` for the same mask (`plottedPaths` /
`plottedValues` of the same polygon list) — a corollary of `src_poly_collection_spec`. -/
theorem src_poly_paths_and_values_share_mask (polys : List (Option Poly)) (centres : List (Rat × Rat)) (gd : List String)
    (a : NArr (Option Rat)) (u v : Option (NArr (Option Rat))) (ov : PlotOverrides) (t : Option Nat)
    (paths : List Poly) (arr : Option (List (Option Rat))) (clim : Option (Rat × Rat)) (tr : Option PsV)
    (h : psPolyResult (psRun ⟨polys, centres, gd, some a, u, v⟩ plotSrcMakePolyCollection (psInitKw ov t)) =
      some (.ok paths arr clim, tr)) :
    ∃ values, plotRavelled a gd = some values ∧ paths = plottedPaths polys ∧ arr = some (plottedValues polys values) ∧
      clim = (match ov.clim with | some c => some c | none => defaultClim (plottedValues polys values)) := by
  rw [src_poly_collection_spec] at h
  simp only [Option.map, makePolyCollection] at h
  cases hov : ov.array <;> simp only [hov, if_true, if_false, Bool.false_eq_true] at h
  · cases hr : plotRavelled a gd with
    | none => simp [hr] at h
    | some values =>
      refine ⟨values, rfl, ?_⟩
      simp only [hr] at h
      split at h
      · simp at h
      · simp only [Option.some.injEq, Prod.mk.injEq, PlotResult.ok.injEq] at h
        obtain ⟨⟨h1, h2, h3⟩, _⟩ := h
        exact ⟨h1.symm, h2.symm, h3.symm⟩
  · simp at h

/-! ### the hypotheses are satisfiable -/

/-- `src_quiver_spec` on a concrete pair of variables: two arrows, the second with a missing `v` -/
example : ∃ arrows tr,
    psQuiverResult (psRun ⟨[], [(10, 20), (11, 21)], ["face"], none,
        some ⟨[("face", 2)], [some 1, some 2]⟩, some ⟨[("face", 2)], [some 3, none]⟩⟩ plotSrcMakeQuiver (psInitKw {} none)) =
      some (.ok arrows, tr) ∧ arrows = [((10, 20), some 1, some 3), ((11, 21), some 2, none)] := by
  rw [src_quiver_spec]
  have e1 : plotRavelled ⟨[("face", 2)], [some 1, some 2]⟩ ["face"] = some [some 1, some 2] := by decide
  have e2 : plotRavelled ⟨[("face", 2)], [some 3, none]⟩ ["face"] = some [some 3, none] := by decide
  refine ⟨_, some .crs, ?_, rfl⟩
  simp [makeQuiverChecked, e1, e2, makeQuiver, NArr.names, srcTransform]

/-- the premise of `src_poly_paths_and_values_share_mask` on a mesh with a hole -/
example : ∃ paths arr clim tr,
    psPolyResult (psRun ⟨[some [(0, 0), (1, 0), (1, 1)], none], [], ["face"],
        some ⟨[("face", 2)], [some 5, some 7]⟩, none, none⟩ plotSrcMakePolyCollection (psInitKw {} none)) =
      some (.ok paths arr clim, tr) := by
  rw [src_poly_collection_spec]
  exact ⟨_, _, _, _, rfl⟩

end Ems.C19
