import EmsModel.Core.CacheKeyScalars
import EmsModel.Lemmas.CacheKeyScalars
/-!
C16 — geometry that a coarser notion of equality would identify (round 6).

Two names / texts that a text normalisation maps to one another (NFC / NFD, compatibility forms, letter case,
invisible code points, surrounding white space) and two attribute values that compare equal in Python
(`360 == 360.0`, `1 == True == numpy.int64(1)`, `0.0 == -0.0`) are DIFFERENT geometry: the key must tell them apart.

* `hash_string_injective`          `hash_string` feeds different bytes for different code point sequences (no
                                   normalisation of any kind), with `spelling_witnesses` for the usual equivalences
* `scalar_bytes_injective`         the bytes `marshal.dumps(v, 4)` writes for a scalar attribute value determine the
                                   value INCLUDING its Python type, whatever the reference flags
* `equal_numbers_differ`           in particular an `int`, the `float` and the `bool` of the same number, and the
                                   numpy scalar holding it, are written differently
* `attribute_scalar_changes_stream` … and so are the streams of `hash_attributes` over two one-value blobs
-/
namespace Ems.C16
open Ems Ems.CacheKey

/-! ## names and texts -/

/-- `hash_string` is injective: two different strings (as sequences of code points) never feed the same bytes.
No normalisation — canonical, compatibility, case, white space — is applied. -/
theorem hash_string_injective (s t : String) (a : Bytes) (hs : hashString s = some a)
    (ht : hashString t = some a) : s = t :=
  (hashString_prefix (x := []) (y := []) hs ht rfl).1

/-- The usual equivalences, one witness each: `é` composed / decomposed; `Å` / ANGSTROM SIGN; `K` / KELVIN SIGN;
`K` / `k`; the ligature `ﬁ` / `fi`; a zero-width space; a trailing space. -/
theorem spelling_witnesses :
    hashCodePoints [0xe9] ≠ hashCodePoints [0x65, 0x301] ∧
    hashCodePoints [0xc5] ≠ hashCodePoints [0x212b] ∧
    hashCodePoints [0x4b] ≠ hashCodePoints [0x212a] ∧
    hashCodePoints [0x4b] ≠ hashCodePoints [0x6b] ∧
    hashCodePoints [0xfb01] ≠ hashCodePoints [0x66, 0x69] ∧
    hashCodePoints [0x61] ≠ hashCodePoints [0x61, 0x200b] ∧
    hashCodePoints [0x61] ≠ hashCodePoints [0x61, 0x20] := by decide

/-! ## attribute values that compare equal -/

/-- The bytes written for a scalar attribute value determine the value and its Python type, whatever the
reference flags of the two objects. -/
theorem scalar_bytes_injective (r r' : Bool) (a b : PyScalar) (x : Bytes)
    (ha : wScalar r a = some x) (hb : wScalar r' b = some x) : a = b := by
  obtain ⟨p, hp, hx⟩ := wScalar_eq_some ha
  obtain ⟨q, hq, hx'⟩ := wScalar_eq_some hb
  rw [hx] at hx'
  obtain ⟨hh, hpq⟩ := List.cons.inj hx'
  subst hpq
  exact scalar_of_kind_body a b p (scalarHead_kind r r' a b hh) hp hq

/-- The `int`, the `float` and the `bool` of one number, and a numpy scalar holding it, are written differently
(`360` / `360.0`, `1` / `True` / `numpy.int64(1)`, `0` / `False` / `-0.0`): in each pair the two values are different
`PyScalar`s, so by `scalar_bytes_injective` no choice of reference flags makes their bytes agree. -/
theorem equal_numbers_differ (r r' : Bool) (v : Int) (b : Bool) (image raw x y : Bytes) :
    (wScalar r (.int v) = some x → wScalar r' (.float image) = some y → x ≠ y) ∧
    (wScalar r (.int v) = some x → wScalar r' (.bool b) = some y → x ≠ y) ∧
    (wScalar r (.int v) = some x → wScalar r' (.buffer raw) = some y → x ≠ y) ∧
    (wScalar r (.float image) = some x → wScalar r' (.bool b) = some y → x ≠ y) ∧
    (wScalar r (.float image) = some x → wScalar r' (.buffer raw) = some y → x ≠ y) ∧
    (wScalar r (.bool b) = some x → wScalar r' (.buffer raw) = some y → x ≠ y) := by
  refine ⟨?_, ?_, ?_, ?_, ?_, ?_⟩ <;> intro h1 h2 hxy <;> subst hxy <;>
    exact absurd (scalar_bytes_injective _ _ _ _ _ h1 h2) (by simp)

/-- Positive and negative zero are different floats: different images, different bytes. -/
theorem signed_zero_differ (r r' : Bool) :
    wScalar r (.float [0, 0, 0, 0, 0, 0, 0, 0]) ≠ wScalar r' (.float [0, 0, 0, 0, 0, 0, 0, 0x80]) := by
  cases r <;> cases r' <;> decide

/-- Two attribute blobs that differ give different streams of `hash_attributes` (whatever the counts): with
`scalar_bytes_injective`, a scalar attribute whose value changes to an equal-comparing value of another type changes
the stream. -/
theorem attribute_scalar_changes_stream (c c' : Nat) (blob blob' s s' : Bytes)
    (h : hashAttrs c blob = some s) (h' : hashAttrs c' blob' = some s') (hne : blob ≠ blob') : s ≠ s' := by
  rintro rfl
  have := hashAttrs_prefix (x := []) (y := []) h h' rfl
  exact hne this.2.1

/-! ## non-vacuity -/

example : wScalar true (.int 360) = some [0xe9, 0x68, 0x01, 0, 0] := by decide
example : wScalar true (.float [0, 0, 0, 0, 0, 0x80, 0x76, 0x40]) = some [0xe7, 0, 0, 0, 0, 0, 0x80, 0x76, 0x40] := by decide
example : wScalar true (.buffer [1, 0, 0, 0]) = some [0xf3, 4, 0, 0, 0, 1, 0, 0, 0] := by decide
example : (hashString "longitud_\u00e9").isSome ∧ hashString "longitud_\u00e9" ≠ hashString "longitud_e\u0301" := by decide

end Ems.C16
