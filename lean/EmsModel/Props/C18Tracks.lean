import EmsModel.Props.C18
/-!
# C18, recorded tracks — every leg of a path counts, wherever it is in the path

The paths of the sixth round have tens to hundreds of vertices (runs of fixes a fraction of a cell
apart, passages of legs several cells long).  Nothing in the property depends on the number of
vertices or on where in the path a leg is: a cell that any one leg passes through has a segment
covering that stretch.  `every_leg_has_its_segment` states it for every path, every leg index and
every (convex) cell of the model; `runs_without_the_joining_leg_lose_a_cell` is the negation witness
for the way it goes wrong — looking the path up in runs of vertices that do not share their end
vertices leaves the leg that joins two runs out.
-/
namespace Ems.C18
open Ems Ems.PathClip

/-- **every leg has its segment.**  Take any path, any leg `k` of it (from vertex `k` to vertex
`k + 1`, however many vertices come before or after) and any cell `c` of the model.  If two
different points of the leg lie in the cell, the transect built from the clips of the path against
the cells has a segment that names `c` and covers the path parameter of either point.  (One point
alone is a point touch, which is not a piece.) -/
theorem every_leg_has_its_segment (cells : List (Nat × Poly)) (path : List Pt) (c : Nat × Poly)
    (hc : c ∈ cells) (k : Nat) (a b : Pt) (s s' : Rat)
    (ha : path[k]? = some a) (hb : path[k + 1]? = some b)
    (hs : 0 ≤ s ∧ s ≤ 1) (hs' : 0 ≤ s' ∧ s' ≤ 1) (hne : s ≠ s')
    (hin : insideConvex c.2 (legPoint a b s)) (hin' : insideConvex c.2 (legPoint a b s')) :
    ∃ seg ∈ segments (cells.map fun c => (c.1, clipPathConvex c.2 path)),
      seg.linear = c.1 ∧ seg.start ≤ (k : Rat) + s ∧ (k : Rat) + s ≤ seg.stop ∧ seg.start < seg.stop := by
  obtain ⟨p, hp, h1, h2⟩ := clip_path_complete c.2 path k a b s s' ha hb hs hs' hne hin hin'
  have hlt : p.1 < p.2 := clipPathConvex_proper c.2 path p hp
  refine ⟨{ start := min p.1 p.2, stop := max p.1 p.2, linear := c.1 }, ?_, rfl, ?_, ?_, ?_⟩
  · refine (segments_perm _).mem_iff.mpr ((mem_rawSegments _ _).mpr ?_)
    exact ⟨(c.1, clipPathConvex c.2 path), List.mem_map.mpr ⟨c, hc, rfl⟩, p, hp, rfl⟩
  · exact le_trans (min_le_left _ _) h1
  · exact le_trans h2 (le_max_right _ _)
  · show min p.1 p.2 < max p.1 p.2
    rw [min_eq_left (le_of_lt hlt), max_eq_right (le_of_lt hlt)]; exact hlt

/-- the cell `[1,2] x [0,1]` and a four-vertex path whose middle leg alone passes through it: the
whole path has the piece `5/4 .. 7/4` in the cell, the two runs of two vertices have none -/
theorem runs_without_the_joining_leg_lose_a_cell :
    clipPathConvex [(1, 0), (2, 0), (2, 1), (1, 1)] [(1/4, 1/2), (1/2, 1/2), (5/2, 1/2), (11/4, 1/2)] = [(5/4, 7/4)] ∧
    clipPathConvex [(1, 0), (2, 0), (2, 1), (1, 1)] ([(1/4, 1/2), (1/2, 1/2), (5/2, 1/2), (11/4, 1/2)].take 2) = [] ∧
    clipPathConvex [(1, 0), (2, 0), (2, 1), (1, 1)] ([(1/4, 1/2), (1/2, 1/2), (5/2, 1/2), (11/4, 1/2)].drop 2) = [] := by
  decide +kernel

/-! ### non-vacuity: the hypotheses of `every_leg_has_its_segment` hold for the middle leg above -/
example : insideConvexB [(1, 0), (2, 0), (2, 1), (1, 1)] (legPoint (1/2, 1/2) (5/2, 1/2) (1/4)) = true ∧
    insideConvexB [(1, 0), (2, 0), (2, 1), (1, 1)] (legPoint (1/2, 1/2) (5/2, 1/2) (3/4)) = true := by
  decide +kernel

end Ems.C18
