import EmsModel.Lemmas.CliRe
import EmsModel.Gen.Tables
/-!
# C20 — command line tools compute exactly what the library computes

Proved part: the argument grammar (`bounds_re` read as a full match), the decision order of
`geometry_argument`, the export format tables and the exit-status mapping / step order of the
handlers.  Equality of the files written by the commands with the library results is a
runtime comparison made by the harness on every run (see `harness/props/c20.py`).
-/
namespace Ems.C20

open Ems Ems.Cli

/-! ## The bounds grammar -/

/-- `parseBounds s = some (a,b,c,d)` **iff** `s`, in its entirety, is four numerals of the
grammar separated by commas with optional blanks around the commas, and `a..d` are the values
of those numerals, each numeral read in full. -/
theorem parseBounds_iff (s : List Char) (b : Bounds) : parseBounds s = some b ↔ IsBounds s b :=
  ⟨isBounds_of_parseBounds, parseBounds_of_isBounds⟩

/-- A text denotes at most one quadruple of numbers, however it is cut into numerals and
blanks. -/
theorem bounds_unambiguous (s : List Char) (b b' : Bounds) (h : IsBounds s b) (h' : IsBounds s b') :
    b = b' := by
  have h1 := (parseBounds_iff s b).mpr h
  have h2 := (parseBounds_iff s b').mpr h'
  rw [h1] at h2
  exact Option.some.inj h2

/-- Text that is not exactly four comma-separated numbers is never taken as bounds: neither
`bounds_argument` nor `geometry_argument` (whatever JSON and the file system say) make a box
out of it. -/
theorem not_bounds_never_box (s : List Char) (h : ¬ ∃ b, IsBounds s b) :
    boundsArgument s = .error .notBounds
    ∧ ∀ json file b, geometryArgument s json file ≠ .ok (.box b) := by
  have hn : parseBounds s = none := by
    cases hp : parseBounds s with
    | none => rfl
    | some b => exact absurd ⟨b, (parseBounds_iff s b).mp hp⟩ h
  refine ⟨by simp [boundsArgument, hn], ?_⟩
  intro json file b
  simp only [geometryArgument, hn]
  cases json <;> simp <;> (repeat' split) <;> simp

/-- A bounds text denotes exactly the box of its four numbers — in both argument types, and
whatever else the same text might also be (JSON, a file name). -/
theorem bounds_denote_box (s : List Char) (b : Bounds) (h : IsBounds s b) :
    boundsArgument s = .ok (.box b) ∧ ∀ json file, geometryArgument s json file = .ok (.box b) := by
  have hp := (parseBounds_iff s b).mpr h
  exact ⟨by simp [boundsArgument, hp], fun json file => by simp [geometryArgument, hp]⟩

/-- The box is (lon min, lat min, lon max, lat max) in the order given. -/
theorem box_ring (x0 y0 x1 y1 : Rat) :
    boxRing (x0, y0, x1, y1) = [(x1, y0), (x1, y1), (x0, y1), (x0, y0)] := rfl

/-- Characters of a bounds text: digits, `_`, `.`, `-`, `,` and blanks only — in particular
no JSON opener (`{`, `[`, `"`), and at least three commas, so a bounds text is never a JSON
scalar either. -/
theorem bounds_chars (s : List Char) (b : Bounds) (h : IsBounds s b) :
    ∀ c ∈ s, NumChar c ∨ isSpace c = true ∨ c = ',' := by
  obtain ⟨n1, n2, n3, n4, w1, w2, w3, w4, w5, w6, rfl, hw1, hw2, hw3, hw4, hw5, hw6,
    h1, h2, h3, h4⟩ := h
  have A : ∀ {n v}, IsDecimal n v → ∀ c ∈ n, NumChar c ∨ isSpace c = true ∨ c = ',' :=
    fun h c m => Or.inl (h.chars c m)
  have B : ∀ {w}, Blank w → ∀ c ∈ w, NumChar c ∨ isSpace c = true ∨ c = ',' :=
    fun h c m => Or.inr (Or.inl (h c m))
  have C : ∀ {w}, Blank w → ∀ c ∈ ',' :: w, NumChar c ∨ isSpace c = true ∨ c = ',' :=
    fun h c m => (List.mem_cons.mp m).elim (fun e => Or.inr (Or.inr e)) (B h c)
  exact all_append (all_append (all_append (all_append (all_append (all_append (all_append
    (all_append (all_append (A h1) (B hw1)) (C hw2)) (A h2)) (B hw3)) (C hw4)) (A h3)) (B hw5))
    (C hw6)) (A h4)

/-! ## Tie to the live regular expression -/

/-- The syntax tree `boundsAst` is spelled, in Python's `re` syntax, exactly as the pattern
text of the live `emsarray.cli.utils.bounds_re` (regenerated into `Ems.Gen.boundsRe` on every
run), with the same flags, and it obeys the precedence discipline that makes the spelling
unambiguous.  Any edit of the regular expression breaks this theorem. -/
theorem pattern_text :
    boundsAst.pattern = Ems.Gen.boundsRe ∧ boundsFlags = Ems.Gen.boundsReFlags
    ∧ Re.wf true boundsAst = true := by
  decide +kernel

/-- The language of that tree is exactly the grammar of `parseBounds_iff`: a text matches the
pattern in full iff it is four numerals separated by commas with optional blanks. -/
theorem pattern_language (s : List Char) :
    Re.Matches boundsAst s ↔ (parseBounds s).isSome = true := by
  rw [boundsAst_iff]
  constructor
  · rintro ⟨b, h⟩
    simp [(parseBounds_iff s b).mpr h]
  · intro h
    cases hp : parseBounds s with
    | none => simp [hp] at h
    | some b => exact ⟨b, (parseBounds_iff s b).mp hp⟩

/-! ## `geometry_argument`: bounds, else JSON, else file, else usage error -/

theorem geometry_argument_order (s : List Char) (json : JsonOutcome) (file : FileInfo) :
    (∀ b, parseBounds s = some b → geometryArgument s json file = .ok (.box b))
    ∧ (parseBounds s = none →
        (json = .geometry → geometryArgument s json file = .ok .ofJson)
      ∧ (json = .notGeometry → geometryArgument s json file = .error .invalidGeojson)
      ∧ (json = .notJson →
          (file.exists = false → geometryArgument s json file = .error .notFound)
        ∧ (file.exists = true →
            (pathSuffix file.name ∈ geojsonSuffixes →
                (file.loads = true → geometryArgument s json file = .ok .ofFile)
              ∧ (file.loads = false → geometryArgument s json file = .error .badFile))
          ∧ (pathSuffix file.name ∉ geojsonSuffixes →
                geometryArgument s json file = .error .unsupportedFile)))) := by
  refine ⟨fun b hb => by simp [geometryArgument, hb], fun hn => ⟨?_, ?_, ?_⟩⟩
  · rintro rfl; simp [geometryArgument, hn]
  · rintro rfl; simp [geometryArgument, hn]
  · rintro rfl
    refine ⟨fun he => by simp [geometryArgument, hn, he], fun he => ⟨fun hsuf => ⟨?_, ?_⟩, fun hsuf => ?_⟩⟩
    · intro hl
      have : geojsonSuffixes.contains (pathSuffix file.name) = true := by simpa using hsuf
      simp only [geometryArgument, hn, he, this, hl]
      rfl
    · intro hl
      have : geojsonSuffixes.contains (pathSuffix file.name) = true := by simpa using hsuf
      simp only [geometryArgument, hn, he, this, hl]
      rfl
    · have : geojsonSuffixes.contains (pathSuffix file.name) = false := by simpa using hsuf
      simp only [geometryArgument, hn, he, this]
      rfl

/-- Every outcome of `geometry_argument` is a geometry or a usage error: nothing else. -/
theorem geometry_argument_total (s : List Char) (json : JsonOutcome) (file : FileInfo) :
    (∃ g, geometryArgument s json file = .ok g) ∨ (∃ e, geometryArgument s json file = .error e) := by
  cases h : geometryArgument s json file with
  | ok g => exact Or.inl ⟨g, rfl⟩
  | error e => exact Or.inr ⟨e, rfl⟩

/-! ## export-geometry: format tables -/

/-- The guess is exactly the extension table: the format listed for the file name's suffix,
and nothing when the suffix is not listed. -/
theorem guess_format_table (name : List Char) (f : String) :
    guessFormat name = some f ↔ ∃ p ∈ guessTable, p.1.toList = pathSuffix name ∧ p.2 = f := by
  unfold guessFormat
  constructor
  · intro h
    simp only [Option.map_eq_some_iff] at h
    obtain ⟨p, hp, rfl⟩ := h
    exact ⟨p, List.mem_of_find?_eq_some hp, by simpa using List.find?_some hp, rfl⟩
  · rintro ⟨p, hp, hk, rfl⟩
    rw [← hk]
    have : ∀ p ∈ guessTable,
        (guessTable.find? (fun q => decide (q.1.toList = p.1.toList))).map (·.2) = some p.2 := by
      decide
    exact this p hp

theorem guess_table_explicit :
    guessTable = [(".json", "geojson"), (".geojson", "geojson"), (".wkt", "wkt"), (".wkb", "wkb"),
      (".shp", "shapefile")] := rfl

/-- Every format the guess can produce, and every explicit `--format` choice, has a writer in
the live `format_writers` table of the working tree; and every writer is reachable. -/
theorem formats_have_writers :
    (∀ p ∈ guessTable, p.2 ∈ Ems.Gen.formatWriters)
    ∧ (∀ f ∈ formatChoices, f = "auto" ∨ f ∈ Ems.Gen.formatWriters)
    ∧ (∀ w ∈ Ems.Gen.formatWriters, w ∈ formatChoices ∧ ∃ p ∈ guessTable, p.2 = w) := by
  decide

/-- A writer is called only for a registered format that was asked for, explicitly or through
the extension table; anything else fails before any writer runs, with a non-zero status. -/
theorem unknown_format_fails (writers : List String) (fmt : String) (name : List Char) :
    (∀ f, resolveFormat writers fmt name = .writer f →
        f ∈ writers ∧ fmt ∈ formatChoices ∧ ((fmt ≠ "auto" ∧ f = fmt) ∨ (fmt = "auto" ∧ guessFormat name = some f)))
    ∧ (fmt ∉ formatChoices → resolveFormat writers fmt name = .usage)
    ∧ (fmt = "auto" → guessFormat name = none → resolveFormat writers fmt name = .commandError)
    ∧ (fmt ∈ formatChoices → fmt ≠ "auto" → fmt ∉ writers → resolveFormat writers fmt name = .commandError) := by
  refine ⟨?_, ?_, ?_, ?_⟩
  · intro f h
    unfold resolveFormat at h
    split at h
    · simp at h
    · rename_i hc
      have hc' : fmt ∈ formatChoices := by simpa using hc
      by_cases ha : fmt = "auto"
      · simp only [ha, if_true] at h
        cases hg : guessFormat name with
        | none => simp [hg] at h
        | some g =>
          simp only [hg] at h
          split at h
          · rename_i hw
            simp at h; subst h
            exact ⟨by simpa using hw, hc', Or.inr ⟨ha, rfl⟩⟩
          · simp at h
      · simp only [ha, if_false] at h
        split at h
        · rename_i hw
          simp at h; subst h
          exact ⟨by simpa using hw, hc', Or.inl ⟨ha, rfl⟩⟩
        · simp at h
  · intro h
    simp [resolveFormat, h]
  · rintro rfl hg
    have : "auto" ∈ formatChoices := by decide
    simp [resolveFormat, hg, this]
  · intro hc ha hw
    simp [resolveFormat, hc, ha, hw]

/-! ## Exit status and step order -/

/-- A failure never exits with status 0 (a `CommandException` built with an explicit `code=0`
is the only way to say "not a failure"), and every failure other than the user's own
keyboard interrupt says something. -/
theorem exit_status_nonzero (f : Failure) (h : f ≠ .command 0) :
    exitStatus f ≠ 0 ∧ (f ≠ .interrupt → failureMessage f = true) := by
  cases f with
  | command code =>
    refine ⟨?_, fun _ => rfl⟩
    intro h0
    apply h
    simp only [exitStatus] at h0
    rw [h0]
  | interrupt => exact ⟨by decide, fun h => absurd rfl h⟩
  | _ => exact ⟨by decide, fun _ => rfl⟩

/-- The three failures named by the property have the documented statuses:
points outside the model and unknown / unguessable output format → 1 (`CommandException`),
unreadable geometry → 2 (argparse usage error), missing file → 2 (`OSError`). -/
theorem documented_statuses :
    exitStatus (.command defaultCommandCode) = 1 ∧ exitStatus .usage = 2 ∧ exitStatus .osError = 2
    ∧ exitStatus .uncaught = 3 ∧ exitStatus .interrupt = 1 := by decide

theorem runFrom_fail (fails : Nat → Option Failure) :
    ∀ (steps : List Step) (i w k : Nat) (f : Failure),
      k < steps.length → fails (i + k) = some f → (∀ j, j < k → fails (i + j) = none) →
      (∀ j st, j ≤ k → steps[j]? = some st → st.kind = .validate) →
      runFrom fails i steps w = ⟨exitStatus f, failureMessage f, w⟩
  | [], _, _, _, _, hk, _, _, _ => by simp at hk
  | st :: rest, i, w, 0, f, _, hf, _, hv => by
    have hst : st.kind = .validate := hv 0 st (Nat.le_refl _) rfl
    simp only [Nat.add_zero] at hf
    simp [runFrom, hf, hst]
  | st :: rest, i, w, k + 1, f, hk, hf, hnone, hv => by
    have hst : st.kind = .validate := hv 0 st (Nat.zero_le _) rfl
    have h0 : fails i = none := by simpa using hnone 0 (Nat.succ_pos _)
    have ih := runFrom_fail fails rest (i + 1) w k f (by simpa using hk)
      (by rw [show i + 1 + k = i + (k + 1) by omega]; exact hf)
      (fun j hj => by rw [show i + 1 + j = i + (j + 1) by omega]; exact hnone (j + 1) (by omega))
      (fun j st' hj hs => hv (j + 1) st' (by omega) (by simpa using hs))
    simp [runFrom, h0, hst, ih]

/-- Whatever kind of step fails first — a write step included — the command ends with that
failure's status and message: no failure is swallowed. -/
theorem run_status (fails : Nat → Option Failure) :
    ∀ (steps : List Step) (i w k : Nat) (f : Failure),
      k < steps.length → fails (i + k) = some f → (∀ j, j < k → fails (i + j) = none) →
      (runFrom fails i steps w).status = exitStatus f
      ∧ (runFrom fails i steps w).message = failureMessage f
  | [], _, _, _, _, hk, _, _ => by simp at hk
  | st :: rest, i, w, 0, f, _, hf, _ => by
    simp only [Nat.add_zero] at hf
    simp [runFrom, hf]
  | st :: rest, i, w, k + 1, f, hk, hf, hnone => by
    have h0 : fails i = none := by simpa using hnone 0 (Nat.succ_pos _)
    have ih := run_status fails rest (i + 1) (if st.kind = .write then w + 1 else w) k f (by simpa using hk)
      (by rw [show i + 1 + k = i + (k + 1) by omega]; exact hf)
      (fun j hj => by rw [show i + 1 + j = i + (j + 1) by omega]; exact hnone (j + 1) (by omega))
    simpa [runFrom, h0] using ih

theorem runFrom_ok (fails : Nat → Option Failure) :
    ∀ (steps : List Step) (i w : Nat), (∀ j, fails j = none) →
      runFrom fails i steps w = ⟨0, false, w + (steps.filter (fun st => st.kind = StepKind.write)).length⟩
  | [], _, _, _ => by simp [runFrom]
  | st :: rest, i, w, h => by
    have ih := runFrom_ok fails rest (i + 1) (if st.kind = .write then w + 1 else w) h
    simp only [runFrom, h i, ih]
    by_cases hk : st.kind = .write <;> simp [hk] <;> omega

/-- In each of the three handlers every step that can refuse the request precedes the only
step that creates the output. -/
theorem handlers_write_last :
    ∀ h : String × List Step, h ∈ handlers → ∀ (k : Nat) (st : Step), h.2[k]? = some st → st.kind = .validate →
      ∀ (j : Nat) (st' : Step), j ≤ k → h.2[j]? = some st' → st'.kind = .validate := by
  have key : ∀ h : String × List Step, h ∈ handlers → ∀ k, k < h.2.length → ∀ j, j < k + 1 →
      ((h.2[k]?).map (fun st => st.kind)) = some StepKind.validate →
      ((h.2[j]?).map (fun st => st.kind)) = some StepKind.validate := by
    decide
  intro h hh k st hk hv j st' hj hs'
  have hlt : k < h.2.length := by
    rcases Nat.lt_or_ge k h.2.length with h1 | h1
    · exact h1
    · rw [List.getElem?_eq_none h1] at hk; simp at hk
  have := key h hh k hlt j (by omega) (by simp [hk, hv])
  simpa [hs'] using this

/-- **exit_status.** For `clip`, `extract-points` and `export-geometry`: if the first step
that fails is a validation step (arguments, input files, geometry, points, format …), the
command ends with the failure's exit status — non-zero for every real failure — and a
message (every failure but a keyboard interrupt), and **no write step has been started**; if nothing fails it ends with status 0
after exactly one write. -/
theorem exit_status :
    ∀ h : String × List Step, h ∈ handlers → ∀ (fails : Nat → Option Failure),
      (∀ (k : Nat) (f : Failure) (st : Step), h.2[k]? = some st → st.kind = .validate → fails k = some f →
          (∀ j, j < k → fails j = none) →
          run h.2 fails = ⟨exitStatus f, failureMessage f, 0⟩
          ∧ (f ≠ .command 0 → exitStatus f ≠ 0) ∧ (f ≠ .interrupt → failureMessage f = true))
      ∧ ((∀ j, fails j = none) → run h.2 fails = ⟨0, false, 1⟩) := by
  intro h hh fails
  refine ⟨?_, ?_⟩
  · intro k f st hk hv hf hnone
    have hlt : k < h.2.length := by
      rcases Nat.lt_or_ge k h.2.length with h1 | h1
      · exact h1
      · rw [List.getElem?_eq_none h1] at hk; simp at hk
    refine ⟨?_, fun hne => (exit_status_nonzero f hne).1, fun hne => by cases f <;> simp_all [failureMessage]⟩
    have := runFrom_fail fails h.2 0 0 k f hlt (by simpa using hf)
      (fun j hj => by simpa using hnone j hj)
      (fun j st' hj hs' => handlers_write_last h hh k st hk hv j st' hj hs')
    simpa [run] using this
  · intro hnone
    have := runFrom_ok fails h.2 0 0 hnone
    have hcount : ∀ h : String × List Step, h ∈ handlers →
        (h.2.filter (fun st => st.kind = StepKind.write)).length = 1 := by decide
    simpa [run, hcount h hh] using this

/-! ## Non-vacuity -/

example : IsBounds "1.5 , -.2 , 3.,4".toList ((3 : Rat) / 2, -((2 : Rat) / 10), 3, 4) :=
  (parseBounds_iff _ _).mp (by decide +kernel)

example : parseBounds "0.12,0.12,0.28,0.18".toList
    = some ((12 : Rat) / 100, (12 : Rat) / 100, (28 : Rat) / 100, (18 : Rat) / 100) := by
  decide +kernel

example : parseBounds "1_000,2,3,4".toList = some (1000, 2, 3, 4) := by decide +kernel
example : parseBounds "1,2,3,4,5".toList = none := by decide +kernel
example : parseBounds "1,2,3,4abc".toList = none := by decide +kernel
example : parseBounds " 1,2,3,4".toList = none := by decide +kernel
example : parseBounds "1,2,3".toList = none := by decide +kernel
example : parseBounds "1__0,2,3,4".toList = none := by decide +kernel
example : ¬ ∃ b, IsBounds "1,2,3,4,5".toList b := by
  rintro ⟨b, h⟩
  have h1 := (parseBounds_iff _ b).mpr h
  have h2 : parseBounds "1,2,3,4,5".toList = none := by decide +kernel
  rw [h2] at h1
  cases h1

/-- the formal core of finding F6: reading only a prefix of the text cannot agree with the
grammar — the same prefix continues to a different box, or to no box at all -/
example : parseBounds "1,2,3,4".toList = some (1, 2, 3, 4)
    ∧ parseBounds "1,2,3,4.5".toList = some (1, 2, 3, (9 : Rat) / 2)
    ∧ parseBounds "1,2,3,4x".toList = none ∧ parseBounds "1,2,3,4,5".toList = none := by
  decide +kernel

/-- `float()` as modelled for the driver: ties to even, exact on dyadic values -/
example : toDouble ((1 : Rat) / 10) = (3602879701896397 : Rat) / 36028797018963968
    ∧ toDouble ((9 : Rat) / 2) = (9 : Rat) / 2 ∧ toDouble (-(3 : Rat) / 8) = -(3 : Rat) / 8
    ∧ toDouble 9007199254740993 = 9007199254740992 ∧ toDouble 9007199254740995 = 9007199254740996 := by
  decide +kernel

example : geometryArgument "{}".toList .notGeometry ⟨true, "x.json".toList, true⟩ = .error .invalidGeojson := by
  decide +kernel
example : geometryArgument "x.json".toList .notJson ⟨true, "x.json".toList, true⟩ = .ok .ofFile := by
  decide +kernel
example : geometryArgument "x.shp".toList .notJson ⟨true, "x.shp".toList, true⟩ = .error .unsupportedFile := by
  decide +kernel
example : guessFormat "out.geojson".toList = some "geojson" := by decide +kernel
example : guessFormat "out.tar.shp".toList = some "shapefile" := by decide +kernel
example : guessFormat ".json".toList = none := by decide +kernel
example : resolveFormat Ems.Gen.formatWriters "auto" "out.foo".toList = .commandError := by decide +kernel
example : resolveFormat Ems.Gen.formatWriters "bogus" "out.wkt".toList = .usage := by decide +kernel
example : run extractPointsSteps (fun i => if i = 3 then some (.command 1) else none) = ⟨1, true, 0⟩ := by
  decide +kernel
example : run clipSteps (fun _ => none) = ⟨0, false, 1⟩ := by decide +kernel

/-! ## the command-line tables are those of the code (T)

`harness/tables.py` translates `Command.guess_format` from its AST (the chain of `if extension …: return …`
statements, in order) and reads the `--format` / `--missing-points` choices and defaults from the parsers the
commands build; the results are regenerated into `Gen/Tables.lean` on every run. An edit of any of them in
emsarray breaks one of these obligations. -/

theorem guess_table_generated : Ems.Gen.guessFormatTable = guessTable := by decide

theorem format_choices_generated :
    Ems.Gen.formatChoices = formatChoices ∧ Ems.Gen.formatDefault = some "auto" := by decide

theorem missing_points_generated :
    Ems.Gen.missingPointsChoices = missingPointPolicies ∧
      Ems.Gen.missingPointsDefault = missingPointPolicies.head? := by decide

/-! ## the handlers are those of the code (T)

`harness/tables.py` walks the AST of `Command.handle` of the three commands in statement order (into `with`, `try`,
`except` and `if` bodies; `logger.*` calls dropped) and emits every library call it finds there as (kind, call); a
call, `.ems` property, table subscript, `raise` or statement it has no vocabulary entry for becomes an
`("unknown", "<unknown: …>")` entry, which none of the theorems below accepts.  The model's call lists are those
lists, and the model's step lists are the call lists grouped by step — so the order of the steps, which
`handlers_write_last` and `exit_status` rest on, is the statement order of the code. -/

theorem clip_handler_generated :
    Ems.Gen.clipHandleCalls = clipCalls.map HandlerCall.entry ∧ clipSteps = stepsOfCalls clipCalls := by
  decide +kernel

theorem extract_points_handler_generated :
    Ems.Gen.extractPointsHandleCalls = extractPointsCalls.map HandlerCall.entry
      ∧ extractPointsSteps = stepsOfCalls extractPointsCalls := by
  decide +kernel

theorem export_geometry_handler_generated :
    Ems.Gen.exportGeometryHandleCalls = exportGeometryCalls.map HandlerCall.entry
      ∧ exportGeometrySteps = stepsOfCalls exportGeometryCalls := by
  decide +kernel

/-- `handlers_write_last`, restated for the lists read off the code: in each handler, as written, every call is of a
known kind, exactly one call writes, and every `read`, `compute` and `fail-check` comes before it.  Decided on the
generated lists themselves (not through the three theorems above), so that a write moved forward in the code is
reported by this obligation on its own. -/
theorem generated_handlers_write_last :
    ∀ l ∈ [Ems.Gen.clipHandleCalls, Ems.Gen.extractPointsHandleCalls, Ems.Gen.exportGeometryHandleCalls],
      WritesLast l := by
  decide +kernel

/-- What ties the kinds of the generated entries to the kinds of the model's steps: an entry is tagged `write`
exactly when its step is a write step. -/
theorem entry_kind (c : HandlerCall) : c.entry.1 = "write" ↔ c.toStep.kind = .write := by
  cases c with
  | mk step role call => cases role <;> simp [HandlerCall.entry, HandlerCall.toStep, CallRole.tag, CallRole.kind]

end Ems.C20
