import EmsModel.Props.C18
/-!
# C18, resolution — the pieces of a path do not depend on the scale the model is drawn at

The sixth round draws the same grids, meshes and paths at `2^-k` degrees per lattice unit, the
lattice origin somewhere along the equator (`harness/gen/c18_extra6.py: place`).  In the
path-parameter space of `Core/Transect.lean` nothing may change: `resolution_invariant` proves
that the clip of a path against a (convex) cell is the same list of parameter intervals when cell
and path are both mapped by `p ↦ t + s • p` (any `s ≠ 0`, any offset `t`), and
`transect_resolution_invariant` lifts it to the segments of a whole transect.  The harness sends
every clipped cell of such a model to the driver twice — as drawn and on the lattice — and both
must agree with what GEOS returned.
-/
namespace Ems.C18
open Ems Ems.PathClip

/-- lattice point `p` drawn at `s` units per lattice unit with the lattice origin at `t` -/
def drawn (s : Rat) (t p : Pt) : Pt := (t.1 + s * p.1, t.2 + s * p.2)

theorem cross_drawn (s : Rat) (t o a b : Pt) :
    cross (drawn s t o) (drawn s t a) (drawn s t b) = s * s * cross o a b := by
  simp only [cross, drawn]; ring

/-- the edges of a ring that starts at `a`, goes through `l` and closes at `w` -/
def chain (a : Pt) : List Pt → Pt → List (Pt × Pt)
  | [], w => [(a, w)]
  | b :: l, w => (a, b) :: chain b l w

theorem zip_eq_chain (l : List Pt) (a w : Pt) : (a :: l).zip (l ++ [w]) = chain a l w := by
  induction l generalizing a with
  | nil => rfl
  | cons b l ih => simp only [List.cons_append, List.zip_cons_cons, chain, ih]

theorem ringEdges_cons (v : Pt) (tl : List Pt) : ringEdges (v :: tl) = chain v tl v := by
  simp only [ringEdges, List.drop_succ_cons, List.drop_zero]
  exact zip_eq_chain tl v v

theorem chain_map (f : Pt → Pt) (l : List Pt) (a w : Pt) :
    chain (f a) (l.map f) (f w) = (chain a l w).map fun e => (f e.1, f e.2) := by
  induction l generalizing a with
  | nil => rfl
  | cons b l ih => simp only [List.map_cons, chain, ih]

theorem ringEdges_map (f : Pt → Pt) (p : Poly) :
    ringEdges (p.map f) = (ringEdges p).map fun e => (f e.1, f e.2) := by
  cases p with
  | nil => rfl
  | cons v tl => rw [List.map_cons, ringEdges_cons, ringEdges_cons, chain_map]

/-- the shoelace term of one edge -/
def shoe (e : Pt × Pt) : Rat := e.1.1 * e.2.2 - e.2.1 * e.1.2

theorem foldl_shoe_shift (l : List (Pt × Pt)) (c : Rat) :
    l.foldl (fun acc e => acc + shoe e) c = c + l.foldl (fun acc e => acc + shoe e) 0 := by
  induction l generalizing c with
  | nil => simp
  | cons e l ih =>
    simp only [List.foldl_cons]
    rw [ih (c + shoe e), ih (0 + shoe e)]; ring

/-- the shoelace sum of a drawn chain: the offset only leaves boundary terms, which cancel on a ring -/
theorem foldl_shoe_chain_drawn (s : Rat) (t : Pt) (l : List Pt) (a w : Pt) (c : Rat) :
    (chain (drawn s t a) (l.map (drawn s t)) (drawn s t w)).foldl (fun acc e => acc + shoe e) c
      = c + s * s * (chain a l w).foldl (fun acc e => acc + shoe e) 0
        + s * t.1 * (w.2 - a.2) + s * t.2 * (a.1 - w.1) := by
  induction l generalizing a c with
  | nil =>
    simp only [List.map_nil, chain, List.foldl_cons, List.foldl_nil, shoe, drawn]; ring
  | cons b l ih =>
    simp only [List.map_cons, chain, List.foldl_cons]
    rw [ih b (c + shoe (drawn s t a, drawn s t b)), foldl_shoe_shift _ (0 + shoe (a, b))]
    simp only [shoe, drawn]; ring

theorem area2_eq_foldl_shoe (p : Poly) : area2 p = (ringEdges p).foldl (fun acc e => acc + shoe e) 0 := rfl

theorem area2_drawn (s : Rat) (t : Pt) (p : Poly) : area2 (p.map (drawn s t)) = s * s * area2 p := by
  cases p with
  | nil => simp [area2, ringEdges]
  | cons v tl =>
    rw [area2_eq_foldl_shoe, area2_eq_foldl_shoe, List.map_cons, ringEdges_cons, ringEdges_cons,
      foldl_shoe_chain_drawn]
    ring

theorem orient_drawn (s : Rat) (hs : s ≠ 0) (t : Pt) (p : Poly) : orient (p.map (drawn s t)) = orient p := by
  have hq : 0 < s * s := mul_self_pos.mpr hs
  have key : s * s * area2 p < 0 ↔ area2 p < 0 := by
    constructor
    · intro h
      by_contra hA
      exact absurd h (not_lt.mpr (mul_nonneg hq.le (not_lt.mp hA)))
    · intro h
      exact mul_neg_of_pos_of_neg hq h
  simp only [orient, area2_drawn, key]

theorem edgeSide_drawn (s : Rat) (hs : s ≠ 0) (t : Pt) (poly : Poly) (e : Pt × Pt) (p : Pt) :
    edgeSide (poly.map (drawn s t)) (drawn s t e.1, drawn s t e.2) (drawn s t p) = s * s * edgeSide poly e p := by
  simp only [edgeSide, orient_drawn s hs, cross_drawn]; ring

theorem edgeConstraints_drawn (s : Rat) (hs : s ≠ 0) (t : Pt) (poly : Poly) (a b : Pt) :
    edgeConstraints (poly.map (drawn s t)) (drawn s t a) (drawn s t b)
      = (edgeConstraints poly a b).map fun cd => (s * s * cd.1, s * s * cd.2) := by
  simp only [edgeConstraints, ringEdges_map, List.map_map]
  refine List.map_congr_left fun e _ => ?_
  simp only [Function.comp, edgeSide_drawn s hs]
  refine Prod.ext rfl ?_
  show s * s * edgeSide poly e b - s * s * edgeSide poly e a = s * s * (edgeSide poly e b - edgeSide poly e a)
  ring

/-- a constraint `c + x d ≥ 0` multiplied by a positive number cuts the same interval -/
theorem clipStep_scale (q : Rat) (hq : 0 < q) (iv : Option (Rat × Rat)) (cd : Rat × Rat) :
    clipStep iv (q * cd.1, q * cd.2) = clipStep iv cd := by
  obtain ⟨c, d⟩ := cd
  cases iv with
  | none => rfl
  | some p =>
    obtain ⟨lo, hi⟩ := p
    have h1 : 0 < q * d ↔ 0 < d := ⟨fun h => by
      by_contra hd; exact absurd h (not_lt.mpr (mul_nonpos_of_nonneg_of_nonpos hq.le (not_lt.mp hd))),
      fun h => mul_pos hq h⟩
    have h2 : q * d < 0 ↔ d < 0 := ⟨fun h => by
      by_contra hd; exact absurd h (not_lt.mpr (mul_nonneg hq.le (not_lt.mp hd))),
      fun h => mul_neg_of_pos_of_neg hq h⟩
    have h3 : 0 ≤ q * c ↔ 0 ≤ c := ⟨fun h => by
      by_contra hc; exact absurd h (not_le.mpr (mul_neg_of_pos_of_neg hq (not_le.mp hc))),
      fun h => mul_nonneg hq.le h⟩
    have h4 : -(q * c) / (q * d) = -c / d := by
      rw [show -(q * c) = q * (-c) by ring]; exact mul_div_mul_left (-c) d hq.ne'
    simp only [clipStep, h1, h2, h3, h4]

theorem clipLegConvex_drawn (s : Rat) (hs : s ≠ 0) (t : Pt) (poly : Poly) (a b : Pt) :
    clipLegConvex (poly.map (drawn s t)) (drawn s t a) (drawn s t b) = clipLegConvex poly a b := by
  have hq : 0 < s * s := mul_self_pos.mpr hs
  simp only [clipLegConvex, edgeConstraints_drawn s hs, List.foldl_map, clipStep_scale (s * s) hq]

theorem clipLegConvexPiece_drawn (s : Rat) (hs : s ≠ 0) (t : Pt) (poly : Poly) (a b : Pt) :
    clipLegConvexPiece (poly.map (drawn s t)) (drawn s t a) (drawn s t b) = clipLegConvexPiece poly a b := by
  simp only [clipLegConvexPiece, clipLegConvex_drawn s hs]

theorem pathLegs_map (f : Pt → Pt) (path : List Pt) :
    pathLegs (path.map f) = (pathLegs path).map fun l => (l.1, f l.2.1, f l.2.2) := by
  simp only [pathLegs, List.length_map, List.map_filterMap, List.getElem?_map]
  congr 1
  funext k
  cases path[k]? <;> cases path[k + 1]? <;> rfl

/-- **the pieces do not depend on the resolution.**  Cell and path drawn at `s` units per lattice
unit from the origin `t`: the same stretches of the path, as path parameters, lie in the cell. -/
theorem resolution_invariant (s : Rat) (hs : s ≠ 0) (t : Pt) (poly : Poly) (path : List Pt) :
    clipPathConvex (poly.map (drawn s t)) (path.map (drawn s t)) = clipPathConvex poly path := by
  simp only [clipPathConvex, rawPathConvex, pathLegs_map, List.filterMap_map, Function.comp_def,
    clipLegConvexPiece_drawn s hs]

/-- … and so do the segments of the transect: same cells, same parameters, same order -/
theorem transect_resolution_invariant (s : Rat) (hs : s ≠ 0) (t : Pt) (cells : List (Nat × Poly)) (path : List Pt) :
    segments (cells.map fun c => (c.1, clipPathConvex (c.2.map (drawn s t)) (path.map (drawn s t))))
      = segments (cells.map fun c => (c.1, clipPathConvex c.2 path)) := by
  simp only [resolution_invariant s hs]

/-! ### non-vacuity: a unit cell and a path at 1/512 degrees per unit, 134 degrees east -/
example : clipPathConvex ([(1, 0), (2, 0), (2, 1), (1, 1)].map (drawn (1/512) (134, 0)))
    ([(1/2, 1/2), (5/2, 1/2)].map (drawn (1/512) (134, 0))) = [(1/4, 3/4)] := by decide +kernel
example : clipPathConvex [(1, 0), (2, 0), (2, 1), (1, 1)] [(1/2, 1/2), (5/2, 1/2)] = [(1/4, 3/4)] := by decide +kernel

end Ems.C18
