import EmsModel.Props.C05
import EmsModel.Lemmas.MeshMask
/-!
# C05, continued — selecting by points is selecting by the looked-up indexes, for every policy; the rows `drop`
keeps are the non-missing rows of `fill`

About `Ems.extractPoints` (`point_extraction.extract_points`), `Ems.selectIndexes` (`Convention.select_indexes`)
and `Ems.fillRows` (`extract_dataframe(..., missing_points='fill')`) of `Core/Select.lean`.
-/
namespace Ems.C05
open Ems Ems.NArr

variable {α : Type}

/-! ### selecting by points = selecting by indexes -/

/-- the positions of the points that hit, in order -/
def hitPositions {β : Type} (hits : List (Option β)) : List Nat :=
  (List.range hits.length).filter fun i => (hits[i]?).join.isSome

/-- **`select_points_compose`: selecting by points is selecting by the looked-up indexes, for every policy.**
Whatever the `missing_points` policy (any string), provided the call does not raise for a missing point (the
policy is not `error`, or no point misses), the data returned by `extract_points` is exactly
`select_indexes(the indexes of the points that hit, in request order)`, the rows labelled with the hits'
original positions; it fails only if that index selection fails.  The policies differ in nothing else. -/
theorem select_points_compose [Inhabited α] (grids : List (String × List Dim)) (ds : DSet α)
    (geometry : List String) (hits : List (Option (String × List Nat))) (pdim policy : String)
    (h : policy = "error" → ∀ (i : Nat), hits[i]? ≠ some none) :
    extractPoints grids ds geometry hits pdim policy =
      match selectIndexes grids ds geometry (hits.filterMap id) pdim with
      | none => .failed
      | some data => .ok (hitPositions hits) data := by
  have hcond : (policy == "error" &&
      !((List.range hits.length).filter fun i => (hits[i]?).join.isNone).isEmpty) = false := by
    by_cases hp : policy = "error"
    · have hnone : (List.range hits.length).filter (fun i => (hits[i]?).join.isNone) = [] := by
        rw [List.filter_eq_nil_iff]
        intro i hi
        have hlt := List.mem_range.mp hi
        have := h hp i
        rw [List.getElem?_eq_getElem hlt] at this ⊢
        cases hh : hits[i] with
        | none => rw [hh] at this; exact absurd rfl this
        | some x => simp
      simp [hnone]
    · have : (policy == "error") = false := by simp [hp]
      simp [this]
  cases hsel : selectIndexes grids ds geometry (hits.filterMap id) pdim <;>
    simp [extractPoints, hcond, hitPositions, hsel]

/-- in particular two policies neither of which raises return the same thing -/
theorem policies_agree [Inhabited α] (grids : List (String × List Dim)) (ds : DSet α)
    (geometry : List String) (hits : List (Option (String × List Nat))) (pdim p q : String)
    (hp : p ≠ "error") (hq : q ≠ "error") :
    extractPoints grids ds geometry hits pdim p = extractPoints grids ds geometry hits pdim q := by
  rw [select_points_compose grids ds geometry hits pdim p (fun e => absurd e hp),
    select_points_compose grids ds geometry hits pdim q (fun e => absurd e hq)]

/-- **When every point hits**, `extract_points(points, missing_points=anything)` is `select_indexes` of the
looked-up indexes, all of them, in request order, labelled `0 … n-1`. -/
theorem select_points_all_hit [Inhabited α] (grids : List (String × List Dim)) (ds : DSet α)
    (geometry : List String) (idxs : List (String × List Nat)) (pdim policy : String) :
    extractPoints grids ds geometry (idxs.map some) pdim policy =
      match selectIndexes grids ds geometry idxs pdim with
      | none => .failed
      | some data => .ok (List.range idxs.length) data := by
  rw [select_points_compose grids ds geometry (idxs.map some) pdim policy (by
    intro _ i hi
    simp only [List.getElem?_map, Option.map_eq_some_iff] at hi
    obtain ⟨_, _, hx⟩ := hi
    cases hx)]
  have h1 : (idxs.map some).filterMap id = idxs := by
    rw [List.filterMap_map]
    exact List.filterMap_some
  have h2 : hitPositions (idxs.map some) = List.range idxs.length := by
    simp only [hitPositions, List.length_map]
    rw [List.filter_eq_self]
    intro i hi
    have := List.mem_range.mp hi
    simp [this]
  rw [h1, h2]

/-- **End to end with the point lookup (C04)**: for every `intersects`, every policy, if every requested point
lies in some cell then `extract_points` is `select_indexes` of the native indexes of the lowest-indexed
intersecting cells (`lookupPoints_spec`), in request order. -/
theorem points_select_end_to_end [Inhabited α] (intersects : Poly → Pt → Bool) (c : Conv)
    (polys : List (Option Poly)) (pts : List Pt) (shape : List Nat) (hs : c.shape? c.default = some shape)
    (hsize : polys.length = size shape)
    (grids : List (String × List Dim)) (ds : DSet α) (geometry : List String) (pdim policy : String)
    (hall : ∀ (i : Nat) (hi : i < pts.length), ¬ Misses intersects polys pts[i]) :
    extractPoints grids ds geometry (lookupPoints intersects c polys pts) pdim policy =
      match selectIndexes grids ds geometry ((lookupPoints intersects c polys pts).filterMap id) pdim with
      | none => .failed
      | some data => .ok (hitPositions (lookupPoints intersects c polys pts)) data := by
  apply select_points_compose
  intro _ i hi
  have hlen : (lookupPoints intersects c polys pts).length = pts.length := by simp [lookupPoints]
  have hlt : i < pts.length := by rw [← hlen]; exact (List.getElem?_eq_some_iff.mp hi).1
  exact hall i hlt ((lookupPoints_spec intersects c polys pts shape hs hsize i hlt).1.mp hi)

/-! ### `drop` and `fill` -/

theorem idxOf_nodup (l : List Nat) (hnd : l.Nodup) (k : Nat) (hk : k < l.length) : l.idxOf? l[k] = some k := by
  rw [List.idxOf?_eq_some_iff]
  refine ⟨hk, rfl, ?_⟩
  intro j hj heq
  have e : l[j]? = l[k]? := by
    rw [List.getElem?_eq_getElem (Nat.lt_trans hj hk), List.getElem?_eq_getElem hk, heq]
  have := (List.getElem?_inj (Nat.lt_trans hj hk) hnd).mp e
  omega

theorem filterMap_eq_map_of {β γ : Type} (f : β → Option γ) (g : β → γ) :
    ∀ (l : List β), (∀ x ∈ l, f x = some (g x)) → l.filterMap f = l.map g
  | [], _ => rfl
  | a :: as, h => by
    rw [List.filterMap_cons, h a (by simp)]
    simp only [List.map_cons]
    rw [filterMap_eq_map_of f g as (fun x hx => h x (List.mem_cons_of_mem _ hx))]

/-- **`drop_then_fill_consistent`: the rows `drop` keeps are exactly the non-missing rows of `fill`, in the same
order.**  Let `labels` be the original positions of the rows `missing_points='drop'` returns (`policy_drop`:
increasing, all below the number `n` of requests) and `rows` those rows.  In the table `missing_points='fill'`
returns (one row per request), reading the rows at the positions `labels` gives back `rows`, row for row; the
positions that hold them are, in row order, exactly `labels`; and every other row consists of missing values
only. -/
theorem drop_then_fill_consistent (n : Nat) (labels : List Nat) (rows : List (List (Option α)))
    (hlen : rows.length = labels.length) (hsorted : labels.Pairwise (· < ·)) (hlt : ∀ i ∈ labels, i < n) :
    labels.filterMap (fun i => (fillRows n labels rows)[i]?) = rows ∧
    (List.range n).filter (fun i => labels.contains i) = labels ∧
    (∀ i, i < n → i ∉ labels → ∀ x ∈ (fillRows n labels rows).getD i [], x = none) := by
  have hnd : labels.Nodup := hsorted.imp (fun h => Nat.ne_of_lt h)
  refine ⟨?_, ?_, ?_⟩
  · rw [filterMap_eq_map_of _ (fun i => (fillRows n labels rows).getD i [])]
    · apply List.ext_getElem?
      intro k
      by_cases hk : k < labels.length
      · have hkr : k < rows.length := by rw [hlen]; exact hk
        have hi : labels[k] < n := hlt _ (List.getElem_mem hk)
        rw [List.getElem?_map, List.getElem?_eq_getElem hk, List.getElem?_eq_getElem hkr, Option.map_some]
        congr 1
        simp only [List.getD_eq_getElem?_getD, policy_fill n labels rows labels[k] hi, idxOf_nodup labels hnd k hk,
          Option.getD_some, List.getElem?_eq_getElem hkr]
      · have h1 : labels.length ≤ k := Nat.le_of_not_lt hk
        rw [List.getElem?_eq_none (by simpa using h1), List.getElem?_eq_none (by rw [hlen]; exact h1)]
    · intro i hi
      have := hlt i hi
      rw [policy_fill n labels rows i this]
      simp [List.getD_eq_getElem?_getD, policy_fill n labels rows i this]
  · apply Clip.sorted_ext _ _ (List.Pairwise.filter _ List.pairwise_lt_range) hsorted
    intro i
    simp only [List.mem_filter, List.mem_range, List.contains_iff_mem]
    exact ⟨fun h => h.2, fun h => ⟨hlt i h, h⟩⟩
  · intro i hi hnot x hx
    have hnone : labels.idxOf? i = none := List.idxOf?_eq_none_iff.mpr hnot
    simp only [List.getD_eq_getElem?_getD, policy_fill n labels rows i hi, hnone, Option.getD_some,
      List.mem_map] at hx
    obtain ⟨_, _, rfl⟩ := hx
    rfl

/-- composed with `policy_drop`: what `missing_points='drop'` returns for a list of lookups satisfies the
hypotheses of `drop_then_fill_consistent` (labels increasing, below the number of requests) -/
theorem drop_labels_fit [Inhabited α] (grids : List (String × List Dim)) (ds : DSet α) (geometry : List String)
    (hits : List (Option (String × List Nat))) (pdim : String) (labels : List Nat) (out : DSet α)
    (h : extractPoints grids ds geometry hits pdim "drop" = .ok labels out) :
    labels.Pairwise (· < ·) ∧ (∀ i ∈ labels, i < hits.length) ∧ labels.length = (hits.filterMap id).length := by
  obtain ⟨hsel, hl, hmem, hs⟩ := policy_drop grids ds geometry hits pdim labels out h
  refine ⟨hs, ?_, ?_⟩
  · intro i hi
    obtain ⟨x, hx⟩ := (hmem i).mp hi
    exact (List.getElem?_eq_some_iff.mp hx).1
  · subst hl
    clear h hmem hs hsel
    induction hits with
    | nil => rfl
    | cons a as ih =>
      rw [List.length_cons, List.range_succ_eq_map, List.filter_cons]
      simp only [List.getElem?_cons_zero, Option.join_some, List.filter_map, Function.comp_def,
        List.getElem?_cons_succ]
      cases a with
      | none => simpa using ih
      | some x => simpa using ih

/-! ### non-vacuity -/
example : fillRows 4 [1, 3] [[some (10 : Int), some 11], [some 30, none]] =
    [[none, none], [some 10, some 11], [none, none], [some 30, none]] := by decide
example : [1, 3].filterMap (fun i => (fillRows 4 [1, 3] [[some (10 : Int), some 11], [some 30, none]])[i]?) =
    [[some 10, some 11], [some 30, none]] := by decide
example : hitPositions [none, some ("face", [1, 1]), none, some ("face", [0, 2])] = [1, 3] := by decide
example : ∃ out, extractPoints [("face", [("y", 2), ("x", 3)])] [("v", exV)] [] [some ("face", [1, 1]), none] "point" "drop"
    = (.ok [0] out : Extract (Option Int)) := by
  rw [select_points_compose _ _ _ _ _ "drop" (fun h => absurd h (by decide))]
  exact ⟨_, rfl⟩

end Ems.C05
