import EmsModel.Core.Mask
import EmsModel.Core.MeshMask
namespace Ems.C07
end Ems.C07
