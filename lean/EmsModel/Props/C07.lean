import EmsModel.Lemmas.Mask
import EmsModel.Lemmas.MeshMask
import EmsModel.Lemmas.NpMask
/-!
# C07 — clip masks select exactly the intersecting cells plus the requested buffer

Property theorems only.  Unbounded in array shape, ring count, mesh size and hit order.
GEOS enters as a parameter `intersects : Poly → Geom → Bool` (any function); the hit list is
any list whose *members* are the cells with a polygon that intersects — order and repeats free.
-/
namespace Ems.C07

open Ems.Clip Ems.Clip.Mask Ems.Clip.FaceMesh

/-! ## Rings on grids: `blur_mask` -/

/-- `blur_mask` keeps the shape. -/
theorem blur_shape (m : Mask) (s : Nat) : (m.blur s).ny = m.ny ∧ (m.blur s).nx = m.nx :=
  ⟨rfl, rfl⟩

/-- A cell is marked after `blur_mask(·, s)` iff it lies inside the array and some marked cell
*inside the array* is at most `s` steps away in each axis (eight-direction rings; border cells
see only in-array neighbours, nothing wraps). Every shape, every size. -/
theorem blur_spec (m : Mask) (s j i : Nat) :
    (m.blur s).get j i = true ↔
      j < m.ny ∧ i < m.nx ∧ ∃ j' i', j' < m.ny ∧ i' < m.nx ∧
        j' ≤ j + s ∧ j ≤ j' + s ∧ i' ≤ i + s ∧ i ≤ i' + s ∧ m.get j' i' = true := by
  rw [get_blur]
  constructor
  · rintro ⟨hj, hi, j', i', h1, h2, h3, h4, hg⟩
    exact ⟨hj, hi, j', i', get_lt_ny hg, get_lt_nx hg, h1, h2, h3, h4, hg⟩
  · rintro ⟨hj, hi, j', i', _, _, h1, h2, h3, h4, hg⟩
    exact ⟨hj, hi, j', i', h1, h2, h3, h4, hg⟩

/-- size 0 changes nothing -/
theorem blur_zero (m : Mask) (j i : Nat) : (m.blur 0).get j i = m.get j i := by
  rw [Bool.eq_iff_iff, get_blur]
  constructor
  · rintro ⟨_, _, j', i', h1, h2, h3, h4, hg⟩
    have : j' = j := by omega
    have : i' = i := by omega
    subst_vars; exact hg
  · intro hg
    exact ⟨get_lt_ny hg, get_lt_nx hg, j, i, by omega, by omega, by omega, by omega, hg⟩

/-- blurring never unmarks a cell -/
theorem blur_extensive (m : Mask) (s j i : Nat) (h : m.get j i = true) :
    (m.blur s).get j i = true :=
  (get_blur m s j i).mpr ⟨get_lt_ny h, get_lt_nx h, j, i, by omega, by omega, by omega, by omega, h⟩

/-- a larger size never unmarks a cell -/
theorem blur_mono_size (m : Mask) (s t : Nat) (hst : s ≤ t) (j i : Nat)
    (h : (m.blur s).get j i = true) : (m.blur t).get j i = true := by
  rw [get_blur] at h ⊢
  obtain ⟨hj, hi, j', i', h1, h2, h3, h4, hg⟩ := h
  exact ⟨hj, hi, j', i', by omega, by omega, by omega, by omega, hg⟩

/-- a larger input (same shape) never unmarks a cell -/
theorem blur_mono_input (m m' : Mask) (hny : m.ny = m'.ny) (hnx : m.nx = m'.nx)
    (hsub : ∀ j i, m.get j i = true → m'.get j i = true) (s j i : Nat)
    (h : (m.blur s).get j i = true) : (m'.blur s).get j i = true := by
  rw [get_blur] at h ⊢
  obtain ⟨hj, hi, j', i', h1, h2, h3, h4, hg⟩ := h
  exact ⟨hny ▸ hj, hnx ▸ hi, j', i', h1, h2, h3, h4, hsub _ _ hg⟩

/-- between two in-range positions at most `s + t` apart lies an in-range one within `t` of the
first and `s` of the second -/
theorem mid_exists (j j' s t ny : Nat) (h1 : j' ≤ j + (s + t)) (h2 : j ≤ j' + (s + t))
    (hj : j < ny) (hj' : j' < ny) :
    ∃ jm, jm ≤ j + t ∧ j ≤ jm + t ∧ j' ≤ jm + s ∧ jm ≤ j' + s ∧ jm < ny := by
  by_cases a : j' + t ≤ j
  · exact ⟨j - t, by omega, by omega, by omega, by omega, by omega⟩
  · by_cases b : j + t ≤ j'
    · exact ⟨j + t, by omega, by omega, by omega, by omega, by omega⟩
    · exact ⟨j', by omega, by omega, by omega, by omega, by omega⟩

/-- `t` rings around `s` rings are `s + t` rings: a buffer of `b` is `b` times one ring,
also at the array border. -/
theorem blur_blur (m : Mask) (s t j i : Nat) :
    ((m.blur s).blur t).get j i = (m.blur (s + t)).get j i := by
  rw [Bool.eq_iff_iff, get_blur, get_blur]
  constructor
  · rintro ⟨hj, hi, j'', i'', h1, h2, h3, h4, hg⟩
    rw [get_blur] at hg
    obtain ⟨_, _, j', i', g1, g2, g3, g4, hg⟩ := hg
    exact ⟨hj, hi, j', i', by omega, by omega, by omega, by omega, hg⟩
  · rintro ⟨hj, hi, j', i', h1, h2, h3, h4, hg⟩
    have hj : j < m.ny := hj
    have hi : i < m.nx := hi
    obtain ⟨jm, a1, a2, a3, a4, a5⟩ := mid_exists j j' s t m.ny h1 h2 hj (get_lt_ny hg)
    obtain ⟨im, b1, b2, b3, b4, b5⟩ := mid_exists i i' s t m.nx h3 h4 hi (get_lt_nx hg)
    refine ⟨hj, hi, jm, im, a1, a2, b1, b2, ?_⟩
    rw [get_blur]
    exact ⟨a5, b5, j', i', a3, a4, b3, b4, hg⟩

/-- the callable `blur_mask` refuses exactly the negative sizes -/
theorem blur_refusals (m : Mask) (s : Int) :
    m.blur? s = (if s < 0 then none else some (m.blur s.toNat)) := rfl

/-! ## Edges and nodes of marked faces: `smear_mask`, `c_mask_from_centres` -/

/-- each padded axis grows by exactly one -/
theorem smear_shape (m : Mask) (py px : Bool) :
    (m.smear py px).ny = m.ny + py.toNat ∧ (m.smear py px).nx = m.nx + px.toNat :=
  ⟨smear_ny m py px, smear_nx m py px⟩

/-- For each of the axis choices: position `(j, i)` of the smeared array is marked iff it is
inside the enlarged shape and one of the faces `(j', i')` with `j ∈ {j', j' + py}`,
`i ∈ {i', i' + px}` is marked. -/
theorem smear_spec (m : Mask) (py px : Bool) (j i : Nat) :
    (m.smear py px).get j i = true ↔
      j < m.ny + py.toNat ∧ i < m.nx + px.toNat ∧
      ∃ j' i', m.get j' i' = true ∧ j' ≤ j ∧ j ≤ j' + py.toNat ∧ i' ≤ i ∧ i ≤ i' + px.toNat := by
  rw [get_smear]
  constructor
  · rintro ⟨dj, di, h1, h2, h3, h4, hg⟩
    have := get_lt_ny hg
    have := get_lt_nx hg
    exact ⟨by omega, by omega, j - dj, i - di, hg, by omega, by omega, by omega, by omega⟩
  · rintro ⟨_, _, j', i', hg, h1, h2, h3, h4⟩
    refine ⟨j - j', i - i', by omega, by omega, by omega, by omega, ?_⟩
    have e1 : j - (j - j') = j' := by omega
    have e2 : i - (i - i') = i' := by omega
    rw [e1, e2]; exact hg

/-- the left edges `(j, i)`, `(j, i + 1)` of face `(j, i)` on the `(ny, nx + 1)` left grid -/
def leftEdgesOf (j i : Nat) : List (Nat × Nat) := [(j, i), (j, i + 1)]
/-- the back edges `(j, i)`, `(j + 1, i)` of face `(j, i)` on the `(ny + 1, nx)` back grid -/
def backEdgesOf (j i : Nat) : List (Nat × Nat) := [(j, i), (j + 1, i)]
/-- the four corner nodes of face `(j, i)` on the `(ny + 1, nx + 1)` node grid -/
def nodesOf (j i : Nat) : List (Nat × Nat) := [(j, i), (j, i + 1), (j + 1, i), (j + 1, i + 1)]

/-- exact shapes of the four masks -/
theorem cmask_shapes (face : Mask) :
    let c := cMaskFromCentres face
    (c.face = face) ∧ (c.left.ny = face.ny ∧ c.left.nx = face.nx + 1) ∧
    (c.back.ny = face.ny + 1 ∧ c.back.nx = face.nx) ∧
    (c.node.ny = face.ny + 1 ∧ c.node.nx = face.nx + 1) := by
  simp [cMaskFromCentres, smear_ny, smear_nx]

/-- a left edge is marked iff it belongs to at least one marked face -/
theorem cmask_left (face : Mask) (j i : Nat) :
    (cMaskFromCentres face).left.get j i = true ↔
      ∃ j' i', face.get j' i' = true ∧ (j, i) ∈ leftEdgesOf j' i' := by
  show (face.smear false true).get j i = true ↔ _
  rw [get_smear_ft]
  simp only [leftEdgesOf, List.mem_cons, Prod.mk.injEq, List.mem_nil_iff, or_false]
  constructor
  · rintro (⟨h1, h⟩ | h)
    · exact ⟨j, i - 1, h, Or.inr ⟨rfl, by omega⟩⟩
    · exact ⟨j, i, h, Or.inl ⟨rfl, rfl⟩⟩
  · rintro ⟨j', i', h, ⟨rfl, rfl⟩ | ⟨rfl, rfl⟩⟩
    · exact Or.inr h
    · exact Or.inl ⟨by omega, by simpa using h⟩

/-- a back edge is marked iff it belongs to at least one marked face -/
theorem cmask_back (face : Mask) (j i : Nat) :
    (cMaskFromCentres face).back.get j i = true ↔
      ∃ j' i', face.get j' i' = true ∧ (j, i) ∈ backEdgesOf j' i' := by
  show (face.smear true false).get j i = true ↔ _
  rw [get_smear_tf]
  simp only [backEdgesOf, List.mem_cons, Prod.mk.injEq, List.mem_nil_iff, or_false]
  constructor
  · rintro (⟨h1, h⟩ | h)
    · exact ⟨j - 1, i, h, Or.inr ⟨by omega, rfl⟩⟩
    · exact ⟨j, i, h, Or.inl ⟨rfl, rfl⟩⟩
  · rintro ⟨j', i', h, ⟨rfl, rfl⟩ | ⟨rfl, rfl⟩⟩
    · exact Or.inr h
    · exact Or.inl ⟨by omega, by simpa using h⟩

/-- a node is marked iff it is a corner of at least one marked face -/
theorem cmask_node (face : Mask) (j i : Nat) :
    (cMaskFromCentres face).node.get j i = true ↔
      ∃ j' i', face.get j' i' = true ∧ (j, i) ∈ nodesOf j' i' := by
  show (face.smear true true).get j i = true ↔ _
  rw [get_smear_tt]
  simp only [nodesOf, List.mem_cons, Prod.mk.injEq, List.mem_nil_iff, or_false]
  constructor
  · rintro (⟨h1, h1', h⟩ | ⟨h1, h⟩ | ⟨h1, h⟩ | h)
    · exact ⟨j - 1, i - 1, h, Or.inr (Or.inr (Or.inr ⟨by omega, by omega⟩))⟩
    · exact ⟨j - 1, i, h, Or.inr (Or.inr (Or.inl ⟨by omega, rfl⟩))⟩
    · exact ⟨j, i - 1, h, Or.inr (Or.inl ⟨rfl, by omega⟩)⟩
    · exact ⟨j, i, h, Or.inl ⟨rfl, rfl⟩⟩
  · rintro ⟨j', i', h, ⟨rfl, rfl⟩ | ⟨rfl, rfl⟩ | ⟨rfl, rfl⟩ | ⟨rfl, rfl⟩⟩
    · exact Or.inr (Or.inr (Or.inr h))
    · exact Or.inr (Or.inr (Or.inl ⟨by omega, by simpa using h⟩))
    · exact Or.inr (Or.inl ⟨by omega, by simpa using h⟩)
    · exact Or.inl ⟨by omega, by omega, by simpa using h⟩

/-! ## Grid clip masks -/

/-- For every `intersects`, every polygon array (holes are `none`) and every hit list whose
members are the cells with an intersecting polygon — in any order, with or without repeats —
a cell is marked iff it lies within `buffer` rings of an intersecting cell.
A non-positive buffer means no ring. -/
theorem grid_mask_spec {Poly Geom : Type} (intersects : Poly → Geom → Bool)
    (polys : List (Option Poly)) (g : Geom) (ny nx : Nat) (hits : List Nat)
    (hhits : ∀ n, n ∈ hits ↔ ∃ p, polys[n]? = some (some p) ∧ intersects p g = true)
    (buffer : Int) (j i : Nat) :
    (gridClipMask ny nx hits buffer).get j i = true ↔
      j < ny ∧ i < nx ∧ ∃ j' i', j' < ny ∧ i' < nx ∧
        j' ≤ j + buffer.toNat ∧ j ≤ j' + buffer.toNat ∧
        i' ≤ i + buffer.toNat ∧ i ≤ i' + buffer.toNat ∧
        ∃ p, polys[j' * nx + i']? = some (some p) ∧ intersects p g = true := by
  rw [get_gridClipMask]
  simp only [hhits]

/-- the mask of the cells whose linear index satisfies `P` -/
def cellMask (ny nx : Nat) (P : Nat → Bool) : Mask := Mask.ofFn ny nx fun j i => P (j * nx + i)

/-- the clip mask *is* `blur_mask` of the mask of intersecting cells, as arrays -/
theorem grid_mask_eq_blur (ny nx : Nat) (P : Nat → Bool) (hits : List Nat)
    (hhits : ∀ n, n < ny * nx → (n ∈ hits ↔ P n = true)) (buffer : Int) :
    gridClipMask ny nx hits buffer = (cellMask ny nx P).blur buffer.toNat := by
  have hbase : Mask.reshape ny nx (flatMask (ny * nx) hits) = cellMask ny nx P := by
    unfold Mask.reshape cellMask
    apply ofFn_congr
    intro j i hj hi
    rw [Bool.eq_iff_iff, getD_flatMask]
    have := lin_lt hj hi
    rw [← hhits _ this]
    exact ⟨fun h => h.2, fun h => ⟨this, h⟩⟩
  unfold gridClipMask
  by_cases hb : buffer > 0
  · simp only [hb, if_true, hbase]
  · have h0 : buffer.toNat = 0 := by omega
    simp only [hb, if_false, hbase, h0]
    unfold Mask.blur cellMask
    apply ofFn_congr
    intro j i hj hi
    rw [Bool.eq_iff_iff]
    have := blur_zero (Mask.ofFn ny nx fun j i => P (j * nx + i)) j i
    unfold Mask.blur at this
    rw [get_ofFn, get_ofFn] at this
    simp only [ofFn_ny, ofFn_nx, hj, hi, decide_true, Bool.true_and] at this
    rw [get_ofFn]
    simp only [hj, hi, decide_true, Bool.true_and]
    rw [← Bool.eq_iff_iff]
    exact this.symm

/-- the order (and multiplicity) in which the spatial index returns the hits is irrelevant -/
theorem grid_mask_order_irrelevant (ny nx : Nat) (hits hits' : List Nat)
    (h : ∀ n, n ∈ hits ↔ n ∈ hits') (buffer : Int) :
    gridClipMask ny nx hits buffer = gridClipMask ny nx hits' buffer := by
  have hbase : Mask.reshape ny nx (flatMask (ny * nx) hits) =
      Mask.reshape ny nx (flatMask (ny * nx) hits') := by
    unfold Mask.reshape
    apply ofFn_congr
    intro j i _ _
    rw [Bool.eq_iff_iff, getD_flatMask, getD_flatMask, h]
  unfold gridClipMask
  rw [hbase]

/-- `ArakawaC.make_clip_mask`: the face mask is the grid clip mask; left / back / node masks mark
exactly the edges and nodes of the marked faces. -/
theorem arakawa_mask_spec (ny nx : Nat) (hits : List Nat) (buffer : Int) :
    let c := arakawaClipMask ny nx hits buffer
    c.face = gridClipMask ny nx hits buffer ∧
    (∀ j i, c.left.get j i = true ↔ ∃ j' i', c.face.get j' i' = true ∧ (j, i) ∈ leftEdgesOf j' i') ∧
    (∀ j i, c.back.get j i = true ↔ ∃ j' i', c.face.get j' i' = true ∧ (j, i) ∈ backEdgesOf j' i') ∧
    (∀ j i, c.node.get j i = true ↔ ∃ j' i', c.face.get j' i' = true ∧ (j, i) ∈ nodesOf j' i') :=
  ⟨rfl, cmask_left _, cmask_back _, cmask_node _⟩

/-- Enlarging the geometry (more hits) or the buffer never unmarks a cell. -/
theorem mask_monotone_grid (ny nx : Nat) (hits hits' : List Nat) (hsub : ∀ n, n ∈ hits → n ∈ hits')
    (b b' : Int) (hb : b ≤ b') (j i : Nat)
    (h : (gridClipMask ny nx hits b).get j i = true) :
    (gridClipMask ny nx hits' b').get j i = true := by
  rw [get_gridClipMask] at h ⊢
  obtain ⟨hj, hi, j', i', hj', hi', h1, h2, h3, h4, hm⟩ := h
  have : b.toNat ≤ b'.toNat := by omega
  exact ⟨hj, hi, j', i', hj', hi', by omega, by omega, by omega, by omega, hsub _ hm⟩

/-- … and so for the Arakawa C edge and node masks -/
theorem mask_monotone_arakawa (ny nx : Nat) (hits hits' : List Nat)
    (hsub : ∀ n, n ∈ hits → n ∈ hits') (b b' : Int) (hb : b ≤ b') (j i : Nat) :
    ((arakawaClipMask ny nx hits b).left.get j i = true →
      (arakawaClipMask ny nx hits' b').left.get j i = true) ∧
    ((arakawaClipMask ny nx hits b).back.get j i = true →
      (arakawaClipMask ny nx hits' b').back.get j i = true) ∧
    ((arakawaClipMask ny nx hits b).node.get j i = true →
      (arakawaClipMask ny nx hits' b').node.get j i = true) := by
  have mono := mask_monotone_grid ny nx hits hits' hsub b b' hb
  refine ⟨?_, ?_, ?_⟩
  · intro h
    obtain ⟨j', i', hf, hm⟩ := (cmask_left _ j i).mp h
    exact (cmask_left _ j i).mpr ⟨j', i', mono _ _ hf, hm⟩
  · intro h
    obtain ⟨j', i', hf, hm⟩ := (cmask_back _ j i).mp h
    exact (cmask_back _ j i).mpr ⟨j', i', mono _ _ hf, hm⟩
  · intro h
    obtain ⟨j', i', hf, hm⟩ := (cmask_node _ j i).mp h
    exact (cmask_node _ j i).mpr ⟨j', i', mono _ _ hf, hm⟩

/-! ## Rings on meshes: `buffer_faces` -/

/-- `f` is in the result iff it is a face of the mesh and was given or shares a node with a
given face. -/
theorem buffer_faces_spec (m : FaceMesh) (F : List Nat) (f : Nat) :
    f ∈ m.bufferFaces F ↔ f < m.nFaces ∧ (f ∈ F ∨ ∃ f', f' ∈ F ∧ m.Shares f' f) :=
  mem_bufferFaces m F f

/-- the result is in ascending face order without repeats -/
theorem buffer_faces_sorted (m : FaceMesh) (F : List Nat) : (m.bufferFaces F).Pairwise (· < ·) :=
  sorted_bufferFaces m F

/-- `Within m S k f`: face `f` is reachable from a face satisfying `S` in at most `k`
node-sharing steps (`k` rings). -/
inductive Within (m : FaceMesh) (S : Nat → Prop) : Nat → Nat → Prop
  | base {f : Nat} : S f → Within m S 0 f
  | stay {k f : Nat} : Within m S k f → Within m S (k + 1) f
  | step {k f' f : Nat} : Within m S k f' → f < m.nFaces → m.Shares f' f → Within m S (k + 1) f

theorem Within.mono_set {m : FaceMesh} {S S' : Nat → Prop} (hS : ∀ f, S f → S' f) {k f : Nat}
    (h : Within m S k f) : Within m S' k f := by
  induction h with
  | base hs => exact .base (hS _ hs)
  | stay _ ih => exact .stay ih
  | step _ hf hsh ih => exact .step ih hf hsh

theorem Within.mono_rings {m : FaceMesh} {S : Nat → Prop} {k k' f : Nat} (hk : k ≤ k')
    (h : Within m S k f) : Within m S k' f := by
  induction hk with
  | refl => exact h
  | step _ ih => exact .stay ih

/-- `b` iterations of `buffer_faces` are exactly `b` rings. -/
theorem buffer_iter (m : FaceMesh) (F : List Nat) (hF : ∀ f ∈ F, f < m.nFaces) (b : Nat) (f : Nat) :
    f ∈ m.bufferIter b F ↔ Within m (· ∈ F) b f := by
  induction b generalizing f with
  | zero =>
    constructor
    · intro h; exact .base h
    · intro h; cases h with | base hs => exact hs
  | succ b ih =>
    rw [bufferIter_succ, mem_bufferFaces]
    constructor
    · rintro ⟨hf, h | ⟨f', hf', hsh⟩⟩
      · exact .stay ((ih f).mp h)
      · exact .step ((ih f').mp hf') hf hsh
    · intro h
      cases h with
      | stay h' =>
        have hm := (ih f).mpr h'
        exact ⟨inRange_bufferIter m b F hF f hm, Or.inl hm⟩
      | step h' hf hsh => exact ⟨hf, Or.inr ⟨_, (ih _).mpr h', hsh⟩⟩

/-- For every `intersects` and every order of the hits: the faces a mesh clip keeps are
exactly those within `buffer` node-sharing rings of an intersecting face. -/
theorem kept_faces_spec {Poly Geom : Type} (intersects : Poly → Geom → Bool)
    (polys : List (Option Poly)) (g : Geom) (m : FaceMesh) (hlen : polys.length = m.nFaces)
    (hits : List Nat)
    (hhits : ∀ n, n ∈ hits ↔ ∃ p, polys[n]? = some (some p) ∧ intersects p g = true)
    (buffer : Int) (f : Nat) :
    f ∈ keptFaces m hits buffer ↔
      Within m (fun n => ∃ p, polys[n]? = some (some p) ∧ intersects p g = true) buffer.toNat f := by
  unfold keptFaces
  have hr : ∀ f ∈ sortU hits, f < m.nFaces := by
    intro f hf
    rw [mem_sortU, hhits] at hf
    obtain ⟨p, hp, _⟩ := hf
    have : f < polys.length := by
      rcases Nat.lt_or_ge f polys.length with h | h
      · exact h
      · rw [List.getElem?_eq_none h] at hp; simp at hp
    omega
  rw [buffer_iter m _ hr]
  constructor
  · exact Within.mono_set (fun n hn => (hhits n).mp ((mem_sortU _ _).mp hn))
  · exact Within.mono_set (fun n hn => (mem_sortU _ _).mpr ((hhits n).mpr hn))

/-- the kept faces come out in ascending order without repeats, whatever the hit order -/
theorem kept_faces_sorted (m : FaceMesh) (hits : List Nat) (buffer : Int) :
    (keptFaces m hits buffer).Pairwise (· < ·) :=
  sorted_bufferIter m _ _ (sorted_sortU hits)

/-! ## Mesh masks: kept edges and nodes, renumbering -/

/-- entry `e` of a new-index table is kept (not masked) -/
def IsKept (t : List (Option Nat)) (e : Nat) : Prop := ∃ v, t[e]? = some (some v)

/-- the nodes / edges of the kept faces, ascending -/
def keptNodes (m : FaceMesh) (K : List Nat) : List Nat := sortU (K.flatMap m.faceNodes)
def keptEdges (m : FaceMesh) (K : List Nat) : List Nat := sortU (K.flatMap m.faceEdgesOf)

theorem mem_keptNodes (m : FaceMesh) (K : List Nat) (n : Nat) :
    n ∈ keptNodes m K ↔ ∃ f, f ∈ K ∧ n ∈ m.faceNodes f := by
  simp [keptNodes, mem_sortU, List.mem_flatMap]

theorem mem_keptEdges (m : FaceMesh) (K : List Nat) (e : Nat) :
    e ∈ keptEdges m K ↔ ∃ f, f ∈ K ∧ e ∈ m.faceEdgesOf f := by
  simp [keptEdges, mem_sortU, List.mem_flatMap]

/-- **Renumbering.** For every order in which the hits arrive (and every buffer): each table has
one entry per old element; the new index of a kept element is the number of kept elements with a
smaller old index; a dropped element is masked.  Faces, nodes, and — when the mesh has an edge
dimension — edges; without an edge dimension there is no edge table. -/
theorem renumber_spec (m : FaceMesh) (hits : List Nat) (buffer : Int) :
    let K := keptFaces m hits buffer
    let M := ugridClipMask m hits buffer
    (M.newFace.length = m.nFaces ∧
      ∀ f, f < m.nFaces → M.newFace[f]? = some (if f ∈ K then some (countLt K f) else none)) ∧
    (M.newNode.length = m.nNodes ∧
      ∀ n, n < m.nNodes →
        M.newNode[n]? = some (if n ∈ keptNodes m K then some (countLt (keptNodes m K) n) else none)) ∧
    (match m.nEdges with
      | none => M.newEdge = none
      | some ne => ∃ t, M.newEdge = some t ∧ t.length = ne ∧
          ∀ e, e < ne →
            t[e]? = some (if e ∈ keptEdges m K then some (countLt (keptEdges m K) e) else none)) := by
  intro K M
  have hK : K.Pairwise (· < ·) := kept_faces_sorted m hits buffer
  refine ⟨⟨length_newElementIndexes _ _, fun f hf => getElem?_newElementIndexes _ _ hK f hf⟩,
    ⟨length_newElementIndexes _ _,
      fun n hn => getElem?_newElementIndexes _ _ (sorted_sortU _) n hn⟩, ?_⟩
  cases hne : m.nEdges with
  | none => simp [M, ugridClipMask, maskFromFaceIndexes, hne]
  | some ne =>
    refine ⟨newElementIndexes ne (keptEdges m K), ?_, length_newElementIndexes _ _,
      fun e he => getElem?_newElementIndexes _ _ (sorted_sortU _) e he⟩
    simp [M, K, ugridClipMask, maskFromFaceIndexes, hne, keptEdges]

/-- **Kept elements.** A face is kept iff it is one of the kept faces; a node (edge) is kept iff
it belongs to at least one kept face — nothing of a dropped face survives unless a kept face
shares it. -/
theorem mesh_mask_spec (m : FaceMesh) (hits : List Nat) (hr : ∀ f ∈ hits, f < m.nFaces)
    (buffer : Int) :
    let K := keptFaces m hits buffer
    let M := ugridClipMask m hits buffer
    (∀ f, IsKept M.newFace f ↔ f ∈ K) ∧
    (∀ n, IsKept M.newNode n ↔ n < m.nNodes ∧ ∃ f, f ∈ K ∧ n ∈ m.faceNodes f) ∧
    (∀ t, M.newEdge = some t →
      ∀ e, IsKept t e ↔ (∃ ne, m.nEdges = some ne ∧ e < ne) ∧ ∃ f, f ∈ K ∧ e ∈ m.faceEdgesOf f) ∧
    (M.newEdge = none ↔ m.nEdges = none) := by
  intro K M
  obtain ⟨⟨hfl, hf⟩, ⟨hnl, hn⟩, he⟩ := renumber_spec m hits buffer
  have hKr : ∀ f ∈ K, f < m.nFaces :=
    inRange_bufferIter m _ _ (fun f hf => hr f ((mem_sortU _ _).mp hf))
  have key : ∀ (t : List (Option Nat)) (size : Nat) (S : List Nat), t.length = size →
      (∀ e, e < size → t[e]? = some (if e ∈ S then some (countLt S e) else none)) →
      ∀ e, IsKept t e ↔ e < size ∧ e ∈ S := by
    intro t size S hl ht e
    unfold IsKept
    rcases Nat.lt_or_ge e size with h | h
    · rw [ht e h]
      by_cases hm : e ∈ S
      · simp [hm, h]
      · simp [hm]
    · rw [List.getElem?_eq_none (by omega)]
      simp; omega
  refine ⟨?_, ?_, ?_, ?_⟩
  · intro f
    rw [key _ _ K hfl hf f]
    exact ⟨fun h => h.2, fun h => ⟨hKr f h, h⟩⟩
  · intro n
    rw [key _ _ _ hnl hn n, mem_keptNodes]
  · intro t ht e
    cases hne : m.nEdges with
    | none => simp [hne] at he; rw [he] at ht; simp at ht
    | some ne =>
      simp only [hne] at he
      obtain ⟨t', ht', hl, hspec⟩ := he
      rw [ht] at ht'
      have : t = t' := by simpa using ht'
      subst this
      rw [key _ _ _ hl hspec e, mem_keptEdges]
      constructor
      · rintro ⟨h1, h2⟩; exact ⟨⟨ne, rfl, h1⟩, h2⟩
      · rintro ⟨⟨ne', h0, h1⟩, h2⟩
        have : ne' = ne := by simpa using h0.symm
        subst this; exact ⟨h1, h2⟩
  · cases hne : m.nEdges with
    | none =>
      simp only [hne] at he
      exact ⟨fun _ => rfl, fun _ => he⟩
    | some ne =>
      simp only [hne] at he
      obtain ⟨t', ht', _, _⟩ := he
      constructor
      · intro h; rw [h] at ht'; simp at ht'
      · intro h; simp at h

/-- Renumbering is order preserving and contiguous: kept elements receive `0 … k-1`
(each exactly once) in increasing old-index order.  Stated for any ascending kept list inside
the table, which is what `renumber_spec` produces for faces, nodes and edges. -/
theorem renumber_contiguous (size : Nat) (S : List Nat) (hS : S.Pairwise (· < ·))
    (hr : ∀ e ∈ S, e < size) :
    let t := newElementIndexes size S
    (∀ e e', e ∈ S → e' ∈ S → e < e' →
        ∃ v v', t[e]? = some (some v) ∧ t[e']? = some (some v') ∧ v < v') ∧
    (∀ (e v : Nat), t[e]? = some (some v) → v < S.length) ∧
    (∀ v, v < S.length → ∃ e, e ∈ S ∧ t[e]? = some (some v)) := by
  intro t
  have get : ∀ (e : Nat), e < size → (newElementIndexes size S)[e]? = some (if e ∈ S then some (countLt S e) else none) :=
    fun e he => getElem?_newElementIndexes size S hS e he
  refine ⟨?_, ?_, ?_⟩
  · intro e e' he he' hlt
    refine ⟨countLt S e, countLt S e', ?_, ?_, countLt_strict S he hlt⟩
    · rw [get e (hr e he)]; simp [he]
    · rw [get e' (hr e' he')]; simp [he']
  · intro e v hv
    rcases Nat.lt_or_ge e size with h | h
    · rw [get e h] at hv
      by_cases hm : e ∈ S
      · simp [hm] at hv; subst hv; exact countLt_lt_length S hm
      · simp [hm] at hv
    · have : t[e]? = none := List.getElem?_eq_none (by rw [length_newElementIndexes]; omega)
      rw [this] at hv; simp at hv
  · intro v hv
    have hm : S[v] ∈ S := List.getElem_mem hv
    refine ⟨S[v], hm, ?_⟩
    rw [get _ (hr _ hm)]
    simp [hm, countLt_getElem S hS v hv]

/-- `renumber_contiguous` for the three tables of a clip mask, whatever the hit order:
kept faces, kept nodes and kept edges each receive `0 … k-1` in their original order.
(Nodes / edges need the mesh to be well formed: every referenced node / edge exists.) -/
theorem clip_mask_contiguous (m : FaceMesh) (hits : List Nat) (hr : ∀ f ∈ hits, f < m.nFaces)
    (hnodes : ∀ f n, n ∈ m.faceNodes f → n < m.nNodes)
    (hedges : ∀ ne, m.nEdges = some ne → ∀ f e, e ∈ m.faceEdgesOf f → e < ne)
    (buffer : Int) :
    let K := keptFaces m hits buffer
    let M := ugridClipMask m hits buffer
    let Contig (t : List (Option Nat)) (S : List Nat) : Prop :=
      (∀ e e', e ∈ S → e' ∈ S → e < e' →
          ∃ v v', t[e]? = some (some v) ∧ t[e']? = some (some v') ∧ v < v') ∧
      (∀ (e v : Nat), t[e]? = some (some v) → v < S.length) ∧
      (∀ v, v < S.length → ∃ e, e ∈ S ∧ t[e]? = some (some v))
    Contig M.newFace K ∧ Contig M.newNode (keptNodes m K) ∧
    (∀ t, M.newEdge = some t → Contig t (keptEdges m K)) := by
  intro K M Contig
  have hKr : ∀ f ∈ K, f < m.nFaces :=
    inRange_bufferIter m _ _ (fun f hf => hr f ((mem_sortU _ _).mp hf))
  refine ⟨renumber_contiguous m.nFaces K (kept_faces_sorted m hits buffer) hKr,
    renumber_contiguous m.nNodes (keptNodes m K) (sorted_sortU _) ?_, ?_⟩
  · intro n hn
    obtain ⟨f, _, hm⟩ := (mem_keptNodes m K n).mp hn
    exact hnodes f n hm
  · intro t ht
    cases hne : m.nEdges with
    | none => simp [M, ugridClipMask, maskFromFaceIndexes, hne] at ht
    | some ne =>
      have : t = newElementIndexes ne (keptEdges m K) := by
        simp [M, ugridClipMask, maskFromFaceIndexes, hne] at ht
        exact ht.symm
      subst this
      apply renumber_contiguous ne (keptEdges m K) (sorted_sortU _)
      intro e he
      obtain ⟨f, _, hm⟩ := (mem_keptEdges m K e).mp he
      exact hedges ne hne f e hm

/-- the whole mask is a function of the *set* of hits: any two orders give the same mask -/
theorem renumber_order_irrelevant (m : FaceMesh) (hits hits' : List Nat)
    (h : ∀ f, f ∈ hits ↔ f ∈ hits') (buffer : Int) :
    ugridClipMask m hits buffer = ugridClipMask m hits' buffer := by
  unfold ugridClipMask keptFaces
  rw [sortU_congr h]

/-- Enlarging the geometry (more hits) or the buffer never drops a face, a node or an edge. -/
theorem mask_monotone_mesh (m : FaceMesh) (hits hits' : List Nat)
    (hr : ∀ f ∈ hits', f < m.nFaces) (hsub : ∀ f, f ∈ hits → f ∈ hits')
    (b b' : Int) (hb : b ≤ b') :
    let M := ugridClipMask m hits b
    let M' := ugridClipMask m hits' b'
    (∀ f, IsKept M.newFace f → IsKept M'.newFace f) ∧
    (∀ n, IsKept M.newNode n → IsKept M'.newNode n) ∧
    (∀ t t', M.newEdge = some t → M'.newEdge = some t' → ∀ e, IsKept t e → IsKept t' e) := by
  intro M M'
  have hr0 : ∀ f ∈ hits, f < m.nFaces := fun f hf => hr f (hsub f hf)
  have hK : ∀ f, f ∈ keptFaces m hits b → f ∈ keptFaces m hits' b' := by
    intro f hf
    unfold keptFaces at hf ⊢
    rw [buffer_iter m _ (fun f hf => hr0 f ((mem_sortU _ _).mp hf))] at hf
    rw [buffer_iter m _ (fun f hf => hr f ((mem_sortU _ _).mp hf))]
    apply Within.mono_rings (by omega : b.toNat ≤ b'.toNat)
    exact Within.mono_set (fun n hn => (mem_sortU _ _).mpr (hsub n ((mem_sortU _ _).mp hn))) hf
  obtain ⟨f1, n1, e1, _⟩ := mesh_mask_spec m hits hr0 b
  obtain ⟨f2, n2, e2, _⟩ := mesh_mask_spec m hits' hr b'
  refine ⟨?_, ?_, ?_⟩
  · intro f hf; exact (f2 f).mpr (hK f ((f1 f).mp hf))
  · intro n hn
    obtain ⟨hlt, f, hf, hm⟩ := (n1 n).mp hn
    exact (n2 n).mpr ⟨hlt, f, hK f hf, hm⟩
  · intro t t' ht ht' e he
    obtain ⟨hlt, f, hf, hm⟩ := (e1 t ht e).mp he
    exact (e2 t' ht' e).mpr ⟨hlt, f, hK f hf, hm⟩

/-! ## The pinned tree's numbering (finding F1) does not satisfy `renumber_spec` -/

/-- Two triangles sharing an edge, hits arriving as `[1, 0]`: numbering faces in hit order gives
`new_face_index = [1, 0]`, which is not order preserving; the demanded mask gives `[0, 1]`. -/
theorem hit_order_numbering_violates :
    let m : FaceMesh := { nNodes := 4, faces := [[0, 1, 2], [1, 3, 2]], nEdges := none, faceEdges := [] }
    (ugridClipMaskCurrent m [1, 0] 0).newFace = [some 1, some 0] ∧
    rankOK (ugridClipMaskCurrent m [1, 0] 0).newFace = false ∧
    (ugridClipMask m [1, 0] 0).newFace = [some 0, some 1] ∧
    rankOK (ugridClipMask m [1, 0] 0).newFace = true := by
  decide

/-! ## Non-vacuity: concrete inputs meet the hypotheses -/

/-- docstring example of `blur_mask` -/
example :
    (Mask.reshape 4 5 [true, false, false, false, false, false, false, false, false, false,
        false, false, false, true, false, false, false, false, false, true]).blur 1
      = Mask.reshape 4 5 [true, true, false, false, false, true, true, true, true, true,
        false, false, true, true, true, false, false, true, true, true] := by decide

/-- docstring example of `smear_mask` -/
example :
    (Mask.reshape 3 5 [false, false, true, false, false, false, true, false, true, false,
        true, false, false, false, true]).smear true true
      = Mask.reshape 4 6 [false, false, true, true, false, false, false, true, true, true, true, false,
        true, true, true, true, true, true, true, true, false, false, true, true] := by decide

/-- `grid_mask_spec`'s hypothesis is satisfiable: a 2×3 grid with a hole, hits in reverse order -/
example : ∀ n, n ∈ [4, 1] ↔
    ∃ p, ([some 0, some 1, none, some 3, some 4, some 5] : List (Option Nat))[n]? = some (some p) ∧
      (fun (p : Nat) (_ : Unit) => p == 1 || p == 4) p () = true := by
  intro n
  constructor
  · intro h
    simp at h
    rcases h with rfl | rfl
    · exact ⟨4, by decide, by decide⟩
    · exact ⟨1, by decide, by decide⟩
  · rintro ⟨p, hp, hq⟩
    have hn : n < 6 := by
      rcases Nat.lt_or_ge n 6 with h | h
      · exact h
      · rw [List.getElem?_eq_none (by simpa using h)] at hp; simp at hp
    have : n = 0 ∨ n = 1 ∨ n = 2 ∨ n = 3 ∨ n = 4 ∨ n = 5 := by omega
    rcases this with rfl | rfl | rfl | rfl | rfl | rfl <;> simp at hp <;> subst hp <;> simp at hq ⊢

example : gridClipMask 2 3 [4, 1] 1 = Mask.reshape 2 3 [true, true, true, true, true, true] := by decide
example : gridClipMask 2 3 [4] 0 = gridClipMask 2 3 [4, 4] (-1) := by decide

/-- a mesh with an edge dimension: three triangles in a strip, hits `[2, 0]`, no buffer -/
def exampleMesh : FaceMesh :=
  { nNodes := 5, faces := [[0, 1, 2], [1, 3, 2], [2, 3, 4]], nEdges := some 7,
    faceEdges := [[0, 1, 2], [3, 4, 1], [4, 5, 6]] }

example : keptFaces exampleMesh [2, 0] 0 = [0, 2] := by decide
example : ugridClipMask exampleMesh [2, 0] 0 =
    { newFace := [some 0, none, some 1],
      newEdge := some [some 0, some 1, some 2, none, some 3, some 4, some 5],
      newNode := [some 0, some 1, some 2, some 3, some 4] } := by decide
example : keptFaces exampleMesh [0] 1 = [0, 1, 2] := by decide
example : ∀ f ∈ [2, 0], f < exampleMesh.nFaces := by decide
example : ∀ f n, n ∈ exampleMesh.faceNodes f → n < exampleMesh.nNodes := by
  intro f n h
  have : f < 3 ∨ 3 ≤ f := by omega
  rcases this with hf | hf
  · have : f = 0 ∨ f = 1 ∨ f = 2 := by omega
    rcases this with rfl | rfl | rfl <;> simp [exampleMesh, FaceMesh.faceNodes] at h ⊢ <;> omega
  · have : exampleMesh.faceNodes f = [] := by
      simp [exampleMesh, FaceMesh.faceNodes, List.getD_eq_getElem?_getD, List.getElem?_eq_none (show [[0, 1, 2], [1, 3, 2], [2, 3, 4]].length ≤ f from hf)]
    rw [this] at h; simp at h

/-! ## `c_mask_from_centres` / `smear_mask`, as the source has them

`Ems.Gen.cMaskLeft`, `cMaskBack`, `cMaskNode` are terms of the numpy expression language of `Core/NpExpr.lean`,
written by `harness/pipelines.py` from the SOURCE TEXT of `arakawa_c.c_mask_from_centres` and `masking.smear_mask`
on every run: the three calls `masking.smear_mask(face_mask, [False, True] / [True, False] / [True, True])` are
inlined, the generator `([(1, 0), (0, 1)] if pad_axis else [(0, 0)] for pad_axis in pad_axes)` and
`itertools.product(*…)` are evaluated for these literal arguments, `(numpy.pad(arr, pad) for pad in paddings)` is
unrolled and `functools.reduce(operator.or_, …)` folded into `|`.  The theorems say that these terms compute the
three arrays of `cMaskFromCentres` — the hand model `cmask_left`, `cmask_back`, `cmask_node`, `smear_spec` are
about — for every shape of the face mask.  A mask is read as a `0` / `1` array through `maskArr`
(`maskArr_shape`, `maskArr_get`). -/

/-- the translator understood every statement of `c_mask_from_centres` and `smear_mask` -/
theorem cmask_pipelines_translated :
    (Ems.Gen.pipelineComplaints.filter fun p => p.1 == "cMaskLeft" || p.1 == "cMaskBack" || p.1 == "cMaskNode") = [] := by
  decide

/-- a mask as an array: shape `(ny, nx)` -/
theorem maskArr_shape_spec (m : Mask) : (maskArr m).shape = [m.ny, m.nx] ∧ (maskArr m).WF :=
  ⟨maskArr_shape m, maskArr_wf m⟩

/-- a mask as an array: element `[j, i]` is `m[j, i]` as `0` / `1` inside the array (and unreadable outside) -/
theorem maskArr_get_spec (m : Mask) (j i : Nat) :
    (maskArr m).get [j, i] = if j < m.ny ∧ i < m.nx then boolVal (m.get j i) else none :=
  maskArr_get m j i

/-- **`left_mask = masking.smear_mask(face_mask, [False, True])`, as written in the source**: for every face mask
the generated term evaluates to the `(ny, nx + 1)` array of `(cMaskFromCentres face).left` -/
theorem cmask_left_pipeline_spec (face : Mask) :
    eval (cMaskEnv face) Gen.cMaskLeft = some (maskArr (cMaskFromCentres face).left) :=
  cmask_left_pipeline face

/-- **`back_mask = masking.smear_mask(face_mask, [True, False])`, as written in the source**: the `(ny + 1, nx)` array
of `(cMaskFromCentres face).back` -/
theorem cmask_back_pipeline_spec (face : Mask) :
    eval (cMaskEnv face) Gen.cMaskBack = some (maskArr (cMaskFromCentres face).back) :=
  cmask_back_pipeline face

/-- **`node_mask = masking.smear_mask(face_mask, [True, True])`, as written in the source**: the `(ny + 1, nx + 1)`
array of `(cMaskFromCentres face).node` -/
theorem cmask_node_pipeline_spec (face : Mask) :
    eval (cMaskEnv face) Gen.cMaskNode = some (maskArr (cMaskFromCentres face).node) :=
  cmask_node_pipeline face

/-! ## `blur_mask`, as the source has it

`Ems.Gen.blurMask` is translated from the source text of `masking.blur_mask` on every run:
`padded = numpy.pad(arr, size, constant_values=False)` becomes `padAll arr size False`; the `nditer` / `fromiter`
idiom — `numpy.fromiter((arr[index] or numpy.any(padded[tuple(slice(i, i + size * 2 + 1) for i in index)]) for index
in <the multi-indexes of arr>), count=arr.size, dtype=arr.dtype).reshape(arr.shape)` — becomes the dedicated
constructor `windowAny arr padded (size * 2 + 1)`, whose meaning (`windowAnyArr`: the element itself or any element
of the window that lies inside the padded array) is given in `Core/NpExpr.lean`.  The translator reads the pad width,
the window extent, the arrays indexed and the `or` from the source; it trusts that `nditer` visits a C-contiguous
array in C order. -/

/-- **`masking.blur_mask(arr, size)`, as written in the source**: for every mask and every `size ≥ 0` the generated term
evaluates to the array of `Mask.blur` — the hand model `blur_spec`, `blur_blur`, `grid_mask_spec` are about -/
theorem blur_pipeline_spec (m : Mask) (size : Nat) :
    eval (blurEnv m size) Gen.blurMask = some (maskArr (m.blur size)) :=
  blur_pipeline m size

/-- the translator understood every statement of `blur_mask` -/
theorem blur_pipeline_translated : (Ems.Gen.pipelineComplaints.filter fun p => p.1 == "blurMask") = [] := by decide

/-! non-vacuity -/
example : eval (blurEnv (Mask.reshape 3 4 [true, false, false, false, false, false, false, false, false, false, false, true]) 1)
      Gen.blurMask
    = some (maskArr (Mask.reshape 3 4 [true, true, false, false, true, true, true, true, false, false, true, true])) := by
  decide +kernel
example : eval (blurEnv (Mask.reshape 1 5 [true, false, false, false, false]) 2) Gen.blurMask
    = some (maskArr (Mask.reshape 1 5 [true, true, true, false, false])) := by decide +kernel
example : eval (cMaskEnv (Mask.reshape 2 3 [false, true, false, false, false, true])) Gen.cMaskLeft
    = some (maskArr (Mask.reshape 2 4 [false, true, true, false, false, false, true, true])) := by decide +kernel
example : eval (cMaskEnv (Mask.reshape 2 3 [false, true, false, false, false, true])) Gen.cMaskNode
    = some (maskArr (Mask.reshape 3 4 [false, true, true, false, false, true, true, true, false, false, true, true])) := by
  decide +kernel
example : eval (cMaskEnv (Mask.reshape 2 3 [false, true, false, false, false, true])) Gen.cMaskBack
    = some (maskArr (Mask.reshape 3 3 [false, true, false, false, true, true, false, false, true])) := by
  decide +kernel

end Ems.C07
