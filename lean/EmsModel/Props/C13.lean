import EmsModel.Lemmas.DepthIdem
import EmsModel.Lemmas.DepthSignOnly
/-!
# C13 — depth normalisation reorients coordinates and data together, idempotently

Property theorems only, about `Ems.Depth.normalize`
(= `emsarray.operations.depth.normalize_depth_variables`).  Unbounded in the number of
coordinates, levels, variables, ranks and sizes.

Hypotheses (`Ems.Depth.Valid`, `Ems.Depth.GoodCoord`): every depth coordinate is a
one-dimensional variable with ≥ 2 levels, no NaN, strictly monotonic, its `positive`
attribute absent or spelled `up` / `down`; the coordinates have different names, live on
different dimensions and none is the bounds variable of one of them; variable names are
unique and every variable fills its shape.

Vocabulary: `phys cv` = the physical depth of every level (values read with the
coordinate's own sign convention: the `positive` attribute, or the code's majority guess
when there is none); `Var.at sz v env` = the value of `v` at a *named* index, so that the
position of the depth dimension among a variable's dimensions plays no role.
-/
namespace Ems.C13

open Ems Ems.Depth

/-- the options as the function takes them -/
abbrev Opt := Option Bool

theorem out_eq {ds : Dataset} {coords : List String} {pd dts : Opt} {out : Dataset} {w : List String}
    (h : Valid ds coords) (hn : normalize ds coords pd dts = some (out, w)) :
    out = normOut ds coords pd dts ∧ w = coords.flatMap (warnFor ds) := by
  rw [normalize_valid ds coords pd dts h] at hn
  simp only [Option.some.injEq, Prod.mk.injEq] at hn
  exact ⟨hn.1.symm, hn.2.symm⟩

theorem good_unique {ds : Dataset} {coords : List String} (h : Valid ds coords) {c : String} (hc : c ∈ coords)
    {cv : Var} (hf : ds.find c = some cv) : ∃ d, GoodCoord ds c cv d := by
  obtain ⟨cv0, d, hg⟩ := h.good c hc
  have : cv0 = cv := Option.some.inj (hg.found.symm.trans hf)
  exact ⟨d, this ▸ hg⟩

/-- **The call succeeds** on every valid input, for all 9 option pairs; it keeps sizes,
variable names and dimensions, and warns exactly about the coordinates without a `positive`
attribute (with the sign it guessed). -/
theorem normalize_succeeds (ds : Dataset) (coords : List String) (pd dts : Opt) (h : Valid ds coords) :
    ∃ out, normalize ds coords pd dts = some (out, coords.flatMap (warnFor ds))
      ∧ out.sizes = ds.sizes
      ∧ out.vars.map (·.name) = ds.vars.map (·.name)
      ∧ out.vars.map (·.dims) = ds.vars.map (·.dims) :=
  ⟨normOut ds coords pd dts, normalize_valid ds coords pd dts h, rfl,
    names_normOut ds coords pd dts, dims_normOut ds coords pd dts⟩

/-- a warning is produced for a coordinate iff it has no `positive` attribute -/
theorem warning_iff (ds : Dataset) (c : String) (cv : Var) (hf : ds.find c = some cv) :
    warnFor ds c = (if cv.positive = none then [c ++ ":" ++ posName (guessDown cv.data)] else []) := by
  simp only [warnFor, hf, warnOf]
  cases hp : cv.positive <;> simp [signDown, hp]

/-- the output satisfies the hypotheses again (normalisations can be chained) -/
theorem normalize_preserves_valid (ds : Dataset) (coords : List String) (pd dts : Opt) (out : Dataset)
    (w : List String) (h : Valid ds coords) (hn : normalize ds coords pd dts = some (out, w)) :
    Valid out coords := by
  rw [(out_eq h hn).1]; exact valid_after ds coords pd dts h

/-- **Requested sign convention.** After `positive_down = b` every coordinate carries
`positive = "down"` / `"up"` as requested, is read with that convention, and its values *agree*
with the attribute: read with the new attribute they give the same physical depths as the
input read with its own convention (in the same or in reversed level order). Everything else
about the coordinate variable (dimension, bounds attribute, coordinate status, other
attributes) is unchanged. -/
theorem normalize_sign (ds : Dataset) (coords : List String) (b : Bool) (dts : Opt) (out : Dataset)
    (w : List String) (h : Valid ds coords) (hn : normalize ds coords (some b) dts = some (out, w))
    (c : String) (hc : c ∈ coords) (cv : Var) (hf : ds.find c = some cv) :
    ∃ cv', out.find c = some cv' ∧ cv'.positive = some (if b then "down" else "up") ∧ signDown cv' = b
      ∧ (phys cv' = phys cv ∨ phys cv' = (phys cv).reverse)
      ∧ cv'.dims = cv.dims ∧ cv'.bounds = cv.bounds ∧ cv'.isCoord = cv.isCoord ∧ cv'.extra = cv.extra := by
  obtain ⟨d, hg⟩ := good_unique h hc hf
  obtain ⟨cv', hfind, ha⟩ := coord_after ds coords (some b) dts h c hc cv d hg
  refine ⟨cv', by rw [(out_eq h hn).1]; exact hfind, ha.positive, ?_, ?_, ha.dims, ha.bounds, ha.isCoord, ha.extra⟩
  · rw [ha.sign]; simp only [wantFlip]
    cases signDown cv <;> cases b <;> rfl
  · rw [ha.phys]
    cases wantRev dts (deepFirst (signDown cv) cv.data)
    · exact Or.inl rfl
    · exact Or.inr rfl

/-- **Requested ordering.** After `deep_to_shallow = t` the physical depths of every
coordinate strictly decrease with the level index (`t = true`) or strictly increase
(`t = false`). -/
theorem normalize_order (ds : Dataset) (coords : List String) (pd : Opt) (t : Bool) (out : Dataset)
    (w : List String) (h : Valid ds coords) (hn : normalize ds coords pd (some t) = some (out, w))
    (c : String) (hc : c ∈ coords) :
    ∃ cv', out.find c = some cv' ∧
      (if t then (phys cv').Pairwise (· > ·) else (phys cv').Pairwise (· < ·)) := by
  obtain ⟨cv, d, hg⟩ := h.good c hc
  obtain ⟨cv', hfind, ha⟩ := coord_after ds coords pd (some t) h c hc cv d hg
  exact ⟨cv', by rw [(out_eq h hn).1]; exact hfind, order_after ds c cv cv' d pd t hg ha⟩

/-- **Data stay attached to their physical depth.** There is one re-indexing of the levels
(`mirror`: the reversed depth dimensions are mirrored, nothing else moves) such that
* every plain variable `u` (not a depth coordinate, not a bounds variable of one) of the
  output is the input read through it, `u'.at env = u.at (mirror env)`, whatever the position
  of the depth dimensions among its dimensions, and
* the physical depth of every coordinate at `env` in the output is its physical depth at
  `mirror env` in the input.
So a value found in the output at some physical depth sat at that same physical depth in
the input. -/
theorem data_attached (ds : Dataset) (coords : List String) (pd dts : Opt) (out : Dataset) (w : List String)
    (h : Valid ds coords) (hn : normalize ds coords pd dts = some (out, w)) :
    (∀ n u, ds.find n = some u → PlainVar ds coords n →
      ∃ u', out.find n = some u' ∧ u'.dims = u.dims ∧
        ∀ env, InBox ds.sz u.dims env → u'.at ds.sz env = u.at ds.sz (mirror ds coords pd dts env))
    ∧ (∀ c ∈ coords, ∀ cv, ds.find c = some cv →
      ∃ cv', out.find c = some cv' ∧
        ∀ env, InBox ds.sz cv.dims env →
          physAt ds.sz cv' env = physAt ds.sz cv (mirror ds coords pd dts env)) := by
  rw [(out_eq h hn).1]
  constructor
  · intro n u hu hplain
    have hname : u.name = n := find_name _ _ _ hu
    have hpl : ∀ p ∈ plans ds coords pd dts, u.name ≠ p.name ∧ p.bounds ≠ some u.name := by
      intro p hp
      obtain ⟨c, hc, rfl⟩ := List.mem_map.mp hp
      obtain ⟨cv, d, hg⟩ := h.good c hc
      have e : planFor ds pd dts c = planOf cv d pd dts := by simp [planFor, hg.found, hg.dims]
      rw [e, hname]
      refine ⟨?_, hplain.2 c hc cv hg.found⟩
      show n ≠ cv.name
      rw [find_name _ _ _ hg.found]
      exact fun e => hplain.1 (e ▸ hc)
    refine ⟨_, by rw [find_normOut, hu]; rfl, applyPlans_dims _ _ _, ?_⟩
    intro env hbox
    show (applyPlans ds.sz (plans ds coords pd dts) u).at ds.sz env = _
    rw [applyPlans_plain ds.sz _ u hpl, at_revPlans ds.sz _ u env hbox, sigma_eq_mirror ds coords pd dts h]
  · intro c hc cv hf
    obtain ⟨d, hg⟩ := good_unique h hc hf
    obtain ⟨cv', hfind, ha⟩ := coord_after ds coords pd dts h c hc cv d hg
    refine ⟨cv', hfind, ?_⟩
    intro env hbox
    have hn' : cv.name = c := find_name _ _ _ hf
    have hself : cv.bounds ≠ some cv.name := by rw [hn']; exact hg.notSelf
    have hcv' : cv' = applyPlan ds.sz (planOf cv d pd dts) cv :=
      Option.some.inj (hfind.symm.trans (coord_out ds coords pd dts h c hc cv d hg))
    have hat := at_applyPlan_coord ds.sz (planOf cv d pd dts) cv env rfl rfl hself hbox
    rw [← hcv'] at hat
    -- the mirror on the coordinate's own dimension is its own reversal
    have hrevd : reversed (plans ds coords pd dts) d = (planOf cv d pd dts).rev :=
      reversed_own ds coords pd dts h c hc cv d hg
    have hmir : cv.at ds.sz (if (planOf cv d pd dts).rev = true then flipEnv ds.sz (planOf cv d pd dts).dim env else env)
        = cv.at ds.sz (mirror ds coords pd dts env) := by
      apply at_congr
      intro x hx
      rw [hg.dims] at hx
      have hx' : x = d := by simpa using hx
      subst hx'
      have hpd : (planOf cv x pd dts).dim = x := rfl
      simp only [mirror, hrevd, hpd]
      split <;> simp [flipEnv, upd]
    rw [hmir] at hat
    unfold physAt
    rw [hat, ha.sign]
    show (if (if wantFlip pd (signDown cv) then !signDown cv else signDown cv) = true then
        sgn (wantFlip pd (signDown cv)) _ else vneg (sgn (wantFlip pd (signDown cv)) _)) = _
    cases wantFlip pd (signDown cv) <;> cases signDown cv <;> simp [sgn, vneg_vneg]

/-- **Bounds follow their coordinate.** If coordinate `c` names a bounds variable `bn` that
exists, is not itself a depth coordinate, and concerns no other depth coordinate, then the
coordinate and its bounds undergo *the same* sign change `f` and *the same* level
re-ordering `r` (read by named index, so also for bounds stored as `(nv, k)`). -/
theorem bounds_follow (ds : Dataset) (coords : List String) (pd dts : Opt) (out : Dataset) (w : List String)
    (h : Valid ds coords) (hn : normalize ds coords pd dts = some (out, w))
    (c : String) (hc : c ∈ coords) (cv : Var) (d : String) (hg : GoodCoord ds c cv d)
    (bn : String) (bv : Var) (hb : cv.bounds = some bn) (hbf : ds.find bn = some bv) (hbc : bn ∉ coords)
    (hother : ∀ c2 ∈ coords, c2 ≠ c → ∀ cv2, ds.find c2 = some cv2 →
      cv2.bounds ≠ some bn ∧ ∀ x ∈ cv2.dims, x ∉ bv.dims) :
    ∃ (f r : Bool) (cv' bv' : Var), out.find c = some cv' ∧ out.find bn = some bv'
      ∧ f = wantFlip pd (signDown cv) ∧ bv'.dims = bv.dims
      ∧ (∀ env, InBox ds.sz cv.dims env →
          cv'.at ds.sz env = sgn f (cv.at ds.sz (if r = true then flipEnv ds.sz d env else env)))
      ∧ (∀ env, InBox ds.sz bv.dims env →
          bv'.at ds.sz env = sgn f (bv.at ds.sz (if r = true then flipEnv ds.sz d env else env))) := by
  rw [(out_eq h hn).1]
  have hn' : cv.name = c := find_name _ _ _ hg.found
  have hbn : bv.name = bn := find_name _ _ _ hbf
  have hself : cv.bounds ≠ some cv.name := by rw [hn']; exact hg.notSelf
  have hplan : planFor ds pd dts c = planOf cv d pd dts := by simp [planFor, hg.found, hg.dims]
  refine ⟨(planOf cv d pd dts).flip, (planOf cv d pd dts).rev, _, _,
    coord_out ds coords pd dts h c hc cv d hg, by rw [find_normOut, hbf]; rfl, rfl, applyPlans_dims _ _ _, ?_, ?_⟩
  · intro env hbox
    exact at_applyPlan_coord ds.sz (planOf cv d pd dts) cv env rfl rfl hself hbox
  · intro env hbox
    -- only the plan of `c` touches the bounds variable
    obtain ⟨l1, l2, rfl⟩ := List.append_of_mem hc
    have hunt : ∀ c2 ∈ l1 ++ l2, Untouched (planFor ds pd dts c2) bv.name bv.dims := by
      intro c2 hc2
      have hc2' : c2 ∈ l1 ++ c :: l2 := by
        rcases List.mem_append.mp hc2 with hh | hh
        · exact List.mem_append_left _ hh
        · exact List.mem_append_right _ (List.mem_cons_of_mem _ hh)
      have hne : c2 ≠ c := by
        intro e; subst e
        have hpw := h.indep
        rw [List.pairwise_append] at hpw
        obtain ⟨_, hpw2, hcross⟩ := hpw
        rcases List.mem_append.mp hc2 with hh | hh
        · exact (hcross c2 hh c2 (by simp)).1 rfl
        · exact ((List.pairwise_cons.mp hpw2).1 c2 hh).1 rfl
      obtain ⟨cv2, d2, hg2⟩ := h.good c2 hc2'
      have e : planFor ds pd dts c2 = planOf cv2 d2 pd dts := by simp [planFor, hg2.found, hg2.dims]
      obtain ⟨ho1, ho2⟩ := hother c2 hc2' hne cv2 hg2.found
      rw [e]
      refine ⟨?_, ?_, ?_⟩
      · show bv.name ≠ cv2.name
        rw [hbn, find_name _ _ _ hg2.found]
        exact fun e => hbc (e ▸ hc2')
      · show cv2.bounds ≠ some bv.name
        rw [hbn]; exact ho1
      · show d2 ∉ bv.dims
        exact ho2 d2 (by simp [hg2.dims])
    show (applyPlans ds.sz ((l1 ++ c :: l2).map (planFor ds pd dts)) bv).at ds.sz env = _
    rw [List.map_append, List.map_cons, hplan, applyPlans_single ds.sz _ _ _ bv
      (fun q hq => by
        obtain ⟨c2, hc2, rfl⟩ := List.mem_map.mp hq
        exact hunt c2 (List.mem_append_left _ hc2))
      (fun q hq => by
        obtain ⟨c2, hc2, rfl⟩ := List.mem_map.mp hq
        exact hunt c2 (List.mem_append_right _ hc2))]
    -- and it negates and reverses it exactly as it does the coordinate
    have hne : bv.name ≠ (planOf cv d pd dts).name := by
      show bv.name ≠ cv.name
      rw [hbn, hn']; exact fun e => hbc (e ▸ hc)
    have e1 : stepPos (planOf cv d pd dts) bv = bv := by simp [stepPos, hne]
    have e2 : stepNeg (planOf cv d pd dts) bv = bv := by simp [stepNeg, hne]
    have hpb : (planOf cv d pd dts).bounds = some bv.name := by
      show cv.bounds = _; rw [hb, hbn]
    have hpd : (planOf cv d pd dts).dim = d := rfl
    simp only [applyPlan, e1, e2]
    have hbnd : ∀ e, (stepBnd (planOf cv d pd dts) bv).at ds.sz e = sgn (planOf cv d pd dts).flip (bv.at ds.sz e) := by
      intro e
      unfold stepBnd sgn
      by_cases hf : (planOf cv d pd dts).flip = true
      · simp [hf, hpb, at_negVar]
      · simp [hf]
    unfold stepRev
    by_cases hr : (planOf cv d pd dts).rev = true
    · simp only [hr, if_true, hpd]
      rw [at_revVar ds.sz d _ env (by rw [stepBnd_dims]; exact hbox), hbnd]
    · simp only [hr]
      exact hbnd env

/-- **Pairs (physical depth, data layer) are unchanged** — the list form for a profile
variable `u(d)` on the dimension of coordinate `c`: the pairs of the output are a
rearrangement of the pairs of the input. -/
theorem data_attached_profile (ds : Dataset) (coords : List String) (pd dts : Opt) (out : Dataset)
    (w : List String) (h : Valid ds coords) (hn : normalize ds coords pd dts = some (out, w))
    (c : String) (hc : c ∈ coords) (cv : Var) (d : String) (hg : GoodCoord ds c cv d)
    (n : String) (u : Var) (hu : ds.find n = some u) (hplain : PlainVar ds coords n) (hud : u.dims = [d]) :
    ∃ cv' u', out.find c = some cv' ∧ out.find n = some u' ∧
      ((phys cv').zip u'.data).Perm ((phys cv).zip u.data) := by
  rw [(out_eq h hn).1]
  obtain ⟨cv', hfind, ha⟩ := coord_after ds coords pd dts h c hc cv d hg
  have hname : u.name = n := find_name _ _ _ hu
  have hplan : planFor ds pd dts c = planOf cv d pd dts := by simp [planFor, hg.found, hg.dims]
  refine ⟨cv', _, hfind, by rw [find_normOut, hu]; rfl, ?_⟩
  -- only the plan of `c` can touch `u`, and it only reverses it
  obtain ⟨l1, l2, rfl⟩ := List.append_of_mem hc
  have hpw := h.indep
  rw [List.pairwise_append] at hpw
  obtain ⟨_, hpw2, hcross⟩ := hpw
  have hunt : ∀ c2, c2 ∈ l1 ∨ c2 ∈ l2 → Untouched (planFor ds pd dts c2) u.name u.dims := by
    intro c2 hc2
    have hc2' : c2 ∈ l1 ++ c :: l2 := by
      rcases hc2 with hh | hh
      · exact List.mem_append_left _ hh
      · exact List.mem_append_right _ (List.mem_cons_of_mem _ hh)
    obtain ⟨cv2, d2, hg2⟩ := h.good c2 hc2'
    have e : planFor ds pd dts c2 = planOf cv2 d2 pd dts := by simp [planFor, hg2.found, hg2.dims]
    have hind : Indep ds c2 c := by
      rcases hc2 with hh | hh
      · exact (hcross c2 hh c (by simp)).2
      · exact ((List.pairwise_cons.mp hpw2).1 c2 hh).2.symm
    rw [e]
    refine ⟨?_, ?_, ?_⟩
    · show u.name ≠ cv2.name
      rw [hname, find_name _ _ _ hg2.found]
      exact fun e => hplain.1 (e ▸ hc2')
    · show cv2.bounds ≠ some u.name
      rw [hname]; exact hplain.2 c2 hc2' cv2 hg2.found
    · show d2 ∉ u.dims
      rw [hud]
      have := (hind cv2 cv hg2.found hg.found).1 d2 (by simp [hg2.dims])
      rw [hg.dims] at this
      exact this
  have hu' : applyPlans ds.sz ((l1 ++ c :: l2).map (planFor ds pd dts)) u
      = stepRev ds.sz (planOf cv d pd dts) u := by
    rw [List.map_append, List.map_cons, hplan, applyPlans_single ds.sz _ _ _ u
      (fun q hq => by
        obtain ⟨c2, hc2, rfl⟩ := List.mem_map.mp hq
        exact hunt c2 (Or.inl hc2))
      (fun q hq => by
        obtain ⟨c2, hc2, rfl⟩ := List.mem_map.mp hq
        exact hunt c2 (Or.inr hc2))]
    apply applyPlan_plain
    · show u.name ≠ cv.name
      rw [hname, find_name _ _ _ hg.found]
      exact fun e => hplain.1 (e ▸ hc)
    · show cv.bounds ≠ some u.name
      rw [hname]; exact hplain.2 c hc cv hg.found
  rw [hu', ha.phys]
  have hwf : u.data.length = ds.sz d := by
    have := h.wf u (find_mem _ _ _ hu)
    simpa [Var.WF, hud, size] using this
  have hlen : (phys cv).length = u.data.length := by
    rw [length_phys cv hg.noNaN, hg.sized, hwf]
  show ((revIf (planOf cv d pd dts).rev (phys cv)).zip (stepRev ds.sz (planOf cv d pd dts) u).data).Perm _
  unfold stepRev
  by_cases hr : (planOf cv d pd dts).rev = true
  · have hpd : (planOf cv d pd dts).dim = d := rfl
    simp only [hr, if_true, revIf, hpd]
    rw [revVar_1d ds.sz d u hud hwf]
    have hz : (phys cv).reverse.zip u.data.reverse = ((phys cv).zip u.data).reverse := by
      simp only [List.zip]
      exact (List.reverse_zipWith hlen).symm
    rw [hz]
    exact List.reverse_perm _
  · simp only [hr, revIf]
    exact List.Perm.refl _

/-- **Idempotence, for all 9 option pairs.** Normalising the output again with the same
options returns the same dataset (the warnings differ: attributes that were guessed are now
present). -/
theorem normalize_idempotent (ds : Dataset) (coords : List String) (pd dts : Opt) (out : Dataset)
    (w : List String) (h : Valid ds coords) (hn : normalize ds coords pd dts = some (out, w)) :
    ∃ w', normalize out coords pd dts = some (out, w') := by
  have hout := (out_eq h hn).1
  have hv := valid_after ds coords pd dts h
  rw [hout, normalize_valid _ coords pd dts hv]
  refine ⟨coords.flatMap (warnFor (normOut ds coords pd dts)), ?_⟩
  congr 2
  show (normOut ds coords pd dts).mapVars _ = _
  apply mapVars_id
  intro v hv'
  apply applyPlans_noop
  intro p hp
  obtain ⟨c, hc, rfl⟩ := List.mem_map.mp hp
  exact plan_after_noop ds coords pd dts h c hc v hv'

/-- **`positive_down = None` leaves the sign aspect untouched**: no `positive` attribute is
added or changed, every coordinate keeps its sign convention, and *no* variable is negated —
every variable of the output is the input read through the level re-indexing. -/
theorem none_untouched_sign (ds : Dataset) (coords : List String) (dts : Opt) (out : Dataset)
    (w : List String) (h : Valid ds coords) (hn : normalize ds coords none dts = some (out, w)) :
    ∀ n u, ds.find n = some u →
      ∃ u', out.find n = some u' ∧ u'.positive = u.positive ∧ u'.dims = u.dims
        ∧ (n ∈ coords → signDown u' = signDown u)
        ∧ ∀ env, InBox ds.sz u.dims env → u'.at ds.sz env = u.at ds.sz (mirror ds coords none dts env) := by
  intro n u hu
  rw [(out_eq h hn).1]
  -- with pd = none every plan only reverses
  have hrev : ∀ v : Var, ∀ p ∈ plans ds coords none dts, applyPlan ds.sz p v = stepRev ds.sz p v := by
    intro v p hp
    obtain ⟨c, hc, rfl⟩ := List.mem_map.mp hp
    obtain ⟨cv, d, hg⟩ := h.good c hc
    have e : planFor ds none dts c = planOf cv d none dts := by simp [planFor, hg.found, hg.dims]
    rw [e]
    have e1 : stepPos (planOf cv d none dts) v = v := by
      unfold stepPos; split
      · rfl
      · rfl
    have e2 : stepNeg (planOf cv d none dts) v = v := by simp [stepNeg, planOf, wantFlip]
    have e3 : stepBnd (planOf cv d none dts) v = v := by simp [stepBnd, planOf, wantFlip]
    simp [applyPlan, e1, e2, e3]
  have hall : ∀ (ps : List Plan) (v : Var), (∀ v' : Var, ∀ p ∈ ps, applyPlan ds.sz p v' = stepRev ds.sz p v') →
      applyPlans ds.sz ps v = revPlans ds.sz ps v := by
    intro ps
    induction ps with
    | nil => intro v _; rfl
    | cons p ps ih =>
      intro v hh
      simp only [applyPlans, revPlans, List.foldl_cons]
      rw [hh v p (by simp)]
      exact ih _ (fun v' q hq => hh v' q (by simp [hq]))
  have hu' := hall (plans ds coords none dts) u hrev
  have hpos : ∀ (ps : List Plan) (v : Var), (revPlans ds.sz ps v).positive = v.positive := by
    intro ps
    induction ps with
    | nil => intro v; rfl
    | cons p ps ih =>
      intro v
      simp only [revPlans, List.foldl_cons]
      exact (ih _).trans (stepRev_positive _ _ _)
  refine ⟨_, by rw [find_normOut, hu]; rfl, ?_, applyPlans_dims _ _ _, ?_, ?_⟩
  · show (applyPlans ds.sz (plans ds coords none dts) u).positive = _
    rw [hu']; exact hpos _ _
  · intro hc
    obtain ⟨d, hg⟩ := good_unique h hc hu
    obtain ⟨cv', hfind, ha⟩ := coord_after ds coords none dts h n hc u d hg
    have : cv' = applyPlans ds.sz (plans ds coords none dts) u := by
      rw [find_normOut, hu] at hfind
      exact (Option.some.inj hfind).symm
    rw [← this, ha.sign]
    rfl
  · intro env hbox
    show (applyPlans ds.sz (plans ds coords none dts) u).at ds.sz env = _
    rw [hu', at_revPlans ds.sz _ u env hbox, sigma_eq_mirror ds coords none dts h]

/-- **`deep_to_shallow = None` leaves the ordering untouched**: no dimension is reversed —
every plain variable is returned as it is, and every coordinate keeps the physical depth of
every level in place. -/
theorem none_untouched_order (ds : Dataset) (coords : List String) (pd : Opt) (out : Dataset)
    (w : List String) (h : Valid ds coords) (hn : normalize ds coords pd none = some (out, w)) :
    (∀ n u, ds.find n = some u → PlainVar ds coords n → out.find n = some u)
    ∧ (∀ c ∈ coords, ∀ cv, ds.find c = some cv → ∃ cv', out.find c = some cv' ∧ phys cv' = phys cv)
    ∧ (∀ env, mirror ds coords pd none env = env) := by
  rw [(out_eq h hn).1]
  have hnorev : ∀ p ∈ plans ds coords pd none, p.rev = false := by
    intro p hp
    obtain ⟨c, hc, rfl⟩ := List.mem_map.mp hp
    obtain ⟨cv, d, hg⟩ := h.good c hc
    simp [planFor, hg.found, planOf, wantRev]
  refine ⟨?_, ?_, ?_⟩
  · intro n u hu hplain
    rw [find_normOut, hu, Option.map_some]
    congr 1
    have hname : u.name = n := find_name _ _ _ hu
    apply applyPlans_noop
    intro p hp
    have hr := hnorev p hp
    obtain ⟨c, hc, rfl⟩ := List.mem_map.mp hp
    obtain ⟨cv, d, hg⟩ := h.good c hc
    have e : planFor ds pd none c = planOf cv d pd none := by simp [planFor, hg.found, hg.dims]
    rw [e] at hr ⊢
    rw [applyPlan_plain]
    · simp [stepRev, hr]
    · show u.name ≠ cv.name
      rw [hname, find_name _ _ _ hg.found]
      exact fun e => hplain.1 (e ▸ hc)
    · show cv.bounds ≠ some u.name
      rw [hname]; exact hplain.2 c hc cv hg.found
  · intro c hc cv hf
    obtain ⟨d, hg⟩ := good_unique h hc hf
    obtain ⟨cv', hfind, ha⟩ := coord_after ds coords pd none h c hc cv d hg
    exact ⟨cv', hfind, by rw [ha.phys]; rfl⟩
  · intro env
    funext x
    have : reversed (plans ds coords pd none) x = false := by
      simp only [reversed, List.any_eq_false]
      intro p hp
      simp [hnorev p hp]
    simp [mirror, this]

/-- with both options `None` the dataset is returned unchanged -/
theorem none_none_identity (ds : Dataset) (coords : List String) (h : Valid ds coords) :
    normalize ds coords none none = some (ds, coords.flatMap (warnFor ds)) := by
  rw [normalize_valid ds coords none none h]
  congr 2
  apply mapVars_id
  intro v _
  apply applyPlans_noop
  intro p hp
  obtain ⟨c, hc, rfl⟩ := List.mem_map.mp hp
  obtain ⟨cv, d, hg⟩ := h.good c hc
  have e : planFor ds none none c = planOf cv d none none := by simp [planFor, hg.found, hg.dims]
  rw [e]
  have e1 : stepPos (planOf cv d none none) v = v := by
    unfold stepPos; split <;> rfl
  have e2 : stepNeg (planOf cv d none none) v = v := by simp [stepNeg, planOf, wantFlip]
  have e3 : stepBnd (planOf cv d none none) v = v := by simp [stepBnd, planOf, wantFlip]
  have e4 : stepRev ds.sz (planOf cv d none none) v = v := by simp [stepRev, planOf, wantRev]
  simp [applyPlan, e1, e2, e3, e4]

/-- **Variables without a depth dimension are never touched** (for any options): a plain
variable none of whose dimensions is the dimension of a depth coordinate is returned as it is. -/
theorem others_untouched (ds : Dataset) (coords : List String) (pd dts : Opt) (out : Dataset) (w : List String)
    (h : Valid ds coords) (hn : normalize ds coords pd dts = some (out, w))
    (n : String) (u : Var) (hu : ds.find n = some u) (hplain : PlainVar ds coords n)
    (hnodepth : ∀ c ∈ coords, ∀ cv, ds.find c = some cv → ∀ x ∈ cv.dims, x ∉ u.dims) :
    out.find n = some u := by
  rw [(out_eq h hn).1, find_normOut, hu, Option.map_some]
  congr 1
  have hname : u.name = n := find_name _ _ _ hu
  apply applyPlans_untouched
  intro p hp
  obtain ⟨c, hc, rfl⟩ := List.mem_map.mp hp
  obtain ⟨cv, d, hg⟩ := h.good c hc
  have e : planFor ds pd dts c = planOf cv d pd dts := by simp [planFor, hg.found, hg.dims]
  rw [e]
  refine ⟨?_, ?_, ?_⟩
  · show u.name ≠ cv.name
    rw [hname, find_name _ _ _ hg.found]
    exact fun e => hplain.1 (e ▸ hc)
  · show cv.bounds ≠ some u.name
    rw [hname]; exact hplain.2 c hc cv hg.found
  · show d ∉ u.dims
    exact hnodepth c hc cv hg.found d (by simp [hg.dims])

/-- **Error branches.** A listed name that is not a variable of the dataset
(`name_to_data_array`: `ValueError`), or a listed variable that is not one-dimensional
("Can't normalize multidimensional depth variable"), makes the call raise — whatever else is
in the list and whatever the options. -/
theorem normalize_rejects (ds : Dataset) (coords : List String) (pd dts : Opt) (c : String) (hc : c ∈ coords)
    (hbad : ds.find c = none ∨ ∃ cv, ds.find c = some cv ∧ ∀ d, cv.dims ≠ [d]) :
    normalize ds coords pd dts = none := by
  have hstep : ∀ S, normStep ds pd dts S c = none := by
    intro S
    unfold normStep
    rcases hbad with h | ⟨cv, h, hd⟩
    · simp [h]
    · rw [h]
      show (match cv.dims with
        | [dim] => _
        | _ => none) = none
      split
      · rename_i dim hdim
        exact absurd hdim (hd dim)
      · rfl
  have hloop : ∀ (cs : List String), c ∈ cs → ∀ S w, normLoop ds pd dts cs S w = none := by
    intro cs
    induction cs with
    | nil => intro h; simp at h
    | cons x xs ih =>
      intro hmem S w
      unfold normLoop
      by_cases hx : x = c
      · subst hx; simp [hstep S]
      · have hm : c ∈ xs := by
          rcases List.mem_cons.mp hmem with h | h
          · exact absurd h.symm hx
          · exact h
        cases hs : normStep ds pd dts S x with
        | none => rfl
        | some r => exact ih hm r.1 (w ++ r.2)
  exact hloop coords hc ds []

/-! ### Coordinates with any number of levels, `deep_to_shallow` left unset

A depth coordinate with **one level** (a surface-only or bottom-only extract that kept its
depth axis, a single sediment layer) has a sign convention but no ordering.  The theorems
above ask for ≥ 2 strictly monotonic levels because the ordering test reads the first two
values; with `deep_to_shallow = None` that test is never reached, and the sign clause, the
bounds clause, "data stay attached", idempotence and "unset options leave the aspect
untouched" hold under `ValidSign` alone: one-dimensional coordinates on pairwise different
dimensions, unique names — *no hypothesis on the number of levels or on the values*. -/

/-- **The sign-only call succeeds** whatever the number of levels (1, 0, many) and the values. -/
theorem sign_only_succeeds (ds : Dataset) (coords : List String) (pd : Opt) (h : ValidSign ds coords) :
    ∃ out, normalize ds coords pd none = some (out, coords.flatMap (warnFor ds))
      ∧ out.sizes = ds.sizes
      ∧ out.vars.map (·.name) = ds.vars.map (·.name)
      ∧ out.vars.map (·.dims) = ds.vars.map (·.dims) :=
  ⟨normOut ds coords pd none, normalize_signOnly ds coords pd h, rfl,
    names_normOut ds coords pd none, dims_normOut ds coords pd none⟩

theorem out_eq_signOnly {ds : Dataset} {coords : List String} {pd : Opt} {out : Dataset} {w : List String}
    (h : ValidSign ds coords) (hn : normalize ds coords pd none = some (out, w)) :
    out = normOut ds coords pd none := by
  rw [normalize_signOnly ds coords pd h] at hn
  simp only [Option.some.injEq, Prod.mk.injEq] at hn
  exact hn.1.symm

/-- **Requested sign convention, any number of levels.** After `positive_down = b`
(`deep_to_shallow` unset) every coordinate — also one with a single level — carries the
requested attribute, is read with that convention, its values are negated exactly when its
convention differed from the requested one (so attribute and values agree: the physical depth
of every level is what it was, in place), and nothing else about the variable changes. -/
theorem sign_only_sign (ds : Dataset) (coords : List String) (b : Bool) (out : Dataset) (w : List String)
    (h : ValidSign ds coords) (hn : normalize ds coords (some b) none = some (out, w))
    (c : String) (hc : c ∈ coords) (cv : Var) (hf : ds.find c = some cv) (hself : cv.bounds ≠ some c) :
    ∃ cv', out.find c = some cv' ∧ cv'.positive = some (if b then "down" else "up") ∧ signDown cv' = b
      ∧ cv'.data = (if signDown cv = b then cv.data else cv.data.map vneg)
      ∧ phys cv' = phys cv
      ∧ cv'.dims = cv.dims ∧ cv'.bounds = cv.bounds ∧ cv'.isCoord = cv.isCoord ∧ cv'.extra = cv.extra := by
  obtain ⟨cv', hfind, ha⟩ := coord_after_signOnly ds coords (some b) h c hc cv hf hself
  refine ⟨cv', by rw [out_eq_signOnly h hn]; exact hfind, ha.positive, ?_, ?_, ?_, ha.dims, ha.bounds,
    ha.isCoord, ha.extra⟩
  · rw [ha.sign]; simp only [wantFlip]
    cases signDown cv <;> cases b <;> rfl
  · rw [ha.data]
    simp only [wantRev, revIf, wantFlip, negIf]
    cases signDown cv <;> cases b <;> simp
  · rw [ha.phys]; rfl

/-- **`positive_down = None`, any number of levels**: with both options unset the dataset is
returned as it is. -/
theorem sign_only_none_identity (ds : Dataset) (coords : List String) (h : ValidSign ds coords) :
    normalize ds coords none none = some (ds, coords.flatMap (warnFor ds)) := by
  rw [normalize_signOnly ds coords none h]
  congr 2
  apply mapVars_id
  intro v _
  apply applyPlans_noop
  intro p hp
  obtain ⟨c, hc, rfl⟩ := List.mem_map.mp hp
  obtain ⟨cv, d, hg⟩ := h.oneD c hc
  have e : planFor ds none none c = planOf cv d none none := by simp [planFor, hg.found, hg.dims]
  rw [e]
  have e1 : stepPos (planOf cv d none none) v = v := by
    unfold stepPos; split <;> rfl
  have e2 : stepNeg (planOf cv d none none) v = v := by simp [stepNeg, planOf, wantFlip]
  have e3 : stepBnd (planOf cv d none none) v = v := by simp [stepBnd, planOf, wantFlip]
  have e4 : stepRev ds.sz (planOf cv d none none) v = v := by simp [stepRev, planOf, wantRev]
  simp [applyPlan, e1, e2, e3, e4]

/-- **Data are not moved by a sign-only call, any number of levels**: every plain variable
(not a depth coordinate, not the bounds variable of one) is returned as it is — whatever its
dimensions, so every value is still attached to the same level, whose physical depth
(`sign_only_sign`) is unchanged. -/
theorem sign_only_data_untouched (ds : Dataset) (coords : List String) (pd : Opt) (out : Dataset) (w : List String)
    (h : ValidSign ds coords) (hn : normalize ds coords pd none = some (out, w))
    (n : String) (u : Var) (hu : ds.find n = some u) (hplain : PlainVar ds coords n) :
    out.find n = some u := by
  rw [out_eq_signOnly h hn, find_normOut, hu, Option.map_some]
  congr 1
  have hname : u.name = n := find_name _ _ _ hu
  apply applyPlans_noop
  intro p hp
  obtain ⟨c, hc, rfl⟩ := List.mem_map.mp hp
  obtain ⟨cv, d, hg⟩ := h.oneD c hc
  have e : planFor ds pd none c = planOf cv d pd none := by simp [planFor, hg.found, hg.dims]
  rw [e]
  apply applyPlan_signOnly_plain
  · rw [hname, find_name _ _ _ hg.found]
    exact fun e => hplain.1 (e ▸ hc)
  · rw [hname]; exact hplain.2 c hc cv hg.found

/-- **Bounds follow their coordinate, any number of levels**: the bounds variable named by
coordinate `c` (not itself a depth coordinate, not named by another one) is negated exactly
when the coordinate is, and is otherwise returned as it is. -/
theorem sign_only_bounds (ds : Dataset) (coords : List String) (pd : Opt) (out : Dataset) (w : List String)
    (h : ValidSign ds coords) (hn : normalize ds coords pd none = some (out, w))
    (c : String) (hc : c ∈ coords) (cv : Var) (hf : ds.find c = some cv)
    (bn : String) (bv : Var) (hb : cv.bounds = some bn) (hbf : ds.find bn = some bv) (hbc : bn ∉ coords)
    (hother : ∀ c2 ∈ coords, c2 ≠ c → ∀ cv2, ds.find c2 = some cv2 → cv2.bounds ≠ some bn) :
    out.find bn = some (if wantFlip pd (signDown cv) then negVar bv else bv) := by
  rw [out_eq_signOnly h hn, find_normOut, hbf, Option.map_some]
  congr 1
  have hbn : bv.name = bn := find_name _ _ _ hbf
  have hcn : cv.name = c := find_name _ _ _ hf
  obtain ⟨cv0, d, hg⟩ := h.oneD c hc
  have hcv : cv0 = cv := Option.some.inj (hg.found.symm.trans hf)
  subst hcv
  have hplan : planFor ds pd none c = planOf cv0 d pd none := by simp [planFor, hg.found, hg.dims]
  -- the plans of the other coordinates leave a variable called `bn` alone
  have hnoop : ∀ c2 ∈ coords, c2 ≠ c → ∀ v : Var, v.name = bn → applyPlan ds.sz (planFor ds pd none c2) v = v := by
    intro c2 hc2 hne v hv
    obtain ⟨cv2, d2, hg2⟩ := h.oneD c2 hc2
    have e : planFor ds pd none c2 = planOf cv2 d2 pd none := by simp [planFor, hg2.found, hg2.dims]
    rw [e]
    apply applyPlan_signOnly_plain
    · rw [hv, find_name _ _ _ hg2.found]
      exact fun e => hbc (e ▸ hc2)
    · rw [hv]; exact hother c2 hc2 hne cv2 hg2.found
  obtain ⟨l1, l2, rfl⟩ := List.append_of_mem hc
  have hpw := h.indep
  rw [List.pairwise_append] at hpw
  obtain ⟨_, hpw2, hcross⟩ := hpw
  rw [List.pairwise_cons] at hpw2
  rw [List.map_append, List.map_cons, applyPlans_append]
  rw [applyPlans_noop ds.sz (l1.map (planFor ds pd none)) bv (by
    intro p hp
    obtain ⟨c2, hc2, rfl⟩ := List.mem_map.mp hp
    exact hnoop c2 (List.mem_append_left _ hc2) (hcross c2 hc2 c (by simp)).1 bv hbn)]
  show applyPlans ds.sz (l2.map (planFor ds pd none)) (applyPlan ds.sz (planFor ds pd none c) bv) = _
  -- the plan of `c` itself
  have hne : bv.name ≠ cv0.name := by rw [hbn, hcn]; exact fun e => hbc (e ▸ hc)
  have hown : applyPlan ds.sz (planFor ds pd none c) bv
      = (if wantFlip pd (signDown cv0) then negVar bv else bv) := by
    rw [hplan]
    have e1 : stepPos (planOf cv0 d pd none) bv = bv := by simp [stepPos, planOf, hne]
    have e2 : stepNeg (planOf cv0 d pd none) bv = bv := by simp [stepNeg, planOf, hne]
    have e3 : stepBnd (planOf cv0 d pd none) bv = (if wantFlip pd (signDown cv0) then negVar bv else bv) := by
      simp [stepBnd, planOf, hb, hbn]
    simp only [applyPlan, e1, e2, e3, stepRev, planOf_rev_none, Bool.false_eq_true, if_false]
  rw [hown]
  apply applyPlans_noop
  intro p hp
  obtain ⟨c2, hc2, rfl⟩ := List.mem_map.mp hp
  apply hnoop c2 (List.mem_append_right _ (List.mem_cons_of_mem _ hc2)) (fun e => (hpw2.1 c2 hc2).1 e.symm)
  split <;> simp [negVar, hbn]

/-- **Idempotence of the sign-only call, any number of levels.** -/
theorem sign_only_idempotent (ds : Dataset) (coords : List String) (pd : Opt) (out : Dataset) (w : List String)
    (h : ValidSign ds coords) (hself : ∀ c ∈ coords, ∀ cv, ds.find c = some cv → cv.bounds ≠ some c)
    (hn : normalize ds coords pd none = some (out, w)) :
    ∃ w', normalize out coords pd none = some (out, w') := by
  have hout := out_eq_signOnly h hn
  have hv := validSign_after ds coords pd none h
  rw [hout, normalize_signOnly _ coords pd hv]
  refine ⟨coords.flatMap (warnFor (normOut ds coords pd none)), ?_⟩
  congr 2
  show (normOut ds coords pd none).mapVars _ = _
  apply mapVars_id
  intro v hv'
  apply applyPlans_noop
  intro p hp
  obtain ⟨c, hc, rfl⟩ := List.mem_map.mp hp
  exact plan_after_noop_signOnly ds coords pd h hself c hc v hv'

/-- the hypotheses of the general theorems imply those of the sign-only ones -/
theorem valid_validSign (ds : Dataset) (coords : List String) (h : Valid ds coords) : ValidSign ds coords :=
  h.validSign

/-! ### Non-vacuity: a concrete dataset satisfies the hypotheses

Two depth coordinates on different dimensions — `zc(k)` positive-up, shallow first, with a
bounds variable; `zsed(ks)` without a `positive` attribute (sign guessed), deep first — a
data variable with the depth dimension last and missing values, a variable over both depth
dimensions and a variable without depth. -/

def exDs : Dataset :=
  { sizes := [("k", 3), ("ks", 2), ("t", 2), ("x", 2), ("nv", 2)],
    vars := [
      { name := "zc", dims := ["k"], data := [some (-1), some (-2), some (-4)], positive := some "up",
        bounds := some "zc_bnds", isCoord := true, extra := "a" },
      { name := "zsed", dims := ["ks"], data := [some 9, some 5], positive := none,
        bounds := none, isCoord := false, extra := "s" },
      { name := "zc_bnds", dims := ["k", "nv"],
        data := [some 0, some (-3), some (-3), some (-6), some (-6), some (-10)],
        positive := none, bounds := none, isCoord := false, extra := "b" },
      { name := "temp", dims := ["t", "x", "k"],
        data := [some 1, some 2, none, some 4, none, none, some 7, some 8, none, some 10, none, none],
        positive := none, bounds := none, isCoord := false, extra := "c" },
      { name := "both", dims := ["ks", "k"], data := [some 1, some 2, some 3, some 4, some 5, some 6],
        positive := none, bounds := none, isCoord := false, extra := "e" },
      { name := "surf", dims := ["x"], data := [some 5, some 6], positive := none, bounds := none,
        isCoord := false, extra := "d" } ] }

theorem exValid : Valid exDs ["zc", "zsed"] where
  good := by
    intro c hc
    simp only [List.mem_cons, List.not_mem_nil, or_false] at hc
    rcases hc with rfl | rfl
    · exact ⟨exDs.vars[0], "k", ⟨by decide, rfl, by decide, by decide, Or.inr (by decide),
        Or.inr (Or.inl rfl), by decide, by decide⟩⟩
    · exact ⟨exDs.vars[1], "ks", ⟨by decide, rfl, by decide, by decide, Or.inr (by decide),
        Or.inl rfl, by decide, by decide⟩⟩
  indep := by
    simp only [List.pairwise_cons, List.mem_cons, List.not_mem_nil, or_false, forall_eq, List.Pairwise.nil,
      and_true, false_imp_iff, implies_true]
    refine ⟨by decide, ?_⟩
    intro cv1 cv2 h1 h2
    have e1 : cv1 = exDs.vars[0] := Option.some.inj (h1.symm.trans (by decide))
    have e2 : cv2 = exDs.vars[1] := Option.some.inj (h2.symm.trans (by decide))
    subst e1; subst e2
    decide
  names := by decide
  wf := by
    intro v hv
    simp only [exDs, List.mem_cons, List.not_mem_nil, or_false] at hv
    rcases hv with rfl | rfl | rfl | rfl | rfl | rfl <;> decide

example : PlainVar exDs ["zc", "zsed"] "temp" := by
  refine ⟨by decide, ?_⟩
  intro c hc cv hf
  simp only [List.mem_cons, List.not_mem_nil, or_false] at hc
  rcases hc with rfl | rfl
  · have : cv = exDs.vars[0] := Option.some.inj (hf.symm.trans (by decide)); subst this; decide
  · have : cv = exDs.vars[1] := Option.some.inj (hf.symm.trans (by decide)); subst this; decide

/-- the model computes: positive down, deep to shallow — `zc` is negated and reversed with its
bounds and the data, `zsed` (guessed positive-down, already deep first) only gets the attribute -/
example : normalize exDs ["zc", "zsed"] (some true) (some true) = some (
  { sizes := [("k", 3), ("ks", 2), ("t", 2), ("x", 2), ("nv", 2)],
    vars := [
      { name := "zc", dims := ["k"], data := [some 4, some 2, some 1], positive := some "down",
        bounds := some "zc_bnds", isCoord := true, extra := "a" },
      { name := "zsed", dims := ["ks"], data := [some 9, some 5], positive := some "down",
        bounds := none, isCoord := false, extra := "s" },
      { name := "zc_bnds", dims := ["k", "nv"],
        data := [some 6, some 10, some 3, some 6, some 0, some 3],
        positive := none, bounds := none, isCoord := false, extra := "b" },
      { name := "temp", dims := ["t", "x", "k"],
        data := [none, some 2, some 1, none, none, some 4, none, some 8, some 7, none, none, some 10],
        positive := none, bounds := none, isCoord := false, extra := "c" },
      { name := "both", dims := ["ks", "k"], data := [some 3, some 2, some 1, some 6, some 5, some 4],
        positive := none, bounds := none, isCoord := false, extra := "e" },
      { name := "surf", dims := ["x"], data := [some 5, some 6], positive := none, bounds := none,
        isCoord := false, extra := "d" } ] }, ["zsed:down"]) := by decide

example : ∃ out w, normalize exDs ["zc", "zsed"] (some false) (some false) = some (out, w) ∧
    ∃ w', normalize out ["zc", "zsed"] (some false) (some false) = some (out, w') := by
  obtain ⟨out, hn, _⟩ := normalize_succeeds exDs ["zc", "zsed"] (some false) (some false) exValid
  exact ⟨out, _, hn, normalize_idempotent exDs _ _ _ out _ exValid hn⟩

/-- outside the hypotheses the sign is *not* what the attribute means: `positive = "DOWN"`
is read as up (the observation recorded in DESIGN.md section 8) -/
example : signDown ⟨"z", ["k"], [some 1, some 2], some "DOWN", none, true, ""⟩ = false := by decide

/-! ### Non-vacuity of the sign-only theorems: a dataset reduced to its surface layer

`zc(k)` with **one** level, positive-up, with a bounds variable, a data variable over `(t, k, x)`. -/

def exSurface : Dataset :=
  { sizes := [("k", 1), ("t", 2), ("x", 2), ("nv", 2)],
    vars := [
      { name := "zc", dims := ["k"], data := [some (-1)], positive := some "up",
        bounds := some "zc_bnds", isCoord := true, extra := "a" },
      { name := "zc_bnds", dims := ["k", "nv"], data := [some (-2), some 0],
        positive := none, bounds := none, isCoord := false, extra := "b" },
      { name := "temp", dims := ["t", "k", "x"], data := [some 1, some 2, some 3, none],
        positive := none, bounds := none, isCoord := false, extra := "c" } ] }

theorem exSurfaceValid : ValidSign exSurface ["zc"] where
  oneD := by
    intro c hc
    simp only [List.mem_cons, List.not_mem_nil, or_false] at hc
    subst hc
    exact ⟨exSurface.vars[0], "k", by decide, rfl⟩
  indep := by simp
  names := by decide

/-- the theorems about ≥ 2 levels do not speak about this dataset … -/
example : ¬ Valid exSurface ["zc"] := by
  intro h
  obtain ⟨cv, d, hg⟩ := h.good "zc" (by simp)
  have : cv = exSurface.vars[0] := Option.some.inj (hg.found.symm.trans (by decide))
  subst this
  exact absurd hg.levels (by decide)

/-- … the model computes: positive down — the level and its bounds are negated, the attribute
set, the data left in place — -/
example : normalize exSurface ["zc"] (some true) none = some (
  { sizes := [("k", 1), ("t", 2), ("x", 2), ("nv", 2)],
    vars := [
      { name := "zc", dims := ["k"], data := [some 1], positive := some "down",
        bounds := some "zc_bnds", isCoord := true, extra := "a" },
      { name := "zc_bnds", dims := ["k", "nv"], data := [some 2, some 0],
        positive := none, bounds := none, isCoord := false, extra := "b" },
      { name := "temp", dims := ["t", "k", "x"], data := [some 1, some 2, some 3, none],
        positive := none, bounds := none, isCoord := false, extra := "c" } ] }, []) := by decide

/-- … and requesting an ordering for it is refused (`d1, d2 = values[0:2]` fails to unpack) -/
example : normalize exSurface ["zc"] (some true) (some false) = none := by decide

example : ∃ out w, normalize exSurface ["zc"] (some true) none = some (out, w) ∧
    ∃ w', normalize out ["zc"] (some true) none = some (out, w') := by
  obtain ⟨out, hn, _⟩ := sign_only_succeeds exSurface ["zc"] (some true) exSurfaceValid
  refine ⟨out, _, hn, sign_only_idempotent exSurface _ _ out _ exSurfaceValid ?_ hn⟩
  intro c hc cv hf
  simp only [List.mem_cons, List.not_mem_nil, or_false] at hc
  subst hc
  have : cv = exSurface.vars[0] := Option.some.inj (hf.symm.trans (by decide))
  subst this
  decide

end Ems.C13
