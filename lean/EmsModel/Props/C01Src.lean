import EmsModel.Gen.IndexSrc
import EmsModel.Props.C01
/-
Props/C01Src.lean — property C01, tied to the source text.

`Gen/IndexSrc.lean` is regenerated on every run from the source of `ravel_index`, `wind_index`, `grid_size`
and of each convention's `pack_index` / `unpack_index`.  The theorems below prove that the *generated terms*
compute the model functions `Conv.ravelIndex`, `Conv.windIndex` and `size` the theorems of `Props/C01.lean`
are about — for every dataset shape, every grid kind and every index — so the bijection, the row-major
order and the rejections are statements about what the source says now.
-/
namespace Ems.C01
open Ems.IdxSrc Ems.Gen.IndexSrc

/-! ### auxiliary facts about the value encodings -/

theorem ints_map_int (l : List Int) : PyV.ints? (l.map PyV.int) = some l := by
  induction l with
  | nil => rfl
  | cons x xs ih => simp [PyV.ints?, ih]

theorem natList_ofNat' (l : List Nat) : natList? (l.map Int.ofNat) = some l := natList_ofNat l

theorem ints_natsToTup (l : List Nat) :
    (PyV.ints? (l.map (fun n => PyV.int (Int.ofNat n)))).bind natList? = some l := by
  have : l.map (fun n => PyV.int (Int.ofNat n)) = (l.map Int.ofNat).map PyV.int := by simp
  rw [this, ints_map_int]
  simp [natList_ofNat]

theorem ints_natsToTup' (l : List Nat) :
    (PyV.ints? (l.map (fun (n : Nat) => PyV.int (n : Int)))).bind natList? = some l := ints_natsToTup l

/-! ### the per-convention `pack_index` / `unpack_index`, as generated -/

/-- `CFGrid.unpack_index(index)` returns `(CFGridKind.face, index)` — the whole native index is the component tuple. -/
theorem cf_unpack_generated (c : Conv) (v : PyV) :
    evalSimple c (params1 "index" v) cfUnpack = some (.tup [.kind "face", v]) := by
  simp [evalSimple, evalWith, cfUnpack, params1]

/-- `CFGrid.pack_index(grid_kind, indexes)` returns `indexes` unchanged. -/
theorem cf_pack_generated (c : Conv) (k v : PyV) :
    evalSimple c (params2 "grid_kind" k "indexes" v) cfPack = some v := by
  simp [evalSimple, evalWith, cfPack, params2]

/-- `ArakawaC.unpack_index((kind, j, i))` returns `(kind, (j, i))`. -/
theorem arakawa_unpack_generated (c : Conv) (k : PyV) (comps : List PyV) :
    evalSimple c (params1 "index" (.tup (k :: comps))) arakawaUnpack = some (.tup [k, .tup comps]) := by
  simp [evalSimple, evalWith, arakawaUnpack, params1]

/-- `ArakawaC.pack_index(kind, (j, i))` returns `(kind, j, i)`. -/
theorem arakawa_pack_generated (c : Conv) (k : PyV) (comps : List PyV) :
    evalSimple c (params2 "grid_kind" k "indexes" (.tup comps)) arakawaPack = some (.tup (k :: comps)) := by
  simp [evalSimple, evalWith, arakawaPack, params2]

/-- `UGrid.unpack_index((kind, i))` returns `(kind, (i,))`. -/
theorem ugrid_unpack_generated (c : Conv) (k : PyV) (comps : List PyV) :
    evalSimple c (params1 "index" (.tup (k :: comps))) ugridUnpack = some (.tup [k, .tup comps]) := by
  simp [evalSimple, evalWith, ugridUnpack, params1]

/-- `UGrid.pack_index(kind, (i,))` returns `(kind, i)`. -/
theorem ugrid_pack_generated (c : Conv) (k i : PyV) (rest : List PyV) :
    evalSimple c (params2 "grid_kind" k "indexes" (.tup (i :: rest))) ugridPack = some (.tup [k, i]) := by
  simp [evalSimple, evalWith, ugridPack, params2]

/-- The generated `pack_index` / `unpack_index` of a convention family. -/
def envOf (f : Family) (c : Conv) : Env :=
  match f with
  | .cf => ⟨c, cfPack, cfUnpack⟩
  | .arakawa => ⟨c, arakawaPack, arakawaUnpack⟩
  | .ugrid => ⟨c, ugridPack, ugridUnpack⟩

/-- Which model indexes a family can spell: CF grids have the single kind `face` (the tuple carries no kind);
a UGRID index has exactly one component. -/
def Spellable : Family → Kind × List Int → Prop
  | .cf, (k, _) => k = "face"
  | .arakawa, _ => True
  | .ugrid, (_, comps) => comps.length = 1

/-! ### `ravel_index`, as generated -/

section ravelLemmas
variable (c : Conv) (packF : PyV → PyV → Option PyV) (unpackF : PyV → Option PyV) (ps : String → Option PyV)

theorem ravelMulti_eval (ti ts : IdxTerm) (comps : List Int) (shape : List Nat)
    (hi : evalWith c packF unpackF ps ti = some (.tup (comps.map .int)))
    (hs : evalWith c packF unpackF ps ts = some (natsToTup shape)) :
    evalWith c packF unpackF ps (.ravelMulti ti ts)
      = ((natList? comps).bind (ravel shape)).map (fun n => PyV.int (Int.ofNat n)) := by
  rw [evalWith, hi, hs]
  simp only [natsToTup, ints_map_int, ints_natsToTup]
  cases natList? comps <;> rfl

theorem ravelMulti_eval_noshape (ti ts : IdxTerm) (hs : evalWith c packF unpackF ps ts = Option.none) :
    evalWith c packF unpackF ps (.ravelMulti ti ts) = Option.none := by
  rw [evalWith, hs]
  cases evalWith c packF unpackF ps ti with
  | none => rfl
  | some v => cases v <;> rfl

theorem gridShape_eval (tk : IdxTerm) (k : Kind) (hk : evalWith c packF unpackF ps tk = some (.kind k)) :
    evalWith c packF unpackF ps (.gridShape tk) = (c.shape? k).map natsToTup := by
  rw [evalWith, hk]

theorem item_eval (t : IdxTerm) (xs : List PyV) (i : Nat) (h : evalWith c packF unpackF ps t = some (.tup xs)) :
    evalWith c packF unpackF ps (.item t i) = xs[i]? := by
  rw [evalWith, h]

end ravelLemmas

/-- What the convention's generated `unpack_index` makes of the Python tuple of a native index it can spell:
the pair (grid kind, component tuple). -/
theorem unpack_encode (f : Family) (c : Conv) (idx : Kind × List Int) (h : Spellable f idx) :
    evalSimple c (params1 "index" (encode f idx)) (envOf f c).unpack
      = some (.tup [.kind idx.1, .tup (idx.2.map .int)]) := by
  obtain ⟨k, comps⟩ := idx
  cases f with
  | cf =>
    simp only [Spellable] at h
    subst h
    simp [envOf, encode, cf_unpack_generated]
  | arakawa => simp [envOf, encode, arakawa_unpack_generated]
  | ugrid =>
    simp only [Spellable] at h
    have ht : comps.take 1 = comps := by
      match comps, h with
      | [x], _ => rfl
    simp [envOf, encode, ht, ugrid_unpack_generated]

/-- **`ravel_index` as the source has it is `Conv.ravelIndex`.** For each of the three native index spellings, every
dataset shape `c` and every native index the convention can spell (any grid kind, components of any sign and size),
evaluating the generated body of `DimensionConvention.ravel_index` — unpack the index with the convention's generated
`unpack_index`, look the kind's shape up, `numpy.ravel_multi_index` — on the Python tuple of that index yields exactly
what the model function yields: the same linear index, or an error in exactly the same cases. -/
theorem ravel_index_generated (f : Family) (c : Conv) (idx : Kind × List Int) (h : Spellable f idx) :
    eval (envOf f c) (params1 "index" (encode f idx)) ravelIndexBody
      = (c.ravelIndex idx).map (fun n => PyV.int (Int.ofNat n)) := by
  have hc : (envOf f c).conv = c := by cases f <;> rfl
  have hu := unpack_encode f c idx h
  rw [eval, ravelIndexBody, hc]
  generalize hP : (fun k idxs => evalSimple c (params2 "grid_kind" k "indexes" idxs) (envOf f c).pack) = packF
  generalize hU : (fun i => evalSimple c (params1 "index" i) (envOf f c).unpack) = unpackF
  have hun : evalWith c packF unpackF (params1 "index" (encode f idx)) (.unpackIndex (.param "index"))
      = some (.tup [.kind idx.1, .tup (idx.2.map .int)]) := by
    rw [evalWith, evalWith]
    simp only [params1, beq_self_eq_true, if_true, Option.bind_some]
    rw [← hU]
    exact hu
  have hk := item_eval c packF unpackF _ _ _ 0 hun
  have hi := item_eval c packF unpackF _ _ _ 1 hun
  simp only [List.getElem?_cons_zero, List.getElem?_cons_succ] at hk hi
  have hsh := gridShape_eval c packF unpackF _ _ _ hk
  simp only [Conv.ravelIndex]
  cases hs : c.shape? idx.1 with
  | none =>
    rw [hs] at hsh
    rw [ravelMulti_eval_noshape c packF unpackF _ _ _ hsh]
    rfl
  | some shape =>
    rw [hs] at hsh
    rw [ravelMulti_eval c packF unpackF _ _ _ idx.2 shape hi hsh]
    cases natList? idx.2 <;> rfl

/-! ### `wind_index`, as generated -/

def kindArg : Option Kind → PyV
  | some k => .kind k
  | Option.none => .none

/-- Every grid a UGRID dataset defines is one-dimensional (`grid_dimensions` lists one dimension per kind). -/
def AllRank1 (c : Conv) : Prop := ∀ k s, c.shape? k = some s → s.length = 1

/-- For CF grids the native index carries no kind: `wind_index` is only ever asked about the face grid. -/
def KindOk (f : Family) (c : Conv) (kind : Option Kind) : Prop :=
  match f with
  | .cf => kind.getD c.default = "face" ∨ c.shape? (kind.getD c.default) = Option.none
  | .arakawa => True
  | .ugrid => AllRank1 c

theorem unravel_length : ∀ (s : List Nat) (n : Nat) (r : List Nat), unravel s n = some r → r.length = s.length
  | [], n, r, h => by
    simp only [unravel] at h
    split at h <;> simp_all
  | d :: ds, n, r, h => by
    simp only [unravel] at h
    split at h
    · cases hu : unravel ds (n % size ds) with
      | none => simp [hu] at h
      | some is =>
        simp [hu] at h
        subst h
        simp [unravel_length ds _ is hu]
    · simp at h

section windLemmas
variable (c : Conv) (packF : PyV → PyV → Option PyV) (unpackF : PyV → Option PyV) (kind : Option Kind) (n : Int)

local notation "ps" => params2 "linear_index" (PyV.int n) "grid_kind" (kindArg kind)

theorem wind_eval_kind :
    evalWith c packF unpackF ps (.orDefaultKind (.param "grid_kind")) = some (.kind (kind.getD c.default)) := by
  have : ("grid_kind" == "linear_index") = false := by decide
  cases kind <;> simp [evalWith, params2, kindArg, this]

theorem wind_eval_n : evalWith c packF unpackF ps (.param "linear_index") = some (.int n) := by
  simp [evalWith, params2]

theorem wind_eval_shape :
    evalWith c packF unpackF ps (.gridShape (.orDefaultKind (.param "grid_kind")))
      = (c.shape? (kind.getD c.default)).map natsToTup := by
  rw [evalWith, wind_eval_kind]

theorem wind_eval_unravel :
    evalWith c packF unpackF ps
        (.unravelIndex (.param "linear_index") (.gridShape (.orDefaultKind (.param "grid_kind"))))
      = (c.shape? (kind.getD c.default)).bind
          (fun sh => if n < 0 then Option.none else (unravel sh n.toNat).map natsToTup) := by
  rw [evalWith, wind_eval_n, wind_eval_shape]
  cases c.shape? (kind.getD c.default) with
  | none => rfl
  | some sh => simp [natsToTup, ints_natsToTup']

end windLemmas

/-- **`wind_index` as the source has it is `Conv.windIndex`.** For each native index spelling, every dataset shape,
every linear index (negative and too large ones included) and every `grid_kind` argument (given or left to the default),
evaluating the generated body of `DimensionConvention.wind_index` — default the kind, look its shape up,
`numpy.unravel_index`, the convention's generated `pack_index` — yields the Python tuple of exactly the native index
the model function yields, or an error in exactly the same cases. -/
theorem wind_index_generated (f : Family) (c : Conv) (kind : Option Kind) (n : Int) (h : KindOk f c kind) :
    eval (envOf f c) (params2 "linear_index" (.int n) "grid_kind" (kindArg kind)) windIndexBody
      = (c.windIndex kind n).map (encodeNat f) := by
  have hc : (envOf f c).conv = c := by cases f <;> rfl
  rw [eval, windIndexBody, evalWith, wind_eval_kind, wind_eval_unravel, hc]
  simp only [Conv.windIndex]
  generalize kind.getD c.default = k at h ⊢
  cases hs : c.shape? k with
  | none => simp
  | some shape =>
    simp only [Option.bind_some]
    by_cases hn : n < 0
    · simp [hn]
    · simp only [hn, if_false]
      cases hu : unravel shape n.toNat with
      | none => simp
      | some idxs =>
        simp only [Option.map_some, natsToTup, encodeNat]
        cases f with
        | cf => simp [envOf, cf_pack_generated, encode]
        | arakawa => simp [envOf, arakawa_pack_generated, encode]
        | ugrid =>
          simp only [KindOk] at h
          have hl := unravel_length shape _ idxs hu
          rw [h k shape hs] at hl
          match idxs, hl with
          | [i], _ => simp [envOf, ugrid_pack_generated, encode]

/-! ### `grid_size`, as generated -/

/-- **`grid_size` as the source has it is the product of the shape** (`numpy.prod`, over the entries of
`grid_shape`), for every rank and every shape. -/
theorem grid_size_generated (c : Conv) (shape : List Nat) :
    evalSimple c (params1 "shape" (natsToTup shape)) gridSizeEntry = some (.int (Int.ofNat (size shape))) := by
  simp [evalSimple, gridSizeEntry, evalWith, params1, natsToTup, ints_natsToTup']

/-- Nothing in the translated functions was beyond the translator. -/
theorem index_functions_translated : complaints = [] := rfl

/-! ### the property, stated on the generated terms -/

/-- **The round trip linear → native → linear through the generated source terms is the identity**, for every
convention family, every grid of every shape and every in-range linear index: `ravel_index(wind_index(n, kind)) = n`. -/
theorem ravel_wind_generated (f : Family) (c : Conv) (k : Kind) (shape : List Nat) (hs : c.shape? k = some shape)
    (hf : KindOk f c (some k)) (hcf : f = .cf → k = "face")
    (n : Nat) (hn : n < size shape) :
    ∃ native, eval (envOf f c) (params2 "linear_index" (.int n) "grid_kind" (.kind k)) windIndexBody = some native
      ∧ eval (envOf f c) (params1 "index" native) ravelIndexBody = some (.int n) := by
  obtain ⟨idx, hw, hr⟩ := ravel_wind c k shape hs n hn
  refine ⟨encodeNat f (k, idx), ?_, ?_⟩
  · have := wind_index_generated f c (some k) n hf
    simpa [kindArg, hw] using this
  · have hsp : Spellable f (k, idx.map Int.ofNat) := by
      cases f with
      | cf => exact hcf rfl
      | arakawa => trivial
      | ugrid =>
        simp only [KindOk] at hf
        have hw' := hw
        have hn0 : ¬ ((n : Int) < 0) := by omega
        simp only [Conv.windIndex, Option.getD_some, hs, hn0, if_false, Int.toNat_natCast] at hw'
        cases hu : unravel shape n with
        | none => simp [hu] at hw'
        | some r =>
          simp [hu] at hw'
          subst hw'
          have := unravel_length shape n r hu
          simp [Spellable, this, hf k shape hs]
    have := ravel_index_generated f c (k, idx.map Int.ofNat) hsp
    simpa [encodeNat, hr] using this

/-- **An out-of-range linear index is rejected by the generated `wind_index`**, never wrapped or clamped. -/
theorem wind_rejects_generated (f : Family) (c : Conv) (k : Kind) (shape : List Nat) (hs : c.shape? k = some shape)
    (hf : KindOk f c (some k)) (n : Int) (h : n < 0 ∨ (size shape : Int) ≤ n) :
    eval (envOf f c) (params2 "linear_index" (.int n) "grid_kind" (.kind k)) windIndexBody = Option.none := by
  have := wind_index_generated f c (some k) n hf
  simpa [kindArg, wind_rejects c k shape hs n h] using this

/-- **A native index with a component outside its dimension (or of the wrong rank) is rejected by the generated
`ravel_index`**, never wrapped or clamped. -/
theorem ravel_rejects_generated (f : Family) (c : Conv) (k : Kind) (shape : List Nat) (hs : c.shape? k = some shape)
    (idx : List Int) (hsp : Spellable f (k, idx))
    (h : ¬ ∃ nat, idx = nat.map Int.ofNat ∧ InRange shape nat) :
    eval (envOf f c) (params1 "index" (encode f (k, idx))) ravelIndexBody = Option.none := by
  have := ravel_index_generated f c (k, idx) hsp
  simpa [ravel_rejects c k shape hs idx h] using this

/-! ### non-vacuity: concrete datasets meet the hypotheses and the generated terms run -/

def exCF : Conv := ⟨[("face", [3, 4])], "face"⟩
def exSHOC : Conv := ⟨[("face", [3, 4]), ("left", [3, 5]), ("back", [4, 4]), ("node", [4, 5])], "face"⟩
def exMesh : Conv := ⟨[("node", [7]), ("face", [4]), ("edge", [10])], "face"⟩

example : KindOk .cf exCF Option.none := Or.inl rfl
example : KindOk .ugrid exMesh (some "edge") := by
  intro k s h
  simp only [Conv.shape?, exMesh, List.find?] at h
  repeat' split at h
  all_goals first | (simp only [Option.map_some, Option.some.injEq] at h; subst h; rfl) | simp_all
example : Spellable .ugrid ("edge", [7]) := rfl

-- (2, 3) on a 3 x 4 CF grid is cell 11; the left-edge grid of a SHOC dataset is 3 x 5, so (left, 2, 4) is 14
example : eval (envOf .cf exCF) (params1 "index" (encode .cf ("face", [2, 3]))) ravelIndexBody
    = some (.int 11) := by rfl
example : eval (envOf .arakawa exSHOC) (params1 "index" (encode .arakawa ("left", [2, 4]))) ravelIndexBody
    = some (.int 14) := by rfl
example : eval (envOf .arakawa exSHOC) (params2 "linear_index" (.int 14) "grid_kind" (.kind "left")) windIndexBody
    = some (.tup [.kind "left", .int 2, .int 4]) := by rfl
example : eval (envOf .ugrid exMesh) (params2 "linear_index" (.int 9) "grid_kind" (.kind "edge")) windIndexBody
    = some (.tup [.kind "edge", .int 9]) := by rfl
-- rejected, not wrapped
example : eval (envOf .cf exCF) (params1 "index" (encode .cf ("face", [2, 4]))) ravelIndexBody = Option.none := by rfl
example : eval (envOf .cf exCF) (params2 "linear_index" (.int 12) "grid_kind" .none) windIndexBody = Option.none := by rfl

end Ems.C01
