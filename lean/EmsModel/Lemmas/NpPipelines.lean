import EmsModel.Lemmas.NpExpr
import EmsModel.Lemmas.Polygons
import EmsModel.Gen.Pipelines
/-!
Lemmas/NpPipelines.lean — the pipelines GENERATED FROM THE SOURCE (`Gen/Pipelines.lean`, written by
`harness/pipelines.py` on every run) refine the comprehension models of `Core/Polygons.lean`.

Every proof has the same three steps and does not look at the shape of the generated term:
1. `shapeOf env Gen.<pipeline> = some [ny * nx, 4, 2]` by `np_simp` (symbolic shape inference);
2. `eval_sound` turns `eval` into `tabulate … (getOf env Gen.<pipeline>)`;
3. `getOf env Gen.<pipeline> [n, k, c]` is computed by `np_simp` (the index maps composed) and compared with
   the specification cell by cell.
So a harmless rewrite of the source (renamed locals, `axis=-1` ↔ the positive axis, a different but
equivalent order of `expand_dims` / `broadcast_to`) is absorbed, while a change of what is computed leaves
an unprovable goal in the theorem named after the function.
-/
namespace Ems
open NpArr

/-! ### simp set: evaluate `shapeOf` / `getOf` of a concrete term with symbolic sizes -/

theorem resolveDims_merge2 (env : NpEnv) (a b c d : Nat) (hc : 0 < c) (hd : 0 < d) :
    resolveDims env (size [a, b, c, d]) [.infer, .lit c, .lit d] = some [a * b, c, d] := by
  have hcd : c * d ≠ 0 := Nat.mul_ne_zero (by omega) (by omega)
  have e : a * (b * (c * d)) = (a * b) * (c * d) := by rw [Nat.mul_assoc]
  simp [resolveDims, DimTerm.val, allSomeL, size, hcd, e, Nat.mul_mod_left,
    Nat.mul_div_cancel _ (Nat.pos_of_ne_zero hcd)]

theorem resolveDims_flat (env : NpEnv) (t : Nat) : resolveDims env t [.infer] = some [t] := by
  simp [resolveDims, DimTerm.val, allSomeL, size, Nat.mod_one]

theorem size_merge (a b : Nat) (rest : List Nat) : size (a * b :: rest) = size (a :: b :: rest) := by
  simp [size, Nat.mul_assoc]

theorem size_two (a b : Nat) : size [a, b] = a * b := by simp [size]

theorem size_one (a : Nat) : size [a] = a := by simp [size]

/-- `np_simp [extra lemmas]`: unfold the element-wise reading of a concrete expression -/
syntax "np_simp" "[" Lean.Parser.Tactic.simpLemma,* "]" : tactic
macro_rules
  | `(tactic| np_simp [$ts,*]) =>
    `(tactic| simp (config := { decide := true }) [getOf, getOfList, concatGetOf, shapeOf, shapesOf, removeAt,
        insertAt, bcastIdx, bcastOk, transposeIdx, sliceIdx, sliceShape, Bound.resolve, Axis.norm, plainDims,
        DimTerm.val, allSomeL, List.lookup, lift2, resolveDims_merge2, resolveDims_flat, size_merge, size_two,
        size_one, List.range_succ, List.range_zero, List.idxOf_cons, List.idxOf_nil, $ts,*])

/-! ### the input arrays -/

theorem pairsArr_shape (l : List (Rat × Rat)) : (pairsArr l).shape = [l.length, 2] := rfl

theorem pairsArr_wf (l : List (Rat × Rat)) : (pairsArr l).WF := by
  simp only [WF, pairsArr, size]
  rw [flatMap_length_uniform _ 2 l (by simp)]

theorem pairsArr_get (l : List (Rat × Rat)) (i c : Nat) (hc : c < 2) :
    (pairsArr l).get [i, c] = (l[i]?).bind fun p => ([some p.1, some p.2][c]?).join := by
  by_cases hi : i < l.length
  · have := flatMap_getElem_uniform (fun p : Rat × Rat => [some p.1, some p.2]) 2 l (by simp) i c hi hc
    simp [NpArr.get, pairsArr, ravel, size, hi, hc, this]
  · simp [NpArr.get, pairsArr, ravel, hi]

theorem pairsArr_get0 (l : List (Rat × Rat)) (i : Nat) : (pairsArr l).get [i, 0] = (l[i]?).map (·.1) := by
  rw [pairsArr_get l i 0 (by omega)]; cases l[i]? <;> simp

theorem pairsArr_get1 (l : List (Rat × Rat)) (i : Nat) : (pairsArr l).get [i, 1] = (l[i]?).map (·.2) := by
  rw [pairsArr_get l i 1 (by omega)]; cases l[i]? <;> simp

theorem join_map_some (o : Option Rat) : (o.map some).join = o := by cases o <;> rfl

theorem vecArr_shape (l : List (Option Rat)) : (vecArr l).shape = [l.length] := rfl

theorem vecArr_wf (l : List (Option Rat)) : (vecArr l).WF := by simp [WF, vecArr, size]

theorem vecArr_get (l : List (Option Rat)) (i : Nat) : (vecArr l).get [i] = (l[i]?).join := by
  by_cases hi : i < l.length
  · simp [NpArr.get, vecArr, ravel, size, hi]
  · simp [NpArr.get, vecArr, ravel, hi]

theorem gridArr_shape (g : List (List (Option Rat))) (nx : Nat) : (gridArr g nx).shape = [g.length, nx] := rfl

theorem gridArr_wf (g : List (List (Option Rat))) (nx : Nat) (h : ∀ r ∈ g, r.length = nx) :
    (gridArr g nx).WF := by
  simp only [WF, gridArr, size, ← List.flatMap_id]
  rw [flatMap_length_uniform id nx g (by simpa using h)]
  simp

theorem gridArr_get (g : List (List (Option Rat))) (nx : Nat) (h : ∀ r ∈ g, r.length = nx) (j i : Nat) :
    (gridArr g nx).get [j, i] = (Grid.get g j i).join := by
  by_cases hj : j < g.length
  · by_cases hi : i < nx
    · have := flatMap_getElem_uniform id nx g (by simpa using h) j i hj hi
      simp only [List.flatMap_id, id] at this
      simp [NpArr.get, gridArr, ravel, size, hi, hj, this, Grid.get]
    · have hl : g[j].length ≤ i := by rw [h _ (List.getElem_mem hj)]; omega
      simp [NpArr.get, gridArr, ravel, hi, Grid.get, hj, List.getElem?_eq_none hl]
  · simp [NpArr.get, gridArr, ravel, hj, Grid.get]

theorem grid3Arr_shape (g : List (List (List (Option Rat)))) (nx m : Nat) :
    (grid3Arr g nx m).shape = [g.length, nx, m] := rfl

theorem flatten_length_uniform (row : List (List (Option Rat))) (m : Nat) (h : ∀ c ∈ row, c.length = m) :
    row.flatten.length = row.length * m := by
  rw [← List.flatMap_id]
  exact flatMap_length_uniform id m row (by simpa using h)

theorem grid3Arr_wf (g : List (List (List (Option Rat)))) (nx m : Nat)
    (h : ∀ r ∈ g, r.length = nx ∧ ∀ c ∈ r, c.length = m) : (grid3Arr g nx m).WF := by
  simp only [WF, grid3Arr, size, ← List.flatMap_id]
  rw [flatMap_length_uniform id (nx * m) (g.map List.flatten) (by
    intro a ha
    obtain ⟨r, hr, rfl⟩ := List.mem_map.mp ha
    simp only [id]
    rw [flatten_length_uniform r m (h r hr).2, (h r hr).1])]
  simp

/-- element `(j, i, k)` of a stored `(ny, nx, m)` array -/
theorem grid3Arr_get (g : List (List (List (Option Rat)))) (nx m : Nat)
    (h : ∀ r ∈ g, r.length = nx ∧ ∀ c ∈ r, c.length = m) (j i k : Nat) :
    (grid3Arr g nx m).get [j, i, k] = ((Grid.get g j i).bind (·[k]?)).join := by
  by_cases hj : j < g.length
  · have hr := h _ (List.getElem_mem hj)
    by_cases hi : i < nx
    · have hi' : i < g[j].length := by rw [hr.1]; exact hi
      have hc := hr.2 _ (List.getElem_mem hi')
      by_cases hk : k < m
      · have h1 := flatMap_getElem_uniform id (nx * m) (g.map List.flatten) (by
          intro a ha
          obtain ⟨r, hr', rfl⟩ := List.mem_map.mp ha
          simp only [id]
          rw [flatten_length_uniform r m (h r hr').2, (h r hr').1]) j (i * m + k) (by simpa using hj) (by
            calc i * m + k < i * m + m := by omega
              _ = (i + 1) * m := by rw [Nat.add_mul, Nat.one_mul]
              _ ≤ nx * m := Nat.mul_le_mul_right _ hi)
        have h2 := flatMap_getElem_uniform id m g[j] (by simpa using hr.2) i k hi' hk
        simp only [List.flatMap_id, id, List.getElem_map] at h1 h2
        simp [NpArr.get, grid3Arr, ravel, size, hi, hj, hk, h1, h2, Grid.get, hi']
      · have hl : g[j][i].length ≤ k := by rw [hc]; omega
        simp [NpArr.get, grid3Arr, ravel, hk, Grid.get, hj, hi', List.getElem?_eq_none hl]
    · have hl : g[j].length ≤ i := by rw [hr.1]; omega
      simp [NpArr.get, grid3Arr, ravel, hi, Grid.get, hj, List.getElem?_eq_none hl]
  · simp [NpArr.get, grid3Arr, ravel, hj, Grid.get]

/-! ### row-major comprehensions as one `range` -/

theorem flatMap_eq_range {β γ : Type} (l : List β) (g : β → List γ) (b : Nat) (hg : ∀ x ∈ l, (g x).length = b) :
    (l.flatMap g).map some = (List.range (l.length * b)).map fun n => (l[n / b]?).bind fun x => (g x)[n % b]? := by
  apply List.ext_getElem?
  intro n
  by_cases hn : n < l.length * b
  · have hb : 0 < b := by
      rcases Nat.eq_zero_or_pos b with h | h
      · subst h; simp at hn
      · exact h
    have hj : n / b < l.length := by
      apply Nat.div_lt_of_lt_mul; rw [Nat.mul_comm]; exact hn
    have key := flatMap_getElem_uniform g b l hg (n / b) (n % b) hj (Nat.mod_lt _ hb)
    have e : n / b * b + n % b = n := by rw [Nat.mul_comm]; exact Nat.div_add_mod n b
    rw [e] at key
    have hi : n % b < (g l[n / b]).length := by rw [hg _ (List.getElem_mem hj)]; exact Nat.mod_lt _ hb
    simp [hn, key, hj, List.getElem?_eq_getElem hi]
  · have hlen := flatMap_length_uniform g b l hg
    simp only [List.getElem?_map]
    rw [List.getElem?_eq_none (by rw [hlen]; omega), List.getElem?_eq_none (by simp; omega)]
    rfl

theorem map_some_inj {β : Type} : ∀ (a b : List β), a.map some = b.map some → a = b
  | [], [], _ => rfl
  | [], _ :: _, h => by simp at h
  | _ :: _, [], h => by simp at h
  | x :: xs, y :: ys, h => by
    simp only [List.map_cons, List.cons.injEq, Option.some.injEq] at h
    rw [h.1, map_some_inj xs ys h.2]

/-- cells of a row-major list are found at `(n / nx, n % nx)` -/
theorem div_mod_lt (ny nx n : Nat) (hn : n < ny * nx) : n / nx < ny ∧ n % nx < nx := by
  have hb : 0 < nx := by
    rcases Nat.eq_zero_or_pos nx with h | h
    · subst h; simp at hn
    · exact h
  exact ⟨by apply Nat.div_lt_of_lt_mul; rw [Nat.mul_comm]; exact hn, Nat.mod_lt _ hb⟩

/-! ### CF 1-D polygons -/

theorem cf1dEnv_wf (lonb latb : List (Rat × Rat)) (ny nx : Nat) : (cf1dEnv lonb latb ny nx).WF := by
  intro p hp
  simp only [cf1dEnv, List.mem_cons, List.not_mem_nil, or_false] at hp
  rcases hp with rfl | rfl
  · exact pairsArr_wf _
  · exact pairsArr_wf _

theorem cf1d_shape (lonb latb : List (Rat × Rat)) (ny nx : Nat) (hx : lonb.length = nx) (hy : latb.length = ny) :
    shapeOf (cf1dEnv lonb latb ny nx) Gen.cf1dPolygonPoints = some [ny * nx, 4, 2] := by
  np_simp [Gen.cf1dPolygonPoints, cf1dEnv, pairsArr_shape, hx, hy]

/-- **`CFGrid1D._make_polygons` as the source has it** builds exactly the rectangles of `cf1dPolys` -/
theorem cf1d_pipeline (lonb latb : List (Rat × Rat)) (ny nx : Nat) (hx : lonb.length = nx) (hy : latb.length = ny) :
    evalPolys (cf1dEnv lonb latb ny nx) Gen.cf1dPolygonPoints = some (cf1dPolys lonb latb) := by
  have hs := cf1d_shape lonb latb ny nx hx hy
  rw [evalPolys, eval_sound _ (cf1dEnv_wf lonb latb ny nx) _ _ hs, Option.bind_some, pointsToPolys_tabulate]
  congr 1
  apply map_some_inj
  unfold cf1dPolys
  rw [flatMap_eq_range latb _ nx (by intro a _; simp [hx]), hy, List.map_map]
  apply List.map_congr_left
  intro n hn
  have hn' : n < ny * nx := by simpa using hn
  obtain ⟨hj, hi⟩ := div_mod_lt ny nx n hn'
  have hm : ∀ k c, k < 4 → c < 2 →
      (ravel [ny * nx, 4, 2] [n, k, c]).bind (unravel [ny, nx, 4, 2]) = some [n / nx, n % nx, k, c] := by
    intro k c hk hc
    exact ravel_unravel_merge ny nx [4, 2] [k, c] n hn' (by simp [InRange, hk, hc])
  have hjm : n / nx % ny = n / nx := Nat.mod_eq_of_lt hj
  have e4 : List.range 4 = [0, 1, 2, 3] := by decide
  simp only [Function.comp, e4, List.map_cons, List.map_nil]
  np_simp [Gen.cf1dPolygonPoints, cf1dEnv, pairsArr_shape, hx, hy, hm, hjm, pairsArr_get0, pairsArr_get1]
  rw [List.getElem?_eq_getElem (by omega : n / nx < latb.length),
    List.getElem?_eq_getElem (by omega : n % nx < lonb.length)]
  simp [optPt, rect, allSomeL]

/-- the `assert lon_bounds_2d.shape == lat_bounds_2d.shape == (y_size, x_size, 4)` of the source holds -/
theorem cf1d_asserts (lonb latb : List (Rat × Rat)) (ny nx : Nat) (hx : lonb.length = nx) (hy : latb.length = ny) :
    ∀ p ∈ Gen.cf1dPolygonPointsAsserts,
      (plainDims (cf1dEnv lonb latb ny nx) p.2).isSome ∧
      shapeOf (cf1dEnv lonb latb ny nx) p.1 = plainDims (cf1dEnv lonb latb ny nx) p.2 := by
  np_simp [Gen.cf1dPolygonPointsAsserts, cf1dEnv, pairsArr_shape, hx, hy]

/-! ### CF 1-D face centres -/

theorem centresEnv_wf (lon lat : List (Option Rat)) : (centresEnv lon lat).WF := by
  intro p hp
  simp only [centresEnv, List.mem_cons, List.not_mem_nil, or_false] at hp
  rcases hp with rfl | rfl
  · exact vecArr_wf _
  · exact vecArr_wf _

theorem centres_shape (lon lat : List (Option Rat)) :
    shapeOf (centresEnv lon lat) Gen.cf1dFaceCentres = some [lat.length * lon.length, 2] := by
  np_simp [Gen.cf1dFaceCentres, centresEnv, vecArr_shape]

/-- **`CFGrid1D.face_centres` as the source has it** (`meshgrid` / `flatten` / `column_stack`): the centre of
cell `(j, i)` — linear position `j * nx + i` — is `(lon[i], lat[j])` -/
theorem cf1d_centres_pipeline (lon lat : List Rat) :
    (eval (centresEnv (lon.map some) (lat.map some)) Gen.cf1dFaceCentres).bind pointsToPairs
      = some ((cf1dCentres lon lat).map fun p => (some p.1, some p.2)) := by
  have hs := centres_shape (lon.map some) (lat.map some)
  simp only [List.length_map] at hs
  rw [eval_sound _ (centresEnv_wf _ _) _ _ hs, Option.bind_some, pointsToPairs_tabulate]
  congr 1
  apply map_some_inj
  unfold cf1dCentres
  have key := flatMap_eq_range lat (fun y => lon.map fun x => (x, y)) lon.length (by intro a _; simp)
  have e : ((List.flatMap (fun y => List.map (fun x => (x, y)) lon) lat).map
        fun p : Rat × Rat => (some p.1, some p.2)).map some
      = ((List.flatMap (fun y => List.map (fun x => (x, y)) lon) lat).map some).map
        (Option.map fun p : Rat × Rat => (some p.1, some p.2)) := by
    simp [List.map_map]
  rw [e, key, List.map_map, List.map_map]
  apply List.map_congr_left
  intro n hn
  have hn' : n < lat.length * lon.length := by simpa using hn
  obtain ⟨hj, hi⟩ := div_mod_lt _ _ n hn'
  have hm : ∀ c, c < 2 → (ravel [lat.length * lon.length] [n]).bind (unravel [lat.length, lon.length])
      = some [n / lon.length, n % lon.length] := by
    intro c _
    exact ravel_unravel_merge lat.length lon.length [] [] n hn' (by simp [InRange])
  have hjm : n / lon.length % lat.length = n / lon.length := Nat.mod_eq_of_lt hj
  np_simp [Gen.cf1dFaceCentres, centresEnv, vecArr_shape, vecArr_get, hm 0, hjm, join_map_some, hj, hi]

/-! ### Arakawa C polygons -/

theorem arakawaEnv_wf (xg yg : List (List (Option Rat))) (nx : Nat)
    (hxr : ∀ r ∈ xg, r.length = nx + 1) (hyr : ∀ r ∈ yg, r.length = nx + 1) : (arakawaEnv xg yg nx).WF := by
  intro p hp
  simp only [arakawaEnv, List.mem_cons, List.not_mem_nil, or_false] at hp
  rcases hp with rfl | rfl
  · exact gridArr_wf _ _ hxr
  · exact gridArr_wf _ _ hyr

theorem arakawa_shape (xg yg : List (List (Option Rat))) (ny nx : Nat)
    (hxl : xg.length = ny + 1) (hyl : yg.length = ny + 1) :
    shapeOf (arakawaEnv xg yg nx) Gen.arakawaPolygonPoints = some [ny * nx, 4, 2] := by
  np_simp [Gen.arakawaPolygonPoints, arakawaEnv, gridArr_shape, hxl, hyl]

/-- the node of `arakawaPolys` (a `match` of its own) is `optPt` -/
theorem arakawa_node_eq (a b : Option Rat) :
    arakawaPolys.match_1 (fun _ _ => Option Pt) a b (fun x y => some (x, y)) (fun _ _ => none) = optPt a b := by
  cases a <;> cases b <;> rfl

theorem arakawa_pipeline (xg yg : List (List (Option Rat))) (ny nx : Nat)
    (hxl : xg.length = ny + 1) (hyl : yg.length = ny + 1)
    (hxr : ∀ r ∈ xg, r.length = nx + 1) (hyr : ∀ r ∈ yg, r.length = nx + 1) :
    evalPolys (arakawaEnv xg yg nx) Gen.arakawaPolygonPoints = some (arakawaPolys xg yg ny nx) := by
  have hs := arakawa_shape xg yg ny nx hxl hyl
  rw [evalPolys, eval_sound _ (arakawaEnv_wf xg yg nx hxr hyr) _ _ hs, Option.bind_some, pointsToPolys_tabulate]
  congr 1
  apply map_some_inj
  unfold arakawaPolys
  rw [flatMap_eq_range (List.range ny) _ nx (by intro a _; simp), List.length_range, List.map_map]
  apply List.map_congr_left
  intro n hn
  have hn' : n < ny * nx := by simpa using hn
  obtain ⟨hj, hi⟩ := div_mod_lt ny nx n hn'
  have hm : ∀ k c, k < 4 → c < 2 →
      (ravel [ny * nx, 4, 2] [n, k, c]).bind (unravel [ny, nx, 4, 2]) = some [n / nx, n % nx, k, c] := by
    intro k c hk hc
    exact ravel_unravel_merge ny nx [4, 2] [k, c] n hn' (by simp [InRange, hk, hc])
  have e4 : List.range 4 = [0, 1, 2, 3] := by decide
  simp only [Function.comp, e4, List.map_cons, List.map_nil]
  np_simp [Gen.arakawaPolygonPoints, arakawaEnv, gridArr_shape, hxl, hyl, hm, gridArr_get xg (nx + 1) hxr,
    gridArr_get yg (nx + 1) hyr, hj, hi]
  simp only [arakawa_node_eq, Nat.add_comm 1]

/-! ### CF 2-D polygons (stored bounds) -/

theorem cf2dEnv_wf (blon blat : List (List (List (Option Rat)))) (nx : Nat)
    (hx : ∀ r ∈ blon, r.length = nx ∧ ∀ c ∈ r, c.length = 4)
    (hy : ∀ r ∈ blat, r.length = nx ∧ ∀ c ∈ r, c.length = 4) : (cf2dEnv blon blat nx).WF := by
  intro p hp
  simp only [cf2dEnv, List.mem_cons, List.not_mem_nil, or_false] at hp
  rcases hp with rfl | rfl
  · exact grid3Arr_wf _ _ _ hx
  · exact grid3Arr_wf _ _ _ hy

theorem cf2d_shape (blon blat : List (List (List (Option Rat)))) (ny nx : Nat)
    (hxl : blon.length = ny) (hyl : blat.length = ny) :
    shapeOf (cf2dEnv blon blat nx) Gen.cf2dPolygonPoints = some [ny * nx, 4, 2] := by
  np_simp [Gen.cf2dPolygonPoints, cf2dEnv, grid3Arr_shape, hxl, hyl]

theorem cf2d_pipeline (blon blat : List (List (List (Option Rat)))) (ny nx : Nat)
    (hxl : blon.length = ny) (hyl : blat.length = ny)
    (hx : ∀ r ∈ blon, r.length = nx ∧ ∀ c ∈ r, c.length = 4)
    (hy : ∀ r ∈ blat, r.length = nx ∧ ∀ c ∈ r, c.length = 4) :
    evalPolys (cf2dEnv blon blat nx) Gen.cf2dPolygonPoints
      = some (cf2dPolys (storedCorners blon) (storedCorners blat)) := by
  have hs := cf2d_shape blon blat ny nx hxl hyl
  rw [evalPolys, eval_sound _ (cf2dEnv_wf blon blat nx hx hy) _ _ hs, Option.bind_some, pointsToPolys_tabulate]
  congr 1
  apply map_some_inj
  unfold cf2dPolys storedCorners
  rw [flatMap_eq_range _ _ nx (by
    intro a ha
    have := List.of_mem_zip ha
    obtain ⟨r1, hr1, e1⟩ := List.mem_map.mp this.1
    obtain ⟨r2, hr2, e2⟩ := List.mem_map.mp this.2
    simp [← e1, ← e2, (hx r1 hr1).1, (hy r2 hr2).1]), List.map_map]
  simp only [List.length_zip, List.length_map, hxl, hyl, Nat.min_self]
  apply List.map_congr_left
  intro n hn
  have hn' : n < ny * nx := by simpa using hn
  obtain ⟨hj, hi⟩ := div_mod_lt ny nx n hn'
  have hm : ∀ k c, k < 4 → c < 2 →
      (ravel [ny * nx, 4, 2] [n, k, c]).bind (unravel [ny, nx, 4, 2]) = some [n / nx, n % nx, k, c] := by
    intro k c hk hc
    exact ravel_unravel_merge ny nx [4, 2] [k, c] n hn' (by simp [InRange, hk, hc])
  have e4 : List.range 4 = [0, 1, 2, 3] := by decide
  simp only [Function.comp, e4, List.map_cons, List.map_nil]
  np_simp [Gen.cf2dPolygonPoints, cf2dEnv, grid3Arr_shape, hxl, hyl, hm, grid3Arr_get blon nx 4 hx,
    grid3Arr_get blat nx 4 hy]
  have hjx : n / nx < blon.length := by omega
  have hjy : n / nx < blat.length := by omega
  have hrx := hx _ (List.getElem_mem hjx)
  have hry := hy _ (List.getElem_mem hjy)
  have hix : n % nx < blon[n / nx].length := by rw [hrx.1]; exact hi
  have hiy : n % nx < blat[n / nx].length := by rw [hry.1]; exact hi
  have hcx := hrx.2 _ (List.getElem_mem hix)
  have hcy := hry.2 _ (List.getElem_mem hiy)
  rw [List.getElem?_eq_getElem (by simp; omega : n / nx < ((List.map (fun row => List.map allSomeL row) blon).zip
    (List.map (fun row => List.map allSomeL row) blat)).length)]
  simp only [List.getElem_zip, List.getElem_map, Option.bind_some]
  rw [List.getElem?_eq_getElem (by simp; omega : n % nx < ((List.map allSomeL blon[n / nx]).zip
    (List.map allSomeL blat[n / nx])).length)]
  simp only [List.getElem_zip, List.getElem_map, Option.map_some, Grid.get, List.getElem?_eq_getElem hjx,
    List.getElem?_eq_getElem hjy, List.getElem?_eq_getElem hix, List.getElem?_eq_getElem hiy, Option.bind_some]
  generalize blon[n / nx][n % nx] = cx at hcx
  generalize blat[n / nx][n % nx] = cy at hcy
  match cx, hcx, cy, hcy with
  | [a0, a1, a2, a3], _, [b0, b1, b2, b3], _ =>
    cases a0 <;> cases a1 <;> cases a2 <;> cases a3 <;> cases b0 <;> cases b1 <;> cases b2 <;> cases b3 <;> rfl

/-! ### derived bounds of a CF 1-D axis -/

theorem midEnv_wf (vals : List (Option Rat)) : (midEnv vals).WF := by
  intro p hp
  simp only [midEnv, List.mem_cons, List.not_mem_nil, or_false] at hp
  subst hp
  exact vecArr_wf _

theorem mid_shape (vals : List Rat) (m : Nat) (hlen : vals.length = m + 2) :
    shapeOf (midEnv (vals.map some)) Gen.cf1dMidBounds = some [m + 2, 2] := by
  np_simp [Gen.cf1dMidBounds, midEnv, vecArr_shape, Nat.min_def, hlen]

theorem avg_getElem' : ∀ (l : List Rat) (t : Nat), t + 1 < l.length →
    ((l.zip (l.drop 1)).map (fun p => (p.2 + p.1) / 2))[t]? = some ((l.getD (t + 1) 0 + l.getD t 0) / 2)
  | [], t, h => by simp at h
  | [_], t, h => by simp at h
  | a :: b :: r, 0, _ => by simp
  | a :: b :: r, t + 1, h => by
    have ih := avg_getElem' (b :: r) t (by simpa using h)
    simpa using ih

/-- the cell edges `midBounds` pairs up: first, interior, last (`v k` is the `k`-th coordinate value) -/
theorem midBounds_edges (vals : List Rat) (m : Nat) (hlen : vals.length = m + 2)
    (v : Nat → Rat) (hv : ∀ k, k < m + 2 → vals[k]? = some (v k)) :
    ∃ E : List Rat, midBounds vals = some (E.zip (E.drop 1)) ∧ E.length = m + 3 ∧
      E[0]? = some (v 0 - (v 1 - v 0) / 2) ∧
      (∀ t, t < m + 1 → E[t + 1]? = some ((v (t + 1) + v t) / 2)) ∧
      E[m + 2]? = some (v (m + 1) + (v (m + 1) - v m) / 2) := by
  have hg : ∀ k, k < m + 2 → vals.getD k 0 = v k := by
    intro k hk
    rw [List.getD_eq_getElem?_getD, hv k hk]; rfl
  match vals, hlen, hv, hg with
  | v0 :: v1 :: rest, hlen, hv, hg =>
    simp only [List.length_cons] at hlen
    have hr : rest.length = m := by omega
    have h0 : v0 = v 0 := by simpa using hv 0 (by omega)
    have h1 : v1 = v 1 := by simpa using hv 1 (by omega)
    refine ⟨_, rfl, ?_, ?_, ?_, ?_⟩
    · simp [hr]
    · simp [h0, h1]
    · intro t ht
      rw [List.getElem?_append_left (by simp; omega)]
      show (((v0 :: v1 :: rest).zip ((v0 :: v1 :: rest).drop 1)).map (fun p => (p.2 + p.1) / 2))[t]? = _
      rw [avg_getElem' (v0 :: v1 :: rest) t (by simp; omega), hg (t + 1) (by omega), hg t (by omega)]
    · rw [List.getElem?_append_right (by simp; omega)]
      have e1 : (v0 :: v1 :: rest).length - 1 = m + 1 := by simp; omega
      have e2 : (v0 :: v1 :: rest).length - 2 = m := by simp; omega
      simp only [e1, e2, hg (m + 1) (by omega), hg m (by omega)]
      simp [hr]

theorem cf1d_midbounds_pipeline_aux (vals : List Rat) (m : Nat) (hlen : vals.length = m + 2)
    (v : Nat → Rat) (hv : ∀ k, k < m + 2 → vals[k]? = some (v k)) :
    eval (midEnv (vals.map some)) Gen.cf1dMidBounds = (midBounds vals).map pairsArr := by
  obtain ⟨E, hE, hEl, hE0, hEmid, hElast⟩ := midBounds_edges vals m hlen v hv
  rw [eval_sound _ (midEnv_wf _) _ _ (mid_shape vals m hlen), hE, Option.map_some]
  congr 1
  have hbl : (E.zip (E.drop 1)).length = m + 2 := by simp [hEl]
  have hb : ∀ i, i < m + 2 → (E.zip (E.drop 1))[i]? = (E[i]?).bind fun a => (E[i + 1]?).map fun b => (a, b) := by
    intro i hi
    rw [List.getElem?_eq_getElem (by omega)]
    simp [List.getElem?_eq_getElem (by omega : i < E.length),
      List.getElem?_eq_getElem (by omega : i + 1 < E.length)]
  have hv' : ∀ k (h : k < vals.length), vals[k] = v k := by
    intro k h
    have := hv k (by omega)
    rw [List.getElem?_eq_getElem h] at this
    exact Option.some.inj this
  apply NpArr.ext
  · rw [tabulate_shape, pairsArr_shape, hbl]
  · exact tabulate_wf _ _
  · exact pairsArr_wf _
  · intro idx hidx
    have hidx' : InRange [m + 2, 2] idx := hidx
    rw [get_tabulate _ _ _ hidx']
    match idx, hidx' with
    | [i, c], hr =>
      have hi : i < m + 2 := hr.1
      have hc : c < 2 := hr.2.1
      rcases (by omega : c = 0 ∨ c = 1) with rfl | rfl
      · rw [pairsArr_get0, hb i hi]
        rcases Nat.eq_zero_or_pos i with rfl | hpos
        · np_simp [Gen.cf1dMidBounds, midEnv, vecArr_shape, Nat.min_def, vecArr_get, hlen, join_map_some, hv',
            hv 0 (by omega), hv 1 (by omega), hE0, hEmid 0 (by omega)]
        · obtain ⟨t, rfl⟩ : ∃ t, i = t + 1 := ⟨i - 1, by omega⟩
          have ht : t < m + 1 := by omega
          have hE2 : ∃ y, E[t + 1 + 1]? = some y := ⟨_, List.getElem?_eq_getElem (by omega)⟩
          obtain ⟨y, hy⟩ := hE2
          np_simp [Gen.cf1dMidBounds, midEnv, vecArr_shape, Nat.min_def, vecArr_get, hlen, join_map_some, hv', ht,
            hv t (by omega), hv (1 + t) (by omega), hEmid t ht, hy, Nat.add_comm 1 t]
      · rw [pairsArr_get1, hb i hi]
        have hE1 : ∃ y, E[i]? = some y := ⟨_, List.getElem?_eq_getElem (by omega)⟩
        obtain ⟨y, hy⟩ := hE1
        rcases Nat.lt_or_ge i (m + 1) with ht | hge
        · np_simp [Gen.cf1dMidBounds, midEnv, vecArr_shape, Nat.min_def, vecArr_get, hlen, join_map_some, hv', ht,
            hv i (by omega), hv (1 + i) (by omega), hEmid i ht, hy, Nat.add_comm 1 i]
        · have : i = m + 1 := by omega
          subst this
          np_simp [Gen.cf1dMidBounds, midEnv, vecArr_shape, Nat.min_def, vecArr_get, hlen, join_map_some, hv',
            hv m (by omega), hv (m + 1) (by omega), hElast, hy]

/-- **the derived-bounds branch of `CFGrid1DTopology._get_or_make_bounds` as the source has it** computes
`midBounds` -/
theorem cf1d_midbounds_pipeline (vals : List Rat) (h : 2 ≤ vals.length) :
    eval (midEnv (vals.map some)) Gen.cf1dMidBounds = (midBounds vals).map pairsArr := by
  obtain ⟨m, hlen⟩ : ∃ m, vals.length = m + 2 := ⟨vals.length - 2, by omega⟩
  exact cf1d_midbounds_pipeline_aux vals m hlen (fun k => vals.getD k 0) (by
    intro k hk
    simp [List.getElem?_eq_getElem (by omega : k < vals.length)])

end Ems
