import EmsModel.Core.NDArray
import EmsModel.Lemmas.Shape
/-! Lemmas about named N-d arrays: reading a tabulated array, transposition. Core Lean only. -/
namespace Ems

theorem allSome_map_some {β : Type} (l : List β) : allSome (l.map some) = some l := by
  induction l with
  | nil => rfl
  | cons x xs ih => simp [allSome, ih]

theorem allSome_eq_some {β : Type} : ∀ (l : List (Option β)) (r : List β),
    allSome l = some r → l = r.map some
  | [], r, h => by simp [allSome] at h; subst h; rfl
  | none :: _, r, h => by simp [allSome] at h
  | some x :: xs, r, h => by
    simp only [allSome] at h
    cases hx : allSome xs with
    | none => simp [hx] at h
    | some r' =>
      simp [hx] at h; subst h
      simp [allSome_eq_some xs r' hx]

theorem allSome_length {β : Type} (l : List (Option β)) (r : List β) (h : allSome l = some r) :
    r.length = l.length := by
  have := allSome_eq_some l r h
  simp [this]

/-- looking a name up in `names.zip idx` -/
theorem lookup_zip_of_mem : ∀ (names : List String) (idx : List Nat), names.length = idx.length →
    ∀ d, d ∈ names → ∃ v, List.lookup d (names.zip idx) = some v
  | [], _, _, d, hd => by simp at hd
  | n :: ns, [], hl, _, _ => by simp at hl
  | n :: ns, i :: is, hl, d, hd => by
    simp only [List.zip_cons_cons, List.lookup_cons]
    by_cases h : d = n
    · subst h; exact ⟨i, by simp⟩
    · have hd' : d ∈ ns := by
        rcases List.mem_cons.mp hd with h' | h'
        · exact absurd h' h
        · exact h'
      obtain ⟨v, hv⟩ := lookup_zip_of_mem ns is (by simpa using hl) d hd'
      have hb : (d == n) = false := by simp [h]
      exact ⟨v, by simp [hb, hv]⟩

/-- an environment built by zipping distinct names with an index list reads back that list -/
theorem index_zip : ∀ (names : List String) (idx : List Nat), names.Nodup → names.length = idx.length →
    Env.index (names.zip idx) names = some idx
  | [], [], _, _ => rfl
  | [], _ :: _, _, hl => by simp at hl
  | _ :: _, [], _, hl => by simp at hl
  | n :: ns, i :: is, hn, hl => by
    have hn' := List.nodup_cons.mp hn
    have ih := index_zip ns is hn'.2 (by simpa using hl)
    simp only [Env.index, List.map_cons, Env.get, List.zip_cons_cons, List.lookup_cons, beq_self_eq_true,
      allSome]
    have : (ns.map (Env.get ((n, i) :: ns.zip is))) = ns.map (Env.get (ns.zip is)) := by
      apply List.map_congr_left
      intro d hd
      have hne : d ≠ n := fun h => hn'.1 (h ▸ hd)
      have hb : (d == n) = false := by simp [hne]
      simp [Env.get, List.lookup_cons, hb]
    simp only [Env.index] at ih
    rw [this, ih]; rfl

namespace NArr
variable {α : Type}

theorem ofFn_dims [Inhabited α] (dims : List Dim) (f : Env → Option α) : (ofFn dims f).dims = dims := rfl

theorem ofFn_length [Inhabited α] (dims : List Dim) (f : Env → Option α) :
    (ofFn dims f).data.length = size (dims.map (·.2)) := by simp [ofFn]

/-- Reading a tabulated array at an in-range environment gives the tabulated function's value
at the canonical environment `names.zip idx`. -/
theorem get_ofFn [Inhabited α] (dims : List Dim) (f : Env → Option α) (e : Env) (idx : List Nat)
    (hidx : e.index (dims.map (·.1)) = some idx) (hr : InRange (dims.map (·.2)) idx) :
    (ofFn dims f).get? e = some ((f ((dims.map (·.1)).zip idx)).getD default) := by
  obtain ⟨n, hn⟩ := inRange_ravel _ _ hr
  have hlt := ravel_lt_size _ _ _ hn
  have hun := unravel_of_ravel _ _ _ hn
  simp only [get?, names, shape, ofFn_dims, hidx, hn]
  simp [ofFn, hlt, hun]

end NArr
end Ems

namespace Ems

theorem index_of_fun (e : Env) (v : String → Nat) : ∀ (names : List String),
    (∀ d ∈ names, e.get d = some (v d)) → e.index names = some (names.map v)
  | [], _ => rfl
  | n :: ns, h => by
    have h1 := h n (by simp)
    have ih := index_of_fun e v ns (fun d hd => h d (by simp [hd]))
    simp only [Env.index] at ih
    simp [Env.index, allSome, h1, ih]

theorem inRange_map (v : String → Nat) : ∀ (dims : List Dim),
    (∀ d ∈ dims, v d.1 < d.2) → InRange (dims.map (·.2)) ((dims.map (·.1)).map v)
  | [], _ => trivial
  | d :: ds, h => by
    simp only [List.map_cons, InRange]
    exact ⟨h d (by simp), inRange_map v ds (fun d' hd' => h d' (by simp [hd']))⟩

theorem lookup_zip_map (v : String → Nat) : ∀ (names : List String), names.Nodup →
    ∀ d ∈ names, List.lookup d (names.zip (names.map v)) = some (v d)
  | [], _, d, hd => by simp at hd
  | n :: ns, hn, d, hd => by
    have hn' := List.nodup_cons.mp hn
    simp only [List.map_cons, List.zip_cons_cons, List.lookup_cons]
    by_cases h : d = n
    · subst h; simp
    · have hb : (d == n) = false := by simp [h]
      have hd' : d ∈ ns := by
        rcases List.mem_cons.mp hd with h' | h'
        · exact absurd h' h
        · exact h'
      simp [hb, lookup_zip_map v ns hn'.2 d hd']

/-- `lookup` in a list of dims with distinct names finds exactly the listed size -/
theorem lookup_dims : ∀ (dims : List Dim), (dims.map (·.1)).Nodup → ∀ d ∈ dims,
    List.lookup d.1 dims = some d.2
  | [], _, d, hd => by simp at hd
  | (xn, xsz) :: xs, hn, d, hd => by
    have hn' : xn ∉ xs.map (·.1) ∧ (xs.map (·.1)).Nodup := List.nodup_cons.mp hn
    simp only [List.lookup_cons]
    rcases List.mem_cons.mp hd with h | h
    · subst h; simp
    · have : d.1 ≠ xn := by
        intro heq
        apply hn'.1
        rw [← heq]
        exact List.mem_map_of_mem h
      have hb : (d.1 == xn) = false := by simp [this]
      simp [hb, lookup_dims xs hn'.2 d h]

theorem filterMap_lookup_self : ∀ (dims : List Dim), (dims.map (·.1)).Nodup →
    ∀ (all : List Dim), (∀ d ∈ dims, List.lookup d.1 all = some d.2) →
    (dims.map (·.1)).filterMap (fun d => (List.lookup d all).map fun s => (d, s)) = dims
  | [], _, _, _ => rfl
  | x :: xs, hn, all, h => by
    have hn' : x.1 ∉ xs.map (·.1) ∧ (xs.map (·.1)).Nodup := List.nodup_cons.mp hn
    have hx := h x (by simp)
    simp only [List.map_cons, List.filterMap_cons, hx, Option.map_some]
    rw [filterMap_lookup_self xs hn'.2 all (fun d hd => h d (by simp [hd]))]

namespace NArr
variable {α : Type}

/-- Reading a well-formed array at an environment that assigns an in-range index to each of
its dimensions succeeds. -/
theorem get_isSome (a : NArr α) (e : Env) (v : String → Nat) (hwf : a.WF)
    (hv : ∀ d ∈ a.dims, e.get d.1 = some (v d.1) ∧ v d.1 < d.2) :
    ∃ x, a.get? e = some x := by
  have hidx : e.index a.names = some (a.names.map v) :=
    index_of_fun e v a.names (by
      intro d hd
      obtain ⟨d', hd', rfl⟩ := List.mem_map.mp hd
      exact (hv d' hd').1)
  have hr : InRange a.shape (a.names.map v) := inRange_map v a.dims (fun d hd => (hv d hd).2)
  obtain ⟨n, hn⟩ := inRange_ravel _ _ hr
  have hlt := ravel_lt_size _ _ _ hn
  rw [← hwf.1] at hlt
  exact ⟨a.data[n], by simp [get?, hidx, hn, hlt]⟩

/-- Re-tabulating an array over any reordering of its dimensions preserves every read:
values are only moved, never altered. -/
theorem get_reorder [Inhabited α] (a : NArr α) (dims' : List Dim) (e : Env) (v : String → Nat)
    (hwf : a.WF) (hperm : dims'.Perm a.dims)
    (hv : ∀ d ∈ a.dims, e.get d.1 = some (v d.1) ∧ v d.1 < d.2) :
    (ofFn dims' a.get?).get? e = a.get? e := by
  have hv' : ∀ d ∈ dims', e.get d.1 = some (v d.1) ∧ v d.1 < d.2 :=
    fun d hd => hv d (hperm.mem_iff.mp hd)
  have hnames' : (dims'.map (·.1)).Nodup := (hperm.map (fun d : Dim => d.1)).nodup_iff.mpr hwf.2
  have hidx : e.index (dims'.map (·.1)) = some ((dims'.map (·.1)).map v) :=
    index_of_fun e v _ (by
      intro d hd
      obtain ⟨d', hd', rfl⟩ := List.mem_map.mp hd
      exact (hv' d' hd').1)
  have hr := inRange_map v dims' (fun d hd => (hv' d hd).2)
  rw [get_ofFn dims' a.get? e _ hidx hr]
  -- the canonical environment agrees with `e` on every dimension of `a`
  have hcanon : ∀ d ∈ a.dims,
      Env.get ((dims'.map (·.1)).zip ((dims'.map (·.1)).map v)) d.1 = some (v d.1) ∧ v d.1 < d.2 := by
    intro d hd
    refine ⟨?_, (hv d hd).2⟩
    apply lookup_zip_map v _ hnames'
    exact List.mem_map_of_mem (hperm.mem_iff.mpr hd)
  -- both reads hit the same flat position
  have h1 : Env.index ((dims'.map (·.1)).zip ((dims'.map (·.1)).map v)) a.names = some (a.names.map v) :=
    index_of_fun _ v a.names (by
      intro d hd
      obtain ⟨d', hd', rfl⟩ := List.mem_map.mp hd
      exact (hcanon d' hd').1)
  have h2 : e.index a.names = some (a.names.map v) :=
    index_of_fun e v a.names (by
      intro d hd
      obtain ⟨d', hd', rfl⟩ := List.mem_map.mp hd
      exact (hv d' hd').1)
  obtain ⟨x, hx⟩ := get_isSome a e v hwf hv
  have : a.get? ((dims'.map (·.1)).zip ((dims'.map (·.1)).map v)) = a.get? e := by
    simp only [get?, h1, h2]
  rw [this, hx]; rfl

/-- the dims of a transposition to a permutation of the array's own names -/
theorem transposeTo_dims_perm [Inhabited α] (a : NArr α) (order : List String)
    (hwf : a.WF) (hperm : order.Perm a.names) :
    (a.transposeTo order).dims.Perm a.dims := by
  simp only [transposeTo, ofFn_dims]
  have h1 := hperm.filterMap (fun d => (List.lookup d a.dims).map fun s => (d, s))
  have h2 : a.names.filterMap (fun d => (List.lookup d a.dims).map fun s => (d, s)) = a.dims :=
    filterMap_lookup_self a.dims hwf.2 a.dims (fun d hd => lookup_dims a.dims hwf.2 d hd)
  rw [h2] at h1
  exact h1

/-- `transpose` moves values without altering them. -/
theorem transposeTo_get [Inhabited α] (a : NArr α) (order : List String) (e : Env) (v : String → Nat)
    (hwf : a.WF) (hperm : order.Perm a.names)
    (hv : ∀ d ∈ a.dims, e.get d.1 = some (v d.1) ∧ v d.1 < d.2) :
    (a.transposeTo order).get? e = a.get? e :=
  get_reorder a _ e v hwf (transposeTo_dims_perm a order hwf hperm) hv

theorem transposeTo_wf [Inhabited α] (a : NArr α) (order : List String)
    (hwf : a.WF) (hperm : order.Perm a.names) : (a.transposeTo order).WF := by
  have hp := transposeTo_dims_perm a order hwf hperm
  refine ⟨?_, ?_⟩
  · simp [transposeTo, ofFn, shape]
  · exact ((hp.map (fun d : Dim => d.1)).nodup_iff).mpr hwf.2

end NArr
end Ems
