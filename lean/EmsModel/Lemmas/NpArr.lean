import EmsModel.Core.NpExpr
import EmsModel.Lemmas.Shape
import EmsModel.Lemmas.Ravel
/-!
Lemmas/NpArr.lean — positional arrays in C order: reading a tabulated array, extensionality, and the
index lemmas behind every operation of `Core/NpExpr.lean` (for arbitrary shapes).  Core Lean only.
-/
namespace Ems

/-! ### in-range multi-indexes -/

theorem inRange_iff : ∀ (s idx : List Nat),
    InRange s idx ↔ idx.length = s.length ∧ ∀ k, k < s.length → idx.getD k 0 < s.getD k 0
  | [], [] => by simp [InRange]
  | [], _ :: _ => by simp [InRange]
  | _ :: _, [] => by simp [InRange]
  | d :: ds, i :: is => by
    simp only [InRange, inRange_iff ds is, List.length_cons, Nat.add_right_cancel_iff]
    constructor
    · rintro ⟨hi, hl, h⟩
      refine ⟨hl, ?_⟩
      intro k hk
      cases k with
      | zero => simpa using hi
      | succ k => simpa using h k (by omega)
    · rintro ⟨hl, h⟩
      refine ⟨by simpa using h 0 (by omega), hl, ?_⟩
      intro k hk
      simpa using h (k + 1) (by omega)

theorem inRange_drop : ∀ (m : Nat) (s idx : List Nat), InRange s idx → InRange (s.drop m) (idx.drop m)
  | 0, _, _, h => by simpa using h
  | _ + 1, [], [], _ => by simp [InRange]
  | _ + 1, [], _ :: _, h => by simp [InRange] at h
  | _ + 1, _ :: _, [], h => by simp [InRange] at h
  | m + 1, _ :: ds, _ :: is, h => by
    simpa using inRange_drop m ds is h.2

theorem size_pos_of_inRange : ∀ (s idx : List Nat), InRange s idx → 0 < size s
  | [], [], _ => by simp [size]
  | [], _ :: _, h => by simp [InRange] at h
  | _ :: _, [], h => by simp [InRange] at h
  | d :: ds, i :: is, h => by
    have := size_pos_of_inRange ds is h.2
    simp only [size]
    exact Nat.mul_pos (by have := h.1; omega) this

/-! ### reading arrays -/

namespace NpArr

theorem tabulate_shape (s : List Nat) (f : List Nat → Option Rat) : (tabulate s f).shape = s := rfl

theorem tabulate_wf (s : List Nat) (f : List Nat → Option Rat) : (tabulate s f).WF := by
  simp [WF, tabulate]

/-- reading a tabulated array gives the tabulated function back -/
theorem get_tabulate (s : List Nat) (f : List Nat → Option Rat) (idx : List Nat) (h : InRange s idx) :
    (tabulate s f).get idx = f idx := by
  obtain ⟨n, hn⟩ := inRange_ravel s idx h
  have hlt := ravel_lt_size s idx n hn
  have hu := unravel_of_ravel s idx n hn
  simp [get, tabulate, hn, hlt, hu]

/-- out of range reads as missing -/
theorem get_of_not_inRange (a : NpArr) (idx : List Nat) (h : ¬ InRange a.shape idx) : a.get idx = none := by
  simp [get, ravel_none_of_not_inRange _ _ h]

/-- what `get` reads: position `ravel shape idx` of the C-order data -/
theorem get_eq_data (a : NpArr) (idx : List Nat) (n : Nat) (h : ravel a.shape idx = some n) :
    a.get idx = (a.data[n]?).join := by
  simp [get, h]

/-- two arrays of one shape with the same elements are the same array -/
theorem ext (a b : NpArr) (hs : a.shape = b.shape) (ha : a.WF) (hb : b.WF)
    (h : ∀ idx, InRange a.shape idx → a.get idx = b.get idx) : a = b := by
  cases a with
  | mk sa da =>
  cases b with
  | mk sb db =>
  simp only at hs
  subst hs
  simp only [WF] at ha hb
  congr 1
  apply List.ext_getElem (by omega)
  intro n h1 h2
  have hn : n < size sa := by omega
  obtain ⟨idx, hidx⟩ := unravel_isSome_of_lt sa n hn
  have hr := ravel_of_unravel sa n idx hidx
  have := h idx (ravel_inRange sa idx n hr)
  simpa [get, hr, List.getElem?_eq_getElem h1, List.getElem?_eq_getElem h2] using this

theorem tabulate_congr (s : List Nat) (f g : List Nat → Option Rat)
    (h : ∀ idx, InRange s idx → f idx = g idx) : tabulate s f = tabulate s g := by
  apply ext (tabulate s f) (tabulate s g) rfl (tabulate_wf _ _) (tabulate_wf _ _)
  intro idx hidx
  have hidx' : InRange s idx := hidx
  rw [get_tabulate _ _ _ hidx', get_tabulate _ _ _ hidx']
  exact h idx hidx'

theorem eq_tabulate (a : NpArr) (h : a.WF) : a = tabulate a.shape a.get := by
  apply ext a (tabulate a.shape a.get) rfl h (tabulate_wf _ _)
  intro idx hidx
  rw [get_tabulate _ _ _ hidx]

end NpArr

open NpArr

/-! ### `stack`, `expand_dims`: an axis inserted at position `k` -/

theorem inRange_insertAt : ∀ (k n : Nat) (s idx : List Nat), k ≤ s.length → InRange (insertAt k n s) idx →
    InRange s (removeAt k idx) ∧ idx.getD k 0 < n
  | 0, n, s, [], _, h => by simp [insertAt, InRange] at h
  | 0, n, s, i :: is, _, h => by
    simp only [insertAt, InRange] at h
    simpa [removeAt] using ⟨h.2, h.1⟩
  | k + 1, n, [], _, hk, _ => by simp at hk
  | k + 1, n, x :: l, [], _, h => by simp [insertAt, InRange] at h
  | k + 1, n, x :: l, i :: is, hk, h => by
    simp only [insertAt, InRange] at h
    have ih := inRange_insertAt k n l is (by simpa using hk) h.2
    simpa [removeAt, InRange] using ⟨⟨h.1, ih.1⟩, ih.2⟩

theorem insertAt_length : ∀ (k n : Nat) (s : List Nat), (insertAt k n s).length = s.length + 1
  | 0, _, _ => by simp [insertAt]
  | _ + 1, _, [] => by simp [insertAt]
  | k + 1, n, _ :: l => by simp [insertAt, insertAt_length k n l]

theorem Axis.norm_lt (ax : Axis) (rank k : Nat) (h : ax.norm rank = some k) : k < rank := by
  cases ax with
  | pos n =>
    simp only [Axis.norm] at h
    split at h
    · simp at h; omega
    · simp at h
  | neg n =>
    simp only [Axis.norm] at h
    split at h
    · simp at h; omega
    · simp at h

/-! ### `broadcast_to` -/

theorem inRange_bcastIdx : ∀ (s t idx : List Nat), bcastOk s t = true → InRange t idx → InRange s (bcastIdx s idx)
  | [], [], [], _, _ => by simp [bcastIdx, InRange]
  | [], [], _ :: _, _, h => by simp [InRange] at h
  | [], _ :: _, _, h, _ => by simp [bcastOk] at h
  | _ :: _, [], _, h, _ => by simp [bcastOk] at h
  | _ :: _, _ :: _, [], _, h => by simp [InRange] at h
  | d :: ds, e :: es, i :: is, hok, h => by
    simp only [bcastOk, Bool.and_eq_true, Bool.or_eq_true, beq_iff_eq] at hok
    simp only [InRange] at h
    have ih := inRange_bcastIdx ds es is hok.2 h.2
    simp only [bcastIdx, InRange]
    refine ⟨?_, ih⟩
    apply Nat.mod_lt
    rcases hok.1 with rfl | rfl
    · omega
    · omega

/-! ### `transpose` -/

theorem getD_map_range (n a : Nat) (f : Nat → Nat) (h : a < n) : ((List.range n).map f).getD a 0 = f a := by
  simp [List.getD_eq_getElem?_getD, h]

theorem inRange_transposeIdx (s perm idx : List Nat) (hp : permOk perm s.length = true)
    (h : InRange (perm.map fun a => s.getD a 0) idx) : InRange s (transposeIdx perm idx) := by
  simp only [permOk, Bool.and_eq_true, beq_iff_eq, List.all_eq_true, List.mem_range,
    List.contains_iff_mem] at hp
  obtain ⟨hlen, hall⟩ := hp
  rw [inRange_iff] at h ⊢
  simp only [List.length_map] at h
  refine ⟨by simp [transposeIdx, hlen], ?_⟩
  intro a ha
  have hmem := hall a ha
  have hp : perm.idxOf a < perm.length := List.idxOf_lt_length_of_mem hmem
  have := h.2 _ hp
  rw [transposeIdx, hlen, getD_map_range _ _ _ ha]
  have e : (List.map (fun a => s.getD a 0) perm).getD (List.idxOf a perm) 0 = s.getD a 0 := by
    simp [List.getD_eq_getElem?_getD, List.getElem?_eq_getElem hp]
  rw [e] at this
  exact this

/-! ### subscripts -/

theorem Bound.resolve_le (b : Bound) (d : Nat) : b.resolve d d ≤ d := by
  cases b <;> simp [Bound.resolve] <;> omega

theorem inRange_sliceIdx : ∀ (ix : List SliceTerm) (s s' idx : List Nat), sliceShape ix s = some s' →
    InRange s' idx → InRange s (sliceIdx ix s idx)
  | [], s, s', idx, h, hr => by
    simp only [sliceShape, Option.some.injEq] at h
    subst h
    simpa [sliceIdx] using hr
  | _ :: _, [], _, _, h, _ => by simp [sliceShape] at h
  | .idx i :: ts, d :: s, s', idx, h, hr => by
    simp only [sliceShape] at h
    split at h
    · rename_i hi
      exact ⟨hi, inRange_sliceIdx ts s s' idx h hr⟩
    · simp at h
  | .idxEnd k :: ts, d :: s, s', idx, h, hr => by
    simp only [sliceShape] at h
    split at h
    · rename_i hk
      exact ⟨by omega, inRange_sliceIdx ts s s' idx h hr⟩
    · simp at h
  | .range a b :: ts, d :: s, s', idx, h, hr => by
    simp only [sliceShape, Option.map_eq_some_iff] at h
    obtain ⟨r, hr', rfl⟩ := h
    cases idx with
    | nil => simp [InRange] at hr
    | cons i is =>
      simp only [InRange] at hr
      have := Bound.resolve_le b d
      exact ⟨by omega, inRange_sliceIdx ts s r is hr' hr.2⟩

/-! ### `pad`, boolean-mask assignment, reductions along an axis -/

theorem padShape_length : ∀ (ws : List (Nat × Nat)) (s : List Nat), ws.length = s.length →
    (padShape ws s).length = s.length
  | [], [], _ => rfl
  | [], _ :: _, h => by simp at h
  | _ :: _, [], h => by simp at h
  | _ :: ws, _ :: s, h => by simp [padShape, padShape_length ws s (by simpa using h)]

/-- an element of a padded array that `padIn` places inside the original is read at an in-range index -/
theorem inRange_padSrc : ∀ (ws : List (Nat × Nat)) (s idx : List Nat), ws.length = s.length →
    InRange (padShape ws s) idx → padIn ws s idx = true → InRange s (padSrc ws idx)
  | [], [], [], _, _, _ => by simp [padSrc, InRange]
  | [], [], _ :: _, _, h, _ => by simp [padShape, InRange] at h
  | [], _ :: _, _, h, _, _ => by simp at h
  | _ :: _, [], _, h, _, _ => by simp at h
  | _ :: _, _ :: _, [], _, h, _ => by simp [padShape, InRange] at h
  | w :: ws, d :: s, i :: idx, hl, h, hin => by
    simp only [padShape, InRange] at h
    simp only [padIn, Bool.and_eq_true, decide_eq_true_eq] at hin
    simp only [padSrc, InRange]
    exact ⟨by omega, inRange_padSrc ws s idx (by simpa using hl) h.2 hin.2.2⟩

theorem inRange_take : ∀ (k : Nat) (s idx : List Nat), InRange s idx → InRange (s.take k) (idx.take k)
  | 0, _, _, _ => by simp [InRange]
  | _ + 1, [], [], _ => by simp [InRange]
  | _ + 1, [], _ :: _, h => by simp [InRange] at h
  | _ + 1, _ :: _, [], h => by simp [InRange] at h
  | k + 1, _ :: s, _ :: idx, h => by
    simp only [List.take_succ_cons, InRange]
    exact ⟨h.1, inRange_take k s idx h.2⟩

/-- putting `t` back at position `k` of an index of the reduced array gives an index of the operand -/
theorem inRange_insertAt_of_removeAt : ∀ (k t : Nat) (s idx : List Nat), k < s.length →
    InRange (removeAt k s) idx → t < s.getD k 0 → InRange s (insertAt k t idx)
  | _, _, [], _, hk, _, _ => by simp at hk
  | 0, t, d :: s, idx, _, h, ht => by
    simp only [removeAt] at h
    simp only [insertAt, InRange]
    exact ⟨by simpa using ht, h⟩
  | k + 1, t, d :: s, [], hk, h, _ => by
    cases s with
    | nil => simp at hk
    | cons e s => simp [removeAt, InRange] at h
  | k + 1, t, d :: s, i :: idx, hk, h, ht => by
    simp only [removeAt, InRange] at h
    simp only [insertAt, InRange]
    exact ⟨h.1, inRange_insertAt_of_removeAt k t s idx (by simpa using hk) h.2 (by simpa using ht)⟩

/-! ### `reshape`: the data stays, the shape changes -/

/-- element `idx` of a reshaped array is the element of the original with the same C-order position -/
theorem reshape_get (a : NpArr) (s' idx i : List Nat) (n : Nat)
    (h1 : ravel s' idx = some n) (h2 : unravel a.shape n = some i) :
    ({ shape := s', data := a.data } : NpArr).get idx = a.get i := by
  simp [NpArr.get, h1, ravel_of_unravel _ _ _ h2]

/-- merging the two leading axes, `(a, b, …) → (a*b, …)`: row `n` of the result is row `(n / b, n % b)` -/
theorem ravel_unravel_merge (a b : Nat) (rest r : List Nat) (n : Nat) (hn : n < a * b) (hr : InRange rest r) :
    (ravel (a * b :: rest) (n :: r)).bind (unravel (a :: b :: rest)) = some (n / b :: n % b :: r) := by
  have hb : 0 < b := by
    rcases Nat.eq_zero_or_pos b with h | h
    · subst h; simp at hn
    · exact h
  obtain ⟨m, hm⟩ := inRange_ravel rest r hr
  have h1 : ravel (a * b :: rest) (n :: r) = some (n * size rest + m) := by
    simp [ravel, hn, hm]
  have hdiv : n / b < a := by
    apply Nat.div_lt_of_lt_mul
    rw [Nat.mul_comm]; exact hn
  have h2 : ravel (a :: b :: rest) (n / b :: n % b :: r) = some (n * size rest + m) := by
    simp only [ravel, hdiv, Nat.mod_lt _ hb, if_true, hm, Option.map_some, size]
    congr 1
    rw [← Nat.mul_assoc, ← Nat.add_assoc, ← Nat.add_mul, Nat.mul_comm (n / b) b, Nat.div_add_mod]
  rw [h1, Option.bind_some]
  exact unravel_of_ravel _ _ _ h2

/-! ### the generic `get` lemmas: element `idx` of the result of each operation, in terms of the operands
(arbitrary arrays, arbitrary shapes) -/

/-- `numpy.stack(xs, axis=k)[idx] = xs[idx[k]][idx without position k]` -/
theorem stackArr_get (x : NpArr) (rest : List NpArr) (ax : Axis) (k : Nat)
    (hall : ∀ y ∈ x :: rest, y.shape = x.shape) (hk : ax.norm (x.shape.length + 1) = some k) :
    ∃ r, stackArr (x :: rest) ax = some r ∧ r.shape = insertAt k (rest.length + 1) x.shape ∧ r.WF ∧
      ∀ idx, InRange r.shape idx →
        idx.getD k 0 < rest.length + 1 ∧ InRange x.shape (removeAt k idx) ∧
        r.get idx = ((x :: rest)[idx.getD k 0]?).bind fun y => y.get (removeAt k idx) := by
  have hall' : ((x :: rest).all fun y => y.shape == x.shape) = true := by
    rw [List.all_eq_true]; intro y hy; simpa using hall y hy
  simp only [stackArr, hall', if_true, hk, Option.map_some, List.length_cons]
  refine ⟨_, rfl, rfl, tabulate_wf _ _, ?_⟩
  intro idx hidx
  have hidx' : InRange (insertAt k (rest.length + 1) x.shape) idx := hidx
  have hr := inRange_insertAt k _ x.shape idx (by have := Axis.norm_lt _ _ _ hk; omega) hidx'
  refine ⟨hr.2, hr.1, ?_⟩
  rw [get_tabulate _ _ _ hidx']
  cases (x :: rest)[idx.getD k 0]? <;> rfl

/-- `numpy.expand_dims(x, k)[idx] = x[idx without position k]` -/
theorem expandDimsArr_get (x : NpArr) (ax : Axis) (k : Nat) (hk : ax.norm (x.shape.length + 1) = some k) :
    ∃ r, expandDimsArr x ax = some r ∧ r.shape = insertAt k 1 x.shape ∧ r.WF ∧
      ∀ idx, InRange r.shape idx → InRange x.shape (removeAt k idx) ∧ r.get idx = x.get (removeAt k idx) := by
  simp only [expandDimsArr, hk, Option.map_some]
  refine ⟨_, rfl, rfl, tabulate_wf _ _, ?_⟩
  intro idx hidx
  have hidx' : InRange (insertAt k 1 x.shape) idx := hidx
  exact ⟨(inRange_insertAt k 1 x.shape idx (by have := Axis.norm_lt _ _ _ hk; omega) hidx').1,
    get_tabulate _ _ _ hidx'⟩

/-- `numpy.broadcast_to(x, t)[idx] = x[trailing part of idx, axes of length 1 read at 0]` -/
theorem broadcastArr_get (x : NpArr) (t : List Nat)
    (h : x.shape.length ≤ t.length ∧ bcastOk x.shape (t.drop (t.length - x.shape.length)) = true) :
    ∃ r, broadcastArr x t = some r ∧ r.shape = t ∧ r.WF ∧
      ∀ idx, InRange t idx →
        InRange x.shape (bcastIdx x.shape (idx.drop (t.length - x.shape.length))) ∧
        r.get idx = x.get (bcastIdx x.shape (idx.drop (t.length - x.shape.length))) := by
  simp only [broadcastArr, h, and_self, if_true]
  refine ⟨_, rfl, rfl, tabulate_wf _ _, ?_⟩
  intro idx hidx
  exact ⟨inRange_bcastIdx _ _ _ h.2 (inRange_drop _ _ _ hidx), get_tabulate _ _ _ hidx⟩

/-- `numpy.transpose(x, perm)[idx] = x[src]` with `src[perm[k]] = idx[k]` -/
theorem transposeArr_get (x : NpArr) (perm : List Nat) (h : permOk perm x.shape.length = true) :
    ∃ r, transposeArr x perm = some r ∧ r.shape = (perm.map fun a => x.shape.getD a 0) ∧ r.WF ∧
      ∀ idx, InRange r.shape idx →
        InRange x.shape (transposeIdx perm idx) ∧ r.get idx = x.get (transposeIdx perm idx) := by
  simp only [transposeArr, h, if_true]
  refine ⟨_, rfl, rfl, tabulate_wf _ _, ?_⟩
  intro idx hidx
  have hidx' : InRange (perm.map fun a => x.shape.getD a 0) idx := hidx
  exact ⟨inRange_transposeIdx _ _ _ h hidx', get_tabulate _ _ _ hidx'⟩

/-- `x[ix][idx] = x[fixed indexes inserted, slice starts added]` -/
theorem sliceArr_get (x : NpArr) (ix : List SliceTerm) (s' : List Nat) (h : sliceShape ix x.shape = some s') :
    ∃ r, sliceArr x ix = some r ∧ r.shape = s' ∧ r.WF ∧
      ∀ idx, InRange s' idx →
        InRange x.shape (sliceIdx ix x.shape idx) ∧ r.get idx = x.get (sliceIdx ix x.shape idx) := by
  simp only [sliceArr, h, Option.map_some]
  refine ⟨_, rfl, rfl, tabulate_wf _ _, ?_⟩
  intro idx hidx
  exact ⟨inRange_sliceIdx _ _ _ _ h hidx, get_tabulate _ _ _ hidx⟩

/-- `x.reshape(s')[idx] = x[the index with the same C-order position]`; the data is not touched -/
theorem reshapeArr_get (x : NpArr) (hx : x.WF) (s' : List Nat) (h : size s' = size x.shape) :
    ∃ r, reshapeArr x s' = some r ∧ r.shape = s' ∧ r.data = x.data ∧ r.WF ∧
      ∀ idx, InRange s' idx → ∃ n i, ravel s' idx = some n ∧ unravel x.shape n = some i ∧
        InRange x.shape i ∧ r.get idx = x.get i := by
  simp only [reshapeArr, h, if_true]
  refine ⟨_, rfl, rfl, rfl, by simpa [WF, h] using hx, ?_⟩
  intro idx hidx
  obtain ⟨n, hn⟩ := inRange_ravel s' idx hidx
  have hlt : n < size x.shape := h ▸ ravel_lt_size s' idx n hn
  obtain ⟨i, hi⟩ := unravel_isSome_of_lt x.shape n hlt
  exact ⟨n, i, hn, hi, ravel_inRange _ _ _ (ravel_of_unravel _ _ _ hi), reshape_get x s' idx i n hn hi⟩

/-- merging the two leading axes (`(ny, nx, 4, 2) → (ny * nx, 4, 2)`): row `n` of the result is row `(n / nx, n % nx)` -/
theorem reshapeArr_merge_get (x : NpArr) (a b : Nat) (rest : List Nat) (hs : x.shape = a :: b :: rest)
    (n : Nat) (r : List Nat) (hn : n < a * b) (hr : InRange rest r) :
    ({ shape := a * b :: rest, data := x.data } : NpArr).get (n :: r) = x.get (n / b :: n % b :: r) := by
  have h := ravel_unravel_merge a b rest r n hn hr
  obtain ⟨m, hm⟩ := inRange_ravel rest r hr
  have h1 : ravel (a * b :: rest) (n :: r) = some (n * size rest + m) := by simp [ravel, hn, hm]
  rw [h1, Option.bind_some] at h
  exact reshape_get x _ _ _ _ h1 (hs ▸ h)

/-- `numpy.concatenate(xs)[i :: r]` is row `i - (rows before)` of the piece that holds row `i` -/
theorem concatArr_get (x : NpArr) (rest : List NpArr) (d : Nat) (tl : List Nat) (hx : x.shape = d :: tl)
    (hall : ∀ y ∈ x :: rest, y.shape.drop 1 = tl ∧ y.shape.length = tl.length + 1) :
    ∃ r, concatArr (x :: rest) = some r ∧
      r.shape = (((x :: rest).map fun y => y.shape.headD 0).sum :: tl) ∧ r.WF ∧
      ∀ i idx, InRange r.shape (i :: idx) → r.get (i :: idx) = concatGet (x :: rest) i idx := by
  have hall' : ((x :: rest).all fun y => y.shape.drop 1 == tl && y.shape.length == tl.length + 1) = true := by
    rw [List.all_eq_true]; intro y hy; simpa using hall y hy
  simp only [concatArr, hx, hall', if_true]
  refine ⟨_, rfl, rfl, tabulate_wf _ _, ?_⟩
  intro i idx hidx
  exact get_tabulate _ _ _ hidx

end Ems
