import EmsModel.Lemmas.DepthSpec
/-!
Lemmas/DepthAttach.lean — what the closed form of the normaliser does to each kind of
variable (a coordinate, a plain variable), read by named index.
-/
namespace Ems.Depth

open Ems

theorem Indep.symm {ds : Dataset} {c1 c2 : String} (h : Indep ds c1 c2) : Indep ds c2 c1 := by
  intro cv2 cv1 h2 h1
  obtain ⟨hd, hb1, hb2⟩ := h cv1 cv2 h1 h2
  exact ⟨fun d hd2 hd1 => hd d hd1 hd2, hb2, hb1⟩

/-- the plans of the other coordinates leave coordinate `c` alone -/
theorem untouched_other (ds : Dataset) (pd dts : Option Bool) (c c2 : String) (cv : Var) (d : String)
    (hc : GoodCoord ds c cv d) (hne : c2 ≠ c) (hind : Indep ds c2 c)
    (hg2 : ∃ cv2 d2, GoodCoord ds c2 cv2 d2) :
    Untouched (planFor ds pd dts c2) cv.name cv.dims := by
  obtain ⟨cv2, d2, hc2⟩ := hg2
  obtain ⟨hd, hb1, _⟩ := hind cv2 cv hc2.found hc.found
  have hplan : planFor ds pd dts c2 = planOf cv2 d2 pd dts := by simp [planFor, hc2.found, hc2.dims]
  have hn : cv.name = c := find_name _ _ _ hc.found
  have hn2 : cv2.name = c2 := find_name _ _ _ hc2.found
  rw [hplan]
  refine ⟨?_, ?_, ?_⟩
  · show cv.name ≠ cv2.name
    rw [hn, hn2]; exact fun e => hne e.symm
  · show cv2.bounds ≠ some cv.name
    rw [hn]; exact hb1
  · show d2 ∉ cv.dims
    exact hd d2 (by simp [hc2.dims])

/-- the output dataset of the closed form -/
def normOut (ds : Dataset) (coords : List String) (pd dts : Option Bool) : Dataset :=
  ds.mapVars (applyPlans ds.sz (coords.map (planFor ds pd dts)))

theorem normalize_valid (ds : Dataset) (coords : List String) (pd dts : Option Bool) (h : Valid ds coords) :
    normalize ds coords pd dts = some (normOut ds coords pd dts, coords.flatMap (warnFor ds)) :=
  normalize_eq ds coords pd dts h.ok h.indep

theorem find_normOut (ds : Dataset) (coords : List String) (pd dts : Option Bool) (n : String) :
    (normOut ds coords pd dts).find n
      = (ds.find n).map (applyPlans ds.sz (coords.map (planFor ds pd dts))) :=
  find_mapVars _ _ _ (applyPlans_name _ _)

/-- a coordinate is transformed by its own plan only -/
theorem coord_out (ds : Dataset) (coords : List String) (pd dts : Option Bool) (h : Valid ds coords)
    (c : String) (hc : c ∈ coords) (cv : Var) (d : String) (hg : GoodCoord ds c cv d) :
    (normOut ds coords pd dts).find c = some (applyPlan ds.sz (planOf cv d pd dts) cv) := by
  rw [find_normOut, hg.found, Option.map_some]
  obtain ⟨l1, l2, rfl⟩ := List.append_of_mem hc
  have hpw := h.indep
  rw [List.pairwise_append] at hpw
  obtain ⟨_, hpw2, hcross⟩ := hpw
  rw [List.pairwise_cons] at hpw2
  have hplan : planFor ds pd dts c = planOf cv d pd dts := by simp [planFor, hg.found, hg.dims]
  rw [List.map_append, List.map_cons, hplan, applyPlans_single]
  · intro q hq
    obtain ⟨c2, hc2, rfl⟩ := List.mem_map.mp hq
    obtain ⟨hne, hind⟩ := hcross c2 hc2 c (by simp)
    exact untouched_other ds pd dts c c2 cv d hg hne hind (h.good c2 (by simp [hc2]))
  · intro q hq
    obtain ⟨c2, hc2, rfl⟩ := List.mem_map.mp hq
    obtain ⟨hne, hind⟩ := hpw2.1 c2 hc2
    exact untouched_other ds pd dts c c2 cv d hg (fun e => hne e.symm) hind.symm (h.good c2 (by simp [hc2]))

/-! ### plain variables: only reversed -/

/-- the reversals of a list of plans, in order -/
def revPlans (sz : String → Nat) (ps : List Plan) (v : Var) : Var := ps.foldl (fun v p => stepRev sz p v) v

theorem applyPlan_plain (sz : String → Nat) (p : Plan) (v : Var) (h1 : v.name ≠ p.name)
    (h2 : p.bounds ≠ some v.name) : applyPlan sz p v = stepRev sz p v := by
  have e1 : stepPos p v = v := by simp [stepPos, h1]
  have e2 : stepNeg p v = v := by simp [stepNeg, h1]
  have e3 : stepBnd p v = v := by simp [stepBnd, h2]
  simp [applyPlan, e1, e2, e3]

theorem applyPlans_plain (sz : String → Nat) : ∀ (ps : List Plan) (v : Var),
    (∀ p ∈ ps, v.name ≠ p.name ∧ p.bounds ≠ some v.name) → applyPlans sz ps v = revPlans sz ps v
  | [], _, _ => rfl
  | p :: ps, v, h => by
    simp only [applyPlans, revPlans, List.foldl_cons]
    rw [applyPlan_plain sz p v (h p (by simp)).1 (h p (by simp)).2]
    apply applyPlans_plain sz ps
    intro q hq
    rw [stepRev_name]
    exact h q (by simp [hq])

/-- the re-indexing done by the reversals of a list of plans -/
def sigma (sz : String → Nat) : List Plan → Env → Env
  | [], env => env
  | p :: ps, env => if p.rev = true then flipEnv sz p.dim (sigma sz ps env) else sigma sz ps env

theorem stepRev_wf (sz : String → Nat) (p : Plan) (v : Var) (h : v.WF sz) : (stepRev sz p v).WF sz := by
  unfold stepRev; split
  · exact revVar_wf _ _ _ h
  · exact h

/-- is dimension `x` reversed by one of the plans -/
def reversed (ps : List Plan) (x : String) : Bool := ps.any fun p => p.rev && p.dim == x

/-- `sigma` moves only the reversed dimensions, each to its mirror position -/
theorem sigma_apply (sz : String → Nat) : ∀ (ps : List Plan) (env : Env) (x : String),
    (ps.map (·.dim)).Nodup →
    sigma sz ps env x = if reversed ps x then sz x - 1 - env x else env x
  | [], env, x, _ => by simp [sigma, reversed]
  | p :: ps, env, x, hn => by
    simp only [List.map_cons, List.nodup_cons] at hn
    have ih := sigma_apply sz ps env x hn.2
    have hcons : reversed (p :: ps) x = ((p.rev && p.dim == x) || reversed ps x) := by
      simp [reversed, List.any_cons]
    rw [hcons]
    simp only [sigma]
    by_cases hr : p.rev = true
    · simp only [hr, if_true, flipEnv, upd, Bool.true_and]
      by_cases hx : x = p.dim
      · subst hx
        have hno : reversed ps p.dim = false := by
          simp only [reversed, List.any_eq_false, Bool.and_eq_true, beq_iff_eq, not_and]
          intro q hq _ hqd
          exact hn.1 (hqd ▸ List.mem_map_of_mem (f := (·.dim)) hq)
        have ih' := sigma_apply sz ps env p.dim hn.2
        rw [hno] at ih'
        simp [ih']
      · have : (p.dim == x) = false := by simp [Ne.symm hx]
        simp only [hx, if_false, this, Bool.false_or]
        exact ih
    · have : p.rev = false := by simpa using hr
      simp only [this, Bool.false_and, Bool.false_or, Bool.false_eq_true, if_false]
      exact ih

theorem inBox_sigma (sz : String → Nat) (dims : List String) : ∀ (ps : List Plan) (env : Env),
    InBox sz dims env → InBox sz dims (sigma sz ps env)
  | [], _, h => h
  | p :: ps, env, h => by
    have ih := inBox_sigma sz dims ps env h
    simp only [sigma]
    split
    · intro x hx
      by_cases hxd : x = p.dim
      · subst hxd
        have := ih p.dim hx
        simp only [flipEnv, upd, if_true]; omega
      · simpa [flipEnv, upd, hxd] using ih x hx
    · exact ih

/-- a variable that is only reversed, read by named index -/
theorem at_revPlans (sz : String → Nat) : ∀ (ps : List Plan) (v : Var) (env : Env),
    InBox sz v.dims env → (revPlans sz ps v).at sz env = v.at sz (sigma sz ps env)
  | [], _, _, _ => rfl
  | p :: ps, v, env, h => by
    simp only [revPlans, List.foldl_cons]
    have ih := at_revPlans sz ps (stepRev sz p v) env (by rw [stepRev_dims]; exact h)
    simp only [revPlans] at ih
    rw [ih]
    have hb := inBox_sigma sz v.dims ps env h
    simp only [sigma]
    unfold stepRev
    split
    · exact at_revVar sz p.dim v _ hb
    · rfl

theorem revPlans_dims (sz : String → Nat) : ∀ (ps : List Plan) (v : Var), (revPlans sz ps v).dims = v.dims
  | [], _ => rfl
  | p :: ps, v => by
    simp only [revPlans, List.foldl_cons]
    exact (revPlans_dims sz ps _).trans (stepRev_dims sz p v)

/-! ### a coordinate read by named index -/

def sgn (f : Bool) (x : Val) : Val := if f then vneg x else x

theorem at_applyPlan_coord (sz : String → Nat) (p : Plan) (cv : Var) (env : Env)
    (hn : p.name = cv.name) (hb : p.bounds = cv.bounds) (hself : cv.bounds ≠ some cv.name)
    (hbox : InBox sz cv.dims env) :
    (applyPlan sz p cv).at sz env
      = sgn p.flip (cv.at sz (if p.rev = true then flipEnv sz p.dim env else env)) := by
  have e3 : stepBnd p (stepNeg p (stepPos p cv)) = stepNeg p (stepPos p cv) := by
    unfold stepBnd
    have : p.bounds ≠ some (stepNeg p (stepPos p cv)).name := by
      rw [stepNeg_name, stepPos_name, hb]; exact hself
    simp [this]
  have hpos : ∀ e, (stepPos p cv).at sz e = cv.at sz e := by
    intro e; simp [Var.at, stepPos_dims, stepPos_data]
  have hneg : ∀ e, (stepNeg p (stepPos p cv)).at sz e = sgn p.flip (cv.at sz e) := by
    intro e
    unfold stepNeg sgn
    by_cases hf : p.flip = true
    · simp [hf, stepPos_name, hn, at_negVar, hpos]
    · simp [hf, hpos]
  unfold applyPlan
  rw [e3]
  unfold stepRev
  by_cases hr : p.rev = true
  · simp only [hr, if_true]
    rw [at_revVar sz p.dim _ env (by rw [stepNeg_dims, stepPos_dims]; exact hbox), hneg]
  · simp only [hr]
    exact hneg env

end Ems.Depth
