import EmsModel.Lemmas.DepthAttach
/-!
Lemmas/DepthIdem.lean — facts about the output of the normaliser that the C13 theorems are
assembled from: the state of each coordinate afterwards, that the output again satisfies the
hypotheses, and that a second pass finds nothing to do.
-/
namespace Ems.Depth

open Ems

/-! ### everything about one coordinate after the pass -/

structure CoordAfter (ds : Dataset) (pd dts : Option Bool) (cv cv' : Var) : Prop where
  data : cv'.data = revIf (wantRev dts (deepFirst (signDown cv) cv.data)) (negIf (wantFlip pd (signDown cv)) cv.data)
  positive : cv'.positive = newPositive pd cv.positive
  name : cv'.name = cv.name
  dims : cv'.dims = cv.dims
  bounds : cv'.bounds = cv.bounds
  isCoord : cv'.isCoord = cv.isCoord
  extra : cv'.extra = cv.extra
  sign : signDown cv' = (if wantFlip pd (signDown cv) then !signDown cv else signDown cv)
  phys : phys cv' = revIf (wantRev dts (deepFirst (signDown cv) cv.data)) (phys cv)

theorem coord_after (ds : Dataset) (coords : List String) (pd dts : Option Bool) (h : Valid ds coords)
    (c : String) (hc : c ∈ coords) (cv : Var) (d : String) (hg : GoodCoord ds c cv d) :
    ∃ cv', (normOut ds coords pd dts).find c = some cv' ∧ CoordAfter ds pd dts cv cv' := by
  refine ⟨_, coord_out ds coords pd dts h c hc cv d hg, ?_⟩
  have hn : cv.name = c := find_name _ _ _ hg.found
  have hself : cv.bounds ≠ some cv.name := by rw [hn]; exact hg.notSelf
  obtain ⟨hdata, hpos⟩ := applyPlan_coord ds.sz cv d pd dts hg.dims hg.sized hself
  have hdata' : (applyPlan ds.sz (planOf cv d pd dts) cv).data
      = revIf (wantRev dts (deepFirst (signDown cv) cv.data)) (negIf (wantFlip pd (signDown cv)) cv.data) := hdata
  exact ⟨hdata', hpos, applyPlan_name .., applyPlan_dims .., applyPlan_bounds .., applyPlan_isCoord ..,
    applyPlan_extra .., signDown_after cv _ pd _ _ hdata' hpos rfl, phys_after cv _ pd _ _ hdata' hpos rfl⟩

/-! ### the order after the pass -/

theorem order_after (ds : Dataset) (c : String) (cv cv' : Var) (d : String) (pd : Option Bool) (t : Bool)
    (hg : GoodCoord ds c cv d) (ha : CoordAfter ds pd (some t) cv cv') :
    if t then (phys cv').Pairwise (· > ·) else (phys cv').Pairwise (· < ·) := by
  obtain ⟨a, b, rest, hr, _, hdata⟩ := hg.two
  obtain ⟨dds, hdf, hgt, hlt⟩ := deepFirst_iff cv a b rest hr hdata hg.mono
  rw [ha.phys, hdf]
  cases t <;> cases dds
  · show (revIf false (phys cv)).Pairwise (· < ·)
    exact hlt rfl
  · show (revIf true (phys cv)).Pairwise (· < ·)
    exact List.pairwise_reverse.mpr ((hgt rfl).imp (fun h => h))
  · show (revIf true (phys cv)).Pairwise (· > ·)
    exact List.pairwise_reverse.mpr ((hlt rfl).imp (fun h => h))
  · show (revIf false (phys cv)).Pairwise (· > ·)
    exact hgt rfl

/-! ### the output satisfies the hypotheses again -/

theorem applyPlan_wf (sz : String → Nat) (p : Plan) (v : Var) (h : v.WF sz) : (applyPlan sz p v).WF sz := by
  have h1 : (stepPos p v).WF sz := by simpa [Var.WF, stepPos_data, stepPos_dims] using h
  have h2 : (stepNeg p (stepPos p v)).WF sz := by
    unfold stepNeg; split
    · exact negVar_wf _ _ h1
    · exact h1
  have h3 : (stepBnd p (stepNeg p (stepPos p v))).WF sz := by
    unfold stepBnd; split
    · exact negVar_wf _ _ h2
    · exact h2
  exact stepRev_wf sz p _ h3

theorem applyPlans_wf (sz : String → Nat) : ∀ (ps : List Plan) (v : Var), v.WF sz → (applyPlans sz ps v).WF sz
  | [], _, h => h
  | p :: ps, v, h => by
    simp only [applyPlans, List.foldl_cons]
    exact applyPlans_wf sz ps _ (applyPlan_wf sz p v h)

theorem applyPlans_bounds (sz : String → Nat) : ∀ (ps : List Plan) (v : Var), (applyPlans sz ps v).bounds = v.bounds
  | [], _ => rfl
  | p :: ps, v => by
    simp only [applyPlans, List.foldl_cons]
    exact (applyPlans_bounds sz ps _).trans (applyPlan_bounds sz p v)

theorem names_normOut (ds : Dataset) (coords : List String) (pd dts : Option Bool) :
    (normOut ds coords pd dts).vars.map (·.name) = ds.vars.map (·.name) := by
  simp [normOut, Dataset.mapVars, List.map_map, Function.comp_def, applyPlans_name]

theorem dims_normOut (ds : Dataset) (coords : List String) (pd dts : Option Bool) :
    (normOut ds coords pd dts).vars.map (·.dims) = ds.vars.map (·.dims) := by
  simp [normOut, Dataset.mapVars, List.map_map, Function.comp_def, applyPlans_dims]

theorem mem_revIf {α} (r : Bool) (l : List α) (x : α) : x ∈ revIf r l ↔ x ∈ l := by
  cases r <;> simp [revIf]

theorem length_revIf {α} (r : Bool) (l : List α) : (revIf r l).length = l.length := by
  cases r <;> simp [revIf]

theorem length_negIf (f : Bool) (l : List Val) : (negIf f l).length = l.length := by
  cases f <;> simp [negIf]

theorem mem_negIf_ne_none (f : Bool) (l : List Val) (h : ∀ x ∈ l, x ≠ none) : ∀ x ∈ negIf f l, x ≠ none := by
  cases f
  · simpa [negIf] using h
  · intro x hx
    simp only [negIf, if_true, List.mem_map] at hx
    obtain ⟨y, hy, rfl⟩ := hx
    have := h y hy
    cases y <;> simp_all [vneg]

theorem ratData_after (cv cv' : Var) (f r : Bool) (h : cv'.data = revIf r (negIf f cv.data)) :
    ratData cv' = revIf r (if f then (ratData cv).map (fun x => -x) else ratData cv) := by
  rw [ratData_of_data cv' _ h]
  unfold revIf negIf ratData
  cases r <;> cases f <;>
    simp only [Bool.false_eq_true, if_false, if_true, List.filterMap_reverse, filterMap_vneg]

theorem mono_after (rats : List Rat) (f r : Bool)
    (h : rats.Pairwise (· < ·) ∨ rats.Pairwise (· > ·)) :
    (revIf r (if f then rats.map (fun x => -x) else rats)).Pairwise (· < ·)
      ∨ (revIf r (if f then rats.map (fun x => -x) else rats)).Pairwise (· > ·) := by
  have h1 : (if f then rats.map (fun x => -x) else rats).Pairwise (· < ·)
      ∨ (if f then rats.map (fun x => -x) else rats).Pairwise (· > ·) := by
    cases f
    · simpa using h
    · simp only [if_true]
      rcases h with h | h
      · exact Or.inr ((pairwise_neg_gt _).mpr h)
      · exact Or.inl ((pairwise_neg_lt _).mpr h)
  cases r
  · simpa [revIf] using h1
  · simp only [revIf, if_true]
    rcases h1 with h1 | h1
    · exact Or.inr (List.pairwise_reverse.mpr (h1.imp (fun h => h)))
    · exact Or.inl (List.pairwise_reverse.mpr (h1.imp (fun h => h)))

theorem good_after (ds : Dataset) (coords : List String) (pd dts : Option Bool) (h : Valid ds coords)
    (c : String) (hc : c ∈ coords) (cv : Var) (d : String) (hg : GoodCoord ds c cv d) :
    ∃ cv', GoodCoord (normOut ds coords pd dts) c cv' d ∧ CoordAfter ds pd dts cv cv' := by
  obtain ⟨cv', hfind, ha⟩ := coord_after ds coords pd dts h c hc cv d hg
  refine ⟨cv', ⟨hfind, ha.dims.trans hg.dims, ?_, ?_, ?_, ?_, ?_, ?_⟩, ha⟩
  · intro x hx
    rw [ha.data, mem_revIf] at hx
    exact mem_negIf_ne_none _ _ hg.noNaN x hx
  · rw [ha.data, length_revIf, length_negIf]; exact hg.levels
  · rw [ratData_after cv cv' _ _ ha.data]
    exact mono_after _ _ _ hg.mono
  · rw [ha.positive]
    cases pd with
    | none => exact hg.spelled
    | some b => cases b <;> simp [newPositive, posName]
  · rw [ha.data, length_revIf, length_negIf]; exact hg.sized
  · rw [ha.bounds]; exact hg.notSelf

theorem valid_after (ds : Dataset) (coords : List String) (pd dts : Option Bool) (h : Valid ds coords) :
    Valid (normOut ds coords pd dts) coords := by
  refine ⟨?_, ?_, ?_, ?_⟩
  · intro c hc
    obtain ⟨cv, d, hg⟩ := h.good c hc
    obtain ⟨cv', hg', _⟩ := good_after ds coords pd dts h c hc cv d hg
    exact ⟨cv', d, hg'⟩
  · refine h.indep.imp_of_mem ?_
    intro c1 c2 hc1 hc2 ⟨hne, hind⟩
    refine ⟨hne, ?_⟩
    intro cv1' cv2' h1 h2
    rw [find_normOut] at h1 h2
    cases hf1 : ds.find c1 with
    | none => simp [hf1] at h1
    | some cv1 =>
      cases hf2 : ds.find c2 with
      | none => simp [hf2] at h2
      | some cv2 =>
        simp only [hf1, hf2, Option.map_some, Option.some.injEq] at h1 h2
        subst h1; subst h2
        rw [applyPlans_dims, applyPlans_dims, applyPlans_bounds, applyPlans_bounds]
        exact hind cv1 cv2 hf1 hf2
  · rw [names_normOut]; exact h.names
  · intro v hv
    simp only [normOut, Dataset.mapVars, List.mem_map] at hv
    obtain ⟨u, hu, rfl⟩ := hv
    exact applyPlans_wf _ _ _ (h.wf u hu)

/-! ### a second pass finds nothing to do -/

theorem applyPlans_noop (sz : String → Nat) : ∀ (ps : List Plan) (v : Var),
    (∀ p ∈ ps, applyPlan sz p v = v) → applyPlans sz ps v = v
  | [], _, _ => rfl
  | p :: ps, v, h => by
    simp only [applyPlans, List.foldl_cons]
    rw [h p (by simp)]
    exact applyPlans_noop sz ps v (fun q hq => h q (by simp [hq]))

theorem setPositive_same (v : Var) (s : String) (h : v.positive = some s) : v.setPositive s = v := by
  cases v; simp_all [Var.setPositive]

/-- two strictly ordered readings of a list with two entries cannot both hold -/
theorem not_both (l : List Rat) (h2 : 2 ≤ l.length) (h1 : l.Pairwise (· < ·)) (h3 : l.Pairwise (· > ·)) : False := by
  match l, h2 with
  | a :: b :: _, _ =>
    have x := (List.pairwise_cons.mp h1).1 b (by simp)
    have y := (List.pairwise_cons.mp h3).1 b (by simp)
    grind

theorem length_phys (v : Var) (h : ∀ x ∈ v.data, x ≠ none) : (phys v).length = v.data.length := by
  unfold phys physOf
  split <;> simp [length_ratData v h]

/-- after a pass with options `(pd, dts)` the plan of the same options is empty -/
theorem plan_after_noop (ds : Dataset) (coords : List String) (pd dts : Option Bool) (h : Valid ds coords)
    (c : String) (hc : c ∈ coords) (v : Var) (hv : v ∈ (normOut ds coords pd dts).vars) :
    applyPlan (normOut ds coords pd dts).sz (planFor (normOut ds coords pd dts) pd dts c) v = v := by
  obtain ⟨cv, d, hg⟩ := h.good c hc
  obtain ⟨cv', hg', ha⟩ := good_after ds coords pd dts h c hc cv d hg
  have hplan : planFor (normOut ds coords pd dts) pd dts c = planOf cv' d pd dts := by
    simp [planFor, hg'.found, hg'.dims]
  rw [hplan]
  -- the decisions of the second pass
  have hflip : (planOf cv' d pd dts).flip = false := by
    show wantFlip pd (signDown cv') = false
    cases pd with
    | none => rfl
    | some b =>
      have : signDown cv' = b := by
        rw [ha.sign]; simp only [wantFlip]
        cases signDown cv <;> cases b <;> rfl
      simp [wantFlip, this]
  have hrev : (planOf cv' d pd dts).rev = false := by
    show wantRev dts (deepFirst (signDown cv') cv'.data) = false
    cases dts with
    | none => rfl
    | some t =>
      obtain ⟨a, b, rest, hr, _, hdata⟩ := hg'.two
      obtain ⟨dds, hdf, hgt, hlt⟩ := deepFirst_iff cv' a b rest hr hdata hg'.mono
      have hord := order_after ds c cv cv' d pd t hg ha
      have hlen : 2 ≤ (phys cv').length := by rw [length_phys cv' hg'.noNaN]; exact hg'.levels
      rw [hdf]
      cases t <;> cases dds <;> simp only [wantRev, bne_self_eq_false]
      · exact absurd (hgt rfl) (fun hh => not_both _ hlen (by simpa using hord) hh)
      · exact absurd (hlt rfl) (fun hh => not_both _ hlen hh (by simpa using hord))
  have e2 : ∀ w, stepNeg (planOf cv' d pd dts) w = w := by intro w; simp [stepNeg, hflip]
  have e3 : ∀ w, stepBnd (planOf cv' d pd dts) w = w := by intro w; simp [stepBnd, hflip]
  have e4 : ∀ w, stepRev (normOut ds coords pd dts).sz (planOf cv' d pd dts) w = w := by
    intro w; simp [stepRev, hrev]
  simp only [applyPlan, e2, e3, e4]
  -- only the attribute step is left, and the attribute is already there
  unfold stepPos
  by_cases hname : v.name = (planOf cv' d pd dts).name
  · have hvn : v.name = c := hname.trans (find_name _ _ _ hg'.found)
    have hvv : v = cv' := by
      have := find_of_mem _ (valid_after ds coords pd dts h).names v hv
      rw [hvn, hg'.found] at this
      exact (Option.some.inj this).symm
    simp only [hname, if_true]
    show (match pd.map posName with
      | some s => v.setPositive s
      | none => v) = v
    cases pd with
    | none => rfl
    | some b =>
      simp only [Option.map_some]
      apply setPositive_same
      rw [hvv, ha.positive]; rfl
  · simp [hname]

/-! ### the level re-indexing of the whole pass -/

/-- the plans the normaliser follows (one per coordinate, decided on the input dataset) -/
abbrev plans (ds : Dataset) (coords : List String) (pd dts : Option Bool) : List Plan :=
  coords.map (planFor ds pd dts)

/-- the re-indexing of the levels: dimensions that were reversed are mirrored, others kept -/
def mirror (ds : Dataset) (coords : List String) (pd dts : Option Bool) (env : Env) : Env :=
  fun x => if reversed (plans ds coords pd dts) x then ds.sz x - 1 - env x else env x

/-- the re-indexing stays inside the array -/
theorem mirror_inBox (ds : Dataset) (coords : List String) (pd dts : Option Bool) (dims : List String) (env : Env)
    (h : InBox ds.sz dims env) : InBox ds.sz dims (mirror ds coords pd dts env) := by
  intro x hx
  have := h x hx
  simp only [mirror]
  split <;> omega

/-- the dimensions of the plans are pairwise different -/
theorem plans_dim_nodup (ds : Dataset) (coords : List String) (pd dts : Option Bool) (h : Valid ds coords) :
    ((plans ds coords pd dts).map (·.dim)).Nodup := by
  have hgood := h.good
  have hind := h.indep
  clear h
  induction coords with
  | nil => simp [plans]
  | cons c cs ih =>
    rw [List.pairwise_cons] at hind
    simp only [plans, List.map_cons, List.nodup_cons]
    refine ⟨?_, ih (fun x hx => hgood x (by simp [hx])) hind.2⟩
    intro hmem
    simp only [List.map_map, List.mem_map, Function.comp] at hmem
    obtain ⟨c2, hc2, hd⟩ := hmem
    obtain ⟨cv, d, hg⟩ := hgood c (by simp)
    obtain ⟨cv2, d2, hg2⟩ := hgood c2 (by simp [hc2])
    have e1 : (planFor ds pd dts c).dim = d := by simp [planFor, hg.found, hg.dims, planOf]
    have e2 : (planFor ds pd dts c2).dim = d2 := by simp [planFor, hg2.found, hg2.dims, planOf]
    rw [e1, e2] at hd
    have := ((hind.1 c2 hc2).2 cv cv2 hg.found hg2.found).1 d (by simp [hg.dims])
    rw [hg2.dims] at this
    exact this (by simp [hd])

theorem sigma_eq_mirror (ds : Dataset) (coords : List String) (pd dts : Option Bool) (h : Valid ds coords) (env : Env) :
    sigma ds.sz (plans ds coords pd dts) env = mirror ds coords pd dts env := by
  funext x
  exact sigma_apply ds.sz _ env x (plans_dim_nodup ds coords pd dts h)

/-- on the dimension of a coordinate the re-indexing is that coordinate's own reversal -/
theorem reversed_own (ds : Dataset) (coords : List String) (pd dts : Option Bool) (h : Valid ds coords)
    (c : String) (hc : c ∈ coords) (cv : Var) (d : String) (hg : GoodCoord ds c cv d) :
    reversed (plans ds coords pd dts) d = (planOf cv d pd dts).rev := by
  obtain ⟨l1, l2, rfl⟩ := List.append_of_mem hc
  have hnd := plans_dim_nodup ds (l1 ++ c :: l2) pd dts h
  have e : planFor ds pd dts c = planOf cv d pd dts := by simp [planFor, hg.found, hg.dims]
  simp only [plans, List.map_append, List.map_cons, e] at hnd ⊢
  have hpd : (planOf cv d pd dts).dim = d := rfl
  rw [List.nodup_append] at hnd
  obtain ⟨_, hnd2, hdisj⟩ := hnd
  simp only [List.nodup_cons, hpd] at hnd2
  have h1 : ∀ q ∈ l1.map (planFor ds pd dts), (q.rev && q.dim == d) = false := by
    intro q hq
    have : q.dim ≠ d := fun e => hdisj q.dim (List.mem_map_of_mem (f := (·.dim)) hq) d (by simp [hpd]) e
    simp [this]
  have h2 : ∀ q ∈ l2.map (planFor ds pd dts), (q.rev && q.dim == d) = false := by
    intro q hq
    have : q.dim ≠ d := fun e => hnd2.1 (e ▸ List.mem_map_of_mem (f := (·.dim)) hq)
    simp [this]
  simp only [reversed, List.any_append, List.any_cons, hpd, beq_self_eq_true, Bool.and_true]
  rw [List.any_eq_false.mpr (fun q hq => by simpa using h1 q hq),
    List.any_eq_false.mpr (fun q hq => by simpa using h2 q hq)]
  simp

end Ems.Depth
