import EmsModel.Core.MeshMask
/-! Lemmas about mesh clip masks (`Core/MeshMask.lean`). Core Lean only. -/
set_option linter.unusedSimpArgs false
namespace Ems.Clip

/-! ### `sortU` -/

theorem mem_insertU (x y : Nat) : ∀ l : List Nat, y ∈ insertU x l ↔ y = x ∨ y ∈ l
  | [] => by simp [insertU]
  | z :: zs => by
    unfold insertU
    split
    · simp
    · split
      · rename_i h; subst h; simp
      · simp [mem_insertU x y zs]
        constructor
        · rintro (h | h | h)
          · exact Or.inr (Or.inl h)
          · exact Or.inl h
          · exact Or.inr (Or.inr h)
        · rintro (h | h | h)
          · exact Or.inr (Or.inl h)
          · exact Or.inl h
          · exact Or.inr (Or.inr h)

theorem sorted_insertU (x : Nat) : ∀ l : List Nat, l.Pairwise (· < ·) → (insertU x l).Pairwise (· < ·)
  | [], _ => by simp [insertU]
  | z :: zs, h => by
    unfold insertU
    rw [List.pairwise_cons] at h
    split
    · rename_i hxz
      rw [List.pairwise_cons]
      refine ⟨?_, List.pairwise_cons.mpr h⟩
      intro a ha
      rcases List.mem_cons.mp ha with rfl | ha
      · exact hxz
      · exact Nat.lt_trans hxz (h.1 a ha)
    · split
      · exact List.pairwise_cons.mpr h
      · rename_i h1 h2
        rw [List.pairwise_cons]
        refine ⟨?_, sorted_insertU x zs h.2⟩
        intro a ha
        rcases (mem_insertU x a zs).mp ha with rfl | ha
        · omega
        · exact h.1 a ha

theorem mem_sortU (l : List Nat) (x : Nat) : x ∈ sortU l ↔ x ∈ l := by
  induction l with
  | nil => simp [sortU]
  | cons y ys ih =>
    have : sortU (y :: ys) = insertU y (sortU ys) := rfl
    rw [this, mem_insertU, ih]; simp

theorem sorted_sortU (l : List Nat) : (sortU l).Pairwise (· < ·) := by
  induction l with
  | nil => simp [sortU]
  | cons y ys ih => exact sorted_insertU y _ ih

/-- two strictly ascending lists with the same members are equal -/
theorem sorted_ext : ∀ (a b : List Nat), a.Pairwise (· < ·) → b.Pairwise (· < ·) →
    (∀ x, x ∈ a ↔ x ∈ b) → a = b
  | [], [], _, _, _ => rfl
  | [], y :: ys, _, _, h => by have := (h y).mpr (by simp); simp at this
  | x :: xs, [], _, _, h => by have := (h x).mp (by simp); simp at this
  | x :: xs, y :: ys, ha, hb, h => by
    rw [List.pairwise_cons] at ha hb
    have hxy : x = y := by
      have h1 : x ∈ y :: ys := (h x).mp (by simp)
      have h2 : y ∈ x :: xs := (h y).mpr (by simp)
      rcases List.mem_cons.mp h1 with e | h1
      · exact e
      · rcases List.mem_cons.mp h2 with e | h2
        · exact e.symm
        · have := hb.1 x h1; have := ha.1 y h2; omega
    subst hxy
    congr 1
    apply sorted_ext xs ys ha.2 hb.2
    intro z
    constructor
    · intro hz
      have hz' : z ∈ x :: ys := (h z).mp (List.mem_cons_of_mem _ hz)
      rcases List.mem_cons.mp hz' with e | hz'
      · subst e; have := ha.1 z hz; omega
      · exact hz'
    · intro hz
      have hz' : z ∈ x :: xs := (h z).mpr (List.mem_cons_of_mem _ hz)
      rcases List.mem_cons.mp hz' with e | hz'
      · subst e; have := hb.1 z hz; omega
      · exact hz'

/-- `sortU` depends only on the *set* of its argument: order and repeats are irrelevant -/
theorem sortU_congr {l l' : List Nat} (h : ∀ x, x ∈ l ↔ x ∈ l') : sortU l = sortU l' :=
  sorted_ext _ _ (sorted_sortU l) (sorted_sortU l') (by intro x; rw [mem_sortU, mem_sortU]; exact h x)

/-! ### counting smaller elements -/

/-- number of members of `l` below `e` -/
def countLt (l : List Nat) (e : Nat) : Nat := (l.filter (· < e)).length

theorem countLt_cons (x : Nat) (xs : List Nat) (e : Nat) :
    countLt (x :: xs) e = (if x < e then 1 else 0) + countLt xs e := by
  unfold countLt
  by_cases h : x < e <;> simp [List.filter_cons, h] <;> omega

theorem countLt_mono (l : List Nat) {e e' : Nat} (h : e ≤ e') : countLt l e ≤ countLt l e' := by
  induction l with
  | nil => simp [countLt]
  | cons x xs ih =>
    rw [countLt_cons, countLt_cons]
    by_cases h1 : x < e
    · have : x < e' := by omega
      simp [h1, this]; exact ih
    · simp [h1]; split <;> omega

theorem countLt_strict (l : List Nat) {e e' : Nat} (he : e ∈ l) (h : e < e') :
    countLt l e < countLt l e' := by
  induction l with
  | nil => simp at he
  | cons x xs ih =>
    rw [countLt_cons, countLt_cons]
    rcases List.mem_cons.mp he with rfl | he
    · have h1 : ¬ (e < e) := by omega
      have := countLt_mono xs (Nat.le_of_lt h)
      simp [h1, h]; omega
    · have := ih he
      by_cases h1 : x < e
      · have : x < e' := by omega
        simp [h1, this]; omega
      · simp [h1]; split <;> omega

theorem countLt_le_length (l : List Nat) (e : Nat) : countLt l e ≤ l.length := by
  unfold countLt; exact List.length_filter_le _ _

theorem countLt_lt_length (l : List Nat) {e : Nat} (he : e ∈ l) : countLt l e < l.length := by
  induction l with
  | nil => simp at he
  | cons x xs ih =>
    rw [countLt_cons]
    rcases List.mem_cons.mp he with rfl | he
    · have := countLt_le_length xs e
      simp; omega
    · have := ih he
      simp; split <;> omega

/-- in a strictly ascending list the element at position `v` has exactly `v` smaller members -/
theorem countLt_getElem : ∀ (l : List Nat), l.Pairwise (· < ·) → ∀ (v : Nat) (hv : v < l.length),
    countLt l l[v] = v
  | [], _, v, hv => by simp at hv
  | x :: xs, h, 0, _ => by
    rw [List.pairwise_cons] at h
    simp only [List.getElem_cons_zero, countLt_cons, Nat.lt_irrefl, if_false, Nat.zero_add]
    unfold countLt
    rw [List.length_eq_zero_iff, List.filter_eq_nil_iff]
    intro a ha; have := h.1 a ha; simp; omega
  | x :: xs, h, v + 1, hv => by
    rw [List.pairwise_cons] at h
    have hv' : v < xs.length := by simpa using hv
    simp only [List.getElem_cons_succ, countLt_cons]
    have : x < xs[v] := h.1 _ (List.getElem_mem hv')
    simp [this, countLt_getElem xs h.2 v hv']; omega

/-! ### `scatter` / `new_element_indexes` -/

theorem length_scatter : ∀ (es : List Nat) (acc : List (Option Nat)) (k : Nat),
    (scatter acc es k).length = acc.length
  | [], acc, k => rfl
  | e :: es, acc, k => by simp [scatter, length_scatter es]

/-- scattering a strictly ascending index list: entry `e` receives `k +` the number of smaller
members; every other entry is untouched -/
theorem getElem?_scatter : ∀ (es : List Nat), es.Pairwise (· < ·) →
    ∀ (acc : List (Option Nat)) (k e : Nat),
    (scatter acc es k)[e]? =
      if e ∈ es ∧ e < acc.length then some (some (k + countLt es e)) else acc[e]?
  | [], _, acc, k, e => by simp [scatter]
  | x :: xs, h, acc, k, e => by
    rw [List.pairwise_cons] at h
    simp only [scatter]
    rw [getElem?_scatter xs h.2, List.length_set, List.getElem?_set, countLt_cons]
    by_cases hex : e = x
    · subst hex
      have hnot : e ∉ xs := fun hm => by have := h.1 e hm; omega
      have c0 : countLt xs e = 0 := by
        unfold countLt
        rw [List.length_eq_zero_iff, List.filter_eq_nil_iff]
        intro a ha; have := h.1 a ha; simp; omega
      by_cases hl : e < acc.length
      · simp [hnot, hl, c0]
      · have : acc[e]? = none := List.getElem?_eq_none (by omega)
        simp [hnot, hl, this]
    · have hne : ¬ (x = e) := fun h' => hex h'.symm
      by_cases hm : e ∈ xs
      · have hlt : x < e := h.1 e hm
        by_cases hl : e < acc.length
        · simp [hm, hl, hlt, hex]; omega
        · simp [hm, hl, hne, hex]
      · simp [hm, hne, hex]

theorem length_newElementIndexes (size : Nat) (es : List Nat) :
    (newElementIndexes size es).length = size := by
  simp [newElementIndexes, length_scatter]

/-- `new_element_indexes(size, indexes)` for a strictly ascending `indexes`:
old index `e` maps to the number of kept indexes below it; everything else is masked -/
theorem getElem?_newElementIndexes (size : Nat) (es : List Nat) (h : es.Pairwise (· < ·)) (e : Nat)
    (he : e < size) :
    (newElementIndexes size es)[e]? = some (if e ∈ es then some (countLt es e) else none) := by
  unfold newElementIndexes
  rw [getElem?_scatter es h]
  simp [he, List.getElem?_replicate]
  split <;> simp

/-! ### `buffer_faces` -/

namespace FaceMesh

/-- faces `f` and `f'` have a node in common -/
def Shares (m : FaceMesh) (f f' : Nat) : Prop := ∃ n, n ∈ m.faceNodes f ∧ n ∈ m.faceNodes f'

theorem mem_bufferFaces (m : FaceMesh) (F : List Nat) (f : Nat) :
    f ∈ m.bufferFaces F ↔ f < m.nFaces ∧ (f ∈ F ∨ ∃ f', f' ∈ F ∧ m.Shares f' f) := by
  unfold bufferFaces Shares
  simp only [List.mem_filter, List.mem_range, Bool.or_eq_true, List.contains_iff_mem,
    List.any_eq_true, List.mem_flatMap]
  constructor
  · rintro ⟨hf, h | ⟨n, hn, f', hf', hn'⟩⟩
    · exact ⟨hf, Or.inl h⟩
    · exact ⟨hf, Or.inr ⟨f', hf', n, hn', hn⟩⟩
  · rintro ⟨hf, h | ⟨f', hf', n, hn', hn⟩⟩
    · exact ⟨hf, Or.inl h⟩
    · exact ⟨hf, Or.inr ⟨n, hn, f', hf', hn'⟩⟩

theorem sorted_bufferFaces (m : FaceMesh) (F : List Nat) : (m.bufferFaces F).Pairwise (· < ·) := by
  unfold bufferFaces
  exact List.Pairwise.filter _ List.pairwise_lt_range

theorem bufferIter_succ (m : FaceMesh) : ∀ (b : Nat) (F : List Nat),
    m.bufferIter (b + 1) F = m.bufferFaces (m.bufferIter b F)
  | 0, F => rfl
  | b + 1, F => by
    show m.bufferIter (b + 1) (m.bufferFaces F) = _
    rw [bufferIter_succ m b (m.bufferFaces F)]
    rfl

theorem sorted_bufferIter (m : FaceMesh) (b : Nat) (F : List Nat) (h : F.Pairwise (· < ·)) :
    (m.bufferIter b F).Pairwise (· < ·) := by
  cases b with
  | zero => exact h
  | succ b => rw [bufferIter_succ]; exact sorted_bufferFaces _ _

theorem inRange_bufferIter (m : FaceMesh) (b : Nat) (F : List Nat) (h : ∀ f ∈ F, f < m.nFaces) :
    ∀ f ∈ m.bufferIter b F, f < m.nFaces := by
  cases b with
  | zero => exact h
  | succ b =>
    rw [bufferIter_succ]
    intro f hf
    exact ((mem_bufferFaces m _ f).mp hf).1

end FaceMesh
end Ems.Clip
