import EmsModel.Lemmas.Depth
import EmsModel.Core.DepthSrc
import Mathlib.Algebra.Order.Field.Rat
/-!
Lemmas/DepthSrc.lean — the expression language of `_find_ocean_floor_indexes` (`Core/DepthSrc.lean`,
`FExpr`): what `cumsum` of an indicator column and `argmax` of a column of counts compute, in terms of
the hand model's `runCount` / `argmaxFirst` (`Core/Depth.lean`).
-/
namespace Ems.DepthSrc

open Ems Ems.Depth

/-- the indicator `x * 0 + 1` of a column: 1 where there is a number, NaN where there is none -/
theorem indicator_map (c0 c1 : Rat) (h0 : c0 = 0) (h1 : c1 = 1) (col : List Val) :
    (col.map fun x => x.map (· * c0)).map (fun x => x.map (· + c1)) = col.map (fun x => x.map fun _ => (1 : Rat)) := by
  subst h0 h1
  simp only [List.map_map]
  apply List.map_congr_left
  intro x _
  cases x <;> simp

/-- the running sum of the indicator is the running count of valid layers -/
theorem cumsum_indicator : ∀ (col : List Val) (n : Nat),
    fCumsumFrom (n : Rat) (col.map (fun x => x.map fun _ => (1 : Rat))) = (runCount n col).map (fun (k : Nat) => some (k : Rat))
  | [], _ => rfl
  | x :: xs, n => by
    cases x with
    | none =>
      simp only [List.map_cons, Option.map_none, fCumsumFrom, Option.getD_none, Rat.add_zero, runCount,
        Option.isSome_none, Bool.false_eq_true, if_false]
      rw [cumsum_indicator xs n]
    | some a =>
      have h : (n : Rat) + 1 = ((n + 1 : Nat) : Rat) := by push_cast; rfl
      simp only [List.map_cons, Option.map_some, fCumsumFrom, Option.getD_some, runCount,
        Option.isSome_some, if_true, ↓reduceIte, h]
      rw [cumsum_indicator xs (n + 1)]

theorem cumsum_indicator_zero (col : List Val) :
    fCumsumFrom 0 (col.map (fun x => x.map fun _ => (1 : Rat))) = (runCount 0 col).map (fun (k : Nat) => some (k : Rat)) := by
  have h := cumsum_indicator col 0
  rwa [Nat.cast_zero] at h

/-- on a column of natural numbers `nanargmax` is the hand model's first arg-max -/
theorem argmaxGo_nat : ∀ (l : List Nat) (b bi i : Nat),
    fArgmaxGo (some ((b : Rat), bi)) i (l.map fun (k : Nat) => some (k : Rat)) = some (argmaxFrom b bi i l)
  | [], _, _, _ => rfl
  | x :: xs, b, bi, i => by
    simp only [List.map_cons, fArgmaxGo, argmaxFrom]
    have h : ((b : Rat) < (x : Rat)) ↔ b < x := Nat.cast_lt
    by_cases hb : b < x
    · rw [if_pos (h.mpr hb), if_pos hb]; exact argmaxGo_nat xs x i (i + 1)
    · rw [if_neg (fun hh => hb (h.mp hh)), if_neg hb]; exact argmaxGo_nat xs b bi (i + 1)

theorem argmax_nat (l : List Nat) (h : l ≠ []) :
    fArgmax (l.map fun (k : Nat) => some (k : Rat)) = some (argmaxFirst l) := by
  cases l with
  | nil => exact absurd rfl h
  | cons x xs =>
    simp only [fArgmax, List.map_cons, fArgmaxGo, argmaxFirst]
    exact argmaxGo_nat xs x 0 1

theorem runCount_ne_nil {α} (n : Nat) (col : List (Option α)) (h : col ≠ []) : runCount n col ≠ [] := by
  cases col with
  | nil => exact absurd rfl h
  | cons x xs => simp [runCount]

end Ems.DepthSrc
