import EmsModel.Core.TimeUnitsSrc
import EmsModel.Lemmas.TimeUnits
/-!
Lemmas/TimeUnitsSrc.lean — helper lemmas for `Props/C17Src.lean`: Python's integer formatting (`fmtInt`) against the
hand model's fixed-width fields (`pad2`, `pad4`), Python's floor division on non-negative numbers, substring search.
Core Lean only.
-/
namespace Ems.TimeUnitsSrc
open Ems.TimeUnits

theorem natDigitsAux_fuel : ∀ (f1 f2 n : Nat), n ≤ f1 → n ≤ f2 → natDigitsAux f1 n = natDigitsAux f2 n := by
  intro f1
  induction f1 with
  | zero =>
    intro f2 n h1 h2
    have : n = 0 := by omega
    subst this
    cases f2 <;> simp [natDigitsAux]
  | succ f1 ih =>
    intro f2 n h1 h2
    by_cases hn : n < 10
    · cases f2 with
      | zero => have : n = 0 := by omega
                subst this; simp [natDigitsAux]
      | succ f2 => simp [natDigitsAux, hn]
    · cases f2 with
      | zero => omega
      | succ f2 =>
        simp only [natDigitsAux, hn, if_false]
        rw [ih f2 (n / 10) (by omega) (by omega)]

theorem natDigits_eq (n : Nat) : natDigits n = if n < 10 then [dch n] else natDigits (n / 10) ++ [dch n] := by
  unfold natDigits
  cases n with
  | zero => simp [natDigitsAux]
  | succ m =>
    simp only [natDigitsAux]
    by_cases h : m + 1 < 10
    · simp [h]
    · simp only [h, if_false]
      rw [natDigitsAux_fuel m ((m+1)/10) ((m + 1) / 10) (by omega) (by omega)]

theorem natDigits_lt10 (n : Nat) (h : n < 10) : natDigits n = [dch n] := by
  rw [natDigits_eq]; simp [h]
theorem natDigits_lt100 (n : Nat) (h1 : 10 ≤ n) (h : n < 100) : natDigits n = [dch (n / 10), dch n] := by
  rw [natDigits_eq, if_neg (by omega), natDigits_lt10 _ (by omega)]; rfl
theorem natDigits_lt1000 (n : Nat) (h1 : 100 ≤ n) (h : n < 1000) : natDigits n = [dch (n / 100), dch (n / 10), dch n] := by
  rw [natDigits_eq, if_neg (by omega), natDigits_lt100 _ (by omega) (by omega)]
  simp [Nat.div_div_eq_div_mul]
theorem natDigits_lt10000 (n : Nat) (h1 : 1000 ≤ n) (h : n < 10000) :
    natDigits n = [dch (n / 1000), dch (n / 100), dch (n / 10), dch n] := by
  rw [natDigits_eq, if_neg (by omega), natDigits_lt1000 _ (by omega) (by omega)]
  simp [Nat.div_div_eq_div_mul]

theorem dch_zero_of_lt (n k : Nat) (h : n < k) : dch (n / k) = '0' := by
  rw [Nat.div_eq_of_lt h]; rfl

/-- `f'{n:02d}'` is `pad2 n` for `0 ≤ n < 100` -/
theorem fmtInt_02d (n : Nat) (h : n < 100) : fmtInt ⟨.minusOnly, true, 2⟩ (n : Int) = pad2 n := by
  have hneg : ¬ ((n : Int) < 0) := by omega
  simp only [fmtInt, hneg, if_false, Int.natAbs_natCast, if_true]
  by_cases h10 : n < 10
  · rw [natDigits_lt10 n h10]
    simp [padLeft, pad2, dch_zero_of_lt n 10 h10]
  · rw [natDigits_lt100 n (by omega) h]
    simp [padLeft, pad2]

theorem fmtInt_04d (n : Nat) (h : n < 10000) : fmtInt ⟨.minusOnly, true, 4⟩ (n : Int) = pad4 n := by
  have hneg : ¬ ((n : Int) < 0) := by omega
  simp only [fmtInt, hneg, if_false, Int.natAbs_natCast, if_true]
  by_cases h10 : n < 10
  · rw [natDigits_lt10 n h10]
    simp [padLeft, pad4, dch_zero_of_lt n 10 h10, dch_zero_of_lt n 100 (by omega), dch_zero_of_lt n 1000 (by omega)]
  · by_cases h100 : n < 100
    · rw [natDigits_lt100 n (by omega) h100]
      simp [padLeft, pad4, dch_zero_of_lt n 100 (by omega), dch_zero_of_lt n 1000 (by omega)]
    · by_cases h1000 : n < 1000
      · rw [natDigits_lt1000 n (by omega) h1000]
        simp [padLeft, pad4, dch_zero_of_lt n 1000 (by omega)]
      · rw [natDigits_lt10000 n (by omega) h]
        simp [padLeft, pad4]

theorem fmtInt_02d_int (x : Int) (h0 : 0 ≤ x) (h : x < 100) : fmtInt ⟨.minusOnly, true, 2⟩ x = pad2 x.toNat := by
  have := fmtInt_02d x.toNat (by omega)
  rwa [Int.toNat_of_nonneg h0] at this

theorem fmtInt_04d_int (x : Int) (h0 : 0 ≤ x) (h : x < 10000) : fmtInt ⟨.minusOnly, true, 4⟩ x = pad4 x.toNat := by
  have := fmtInt_04d x.toNat (by omega)
  rwa [Int.toNat_of_nonneg h0] at this

/-- Python's `//` on a non-negative dividend and a positive literal divisor -/
theorem fdiv_natCast (n k : Nat) : Int.fdiv (n : Int) (k : Int) = ((n / k : Nat) : Int) := by
  simp [Int.fdiv_eq_ediv_of_nonneg]

theorem fmod_natCast (n k : Nat) : Int.fmod (n : Int) (k : Int) = ((n % k : Nat) : Int) := by
  simp [Int.fmod_eq_emod_of_nonneg]

/-- `'since' in s` of the hand model is the generic substring test -/
theorem strContains_since (s : Str) : strContains since s = hasSince s := by
  induction s with
  | nil => rfl
  | cons c r ih => simp [strContains, hasSince, ih]

end Ems.TimeUnitsSrc
