import EmsModel.Lemmas.DepthFloor
/-!
Lemmas/DepthFloorSpec.lean — from the mechanics of `ocean_floor` to its meaning: the
column-level choice of the deepest valid layer, and the link between the normalised dataset
and the input.
-/
namespace Ems.Depth

open Ems

/-! ### one column, any orientation -/

theorem getElem?_revIf {α} (r : Bool) (l : List α) (i : Nat) (h : i < l.length) :
    (revIf r l)[i]? = l[if r then l.length - 1 - i else i]? := by
  cases r
  · simp [revIf]
  · simp only [revIf, if_true]
    exact List.getElem?_reverse h

/-- The heart of C12 on one water column.  `col` are the values of the column and `ph` the
physical depths of its levels, both in stored order; `r` says whether the normaliser
reverses the axis, and after that reversal the physical depths increase with the index.
The running-count / arg-max search on the normalised column, mapped back to the stored
order (`j`), hits the valid layer of greatest physical depth — or, if no layer is valid, a
missing value. -/
theorem column_pick (n : Nat) (col : List Val) (ph : List Rat) (r : Bool)
    (hlc : col.length = n) (hlp : ph.length = n) (hn : 0 < n)
    (hinc : (revIf r ph).Pairwise (· < ·)) :
    let i := floorIndex (revIf r col)
    let j := if r then n - 1 - i else i
    i < n ∧ j < n ∧ (revIf r col)[i]? = col[j]?
    ∧ ((∀ x ∈ col, x = none) → col[j]? = some none)
    ∧ ((∃ x ∈ col, x ≠ none) →
        (∃ a, col[j]? = some (some a)) ∧
        ∀ (j' : Nat) (a' : Rat), col[j']? = some (some a') →
          ∀ p p' : Rat, ph[j']? = some p' → ph[j]? = some p → p' ≤ p) := by
  intro i j
  have hlen : (revIf r col).length = n := by rw [length_revIf, hlc]
  have hmem : ∀ x, x ∈ revIf r col ↔ x ∈ col := mem_revIf r col
  have hi_eq : i = (lastValid (revIf r col)).getD 0 := floorIndex_eq _
  -- the index is in range
  have hi : i < n := by
    rw [hi_eq]
    cases hl : lastValid (revIf r col) with
    | none => simpa using hn
    | some k => simpa [hlen] using (lastValid_some _ k hl).1
  have hj : j < n := by
    show (if r = true then n - 1 - i else i) < n
    split <;> omega
  have hget : (revIf r col)[i]? = col[j]? := by
    rw [getElem?_revIf r col i (by omega), hlc]
  refine ⟨hi, hj, hget, ?_, ?_⟩
  · intro hall
    rw [← hget]
    have hi' : i < (revIf r col).length := by omega
    rw [List.getElem?_eq_getElem hi']
    exact congrArg some (hall _ ((hmem _).mp (List.getElem_mem hi')))
  · rintro ⟨x, hx, hxn⟩
    cases hl : lastValid (revIf r col) with
    | none =>
      exact absurd (lastValid_none _ hl x ((hmem x).mpr hx)) hxn
    | some k =>
      have hik : i = k := by rw [hi_eq, hl]; rfl
      obtain ⟨_, ⟨a, ha⟩, hafter⟩ := lastValid_some _ k hl
      rw [← hik] at ha hafter
      refine ⟨⟨a, by rw [← hget]; exact ha⟩, ?_⟩
      intro j' a' hj' p p' hp' hp
      have hj'n : j' < n := by
        rw [← hlc]
        exact (List.getElem?_eq_some_iff.mp hj').1
      -- the position of level j' on the normalised axis
      let i' := if r then n - 1 - j' else j'
      have hi'n : i' < n := by
        show (if r = true then n - 1 - j' else j') < n
        split <;> omega
      have hback : (if r = true then n - 1 - i' else i') = j' := by
        show (if r = true then n - 1 - (if r = true then n - 1 - j' else j') else (if r = true then n - 1 - j' else j')) = j'
        cases r <;> simp <;> omega
      have hcol' : (revIf r col)[i']? = some (some a') := by
        rw [getElem?_revIf r col i' (by omega), hlc, hback]; exact hj'
      have hle : i' ≤ i := by
        apply Classical.byContradiction
        intro hgt
        have := hafter i' (by omega) (by omega)
        rw [hcol'] at this
        simp at this
      -- physical depths on the normalised axis
      have hlenp : (revIf r ph).length = n := by rw [length_revIf, hlp]
      have hph' : (revIf r ph)[i']? = some p' := by
        rw [getElem?_revIf r ph i' (by omega), hlp, hback]; exact hp'
      have hph : (revIf r ph)[i]? = some p := by
        rw [getElem?_revIf r ph i (by omega), hlp]; exact hp
      obtain ⟨h1, e1⟩ := List.getElem?_eq_some_iff.mp hph'
      obtain ⟨h2, e2⟩ := List.getElem?_eq_some_iff.mp hph
      rcases Nat.lt_or_eq_of_le hle with hlt | heq
      · have := (List.pairwise_iff_getElem.mp hinc) i' i h1 h2 hlt
        rw [e1, e2] at this
        exact Rat.le_of_lt this
      · have hpp : p' = p := by
          have h3 : (revIf r ph)[i']? = (revIf r ph)[i]? := by rw [heq]
          rw [hph', hph] at h3
          exact Option.some.inj h3
        rw [hpp]
        exact Rat.le_refl

/-! ### columns of a variable -/

theorem length_column (sz : String → Nat) (v : Var) (d : String) (env : Env) :
    (column sz v d env).length = sz d := by simp [column]

theorem getElem?_column (sz : String → Nat) (v : Var) (d : String) (env : Env) (j : Nat) (h : j < sz d) :
    (column sz v d env)[j]? = some (v.at sz (upd env d j)) := by
  simp [column, List.getElem?_map, List.getElem?_range h]

theorem map_range_reverse {α} (n : Nat) (f : Nat → α) :
    ((List.range n).map f).reverse = (List.range n).map (fun j => f (n - 1 - j)) := by
  apply List.ext_getElem
  · simp
  · intro i h1 h2
    have hi : i < n := by simpa using h1
    rw [List.getElem_reverse]
    simp only [List.getElem_map, List.getElem_range, List.length_map, List.length_range]

theorem upd_upd (env : Env) (d : String) (a b : Nat) : upd (upd env d a) d b = upd env d b := by
  funext x; simp only [upd]; split <;> rfl

/-- the column of a variable read through a reversal of `d` is the reversed column -/
theorem column_flip (sz : String → Nat) (v w : Var) (d : String) (r : Bool) (env : Env)
    (h : ∀ j, j < sz d → w.at sz (upd env d j) = v.at sz (upd env d (if r then sz d - 1 - j else j))) :
    column sz w d env = revIf r (column sz v d env) := by
  unfold column
  cases r
  · simp only [revIf, Bool.false_eq_true, if_false]
    apply List.map_congr_left
    intro j hj
    simpa using h j (by simpa using hj)
  · simp only [revIf, if_true]
    rw [map_range_reverse]
    apply List.map_congr_left
    intro j hj
    simpa using h j (by simpa using hj)

/-! ### the normalised dataset seen from the input -/

theorem dimOf_normOut (ds : Dataset) (coords : List String) (pd dts : Option Bool) (m : String) :
    dimOf (normOut ds coords pd dts) m = dimOf ds m := by
  unfold dimOf
  rw [find_normOut]
  cases ds.find m with
  | none => rfl
  | some v => simp [applyPlans_dims]

theorem dimsOf_normOut (ds : Dataset) (coords : List String) (pd dts : Option Bool) (ms : List String) :
    dimsOf (normOut ds coords pd dts) ms = dimsOf ds ms := by
  unfold dimsOf
  congr 1
  apply List.map_congr_left
  intro m _
  exact dimOf_normOut ds coords pd dts m

theorem applyPlans_isCoord (sz : String → Nat) : ∀ (ps : List Plan) (v : Var),
    (applyPlans sz ps v).isCoord = v.isCoord
  | [], _ => rfl
  | p :: ps, v => by
    simp only [applyPlans, List.foldl_cons]
    exact (applyPlans_isCoord sz ps _).trans (applyPlan_isCoord sz p v)

theorem applyPlans_extra (sz : String → Nat) : ∀ (ps : List Plan) (v : Var),
    (applyPlans sz ps v).extra = v.extra
  | [], _ => rfl
  | p :: ps, v => by
    simp only [applyPlans, List.foldl_cons]
    exact (applyPlans_extra sz ps _).trans (applyPlan_extra sz p v)

theorem floorVar_extra (sz : String → Nat) (ns : List String) (dd : String) (ex v : Var) :
    (floorVar sz ns dd ex v).extra = v.extra := by
  unfold floorVar; split <;> rfl

/-- the structural assumptions carry over to the normalised dataset -/
theorem floorReady_normOut (kb : Bool) (ddims : List String) (ds : Dataset) (coords : List String)
    (pd dts : Option Bool) (h : FloorReady kb ddims ds) : FloorReady kb ddims (normOut ds coords pd dts) := by
  have hvars : ∀ v' ∈ (normOut ds coords pd dts).vars, ∃ v ∈ ds.vars, v'.name = v.name ∧ v'.dims = v.dims
      ∧ v'.bounds = v.bounds ∧ v'.isCoord = v.isCoord := by
    intro v' hv'
    simp only [normOut, Dataset.mapVars, List.mem_map] at hv'
    obtain ⟨v, hv, rfl⟩ := hv'
    exact ⟨v, hv, applyPlans_name _ _ _, applyPlans_dims _ _ _, applyPlans_bounds _ _ _, applyPlans_isCoord _ _ _⟩
  refine ⟨?_, ?_, ?_, ?_⟩
  · show ((normOut ds coords pd dts).vars.map (·.name)).Nodup
    rw [names_normOut]; exact h.nodup
  · intro v' hv' a ha b hb h1 h2
    obtain ⟨v, hv, _, hd, _, _⟩ := hvars v' hv'
    rw [hd] at h1 h2
    exact h.oneDepth v hv a ha b hb h1 h2
  · intro v' hv' hc d hd hdv
    obtain ⟨v, hv, _, hdims, _, hcv⟩ := hvars v' hv'
    rw [hdims] at hdv ⊢
    exact h.coords1d v hv (hcv ▸ hc) d hd hdv
  · intro hkb v' hv' w' hw' hb hc d hd hdv
    obtain ⟨v, hv, hn, hdims, _, hcv⟩ := hvars v' hv'
    obtain ⟨w, hw, _, _, hbw, _⟩ := hvars w' hw'
    rw [hdims] at hdv
    exact h.noBounds hkb v hv w hw (by rw [← hbw, hb, hn]) (hcv ▸ hc) d hd hdv

/-- a dimension is reversed only if it is the dimension of one of the coordinates -/
theorem reversed_imp (ds : Dataset) (coords : List String) (pd dts : Option Bool) (h : Valid ds coords)
    (x : String) (hr : reversed (coords.map (planFor ds pd dts)) x = true) :
    ∃ c ∈ coords, ∃ cv, GoodCoord ds c cv x := by
  simp only [reversed, List.any_eq_true, List.mem_map, Bool.and_eq_true, beq_iff_eq] at hr
  obtain ⟨p, ⟨c, hc, rfl⟩, _, hpd⟩ := hr
  obtain ⟨cv, d, hg⟩ := h.good c hc
  have : (planFor ds pd dts c).dim = d := by simp [planFor, hg.found, hg.dims, planOf]
  rw [this] at hpd
  exact ⟨c, hc, cv, hpd ▸ hg⟩

/-! ### validity is not affected by the sign flip -/

theorem isSome_vneg (x : Val) : (vneg x).isSome = x.isSome := by cases x <;> rfl

theorem at_stepPos (sz : String → Nat) (p : Plan) (v : Var) (e : Env) : (stepPos p v).at sz e = v.at sz e := by
  simp [Var.at, stepPos_dims, stepPos_data]

theorem isSome_at_stepNeg (sz : String → Nat) (p : Plan) (v : Var) (e : Env) :
    ((stepNeg p v).at sz e).isSome = (v.at sz e).isSome := by
  unfold stepNeg; split
  · rw [at_negVar, isSome_vneg]
  · rfl

theorem isSome_at_stepBnd (sz : String → Nat) (p : Plan) (v : Var) (e : Env) :
    ((stepBnd p v).at sz e).isSome = (v.at sz e).isSome := by
  unfold stepBnd; split
  · rw [at_negVar, isSome_vneg]
  · rfl

theorem isSome_at_applyPlan (sz : String → Nat) (p : Plan) (v : Var) (env : Env) (h : InBox sz v.dims env) :
    ((applyPlan sz p v).at sz env).isSome
      = (v.at sz (if p.rev = true then flipEnv sz p.dim env else env)).isSome := by
  unfold applyPlan stepRev
  split
  · rw [at_revVar sz p.dim _ env (by rw [stepBnd_dims, stepNeg_dims, stepPos_dims]; exact h),
      isSome_at_stepBnd, isSome_at_stepNeg, at_stepPos]
  · rw [isSome_at_stepBnd, isSome_at_stepNeg, at_stepPos]

/-- whatever else normalisation does to a variable, which of its cells are valid is the
input's validity read through the level re-indexing -/
theorem isSome_at_applyPlans (sz : String → Nat) : ∀ (ps : List Plan) (v : Var) (env : Env),
    InBox sz v.dims env → ((applyPlans sz ps v).at sz env).isSome = (v.at sz (sigma sz ps env)).isSome
  | [], _, _, _ => rfl
  | p :: ps, v, env, h => by
    simp only [applyPlans, List.foldl_cons]
    have ih := isSome_at_applyPlans sz ps (applyPlan sz p v) env (by rw [applyPlan_dims]; exact h)
    simp only [applyPlans] at ih
    rw [ih, isSome_at_applyPlan sz p v _ (inBox_sigma sz v.dims ps env h)]
    simp only [sigma]

/-- two lists that are the same set have the same members -/
theorem sameSet_mem {a b : List String} (h : sameSet a b = true) (x : String) : x ∈ a ↔ x ∈ b := by
  simp only [sameSet, Bool.and_eq_true, List.all_eq_true, decide_eq_true_eq] at h
  exact ⟨h.1 x, h.2 x⟩

theorem allSome_map {α β} (f : α → Option β) : ∀ (l : List α) (r : List β), Ems.Depth.allSome (l.map f) = some r →
    (∀ x ∈ l, ∃ y ∈ r, f x = some y) ∧ (∀ y ∈ r, ∃ x ∈ l, f x = some y)
  | [], r, h => by
    simp only [List.map_nil, Ems.Depth.allSome, Option.some.injEq] at h
    subst h; simp
  | x :: xs, r, h => by
    simp only [List.map_cons] at h
    cases hf : f x with
    | none => simp [hf, Ems.Depth.allSome] at h
    | some y =>
      simp only [hf, Ems.Depth.allSome] at h
      cases hr : Ems.Depth.allSome (xs.map f) with
      | none => simp [hr] at h
      | some r' =>
        simp only [hr, Option.map_some, Option.some.injEq] at h
        subst h
        obtain ⟨h1, h2⟩ := allSome_map f xs r' hr
        constructor
        · intro z hz
          rcases List.mem_cons.mp hz with rfl | hz'
          · exact ⟨y, by simp, hf⟩
          · obtain ⟨w, hw, hfw⟩ := h1 z hz'
            exact ⟨w, by simp [hw], hfw⟩
        · intro w hw
          rcases List.mem_cons.mp hw with rfl | hw'
          · exact ⟨x, by simp, hf⟩
          · obtain ⟨z, hz, hfz⟩ := h2 w hw'
            exact ⟨z, by simp [hz], hfz⟩

/-! ### a variable with one depth dimension, before and after normalisation -/

theorem dim_mem_ddims (ds : Dataset) (coords ddims : List String) (hdd : dimsOf ds coords = some ddims)
    (c : String) (hc : c ∈ coords) (cv : Var) (d : String) (hg : GoodCoord ds c cv d) : d ∈ ddims := by
  obtain ⟨y, hy, hfy⟩ := (allSome_map (dimOf ds) coords ddims hdd).1 c hc
  have : dimOf ds c = some d := by simp [dimOf, hg.found, hg.dims]
  rw [this] at hfy
  exact (Option.some.inj hfy) ▸ hy

/-- on the dimensions of a variable whose only depth dimension is `d`, the re-indexing of the
pass is the reversal of `d` decided for its coordinate -/
theorem mirror_on_dims (ds : Dataset) (coords ddims : List String) (pd dts : Option Bool) (h : Valid ds coords)
    (hdd : dimsOf ds coords = some ddims) (c : String) (hc : c ∈ coords) (cv : Var) (d : String)
    (hg : GoodCoord ds c cv d) (dims : List String)
    (hone : ∀ a ∈ ddims, ∀ b ∈ ddims, a ∈ dims → b ∈ dims → a = b) (hd : d ∈ dims) (env : Env) :
    ∀ x ∈ dims, mirror ds coords pd dts env x
      = (if (planOf cv d pd dts).rev = true then flipEnv ds.sz d env else env) x := by
  intro x hx
  by_cases hxd : x = d
  · subst hxd
    simp only [mirror, reversed_own ds coords pd dts h c hc cv x hg]
    split <;> simp [flipEnv, upd]
  · have hnr : reversed (plans ds coords pd dts) x = false := by
      cases hr : reversed (plans ds coords pd dts) x with
      | false => rfl
      | true =>
        exfalso
        obtain ⟨c2, hc2, cv2, hg2⟩ := reversed_imp ds coords pd dts h x hr
        exact hxd (hone x (dim_mem_ddims ds coords ddims hdd c2 hc2 cv2 x hg2) d
          (dim_mem_ddims ds coords ddims hdd c hc cv d hg) hx hd)
    simp only [mirror, hnr, Bool.false_eq_true, if_false]
    split
    · simp [flipEnv, upd, hxd]
    · rfl

/-- a plain variable after normalisation, by named index -/
theorem plain_normOut (ds : Dataset) (coords ddims : List String) (pd dts : Option Bool) (h : Valid ds coords)
    (hdd : dimsOf ds coords = some ddims) (c : String) (hc : c ∈ coords) (cv : Var) (d : String)
    (hg : GoodCoord ds c cv d) (n : String) (u : Var) (hu : ds.find n = some u) (hplain : PlainVar ds coords n)
    (hone : ∀ a ∈ ddims, ∀ b ∈ ddims, a ∈ u.dims → b ∈ u.dims → a = b) (hd : d ∈ u.dims) :
    (normOut ds coords pd dts).find n = some (applyPlans ds.sz (plans ds coords pd dts) u)
    ∧ ∀ env, InBox ds.sz u.dims env →
        (applyPlans ds.sz (plans ds coords pd dts) u).at ds.sz env
          = u.at ds.sz (if (planOf cv d pd dts).rev = true then flipEnv ds.sz d env else env) := by
  refine ⟨by rw [find_normOut, hu]; rfl, ?_⟩
  intro env hbox
  have hname : u.name = n := find_name _ _ _ hu
  have hpl : ∀ p ∈ plans ds coords pd dts, u.name ≠ p.name ∧ p.bounds ≠ some u.name := by
    intro p hp
    obtain ⟨c2, hc2, rfl⟩ := List.mem_map.mp hp
    obtain ⟨cv2, d2, hg2⟩ := h.good c2 hc2
    have e : planFor ds pd dts c2 = planOf cv2 d2 pd dts := by simp [planFor, hg2.found, hg2.dims]
    rw [e, hname]
    refine ⟨?_, hplain.2 c2 hc2 cv2 hg2.found⟩
    show n ≠ cv2.name
    rw [find_name _ _ _ hg2.found]
    exact fun e => hplain.1 (e ▸ hc2)
  rw [applyPlans_plain ds.sz _ u hpl, at_revPlans ds.sz _ u env hbox, sigma_eq_mirror ds coords pd dts h]
  apply at_congr
  exact mirror_on_dims ds coords ddims pd dts h hdd c hc cv d hg u.dims hone hd env

/-- any variable after normalisation: which cells are valid -/
theorem valid_normOut (ds : Dataset) (coords ddims : List String) (pd dts : Option Bool) (h : Valid ds coords)
    (hdd : dimsOf ds coords = some ddims) (c : String) (hc : c ∈ coords) (cv : Var) (d : String)
    (hg : GoodCoord ds c cv d) (e : Var)
    (hone : ∀ a ∈ ddims, ∀ b ∈ ddims, a ∈ e.dims → b ∈ e.dims → a = b) (hd : d ∈ e.dims) :
    ∀ env, InBox ds.sz e.dims env →
      ((applyPlans ds.sz (plans ds coords pd dts) e).at ds.sz env).isSome
        = (e.at ds.sz (if (planOf cv d pd dts).rev = true then flipEnv ds.sz d env else env)).isSome := by
  intro env hbox
  rw [isSome_at_applyPlans ds.sz _ e env hbox, sigma_eq_mirror ds coords pd dts h]
  congr 1
  apply at_congr
  exact mirror_on_dims ds coords ddims pd dts h hdd c hc cv d hg e.dims hone hd env

theorem flipIf_upd (sz : String → Nat) (d : String) (r : Bool) (env : Env) (j : Nat) :
    (if r = true then flipEnv sz d (upd env d j) else upd env d j)
      = upd env d (if r = true then sz d - 1 - j else j) := by
  cases r
  · simp
  · simp only [if_true, flipEnv]
    rw [upd_upd]
    simp [upd]

theorem qual_congr (ns : List String) (d : String) (v w : Var) (hd : v.dims = w.dims) (hc : v.isCoord = w.isCoord) :
    qual ns d v = qual ns d w ∧ spatialOf ns d v = spatialOf ns d w := by
  simp [qual, spatialOf, hd, hc]

end Ems.Depth
