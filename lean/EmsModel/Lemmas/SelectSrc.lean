import EmsModel.Core.SelectSrc
import EmsModel.Lemmas.NpArr
/-
Lemmas/SelectSrc.lean — list facts behind the evaluators of `Core/SelectSrc.lean`: `len(set(kinds)) > 1` is "some kind differs
from the first", and splitting the index tuples into columns and reading the rows back is the identity.
-/
namespace Ems
namespace SelectSrc

theorem numDistinct_pos : ∀ (l : List String), l ≠ [] → 0 < numDistinct l
  | [], h => absurd rfl h
  | x :: xs, _ => by
    unfold numDistinct
    split
    · rename_i hc
      have : xs ≠ [] := by intro h; subst h; simp at hc
      exact numDistinct_pos xs this
    · omega

theorem numDistinct_le_one_of_const (k : String) : ∀ (l : List String), (∀ a ∈ l, a = k) → numDistinct l ≤ 1
  | [], _ => by simp [numDistinct]
  | x :: xs, h => by
    have ih := numDistinct_le_one_of_const k xs (fun a ha => h a (List.mem_cons_of_mem _ ha))
    unfold numDistinct
    split
    · exact ih
    · rename_i hc
      have hx : x = k := h x (List.mem_cons_self ..)
      cases xs with
      | nil => simp [numDistinct]
      | cons y ys =>
        have hy : y = k := h y (by simp)
        subst hx; subst hy
        simp at hc

theorem const_of_numDistinct_le_one : ∀ (l : List String), numDistinct l ≤ 1 → ∀ a ∈ l, ∀ b ∈ l, a = b
  | [], _ => by simp
  | x :: xs, h => by
    unfold numDistinct at h
    split at h
    · rename_i hc
      have ih := const_of_numDistinct_le_one xs h
      have hx : x ∈ xs := by simpa using hc
      intro a ha b hb
      have ha' : a ∈ xs := by
        rcases List.mem_cons.1 ha with rfl | ha
        · exact hx
        · exact ha
      have hb' : b ∈ xs := by
        rcases List.mem_cons.1 hb with rfl | hb
        · exact hx
        · exact hb
      exact ih a ha' b hb'
    · have h0 : numDistinct xs = 0 := by omega
      have : xs = [] := by
        by_cases hxs : xs = []
        · exact hxs
        · have := numDistinct_pos xs hxs; omega
      subst this
      intro a ha b hb
      simp at ha hb
      rw [ha, hb]

/-- `len(set(grid_kinds)) > 1` exactly when some index has another kind than the first -/
theorem numKinds_gt_one (k : String) (c : List Nat) (rest : List (String × List Nat)) :
    decide (numDistinct (((k, c) :: rest).map (·.1)) > 1) = ((k, c) :: rest).any (fun i => i.1 != k) := by
  by_cases h : ((k, c) :: rest).any (fun i => i.1 != k) = true
  · rw [h]
    simp only [decide_eq_true_eq]
    rcases List.any_eq_true.1 h with ⟨i, hi, hne⟩
    by_cases hle : numDistinct (((k, c) :: rest).map (·.1)) ≤ 1
    · have := const_of_numDistinct_le_one _ hle i.1 (List.mem_map.2 ⟨i, hi, rfl⟩) k (by simp)
      simp [this] at hne
    · omega
  · have h' : ((k, c) :: rest).any (fun i => i.1 != k) = false := by simpa using h
    rw [h']
    simp only [gt_iff_lt, decide_eq_false_iff_not, Nat.not_lt]
    apply numDistinct_le_one_of_const k
    intro a ha
    rcases List.mem_map.1 ha with ⟨i, hi, rfl⟩
    have := List.any_eq_false.1 h' i hi
    simpa using this

/-- enumerating a list by position gives the list back -/
theorem range_map_getD {β : Type} (l : List β) (d : β) : (List.range l.length).map (fun i => l.getD i d) = l := by
  apply List.ext_getElem
  · simp
  · intro i h1 h2
    simp at h1
    simp [List.getD_eq_getElem?_getD, h1]

/-- the columns of equal-length rows, read back row by row, are the rows -/
theorem rows_of_cols (reqs : List (List Nat)) (m : Nat) (h : ∀ r ∈ reqs, r.length = m) :
    (List.range reqs.length).map (fun k => (List.range m).map fun i => (reqs.map (·.getD i 0)).getD k 0) = reqs := by
  apply List.ext_getElem
  · simp
  · intro k h1 h2
    have hm : reqs[k].length = m := h _ (List.getElem_mem h2)
    apply List.ext_getElem
    · simp [hm]
    · intro i h3 h4
      simp at h3
      simp [List.getD_eq_getElem?_getD, h2, h3, hm]

end SelectSrc
end Ems
