import EmsModel.Core.Select
import EmsModel.Lemmas.Ravel
/-! Reading `isel` / vectorised selections. Core Lean only. -/
namespace Ems
namespace NArr
variable {α : Type}

/-- a read only depends on what the environment assigns to the array's own dimensions -/
theorem get_congr (a : NArr α) (e1 e2 : Env) (h : ∀ d ∈ a.names, e1.get d = e2.get d) :
    a.get? e1 = a.get? e2 := by
  have : e1.index a.names = e2.index a.names := by
    simp only [Env.index]
    congr 1
    exact List.map_congr_left h
  simp only [get?, this]

/-- Reading a tabulated array whose tabulated function is itself a read of `a`
at an environment extended by `pre`. -/
theorem get_ofFn_read [Inhabited α] (a : NArr α) (dims : List Dim) (pre : Env) (e : Env)
    (v : String → Nat) (hn : (dims.map (·.1)).Nodup)
    (hv : ∀ d ∈ dims, e.get d.1 = some (v d.1) ∧ v d.1 < d.2)
    (hsome : ∃ x, a.get? (pre ++ e) = some x)
    (hcover : ∀ d ∈ a.names, (List.lookup d pre).isSome ∨ d ∈ dims.map (·.1)) :
    (ofFn dims fun e' => a.get? (pre ++ e')).get? e = a.get? (pre ++ e) := by
  have hidx : e.index (dims.map (·.1)) = some ((dims.map (·.1)).map v) :=
    index_of_fun e v _ (by
      intro d hd
      obtain ⟨d', hd', rfl⟩ := List.mem_map.mp hd
      exact (hv d' hd').1)
  have hr := inRange_map v dims (fun d hd => (hv d hd).2)
  rw [get_ofFn dims _ e _ hidx hr]
  have hc : a.get? (pre ++ (dims.map (·.1)).zip ((dims.map (·.1)).map v)) = a.get? (pre ++ e) := by
    apply get_congr
    intro d hd
    simp only [Env.get]
    rcases hcover d hd with hp | hp
    · obtain ⟨x, hx⟩ := Option.isSome_iff_exists.mp hp
      rw [lookup_append_left_some _ _ _ x hx, lookup_append_left_some _ _ _ x hx]
    · cases hpre : List.lookup d pre with
      | some x => rw [lookup_append_left_some _ _ _ x hpre, lookup_append_left_some _ _ _ x hpre]
      | none =>
        rw [lookup_append_left_none _ _ _ hpre, lookup_append_left_none _ _ _ hpre]
        rw [lookup_zip_map v _ hn d hp]
        obtain ⟨d', hd', rfl⟩ := List.mem_map.mp hp
        exact (hv d' hd').1.symm
  obtain ⟨x, hx⟩ := hsome
  rw [hc, hx]; rfl

/-- **`isel` keeps exactly the stored values**: the selected array read at `e` is the
original read at the selection extended by `e`; other dimensions are intact. -/
theorem isel_get [Inhabited α] (a : NArr α) (sel : Env) (e : Env) (v : String → Nat) (hwf : a.WF)
    (hv : ∀ d ∈ a.dims.filter (fun d => !(sel.map (·.1)).contains d.1),
      e.get d.1 = some (v d.1) ∧ v d.1 < d.2)
    (hsome : ∃ x, a.get? (sel ++ e) = some x) :
    (a.isel sel).get? e = a.get? (sel ++ e) := by
  unfold isel
  apply get_ofFn_read a _ sel e v _ hv hsome
  · intro d hd
    by_cases hs : d ∈ sel.map (·.1)
    · left
      obtain ⟨p, hp, rfl⟩ := List.mem_map.mp hs
      -- a key present in an association list is found by lookup
      have : ∀ (l : Env) (p : String × Nat), p ∈ l → (List.lookup p.1 l).isSome := by
        intro l
        induction l with
        | nil => intro p hp; simp at hp
        | cons q qs ih =>
          intro p hp
          obtain ⟨qk, qv⟩ := q
          simp only [List.lookup_cons]
          cases hk : p.1 == qk with
          | true => simp
          | false =>
            rcases List.mem_cons.mp hp with h | h
            · subst h; simp at hk
            · exact ih p h
      exact this sel p hp
    · right
      obtain ⟨d', hd', rfl⟩ := List.mem_map.mp hd
      apply List.mem_map_of_mem
      simp only [List.mem_filter]
      refine ⟨hd', ?_⟩
      cases hc : (sel.map (·.1)).contains d'.1 with
      | false => rfl
      | true => exact absurd (List.contains_iff_mem.mp hc) hs
  · have := filter_names' a.dims (fun d => !(sel.map (·.1)).contains d)
    rw [this]
    exact hwf.2.filter _
where
  filter_names' (dims : List Dim) (p : String → Bool) :
      (dims.filter (fun d => p d.1)).map (·.1) = (dims.map (·.1)).filter p := by
    induction dims with
    | nil => rfl
    | cons x xs ih =>
      simp only [List.filter_cons, List.map_cons]
      split <;> simp [ih]

end NArr
end Ems
