import EmsModel.Lemmas.DepthFloorSpec
/-!
Lemmas/DepthHyp.lean — executable versions of the hypotheses of the C12 / C13 theorems
(`Valid`, `FloorReady`, the `Setting` of C12) with their soundness: when the driver answers
`1` for an input of the correspondence run, the theorems speak about that input.
-/
namespace Ems.Depth

open Ems

def monoB (l : List Rat) : Bool := decide (l.Pairwise (· < ·)) || decide (l.Pairwise (· > ·))

/-- `GoodCoord`, decided -/
def goodCoordB (ds : Dataset) (c : String) : Bool :=
  match ds.find c with
  | none => false
  | some cv =>
    match cv.dims with
    | [d] =>
      cv.data.all (·.isSome) && decide (2 ≤ cv.data.length) && monoB (ratData cv)
        && (cv.positive == none || cv.positive == some "up" || cv.positive == some "down")
        && decide (cv.data.length = ds.sz d) && !(cv.bounds == some c)
    | _ => false

theorem goodCoordB_sound (ds : Dataset) (c : String) (h : goodCoordB ds c = true) :
    ∃ cv d, GoodCoord ds c cv d := by
  unfold goodCoordB at h
  cases hf : ds.find c with
  | none => simp [hf] at h
  | some cv =>
    simp only [hf] at h
    match hd : cv.dims with
    | [] => simp [hd] at h
    | _ :: _ :: _ => simp [hd] at h
    | [d] =>
      simp only [hd, Bool.and_eq_true, List.all_eq_true, decide_eq_true_eq, Bool.or_eq_true, beq_iff_eq,
        Bool.not_eq_true', beq_eq_false_iff_ne, ne_eq, monoB] at h
      obtain ⟨⟨⟨⟨⟨h1, h2⟩, h3⟩, h4⟩, h5⟩, h6⟩ := h
      refine ⟨cv, d, hf, hd, ?_, h2, h3, ?_, h5, h6⟩
      · intro x hx hxn
        have := h1 x hx
        rw [hxn] at this
        exact Bool.noConfusion this
      · rcases h4 with (h4 | h4) | h4
        · exact Or.inl h4
        · exact Or.inr (Or.inl h4)
        · exact Or.inr (Or.inr h4)

/-- `Indep`, decided (both variables must exist) -/
def indepB (ds : Dataset) (c1 c2 : String) : Bool :=
  match ds.find c1, ds.find c2 with
  | some cv1, some cv2 =>
    cv1.dims.all (fun d => !(cv2.dims.contains d)) && !(cv1.bounds == some c2) && !(cv2.bounds == some c1)
  | _, _ => false

theorem indepB_sound (ds : Dataset) (c1 c2 : String) (h : indepB ds c1 c2 = true) : Indep ds c1 c2 := by
  intro cv1 cv2 h1 h2
  simp only [indepB, h1, h2, Bool.and_eq_true, List.all_eq_true, Bool.not_eq_true', beq_eq_false_iff_ne, ne_eq,
    List.contains_eq_mem, decide_eq_false_iff_not] at h
  exact ⟨h.1.1, h.1.2, h.2⟩

def pairwiseB {α} (r : α → α → Bool) : List α → Bool
  | [] => true
  | x :: xs => xs.all (r x) && pairwiseB r xs

theorem pairwiseB_sound {α} (r : α → α → Bool) (R : α → α → Prop) (hr : ∀ a b, r a b = true → R a b) :
    ∀ l : List α, pairwiseB r l = true → l.Pairwise R
  | [], _ => List.Pairwise.nil
  | x :: xs, h => by
    simp only [pairwiseB, Bool.and_eq_true, List.all_eq_true] at h
    exact List.Pairwise.cons (fun y hy => hr x y (h.1 y hy)) (pairwiseB_sound r R hr xs h.2)

def nodupB (l : List String) : Bool := pairwiseB (fun a b => a != b) l

theorem nodupB_sound (l : List String) (h : nodupB l = true) : l.Nodup :=
  pairwiseB_sound _ _ (fun a b hab => by simpa using hab) l h

/-- `Valid`, decided -/
def validB (ds : Dataset) (coords : List String) : Bool :=
  coords.all (goodCoordB ds)
    && pairwiseB (fun c1 c2 => c1 != c2 && indepB ds c1 c2) coords
    && nodupB (ds.vars.map (·.name))
    && ds.vars.all (fun v => decide (v.WF ds.sz))

theorem validB_sound (ds : Dataset) (coords : List String) (h : validB ds coords = true) : Valid ds coords := by
  simp only [validB, Bool.and_eq_true, List.all_eq_true, decide_eq_true_eq] at h
  obtain ⟨⟨⟨h1, h2⟩, h3⟩, h4⟩ := h
  refine ⟨fun c hc => goodCoordB_sound ds c (h1 c hc), ?_, nodupB_sound _ h3, h4⟩
  apply pairwiseB_sound _ _ _ coords h2
  intro a b hab
  simp only [Bool.and_eq_true, bne_iff_ne, ne_eq] at hab
  exact ⟨hab.1, indepB_sound ds a b hab.2⟩

/-- `FloorReady`, decided -/
def floorReadyB (kb : Bool) (ddims : List String) (N : Dataset) : Bool :=
  nodupB (N.vars.map (·.name))
    && N.vars.all (fun v => ddims.all fun a => ddims.all fun b =>
        !(v.dims.contains a && v.dims.contains b) || a == b)
    && N.vars.all (fun v => !v.isCoord || ddims.all fun d => !(v.dims.contains d) || v.dims == [d])
    && (!kb || N.vars.all (fun v => N.vars.all fun w =>
        !(w.bounds == some v.name) || v.isCoord || ddims.all fun d => !(v.dims.contains d)))

theorem floorReadyB_sound (kb : Bool) (ddims : List String) (N : Dataset) (h : floorReadyB kb ddims N = true) :
    FloorReady kb ddims N := by
  simp only [floorReadyB, Bool.and_eq_true, List.all_eq_true, Bool.or_eq_true, Bool.not_eq_true',
    Bool.and_eq_false_iff, beq_iff_eq, List.contains_eq_mem, decide_eq_false_iff_not, decide_eq_true_eq,
    beq_eq_false_iff_ne, ne_eq] at h
  obtain ⟨⟨⟨h1, h2⟩, h3⟩, h4⟩ := h
  refine ⟨nodupB_sound _ h1, ?_, ?_, ?_⟩
  · intro v hv a ha b hb hav hbv
    rcases h2 v hv a ha b hb with (h | h) | h
    · exact absurd hav h
    · exact absurd hbv h
    · exact h
  · intro v hv hc d hd hdv
    rcases h3 v hv with h | h
    · rw [hc] at h; exact Bool.noConfusion h
    · rcases h d hd with h' | h'
      · exact absurd hdv h'
      · exact h'
  · intro hkb v hv w hw hb hc d hd
    rcases h4 with h | h
    · rw [hkb] at h; exact Bool.noConfusion h
    · rcases h v hv w hw with (h' | h') | h'
      · exact absurd hb h'
      · rw [hc] at h'; exact Bool.noConfusion h'
      · exact h' d hd

end Ems.Depth
