import EmsModel.Core.TimeUnits
import EmsModel.Lemmas.TimeUnits
/-!
Lemmas/TimeUnitsFormat.lean — what `formatCore` / `refInstant` returning a value tells about the
input, and re-reading the rendering.  Helper lemmas for `Props/C17.lean`.  Core Lean only.
-/
namespace Ems.TimeUnits

theorem render_form (p : Str) (f : Fields) (off : Int) : EmsForm p (render pad4 formatOffset p f off) := by
  refine ⟨dch (f.year.toNat / 1000), dch (f.year.toNat / 100), dch (f.year.toNat / 10), dch f.year.toNat,
    dch (f.month / 10), dch f.month, dch (f.day / 10), dch f.day, dch (f.hour / 10), dch f.hour,
    dch (f.minute / 10), dch f.minute, dch (f.second / 10), dch f.second,
    if off < 0 then '-' else '+', dch (off.natAbs / 60 / 10), dch (off.natAbs / 60),
    dch (off.natAbs % 60 / 10), dch (off.natAbs % 60), ?_, ?_, ?_⟩
  · simp [render, since, pad4, pad2, formatOffset]
  · intro ch hch
    simp only [List.mem_cons, List.mem_nil_iff, or_false] at hch
    rcases hch with h | h | h | h | h | h | h | h | h | h | h | h | h | h | h | h | h | h <;>
      (rw [h]; exact isDig_dch _)
  · by_cases h : off < 0 <;> simp [h]

/-- what `formatCore` returns is always a rendering of the unit it read -/
theorem formatCore_some (fy : Nat → Str) (fo : Int → Str) (c : CalOps) (calendar units out : Str)
    (ref : Int × Bool) (h : formatCore fy fo c calendar units = some (out, ref)) :
    ∃ p b, parseUnits units = some (p, b) ∧ b.off.natAbs < 1440 ∧
      refInstant c calendar units = some ref ∧
      c.valid (c.ofSec (ref.1 + 60 * b.off)) = true ∧
      out = render fy fo p (c.ofSec (ref.1 + 60 * b.off)) b.off := by
  unfold formatCore at h
  cases hp : parseUnits units with
  | none => simp [hp] at h
  | some pb =>
    obtain ⟨p, b⟩ := pb
    simp only [hp] at h
    by_cases ho : 1440 ≤ b.off.natAbs
    · simp [ho] at h
    · rw [if_neg ho] at h
      cases hr : refInstant c calendar units with
      | none => simp [hr] at h
      | some r =>
        obtain ⟨t, mic⟩ := r
        simp only [hr] at h
        by_cases hv : c.valid (c.ofSec (t + 60 * b.off)) = false
        · simp [hv] at h
        · rw [if_neg hv] at h
          simp only [Option.some.injEq, Prod.mk.injEq] at h
          obtain ⟨h1, h2⟩ := h
          subst h2
          refine ⟨p, b, rfl, by omega, rfl, by simpa using hv, h1.symm⟩

theorem allowedUnits_period : ∀ p ∈ allowedUnits,
    (p ≠ [] ∧ p.all (fun ch => !isWs ch) = true ∧ lower p = p) := by decide

theorem isPeriod_of_allowed (p : Str) (h : p ∈ allowedUnits) : IsPeriod p := by
  obtain ⟨h1, h2, h3⟩ := allowedUnits_period p h
  refine ⟨h1, ?_, h3⟩
  intro ch hch
  have := List.all_eq_true.mp h2 ch hch
  simpa using this

/-- what `refInstant` returning a value tells about the string -/
theorem refInstant_some (c : CalOps) (calendar units : Str) (t : Int) (mic : Bool)
    (h : refInstant c calendar units = some (t, mic)) :
    ∃ k p b, classifyCalendar calendar = some k ∧ parseUnits units = some (p, b) ∧ p ∈ allowedUnits ∧
      c.valid b.f = true ∧ t = c.toSec b.f - 60 * b.off ∧ mic = b.micro ∧
      c.toSec firstFields ≤ t ∧ t ≤ c.toSec lastFields ∧ pythonDate k (c.ofSec t) = true := by
  unfold refInstant at h
  cases hk : classifyCalendar calendar with
  | none => simp [hk] at h
  | some k =>
    cases hp : parseUnits units with
    | none => simp [hk, hp] at h
    | some pb =>
      obtain ⟨p, b⟩ := pb
      simp only [hk, hp] at h
      by_cases hm : p ∈ allowedUnits
      · rw [if_pos hm] at h
        unfold bitsInstant at h
        by_cases hv : c.valid b.f = false
        · simp [hv] at h
        · rw [if_neg hv] at h
          by_cases hr : c.toSec b.f - 60 * b.off < c.toSec firstFields ∨ c.toSec lastFields < c.toSec b.f - 60 * b.off
          · simp [hr] at h
          · simp only [] at h
            rw [if_neg hr] at h
            by_cases hpy : pythonDate k (c.ofSec (c.toSec b.f - 60 * b.off)) = false
            · simp [hpy] at h
            · rw [if_neg hpy] at h
              simp only [Option.some.injEq, Prod.mk.injEq] at h
              obtain ⟨h1, h2⟩ := h
              refine ⟨k, p, b, rfl, rfl, hm, by simpa using hv, h1.symm, h2.symm, ?_, ?_, ?_⟩
              · omega
              · omega
              · rw [← h1]; simpa using hpy
      · simp [hm] at h

/-- the EMS rendering of valid fields is read back as the same unit, fields and offset -/
theorem parseUnits_render (c : CalOps) (L : CalLaws c) (p : Str) (hp : p ∈ allowedUnits) (f : Fields)
    (hv : c.valid f = true) (off : Int) (ho : off.natAbs < 1440) :
    parseUnits (render pad4 formatOffset p f off) = some (p, ⟨f, false, off⟩) := by
  obtain ⟨hy1, hy2, _, hm, _, hd, hh, hmi, hs⟩ := L.bounds f hv
  have hP := isPeriod_of_allowed p hp
  -- the date part, seen as `digit :: rest` and as `init ++ [digit]`
  have hdate : ∀ tl, pad4 f.year.toNat ++ tl = dch (f.year.toNat / 1000) :: (dch (f.year.toNat / 100) ::
      dch (f.year.toNat / 10) :: dch f.year.toNat :: tl) := by intro tl; simp [pad4]
  have hrender : render pad4 formatOffset p f off = p ++ ' ' :: (since ++ ' ' :: emsDate f off) := by
    simp [render, emsDate]
  have hsplit : datesplit (render pad4 formatOffset p f off) = some (p, emsDate f off) := by
    rw [hrender]
    unfold emsDate
    rw [hdate]
    exact datesplit_render p hP _ (isWs_dch _) _
  have hstrip : stripR (emsDate f off) = emsDate f off := by
    have : emsDate f off = (pad4 f.year.toNat ++ '-' :: (pad2 f.month ++ '-' :: (pad2 f.day ++ ' ' :: (pad2 f.hour ++ ':' ::
        (pad2 f.minute ++ ':' :: (pad2 f.second ++ ' ' :: (if off < 0 then '-' else '+') ::
          (pad2 (off.natAbs / 60) ++ [':', dch (off.natAbs % 60 / 10)]))))))) ++ [dch (off.natAbs % 60)] := by
      simp [emsDate, formatOffset, pad2]
    rw [this]
    exact stripR_snoc _ _ (isWs_dch _)
  have hparse := parseDate_emsDate f off ⟨by omega, by omega⟩ (by omega) (by omega) (by omega) (by omega) (by omega) ho
  simp [parseUnits, hsplit, hstrip, hparse]

/-- core of `same_instant`: re-reading what `formatCore` wrote (with the demanded formatter) -/
theorem refInstant_formatCore (c : CalOps) (L : CalLaws c) (calendar units out : Str) (ref : Int × Bool)
    (h : formatCore pad4 formatOffset c calendar units = some (out, ref)) :
    refInstant c calendar out = some (ref.1, false) ∧
    ∃ p b, parseUnits units = some (p, b) ∧ parseUnits out = some (p, ⟨b.f, false, b.off⟩) ∧
      out = render pad4 formatOffset p b.f b.off := by
  obtain ⟨p, b, hp, ho, hr, hvl, hout⟩ := formatCore_some _ _ _ _ _ _ _ h
  obtain ⟨t, mic⟩ := ref
  obtain ⟨k, p', b', hk, hp', hu, hv, ht, hmic, hlo, hhi, hpy⟩ := refInstant_some c calendar units t mic hr
  rw [hp] at hp'
  obtain ⟨rfl, rfl⟩ : p = p' ∧ b = b' := by simpa using hp'
  -- the local fields rebuilt by `astimezone` are the fields that were read
  have hloc : c.ofSec (t + 60 * b.off) = b.f := by
    have : t + 60 * b.off = c.toSec b.f := by omega
    rw [this]; exact L.ofSec_toSec b.f hv
  simp only [hloc] at hout
  have hpu := parseUnits_render c L p hu b.f hv b.off ho
  rw [← hout] at hpu
  refine ⟨?_, p, b, hp, hpu, hout⟩
  have hlo' : ¬ (c.toSec b.f - 60 * b.off < c.toSec firstFields ∨ c.toSec lastFields < c.toSec b.f - 60 * b.off) := by omega
  have hpy' : pythonDate k (c.ofSec (c.toSec b.f - 60 * b.off)) = true := by rw [← ht]; exact hpy
  simp [refInstant, hk, hpu, hu, bitsInstant, hv, hlo', hpy', ht]

end Ems.TimeUnits
