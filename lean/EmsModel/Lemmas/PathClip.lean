import EmsModel.Core.PathClip
import Mathlib.Algebra.Order.Field.Rat
import Mathlib.Tactic.Linarith
import Mathlib.Tactic.Ring
/-!
Lemmas/PathClip.lean — the convex clipper of `Core/PathClip.lean` returns exactly the part of
a leg (of a path) that lies in the closed convex polygon.

The proof is one invariant: cutting an interval by the constraint `c + s d ≥ 0` keeps exactly
the parameters of the interval that satisfy the constraint (`mem_clipStep`); folding over the
edges keeps exactly those satisfying all of them (`mem_foldl_clipStep`); and the constraint of
an edge *is* its half-plane test at `legPoint a b s`, because the cross product is affine in
`s` (`edgeSide_legPoint`).
-/
namespace Ems.PathClip
open Ems

/-- membership of a parameter in a closed interval; `none` is the empty set -/
def IvMem (s : Rat) : Option (Rat × Rat) → Prop
  | none => False
  | some (lo, hi) => lo ≤ s ∧ s ≤ hi

theorem cross_legPoint (p q a b : Pt) (s : Rat) :
    cross p q (legPoint a b s) = cross p q a + s * (cross p q b - cross p q a) := by
  simp only [cross, legPoint]; ring

/-- the half-plane test of an edge is affine in the leg parameter -/
theorem edgeSide_legPoint (poly : Poly) (e : Pt × Pt) (a b : Pt) (s : Rat) :
    edgeSide poly e (legPoint a b s)
      = edgeSide poly e a + s * (edgeSide poly e b - edgeSide poly e a) := by
  simp only [edgeSide, cross_legPoint]; ring

theorem legPoint_zero (a b : Pt) : legPoint a b 0 = a := by
  simp [legPoint]

theorem legPoint_one (a b : Pt) : legPoint a b 1 = b := by
  simp [legPoint]

/-- one cut keeps exactly the parameters that satisfy the constraint -/
theorem mem_clipStep (iv : Option (Rat × Rat)) (cd : Rat × Rat) (s : Rat) :
    IvMem s (clipStep iv cd) ↔ IvMem s iv ∧ 0 ≤ cd.1 + s * cd.2 := by
  obtain ⟨c, d⟩ := cd
  cases iv with
  | none => simp [clipStep, IvMem]
  | some p =>
    obtain ⟨lo, hi⟩ := p
    simp only [clipStep]
    by_cases hd : 0 < d
    · have key : -c / d ≤ s ↔ 0 ≤ c + s * d := by
        rw [div_le_iff₀ hd]; constructor <;> intro h <;> linarith
      simp only [hd, if_true]
      by_cases hne : max lo (-c / d) ≤ hi
      · simp only [hne, if_true, IvMem, max_le_iff]
        rw [← key]; tauto
      · simp only [hne, if_false, IvMem, false_iff]
        rintro ⟨⟨h1, h2⟩, h3⟩
        exact hne (max_le (le_trans h1 h2) (le_trans (key.mpr h3) h2))
    · by_cases hd' : d < 0
      · have key : s ≤ -c / d ↔ 0 ≤ c + s * d := by
          have e : -c / d = c / (-d) := by rw [div_neg, neg_div]
          rw [e, le_div_iff₀ (neg_pos.mpr hd')]; constructor <;> intro h <;> linarith
        simp only [hd, hd', if_true, if_false]
        by_cases hne : lo ≤ min hi (-c / d)
        · simp only [hne, if_true, IvMem, le_min_iff]
          rw [← key]; tauto
        · simp only [hne, if_false, IvMem, false_iff]
          rintro ⟨⟨h1, h2⟩, h3⟩
          exact hne (le_min (le_trans h1 h2) (le_trans h1 (key.mpr h3)))
      · have hz : d = 0 := le_antisymm (not_lt.mp hd) (not_lt.mp hd')
        subst hz
        simp only [lt_irrefl, if_false, mul_zero, add_zero]
        by_cases hc : 0 ≤ c
        · simp [hc, IvMem]
        · simp [hc, IvMem]

/-- folding over all constraints keeps exactly the parameters that satisfy every one of them -/
theorem mem_foldl_clipStep (cs : List (Rat × Rat)) (iv : Option (Rat × Rat)) (s : Rat) :
    IvMem s (cs.foldl clipStep iv) ↔ IvMem s iv ∧ ∀ cd ∈ cs, 0 ≤ cd.1 + s * cd.2 := by
  induction cs generalizing iv with
  | nil => simp
  | cons cd rest ih =>
    rw [List.foldl_cons, ih, mem_clipStep]
    simp only [List.mem_cons, forall_eq_or_imp]
    tauto

/-- an interval that is returned is never empty -/
theorem clipStep_valid (iv : Option (Rat × Rat)) (cd : Rat × Rat)
    (hv : ∀ lo hi, iv = some (lo, hi) → lo ≤ hi) (lo hi : Rat)
    (h : clipStep iv cd = some (lo, hi)) : lo ≤ hi := by
  cases iv with
  | none => simp [clipStep] at h
  | some p =>
    obtain ⟨l0, h0⟩ := p
    have hv0 := hv l0 h0 rfl
    simp only [clipStep] at h
    split at h
    · split at h
      · rename_i hle
        simp only [Option.some.injEq, Prod.mk.injEq] at h
        rw [← h.1, ← h.2]; exact hle
      · simp at h
    · split at h
      · split at h
        · rename_i hle
          simp only [Option.some.injEq, Prod.mk.injEq] at h
          rw [← h.1, ← h.2]; exact hle
        · simp at h
      · split at h
        · simp only [Option.some.injEq, Prod.mk.injEq] at h
          rw [← h.1, ← h.2]; exact hv0
        · simp at h

theorem foldl_clipStep_valid (cs : List (Rat × Rat)) (iv : Option (Rat × Rat))
    (hv : ∀ lo hi, iv = some (lo, hi) → lo ≤ hi) (lo hi : Rat)
    (h : cs.foldl clipStep iv = some (lo, hi)) : lo ≤ hi := by
  induction cs generalizing iv with
  | nil => exact hv lo hi h
  | cons cd rest ih =>
    rw [List.foldl_cons] at h
    exact ih (clipStep iv cd) (fun l r e => clipStep_valid iv cd hv l r e) h

/-- the constraints of the edges are the half-plane tests at `legPoint a b s` -/
theorem constraints_iff_inside (poly : Poly) (a b : Pt) (s : Rat) :
    (∀ cd ∈ edgeConstraints poly a b, 0 ≤ cd.1 + s * cd.2) ↔ insideConvex poly (legPoint a b s) := by
  simp only [edgeConstraints, List.mem_map, forall_exists_index, and_imp, insideConvex]
  constructor
  · intro h e he
    rw [edgeSide_legPoint]
    exact h _ e he rfl
  · rintro h cd e he rfl
    have := h e he
    rw [edgeSide_legPoint] at this
    exact this

/-- **the clip is exactly the part of the leg inside the polygon** (as a set of parameters) -/
theorem mem_clipLegConvex (poly : Poly) (a b : Pt) (s : Rat) :
    IvMem s (clipLegConvex poly a b) ↔ (0 ≤ s ∧ s ≤ 1) ∧ insideConvex poly (legPoint a b s) := by
  rw [clipLegConvex, mem_foldl_clipStep, constraints_iff_inside]
  simp [IvMem]

theorem clipLegConvex_valid (poly : Poly) (a b : Pt) (lo hi : Rat)
    (h : clipLegConvex poly a b = some (lo, hi)) : lo ≤ hi := by
  refine foldl_clipStep_valid _ (some (0, 1)) ?_ lo hi h
  intro l r e
  simp only [Option.some.injEq, Prod.mk.injEq] at e
  rw [← e.1, ← e.2]; decide

theorem clipLegConvex_bounds (poly : Poly) (a b : Pt) (lo hi : Rat)
    (h : clipLegConvex poly a b = some (lo, hi)) : 0 ≤ lo ∧ lo ≤ hi ∧ hi ≤ 1 := by
  have hv := clipLegConvex_valid poly a b lo hi h
  have hlo := (mem_clipLegConvex poly a b lo).mp (by rw [h]; exact ⟨le_refl _, hv⟩)
  have hhi := (mem_clipLegConvex poly a b hi).mp (by rw [h]; exact ⟨hv, le_refl _⟩)
  exact ⟨hlo.1.1, hv, hhi.1.2⟩

theorem clipLegConvexPiece_eq_some (poly : Poly) (a b : Pt) (lo hi : Rat) :
    clipLegConvexPiece poly a b = some (lo, hi) ↔ clipLegConvex poly a b = some (lo, hi) ∧ lo < hi := by
  unfold clipLegConvexPiece
  cases h : clipLegConvex poly a b with
  | none => simp
  | some p =>
    obtain ⟨l, r⟩ := p
    by_cases hlt : l < r
    · simp only [hlt, if_true, Option.some.injEq, Prod.mk.injEq]
      constructor
      · rintro ⟨rfl, rfl⟩; exact ⟨⟨rfl, rfl⟩, hlt⟩
      · rintro ⟨⟨rfl, rfl⟩, _⟩; exact ⟨rfl, rfl⟩
    · simp only [hlt, if_false, Option.some.injEq, Prod.mk.injEq, reduceCtorEq, false_iff]
      rintro ⟨⟨rfl, rfl⟩, h2⟩; exact hlt h2

/-! ### merging contiguous pieces keeps the covered set -/

/-- `t` lies in one of the closed intervals of the list -/
def Covered (l : List (Rat × Rat)) (t : Rat) : Prop := ∃ p ∈ l, p.1 ≤ t ∧ t ≤ p.2

theorem covered_nil (t : Rat) : Covered [] t ↔ False := by simp [Covered]

theorem covered_cons (p : Rat × Rat) (l : List (Rat × Rat)) (t : Rat) :
    Covered (p :: l) t ↔ (p.1 ≤ t ∧ t ≤ p.2) ∨ Covered l t := by
  simp [Covered]

theorem mergePieces_spec (l : List (Rat × Rat)) (hv : ∀ p ∈ l, p.1 < p.2) :
    (∀ p ∈ mergePieces l, p.1 < p.2) ∧ ∀ t, Covered (mergePieces l) t ↔ Covered l t := by
  induction l with
  | nil => simp [mergePieces]
  | cons p rest ih =>
    have hp : p.1 < p.2 := hv p (List.mem_cons_self ..)
    obtain ⟨ihv, ihc⟩ := ih (fun q hq => hv q (List.mem_cons_of_mem _ hq))
    cases hm : mergePieces rest with
    | nil =>
      rw [hm] at ihc
      simp only [mergePieces, hm]
      refine ⟨by simpa using hp, fun t => ?_⟩
      rw [covered_cons p [], covered_cons p rest, ← ihc t]
    | cons q qs =>
      rw [hm] at ihc ihv
      have hq : q.1 < q.2 := ihv q (List.mem_cons_self ..)
      simp only [mergePieces, hm]
      by_cases he : p.2 = q.1
      · simp only [he, if_true]
        constructor
        · intro x hx
          rcases List.mem_cons.mp hx with rfl | hx
          · show p.1 < q.2
            rw [he] at hp; exact lt_trans hp hq
          · exact ihv x (List.mem_cons_of_mem _ hx)
        · intro t
          rw [covered_cons (p.1, q.2) qs, covered_cons p rest, ← ihc t, covered_cons q qs]
          constructor
          · rintro (⟨h1, h2⟩ | h)
            · rcases le_total t p.2 with h3 | h3
              · exact Or.inl ⟨h1, h3⟩
              · exact Or.inr (Or.inl ⟨he ▸ h3, h2⟩)
            · exact Or.inr (Or.inr h)
          · rintro (⟨h1, h2⟩ | ⟨h1, h2⟩ | h)
            · exact Or.inl ⟨h1, le_trans h2 (he ▸ le_of_lt hq)⟩
            · exact Or.inl ⟨le_trans (le_of_lt hp) (he ▸ h1), h2⟩
            · exact Or.inr h
      · simp only [he, if_false]
        constructor
        · intro x hx
          rcases List.mem_cons.mp hx with rfl | hx
          · exact hp
          · exact ihv x hx
        · intro t
          rw [covered_cons p (q :: qs), covered_cons p rest, ← ihc t]

/-! ### the legs of a path -/

theorem mem_pathLegs (path : List Pt) (k : Nat) (a b : Pt) :
    (k, a, b) ∈ pathLegs path ↔ path[k]? = some a ∧ path[k + 1]? = some b := by
  simp only [pathLegs, List.mem_filterMap, List.mem_range]
  constructor
  · rintro ⟨j, _, hj⟩
    split at hj
    · rename_i x y hx hy
      simp only [Option.some.injEq, Prod.mk.injEq] at hj
      obtain ⟨rfl, rfl, rfl⟩ := hj
      exact ⟨hx, hy⟩
    · simp at hj
  · rintro ⟨ha, hb⟩
    refine ⟨k, ?_, by simp [ha, hb]⟩
    have := (List.getElem?_eq_some_iff.mp hb).1
    omega

theorem mem_rawPathConvex (poly : Poly) (path : List Pt) (p : Rat × Rat) :
    p ∈ rawPathConvex poly path ↔ ∃ (k : Nat) (a b : Pt) (lo hi : Rat),
      path[k]? = some a ∧ path[k + 1]? = some b ∧
      clipLegConvexPiece poly a b = some (lo, hi) ∧ p = ((k : Rat) + lo, (k : Rat) + hi) := by
  simp only [rawPathConvex, List.mem_filterMap, Option.map_eq_some_iff]
  constructor
  · rintro ⟨⟨k, a, b⟩, hl, ⟨lo, hi⟩, hc, rfl⟩
    exact ⟨k, a, b, lo, hi, ((mem_pathLegs path k a b).mp hl).1, ((mem_pathLegs path k a b).mp hl).2, hc, rfl⟩
  · rintro ⟨k, a, b, lo, hi, ha, hb, hc, rfl⟩
    exact ⟨(k, a, b), (mem_pathLegs path k a b).mpr ⟨ha, hb⟩, (lo, hi), hc, rfl⟩

theorem rawPathConvex_proper (poly : Poly) (path : List Pt) :
    ∀ p ∈ rawPathConvex poly path, p.1 < p.2 := by
  intro p hp
  obtain ⟨k, a, b, lo, hi, _, _, hc, rfl⟩ := (mem_rawPathConvex poly path p).mp hp
  have := ((clipLegConvexPiece_eq_some poly a b lo hi).mp hc).2
  show (k : Rat) + lo < (k : Rat) + hi
  linarith

/-! ### whole paths -/

/-- every parameter inside a returned piece denotes a point of the path inside the polygon -/
theorem clipPathConvex_sound (poly : Poly) (path : List Pt) (t : Rat)
    (h : Covered (clipPathConvex poly path) t) :
    ∃ q, OnPath path t q ∧ insideConvex poly q := by
  have hraw := ((mergePieces_spec _ (rawPathConvex_proper poly path)).2 t).mp h
  obtain ⟨r, hr, hr1, hr2⟩ := hraw
  obtain ⟨k, a, b, lo, hi, ha, hb, hc, rfl⟩ := (mem_rawPathConvex poly path r).mp hr
  obtain ⟨hcl, _⟩ := (clipLegConvexPiece_eq_some poly a b lo hi).mp hc
  have hr1' : (k : Rat) + lo ≤ t := hr1
  have hr2' : t ≤ (k : Rat) + hi := hr2
  have hmem : IvMem (t - k) (clipLegConvex poly a b) := by
    rw [hcl]; exact ⟨by linarith, by linarith⟩
  have hin := (mem_clipLegConvex poly a b (t - k)).mp hmem
  exact ⟨legPoint a b (t - k), ⟨k, a, b, t - k, ha, hb, hin.1.1, hin.1.2, by ring, rfl⟩, hin.2⟩

/-- conversely: a point of leg `k` inside the polygon is in a returned piece, unless it is the
only point of that leg inside the polygon (a point touch, which emsarray drops) -/
theorem clipPathConvex_complete (poly : Poly) (path : List Pt) (k : Nat) (a b : Pt) (s s' : Rat)
    (ha : path[k]? = some a) (hb : path[k + 1]? = some b)
    (hs : 0 ≤ s ∧ s ≤ 1) (hs' : 0 ≤ s' ∧ s' ≤ 1) (hne : s ≠ s')
    (hin : insideConvex poly (legPoint a b s)) (hin' : insideConvex poly (legPoint a b s')) :
    Covered (clipPathConvex poly path) ((k : Rat) + s) := by
  have m1 := (mem_clipLegConvex poly a b s).mpr ⟨hs, hin⟩
  have m2 := (mem_clipLegConvex poly a b s').mpr ⟨hs', hin'⟩
  cases hcl : clipLegConvex poly a b with
  | none => rw [hcl] at m1; exact m1.elim
  | some p =>
    obtain ⟨lo, hi⟩ := p
    rw [hcl] at m1 m2
    have hlt : lo < hi := by
      rcases lt_or_gt_of_ne hne with h | h
      · exact lt_of_le_of_lt m1.1 (lt_of_lt_of_le h m2.2)
      · exact lt_of_le_of_lt m2.1 (lt_of_lt_of_le h m1.2)
    have hpiece := (clipLegConvexPiece_eq_some poly a b lo hi).mpr ⟨hcl, hlt⟩
    have hraw : Covered (rawPathConvex poly path) ((k : Rat) + s) := by
      refine ⟨((k : Rat) + lo, (k : Rat) + hi),
        (mem_rawPathConvex poly path _).mpr ⟨k, a, b, lo, hi, ha, hb, hpiece, rfl⟩, ?_, ?_⟩
      · show (k : Rat) + lo ≤ (k : Rat) + s
        linarith [m1.1]
      · show (k : Rat) + s ≤ (k : Rat) + hi
        linarith [m1.2]
    exact ((mergePieces_spec _ (rawPathConvex_proper poly path)).2 _).mpr hraw

/-- the returned pieces are proper intervals -/
theorem clipPathConvex_proper (poly : Poly) (path : List Pt) :
    ∀ p ∈ clipPathConvex poly path, p.1 < p.2 :=
  (mergePieces_spec _ (rawPathConvex_proper poly path)).1

/-- a path parameter denotes one point only (`k + 1` and `(k+1) + 0` are the same vertex) -/
theorem onPath_unique (path : List Pt) (t : Rat) (p q : Pt)
    (hp : OnPath path t p) (hq : OnPath path t q) : p = q := by
  obtain ⟨k, a, b, s, ha, hb, hs0, hs1, ht, rfl⟩ := hp
  obtain ⟨k', a', b', s', ha', hb', hs0', hs1', ht', rfl⟩ := hq
  have key : ∀ (k k' : Nat) (a b a' b' : Pt) (s s' : Rat), path[k]? = some a → path[k + 1]? = some b →
      path[k']? = some a' → path[k' + 1]? = some b' → 0 ≤ s → s ≤ 1 → 0 ≤ s' → s' ≤ 1 →
      (k : Rat) + s = (k' : Rat) + s' → k < k' → legPoint a b s = legPoint a' b' s' := by
    intro k k' a b a' b' s s' ha hb ha' hb' hs0 hs1 hs0' hs1' he hlt
    have h1 : (k : Rat) + 1 ≤ (k' : Rat) := by exact_mod_cast hlt
    have hs : s = 1 := by linarith
    have hs' : s' = 0 := by linarith
    have hk : (k' : Rat) = (k : Rat) + 1 := by linarith
    have hk' : k' = k + 1 := by exact_mod_cast hk
    subst hk' hs hs'
    rw [hb] at ha'
    simp only [Option.some.injEq] at ha'
    rw [legPoint_one, legPoint_zero, ha']
  rcases Nat.lt_trichotomy k k' with h | h | h
  · exact key k k' a b a' b' s s' ha hb ha' hb' hs0 hs1 hs0' hs1' (ht ▸ ht') h
  · subst h
    rw [ha] at ha'; rw [hb] at hb'
    simp only [Option.some.injEq] at ha' hb'
    have : s = s' := by linarith
    rw [ha', hb', this]
  · exact (key k' k a' b' a b s' s ha' hb' ha hb hs0' hs1' hs0 hs1 (ht' ▸ ht) h).symm

/-! ### cells with disjoint interiors share boundary points only -/

theorem edgeSide_legPoint_convex (poly : Poly) (e : Pt × Pt) (x q : Pt) (ε : Rat) :
    edgeSide poly e (legPoint x q ε) = (1 - ε) * edgeSide poly e x + ε * edgeSide poly e q := by
  rw [edgeSide_legPoint]; ring

/-- a point strictly inside finitely many half-planes stays strictly inside them when it is
moved a little towards any other point -/
theorem exists_step_inside (poly : Poly) (es : List (Pt × Pt)) (x q : Pt)
    (hx : ∀ e ∈ es, 0 < edgeSide poly e x) :
    ∃ ε0 : Rat, 0 < ε0 ∧ ε0 ≤ 1 ∧
      ∀ ε, 0 < ε → ε ≤ ε0 → ∀ e ∈ es, 0 < edgeSide poly e (legPoint x q ε) := by
  induction es with
  | nil => exact ⟨1, by decide, le_refl _, by simp⟩
  | cons e rest ih =>
    obtain ⟨ε1, h0, h1, hall⟩ := ih (fun e he => hx e (List.mem_cons_of_mem _ he))
    have hu : 0 < edgeSide poly e x := hx e (List.mem_cons_self ..)
    by_cases hv : edgeSide poly e x ≤ edgeSide poly e q
    · refine ⟨ε1, h0, h1, fun ε he0 he1 e' he' => ?_⟩
      rcases List.mem_cons.mp he' with rfl | he'
      · rw [edgeSide_legPoint]
        have : 0 ≤ ε * (edgeSide poly e' q - edgeSide poly e' x) :=
          mul_nonneg (le_of_lt he0) (by linarith)
        linarith
      · exact hall ε he0 he1 e' he'
    · have hw : 0 < 2 * (edgeSide poly e x - edgeSide poly e q) := by linarith [not_le.mp hv]
      refine ⟨min ε1 (edgeSide poly e x / (2 * (edgeSide poly e x - edgeSide poly e q))),
        lt_min h0 (div_pos hu hw), le_trans (min_le_left _ _) h1, fun ε he0 he1 e' he' => ?_⟩
      rcases List.mem_cons.mp he' with rfl | he'
      · have h2 := (le_div_iff₀ hw).mp (le_trans he1 (min_le_right _ _))
        rw [edgeSide_legPoint]
        linarith
      · exact hall ε he0 (le_trans he1 (min_le_left _ _)) e' he'

/-- if no point is strictly inside both cells and `Q` has an interior, a point of the closed
cell `Q` is not strictly inside `P` -/
theorem not_strictInside_of_disjoint (P Q : Poly)
    (hdis : ∀ p, ¬ (strictInside P p ∧ strictInside Q p)) (hQ : ∃ q, strictInside Q q)
    (x : Pt) (hxQ : insideConvex Q x) : ¬ strictInside P x := by
  intro hxP
  obtain ⟨q0, hq0⟩ := hQ
  obtain ⟨ε, h0, h1, hall⟩ := exists_step_inside P (ringEdges P) x q0 hxP
  refine hdis (legPoint x q0 ε) ⟨hall ε h0 (le_refl _), fun e he => ?_⟩
  rw [edgeSide_legPoint_convex]
  have a1 : 0 ≤ (1 - ε) * edgeSide Q e x := mul_nonneg (by linarith) (hxQ e he)
  have a2 : 0 < ε * edgeSide Q e q0 := mul_pos h0 (hq0 e he)
  linarith

/-! ### the half-plane set is convex and, for a ring accepted by `convex`, contains the ring -/

theorem insideConvex_iff (poly : Poly) (p : Pt) : insideConvexB poly p = true ↔ insideConvex poly p := by
  simp [insideConvexB, insideConvex]

theorem strictInside_iff (poly : Poly) (p : Pt) : strictInsideB poly p = true ↔ strictInside poly p := by
  simp [strictInsideB, strictInside]

/-- the segment between two points of the half-plane set lies in it -/
theorem insideConvex_legPoint (poly : Poly) (x y : Pt) (s : Rat) (h0 : 0 ≤ s) (h1 : s ≤ 1)
    (hx : insideConvex poly x) (hy : insideConvex poly y) : insideConvex poly (legPoint x y s) := by
  intro e he
  rw [edgeSide_legPoint_convex]
  have a1 : 0 ≤ (1 - s) * edgeSide poly e x := mul_nonneg (by linarith) (hx e he)
  have a2 : 0 ≤ s * edgeSide poly e y := mul_nonneg h0 (hy e he)
  linarith

/-- a ring accepted by `convex` has all its vertices in its half-plane set (so, by
`insideConvex_legPoint`, all its edges and everything spanned by them) -/
theorem convex_vertices_inside (poly : Poly) (h : convex poly = true) :
    ∀ v ∈ poly, insideConvex poly v := by
  intro v hv
  simp only [convex, Bool.and_eq_true, List.all_eq_true] at h
  exact (insideConvex_iff poly v).mp (h.2 v hv)

end Ems.PathClip
