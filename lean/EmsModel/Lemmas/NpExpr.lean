import EmsModel.Lemmas.NpArr
/-!
Lemmas/NpExpr.lean — what an expression of `Core/NpExpr.lean` evaluates to, element by element.

`shapeOf env e` is the shape of the value of `e` (`none` where `eval` fails) and `getOf env e idx` its
element at multi-index `idx`, both computed WITHOUT materialising any intermediate array: they follow
the index maps of the operations (`stack`: drop position `k` of the index and pick the `idx[k]`-th operand;
`broadcast_to`: read an axis of length 1 at 0; `transpose`: permute the index; subscripts: offset / fix
the index; `reshape`: same C-order position; `concatenate`: locate the piece).

`eval_sound` is the generic theorem, for every expression, every shape and every environment:
`shapeOf env e = some s → eval env e = some (tabulate s (getOf env e))` — the array the evaluator
builds, flattened in C order, holds at every multi-index exactly the element the index maps name.
The per-operation `get` lemmas (`stackArr_eq`, `expandDimsArr_eq`, `broadcastArr_eq`, `transposeArr_eq`,
`sliceArr_eq`, `reshapeArr_eq`, `concatArr_eq`, `zipArr_eq`, `divArr_eq`, `padArr_eq`, `mapArr_eq`, `zipWithArr_eq`,
`whereSetArr_eq`, `reduceArr_eq`, `windowAnyArr_eq`) are its cases.
Core Lean only.
-/
namespace Ems
open NpArr

/-! ### the element-wise reading of expressions -/

mutual
/-- shape of the value of an expression; `none` exactly where `eval` is `none` -/
def shapeOf (env : NpEnv) : NpExpr → Option (List Nat)
  | .var name => (List.lookup name env.arrs).map (·.shape)
  | .stack xs ax =>
    match shapesOf env xs with
    | some (s :: ss) =>
      if ss.all (· == s) then (ax.norm (s.length + 1)).map fun k => insertAt k (ss.length + 1) s else none
    | _ => none
  | .expandDims x ax => (shapeOf env x).bind fun s => (ax.norm (s.length + 1)).map fun k => insertAt k 1 s
  | .broadcastTo x dims => (shapeOf env x).bind fun s => (plainDims env dims).bind fun t =>
      if s.length ≤ t.length ∧ bcastOk s (t.drop (t.length - s.length)) then some t else none
  | .transpose x perm => (shapeOf env x).bind fun s =>
      if permOk perm s.length then some (perm.map fun a => s.getD a 0) else none
  | .reshape x dims => (shapeOf env x).bind fun s => (resolveDims env (size s) dims).bind fun s' =>
      if size s' = size s then some s' else none
  | .slice x ix => (shapeOf env x).bind fun s => sliceShape ix s
  | .concat xs =>
    match shapesOf env xs with
    | some ((d :: tl) :: ss) =>
      if ss.all (fun t => t.drop 1 == tl && t.length == tl.length + 1) then
        some ((d + (ss.map (·.headD 0)).sum) :: tl)
      else none
    | _ => none
  | .add a b => (shapeOf env a).bind fun s => (shapeOf env b).bind fun t => if s = t then some s else none
  | .sub a b => (shapeOf env a).bind fun s => (shapeOf env b).bind fun t => if s = t then some s else none
  | .divConst a c => if c = 0 then none else shapeOf env a
  | .pad x ws _ => (shapeOf env x).bind fun s => if ws.length = s.length then some (padShape ws s) else none
  | .isnan x => shapeOf env x
  | .band a b => (shapeOf env a).bind fun s => (shapeOf env b).bind fun t => if s = t then some s else none
  | .bor a b => (shapeOf env a).bind fun s => (shapeOf env b).bind fun t => if s = t then some s else none
  | .whereSet x m _ => (shapeOf env x).bind fun s => (shapeOf env m).bind fun t =>
      if t = s.take t.length then some s else none
  | .nanmeanAxis x ax => (shapeOf env x).bind fun s => (ax.norm s.length).map fun k => removeAt k s
  | .anyAxis x ax => (shapeOf env x).bind fun s => (ax.norm s.length).map fun k => removeAt k s
  | .padAll x w _ => (shapeOf env x).bind fun s => (w.val env.sizes).map fun n =>
      padShape (List.replicate s.length (n, n)) s
  | .windowAny x p e => (shapeOf env x).bind fun s => (shapeOf env p).bind fun t => (e.val env.sizes).bind fun _ =>
      if t.length = s.length then some s else none
  | .unsupported _ => none
def shapesOf (env : NpEnv) : List NpExpr → Option (List (List Nat))
  | [] => some []
  | x :: xs =>
    match shapeOf env x, shapesOf env xs with
    | some s, some ss => some (s :: ss)
    | _, _ => none
end

mutual
/-- element `idx` of the value of an expression, through the index maps of the operations -/
def getOf (env : NpEnv) : NpExpr → List Nat → Option Rat
  | .var name, idx =>
    match List.lookup name env.arrs with
    | some a => a.get idx
    | none => none
  | .stack xs ax, idx =>
    match ax.norm idx.length with
    | some k => getOfList env xs (idx.getD k 0) (removeAt k idx)
    | none => none
  | .expandDims x ax, idx =>
    match ax.norm idx.length with
    | some k => getOf env x (removeAt k idx)
    | none => none
  | .broadcastTo x _, idx =>
    match shapeOf env x with
    | some s => getOf env x (bcastIdx s (idx.drop (idx.length - s.length)))
    | none => none
  | .transpose x perm, idx => getOf env x (transposeIdx perm idx)
  | .reshape x dims, idx =>
    match shapeOf env x, shapeOf env (.reshape x dims) with
    | some s, some s' =>
      match (ravel s' idx).bind (unravel s) with
      | some i => getOf env x i
      | none => none
    | _, _ => none
  | .slice x ix, idx =>
    match shapeOf env x with
    | some s => getOf env x (sliceIdx ix s idx)
    | none => none
  | .concat xs, idx =>
    match idx with
    | i :: r => concatGetOf env xs i r
    | [] => none
  | .add a b, idx => lift2 (· + ·) (getOf env a idx) (getOf env b idx)
  | .sub a b, idx => lift2 (· - ·) (getOf env a idx) (getOf env b idx)
  | .divConst a c, idx => (getOf env a idx).map (· / c)
  | .pad x ws fill, idx =>
    match shapeOf env x with
    | some s => if padIn ws s idx then getOf env x (padSrc ws idx) else fill
    | none => none
  | .isnan x, idx => isnanV (getOf env x idx)
  | .band a b, idx => bandV (getOf env a idx) (getOf env b idx)
  | .bor a b, idx => borV (getOf env a idx) (getOf env b idx)
  | .whereSet x m v, idx =>
    match shapeOf env m with
    | some t => if truthy (getOf env m (idx.take t.length)) then v else getOf env x idx
    | none => none
  | .nanmeanAxis x ax, idx =>
    match shapeOf env x with
    | some s =>
      match ax.norm s.length with
      | some k => nanmean ((List.range (s.getD k 0)).map fun t => getOf env x (insertAt k t idx))
      | none => none
    | none => none
  | .anyAxis x ax, idx =>
    match shapeOf env x with
    | some s =>
      match ax.norm s.length with
      | some k => anyV ((List.range (s.getD k 0)).map fun t => getOf env x (insertAt k t idx))
      | none => none
    | none => none
  | .padAll x w fill, idx =>
    match shapeOf env x, w.val env.sizes with
    | some s, some n =>
      if padIn (List.replicate s.length (n, n)) s idx then getOf env x (padSrc (List.replicate s.length (n, n)) idx)
      else fill
    | _, _ => none
  | .windowAny x p e, idx =>
    match shapeOf env p, e.val env.sizes with
    | some t, some n => boolVal (truthy (getOf env x idx) || anyWindowAt t (fun i => getOf env p i) idx n)
    | _, _ => none
  | .unsupported _, _ => none
/-- element `idx` of the `i`-th expression of a list -/
def getOfList (env : NpEnv) : List NpExpr → Nat → List Nat → Option Rat
  | [], _, _ => none
  | x :: _, 0, idx => getOf env x idx
  | _ :: xs, i + 1, idx => getOfList env xs i idx
/-- element `i :: r` of the concatenation of a list of expressions -/
def concatGetOf (env : NpEnv) : List NpExpr → Nat → List Nat → Option Rat
  | [], _, _ => none
  | x :: xs, i, r =>
    match shapeOf env x with
    | some (d :: _) => if i < d then getOf env x (i :: r) else concatGetOf env xs (i - d) r
    | _ => none
end

/-- every input array holds as many values as its shape says -/
def NpEnv.WF (env : NpEnv) : Prop := ∀ p ∈ env.arrs, p.2.WF

/-- the arrays a list of expressions denotes -/
def views (env : NpEnv) : List NpExpr → List (List Nat) → List NpArr
  | x :: xs, s :: ss => tabulate s (getOf env x) :: views env xs ss
  | _, _ => []

/-! ### one lemma per operation: the operation on tabulated arrays is the tabulated index map -/

theorem expandDimsArr_eq (s : List Nat) (f : List Nat → Option Rat) (ax : Axis) (k : Nat)
    (hk : ax.norm (s.length + 1) = some k) :
    expandDimsArr (tabulate s f) ax = some (tabulate (insertAt k 1 s) fun idx => f (removeAt k idx)) := by
  simp only [expandDimsArr, tabulate_shape, hk, Option.map_some, Option.some.injEq]
  apply tabulate_congr
  intro idx hidx
  have hk' := Axis.norm_lt _ _ _ hk
  exact get_tabulate _ _ _ (inRange_insertAt k 1 s idx (by omega) hidx).1

theorem broadcastArr_eq (s t : List Nat) (f : List Nat → Option Rat)
    (h : s.length ≤ t.length ∧ bcastOk s (t.drop (t.length - s.length)) = true) :
    broadcastArr (tabulate s f) t
      = some (tabulate t fun idx => f (bcastIdx s (idx.drop (idx.length - s.length)))) := by
  simp only [broadcastArr, tabulate_shape, h, and_self, if_true, Option.some.injEq]
  apply tabulate_congr
  intro idx hidx
  rw [inRange_length _ _ hidx]
  exact get_tabulate _ _ _ (inRange_bcastIdx _ _ _ h.2 (inRange_drop _ _ _ hidx))

theorem transposeArr_eq (s perm : List Nat) (f : List Nat → Option Rat) (h : permOk perm s.length = true) :
    transposeArr (tabulate s f) perm
      = some (tabulate (perm.map fun a => s.getD a 0) fun idx => f (transposeIdx perm idx)) := by
  simp only [transposeArr, tabulate_shape, h, if_true, Option.some.injEq]
  apply tabulate_congr
  intro idx hidx
  exact get_tabulate _ _ _ (inRange_transposeIdx _ _ _ h hidx)

theorem sliceArr_eq (s s' : List Nat) (ix : List SliceTerm) (f : List Nat → Option Rat)
    (h : sliceShape ix s = some s') :
    sliceArr (tabulate s f) ix = some (tabulate s' fun idx => f (sliceIdx ix s idx)) := by
  simp only [sliceArr, tabulate_shape, h, Option.map_some, Option.some.injEq]
  apply tabulate_congr
  intro idx hidx
  exact get_tabulate _ _ _ (inRange_sliceIdx _ _ _ _ h hidx)

/-- `reshape` keeps the C-order data: element `idx` of the result is the element of the operand at the same
flat position -/
theorem reshapeArr_eq (s s' : List Nat) (f : List Nat → Option Rat) (h : size s' = size s) :
    reshapeArr (tabulate s f) s' = some (tabulate s' fun idx =>
      match (ravel s' idx).bind (unravel s) with
      | some i => f i
      | none => none) := by
  simp only [reshapeArr, tabulate_shape, h, if_true, Option.some.injEq]
  apply NpArr.ext
  · rfl
  · simp [WF, tabulate, h]
  · exact tabulate_wf _ _
  · intro idx hidx
    have hidx' : InRange s' idx := hidx
    obtain ⟨n, hn⟩ := inRange_ravel s' idx hidx'
    have hlt : n < size s := h ▸ ravel_lt_size s' idx n hn
    obtain ⟨i, hi⟩ := unravel_isSome_of_lt s n hlt
    rw [get_tabulate _ _ _ hidx', reshape_get (tabulate s f) s' idx i n hn hi]
    simp only [hn, Option.bind_some, hi]
    exact get_tabulate _ _ _ (ravel_inRange s i n (ravel_of_unravel s n i hi))

theorem zipArr_eq (op : Rat → Rat → Rat) (s : List Nat) (f g : List Nat → Option Rat) :
    zipArr op (tabulate s f) (tabulate s g) = some (tabulate s fun idx => lift2 op (f idx) (g idx)) := by
  simp only [zipArr, tabulate_shape, if_true, Option.some.injEq]
  simp only [tabulate, List.zipWith_map, NpArr.mk.injEq, true_and]
  rw [List.zipWith_self]
  apply List.map_congr_left
  intro n _
  cases unravel s n <;> simp [lift2]

theorem divArr_eq (s : List Nat) (f : List Nat → Option Rat) (c : Rat) (hc : c ≠ 0) :
    divArr (tabulate s f) c = some (tabulate s fun idx => (f idx).map (· / c)) := by
  simp only [divArr, hc, if_false, tabulate, List.map_map, Option.some.injEq, NpArr.mk.injEq, true_and]
  apply List.map_congr_left
  intro n _
  cases h : unravel s n <;> simp [h]

theorem padArr_eq (s : List Nat) (f : List Nat → Option Rat) (ws : List (Nat × Nat)) (fill : Option Rat)
    (h : ws.length = s.length) :
    padArr (tabulate s f) ws fill
      = some (tabulate (padShape ws s) fun idx => if padIn ws s idx then f (padSrc ws idx) else fill) := by
  simp only [padArr, tabulate_shape, h, if_true, Option.some.injEq]
  apply tabulate_congr
  intro idx hidx
  by_cases hin : padIn ws s idx = true
  · simp only [hin, if_true]
    exact get_tabulate _ _ _ (inRange_padSrc ws s idx h hidx hin)
  · simp [hin]

theorem mapArr_eq (op : Option Rat → Option Rat) (s : List Nat) (f : List Nat → Option Rat) :
    mapArr op (tabulate s f) = tabulate s fun idx => op (f idx) := by
  simp only [mapArr, tabulate_shape]
  apply tabulate_congr
  intro idx hidx
  rw [get_tabulate _ _ _ hidx]

theorem zipWithArr_eq (op : Option Rat → Option Rat → Option Rat) (s : List Nat) (f g : List Nat → Option Rat) :
    zipWithArr op (tabulate s f) (tabulate s g) = some (tabulate s fun idx => op (f idx) (g idx)) := by
  simp only [zipWithArr, tabulate_shape, if_true, Option.some.injEq]
  apply tabulate_congr
  intro idx hidx
  rw [get_tabulate _ _ _ hidx, get_tabulate _ _ _ hidx]

theorem whereSetArr_eq (s t : List Nat) (f g : List Nat → Option Rat) (v : Option Rat) (h : t = s.take t.length) :
    whereSetArr (tabulate s f) (tabulate t g) v
      = some (tabulate s fun idx => if truthy (g (idx.take t.length)) then v else f idx) := by
  simp only [whereSetArr, tabulate_shape, ← h, if_true, Option.some.injEq]
  apply tabulate_congr
  intro idx hidx
  have ht : InRange t (idx.take t.length) := by
    have := inRange_take t.length s idx hidx
    rwa [← h] at this
  simp only [get_tabulate _ _ _ ht, get_tabulate _ _ _ hidx]

theorem reduceArr_eq (op : List (Option Rat) → Option Rat) (s : List Nat) (f : List Nat → Option Rat)
    (ax : Axis) (k : Nat) (hk : ax.norm s.length = some k) :
    reduceArr op (tabulate s f) ax
      = some (tabulate (removeAt k s) fun idx => op ((List.range (s.getD k 0)).map fun t => f (insertAt k t idx))) := by
  simp only [reduceArr, tabulate_shape, hk, Option.map_some, Option.some.injEq]
  apply tabulate_congr
  intro idx hidx
  congr 1
  apply List.map_congr_left
  intro t ht
  exact get_tabulate _ _ _ (inRange_insertAt_of_removeAt k t s idx (Axis.norm_lt _ _ _ hk) hidx (List.mem_range.mp ht))

theorem anyWindowAt_congr (t : List Nat) (f g : List Nat → Option Rat) (idx : List Nat) (n : Nat)
    (h : ∀ i, InRange t i → f i = g i) : anyWindowAt t f idx n = anyWindowAt t g idx n := by
  unfold anyWindowAt
  congr 1
  funext off
  cases hr : ravel t (addIdx idx off) with
  | none => simp
  | some k => simp [h _ (ravel_inRange t _ k hr)]

theorem windowAnyArr_eq (s t : List Nat) (f g : List Nat → Option Rat) (n : Nat) (h : t.length = s.length) :
    windowAnyArr (tabulate s f) (tabulate t g) n
      = some (tabulate s fun idx => boolVal (truthy (f idx) || anyWindowAt t g idx n)) := by
  simp only [windowAnyArr, tabulate_shape, h, if_true, Option.some.injEq, List.getElem?_toArray]
  apply tabulate_congr
  intro idx hidx
  rw [get_tabulate _ _ _ hidx]
  congr 2
  apply anyWindowAt_congr
  intro i hi
  exact get_tabulate t g i hi

/-! ### lists of operands -/

theorem shapesOf_length (env : NpEnv) : ∀ (xs : List NpExpr) (ss : List (List Nat)),
    shapesOf env xs = some ss → ss.length = xs.length
  | [], ss, h => by simp [shapesOf] at h; simp [← h]
  | x :: xs, ss, h => by
    simp only [shapesOf] at h
    split at h
    · rename_i s ss' _ h2
      simp only [Option.some.injEq] at h
      subst h
      simp [shapesOf_length env xs ss' h2]
    · simp at h

theorem views_shapes (env : NpEnv) : ∀ (xs : List NpExpr) (ss : List (List Nat)), ss.length = xs.length →
    (views env xs ss).map (·.shape) = ss
  | [], [], _ => rfl
  | [], _ :: _, h => by simp at h
  | _ :: _, [], h => by simp at h
  | x :: xs, s :: ss, h => by
    simp [views, tabulate_shape, views_shapes env xs ss (by simpa using h)]

theorem views_length (env : NpEnv) (xs : List NpExpr) (ss : List (List Nat)) (h : ss.length = xs.length) :
    (views env xs ss).length = xs.length := by
  have := congrArg List.length (views_shapes env xs ss h)
  simpa [h] using this

/-- reading operand `i` of a stack -/
theorem views_get (env : NpEnv) (s j : List Nat) (hj : InRange s j) :
    ∀ (xs : List NpExpr) (ss : List (List Nat)) (i : Nat), ss.length = xs.length → (∀ t ∈ ss, t = s) →
    ((views env xs ss)[i]?).bind (fun y => y.get j) = getOfList env xs i j
  | [], [], i, _, _ => by simp [views, getOfList]
  | [], _ :: _, _, h, _ => by simp at h
  | _ :: _, [], _, h, _ => by simp at h
  | x :: xs, t :: ss, 0, _, hall => by
    have : t = s := hall t (by simp)
    subst this
    simp [views, getOfList, get_tabulate _ _ _ hj]
  | x :: xs, t :: ss, i + 1, h, hall => by
    have ih := views_get env s j hj xs ss i (by simpa using h) (fun t ht => hall t (by simp [ht]))
    simpa [views, getOfList] using ih

theorem stackArr_eq (env : NpEnv) (xs : List NpExpr) (s : List Nat) (ss : List (List Nat)) (ax : Axis) (k : Nat)
    (hlen : (s :: ss).length = xs.length) (hall : ss.all (· == s) = true)
    (hk : ax.norm (s.length + 1) = some k) :
    stackArr (views env xs (s :: ss)) ax
      = some (tabulate (insertAt k (ss.length + 1) s) (getOf env (.stack xs ax))) := by
  cases xs with
  | nil => simp at hlen
  | cons x xs' =>
    have hall' : ∀ t ∈ s :: ss, t = s := by
      intro t ht
      rcases List.mem_cons.mp ht with rfl | ht
      · rfl
      · simpa using (List.all_eq_true.mp hall) t ht
    have hshapes := views_shapes env (x :: xs') (s :: ss) hlen
    have hvl := views_length env (x :: xs') (s :: ss) hlen
    have hall2 : (views env (x :: xs') (s :: ss)).all (fun y => y.shape == s) = true := by
      rw [List.all_eq_true]
      intro y hy
      have : y.shape ∈ (views env (x :: xs') (s :: ss)).map (·.shape) := List.mem_map.mpr ⟨y, hy, rfl⟩
      rw [hshapes] at this
      simpa using hall' _ this
    have hk' := Axis.norm_lt _ _ _ hk
    have hn : (views env (x :: xs') (s :: ss)).length = ss.length + 1 := by rw [hvl, ← hlen]; simp
    have hhead : views env (x :: xs') (s :: ss) = tabulate s (getOf env x) :: views env xs' ss := rfl
    have hall3 : ((tabulate s (getOf env x) :: views env xs' ss).all fun y => y.shape == s) = true := by
      rw [← hhead]; exact hall2
    have hn' : (tabulate s (getOf env x) :: views env xs' ss).length = ss.length + 1 := by
      rw [← hhead]; exact hn
    rw [hhead]
    unfold stackArr
    simp only [tabulate_shape, hall3, if_true, hk, Option.map_some, Option.some.injEq, hn']
    apply tabulate_congr
    intro idx hidx
    have hr := inRange_insertAt k (ss.length + 1) s idx (by omega) hidx
    have hl : idx.length = s.length + 1 := by
      rw [inRange_length _ _ hidx, insertAt_length]
    have hv := views_get env s (removeAt k idx) hr.1 (x :: xs') (s :: ss) (idx.getD k 0) hlen hall'
    rw [← hhead]
    simp only [getOf, hl, hk]
    rw [← hv]
    cases (views env (x :: xs') (s :: ss))[idx.getD k 0]? <;> rfl

/-- locating the piece of a concatenation -/
theorem concat_views_get (env : NpEnv) (tl r : List Nat) (hr : InRange tl r) :
    ∀ (xs : List NpExpr) (ss : List (List Nat)) (i : Nat), shapesOf env xs = some ss →
    (∀ t ∈ ss, t.drop 1 = tl ∧ t.length = tl.length + 1) → i < (ss.map (·.headD 0)).sum →
    concatGet (views env xs ss) i r = concatGetOf env xs i r
  | [], ss, i, h, _, hi => by
    simp [shapesOf] at h; subst h; simp at hi
  | x :: xs, ss, i, h, hall, hi => by
    simp only [shapesOf] at h
    split at h
    · rename_i s ss' h1 h2
      simp only [Option.some.injEq] at h
      subst h
      have hs := hall s (by simp)
      cases s with
      | nil => simp at hs
      | cons d t =>
        simp only [List.drop_succ_cons, List.drop_zero] at hs
        obtain ⟨rfl, _⟩ := hs
        simp only [views, concatGet, tabulate_shape, List.headD_cons, concatGetOf, h1]
        by_cases hid : i < d
        · simp only [hid, if_true]
          exact get_tabulate _ _ _ (by simpa [InRange] using And.intro hid hr)
        · simp only [hid, if_false]
          apply concat_views_get env t r hr xs ss' (i - d) h2 (fun u hu => hall u (by simp [hu]))
          simp only [List.map_cons, List.headD_cons, List.sum_cons] at hi
          omega
    · simp at h

theorem concatArr_eq (env : NpEnv) (xs : List NpExpr) (d : Nat) (tl : List Nat) (ss : List (List Nat))
    (hs : shapesOf env xs = some ((d :: tl) :: ss))
    (hall : ss.all (fun t => t.drop 1 == tl && t.length == tl.length + 1) = true) :
    concatArr (views env xs ((d :: tl) :: ss))
      = some (tabulate ((d + (ss.map (·.headD 0)).sum) :: tl) (getOf env (.concat xs))) := by
  have hlen := shapesOf_length env xs _ hs
  cases xs with
  | nil => simp at hlen
  | cons x xs' =>
    have hall' : ∀ t ∈ (d :: tl) :: ss, t.drop 1 = tl ∧ t.length = tl.length + 1 := by
      intro t ht
      rcases List.mem_cons.mp ht with rfl | ht
      · simp
      · simpa using (List.all_eq_true.mp hall) t ht
    have hshapes := views_shapes env (x :: xs') ((d :: tl) :: ss) hlen
    have hhead : views env (x :: xs') ((d :: tl) :: ss) = tabulate (d :: tl) (getOf env x) :: views env xs' ss := rfl
    have hall2 : ((tabulate (d :: tl) (getOf env x) :: views env xs' ss).all
        fun y => y.shape.drop 1 == tl && y.shape.length == tl.length + 1) = true := by
      rw [← hhead, List.all_eq_true]
      intro y hy
      have : y.shape ∈ (views env (x :: xs') ((d :: tl) :: ss)).map (·.shape) := List.mem_map.mpr ⟨y, hy, rfl⟩
      rw [hshapes] at this
      simpa using hall' _ this
    have hsum : ((tabulate (d :: tl) (getOf env x) :: views env xs' ss).map fun y => y.shape.headD 0).sum
        = d + (ss.map (·.headD 0)).sum := by
      rw [← hhead]
      have : (views env (x :: xs') ((d :: tl) :: ss)).map (fun y => y.shape.headD 0)
          = (((d :: tl) :: ss).map (·.headD 0)) := by
        rw [← hshapes, List.map_map]
        rw [hshapes]
        rfl
      rw [this]
      simp
    rw [hhead]
    unfold concatArr
    simp only [tabulate_shape, hall2, if_true, hsum, Option.some.injEq]
    apply tabulate_congr
    intro idx hidx
    cases idx with
    | nil => simp [InRange] at hidx
    | cons i r =>
      simp only [InRange] at hidx
      rw [← hhead]
      show concatGet (views env (x :: xs') ((d :: tl) :: ss)) i r = _
      rw [concat_views_get env tl r hidx.2 (x :: xs') _ i hs hall' (by simpa using hidx.1)]
      simp [getOf]

/-! ### the generic theorem -/

theorem lookup_mem {β : Type} : ∀ (l : List (String × β)) (k : String) (v : β),
    List.lookup k l = some v → (k, v) ∈ l
  | [], _, _, h => by simp [List.lookup] at h
  | (k', v') :: l, k, v, h => by
    simp only [List.lookup] at h
    split at h
    · rename_i heq
      simp only [Option.some.injEq] at h
      have : k = k' := by simpa using heq
      subst this; subst h
      simp
    · exact List.mem_cons_of_mem _ (lookup_mem l k v h)

mutual
/-- **What the evaluator builds is what the index maps say**, for every expression: if the shapes fit
(`shapeOf env e = some s`), `eval` succeeds and the array it returns has shape `s` and, at every
multi-index, the element `getOf env e` names. -/
theorem eval_sound (env : NpEnv) (henv : env.WF) : ∀ (e : NpExpr) (s : List Nat),
    shapeOf env e = some s → eval env e = some (tabulate s (getOf env e))
  | .var name, s, h => by
    simp only [shapeOf, Option.map_eq_some_iff] at h
    obtain ⟨a, ha, rfl⟩ := h
    have hwf : a.WF := henv (name, a) (lookup_mem _ _ _ ha)
    simp only [eval, ha, Option.some.injEq]
    have : getOf env (.var name) = a.get := by
      funext idx; simp [getOf, ha]
    rw [this]
    exact eq_tabulate a hwf
  | .stack xs ax, s', h => by
    simp only [shapeOf] at h
    split at h
    · rename_i s ss hss
      split at h
      · rename_i hall
        simp only [Option.map_eq_some_iff] at h
        obtain ⟨k, hk, rfl⟩ := h
        have hl := evalList_sound env henv xs _ hss
        simp only [eval, hl, Option.bind_some]
        exact stackArr_eq env xs s ss ax k (shapesOf_length env xs _ hss) hall hk
      · simp at h
    · simp at h
  | .expandDims x ax, s', h => by
    simp only [shapeOf, Option.bind_eq_some_iff, Option.map_eq_some_iff] at h
    obtain ⟨s, hs, k, hk, rfl⟩ := h
    simp only [eval, eval_sound env henv x s hs, Option.bind_some, expandDimsArr_eq s _ ax k hk,
      Option.some.injEq]
    apply tabulate_congr
    intro idx hidx
    have hl : idx.length = s.length + 1 := by rw [inRange_length _ _ hidx, insertAt_length]
    simp [getOf, hl, hk]
  | .broadcastTo x dims, s', h => by
    simp only [shapeOf, Option.bind_eq_some_iff] at h
    obtain ⟨s, hs, t, ht, h⟩ := h
    split at h
    · rename_i hok
      simp only [Option.some.injEq] at h
      subst h
      simp only [eval, eval_sound env henv x s hs, Option.bind_some, ht, broadcastArr_eq s t _ hok,
        Option.some.injEq]
      apply tabulate_congr
      intro idx _
      simp [getOf, hs]
    · simp at h
  | .transpose x perm, s', h => by
    simp only [shapeOf, Option.bind_eq_some_iff] at h
    obtain ⟨s, hs, h⟩ := h
    split at h
    · rename_i hok
      simp only [Option.some.injEq] at h
      subst h
      simp only [eval, eval_sound env henv x s hs, Option.bind_some, transposeArr_eq s perm _ hok,
        Option.some.injEq]
      apply tabulate_congr
      intro idx _
      simp [getOf]
    · simp at h
  | .reshape x dims, s', h => by
    have h0 := h
    simp only [shapeOf, Option.bind_eq_some_iff] at h
    obtain ⟨s, hs, t, ht, h⟩ := h
    split at h
    · rename_i hsz
      simp only [Option.some.injEq] at h
      subst h
      simp only [eval, eval_sound env henv x s hs, Option.bind_some, tabulate_shape, ht,
        reshapeArr_eq s t _ hsz, Option.some.injEq]
      apply tabulate_congr
      intro idx _
      simp only [getOf, hs, h0]
    · simp at h
  | .slice x ix, s', h => by
    simp only [shapeOf, Option.bind_eq_some_iff] at h
    obtain ⟨s, hs, h⟩ := h
    simp only [eval, eval_sound env henv x s hs, Option.bind_some, sliceArr_eq s s' ix _ h, Option.some.injEq]
    apply tabulate_congr
    intro idx _
    simp [getOf, hs]
  | .concat xs, s', h => by
    simp only [shapeOf] at h
    split at h
    · rename_i d tl ss hss
      split at h
      · rename_i hall
        simp only [Option.some.injEq] at h
        subst h
        have hl := evalList_sound env henv xs _ hss
        simp only [eval, hl, Option.bind_some]
        exact concatArr_eq env xs d tl ss hss hall
      · simp at h
    · simp at h
  | .add a b, s', h => by
    simp only [shapeOf, Option.bind_eq_some_iff] at h
    obtain ⟨s, hs, t, ht, h⟩ := h
    split at h
    · rename_i heq
      simp only [Option.some.injEq] at h
      subst h; subst heq
      simp only [eval, eval_sound env henv a s hs, eval_sound env henv b s ht, Option.bind_some, zipArr_eq,
        Option.some.injEq]
      apply tabulate_congr
      intro idx _
      simp [getOf]
    · simp at h
  | .sub a b, s', h => by
    simp only [shapeOf, Option.bind_eq_some_iff] at h
    obtain ⟨s, hs, t, ht, h⟩ := h
    split at h
    · rename_i heq
      simp only [Option.some.injEq] at h
      subst h; subst heq
      simp only [eval, eval_sound env henv a s hs, eval_sound env henv b s ht, Option.bind_some, zipArr_eq,
        Option.some.injEq]
      apply tabulate_congr
      intro idx _
      simp [getOf]
    · simp at h
  | .divConst a c, s', h => by
    simp only [shapeOf] at h
    split at h
    · simp at h
    · rename_i hc
      simp only [eval, eval_sound env henv a s' h, Option.bind_some, divArr_eq s' _ c hc, Option.some.injEq]
      apply tabulate_congr
      intro idx _
      simp [getOf]
  | .pad x ws fill, s', h => by
    simp only [shapeOf, Option.bind_eq_some_iff] at h
    obtain ⟨s, hs, h⟩ := h
    split at h
    · rename_i hl
      simp only [Option.some.injEq] at h
      subst h
      simp only [eval, eval_sound env henv x s hs, Option.bind_some, padArr_eq s _ ws fill hl, Option.some.injEq]
      apply tabulate_congr
      intro idx _
      simp [getOf, hs]
    · simp at h
  | .isnan x, s', h => by
    simp only [shapeOf] at h
    simp only [eval, eval_sound env henv x s' h, Option.map_some, mapArr_eq, Option.some.injEq]
    apply tabulate_congr
    intro idx _
    simp [getOf]
  | .band a b, s', h => by
    simp only [shapeOf, Option.bind_eq_some_iff] at h
    obtain ⟨s, hs, t, ht, h⟩ := h
    split at h
    · rename_i heq
      simp only [Option.some.injEq] at h
      subst h; subst heq
      simp only [eval, eval_sound env henv a s hs, eval_sound env henv b s ht, Option.bind_some, zipWithArr_eq,
        Option.some.injEq]
      apply tabulate_congr
      intro idx _
      simp [getOf]
    · simp at h
  | .bor a b, s', h => by
    simp only [shapeOf, Option.bind_eq_some_iff] at h
    obtain ⟨s, hs, t, ht, h⟩ := h
    split at h
    · rename_i heq
      simp only [Option.some.injEq] at h
      subst h; subst heq
      simp only [eval, eval_sound env henv a s hs, eval_sound env henv b s ht, Option.bind_some, zipWithArr_eq,
        Option.some.injEq]
      apply tabulate_congr
      intro idx _
      simp [getOf]
    · simp at h
  | .whereSet x m v, s', h => by
    simp only [shapeOf, Option.bind_eq_some_iff] at h
    obtain ⟨s, hs, t, ht, h⟩ := h
    split at h
    · rename_i hpre
      simp only [Option.some.injEq] at h
      subst h
      simp only [eval, eval_sound env henv x s hs, eval_sound env henv m t ht, Option.bind_some,
        whereSetArr_eq s t _ _ v hpre, Option.some.injEq]
      apply tabulate_congr
      intro idx _
      simp [getOf, ht]
    · simp at h
  | .nanmeanAxis x ax, s', h => by
    simp only [shapeOf, Option.bind_eq_some_iff, Option.map_eq_some_iff] at h
    obtain ⟨s, hs, k, hk, rfl⟩ := h
    simp only [eval, eval_sound env henv x s hs, Option.bind_some, reduceArr_eq nanmean s _ ax k hk,
      Option.some.injEq]
    apply tabulate_congr
    intro idx _
    simp [getOf, hs, hk]
  | .anyAxis x ax, s', h => by
    simp only [shapeOf, Option.bind_eq_some_iff, Option.map_eq_some_iff] at h
    obtain ⟨s, hs, k, hk, rfl⟩ := h
    simp only [eval, eval_sound env henv x s hs, Option.bind_some, reduceArr_eq anyV s _ ax k hk,
      Option.some.injEq]
    apply tabulate_congr
    intro idx _
    simp [getOf, hs, hk]
  | .padAll x w fill, s', h => by
    simp only [shapeOf, Option.bind_eq_some_iff, Option.map_eq_some_iff] at h
    obtain ⟨s, hs, n, hn, rfl⟩ := h
    simp only [eval, eval_sound env henv x s hs, Option.bind_some, hn, tabulate_shape,
      padArr_eq s _ (List.replicate s.length (n, n)) fill (by simp), Option.some.injEq]
    apply tabulate_congr
    intro idx _
    simp [getOf, hs, hn]
  | .windowAny x p e, s', h => by
    simp only [shapeOf, Option.bind_eq_some_iff] at h
    obtain ⟨s, hs, t, ht, n, hn, h⟩ := h
    split at h
    · rename_i hl
      simp only [Option.some.injEq] at h
      subst h
      simp only [eval, eval_sound env henv x s hs, eval_sound env henv p t ht, Option.bind_some, hn,
        windowAnyArr_eq s t _ _ n hl, Option.some.injEq]
      apply tabulate_congr
      intro idx _
      simp [getOf, ht, hn]
    · simp at h
  | .unsupported _, _, h => by simp [shapeOf] at h
theorem evalList_sound (env : NpEnv) (henv : env.WF) : ∀ (xs : List NpExpr) (ss : List (List Nat)),
    shapesOf env xs = some ss → evalList env xs = some (views env xs ss)
  | [], ss, h => by
    simp only [shapesOf, Option.some.injEq] at h
    subst h
    simp [evalList, views]
  | x :: xs, ss, h => by
    simp only [shapesOf] at h
    split at h
    · rename_i s ss' h1 h2
      simp only [Option.some.injEq] at h
      subst h
      simp [evalList, eval_sound env henv x s h1, evalList_sound env henv xs ss' h2, views]
    · simp at h
end

/-- the generic `get` lemma: element `idx` of the value of any expression -/
theorem eval_get (env : NpEnv) (henv : env.WF) (e : NpExpr) (s : List Nat) (h : shapeOf env e = some s) :
    ∃ a, eval env e = some a ∧ a.shape = s ∧ a.WF ∧ ∀ idx, InRange s idx → a.get idx = getOf env e idx :=
  ⟨_, eval_sound env henv e s h, rfl, tabulate_wf _ _, fun _ hidx => get_tabulate _ _ _ hidx⟩

/-! ### `make_polygons_with_holes` on a tabulated array -/

theorem pointsToPolys_tabulate (n m : Nat) (f : List Nat → Option Rat) :
    pointsToPolys (tabulate [n, m, 2] f) = some ((List.range n).map fun p =>
      allSomeL ((List.range m).map fun k => optPt (f [p, k, 0]) (f [p, k, 1]))) := by
  simp only [pointsToPolys, tabulate_shape, Option.some.injEq]
  apply List.map_congr_left
  intro p hp
  congr 1
  apply List.map_congr_left
  intro k hk
  simp only [List.mem_range] at hp hk
  rw [get_tabulate _ _ _ (by simp [InRange, hp, hk]), get_tabulate _ _ _ (by simp [InRange, hp, hk])]

theorem pointsToPairs_tabulate (n : Nat) (f : List Nat → Option Rat) :
    pointsToPairs (tabulate [n, 2] f) = some ((List.range n).map fun p => (f [p, 0], f [p, 1])) := by
  simp only [pointsToPairs, tabulate_shape, Option.some.injEq]
  apply List.map_congr_left
  intro p hp
  simp only [List.mem_range] at hp
  rw [get_tabulate _ _ _ (by simp [InRange, hp]), get_tabulate _ _ _ (by simp [InRange, hp])]

end Ems
