import EmsModel.Core.MeshDataset
import EmsModel.Lemmas.Mesh
/-!
Lemmas/MeshTopo.lean — the working lemmas behind the C10 property theorems:
encoding / decoding of the face-node table, and the specifications of the derived tables.
-/
namespace Ems.Mesh

/-! ### small list facts -/

theorem map_eq_self_of_forall {α} {f : α → α} : ∀ {l : List α}, (∀ x ∈ l, f x = x) → l.map f = l
  | [], _ => rfl
  | x :: xs, h => by
    simp only [List.map_cons]
    rw [h x (by simp), map_eq_self_of_forall (fun y hy => h y (by simp [hy]))]

theorem pad_map {α β} (g : α → β) (w : Nat) (l : List α) :
    (pad w l).map (Option.map g) = pad w (l.map g) := by
  simp [pad, List.map_append, List.map_map, Function.comp_def]

theorem pad_eq_map_some {α} {w : Nat} {l : List α} (h : l.length = w) : pad w l = l.map some := by
  simp [pad, h]

theorem mem_pad {α} {w : Nat} {l : List α} {c : Option α} (h : c ∈ pad w l) : c = none ∨ ∃ a ∈ l, c = some a := by
  simp only [pad, List.mem_append, List.mem_map, List.mem_replicate] at h
  rcases h with ⟨a, ha, rfl⟩ | ⟨_, rfl⟩
  · exact Or.inr ⟨a, ha, rfl⟩
  · exact Or.inl rfl

theorem optAll_map {α β} (g : α → Option β) : ∀ (l : List α), (∀ x ∈ l, (g x).isSome) →
    ∃ r, optAll (l.map g) = some r ∧ r.length = l.length ∧
      ∀ i (h1 : i < l.length) (h2 : i < r.length), g l[i] = some r[i]
  | [], _ => ⟨[], rfl, rfl, by simp⟩
  | x :: xs, h => by
    obtain ⟨y, hy⟩ := Option.isSome_iff_exists.mp (h x (by simp))
    obtain ⟨r, hr, hlen, hget⟩ := optAll_map g xs (fun z hz => h z (by simp [hz]))
    refine ⟨y :: r, by simp [optAll, hy, hr], by simp [hlen], ?_⟩
    intro i h1 h2
    cases i with
    | zero => simpa using hy
    | succ i => simpa using hget i (by simpa using h1) (by simpa using h2)

theorem optAll_eq_none_of_mem {α} : ∀ {l : List (Option α)}, none ∈ l → optAll l = none
  | [], h => by simp at h
  | none :: _, _ => rfl
  | some x :: xs, h => by
    have : none ∈ xs := by simpa using h
    simp [optAll, optAll_eq_none_of_mem this]

/-! ### encoding and decoding the face-node table -/

theorem startAttr_ok (e : Enc) (hb : e.base = 0 ∨ e.base = 1) (hsp : e.spelling = .omitted → e.base = 0) :
    ∃ wn, getStartIndex e.startAttr = .ok (e.base, wn) := by
  cases hs : e.spelling with
  | int => exact ⟨false, by simp [Enc.startAttr, hs, getStartIndex, hb]⟩
  | omitted =>
    have := hsp hs
    exact ⟨false, by simp [Enc.startAttr, hs, getStartIndex, this]⟩
  | str =>
    rcases hb with h | h
    · refine ⟨true, ?_⟩
      simp only [Enc.startAttr, hs, h, getStartIndex]
      have h0 : (toString (0 : Int)) = "0" := rfl
      rw [h0]
      simp
    · refine ⟨true, ?_⟩
      simp only [Enc.startAttr, hs, h, getStartIndex]
      have h1 : (toString (1 : Int)) = "1" := rfl
      rw [h1]
      simp

theorem transpose_map {α β} (g : α → β) (m : Nat) (rows : List (List α)) :
    transpose m (rows.map (·.map g)) = (transpose m rows).map (·.map g) := by
  simp only [transpose, List.map_map]
  apply List.map_congr_left
  intro c _
  simp only [Function.comp]
  induction rows with
  | nil => rfl
  | cons r rs ih =>
    simp only [List.map_cons, List.filterMap_cons, List.getElem?_map]
    cases r[c]? <;> simp [ih]

theorem masked_transpose (m : Nat) (p : Payload) : (p.transpose m).masked = transpose m p.masked := by
  cases p with
  | float rows => rfl
  | int rows F =>
    cases F with
    | none => simp [Payload.transpose, Payload.masked, transpose_map]
    | some F => simp [Payload.transpose, Payload.masked, transpose_map]

theorem encCells_rect (e : Enc) (w : Nat) (faces : List (List Nat)) (hw : ∀ f ∈ faces, f.length ≤ w) :
    ∀ r ∈ encCells e w faces, r.length = w := by
  intro r hr
  simp only [encCells, List.mem_map] at hr
  obtain ⟨f, hf, rfl⟩ := hr
  exact length_pad (by simpa using hw f hf)

theorem masked_encPayload (e : Enc) (w : Nat) (faces : List (List Nat))
    (hfill : match e.fill with
      | .nan => True
      | .attr F => ∀ f ∈ faces, ∀ v ∈ f, (v : Int) + e.base ≠ F
      | .none => ∀ f ∈ faces, f.length = w) :
    (encPayload e w faces).masked = encCells e w faces := by
  unfold encPayload
  cases hf : e.fill with
  | nan => rfl
  | attr F =>
    simp only [hf] at hfill
    simp only [Payload.masked, List.map_map]
    apply map_eq_self_of_forall
    intro row hrow
    simp only [Function.comp, List.map_map]
    apply map_eq_self_of_forall
    intro c hc
    simp only [encCells, List.mem_map] at hrow
    obtain ⟨f, hfm, rfl⟩ := hrow
    rcases mem_pad hc with rfl | ⟨a, ha, rfl⟩
    · simp
    · simp only [List.mem_map] at ha
      obtain ⟨v, hv, rfl⟩ := ha
      have := hfill f hfm v hv
      simp [this]
  | none =>
    simp only [hf] at hfill
    simp only [Payload.masked, encCells, List.map_map]
    apply List.map_congr_left
    intro f hfm
    simp only [Function.comp]
    rw [pad_eq_map_some (by simpa using hfill f hfm)]

theorem encCells_sub (e : Enc) (w : Nat) (faces : List (List Nat)) :
    (encCells e w faces).map (·.map (·.map (· - e.base))) = faces.map fun f => pad w (f.map Int.ofNat) := by
  simp only [encCells, List.map_map]
  apply List.map_congr_left
  intro f _
  simp only [Function.comp]
  rw [pad_map, List.map_map]
  congr 1
  apply List.map_congr_left
  intro v _
  simp

/-! ### derived edges -/

theorem mem_allPairs {faces : List (List Int)} {p : Pair} :
    p ∈ allPairs faces ↔ ∃ f ∈ faces, p ∈ facePairs f := by
  simp [allPairs, List.mem_flatMap]

theorem mem_makeEdgeNode {faces : List (List Int)} {e : Pair} :
    e ∈ makeEdgeNode faces ↔ ∃ f ∈ faces, ∃ p ∈ facePairs f, normPair p = e := by
  simp only [makeEdgeNode, mem_dedup, List.mem_map, mem_allPairs]
  constructor
  · rintro ⟨p, ⟨f, hf, hp⟩, rfl⟩; exact ⟨f, hf, p, hp, rfl⟩
  · rintro ⟨f, hf, p, hp, rfl⟩; exact ⟨p, ⟨f, hf, hp⟩, rfl⟩

theorem makeEdgeNode_norm (faces : List (List Int)) :
    (makeEdgeNode faces).map normPair = makeEdgeNode faces := by
  apply map_eq_self_of_forall
  intro e he
  obtain ⟨f, _, p, _, rfl⟩ := mem_makeEdgeNode.mp he
  exact normPair_idem p

theorem nodup_makeEdgeNode (faces : List (List Int)) : (makeEdgeNode faces).Nodup :=
  nodup_dedup _

theorem derivedEdges_spec (faces : List (List Int)) (numbering : Option (List Pair)) :
    ((TopoIn.derivedEdges numbering faces).map normPair).Nodup ∧
    (∀ e, e ∈ (TopoIn.derivedEdges numbering faces).map normPair ↔
      ∃ f ∈ faces, ∃ p ∈ facePairs f, normPair p = e) ∧
    (TopoIn.derivedEdges numbering faces).length = (makeEdgeNode faces).length := by
  have own : ((makeEdgeNode faces).map normPair).Nodup ∧
      (∀ e, e ∈ (makeEdgeNode faces).map normPair ↔ ∃ f ∈ faces, ∃ p ∈ facePairs f, normPair p = e) ∧
      (makeEdgeNode faces).length = (makeEdgeNode faces).length := by
    rw [makeEdgeNode_norm]
    exact ⟨nodup_makeEdgeNode faces, fun e => mem_makeEdgeNode, rfl⟩
  cases numbering with
  | none => exact own
  | some w =>
    by_cases hr : isRenumbering w (makeEdgeNode faces) = true
    · have hen : TopoIn.derivedEdges (some w) faces = w := by simp [TopoIn.derivedEdges, hr]
      rw [hen]
      simp only [isRenumbering, Bool.and_eq_true, decide_eq_true_eq, List.all_eq_true,
        List.contains_iff_mem] at hr
      obtain ⟨⟨hnd, hsub⟩, hsup⟩ := hr
      have hmem : ∀ e, e ∈ w.map normPair ↔ e ∈ makeEdgeNode faces := by
        intro e
        constructor
        · intro he
          obtain ⟨x, hx, rfl⟩ := List.mem_map.mp he
          exact hsub x hx
        · exact hsup e
      refine ⟨hnd, fun e => (hmem e).trans mem_makeEdgeNode, ?_⟩
      have h1 := length_le_of_nodup_subset _ _ hnd (fun a ha => (hmem a).mp ha)
      have h2 := length_le_of_nodup_subset _ _ (nodup_makeEdgeNode faces) (fun a ha => (hmem a).mpr ha)
      simp only [List.length_map] at h1 h2
      omega
    · have hen : TopoIn.derivedEdges (some w) faces = makeEdgeNode faces := by
        simp [TopoIn.derivedEdges, hr]
      rw [hen]
      exact own

/-! ### derived face-edge table -/

theorem makeFaceEdge_spec (w : Nat) (en : List Pair) (faces : List (List Int))
    (hcover : ∀ f ∈ faces, ∀ p ∈ facePairs f, ∃ e ∈ en, normPair e = normPair p)
    (hw : ∀ f ∈ faces, f.length ≤ w) :
    ∃ fe, makeFaceEdge w en faces = .ok fe ∧ fe.length = faces.length ∧
      ∀ i (hi : i < faces.length),
        ∃ row, fe[i]? = some row ∧ row.length = w ∧
          (∀ c (hc : c < (facePairs faces[i]).length),
              ∃ k : Nat, row[c]? = some (some (k : Int)) ∧ ∃ hk : k < en.length,
                normPair en[k] = normPair (facePairs faces[i])[c]) ∧
          (∀ c, faces[i].length ≤ c → c < w → row[c]? = some none) := by
  -- every face's pairs are all found
  have inner : ∀ f ∈ faces, (optAll ((facePairs f).map (edgeIndex? en))).isSome := by
    intro f hf
    obtain ⟨r, hr, _⟩ := optAll_map (edgeIndex? en) (facePairs f)
      (fun p hp => edgeIndex?_isSome (hcover f hf p hp))
    simp [hr]
  obtain ⟨rows, hrows, hlen, hget⟩ :=
    optAll_map (fun f => optAll ((facePairs f).map (edgeIndex? en))) faces inner
  have hrowlen : ∀ i (h1 : i < faces.length) (h2 : i < rows.length), rows[i].length = faces[i].length := by
    intro i h1 h2
    have := hget i h1 h2
    have := (optAll_eq_some _ _).mp this
    have h3 := congrArg List.length this
    simp only [List.length_map, length_facePairs] at h3
    exact h3.symm
  have hnot : (rows.any fun ks => decide (w < ks.length)) = false := by
    rw [List.any_eq_false]
    intro ks hks
    obtain ⟨i, hi, rfl⟩ := List.getElem_of_mem hks
    have h1 : i < faces.length := by omega
    have := hrowlen i h1 hi
    have := hw faces[i] (List.getElem_mem _)
    simp
    omega
  refine ⟨rows.map fun ks => pad w (ks.map Int.ofNat), ?_, by simp [hlen], ?_⟩
  · simp [makeFaceEdge, hrows, hnot]
  · intro i hi
    have hi2 : i < rows.length := by omega
    have hl := hrowlen i hi hi2
    have hwf := hw faces[i] (List.getElem_mem _)
    refine ⟨pad w (rows[i].map Int.ofNat), by simp [hi2], length_pad (by simp; omega), ?_, ?_⟩
    · intro c hc
      have hc1 : c < faces[i].length := by simpa [length_facePairs] using hc
      have hc2 : c < rows[i].length := by omega
      refine ⟨rows[i][c], ?_, ?_⟩
      · rw [getElem?_pad_lt (by simpa using hc2)]
        simp
      · have h1 := (optAll_eq_some _ _).mp (hget i hi hi2)
        have h2 : ((facePairs faces[i]).map (edgeIndex? en))[c]? = (rows[i].map some)[c]? := by rw [h1]
        simp only [List.getElem?_map, List.getElem?_eq_getElem hc, List.getElem?_eq_getElem hc2,
          Option.map_some] at h2
        exact edgeIndex?_some (Option.some.inj h2)
    · intro c hc hcw
      exact getElem?_pad_ge (by simp; omega) hcw

theorem makeFaceEdge_missing (w : Nat) (en : List Pair) (faces : List (List Int))
    (f : List Int) (hf : f ∈ faces) (p : Pair) (hp : p ∈ facePairs f)
    (hmiss : ∀ e ∈ en, normPair e ≠ normPair p) : makeFaceEdge w en faces = .error .key := by
  have h1 : edgeIndex? en p = none := by
    cases h : edgeIndex? en p with
    | none => rfl
    | some k =>
      obtain ⟨hk, hn⟩ := edgeIndex?_some h
      exact absurd hn (hmiss _ (List.getElem_mem _))
  have h2 : optAll ((facePairs f).map (edgeIndex? en)) = none :=
    optAll_eq_none_of_mem (List.mem_map.mpr ⟨p, hp, h1⟩)
  have h3 : optAll (faces.map fun f => optAll ((facePairs f).map (edgeIndex? en))) = none :=
    optAll_eq_none_of_mem (List.mem_map.mpr ⟨f, hf, h2⟩)
  simp [makeFaceEdge, h3]

end Ems.Mesh

namespace Ems.Mesh

/-! ### derived edge-face table -/

theorem mem_edgeFaceEvents {fe : List (List Int)} {k : Int} {fi : Nat} :
    (k, fi) ∈ edgeFaceEvents fe ↔ ∃ row, fe[fi]? = some row ∧ k ∈ row := by
  simp only [edgeFaceEvents, List.mem_flatMap, Prod.exists, List.mem_map, Prod.mk.injEq]
  constructor
  · rintro ⟨row, i, hmem, k', hk', rfl, rfl⟩
    exact ⟨row, List.mem_zipIdx_iff_getElem?.mp hmem, hk'⟩
  · rintro ⟨row, hrow, hk⟩
    exact ⟨row, fi, List.mem_zipIdx_iff_getElem?.mpr hrow, k, hk, rfl, rfl⟩

theorem mem_incidences {fe : List (List Int)} {k : Int} {f : Nat} :
    f ∈ incidences fe k ↔ ∃ row, fe[f]? = some row ∧ k ∈ row := by
  simp only [incidences, List.mem_map, List.mem_filter, beq_iff_eq, Prod.exists]
  constructor
  · rintro ⟨k', f', ⟨hmem, rfl⟩, rfl⟩
    exact mem_edgeFaceEvents.mp hmem
  · intro h
    exact ⟨k, f, ⟨mem_edgeFaceEvents.mpr h, rfl⟩, rfl⟩

theorem filter_toNat_key {α} (evs : List (Int × α)) (h : ∀ ev ∈ evs, 0 ≤ ev.1) (k : Nat) :
    ((evs.map fun ev => (ev.1.toNat, ev.2)).filter (fun ev => ev.1 == k)).map (·.2)
      = (evs.filter (fun ev => ev.1 == (k : Int))).map (·.2) := by
  induction evs with
  | nil => rfl
  | cons ev evs ih =>
    have h0 := h ev (by simp)
    have ih' := ih (fun e he => h e (by simp [he]))
    have hiff : (ev.1.toNat == k) = (ev.1 == (k : Int)) := by
      rw [Bool.eq_iff_iff]
      simp only [beq_iff_eq]
      omega
    simp only [List.map_cons, List.filter_cons, hiff]
    split
    · simp [ih']
    · exact ih'

theorem makeEdgeFace_spec (n : Nat) (fe : List (List Int))
    (hr : ∀ row ∈ fe, ∀ k ∈ row, 0 ≤ k ∧ k < (n : Int))
    (hman : ∀ k : Nat, k < n → (incidences fe k).length ≤ 2) :
    ∃ ef, makeEdgeFace n fe = .ok ef ∧ ef.length = n ∧
      ∀ k (_ : k < n), ∃ row, ef[k]? = some row ∧ row.length = 2 ∧
        compress row = (incidences fe k).map Int.ofNat := by
  have hev : ∀ ev ∈ edgeFaceEvents fe, 0 ≤ ev.1 ∧ ev.1 < (n : Int) := by
    intro ev hmem
    obtain ⟨row, hrow, hk⟩ := mem_edgeFaceEvents.mp (show (ev.1, ev.2) ∈ edgeFaceEvents fe from hmem)
    exact hr row (List.mem_of_getElem? hrow) ev.1 hk
  have h1 : ((edgeFaceEvents fe).any fun ev => !inRange n ev.1) = false := by
    rw [List.any_eq_false]
    intro ev hmem
    have := hev ev hmem
    simp [inRange, this.1, this.2]
  have hrow : ∀ k, k < n →
      (accumulate n ((edgeFaceEvents fe).map fun ev => (ev.1.toNat, ev.2)))[k]? = some (incidences fe k) := by
    intro k hk
    rw [getElem?_accumulate _ _ _ hk, filter_toNat_key _ (fun ev he => (hev ev he).1)]
    rfl
  have h2 : ((accumulate n ((edgeFaceEvents fe).map fun ev => (ev.1.toNat, ev.2))).any
      fun r => decide (2 < r.length)) = false := by
    rw [List.any_eq_false]
    intro r hmem
    obtain ⟨k, hk, rfl⟩ := List.getElem_of_mem hmem
    have hk' : k < n := by simpa [length_accumulate] using hk
    have := hrow k hk'
    rw [List.getElem?_eq_getElem hk] at this
    have := Option.some.inj this
    have hm := hman k hk'
    simp [this]
    omega
  refine ⟨_, by simp only [makeEdgeFace, h1, h2]; rfl, by simp [length_accumulate], ?_⟩
  intro k hk
  have hm := hman k hk
  refine ⟨pad 2 ((incidences fe k).map Int.ofNat), ?_, length_pad (by simpa using hm), compress_pad _ _⟩
  simp [List.getElem?_map, hrow k hk]

theorem makeEdgeFace_nonmanifold (n : Nat) (fe : List (List Int))
    (hr : ∀ row ∈ fe, ∀ k ∈ row, 0 ≤ k ∧ k < (n : Int))
    (k : Nat) (hk : k < n) (h : 2 < (incidences fe k).length) : makeEdgeFace n fe = .error .index := by
  have hev : ∀ ev ∈ edgeFaceEvents fe, 0 ≤ ev.1 ∧ ev.1 < (n : Int) := by
    intro ev hmem
    obtain ⟨row, hrow, hk⟩ := mem_edgeFaceEvents.mp (show (ev.1, ev.2) ∈ edgeFaceEvents fe from hmem)
    exact hr row (List.mem_of_getElem? hrow) ev.1 hk
  have h1 : ((edgeFaceEvents fe).any fun ev => !inRange n ev.1) = false := by
    rw [List.any_eq_false]
    intro ev hmem
    have := hev ev hmem
    simp [inRange, this.1, this.2]
  have hrow : (accumulate n ((edgeFaceEvents fe).map fun ev => (ev.1.toNat, ev.2)))[k]? = some (incidences fe k) := by
    rw [getElem?_accumulate _ _ _ hk, filter_toNat_key _ (fun ev he => (hev ev he).1)]
    rfl
  have h2 : ((accumulate n ((edgeFaceEvents fe).map fun ev => (ev.1.toNat, ev.2))).any
      fun r => decide (2 < r.length)) = true := by
    rw [List.any_eq_true]
    exact ⟨incidences fe k, List.mem_of_getElem? hrow, by simpa using h⟩
  simp only [makeEdgeFace, h1, h2]
  rfl

end Ems.Mesh

namespace Ems.Mesh

/-- `makeEdgeFace` succeeds only on in-range, manifold input, and then meets its specification -/
theorem makeEdgeFace_ok {n : Nat} {fe : List (List Int)} {ef : Table} (h : makeEdgeFace n fe = .ok ef) :
    (∀ row ∈ fe, ∀ k ∈ row, 0 ≤ k ∧ k < (n : Int)) ∧
    (∀ k : Nat, k < n → (incidences fe k).length ≤ 2) ∧
    ef.length = n ∧
    ∀ k (_ : k < n), ∃ row, ef[k]? = some row ∧ row.length = 2 ∧
      compress row = (incidences fe k).map Int.ofNat := by
  have hr : ∀ row ∈ fe, ∀ k ∈ row, 0 ≤ k ∧ k < (n : Int) := by
    intro row hrow k hk
    obtain ⟨fi, hfi, rfl⟩ := List.getElem_of_mem hrow
    have hmem : (k, fi) ∈ edgeFaceEvents fe :=
      mem_edgeFaceEvents.mpr ⟨fe[fi], List.getElem?_eq_getElem hfi, hk⟩
    simp only [makeEdgeFace] at h
    split at h
    · simp at h
    · rename_i hany
      simp at hany
      have := hany k fi hmem
      simpa [inRange] using this
  have hman : ∀ k : Nat, k < n → (incidences fe k).length ≤ 2 := by
    intro k hk
    refine Nat.le_of_not_lt fun hgt => ?_
    rw [makeEdgeFace_nonmanifold n fe hr k hk hgt] at h
    simp at h
  obtain ⟨ef', hef', hlen, hspec⟩ := makeEdgeFace_spec n fe hr hman
  rw [h] at hef'
  have := Except.ok.inj hef'
  subst this
  exact ⟨hr, hman, hlen, hspec⟩

/-! ### derived face-face table -/

theorem mem_facePairEvents {row : List (Option Int)} {a b : Int} :
    (a, b) ∈ facePairEvents row ↔ row = [some a, some b] ∨ row = [some b, some a] := by
  unfold facePairEvents
  split
  · rename_i l r
    simp only [List.mem_cons, Prod.mk.injEq, List.not_mem_nil, or_false, List.cons.injEq,
      Option.some.injEq, and_true]
    constructor
    · rintro (⟨rfl, rfl⟩ | ⟨rfl, rfl⟩)
      · exact Or.inl ⟨rfl, rfl⟩
      · exact Or.inr ⟨rfl, rfl⟩
    · rintro (⟨rfl, rfl⟩ | ⟨rfl, rfl⟩)
      · exact Or.inl ⟨rfl, rfl⟩
      · exact Or.inr ⟨rfl, rfl⟩
  · rename_i hno
    simp only [List.not_mem_nil, false_iff, not_or]
    exact ⟨fun h => hno a b h, fun h => hno b a h⟩

theorem mem_adjEvents {ef : Table} {a b : Int} :
    (a, b) ∈ adjEvents ef ↔ ∃ row ∈ ef, row = [some a, some b] ∨ row = [some b, some a] := by
  simp [adjEvents, List.mem_flatMap, mem_facePairEvents]

theorem adjEvents_symm {ef : Table} {a b : Int} : (a, b) ∈ adjEvents ef ↔ (b, a) ∈ adjEvents ef := by
  simp only [mem_adjEvents]
  constructor <;> (rintro ⟨row, hrow, h⟩; exact ⟨row, hrow, h.symm⟩)

theorem makeFaceFace_ok {nf w : Nat} {ef ff : Table} (h : makeFaceFace nf w ef = .ok ff) :
    (∀ ev ∈ adjEvents ef, ev.1 ≠ ev.2) ∧ ff.length = nf ∧
    ∀ f (_ : f < nf), ∃ row, ff[f]? = some row ∧ row.length = w ∧
      compress row = ((adjEvents ef).filter (fun ev => ev.1 == (f : Int))).map (·.2) := by
  simp only [makeFaceFace] at h
  split at h
  · simp at h
  split at h
  · simp at h
  rename_i hdeg
  split at h
  · simp at h
  rename_i hrange
  split at h
  · simp at h
  rename_i hwide
  have hff := Except.ok.inj h
  simp at hdeg hrange hwide
  have hev : ∀ ev ∈ adjEvents ef, 0 ≤ ev.1 := by
    intro ev hmem
    have := hrange ev.1 ev.2 hmem
    simp only [inRange, Bool.and_eq_true, decide_eq_true_eq] at this
    exact this.1
  have hrow : ∀ f, f < nf →
      (accumulate nf ((adjEvents ef).map fun ev => (ev.1.toNat, ev.2)))[f]?
        = some (((adjEvents ef).filter (fun ev => ev.1 == (f : Int))).map (·.2)) := by
    intro f hf
    rw [getElem?_accumulate _ _ _ hf, filter_toNat_key _ hev]
  refine ⟨?_, by rw [← hff]; simp [length_accumulate], ?_⟩
  · intro ev hmem heq
    apply hdeg ev.1
    have : ev = (ev.1, ev.1) := by
      cases ev with
      | mk a b => simp at heq; simp [heq]
    rw [← this]
    exact hmem
  · intro f hf
    have hr := hrow f hf
    have hlen : (((adjEvents ef).filter (fun ev => ev.1 == (f : Int))).map (·.2)).length ≤ w := by
      exact hwide _ (List.mem_of_getElem? hr)
    refine ⟨pad w (((adjEvents ef).filter (fun ev => ev.1 == (f : Int))).map (·.2)), ?_,
      length_pad hlen, compress_pad _ _⟩
    rw [← hff]
    simp [List.getElem?_map, hr]

theorem mem_rowOf_faceFace {nf w : Nat} {ef ff : Table} (h : makeFaceFace nf w ef = .ok ff)
    {f : Nat} (hf : f < nf) {g : Int} : g ∈ rowOf ff f ↔ ((f : Int), g) ∈ adjEvents ef := by
  obtain ⟨_, _, hspec⟩ := makeFaceFace_ok h
  obtain ⟨row, hrow, _, hc⟩ := hspec f hf
  simp only [rowOf, hrow, hc, List.mem_map, List.mem_filter, beq_iff_eq, Prod.exists]
  constructor
  · rintro ⟨a, b, ⟨hmem, rfl⟩, rfl⟩; exact hmem
  · intro hmem; exact ⟨f, g, ⟨hmem, rfl⟩, rfl⟩

end Ems.Mesh

namespace Ems.Mesh

/-! ### the derived chain: face-edge → edge-face → face-face, in terms of node pairs -/

theorem mem_compress {α} {row : List (Option α)} {a : α} : a ∈ compress row ↔ some a ∈ row := by
  simp [compress, List.mem_filterMap]

/-- with a duplicate-free edge table, edge `k` is in the derived face-edge row of face `i`
iff the node pair of `k` is one of the consecutive pairs of that face -/
theorem mem_rowOf_faceEdge {w : Nat} {en : List Pair} {faces : List (List Int)} {fe : Table}
    (hnd : (en.map normPair).Nodup)
    (hcover : ∀ f ∈ faces, ∀ p ∈ facePairs f, ∃ e ∈ en, normPair e = normPair p)
    (hw : ∀ f ∈ faces, f.length ≤ w)
    (hfe : makeFaceEdge w en faces = .ok fe) {i : Nat} (hi : i < faces.length) {k : Nat} :
    (k : Int) ∈ rowOf fe i ↔
      ∃ hk : k < en.length, ∃ p ∈ facePairs faces[i], normPair p = normPair en[k] := by
  obtain ⟨fe', hfe', _, hspec⟩ := makeFaceEdge_spec w en faces hcover hw
  rw [hfe] at hfe'
  have := Except.ok.inj hfe'
  subst this
  obtain ⟨row, hrow, hlen, hin, hout⟩ := hspec i hi
  simp only [rowOf, hrow, mem_compress]
  constructor
  · intro hmem
    obtain ⟨c, hc, hget⟩ := List.getElem_of_mem hmem
    by_cases hcl : c < (facePairs faces[i]).length
    · obtain ⟨k', hk', hlt, hn⟩ := hin c hcl
      rw [List.getElem?_eq_getElem hc, hget] at hk'
      have hkk : k = k' := by
        have := Option.some.inj (Option.some.inj hk')
        omega
      subst hkk
      exact ⟨hlt, (facePairs faces[i])[c], List.getElem_mem _, hn.symm⟩
    · have hcw : c < w := by omega
      have := hout c (by simpa [length_facePairs] using hcl) hcw
      rw [List.getElem?_eq_getElem hc, hget] at this
      simp at this
  · rintro ⟨hk, p, hp, hn⟩
    obtain ⟨c, hc, rfl⟩ := List.getElem_of_mem hp
    obtain ⟨k', hk', hlt, hn'⟩ := hin c hc
    have h1 : (en.map normPair)[k]'(by simpa) = (en.map normPair)[k']'(by simpa) := by
      simp [← hn, hn']
    have hkk : k = k' := (List.getElem_inj hnd).mp h1
    subst hkk
    exact List.mem_of_getElem? hk'

theorem getElem?_map_compress (fe : Table) (i : Nat) :
    (fe.map compress)[i]? = some (rowOf fe i) ∨ ((fe.map compress)[i]? = none ∧ fe[i]? = none) := by
  simp only [List.getElem?_map, rowOf]
  cases fe[i]? <;> simp

/-- **the derived tables say what the property says, in terms of node pairs**: with a
duplicate-free edge table `en` that contains every consecutive node pair of the faces,
whenever the three derivations return tables,
* edge `k` lists face `i` iff the node pair of `k` is a consecutive pair of `i`;
* face `i` lists face `j` iff they are different faces with a common (undirected) node pair. -/
theorem derived_chain_spec {w : Nat} {en : List Pair} {faces : List (List Int)} {fe ef ff : Table}
    (hnd : (en.map normPair).Nodup)
    (hcover : ∀ f ∈ faces, ∀ p ∈ facePairs f, ∃ e ∈ en, normPair e = normPair p)
    (hw : ∀ f ∈ faces, f.length ≤ w)
    (hfe : makeFaceEdge w en faces = .ok fe)
    (hef : makeEdgeFace en.length (fe.map compress) = .ok ef)
    (hff : makeFaceFace faces.length w ef = .ok ff) :
    (∀ k (hk : k < en.length) i (hi : i < faces.length),
        (i : Int) ∈ rowOf ef k ↔ ∃ p ∈ facePairs faces[i], normPair p = normPair en[k]) ∧
    (∀ i (hi : i < faces.length) j (hj : j < faces.length),
        (j : Int) ∈ rowOf ff i ↔
          i ≠ j ∧ ∃ p ∈ facePairs faces[i], ∃ q ∈ facePairs faces[j], normPair p = normPair q) := by
  have hfelen : fe.length = faces.length := by
    obtain ⟨fe', hfe', hl, _⟩ := makeFaceEdge_spec w en faces hcover hw
    rw [hfe] at hfe'
    rw [Except.ok.inj hfe']
    exact hl
  obtain ⟨_, hman, heflen, hefspec⟩ := makeEdgeFace_ok hef
  -- face i is an incidence of edge k iff k's node pair is a pair of face i
  have hinc : ∀ k (hk : k < en.length) i (hi : i < faces.length),
      i ∈ incidences (fe.map compress) (k : Int) ↔ ∃ p ∈ facePairs faces[i], normPair p = normPair en[k] := by
    intro k hk i hi
    rw [mem_incidences]
    rcases getElem?_map_compress fe i with h | ⟨_, h⟩
    · rw [h]
      simp only [Option.some.injEq, exists_eq_left']
      rw [mem_rowOf_faceEdge hnd hcover hw hfe hi]
      exact ⟨fun ⟨_, h⟩ => h, fun h => ⟨hk, h⟩⟩
    · have : i < fe.length := by omega
      simp [List.getElem?_eq_getElem this] at h
  have hinc_lt : ∀ k i, i ∈ incidences (fe.map compress) (k : Int) → i < faces.length := by
    intro k i h
    obtain ⟨row, hrow, _⟩ := mem_incidences.mp h
    have : i < (fe.map compress).length := (List.getElem?_eq_some_iff.mp hrow).1
    simpa [hfelen] using this
  have hef_row : ∀ k (hk : k < en.length) (i : Nat), (i : Int) ∈ rowOf ef k ↔ i ∈ incidences (fe.map compress) (k : Int) := by
    intro k hk i
    obtain ⟨row, hrow, _, hc⟩ := hefspec k hk
    simp only [rowOf, hrow, hc]
    exact mem_map_ofNat
  refine ⟨fun k hk i hi => (hef_row k hk i).trans (hinc k hk i hi), ?_⟩
  intro i hi j hj
  rw [mem_rowOf_faceFace hff hi, mem_adjEvents]
  have hdeg := (makeFaceFace_ok hff).1
  constructor
  · rintro ⟨row, hrow, hshape⟩
    obtain ⟨k, hk, rfl⟩ := List.getElem_of_mem hrow
    have hk' : k < en.length := by omega
    have hne : i ≠ j := by
      intro h
      have hmem : ((i : Int), (j : Int)) ∈ adjEvents ef := mem_adjEvents.mpr ⟨ef[k], hrow, hshape⟩
      have := hdeg _ hmem
      simp [h] at this
    have hboth : (i : Int) ∈ rowOf ef k ∧ (j : Int) ∈ rowOf ef k := by
      simp only [rowOf, List.getElem?_eq_getElem hk, mem_compress]
      rcases hshape with h | h <;> simp [h]
    obtain ⟨p, hp, hpn⟩ := ((hef_row k hk' i).trans (hinc k hk' i hi)).mp hboth.1
    obtain ⟨q, hq, hqn⟩ := ((hef_row k hk' j).trans (hinc k hk' j hj)).mp hboth.2
    exact ⟨hne, p, hp, q, hq, hpn.trans hqn.symm⟩
  · rintro ⟨hne, p, hp, q, hq, hpq⟩
    obtain ⟨e, he, hen⟩ := hcover faces[i] (List.getElem_mem _) p hp
    obtain ⟨k, hk, rfl⟩ := List.getElem_of_mem he
    have hi_in : i ∈ incidences (fe.map compress) (k : Int) := (hinc k hk i hi).mpr ⟨p, hp, hen.symm⟩
    have hj_in : j ∈ incidences (fe.map compress) (k : Int) :=
      (hinc k hk j hj).mpr ⟨q, hq, hpq.symm.trans hen.symm⟩
    have hlen := hman k hk
    obtain ⟨row, hrow, hrl, hc⟩ := hefspec k hk
    -- a list of length ≤ 2 containing two different values is one of the two orderings
    have hlist : incidences (fe.map compress) (k : Int) = [i, j] ∨ incidences (fe.map compress) (k : Int) = [j, i] := by
      generalize incidences (fe.map compress) (k : Int) = l at hi_in hj_in hlen
      match l, hlen with
      | [], _ => simp at hi_in
      | [a], _ =>
        simp only [List.mem_singleton] at hi_in hj_in
        exact absurd (hi_in.trans hj_in.symm) hne
      | [a, b], _ =>
        simp only [List.mem_cons, List.not_mem_nil, or_false] at hi_in hj_in
        rcases hi_in with rfl | rfl <;> rcases hj_in with rfl | rfl
        · exact absurd rfl hne
        · exact Or.inl rfl
        · exact Or.inr rfl
        · exact absurd rfl hne
      | _ :: _ :: _ :: _, h => simp at h <;> omega
    -- the stored row is the padded list: exactly two cells
    have hrow2 : row = (incidences (fe.map compress) (k : Int)).map (fun n => some (Int.ofNat n)) := by
      have hl2 : (incidences (fe.map compress) (k : Int)).length = 2 := by
        rcases hlist with h | h <;> simp [h]
      have hfull : ∀ c ∈ row, c ≠ none := by
        intro c hcmem hcn
        subst hcn
        have h1 : (compress row).length = 2 := by rw [hc]; simp [hl2]
        have h2 : (compress row).length < row.length := by
          unfold compress
          exact List.length_filterMap_lt_length_iff_exists.mpr ⟨none, hcmem, rfl⟩
        omega
      have : row = (compress row).map some := by
        clear hrow hc hrl
        induction row with
        | nil => rfl
        | cons x xs ih =>
          cases x with
          | none => exact absurd rfl (hfull none (by simp))
          | some v =>
            simp only [compress, List.filterMap_cons_some (show id (some v) = some v from rfl), List.map_cons]
            congr 1
            exact ih (fun c hc => hfull c (by simp [hc]))
      rw [this, hc, List.map_map]
      rfl
    refine ⟨row, List.mem_of_getElem? hrow, ?_⟩
    rcases hlist with h | h
    · left; rw [hrow2, h]; rfl
    · right; rw [hrow2, h]; rfl

end Ems.Mesh

namespace Ems.Mesh

/-! ### counting: how often an edge is used -/

theorem length_incidences_aux (fe : List (List Int)) (k : Int) (s : Nat) :
    (((fe.zipIdx s).flatMap fun (x : List Int × Nat) => x.1.map fun k' => (k', x.2)).filter
        (fun ev => ev.1 == k)).length = fe.flatten.count k := by
  induction fe generalizing s with
  | nil => simp
  | cons row rest ih =>
    simp only [List.zipIdx_cons, List.flatMap_cons, List.filter_append, List.length_append,
      List.flatten_cons, List.count_append, ih]
    congr 1
    rw [List.count_eq_length_filter, List.filter_map, List.length_map]
    rfl

theorem length_incidences (fe : List (List Int)) (k : Int) :
    (incidences fe k).length = fe.flatten.count k := by
  simp only [incidences, List.length_map, edgeFaceEvents]
  exact length_incidences_aux fe k 0

theorem count_incidences_aux (fe : List (List Int)) (k : Int) (s i : Nat) :
    ((((fe.zipIdx s).flatMap fun (x : List Int × Nat) => x.1.map fun k' => (k', x.2)).filter
        (fun ev => ev.1 == k)).map (·.2)).count i
      = if s ≤ i then ((fe[i - s]?).map (·.count k)).getD 0 else 0 := by
  induction fe generalizing s with
  | nil => simp
  | cons row rest ih =>
    simp only [List.zipIdx_cons, List.flatMap_cons, List.filter_append, List.map_append,
      List.count_append, ih]
    have hhead : (((row.map fun k' => (k', s)).filter (fun ev => ev.1 == k)).map (·.2)).count i
        = if s = i then row.count k else 0 := by
      rw [List.filter_map, List.map_map]
      have : ((fun (x : Int × Nat) => x.2) ∘ fun k' => (k', s)) = fun _ => s := rfl
      rw [this, List.map_const', List.count_replicate]
      by_cases h : s = i
      · subst h
        simp only [beq_self_eq_true, if_true]
        rw [List.count_eq_length_filter]
        rfl
      · have : (s == i) = false := by simpa using h
        simp [this, h]
    rw [hhead]
    by_cases h1 : s = i
    · subst h1
      have : ¬ s + 1 ≤ s := by omega
      simp [this]
    · by_cases h2 : s + 1 ≤ i
      · have h3 : s ≤ i := by omega
        have h4 : i - s = (i - (s + 1)) + 1 := by omega
        simp [h1, h2, h3, h4]
      · have h3 : ¬ s ≤ i := by omega
        simp [h1, h2, h3]

/-- face `i` occurs among the incidences of edge `k` as often as `k` occurs in its row -/
theorem count_incidences (fe : List (List Int)) (k : Int) (i : Nat) :
    (incidences fe k).count i = ((fe[i]?).map (·.count k)).getD 0 := by
  have := count_incidences_aux fe k 0 i
  simpa [incidences, edgeFaceEvents] using this

theorem count_map_ofNat (l : List Nat) (k : Nat) : (l.map Int.ofNat).count (k : Int) = l.count k := by
  rw [List.count_eq_countP, List.countP_map, List.count_eq_countP]
  apply List.countP_congr
  intro x _
  simp only [Function.comp, beq_iff_eq]
  constructor
  · intro h
    have h' : (x : Int) = (k : Int) := h
    omega
  · intro h; subst h; rfl

/-- the rows `makeFaceEdge` builds: per face the edge index of every consecutive pair -/
theorem makeFaceEdge_rows {w : Nat} {en : List Pair} {faces : List (List Int)} {fe : Table}
    (h : makeFaceEdge w en faces = .ok fe) :
    ∃ rows : List (List Nat), fe = rows.map (fun ks => pad w (ks.map Int.ofNat)) ∧
      faces.map (fun f => (facePairs f).map (edgeIndex? en)) = rows.map (·.map some) := by
  simp only [makeFaceEdge] at h
  split at h
  · simp at h
  · rename_i rows hrows
    split at h
    · simp at h
    · refine ⟨rows, (Except.ok.inj h).symm, ?_⟩
      have h1 := (optAll_eq_some _ _).mp hrows
      apply List.ext_getElem?
      intro i
      have h2 := congrArg (·[i]?) h1
      simp only [List.getElem?_map] at h2 ⊢
      cases hf : faces[i]? with
      | none =>
        simp only [hf, Option.map_none] at h2 ⊢
        cases hr : rows[i]? with
        | none => rfl
        | some _ => simp [hr] at h2
      | some f =>
        cases hr : rows[i]? with
        | none => simp [hf, hr] at h2
        | some ks =>
          simp only [hf, hr, Option.map_some, Option.some.injEq] at h2 ⊢
          exact (optAll_eq_some _ _).mp h2

theorem count_edgeIndex {en : List Pair} (hnd : (en.map normPair).Nodup) {k : Nat} (hk : k < en.length) :
    ∀ (ps : List Pair) (ks : List Nat), ps.map (edgeIndex? en) = ks.map some →
      ks.count k = (ps.map normPair).count (normPair en[k])
  | [], ks, h => by
    cases ks with
    | nil => rfl
    | cons _ _ => simp at h
  | p :: ps, ks, h => by
    cases ks with
    | nil => simp at h
    | cons k0 ks =>
      simp only [List.map_cons, List.cons.injEq] at h
      have ih := count_edgeIndex hnd hk ps ks h.2
      have hiff : (k0 = k) ↔ (normPair p = normPair en[k]) := by
        constructor
        · intro hk0
          subst hk0
          exact (edgeIndex?_some h.1).2.symm
        · intro hp
          have := edgeIndex?_unique hnd hk hp.symm
          rw [h.1] at this
          exact Option.some.inj this
      simp only [List.map_cons, List.count_cons, ih]
      congr 1
      by_cases hk0 : k0 = k
      · simp [hk0, hiff.mp hk0]
      · have : ¬ normPair p = normPair en[k] := fun h => hk0 (hiff.mpr h)
        simp [hk0, this]

/-- edge `k` is used by exactly as many face-edge cells as there are face sides with its node pair -/
theorem length_incidences_faceEdge {w : Nat} {en : List Pair} {faces : List (List Int)} {fe : Table}
    (hnd : (en.map normPair).Nodup) (hfe : makeFaceEdge w en faces = .ok fe)
    {k : Nat} (hk : k < en.length) :
    (incidences (fe.map compress) (k : Int)).length = sideCount faces en[k] := by
  obtain ⟨rows, rfl, hrows⟩ := makeFaceEdge_rows hfe
  rw [length_incidences, sideCount]
  simp only [List.map_map]
  have hcomp : ((fun ks : List Nat => pad w (ks.map Int.ofNat)) |> (compress ∘ ·)) = fun ks => ks.map Int.ofNat := by
    funext ks
    simp [Function.comp, compress_pad]
  have hcomp' : (compress ∘ fun ks : List Nat => pad w (ks.map Int.ofNat)) = fun ks => ks.map Int.ofNat := hcomp
  rw [hcomp']
  clear hfe hcomp hcomp'
  induction faces generalizing rows with
  | nil =>
    cases rows with
    | nil => simp [allPairs]
    | cons _ _ => simp at hrows
  | cons f fs ih =>
    cases rows with
    | nil => simp at hrows
    | cons r rs =>
      simp only [List.map_cons, List.cons.injEq] at hrows
      simp only [List.map_cons, List.flatten_cons, List.count_append, allPairs, List.flatMap_cons,
        List.map_append]
      rw [count_map_ofNat, count_edgeIndex hnd hk (facePairs f) r hrows.1]
      congr 1
      exact ih rs hrows.2

end Ems.Mesh

namespace Ems.Mesh

/-! ### the derivations succeed on a manifold mesh -/

theorem sum_map_le {α} (l : List α) (g h : α → Nat) (hle : ∀ x ∈ l, g x ≤ h x) :
    (l.map g).sum ≤ (l.map h).sum := by
  induction l with
  | nil => simp
  | cons x xs ih =>
    simp only [List.map_cons, List.sum_cons]
    have := hle x (by simp)
    have := ih (fun y hy => hle y (by simp [hy]))
    omega

theorem sum_indicator_zero (x : Int) : ∀ (ns : List Nat), (∀ k ∈ ns, x ≠ (k : Int)) →
    (ns.map fun (k : Nat) => if x = (k : Int) then 1 else 0).sum = 0
  | [], _ => rfl
  | k :: ks, h => by
    have h1 := h k (by simp)
    have := sum_indicator_zero x ks (fun k' hk' => h k' (by simp [hk']))
    simp [h1, this]

theorem sum_indicator_le_one (x : Int) : ∀ (ns : List Nat), ns.Nodup →
    (ns.map fun (k : Nat) => if x = (k : Int) then 1 else 0).sum ≤ 1
  | [], _ => by simp
  | k :: ks, h => by
    have hn := List.nodup_cons.mp h
    by_cases hx : x = (k : Int)
    · have hz := sum_indicator_zero x ks (by
        intro k' hk' hx'
        have : k = k' := by omega
        exact hn.1 (this ▸ hk'))
      simp [hx] at hz ⊢
      omega
    · have := sum_indicator_le_one x ks hn.2
      simp [hx]
      exact this

theorem sum_count_split (x : Int) (xs : List Int) : ∀ (ns : List Nat),
    (ns.map fun (k : Nat) => (x :: xs).count (k : Int)).sum
      = (ns.map fun (k : Nat) => xs.count (k : Int)).sum
        + (ns.map fun (k : Nat) => if x = (k : Int) then 1 else 0).sum
  | [] => rfl
  | k :: ks => by
    have ih := sum_count_split x xs ks
    simp only [List.map_cons, List.sum_cons]
    rw [ih, List.count_cons]
    have : (if (x == (k : Int)) = true then 1 else 0) = (if x = (k : Int) then 1 else 0) := by
      by_cases h : x = (k : Int) <;> simp [h]
    omega

/-- over a duplicate-free list of edge numbers, the occurrences in a row add up to at most its length -/
theorem sum_count_le (ns : List Nat) (hns : ns.Nodup) (R : List Int) :
    (ns.map fun (k : Nat) => R.count (k : Int)).sum ≤ R.length := by
  induction R with
  | nil =>
    have : (ns.map fun (k : Nat) => ([] : List Int).count (k : Int)) = ns.map fun _ => 0 := by simp
    rw [this]
    clear this hns
    induction ns with
    | nil => simp
    | cons _ _ ih => simpa using ih
  | cons x xs ih =>
    rw [sum_count_split]
    have := sum_indicator_le_one x ns hns
    simp only [List.length_cons]
    omega

theorem sum_count_range_le (n : Nat) (R : List Int) :
    ((List.range n).map fun (k : Nat) => R.count (k : Int)).sum ≤ R.length :=
  sum_count_le _ List.nodup_range R

theorem derived_tables_exist {w : Nat} {en : List Pair} {faces : List (List Int)}
    (hnd : (en.map normPair).Nodup)
    (hcover : ∀ f ∈ faces, ∀ p ∈ facePairs f, ∃ e ∈ en, normPair e = normPair p)
    (hw : ∀ f ∈ faces, f.length ≤ w)
    (hm : Manifold faces) :
    ∃ fe ef ff, makeFaceEdge w en faces = .ok fe ∧
      makeEdgeFace en.length (fe.map compress) = .ok ef ∧
      makeFaceFace faces.length w ef = .ok ff := by
  obtain ⟨fe, hfe, hfelen, _⟩ := makeFaceEdge_spec w en faces hcover hw
  obtain ⟨rows, hfe_eq, hrows⟩ := makeFaceEdge_rows hfe
  have hcomp : fe.map compress = rows.map (·.map Int.ofNat) := by
    rw [hfe_eq, List.map_map]
    apply List.map_congr_left
    intro ks _
    simp [Function.comp, compress_pad]
  have hrowslen : rows.length = faces.length := by
    have := congrArg List.length hrows
    simpa using this.symm
  -- the row of face i: indexes found for its consecutive pairs
  have hrow_i : ∀ i (hi : i < faces.length) (hi' : i < rows.length),
      (facePairs faces[i]).map (edgeIndex? en) = rows[i].map some := by
    intro i hi hi'
    have := congrArg (·[i]?) hrows
    simpa [List.getElem?_map, List.getElem?_eq_getElem hi, List.getElem?_eq_getElem hi'] using this
  -- entries are in range
  have hr : ∀ row ∈ fe.map compress, ∀ k ∈ row, 0 ≤ k ∧ k < (en.length : Int) := by
    intro row hrow k hk
    rw [hcomp] at hrow
    obtain ⟨ks, hks, rfl⟩ := List.mem_map.mp hrow
    obtain ⟨k0, hk0, rfl⟩ := List.mem_map.mp hk
    obtain ⟨i, hi, rfl⟩ := List.getElem_of_mem hks
    have hi' : i < faces.length := by omega
    have h1 := hrow_i i hi' hi
    obtain ⟨c, hc, rfl⟩ := List.getElem_of_mem hk0
    have h2 := congrArg (·[c]?) h1
    simp only [List.getElem?_map, List.getElem?_eq_getElem hc, Option.map_some] at h2
    cases hp : (facePairs faces[i])[c]? with
    | none => simp [hp] at h2
    | some p =>
      simp only [hp, Option.map_some, Option.some.injEq] at h2
      obtain ⟨hlt, _⟩ := edgeIndex?_some h2
      constructor
      · exact Int.natCast_nonneg _
      · exact Int.ofNat_lt.mpr hlt
  -- manifold: every edge is used at most twice
  have hman : ∀ k : Nat, k < en.length → (incidences (fe.map compress) (k : Int)).length ≤ 2 := by
    intro k hk
    rw [length_incidences_faceEdge hnd hfe hk]
    by_cases h0 : sideCount faces en[k] = 0
    · omega
    · have hpos : 0 < ((allPairs faces).map normPair).count (normPair en[k]) := by
        unfold sideCount at h0; omega
      obtain ⟨p, hp, hpn⟩ := List.mem_map.mp (List.count_pos_iff.mp hpos)
      have := hm.1 p hp
      unfold sideCount at this ⊢
      rw [hpn] at this
      exact this
  obtain ⟨ef, hef, heflen, hefspec⟩ := makeEdgeFace_spec en.length (fe.map compress) hr hman
  refine ⟨fe, ef, ?_⟩
  -- shape of the rows of ef
  have hefrow : ∀ row ∈ ef, row.length = 2 ∧ ∃ k, k < en.length ∧
      compress row = (incidences (fe.map compress) (k : Int)).map Int.ofNat := by
    intro row hrow
    obtain ⟨k, hk, rfl⟩ := List.getElem_of_mem hrow
    obtain ⟨row', hrow', hl, hc⟩ := hefspec k (by omega)
    rw [List.getElem?_eq_getElem hk] at hrow'
    rw [Option.some.inj hrow']
    exact ⟨hl, k, by omega, hc⟩
  have hinc_lt : ∀ k i, i ∈ incidences (fe.map compress) (k : Int) → i < faces.length := by
    intro k i h
    obtain ⟨row, hrow, _⟩ := mem_incidences.mp h
    have : i < (fe.map compress).length := (List.getElem?_eq_some_iff.mp hrow).1
    simpa [hfelen] using this
  -- occurrences of k in the row of face i = sides of i with that node pair (at most one)
  have hcount_le : ∀ k (hk : k < en.length) i, (incidences (fe.map compress) (k : Int)).count i ≤ 1 := by
    intro k hk i
    rw [count_incidences]
    by_cases hi : i < faces.length
    · have hi' : i < rows.length := by omega
      have : (fe.map compress)[i]? = some (rows[i].map Int.ofNat) := by
        rw [hcomp]; simp [List.getElem?_eq_getElem hi']
      rw [this]
      simp only [Option.map_some, Option.getD_some]
      rw [count_map_ofNat, count_edgeIndex hnd hk _ _ (hrow_i i hi hi')]
      exact (List.nodup_iff_count.mp (hm.2 faces[i] (List.getElem_mem _))) _
    · have : (fe.map compress)[i]? = none := by
        simp; omega
      simp [this]
  -- 1. no malformed rows
  have h1 : (ef.any badEdgeFaceRow) = false := by
    rw [List.any_eq_false]
    intro row hrow
    have := (hefrow row hrow).1
    simp [badEdgeFaceRow, this]
  -- facts about the events
  have hev : ∀ a b, (a, b) ∈ adjEvents ef → a ≠ b ∧ ∃ i : Nat, a = (i : Int) ∧ i < faces.length := by
    intro a b hab
    obtain ⟨row, hrow, hshape⟩ := mem_adjEvents.mp hab
    obtain ⟨_, k, hk, hc⟩ := hefrow row hrow
    have hcomp2 : compress row = [a, b] ∨ compress row = [b, a] := by
      rcases hshape with h | h <;> simp [h, compress]
    have hmema : a ∈ compress row := by rcases hcomp2 with h | h <;> simp [h]
    rw [hc] at hmema
    obtain ⟨i, hi, rfl⟩ := List.mem_map.mp hmema
    refine ⟨?_, i, rfl, hinc_lt k i hi⟩
    intro hab'
    subst hab'
    have h2 : ((incidences (fe.map compress) (k : Int)).map Int.ofNat).count (Int.ofNat i) = 2 := by
      rw [← hc]
      rcases hcomp2 with h | h <;> simp [h]
    have h3 : ((incidences (fe.map compress) (k : Int)).map Int.ofNat).count (Int.ofNat i)
        = (incidences (fe.map compress) (k : Int)).count i := count_map_ofNat _ i
    have := hcount_le k hk i
    omega
  have h2 : ((adjEvents ef).any fun ev => decide (ev.1 = ev.2)) = false := by
    rw [List.any_eq_false]
    intro ev hmem
    have := (hev ev.1 ev.2 hmem).1
    simpa using this
  have h3 : ((adjEvents ef).any fun ev => !inRange faces.length ev.1) = false := by
    rw [List.any_eq_false]
    intro ev hmem
    obtain ⟨_, i, hi, hlt⟩ := hev ev.1 ev.2 hmem
    simp only [inRange, hi, Bool.not_eq_true', Bool.not_eq_false, Bool.and_eq_true, decide_eq_true_eq]
    exact ⟨Int.natCast_nonneg _, Int.ofNat_lt.mpr hlt⟩
  -- 4. no row is wider than the face table
  have hev0 : ∀ ev ∈ adjEvents ef, 0 ≤ ev.1 := by
    intro ev hmem
    obtain ⟨_, i, hi, _⟩ := hev ev.1 ev.2 hmem
    rw [hi]; exact Int.natCast_nonneg _
  have h4 : ((accumulate faces.length ((adjEvents ef).map fun ev => (ev.1.toNat, ev.2))).any
      fun r => decide (w < r.length)) = false := by
    rw [List.any_eq_false]
    intro r hmem
    obtain ⟨f, hf, rfl⟩ := List.getElem_of_mem hmem
    have hf' : f < faces.length := by simpa [length_accumulate] using hf
    have hrowf := getElem?_accumulate faces.length ((adjEvents ef).map fun ev => (ev.1.toNat, ev.2)) f hf'
    rw [filter_toNat_key _ hev0, List.getElem?_eq_getElem hf] at hrowf
    rw [Option.some.inj hrowf]
    simp only [List.length_map, decide_eq_true_eq, Nat.not_lt]
    -- B1: as a count of first components
    have hB1 : ((adjEvents ef).filter fun ev => ev.1 == (f : Int)).length
        = ((adjEvents ef).map (·.1)).count (f : Int) := by
      rw [List.count_eq_countP, List.countP_map, List.countP_eq_length_filter]
      rfl
    -- B2: bounded by the occurrences of f in the compressed rows of ef
    have hB2 : ((adjEvents ef).map (·.1)).count (f : Int) ≤ ((ef.map compress).flatten).count (f : Int) := by
      simp only [adjEvents, List.map_flatMap, List.count_flatMap, List.count_flatten, List.map_map]
      apply sum_map_le
      intro row _
      simp only [Function.comp]
      unfold facePairEvents
      split
      · simp [compress]
      · simp
    -- B3: the compressed rows of ef, edge by edge
    have hB3 : ef.map compress = (List.range en.length).map fun (k : Nat) =>
        (incidences (fe.map compress) (k : Int)).map Int.ofNat := by
      apply List.ext_getElem?
      intro k
      by_cases hk : k < en.length
      · obtain ⟨row, hrow, _, hc⟩ := hefspec k hk
        simp [List.getElem?_map, hrow, hc, hk]
      · have h1 : (ef.map compress)[k]? = none := by
          apply List.getElem?_eq_none; simp; omega
        have h2 : ((List.range en.length).map fun (k : Nat) =>
            (incidences (fe.map compress) (k : Int)).map Int.ofNat)[k]? = none := by
          apply List.getElem?_eq_none; simp; omega
        rw [h1, h2]
    have hi' : f < rows.length := by omega
    have hRf : (fe.map compress)[f]? = some (rows[f].map Int.ofNat) := by
      rw [hcomp]; simp [List.getElem?_eq_getElem hi']
    have hB4 : ((ef.map compress).flatten).count (f : Int)
        = ((List.range en.length).map fun (k : Nat) => (rows[f].map Int.ofNat).count (k : Int)).sum := by
      rw [hB3, List.count_flatten, List.map_map]
      congr 1
      apply List.map_congr_left
      intro k _
      simp only [Function.comp]
      have e1 := count_map_ofNat (incidences (fe.map compress) (k : Int)) f
      have e2 := count_map_ofNat rows[f] k
      rw [e1, e2, count_incidences, hRf]
      simp [count_map_ofNat]
    have hB5 := sum_count_range_le en.length (rows[f].map Int.ofNat)
    have hB6 : (rows[f].map Int.ofNat).length = faces[f].length := by
      have := congrArg List.length (hrow_i f hf' hi')
      simpa [length_facePairs] using this.symm
    have := hw faces[f] (List.getElem_mem _)
    omega
  simp only [makeFaceFace, h1, h2, h3, h4]
  exact ⟨_, hfe, hef, rfl⟩

end Ems.Mesh

namespace Ems.Mesh

/-! ### unfolding the dataset-level glue -/

theorem topoBase_edgeTables {ds : DS} {nb : Option (List Pair)} {q : Quirks} {b : TopoIn}
    (h : ds.topoBase nb q = .ok b) :
    (b.edgeNode = match ds.validEdgeVar? q "edge_node_connectivity", ds.edgeDim with
      | some v, .ok ed => some (ds.decode q v ed)
      | _, _ => none) ∧
    (b.edgeFace = match ds.validEdgeVar? q "edge_face_connectivity", ds.edgeDim with
      | some v, .ok ed => some (ds.decode q v ed)
      | _, _ => none) := by
  simp only [DS.topoBase, bind, Except.bind] at h
  split at h
  · simp at h
  · split at h
    · simp at h
    · simp only [pure, Except.pure, Except.ok.injEq] at h
      subst h
      exact ⟨rfl, rfl⟩

theorem topoIn_eq {ds : DS} {nb : Option (List Pair)} {q : Quirks} {t : TopoIn}
    (h : ds.topoIn nb q = .ok t) :
    ∃ b, ds.topoBase nb q = .ok b ∧ t =
      { b with
        faceEdge := (match ds.faceEdgeValid b, ds.validFaceVar? "face_edge_connectivity", ds.faceDim with
          | .error e, _, _ => some (.error e)
          | .ok true, some v, .ok fd => some (ds.decode q v fd)
          | _, _, _ => none),
        faceFace := (match ds.validFaceVar? "face_face_connectivity", ds.faceDim with
          | some v, .ok fd => some (ds.decode q v fd)
          | _, _ => none) } := by
  simp only [DS.topoIn, bind, Except.bind] at h
  split at h
  · simp at h
  · rename_i b hb
    simp only [pure, Except.pure, Except.ok.injEq] at h
    exact ⟨b, hb, h.symm⟩

end Ems.Mesh
