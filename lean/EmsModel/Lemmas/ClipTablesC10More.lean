import EmsModel.Lemmas.ClipTablesMore
import EmsModel.Core.Mesh
/-!
Lemmas/ClipTablesC10More.lean — `ClipTables.Consistent` is what C10 proves.

The relations of `C10.derived_tables_consistent` are stated on `Mesh.Table` (integer entries, as the `*_array`
properties return them); `update_connectivity` (`Ems.updateConnectivity`) is modelled on base-0 natural-number
tables.  `consistent_of_c10` shows that the C10 relations, read on the integer image `toIntTab` of natural-number
tables, imply `ClipTables.Consistent` of those tables — so the hypothesis of `C09.tables_stay_consistent` is met
by every mesh C10 proves consistent.
-/
namespace Ems.ClipTables
open Ems Ems.C09

/-- a natural-number table as the `*_array` properties present it -/
def toIntTab (t : Tab) : Mesh.Table := t.map (·.map (·.map Int.ofNat))

def castP (p : Nat × Nat) : Mesh.Pair := ((p.1 : Int), (p.2 : Int))

theorem compress_cast : ∀ (row : List (Option Nat)),
    Mesh.compress (row.map (·.map Int.ofNat)) = (present row).map Int.ofNat
  | [] => rfl
  | none :: rest => by
    have := compress_cast rest
    simpa [Mesh.compress, present] using this
  | some x :: rest => by
    have := compress_cast rest
    simp only [Mesh.compress, present] at this ⊢
    simp [this]

theorem facesOf_cast (fn : Tab) (i : Nat) (hi : i < fn.length) :
    ∃ h : i < (Mesh.facesOf (toIntTab fn)).length,
      (Mesh.facesOf (toIntTab fn))[i] = (present (fn.getD i [])).map Int.ofNat := by
  refine ⟨by simpa [Mesh.facesOf, toIntTab] using hi, ?_⟩
  simp only [Mesh.facesOf, toIntTab, List.getElem_map, compress_cast]
  simp [List.getD_eq_getElem?_getD, List.getElem?_eq_getElem hi]

theorem facePairs_cast (l : List Nat) : Mesh.facePairs (l.map Int.ofNat) = (sides l).map castP := by
  cases l with
  | nil => rfl
  | cons a rest =>
    simp only [List.map_cons, Mesh.facePairs, sides]
    rw [show rest.map Int.ofNat ++ [Int.ofNat a] = (rest ++ [a]).map Int.ofNat by simp, ← List.map_cons, List.zip_map]
    rfl

theorem normPair_cast (p q : Nat × Nat) :
    Mesh.normPair (castP p) = Mesh.normPair (castP q) ↔ samePair p q = true := by
  obtain ⟨a, b⟩ := p
  obtain ⟨c, d⟩ := q
  rw [samePair_iff]
  simp only [Mesh.normPair, castP, Prod.mk.injEq]
  by_cases h1 : (a : Int) ≤ b <;> by_cases h2 : (c : Int) ≤ d <;> simp only [h1, h2, if_true, if_false, Prod.mk.injEq] <;>
    omega

theorem pairs_cast : ∀ (en : Tab) (pairs : List Mesh.Pair), Mesh.pairsOfTable (toIntTab en) = some pairs →
    pairs.length = en.length ∧ ∀ k, k < en.length → ∃ q, edgePair en k = some q ∧ pairs[k]? = some (castP q)
  | [], pairs, h => by
    simp only [toIntTab, List.map_nil, Mesh.pairsOfTable, Option.some.injEq] at h
    subst h
    exact ⟨rfl, fun k hk => absurd hk (Nat.not_lt_zero k)⟩
  | row :: rest, pairs, h => by
    match row, h with
    | [some a, some b], h =>
      simp only [toIntTab, List.map_cons, List.map_nil, Option.map_some, Mesh.pairsOfTable,
        Option.map_eq_some_iff] at h
      obtain ⟨ps, hps, rfl⟩ := h
      obtain ⟨hl, hk⟩ := pairs_cast rest ps hps
      refine ⟨by simp [hl], ?_⟩
      intro k hk'
      cases k with
      | zero => exact ⟨(a, b), rfl, rfl⟩
      | succ j =>
        obtain ⟨q, hq, hp⟩ := hk j (by simpa using hk')
        refine ⟨q, ?_, by simpa using hp⟩
        simpa [edgePair] using hq
    | [], h => simp [toIntTab, Mesh.pairsOfTable] at h
    | [_], h => cases ‹Option Nat› <;> simp [toIntTab, Mesh.pairsOfTable] at h
    | none :: _ :: _, h => simp [toIntTab, Mesh.pairsOfTable] at h
    | some _ :: none :: _, h => simp [toIntTab, Mesh.pairsOfTable] at h
    | some _ :: some _ :: _ :: _, h => simp [toIntTab, Mesh.pairsOfTable] at h

theorem mem_rowOf_cast (t : Tab) (k i : Nat) :
    (i : Int) ∈ Mesh.rowOf (toIntTab t) k ↔ (t.getD k []).contains (some i) = true := by
  rw [List.contains_iff_mem]
  simp only [Mesh.rowOf, toIntTab, List.getElem?_map]
  cases h : t[k]? with
  | none => simp [List.getD_eq_getElem?_getD, h]
  | some row =>
    simp only [Option.map_some, compress_cast, List.getD_eq_getElem?_getD, h, Option.getD_some, List.mem_map]
    constructor
    · rintro ⟨x, hx, he⟩
      have : x = i := by exact Int.ofNat_inj.mp he
      subst this
      exact (mem_present row x).mp hx
    · intro hm
      exact ⟨i, (mem_present row i).mpr hm, rfl⟩

theorem entry_cast (t : Tab) (r c : Nat) :
    ((toIntTab t)[r]?).bind (·[c]?) = (entry t r c).map (·.map Int.ofNat) := by
  simp only [toIntTab, entry, List.getElem?_map]
  cases t[r]? with
  | none => rfl
  | some row => simp

/-- the `c`-th side of face `i`, both ways of writing it -/
theorem facePairs_faces (fn : Tab) (i : Nat) (hi : i < fn.length) :
    ∃ h : i < (Mesh.facesOf (toIntTab fn)).length,
      Mesh.facePairs (Mesh.facesOf (toIntTab fn))[i] = (faceSides fn i).map castP := by
  obtain ⟨h, he⟩ := facesOf_cast fn i hi
  exact ⟨h, by rw [he, facePairs_cast]; rfl⟩

theorem any_samePair_iff (l : List (Nat × Nat)) (q : Nat × Nat) :
    (∃ p ∈ l.map castP, Mesh.normPair p = Mesh.normPair (castP q)) ↔ l.any (fun p => samePair p q) = true := by
  simp only [List.mem_map, List.any_eq_true]
  constructor
  · rintro ⟨_, ⟨p, hp, rfl⟩, h⟩
    exact ⟨p, hp, (normPair_cast p q).mp h⟩
  · rintro ⟨p, hp, h⟩
    exact ⟨castP p, ⟨p, hp, rfl⟩, (normPair_cast p q).mpr h⟩

/-- **The C10 relations imply `Consistent`.**  Let `fn en fe ef ff` be natural-number tables and read them as the
integer tables of `Core/Mesh.lean` (`toIntTab`; faces = `Mesh.facesOf`, edges = `Mesh.pairsOfTable`).  If these
satisfy the relations in the conclusion of `C10.derived_tables_consistent` (and the row layout of
`C10.face_edge_spec`: fill after the last side), then `Consistent fn en fe ef ff`. -/
theorem consistent_of_c10 (fn en fe ef ff : Tab) (pairs : List Mesh.Pair)
    (hpairs : Mesh.pairsOfTable (toIntTab en) = some pairs)
    (hnd : (pairs.map Mesh.normPair).Nodup)
    (hlfe : fe.length = fn.length) (hlef : ef.length = en.length) (hlff : ff.length = fn.length)
    (r1 : ∀ i (hi : i < (Mesh.facesOf (toIntTab fn)).length) c
        (_ : c < (Mesh.facePairs (Mesh.facesOf (toIntTab fn))[i]).length),
        ∃ k : Nat, ((toIntTab fe)[i]?.bind (·[c]?)) = some (some (k : Int)) ∧ ∃ hk : k < pairs.length,
          Mesh.normPair pairs[k] = Mesh.normPair (Mesh.facePairs (Mesh.facesOf (toIntTab fn))[i])[c])
    (rfill : ∀ i (hi : i < (Mesh.facesOf (toIntTab fn)).length) c,
        (Mesh.facesOf (toIntTab fn))[i].length ≤ c → c < (fe.getD i []).length →
        ((toIntTab fe)[i]?.bind (·[c]?)) = some none)
    (r2 : ∀ k (hk : k < pairs.length) i (hi : i < (Mesh.facesOf (toIntTab fn)).length),
        (i : Int) ∈ Mesh.rowOf (toIntTab ef) k ↔
          ∃ p ∈ Mesh.facePairs (Mesh.facesOf (toIntTab fn))[i], Mesh.normPair p = Mesh.normPair pairs[k])
    (r4 : ∀ i (hi : i < (Mesh.facesOf (toIntTab fn)).length) j (hj : j < (Mesh.facesOf (toIntTab fn)).length),
        (j : Int) ∈ Mesh.rowOf (toIntTab ff) i ↔
          i ≠ j ∧ ∃ p ∈ Mesh.facePairs (Mesh.facesOf (toIntTab fn))[i],
            ∃ q ∈ Mesh.facePairs (Mesh.facesOf (toIntTab fn))[j], Mesh.normPair p = Mesh.normPair q) :
    Consistent fn en fe ef ff := by
  obtain ⟨hpl, hpk⟩ := pairs_cast en pairs hpairs
  have hfl : (Mesh.facesOf (toIntTab fn)).length = fn.length := by simp [Mesh.facesOf, toIntTab]
  -- reading `pairs[k]`
  have hpget : ∀ k (hk : k < en.length), ∃ q, edgePair en k = some q ∧ ∃ h : k < pairs.length, pairs[k] = castP q := by
    intro k hk
    obtain ⟨q, hq, hp⟩ := hpk k hk
    obtain ⟨h, he⟩ := List.getElem?_eq_some_iff.mp hp
    exact ⟨q, hq, h, he⟩
  refine ⟨⟨?_, ?_⟩, ⟨hlfe, ?_, ?_⟩, ⟨hlef, ?_⟩, ⟨hlff, ?_⟩⟩
  · intro k hk
    obtain ⟨q, hq, _⟩ := hpk k hk
    rw [hq]; rfl
  · intro k hk l hl hany
    obtain ⟨qk, hqk, hk', ek⟩ := hpget k hk
    obtain ⟨ql, hql, hl', el⟩ := hpget l hl
    rw [hqk, Option.any_some] at hany
    obtain ⟨q', hq', hs⟩ := (edgeHasPair_iff en l qk).mp hany
    rw [hql] at hq'
    cases Option.some.inj hq'
    have hn : Mesh.normPair pairs[l] = Mesh.normPair pairs[k] := by
      rw [ek, el]; exact (normPair_cast ql qk).mpr hs
    have h1 : (pairs.map Mesh.normPair)[k]? = (pairs.map Mesh.normPair)[l]? := by
      simp [List.getElem?_eq_getElem hk', List.getElem?_eq_getElem hl', hn]
    exact (List.getElem?_inj (by simpa using hk') hnd).mp h1
  · intro i hi c hc
    obtain ⟨hi', hfp⟩ := facePairs_faces fn i hi
    obtain ⟨k, hent, hk, hn⟩ := r1 i hi' c (by rw [hfp, List.length_map]; exact hc)
    have hken : k < en.length := by rw [← hpl]; exact hk
    obtain ⟨q, hq, _, eq⟩ := hpget k hken
    refine ⟨k, hken, ?_, ?_⟩
    · rw [entry_cast] at hent
      cases he : entry fe i c with
      | none => rw [he] at hent; simp at hent
      | some e =>
        rw [he] at hent
        cases e with
        | none => simp at hent
        | some x =>
          simp only [Option.map_some, Option.some.injEq] at hent
          have : x = k := Int.ofNat_inj.mp hent
          rw [this]
    · rw [(edgeHasPair_iff en k _)]
      refine ⟨q, hq, ?_⟩
      have hside : (Mesh.facePairs (Mesh.facesOf (toIntTab fn))[i])[c]'(by rw [hfp, List.length_map]; exact hc) =
          castP ((faceSides fn i).getD c (0, 0)) := by
        simp only [hfp, List.getElem_map]
        congr 1
        simp [List.getD_eq_getElem?_getD, List.getElem?_eq_getElem hc]
      rw [eq, hside] at hn
      exact (normPair_cast _ _).mp hn
  · intro i hi c hc hle
    obtain ⟨hi', he⟩ := facesOf_cast fn i hi
    have := rfill i hi' c (by rw [he, List.length_map]; rw [faceSides, sides_length] at hle; exact hle) hc
    rw [entry_cast] at this
    cases hent : entry fe i c with
    | none => rw [hent] at this; simp at this
    | some e =>
      rw [hent] at this
      cases e with
      | none => rfl
      | some x => simp at this
  · intro k hk i hi
    obtain ⟨hi', hfp⟩ := facePairs_faces fn i hi
    obtain ⟨q, hq, hk', eq⟩ := hpget k hk
    rw [← mem_rowOf_cast, r2 k hk' i hi', hfp, eq, any_samePair_iff]
    have hfun : (fun p => samePair p q) = edgeHasPair en k := by
      funext p
      simp only [edgeHasPair, hq]
      exact samePair_symm p q
    rw [hfun]
  · intro i hi j hj
    obtain ⟨hi', hfpi⟩ := facePairs_faces fn i hi
    obtain ⟨hj', hfpj⟩ := facePairs_faces fn j hj
    rw [← mem_rowOf_cast, r4 i hi' j hj', hfpi, hfpj]
    refine and_congr_right (fun _ => ?_)
    simp only [List.mem_map, List.any_eq_true]
    constructor
    · rintro ⟨_, ⟨p, hp, rfl⟩, _, ⟨q, hq, rfl⟩, h⟩
      exact ⟨p, hp, q, hq, (normPair_cast p q).mp h⟩
    · rintro ⟨p, hp, q, hq, h⟩
      exact ⟨castP p, ⟨p, hp, rfl⟩, castP q, ⟨q, hq, rfl⟩, (normPair_cast p q).mpr h⟩

end Ems.ClipTables
