import EmsModel.Lemmas.DepthNorm
/-!
Lemmas/DepthSpec.lean — the vocabulary in which the C12 / C13 theorems are stated
(physical depths, the hypotheses on depth coordinates) and what normalisation does to one
coordinate.
-/
namespace Ems.Depth

open Ems

/-! ### vocabulary -/

/-- the values of a coordinate as rationals (NaN entries dropped; a good coordinate has none) -/
def ratData (v : Var) : List Rat := v.data.filterMap id

/-- depths below the surface read with sign convention `down`: the values themselves when
positive is down, their negatives when positive is up -/
def physOf (down : Bool) (rats : List Rat) : List Rat := if down then rats else rats.map (fun r => -r)

/-- **physical depth of every level** of a depth coordinate: its values read with its own sign
convention (`positive` attribute, or the majority guess when there is none) -/
def phys (v : Var) : List Rat := physOf (signDown v) (ratData v)

/-- physical depth at a named index -/
def physAt (sz : String → Nat) (v : Var) (env : Env) : Val :=
  if signDown v then v.at sz env else vneg (v.at sz env)

/-- The hypotheses on one depth coordinate (the quantifier of C13): a one-dimensional variable
with at least two levels, no missing value, strictly monotonic, `positive` absent or spelled
`up` / `down`, data filling its dimension, not its own bounds. -/
structure GoodCoord (ds : Dataset) (c : String) (cv : Var) (d : String) : Prop where
  found : ds.find c = some cv
  dims : cv.dims = [d]
  noNaN : ∀ x ∈ cv.data, x ≠ none
  levels : 2 ≤ cv.data.length
  mono : (ratData cv).Pairwise (· < ·) ∨ (ratData cv).Pairwise (· > ·)
  spelled : cv.positive = none ∨ cv.positive = some "up" ∨ cv.positive = some "down"
  sized : cv.data.length = ds.sz d
  notSelf : cv.bounds ≠ some c

/-- The hypotheses on the list of depth coordinates handed to the normaliser: every one is
good, they are pairwise different, live on pairwise different dimensions, none is the bounds
variable of another; variable names are unique and every variable fills its shape. -/
structure Valid (ds : Dataset) (coords : List String) : Prop where
  good : ∀ c ∈ coords, ∃ cv d, GoodCoord ds c cv d
  indep : coords.Pairwise (fun c1 c2 => c1 ≠ c2 ∧ Indep ds c1 c2)
  names : (ds.vars.map (·.name)).Nodup
  wf : ∀ v ∈ ds.vars, v.WF ds.sz

/-- a data variable as far as the normaliser is concerned: neither one of the coordinates nor
the bounds variable of one -/
def PlainVar (ds : Dataset) (coords : List String) (name : String) : Prop :=
  name ∉ coords ∧ ∀ c ∈ coords, ∀ cv, ds.find c = some cv → cv.bounds ≠ some name

/-! ### list facts -/

theorem eq_map_some_filterMap {α} : ∀ l : List (Option α), (∀ x ∈ l, x ≠ none) → l = (l.filterMap id).map some
  | [], _ => rfl
  | none :: _, h => absurd rfl (h none (by simp))
  | some a :: xs, h => by
    have := eq_map_some_filterMap xs (fun x hx => h x (by simp [hx]))
    simp only [List.filterMap_cons, id, List.map_cons]
    rw [← this]

theorem data_eq (v : Var) (h : ∀ x ∈ v.data, x ≠ none) : v.data = (ratData v).map some :=
  eq_map_some_filterMap v.data h

theorem length_ratData (v : Var) (h : ∀ x ∈ v.data, x ≠ none) : (ratData v).length = v.data.length := by
  conv => rhs; rw [data_eq v h]
  simp

theorem filterMap_vneg : ∀ l : List Val, (l.map vneg).filterMap id = (l.filterMap id).map (fun r => -r)
  | [] => rfl
  | none :: xs => by simpa [vneg] using filterMap_vneg xs
  | some a :: xs => by simpa [vneg] using filterMap_vneg xs

theorem physOf_flip (s : Bool) (rats : List Rat) : physOf (!s) (rats.map (fun r => -r)) = physOf s rats := by
  cases s <;> simp [physOf, List.map_map, Function.comp_def, Rat.neg_neg]

theorem physOf_reverse (s : Bool) (rats : List Rat) : physOf s rats.reverse = (physOf s rats).reverse := by
  cases s <;> simp [physOf, List.map_reverse]

theorem guessDown_reverse (l : List Val) : guessDown l.reverse = guessDown l := by
  simp [guessDown, List.filter_reverse]

theorem pairwise_neg_lt (rats : List Rat) :
    (rats.map (fun r => -r)).Pairwise (· < ·) ↔ rats.Pairwise (· > ·) := by
  rw [List.pairwise_map]
  constructor <;> intro h <;> exact h.imp (by intro a b hab; grind)

theorem pairwise_neg_gt (rats : List Rat) :
    (rats.map (fun r => -r)).Pairwise (· > ·) ↔ rats.Pairwise (· < ·) := by
  rw [List.pairwise_map]
  constructor <;> intro h <;> exact h.imp (by intro a b hab; grind)

/-! ### from the spec hypotheses to the closed form's hypotheses -/

theorem GoodCoord.two {ds : Dataset} {c : String} {cv : Var} {d : String} (h : GoodCoord ds c cv d) :
    ∃ a b rest, ratData cv = a :: b :: rest ∧ a ≠ b ∧ cv.data = some a :: some b :: rest.map some := by
  have hd := data_eq cv h.noNaN
  have hl := length_ratData cv h.noNaN
  have h2 := h.levels
  match hr : ratData cv, hl with
  | [], hl => simp at hl; omega
  | [_], hl => simp at hl; omega
  | a :: b :: rest, _ =>
    refine ⟨a, b, rest, rfl, ?_, by rw [hd, hr]; rfl⟩
    rcases h.mono with hm | hm <;> rw [hr] at hm <;>
      have := (List.pairwise_cons.mp hm).1 b (by simp) <;> grind

theorem GoodCoord.ok {ds : Dataset} {c : String} {cv : Var} {d : String} (h : GoodCoord ds c cv d) :
    CoordOK ds c cv d := by
  obtain ⟨a, b, rest, _, hab, hdata⟩ := h.two
  exact ⟨h.found, h.dims, ⟨a, b, _, hdata, hab⟩, h.notSelf⟩

theorem Valid.ok {ds : Dataset} {coords : List String} (h : Valid ds coords) :
    ∀ c ∈ coords, ∃ cv d, CoordOK ds c cv d := by
  intro c hc
  obtain ⟨cv, d, hg⟩ := h.good c hc
  exact ⟨cv, d, hg.ok⟩

theorem find?_of_mem_nodup : ∀ (l : List Var), (l.map (·.name)).Nodup → ∀ v ∈ l,
    l.find? (fun w => w.name == v.name) = some v
  | [], _, v, hv => by simp at hv
  | x :: xs, hn, v, hv => by
    simp only [List.map_cons, List.nodup_cons] at hn
    rcases List.mem_cons.mp hv with rfl | hm
    · simp
    · have hne : x.name ≠ v.name := fun e => hn.1 (e ▸ List.mem_map_of_mem (f := (·.name)) hm)
      have : (x.name == v.name) = false := by simp [hne]
      rw [List.find?_cons, this]
      exact find?_of_mem_nodup xs hn.2 v hm

/-- with unique names, `find` by the name of a member returns that member -/
theorem find_of_mem (ds : Dataset) (hn : (ds.vars.map (·.name)).Nodup) (v : Var) (hv : v ∈ ds.vars) :
    ds.find v.name = some v := find?_of_mem_nodup ds.vars hn v hv

/-! ### what the plan of a coordinate does to that coordinate -/

def negIf (f : Bool) (l : List Val) : List Val := if f then l.map vneg else l
def revIf {α} (r : Bool) (l : List α) : List α := if r then l.reverse else l

/-- the new `positive` attribute -/
def newPositive (pd : Option Bool) (old : Option String) : Option String :=
  match pd with
  | some b => some (posName b)
  | none => old

theorem stepPos_isCoord (p : Plan) (v : Var) : (stepPos p v).isCoord = v.isCoord := by
  unfold stepPos; split
  · cases p.setPos <;> rfl
  · rfl
theorem stepPos_extra (p : Plan) (v : Var) : (stepPos p v).extra = v.extra := by
  unfold stepPos; split
  · cases p.setPos <;> rfl
  · rfl
theorem stepNeg_isCoord (p : Plan) (v : Var) : (stepNeg p v).isCoord = v.isCoord := by
  unfold stepNeg; split <;> rfl
theorem stepNeg_extra (p : Plan) (v : Var) : (stepNeg p v).extra = v.extra := by
  unfold stepNeg; split <;> rfl
theorem stepBnd_isCoord (p : Plan) (v : Var) : (stepBnd p v).isCoord = v.isCoord := by
  unfold stepBnd; split <;> rfl
theorem stepBnd_extra (p : Plan) (v : Var) : (stepBnd p v).extra = v.extra := by
  unfold stepBnd; split <;> rfl
theorem stepRev_isCoord (sz : String → Nat) (p : Plan) (v : Var) : (stepRev sz p v).isCoord = v.isCoord := by
  unfold stepRev; split
  · exact revVar_isCoord ..
  · rfl
theorem stepRev_extra (sz : String → Nat) (p : Plan) (v : Var) : (stepRev sz p v).extra = v.extra := by
  unfold stepRev; split
  · exact revVar_extra ..
  · rfl
theorem applyPlan_isCoord (sz : String → Nat) (p : Plan) (v : Var) : (applyPlan sz p v).isCoord = v.isCoord := by
  simp [applyPlan, stepRev_isCoord, stepBnd_isCoord, stepNeg_isCoord, stepPos_isCoord]
theorem applyPlan_extra (sz : String → Nat) (p : Plan) (v : Var) : (applyPlan sz p v).extra = v.extra := by
  simp [applyPlan, stepRev_extra, stepBnd_extra, stepNeg_extra, stepPos_extra]

theorem stepPos_positive_self (p : Plan) (v : Var) (pd : Option Bool) (hn : p.name = v.name)
    (hs : p.setPos = pd.map posName) : (stepPos p v).positive = newPositive pd v.positive := by
  unfold stepPos
  rw [hs]
  cases pd <;> simp [hn, newPositive, Var.setPositive]

theorem applyPlan_positive_self (sz : String → Nat) (p : Plan) (v : Var) (pd : Option Bool)
    (hn : p.name = v.name) (hs : p.setPos = pd.map posName) :
    (applyPlan sz p v).positive = newPositive pd v.positive := by
  simp only [applyPlan, stepRev_positive, stepBnd_positive, stepNeg_positive]
  exact stepPos_positive_self p v pd hn hs

theorem stepNeg_data_self (p : Plan) (v : Var) (hn : p.name = v.name) :
    (stepNeg p v).data = negIf p.flip v.data := by
  unfold stepNeg negIf
  by_cases hf : p.flip = true
  · simp [hf, hn, negVar]
  · simp [hf]

theorem applyPlan_data_coord (sz : String → Nat) (p : Plan) (cv : Var) (d : String)
    (hn : p.name = cv.name) (hb : p.bounds = cv.bounds) (hd : p.dim = d)
    (hdims : cv.dims = [d]) (hsized : cv.data.length = sz d) (hself : cv.bounds ≠ some cv.name) :
    (applyPlan sz p cv).data = revIf p.rev (negIf p.flip cv.data) := by
  have e3 : stepBnd p (stepNeg p (stepPos p cv)) = stepNeg p (stepPos p cv) := by
    unfold stepBnd
    have : p.bounds ≠ some (stepNeg p (stepPos p cv)).name := by
      rw [stepNeg_name, stepPos_name, hb]; exact hself
    simp [this]
  have e2 : (stepNeg p (stepPos p cv)).data = negIf p.flip cv.data := by
    rw [stepNeg_data_self p _ (by rw [stepPos_name]; exact hn), stepPos_data]
  unfold applyPlan
  rw [e3]
  unfold stepRev revIf
  by_cases hr : p.rev = true
  · simp only [hr, if_true]
    have hd2 : (stepNeg p (stepPos p cv)).dims = [d] := by rw [stepNeg_dims, stepPos_dims, hdims]
    have hl2 : (stepNeg p (stepPos p cv)).data.length = sz d := by
      rw [e2]; unfold negIf; split <;> simp [hsized]
    rw [hd, revVar_1d sz d _ hd2 hl2, e2]
  · simp only [hr]
    exact e2

/-- what the plan of a coordinate does to that coordinate -/
theorem applyPlan_coord (sz : String → Nat) (cv : Var) (d : String) (pd dts : Option Bool)
    (hdims : cv.dims = [d]) (hsized : cv.data.length = sz d) (hself : cv.bounds ≠ some cv.name) :
    (applyPlan sz (planOf cv d pd dts) cv).data
        = revIf (planOf cv d pd dts).rev (negIf (planOf cv d pd dts).flip cv.data)
      ∧ (applyPlan sz (planOf cv d pd dts) cv).positive = newPositive pd cv.positive :=
  ⟨applyPlan_data_coord sz _ cv d rfl rfl rfl hdims hsized hself,
   applyPlan_positive_self sz _ cv pd rfl rfl⟩

/-- `ratData`, `signDown` and `phys` of a coordinate after its plan -/
theorem ratData_of_data (v : Var) (l : List Val) (h : v.data = l) : ratData v = l.filterMap id := by
  simp [ratData, h]

theorem signDown_after (cv cv' : Var) (pd : Option Bool) (f r : Bool)
    (hdata : cv'.data = revIf r (negIf f cv.data)) (hpos : cv'.positive = newPositive pd cv.positive)
    (hf : f = wantFlip pd (signDown cv)) :
    signDown cv' = (if f then !signDown cv else signDown cv) := by
  cases pd with
  | some b =>
    simp only [newPositive] at hpos
    simp only [wantFlip] at hf
    have : signDown cv' = b := by
      simp only [signDown, hpos]
      cases b <;> simp [posName]
    rw [this, hf]
    cases signDown cv <;> cases b <;> rfl
  | none =>
    simp only [newPositive] at hpos
    simp only [wantFlip] at hf
    subst hf
    simp only [negIf, Bool.false_eq_true, if_false] at hdata ⊢
    unfold signDown
    rw [hpos, hdata]
    cases cv.positive with
    | some s => rfl
    | none =>
      simp only []
      unfold revIf
      split
      · exact guessDown_reverse _
      · rfl

theorem phys_after (cv cv' : Var) (pd : Option Bool) (f r : Bool)
    (hdata : cv'.data = revIf r (negIf f cv.data)) (hpos : cv'.positive = newPositive pd cv.positive)
    (hf : f = wantFlip pd (signDown cv)) :
    phys cv' = revIf r (phys cv) := by
  have hs := signDown_after cv cv' pd f r hdata hpos hf
  unfold phys
  rw [hs, ratData_of_data cv' _ hdata]
  have hrd : (revIf r (negIf f cv.data)).filterMap id
      = revIf r (if f then (ratData cv).map (fun x => -x) else ratData cv) := by
    unfold revIf negIf ratData
    cases r <;> cases f <;>
      simp only [Bool.false_eq_true, if_false, if_true, List.filterMap_reverse, filterMap_vneg]
  rw [hrd]
  cases r <;> cases f <;> simp [revIf, physOf_flip, physOf_reverse]

/-- the ordering test of the code, read on physical depths -/
theorem deepFirst_iff (cv : Var) (a b : Rat) (rest : List Rat) (hr : ratData cv = a :: b :: rest)
    (hdata : cv.data = some a :: some b :: rest.map some)
    (hmono : (ratData cv).Pairwise (· < ·) ∨ (ratData cv).Pairwise (· > ·)) :
    ∃ dds, deepFirst (signDown cv) cv.data = some dds ∧
      (dds = true → (phys cv).Pairwise (· > ·)) ∧ (dds = false → (phys cv).Pairwise (· < ·)) := by
  refine ⟨vgt (some a) (some b) == signDown cv, by simp [deepFirst, firstTwo, hdata], ?_, ?_⟩
  all_goals
    intro hd
    unfold phys physOf
    rcases hmono with hm | hm
    all_goals
      have hab := (List.pairwise_cons.mp (hr ▸ hm)).1 b (by simp)
      cases hs : signDown cv
      all_goals
        simp only [hs, vgt, beq_iff_eq, decide_eq_true_eq, beq_eq_false_iff_ne, ne_eq, Bool.false_eq_true,
          if_false, if_true, decide_eq_false_iff_not] at hd ⊢
        first
          | exact hm
          | exact (pairwise_neg_lt _).mpr hm
          | exact (pairwise_neg_gt _).mpr hm
          | (exfalso; grind)

end Ems.Depth
