import EmsModel.Lemmas.Depth
/-!
Lemmas/DepthNorm.lean — `normalize_depth_variables` in closed form.

Every iteration of the loop over the depth coordinates maps one *per-variable* function
over the dataset (`applyPlan`): set the `positive` attribute of the coordinate, negate the
coordinate and its bounds, reverse every variable along the coordinate's dimension.
Under the hypotheses `Valid` (distinct names, distinct dimensions, nobody is somebody's
bounds) the decisions the code takes on the fly from the partially rewritten dataset are
the decisions `planOf` takes from the *input* dataset.
-/
namespace Ems.Depth

open Ems

/-! ### datasets as mapped variable lists -/

def Dataset.mapVars (ds : Dataset) (g : Var → Var) : Dataset := { ds with vars := ds.vars.map g }

@[simp] theorem sz_mapVars (ds : Dataset) (g : Var → Var) : (ds.mapVars g).sz = ds.sz := rfl

theorem modify_eq_mapVars (ds : Dataset) (n : String) (f : Var → Var) :
    ds.modify n f = ds.mapVars (fun v => if v.name = n then f v else v) := rfl

theorem reverseAlong_eq_mapVars (ds : Dataset) (d : String) :
    ds.reverseAlong d = ds.mapVars (revVar ds.sz d) := rfl

theorem mapVars_mapVars (ds : Dataset) (g1 g2 : Var → Var) :
    (ds.mapVars g1).mapVars g2 = ds.mapVars (g2 ∘ g1) := by
  simp [Dataset.mapVars, List.map_map]

theorem mapVars_id (ds : Dataset) (g : Var → Var) (h : ∀ v ∈ ds.vars, g v = v) : ds.mapVars g = ds := by
  cases ds with
  | mk sizes vars =>
    simp only [Dataset.mapVars, Dataset.mk.injEq, true_and]
    have : vars.map g = vars.map id := List.map_congr_left (by simpa using h)
    simpa using this

theorem mapVars_congr (ds : Dataset) (g1 g2 : Var → Var) (h : ∀ v ∈ ds.vars, g1 v = g2 v) :
    ds.mapVars g1 = ds.mapVars g2 := by
  simp only [Dataset.mapVars]
  rw [List.map_congr_left h]

theorem find_mapVars (ds : Dataset) (g : Var → Var) (m : String) (hg : ∀ v, (g v).name = v.name) :
    (ds.mapVars g).find m = (ds.find m).map g := by
  unfold Dataset.find Dataset.mapVars
  rw [List.find?_map]
  have : ((fun v : Var => v.name == m) ∘ g) = (fun v : Var => v.name == m) := by
    funext v; simp [hg]
  rw [this]

theorem find_name (ds : Dataset) (m : String) (v : Var) (h : ds.find m = some v) : v.name = m := by
  have := List.find?_some h
  simpa using this

theorem find_mem (ds : Dataset) (m : String) (v : Var) (h : ds.find m = some v) : v ∈ ds.vars :=
  List.mem_of_find?_eq_some h

/-! ### the plan of one coordinate -/

structure Plan where
  name : String
  dim : String
  bounds : Option String
  setPos : Option String
  flip : Bool
  rev : Bool
deriving Repr

def stepPos (p : Plan) (v : Var) : Var :=
  if v.name = p.name then
    match p.setPos with
    | some s => v.setPositive s
    | none => v
  else v

def stepNeg (p : Plan) (v : Var) : Var := if p.flip = true ∧ v.name = p.name then negVar v else v

def stepBnd (p : Plan) (v : Var) : Var := if p.flip = true ∧ p.bounds = some v.name then negVar v else v

def stepRev (sz : String → Nat) (p : Plan) (v : Var) : Var := if p.rev = true then revVar sz p.dim v else v

/-- everything one loop iteration does to one variable -/
def applyPlan (sz : String → Nat) (p : Plan) (v : Var) : Var :=
  stepRev sz p (stepBnd p (stepNeg p (stepPos p v)))

/-- the dataset is reversed iff an ordering is requested and the data have the other one -/
def wantRev (dts : Option Bool) (dds : Option Bool) : Bool :=
  match dts, dds with
  | some t, some d => d != t
  | _, _ => false

/-- the decisions of the iteration for coordinate `cv`, taken from the input dataset -/
def planOf (cv : Var) (dim : String) (pd dts : Option Bool) : Plan :=
  let s := signDown cv
  { name := cv.name, dim := dim, bounds := cv.bounds,
    setPos := pd.map posName,
    flip := wantFlip pd s,
    rev := wantRev dts (deepFirst s cv.data) }

/-! invariants of the steps -/

theorem stepPos_name (p : Plan) (v : Var) : (stepPos p v).name = v.name := by
  unfold stepPos; split
  · cases p.setPos <;> rfl
  · rfl
theorem stepPos_dims (p : Plan) (v : Var) : (stepPos p v).dims = v.dims := by
  unfold stepPos; split
  · cases p.setPos <;> rfl
  · rfl
theorem stepPos_data (p : Plan) (v : Var) : (stepPos p v).data = v.data := by
  unfold stepPos; split
  · cases p.setPos <;> rfl
  · rfl
theorem stepPos_bounds (p : Plan) (v : Var) : (stepPos p v).bounds = v.bounds := by
  unfold stepPos; split
  · cases p.setPos <;> rfl
  · rfl
theorem stepNeg_name (p : Plan) (v : Var) : (stepNeg p v).name = v.name := by
  unfold stepNeg; split <;> rfl
theorem stepNeg_dims (p : Plan) (v : Var) : (stepNeg p v).dims = v.dims := by
  unfold stepNeg; split <;> rfl
theorem stepNeg_bounds (p : Plan) (v : Var) : (stepNeg p v).bounds = v.bounds := by
  unfold stepNeg; split <;> rfl
theorem stepNeg_positive (p : Plan) (v : Var) : (stepNeg p v).positive = v.positive := by
  unfold stepNeg; split <;> rfl
theorem stepBnd_name (p : Plan) (v : Var) : (stepBnd p v).name = v.name := by
  unfold stepBnd; split <;> rfl
theorem stepBnd_dims (p : Plan) (v : Var) : (stepBnd p v).dims = v.dims := by
  unfold stepBnd; split <;> rfl
theorem stepBnd_bounds (p : Plan) (v : Var) : (stepBnd p v).bounds = v.bounds := by
  unfold stepBnd; split <;> rfl
theorem stepBnd_positive (p : Plan) (v : Var) : (stepBnd p v).positive = v.positive := by
  unfold stepBnd; split <;> rfl
theorem stepRev_name (sz : String → Nat) (p : Plan) (v : Var) : (stepRev sz p v).name = v.name := by
  unfold stepRev; split
  · exact revVar_name ..
  · rfl
theorem stepRev_dims (sz : String → Nat) (p : Plan) (v : Var) : (stepRev sz p v).dims = v.dims := by
  unfold stepRev; split
  · exact revVar_dims ..
  · rfl
theorem stepRev_bounds (sz : String → Nat) (p : Plan) (v : Var) : (stepRev sz p v).bounds = v.bounds := by
  unfold stepRev; split
  · exact revVar_bounds ..
  · rfl
theorem stepRev_positive (sz : String → Nat) (p : Plan) (v : Var) : (stepRev sz p v).positive = v.positive := by
  unfold stepRev; split
  · exact revVar_positive ..
  · rfl

theorem applyPlan_name (sz : String → Nat) (p : Plan) (v : Var) : (applyPlan sz p v).name = v.name := by
  simp [applyPlan, stepRev_name, stepBnd_name, stepNeg_name, stepPos_name]
theorem applyPlan_dims (sz : String → Nat) (p : Plan) (v : Var) : (applyPlan sz p v).dims = v.dims := by
  simp [applyPlan, stepRev_dims, stepBnd_dims, stepNeg_dims, stepPos_dims]
theorem applyPlan_bounds (sz : String → Nat) (p : Plan) (v : Var) : (applyPlan sz p v).bounds = v.bounds := by
  simp [applyPlan, stepRev_bounds, stepBnd_bounds, stepNeg_bounds, stepPos_bounds]

/-- a plan that neither names the variable, nor its name as bounds, nor one of its dimensions -/
def Untouched (p : Plan) (name : String) (dims : List String) : Prop :=
  name ≠ p.name ∧ p.bounds ≠ some name ∧ p.dim ∉ dims

theorem applyPlan_untouched (sz : String → Nat) (p : Plan) (v : Var) (h : Untouched p v.name v.dims) :
    applyPlan sz p v = v := by
  obtain ⟨h1, h2, h3⟩ := h
  have e1 : stepPos p v = v := by simp [stepPos, h1]
  have e2 : stepNeg p v = v := by simp [stepNeg, h1]
  have e3 : stepBnd p v = v := by simp [stepBnd, h2]
  have e4 : stepRev sz p v = v := by
    unfold stepRev; split
    · exact revVar_of_not_mem _ _ _ h3
    · rfl
  simp [applyPlan, e1, e2, e3, e4]

/-- several plans in sequence -/
def applyPlans (sz : String → Nat) (ps : List Plan) (v : Var) : Var := ps.foldl (fun v p => applyPlan sz p v) v

theorem applyPlans_name (sz : String → Nat) : ∀ (ps : List Plan) (v : Var), (applyPlans sz ps v).name = v.name
  | [], _ => rfl
  | p :: ps, v => by
    simp only [applyPlans, List.foldl_cons]
    exact (applyPlans_name sz ps _).trans (applyPlan_name sz p v)

theorem applyPlans_dims (sz : String → Nat) : ∀ (ps : List Plan) (v : Var), (applyPlans sz ps v).dims = v.dims
  | [], _ => rfl
  | p :: ps, v => by
    simp only [applyPlans, List.foldl_cons]
    exact (applyPlans_dims sz ps _).trans (applyPlan_dims sz p v)

theorem applyPlans_untouched (sz : String → Nat) : ∀ (ps : List Plan) (v : Var),
    (∀ p ∈ ps, Untouched p v.name v.dims) → applyPlans sz ps v = v
  | [], _, _ => rfl
  | p :: ps, v, h => by
    simp only [applyPlans, List.foldl_cons]
    rw [applyPlan_untouched sz p v (h p (by simp))]
    exact applyPlans_untouched sz ps v (fun q hq => h q (by simp [hq]))

theorem applyPlans_append (sz : String → Nat) (ps qs : List Plan) (v : Var) :
    applyPlans sz (ps ++ qs) v = applyPlans sz qs (applyPlans sz ps v) := by
  simp [applyPlans, List.foldl_append]

/-- only one plan of the list concerns the variable -/
theorem applyPlans_single (sz : String → Nat) (l1 l2 : List Plan) (p : Plan) (v : Var)
    (h1 : ∀ q ∈ l1, Untouched q v.name v.dims) (h2 : ∀ q ∈ l2, Untouched q v.name v.dims) :
    applyPlans sz (l1 ++ p :: l2) v = applyPlan sz p v := by
  rw [applyPlans_append, applyPlans_untouched sz l1 v h1]
  show applyPlans sz l2 (applyPlan sz p v) = _
  apply applyPlans_untouched
  intro q hq
  rw [applyPlan_name, applyPlan_dims]
  exact h2 q hq

/-! ### first two values and the ordering test -/

theorem vgt_neg (a b : Rat) (h : a ≠ b) : vgt (vneg (some a)) (vneg (some b)) = !vgt (some a) (some b) := by
  simp only [vgt, vneg, Option.map_some]
  by_cases h1 : b < a
  · have : ¬ (-b < -a) := by grind
    simp [h1, this]
  · have : -b < -a := by grind
    simp [h1, this]

/-- flipping the sign of the data together with the sign convention keeps the ordering verdict -/
theorem deepFirst_flip (s : Bool) (a b : Rat) (rest : List Val) (h : a ≠ b) :
    deepFirst (!s) ((some a :: some b :: rest).map vneg) = deepFirst s (some a :: some b :: rest) := by
  simp only [deepFirst, firstTwo, List.map_cons, Option.map_some]
  rw [vgt_neg a b h]
  cases s <;> cases vgt (some a) (some b) <;> rfl

/-! ### one loop iteration = one plan -/

/-- the state `S` still holds coordinate `c` as the input dataset `orig` has it -/
structure Agree (orig S : Dataset) (c : String) (cv : Var) : Prop where
  found : orig.find c = some cv
  same : ∃ sv, S.find c = some sv ∧ sv.data = cv.data ∧ sv.bounds = cv.bounds ∧ sv.dims = cv.dims

def warnOf (c : String) (cv : Var) : List String :=
  if cv.positive.isNone then [c ++ ":" ++ posName (signDown cv)] else []

theorem posStep_eq (S : Dataset) (c : String) (pd : Option Bool) (p : Plan)
    (hn : p.name = c) (hs : p.setPos = pd.map posName) :
    withPositive pd S c = S.mapVars (stepPos p) := by
  unfold withPositive
  cases pd with
  | none =>
    symm; apply mapVars_id
    intro v _
    simp only [Option.map_none] at hs
    simp [stepPos, hs]
  | some b =>
    simp only [Option.map_some] at hs
    show S.modify c (Var.setPositive (posName b)) = _
    rw [modify_eq_mapVars]
    apply mapVars_congr
    intro v _
    simp [stepPos, hs, hn]

theorem flipStep_eq (S1 : Dataset) (c : String) (p : Plan) (sv1 : Var)
    (hn : p.name = c) (hfind : S1.find c = some sv1) (hb : sv1.bounds = p.bounds) :
    (if p.flip = true then flipSign S1 c else S1) = S1.mapVars (stepBnd p ∘ stepNeg p) := by
  have hsn : sv1.name = c := find_name _ _ _ hfind
  by_cases hf : p.flip = true
  · simp only [hf, if_true, flipSign]
    have hfind' : (S1.modify c negVar).find c = some (negVar sv1) := by
      rw [modify_eq_mapVars, find_mapVars _ _ _ (by intro v; split <;> rfl), hfind]
      simp [hsn]
    rw [hfind']
    have hb' : (negVar sv1).bounds = p.bounds := hb
    simp only [Option.bind_some, hb']
    cases hbn : p.bounds with
    | none =>
      dsimp only
      rw [modify_eq_mapVars]
      apply mapVars_congr
      intro v _
      simp [stepBnd, stepNeg, hf, hbn, hn]
    | some bn =>
      dsimp only
      rw [modify_eq_mapVars, modify_eq_mapVars, mapVars_mapVars]
      apply mapVars_congr
      intro v _
      simp only [Function.comp, stepBnd, stepNeg, hf, hbn, hn, true_and, Option.some.injEq]
      by_cases hv : v.name = c
      · simp [hv, negVar, eq_comm]
      · simp [hv, eq_comm]
  · simp only [hf]
    symm; apply mapVars_id
    intro v _
    simp [stepBnd, stepNeg, hf]

theorem normStep_eq (orig S : Dataset) (pd dts : Option Bool) (c : String) (cv : Var) (dim : String)
    (a b : Rat) (rest : List Val)
    (hag : Agree orig S c cv) (hdim : cv.dims = [dim]) (hdata : cv.data = some a :: some b :: rest)
    (hab : a ≠ b) (hself : cv.bounds ≠ some c) :
    normStep orig pd dts S c = some (S.mapVars (applyPlan S.sz (planOf cv dim pd dts)), warnOf c cv) := by
  obtain ⟨hfound, sv, hsv, hsd, hsb, _⟩ := hag
  have hcn : cv.name = c := find_name _ _ _ hfound
  have hsn : sv.name = c := find_name _ _ _ hsv
  have hsome : deepFirst (signDown cv) cv.data = some (vgt (some a) (some b) == signDown cv) := by
    simp [deepFirst, firstTwo, hdata]
  generalize hp : planOf cv dim pd dts = p
  have hpname : p.name = c := by rw [← hp]; exact hcn
  have hpb : p.bounds = cv.bounds := by rw [← hp]; rfl
  have hpos : p.setPos = pd.map posName := by rw [← hp]; rfl
  have hpdim : p.dim = dim := by rw [← hp]; rfl
  have hflip : wantFlip pd (signDown cv) = p.flip := by rw [← hp]; rfl
  have hrev : p.rev = wantRev dts (some (vgt (some a) (some b) == signDown cv)) := by
    rw [← hp]; simp only [planOf, hsome]
  have e1 := posStep_eq S c pd p hpname hpos
  have hfind1 : (S.mapVars (stepPos p)).find c = some (stepPos p sv) := by
    rw [find_mapVars _ _ _ (stepPos_name p), hsv]; rfl
  have e2 := flipStep_eq (S.mapVars (stepPos p)) c p (stepPos p sv) hpname hfind1
    (by rw [stepPos_bounds, hsb, hpb])
  have hfind2 : ((S.mapVars (stepPos p)).mapVars (stepBnd p ∘ stepNeg p)).find c
      = some (stepBnd p (stepNeg p (stepPos p sv))) := by
    rw [find_mapVars _ _ _ (by intro v; simp [stepBnd_name, stepNeg_name]), hfind1]
    rfl
  have hdata2 : (stepBnd p (stepNeg p (stepPos p sv))).data
      = if p.flip = true then cv.data.map vneg else cv.data := by
    have hnb : p.bounds ≠ some (stepNeg p (stepPos p sv)).name := by
      rw [stepNeg_name, stepPos_name, hsn, hpb]; exact hself
    have : stepBnd p (stepNeg p (stepPos p sv)) = stepNeg p (stepPos p sv) := by
      simp [stepBnd, hnb]
    rw [this]
    unfold stepNeg
    rw [stepPos_name, hsn, hpname]
    by_cases hf : p.flip = true
    · simp [hf, negVar, stepPos_data, hsd]
    · simp [hf, stepPos_data, hsd]
  unfold normStep
  simp only [hfound, hdim]
  rw [e1, hflip, e2]
  have hwarn : (if cv.positive.isNone = true then [c ++ ":" ++ posName (signDown cv)] else []) = warnOf c cv := rfl
  rw [hwarn]
  cases dts with
  | none =>
    simp only []
    congr 2
    rw [mapVars_mapVars]
    apply mapVars_congr
    intro v _
    simp [applyPlan, stepRev, hrev, wantRev]
  | some t =>
    simp only [hfind2, Option.bind_some, hdata2]
    have hdf : deepFirst (if p.flip = true then !signDown cv else signDown cv)
        (if p.flip = true then cv.data.map vneg else cv.data) = deepFirst (signDown cv) cv.data := by
      by_cases hf : p.flip = true
      · simp only [hf, if_true, hdata]; exact deepFirst_flip _ a b rest hab
      · simp [hf]
    rw [hdf, hsome]
    simp only [wantRev] at hrev ⊢
    congr 2
    by_cases hr : ((vgt (some a) (some b) == signDown cv) != t) = true
    · simp only [hr, if_true]
      rw [reverseAlong_eq_mapVars, mapVars_mapVars, mapVars_mapVars]
      apply mapVars_congr
      intro v _
      simp [applyPlan, stepRev, hrev, hr, hpdim]
    · simp only [hr]
      rw [mapVars_mapVars]
      apply mapVars_congr
      intro v _
      simp [applyPlan, stepRev, hrev, hr]

/-! ### the whole loop -/

/-- what the closed form needs to know about one coordinate of the input dataset -/
structure CoordOK (ds : Dataset) (c : String) (cv : Var) (d : String) : Prop where
  found : ds.find c = some cv
  dims : cv.dims = [d]
  two : ∃ a b rest, cv.data = some a :: some b :: rest ∧ a ≠ b
  notSelf : cv.bounds ≠ some c

/-- two coordinates do not interfere: different dimensions, neither is the other's bounds -/
def Indep (ds : Dataset) (c1 c2 : String) : Prop :=
  ∀ cv1 cv2, ds.find c1 = some cv1 → ds.find c2 = some cv2 →
    (∀ d ∈ cv1.dims, d ∉ cv2.dims) ∧ cv1.bounds ≠ some c2 ∧ cv2.bounds ≠ some c1

def planFor (ds : Dataset) (pd dts : Option Bool) (c : String) : Plan :=
  match ds.find c with
  | some cv => planOf cv (cv.dims.headD "") pd dts
  | none => { name := c, dim := "", bounds := none, setPos := none, flip := false, rev := false }

def warnFor (ds : Dataset) (c : String) : List String :=
  match ds.find c with
  | some cv => warnOf c cv
  | none => []

theorem normLoop_eq (orig : Dataset) (pd dts : Option Bool) :
    ∀ (cs : List String) (S : Dataset) (w : List String),
      (∀ c ∈ cs, ∃ cv d, CoordOK orig c cv d ∧ Agree orig S c cv) →
      cs.Pairwise (fun c1 c2 => c1 ≠ c2 ∧ Indep orig c1 c2) →
      S.sz = orig.sz →
      normLoop orig pd dts cs S w
        = some (S.mapVars (applyPlans orig.sz (cs.map (planFor orig pd dts))), w ++ cs.flatMap (warnFor orig))
  | [], S, w, _, _, _ => by
    simp only [normLoop, List.map_nil, List.flatMap_nil, List.append_nil]
    congr 2
    symm; apply mapVars_id; intro v _; rfl
  | c :: cs, S, w, hok, hpw, hsz => by
    obtain ⟨cv, d, hc, hag⟩ := hok c (by simp)
    obtain ⟨a, b, rest, hdata, hab⟩ := hc.two
    have hstep := normStep_eq orig S pd dts c cv d a b rest hag hc.dims hdata hab hc.notSelf
    have hplan : planFor orig pd dts c = planOf cv d pd dts := by
      simp [planFor, hc.found, hc.dims]
    have hwarn : warnFor orig c = warnOf c cv := by simp [warnFor, hc.found]
    rw [List.pairwise_cons] at hpw
    obtain ⟨hpc, hpw⟩ := hpw
    simp only [normLoop, hstep]
    have hsz' : (S.mapVars (applyPlan S.sz (planOf cv d pd dts))).sz = orig.sz := by simpa using hsz
    have hok' : ∀ c' ∈ cs, ∃ cv' d', CoordOK orig c' cv' d' ∧
        Agree orig (S.mapVars (applyPlan S.sz (planOf cv d pd dts))) c' cv' := by
      intro c' hc'
      obtain ⟨cv', d', hc'ok, hag'⟩ := hok c' (by simp [hc'])
      refine ⟨cv', d', hc'ok, hag'.found, ?_⟩
      obtain ⟨sv', hsv', hsd', hsb', hsdim'⟩ := hag'.same
      obtain ⟨hne, hind⟩ := hpc c' hc'
      obtain ⟨hdims, hb1, hb2⟩ := hind cv cv' hc.found hc'ok.found
      have hname' : sv'.name = c' := find_name _ _ _ hsv'
      have hunt : Untouched (planOf cv d pd dts) sv'.name sv'.dims := by
        refine ⟨?_, ?_, ?_⟩
        · show sv'.name ≠ cv.name
          rw [hname', find_name _ _ _ hc.found]; exact fun e => hne e.symm
        · show cv.bounds ≠ some sv'.name
          rw [hname']; exact hb1
        · show d ∉ sv'.dims
          rw [hsdim']; exact hdims d (by simp [hc.dims])
      refine ⟨sv', ?_, hsd', hsb', hsdim'⟩
      rw [find_mapVars _ _ _ (applyPlan_name _ _), hsv']
      simp [applyPlan_untouched _ _ _ hunt]
    rw [normLoop_eq orig pd dts cs _ _ hok' hpw hsz']
    simp only [List.map_cons, List.flatMap_cons, hplan, hwarn, List.append_assoc]
    congr 2
    rw [mapVars_mapVars, hsz]
    apply mapVars_congr
    intro v _
    simp [applyPlans]

theorem agree_self (ds : Dataset) (c : String) (cv : Var) (h : ds.find c = some cv) : Agree ds ds c cv :=
  ⟨h, cv, h, rfl, rfl, rfl⟩

/-- `normalize_depth_variables` in closed form: one per-variable function mapped over the dataset -/
theorem normalize_eq (ds : Dataset) (coords : List String) (pd dts : Option Bool)
    (hok : ∀ c ∈ coords, ∃ cv d, CoordOK ds c cv d)
    (hpw : coords.Pairwise (fun c1 c2 => c1 ≠ c2 ∧ Indep ds c1 c2)) :
    normalize ds coords pd dts
      = some (ds.mapVars (applyPlans ds.sz (coords.map (planFor ds pd dts))), coords.flatMap (warnFor ds)) := by
  unfold normalize
  rw [normLoop_eq ds pd dts coords ds [] ?_ hpw rfl]
  · simp
  · intro c hc
    obtain ⟨cv, d, h⟩ := hok c hc
    exact ⟨cv, d, h, agree_self ds c cv h.found⟩

end Ems.Depth
