import EmsModel.Props.C09
/-!
Lemmas/ClipTablesMore.lean — the mutual consistency of the connectivity tables of a mesh, stated on the
tables `update_connectivity` (`Ems.updateConnectivity`) works on, and the lemmas that carry it through a clip.

The relations are those of `C10.derived_tables_consistent` (and of the oracle `check_tables_consistent` in
`harness/props/c09.py`), written for base-0 tables `List (List (Option Nat))` (`none` = fill) and with bounded
quantifiers only, so that `Consistent` is decidable and can be evaluated on a concrete mesh.
-/
namespace Ems.ClipTables
open Ems Ems.C09

/-- a connectivity table as `update_connectivity` sees it: base 0, `none` = fill -/
abbrev Tab := List (List (Option Nat))

/-- the entries of a row that are present, in order (`row.compressed()`) -/
def present (row : List (Option Nat)) : List Nat := row.filterMap id

/-- consecutive pairs of a face's nodes, with the wrap-around pair
(`Mesh.facePairs`, `_face_and_node_pair_iter`) -/
def sides : List Nat → List (Nat × Nat)
  | [] => []
  | a :: rest => (a :: rest).zip (rest ++ [a])

/-- the same undirected node pair (`frozenset(p) == frozenset(q)`) -/
def samePair (p q : Nat × Nat) : Bool := p == q || p == (q.2, q.1)

/-- the sides of face `i` of a face-node table -/
def faceSides (fn : Tab) (i : Nat) : List (Nat × Nat) := sides (present (fn.getD i []))

/-- the node pair of edge `k` of an edge-node table (`none`: not a row of two present nodes) -/
def edgePair (en : Tab) (k : Nat) : Option (Nat × Nat) :=
  match en.getD k [] with
  | [some a, some b] => some (a, b)
  | _ => none

/-- edge `k` joins the undirected node pair `p` -/
def edgeHasPair (en : Tab) (k : Nat) (p : Nat × Nat) : Bool :=
  match edgePair en k with
  | some q => samePair q p
  | none => false

/-- entry `(r, c)` of a table; the outer `none` = outside the table -/
def entry (t : Tab) (r c : Nat) : Option (Option Nat) := (t[r]?).bind (·[c]?)

/-- every edge row is a pair of present nodes, and no two edges join the same undirected node pair
(`hnd` of `C10.derived_tables_consistent`) -/
def EdgesDistinct (en : Tab) : Prop :=
  (∀ k < en.length, (edgePair en k).isSome = true) ∧
  (∀ k < en.length, ∀ l < en.length, (edgePair en k).any (edgeHasPair en l) = true → k = l)

instance (en : Tab) : Decidable (EdgesDistinct en) := by unfold EdgesDistinct; infer_instance

/-- **face-edge describes the faces**: a row per face; column `c` of face `i` names an edge joining the `c`-th
consecutive node pair of `i`; the columns after the face's last side are fill -/
def FaceEdgeDescribes (fn en fe : Tab) : Prop :=
  fe.length = fn.length ∧
  (∀ i < fn.length, ∀ c < (faceSides fn i).length,
      ∃ k < en.length, entry fe i c = some (some k) ∧ edgeHasPair en k ((faceSides fn i).getD c (0, 0)) = true) ∧
  (∀ i < fn.length, ∀ c < (fe.getD i []).length, (faceSides fn i).length ≤ c → entry fe i c = some none)

instance (fn en fe : Tab) : Decidable (FaceEdgeDescribes fn en fe) := by unfold FaceEdgeDescribes; infer_instance

/-- **edge-face describes the sides**: a row per edge; edge `k` lists face `i` iff the node pair of `k` is a
side of `i` -/
def EdgeFaceDescribes (fn en ef : Tab) : Prop :=
  ef.length = en.length ∧
  (∀ k < en.length, ∀ i < fn.length,
      ((ef.getD k []).contains (some i) = true ↔ (faceSides fn i).any (edgeHasPair en k) = true))

instance (fn en ef : Tab) : Decidable (EdgeFaceDescribes fn en ef) := by unfold EdgeFaceDescribes; infer_instance

/-- **face-face describes the neighbours**: a row per face; face `i` lists face `j` iff `i ≠ j` and they have a
common side -/
def FaceFaceDescribes (fn ff : Tab) : Prop :=
  ff.length = fn.length ∧
  (∀ i < fn.length, ∀ j < fn.length,
      ((ff.getD i []).contains (some j) = true ↔
        i ≠ j ∧ (faceSides fn i).any (fun p => (faceSides fn j).any (samePair p)) = true))

instance (fn ff : Tab) : Decidable (FaceFaceDescribes fn ff) := by unfold FaceFaceDescribes; infer_instance

/-- **The C10 relations between the five tables of a mesh** (`C10.derived_tables_consistent`), all together -/
def Consistent (fn en fe ef ff : Tab) : Prop :=
  EdgesDistinct en ∧ FaceEdgeDescribes fn en fe ∧ EdgeFaceDescribes fn en ef ∧ FaceFaceDescribes fn ff

instance (fn en fe ef ff : Tab) : Decidable (Consistent fn en fe ef ff) := by
  unfold Consistent; infer_instance

/-- the face-face table is symmetric (`C10.face_face_symm`) -/
def FaceFaceSymmetric (ff : Tab) : Prop :=
  ∀ i < ff.length, ∀ j < ff.length,
    ((ff.getD i []).contains (some j) = true ↔ (ff.getD j []).contains (some i) = true)

instance (ff : Tab) : Decidable (FaceFaceSymmetric ff) := by
  unfold FaceFaceSymmetric; infer_instance

/-- how `update_connectivity` maps one entry: fill stays fill, a reference to a kept element becomes its new
index, a reference to a dropped element becomes fill -/
def ren (keep : List Bool) (e : Option Nat) : Option Nat := e.bind fun x => ((renumber keep)[x]?).join

/-! ### kept flags and the renumbering of one entry -/

theorem getD_true_lt (keep : List Bool) (x : Nat) (h : keep.getD x false = true) : x < keep.length := by
  by_cases hx : x < keep.length
  · exact hx
  · simp [List.getD_eq_getElem?_getD, List.getElem?_eq_none (Nat.le_of_not_lt hx)] at h

theorem getD_true_get (keep : List Bool) (x : Nat) (h : keep.getD x false = true) :
    keep[x]'(getD_true_lt keep x h) = true := by
  have hx := getD_true_lt keep x h
  simpa [List.getD_eq_getElem?_getD, List.getElem?_eq_getElem hx] using h

theorem ren_kept (keep : List Bool) (x : Nat) (h : keep.getD x false = true) :
    ren keep (some x) = some (newIndex keep x) := by
  have hx := getD_true_lt keep x h
  simp [ren, renumber_spec keep x hx, getD_true_get keep x h, newIndex]

theorem ren_dropped (keep : List Bool) (x : Nat) (h : keep.getD x false = false) : ren keep (some x) = none := by
  by_cases hx : x < keep.length
  · have : keep[x] = false := by
      simpa [List.getD_eq_getElem?_getD, List.getElem?_eq_getElem hx] using h
    simp [ren, renumber_spec keep x hx, this]
  · simp [ren, List.getElem?_eq_none (show (renumber keep).length ≤ x by simp [renumber_length]; omega)]

theorem ren_none (keep : List Bool) : ren keep none = none := rfl

theorem ren_eq_some (keep : List Bool) (e : Option Nat) (y : Nat) (h : ren keep e = some y) :
    ∃ x, e = some x ∧ keep.getD x false = true ∧ newIndex keep x = y := by
  cases e with
  | none => simp [ren] at h
  | some x =>
    cases hk : keep.getD x false with
    | false => rw [ren_dropped keep x hk] at h; simp at h
    | true =>
      rw [ren_kept keep x hk] at h
      exact ⟨x, rfl, hk, Option.some.inj h⟩

theorem newIndex_inj (keep : List Bool) (x y : Nat) (hx : keep.getD x false = true) (hy : keep.getD y false = true)
    (h : newIndex keep x = newIndex keep y) : x = y :=
  newIndex_injective keep x y (getD_true_lt keep x hx) (getD_true_lt keep y hy)
    (getD_true_get keep x hx) (getD_true_get keep y hy) h

/-- the clipped table, row by row: `update_connectivity` with the order-preserving renumbering of `keep` -/
theorem update_eq (T : Tab) (rk keep : List Bool) :
    updateConnectivity T rk (renumber keep) =
      ((List.range T.length).filter fun r => rk.getD r false).map fun r => (T.getD r []).map (ren keep) := rfl

/-! ### rows of the clipped table -/

theorem getD_of_getElem? {β : Type} (l : List β) (i : Nat) (x d : β) (h : l[i]? = some x) : l.getD i d = x := by
  simp [List.getD_eq_getElem?_getD, h]

/-- the row a kept row `r` becomes -/
theorem row_after (T : Tab) (rk keep : List Bool) (hlen : rk.length = T.length) (r : Nat) (hr : r < T.length)
    (hk : rk.getD r false = true) :
    (updateConnectivity T rk (renumber keep))[newIndex rk r]? = some ((T.getD r []).map (ren keep)) := by
  have := updated_row T rk (renumber keep) r hlen hr hk
  rw [this]
  have : T.getD r [] = T[r] := by simp [List.getD_eq_getElem?_getD, List.getElem?_eq_getElem hr]
  rw [this]; rfl

theorem newIndex_lt_after (T : Tab) (rk keep : List Bool) (hlen : rk.length = T.length) (r : Nat) (hr : r < T.length)
    (hk : rk.getD r false = true) : newIndex rk r < (updateConnectivity T rk (renumber keep)).length :=
  (List.getElem?_eq_some_iff.mp (row_after T rk keep hlen r hr hk)).1

theorem getD_row_after (T : Tab) (rk keep : List Bool) (hlen : rk.length = T.length) (r : Nat) (hr : r < T.length)
    (hk : rk.getD r false = true) :
    (updateConnectivity T rk (renumber keep)).getD (newIndex rk r) [] = (T.getD r []).map (ren keep) :=
  getD_of_getElem? _ _ _ _ (row_after T rk keep hlen r hr hk)

/-- **every row of the clipped table is a kept row of the input**, at the new index of that row -/
theorem row_before (T : Tab) (rk keep : List Bool) (hlen : rk.length = T.length) (r' : Nat)
    (h : r' < (updateConnectivity T rk (renumber keep)).length) :
    ∃ r, r < T.length ∧ rk.getD r false = true ∧ newIndex rk r = r' := by
  have hl : r' < ((List.range T.length).filter fun r => rk.getD r false).length := by
    simpa [updateConnectivity] using h
  let L := (List.range T.length).filter fun r => rk.getD r false
  have hmem : L[r'] ∈ L := List.getElem_mem hl
  obtain ⟨hr, hk⟩ := List.mem_filter.mp hmem
  have hr' : L[r'] < T.length := List.mem_range.mp hr
  refine ⟨L[r'], hr', hk, ?_⟩
  have h1 := kept_row_index rk T.length L[r'] hlen hr' hk
  have hnd : L.Nodup := (List.Pairwise.filter _ List.pairwise_lt_range).imp (fun h => Nat.ne_of_lt h)
  have h2 : L[r']? = some L[r'] := List.getElem?_eq_getElem hl
  have hlt : newIndex rk L[r'] < L.length := (List.getElem?_eq_some_iff.mp h1).1
  exact (List.getElem?_inj hlt hnd).mp (h1.trans h2.symm)

/-- the clipped tables of one primary dimension have the same number of rows -/
theorem after_length (T U : Tab) (rk k1 k2 : List Bool) (h : T.length = U.length) :
    (updateConnectivity T rk (renumber k1)).length = (updateConnectivity U rk (renumber k2)).length := by
  simp [updateConnectivity, h]

/-- an entry of a kept row after the clip -/
theorem entry_after (T : Tab) (rk keep : List Bool) (hlen : rk.length = T.length) (r c : Nat) (hr : r < T.length)
    (hk : rk.getD r false = true) :
    entry (updateConnectivity T rk (renumber keep)) (newIndex rk r) c = (entry T r c).map (ren keep) := by
  simp only [entry, row_after T rk keep hlen r hr hk, Option.bind_some, List.getElem?_map]
  have : T.getD r [] = T[r] := by simp [List.getD_eq_getElem?_getD, List.getElem?_eq_getElem hr]
  rw [this, List.getElem?_eq_getElem hr]
  simp

/-! ### the nodes and sides of a face under a renumbering -/

theorem mem_present (row : List (Option Nat)) (x : Nat) : x ∈ present row ↔ some x ∈ row := by
  simp [present, List.mem_filterMap]

theorem present_map_ren (keep : List Bool) : ∀ (row : List (Option Nat)),
    (∀ x, some x ∈ row → keep.getD x false = true) →
    present (row.map (ren keep)) = (present row).map (newIndex keep)
  | [], _ => rfl
  | none :: rest, h => by
    have ih := present_map_ren keep rest (fun x hx => h x (List.mem_cons_of_mem _ hx))
    simpa [present, ren] using ih
  | some x :: rest, h => by
    have ih := present_map_ren keep rest (fun y hy => h y (List.mem_cons_of_mem _ hy))
    have hx := ren_kept keep x (h x (by simp))
    simp only [present, List.map_cons, List.filterMap_cons, hx, id] at ih ⊢
    simp [ih]

theorem sides_map (g : Nat → Nat) (l : List Nat) : sides (l.map g) = (sides l).map (Prod.map g g) := by
  cases l with
  | nil => rfl
  | cons a rest =>
    simp only [sides, List.map_cons]
    rw [show rest.map g ++ [g a] = (rest ++ [a]).map g by simp, ← List.map_cons, List.zip_map]

theorem sides_length (l : List Nat) : (sides l).length = l.length := by
  cases l with
  | nil => rfl
  | cons a rest => simp [sides]

theorem mem_sides (l : List Nat) (p : Nat × Nat) (h : p ∈ sides l) : p.1 ∈ l ∧ p.2 ∈ l := by
  cases l with
  | nil => simp [sides] at h
  | cons a rest =>
    obtain ⟨x, y⟩ := p
    have := List.of_mem_zip h
    refine ⟨this.1, ?_⟩
    have h2 := this.2
    simp only [List.mem_append, List.mem_singleton] at h2
    rcases h2 with h2 | h2
    · exact List.mem_cons_of_mem _ h2
    · subst h2; simp

theorem samePair_iff (p q : Nat × Nat) : samePair p q = true ↔ p = q ∨ p = (q.2, q.1) := by
  simp [samePair]

theorem samePair_symm (p q : Nat × Nat) : samePair p q = samePair q p := by
  rw [Bool.eq_iff_iff, samePair_iff, samePair_iff]
  obtain ⟨a, b⟩ := p
  obtain ⟨c, d⟩ := q
  simp only [Prod.mk.injEq]
  constructor <;> rintro (⟨rfl, rfl⟩ | ⟨rfl, rfl⟩) <;> simp

/-- an injective renumbering neither merges nor separates undirected node pairs -/
theorem samePair_map (g : Nat → Nat) (p q : Nat × Nat)
    (hinj : ∀ x y, (x = p.1 ∨ x = p.2) → (y = q.1 ∨ y = q.2) → g x = g y → x = y) :
    samePair (Prod.map g g p) (Prod.map g g q) = samePair p q := by
  rw [Bool.eq_iff_iff, samePair_iff, samePair_iff]
  obtain ⟨a, b⟩ := p
  obtain ⟨c, d⟩ := q
  simp only [Prod.map, Prod.mk.injEq]
  constructor
  · rintro (⟨h1, h2⟩ | ⟨h1, h2⟩)
    · exact Or.inl ⟨hinj a c (Or.inl rfl) (Or.inl rfl) h1, hinj b d (Or.inr rfl) (Or.inr rfl) h2⟩
    · exact Or.inr ⟨hinj a d (Or.inl rfl) (Or.inr rfl) h1, hinj b c (Or.inr rfl) (Or.inl rfl) h2⟩
  · rintro (⟨rfl, rfl⟩ | ⟨rfl, rfl⟩)
    · exact Or.inl ⟨rfl, rfl⟩
    · exact Or.inr ⟨rfl, rfl⟩

/-- for the order-preserving renumbering of kept nodes -/
theorem samePair_newIndex (keep : List Bool) (p q : Nat × Nat)
    (hp1 : keep.getD p.1 false = true) (hp2 : keep.getD p.2 false = true)
    (hq1 : keep.getD q.1 false = true) (hq2 : keep.getD q.2 false = true) :
    samePair (Prod.map (newIndex keep) (newIndex keep) p) (Prod.map (newIndex keep) (newIndex keep) q) = samePair p q := by
  apply samePair_map
  intro x y hx hy h
  apply newIndex_inj keep x y _ _ h
  · rcases hx with rfl | rfl <;> assumption
  · rcases hy with rfl | rfl <;> assumption

/-! ### edge rows -/

theorem edgePair_eq_some (en : Tab) (k : Nat) (q : Nat × Nat) :
    edgePair en k = some q ↔ en.getD k [] = [some q.1, some q.2] := by
  unfold edgePair
  split
  · rename_i a b heq
    rw [heq]
    constructor
    · intro h; cases h; rfl
    · intro h
      simp only [List.cons.injEq, Option.some.injEq, and_true] at h
      obtain ⟨rfl, rfl⟩ := h; rfl
  · rename_i hne
    constructor
    · intro h; simp at h
    · intro h; exact absurd h (hne q.1 q.2)

/-- the node pair of a kept edge whose two nodes are kept, after the clip -/
theorem edgePair_after (en : Tab) (keepE keepN : List Bool) (hlen : keepE.length = en.length) (k : Nat)
    (hk : k < en.length) (hkk : keepE.getD k false = true) (q : Nat × Nat) (hq : edgePair en k = some q)
    (h1 : keepN.getD q.1 false = true) (h2 : keepN.getD q.2 false = true) :
    edgePair (updateConnectivity en keepE (renumber keepN)) (newIndex keepE k) =
      some (Prod.map (newIndex keepN) (newIndex keepN) q) := by
  rw [edgePair_eq_some, getD_row_after en keepE keepN hlen k hk hkk, (edgePair_eq_some en k q).mp hq]
  simp [ren_kept keepN _ h1, ren_kept keepN _ h2]

theorem edgeHasPair_iff (en : Tab) (k : Nat) (p : Nat × Nat) :
    edgeHasPair en k p = true ↔ ∃ q, edgePair en k = some q ∧ samePair q p = true := by
  unfold edgeHasPair
  cases edgePair en k <;> simp

/-! ### which elements survive (`referencedBy`) -/

theorem referenced_kept (T : Tab) (rk : List Bool) (n r x : Nat) (hr : r < T.length) (hk : rk.getD r false = true)
    (hx : x < n) (hm : some x ∈ T.getD r []) : (referencedBy T rk n).getD x false = true := by
  have := (referencedBy_spec T rk n x).mpr ⟨hx, r, hr, hk, hm⟩
  simp [List.getD_eq_getElem?_getD, this]

theorem referenced_inv (T : Tab) (rk : List Bool) (n x : Nat) (h : (referencedBy T rk n).getD x false = true) :
    x < n ∧ ∃ r, r < T.length ∧ rk.getD r false = true ∧ some x ∈ T.getD r [] := by
  have hx := getD_true_lt _ x h
  have hg := getD_true_get _ x h
  apply (referencedBy_spec T rk n x).mp
  rw [List.getElem?_eq_getElem hx, hg]

theorem mem_of_entry (t : Tab) (r c : Nat) (e : Option Nat) (h : entry t r c = some e) : e ∈ t.getD r [] := by
  simp only [entry] at h
  cases hr : t[r]? with
  | none => simp [hr] at h
  | some row =>
    simp only [hr, Option.bind_some] at h
    simp only [List.getD_eq_getElem?_getD, hr, Option.getD_some]
    exact List.mem_of_getElem? h

theorem entry_of_mem (t : Tab) (r : Nat) (e : Option Nat) (h : e ∈ t.getD r []) :
    ∃ c, c < (t.getD r []).length ∧ entry t r c = some e := by
  obtain ⟨c, hc, he⟩ := List.getElem_of_mem h
  refine ⟨c, hc, ?_⟩
  cases hr : t[r]? with
  | none => simp [List.getD_eq_getElem?_getD, hr] at hc
  | some row =>
    have hrow : t.getD r [] = row := by simp [List.getD_eq_getElem?_getD, hr]
    simp only [entry, hr, Option.bind_some]
    rw [← hrow, List.getElem?_eq_getElem hc, he]

/-! ### a clip: kept faces, the nodes and edges they name -/

theorem getD_mem_of_lt {β : Type} (l : List β) (c : Nat) (d : β) (h : c < l.length) : l.getD c d ∈ l := by
  simp [List.getD_eq_getElem?_getD, List.getElem?_eq_getElem h]

theorem getD_row_mem (T : Tab) (r : Nat) (hr : r < T.length) : T.getD r [] ∈ T := getD_mem_of_lt T r [] hr

/-- a kept row lists a kept element `j` after the clip (under its new number) iff it listed `j` before -/
theorem contains_after (T : Tab) (rk keep : List Bool) (hlen : rk.length = T.length) (r j : Nat) (hr : r < T.length)
    (hk : rk.getD r false = true) (hj : keep.getD j false = true) :
    ((updateConnectivity T rk (renumber keep)).getD (newIndex rk r) []).contains (some (newIndex keep j)) = true ↔
      (T.getD r []).contains (some j) = true := by
  rw [getD_row_after T rk keep hlen r hr hk, List.contains_iff_mem, List.contains_iff_mem, List.mem_map]
  constructor
  · rintro ⟨e, he, hren⟩
    obtain ⟨x, rfl, hx, hnew⟩ := ren_eq_some keep e _ hren
    rw [newIndex_inj keep x j hx hj hnew] at he
    exact he
  · intro h
    exact ⟨some j, h, ren_kept keep j hj⟩

/-- the two nodes of every side of a kept face are kept -/
theorem side_nodes_kept (fn : Tab) (keepF : List Bool) (nN : Nat)
    (hnodes : ∀ row ∈ fn, ∀ x, some x ∈ row → x < nN) (i : Nat) (hi : i < fn.length)
    (hk : keepF.getD i false = true) (p : Nat × Nat) (hp : p ∈ faceSides fn i) :
    (referencedBy fn keepF nN).getD p.1 false = true ∧ (referencedBy fn keepF nN).getD p.2 false = true := by
  obtain ⟨h1, h2⟩ := mem_sides _ p hp
  rw [mem_present] at h1 h2
  have hrow := getD_row_mem fn i hi
  exact ⟨referenced_kept fn keepF nN i p.1 hi hk (hnodes _ hrow _ h1) h1,
    referenced_kept fn keepF nN i p.2 hi hk (hnodes _ hrow _ h2) h2⟩

/-- **the sides of a kept face after the clip are its old sides, renumbered** (same number, same order) -/
theorem faceSides_after (fn : Tab) (keepF : List Bool) (nN : Nat) (hF : keepF.length = fn.length)
    (hnodes : ∀ row ∈ fn, ∀ x, some x ∈ row → x < nN) (i : Nat) (hi : i < fn.length)
    (hk : keepF.getD i false = true) :
    faceSides (updateConnectivity fn keepF (renumber (referencedBy fn keepF nN))) (newIndex keepF i) =
      (faceSides fn i).map
        (Prod.map (newIndex (referencedBy fn keepF nN)) (newIndex (referencedBy fn keepF nN))) := by
  unfold faceSides
  rw [getD_row_after fn keepF _ hF i hi hk, present_map_ren, sides_map]
  intro x hx
  exact referenced_kept fn keepF nN i x hi hk (hnodes _ (getD_row_mem fn i hi) _ hx) hx

/-- a kept edge is named by a kept face, at one of that face's sides, and joins that side's node pair -/
theorem kept_edge_side (fn en fe : Tab) (keepF : List Bool) (h : FaceEdgeDescribes fn en fe) (k : Nat)
    (hk : (referencedBy fe keepF en.length).getD k false = true) :
    k < en.length ∧ ∃ g, g < fn.length ∧ keepF.getD g false = true ∧ ∃ c, c < (faceSides fn g).length ∧
      edgeHasPair en k ((faceSides fn g).getD c (0, 0)) = true := by
  obtain ⟨hlen, hnames, hfill⟩ := h
  obtain ⟨hkn, g, hg, hkg, hmem⟩ := referenced_inv fe keepF en.length k hk
  rw [hlen] at hg
  refine ⟨hkn, g, hg, hkg, ?_⟩
  obtain ⟨c, hc, hent⟩ := entry_of_mem fe g _ hmem
  by_cases hcs : c < (faceSides fn g).length
  · obtain ⟨k2, _, he2, hp⟩ := hnames g hg c hcs
    rw [hent] at he2
    have : k = k2 := by simpa using he2
    subst this
    exact ⟨c, hcs, hp⟩
  · have := hfill g hg c hc (Nat.le_of_not_lt hcs)
    rw [hent] at this
    simp at this

/-- both nodes of a kept edge are kept -/
theorem kept_edge_pair (fn en fe : Tab) (keepF : List Bool) (nN : Nat)
    (hnodes : ∀ row ∈ fn, ∀ x, some x ∈ row → x < nN) (h : FaceEdgeDescribes fn en fe) (k : Nat)
    (hk : (referencedBy fe keepF en.length).getD k false = true) :
    ∃ q, edgePair en k = some q ∧ (referencedBy fn keepF nN).getD q.1 false = true ∧
      (referencedBy fn keepF nN).getD q.2 false = true := by
  obtain ⟨_, g, hg, hkg, c, hc, hp⟩ := kept_edge_side fn en fe keepF h k hk
  obtain ⟨q, hq, hsame⟩ := (edgeHasPair_iff en k _).mp hp
  obtain ⟨h1, h2⟩ := side_nodes_kept fn keepF nN hnodes g hg hkg _ (getD_mem_of_lt _ c (0, 0) hc)
  refine ⟨q, hq, ?_⟩
  rcases (samePair_iff _ _).mp hsame with heq | heq
  · rw [heq]; exact ⟨h1, h2⟩
  · rw [heq]; exact ⟨h2, h1⟩

/-- whether a kept edge joins a node pair of kept nodes is not altered by the clip -/
theorem edgeHasPair_after (fn en fe : Tab) (keepF : List Bool) (nN : Nat)
    (hnodes : ∀ row ∈ fn, ∀ x, some x ∈ row → x < nN) (h : FaceEdgeDescribes fn en fe)
    (k : Nat)
    (hk : (referencedBy fe keepF en.length).getD k false = true) (p : Nat × Nat)
    (hp1 : (referencedBy fn keepF nN).getD p.1 false = true) (hp2 : (referencedBy fn keepF nN).getD p.2 false = true) :
    edgeHasPair (updateConnectivity en (referencedBy fe keepF en.length) (renumber (referencedBy fn keepF nN)))
        (newIndex (referencedBy fe keepF en.length) k)
        (Prod.map (newIndex (referencedBy fn keepF nN)) (newIndex (referencedBy fn keepF nN)) p) =
      edgeHasPair en k p := by
  obtain ⟨q, hq, hq1, hq2⟩ := kept_edge_pair fn en fe keepF nN hnodes h k hk
  have hkn := (kept_edge_side fn en fe keepF h k hk).1
  have hpair := edgePair_after en (referencedBy fe keepF en.length) (referencedBy fn keepF nN)
    (referencedBy_length _ _ _) k hkn hk q hq hq1 hq2
  unfold edgeHasPair
  rw [hpair, hq]
  exact samePair_newIndex _ q p hq1 hq2 hp1 hp2

end Ems.ClipTables
