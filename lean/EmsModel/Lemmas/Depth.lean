import EmsModel.Core.Depth
import EmsModel.Lemmas.Shape
/-!
Lemmas/Depth.lean — the array layer (`Var.at`, `gather`, reversal, index selection) and the
single-column floor search of the depth model.  Core Lean only.
-/
namespace Ems.Depth

open Ems

/-! ### named indexing -/

/-- `env` stays inside the array on every dimension of `dims` -/
def InBox (sz : String → Nat) (dims : List String) (env : Env) : Prop := ∀ d ∈ dims, env d < sz d

/-- the well-formedness of one variable: its data fill exactly its shape -/
def Var.WF (sz : String → Nat) (v : Var) : Prop := v.data.length = size (v.dims.map sz)

instance (sz : String → Nat) (v : Var) : Decidable (v.WF sz) := by unfold Var.WF; infer_instance

theorem inRange_map (sz : String → Nat) (env : Env) :
    ∀ dims : List String, InBox sz dims env → InRange (dims.map sz) (dims.map env)
  | [], _ => trivial
  | d :: ds, h => ⟨h d (by simp), inRange_map sz env ds (fun x hx => h x (by simp [hx]))⟩

theorem envOf_map (env : Env) : ∀ (dims : List String) (d : String), d ∈ dims →
    envOf dims (dims.map env) d = env d
  | x :: xs, d, h => by
    by_cases hx : d = x
    · subst hx; simp [envOf]
    · have hm : d ∈ xs := by simpa [hx] using h
      have ih := envOf_map env xs d hm
      have hb : (d == x) = false := by simp [hx]
      simp only [envOf, List.map_cons, List.zip_cons_cons, List.lookup, hb] at ih ⊢
      exact ih

theorem at_congr (sz : String → Nat) (v : Var) (e1 e2 : Env) (h : ∀ d ∈ v.dims, e1 d = e2 d) :
    v.at sz e1 = v.at sz e2 := by
  have : v.dims.map e1 = v.dims.map e2 := List.map_congr_left h
  simp [Var.at, this]

theorem length_gather (sz : String → Nat) (odims : List String) (f : Env → Val) :
    (gather sz odims f).length = size (odims.map sz) := by simp [gather]

/-- reading a gathered array: the cell at `env` is `f` of `env` restricted to the array's dimensions -/
theorem at_gather (sz : String → Nat) (v : Var) (odims : List String) (f : Env → Val) (env : Env)
    (h : InBox sz odims env) :
    ({ v with dims := odims, data := gather sz odims f } : Var).at sz env
      = f (envOf odims (odims.map env)) := by
  obtain ⟨n, hn⟩ := inRange_ravel _ _ (inRange_map sz env odims h)
  have hlt := ravel_lt_size _ _ _ hn
  have hu := unravel_of_ravel _ _ _ hn
  simp [Var.at, hn, gather, hlt, hu]

/-- … and when `f` only looks at those dimensions, it is `f env` -/
theorem at_gather_local (sz : String → Nat) (v : Var) (odims : List String) (f : Env → Val) (env : Env)
    (h : InBox sz odims env)
    (hloc : ∀ e1 e2 : Env, (∀ d ∈ odims, e1 d = e2 d) → f e1 = f e2) :
    ({ v with dims := odims, data := gather sz odims f } : Var).at sz env = f env := by
  rw [at_gather sz v odims f env h]
  exact hloc _ _ (fun d hd => envOf_map env odims d hd)

theorem upd_same (env : Env) (d : String) (j : Nat) : upd env d j d = j := by simp [upd]
theorem upd_other (env : Env) (d x : String) (j : Nat) (h : x ≠ d) : upd env d j x = env x := by simp [upd, h]

theorem inBox_upd (sz : String → Nat) (dims : List String) (env : Env) (d : String) (j : Nat)
    (h : InBox sz dims env) (hj : j < sz d) : InBox sz dims (upd env d j) := by
  intro x hx
  by_cases hxd : x = d
  · subst hxd; simpa [upd] using hj
  · simpa [upd, hxd] using h x hx

theorem inBox_flipEnv (sz : String → Nat) (dims : List String) (env : Env) (d : String)
    (h : InBox sz dims env) (hd : d ∈ dims) : InBox sz dims (flipEnv sz d env) := by
  have := h d hd
  exact inBox_upd sz dims env d _ h (by omega)

/-- reversal along `d` read by named index -/
theorem at_revVar (sz : String → Nat) (d : String) (v : Var) (env : Env) (h : InBox sz v.dims env) :
    (revVar sz d v).at sz env = v.at sz (flipEnv sz d env) := by
  unfold revVar
  split
  · rename_i hd
    apply at_gather_local sz v v.dims _ env h
    intro e1 e2 he
    apply at_congr
    intro x hx
    by_cases hxd : x = d
    · subst hxd; simp [flipEnv, upd, he x hx]
    · simp [flipEnv, upd, hxd, he x hx]
  · rename_i hd
    apply at_congr
    intro x hx
    have : x ≠ d := fun e => hd (e ▸ hx)
    simp [flipEnv, upd, this]

theorem revVar_dims (sz : String → Nat) (d : String) (v : Var) : (revVar sz d v).dims = v.dims := by
  unfold revVar; split <;> rfl
theorem revVar_name (sz : String → Nat) (d : String) (v : Var) : (revVar sz d v).name = v.name := by
  unfold revVar; split <;> rfl
theorem revVar_positive (sz : String → Nat) (d : String) (v : Var) : (revVar sz d v).positive = v.positive := by
  unfold revVar; split <;> rfl
theorem revVar_bounds (sz : String → Nat) (d : String) (v : Var) : (revVar sz d v).bounds = v.bounds := by
  unfold revVar; split <;> rfl
theorem revVar_isCoord (sz : String → Nat) (d : String) (v : Var) : (revVar sz d v).isCoord = v.isCoord := by
  unfold revVar; split <;> rfl
theorem revVar_extra (sz : String → Nat) (d : String) (v : Var) : (revVar sz d v).extra = v.extra := by
  unfold revVar; split <;> rfl
theorem revVar_of_not_mem (sz : String → Nat) (d : String) (v : Var) (h : d ∉ v.dims) : revVar sz d v = v := by
  simp [revVar, h]

theorem revVar_wf (sz : String → Nat) (d : String) (v : Var) (h : v.WF sz) : (revVar sz d v).WF sz := by
  unfold revVar
  split
  · simp [Var.WF, length_gather]
  · exact h

/-- a one-dimensional variable is reversed as a list -/
theorem revVar_1d (sz : String → Nat) (d : String) (v : Var) (hd : v.dims = [d]) (h : v.data.length = sz d) :
    (revVar sz d v).data = v.data.reverse := by
  have hmem : d ∈ v.dims := by simp [hd]
  simp only [revVar, hmem, if_true]
  apply List.ext_getElem
  · simp [length_gather, hd, size, h]
  · intro n h1 h2
    have hn : n < sz d := by simpa [length_gather, hd, size] using h1
    have hu : unravel [sz d] n = some [n] := by
      simp [unravel, size, hn, Nat.mod_one]
    have hfl : sz d - 1 - n < sz d := by omega
    have hr : ravel [sz d] [sz d - 1 - n] = some (sz d - 1 - n) := ravel_1d _ _ hfl
    have he : envOf [d] [n] d = n := by simp [envOf]
    simp only [gather, hd, List.map_cons, List.map_nil, List.getElem_map, List.getElem_range, hu]
    simp only [Var.at, hd, List.map_cons, List.map_nil, flipEnv, upd, if_true, he, hr]
    rw [List.getElem_reverse]
    have hlt : sz d - 1 - n < v.data.length := by omega
    simp [List.getElem?_eq_getElem hlt, h]

/-- negation read by named index -/
theorem at_negVar (sz : String → Nat) (v : Var) (env : Env) : (negVar v).at sz env = vneg (v.at sz env) := by
  unfold Var.at negVar
  cases ravel (List.map sz v.dims) (List.map env v.dims) with
  | none => rfl
  | some n =>
    simp only [List.getElem?_map]
    cases v.data[n]? <;> rfl

theorem negVar_wf (sz : String → Nat) (v : Var) (h : v.WF sz) : (negVar v).WF sz := by
  simpa [Var.WF, negVar] using h

theorem vneg_vneg (x : Val) : vneg (vneg x) = x := by
  cases x with
  | none => rfl
  | some r => simp [vneg, Rat.neg_neg]

/-! ### one water column: `_find_ocean_floor_indexes` -/

/-- index of the last valid entry of a column -/
def lastValid {α} : List (Option α) → Option Nat
  | [] => none
  | x :: xs =>
    match lastValid xs with
    | some j => some (j + 1)
    | none => if x.isSome then some 0 else none

theorem argmaxFrom_runCount {α} : ∀ (xs : List (Option α)) (acc bi i : Nat),
    argmaxFrom acc bi i (runCount acc xs) =
      match lastValid xs with
      | some j => i + j
      | none => bi
  | [], acc, bi, i => by simp [runCount, argmaxFrom, lastValid]
  | x :: xs, acc, bi, i => by
    cases x with
    | none =>
      have ih := argmaxFrom_runCount xs acc bi (i + 1)
      simp only [runCount, Option.isSome_none, Bool.false_eq_true, if_false, argmaxFrom, Nat.lt_irrefl, lastValid]
      rw [ih]
      cases lastValid xs with
      | none => rfl
      | some j => simp only []; omega
    | some a =>
      have ih := argmaxFrom_runCount xs (acc + 1) i (i + 1)
      simp only [runCount, Option.isSome_some, if_true, argmaxFrom, Nat.lt_succ_self, lastValid]
      rw [ih]
      cases lastValid xs with
      | none => simp
      | some j => simp only []; omega

/-- the running-count / first-arg-max search finds the last valid layer, 0 if there is none -/
theorem floorIndex_eq {α} (col : List (Option α)) : floorIndex col = (lastValid col).getD 0 := by
  cases col with
  | nil => rfl
  | cons x xs =>
    simp only [floorIndex, runCount, argmaxFirst, lastValid]
    have := argmaxFrom_runCount xs (if x.isSome = true then 0 + 1 else 0) 0 1
    rw [this]
    cases lastValid xs with
    | none => cases x <;> simp
    | some j => simp; omega

theorem lastValid_some {α} : ∀ (col : List (Option α)) (i : Nat), lastValid col = some i →
    i < col.length ∧ (∃ a, col[i]? = some (some a)) ∧ ∀ j, i < j → j < col.length → col[j]? = some none
  | [], i, h => by simp [lastValid] at h
  | x :: xs, i, h => by
    simp only [lastValid] at h
    cases hl : lastValid xs with
    | some j =>
      simp only [hl, Option.some.injEq] at h
      subst h
      obtain ⟨h1, ⟨a, h2⟩, h3⟩ := lastValid_some xs j hl
      refine ⟨by simp; omega, ⟨a, by simpa using h2⟩, ?_⟩
      intro k hk hk2
      cases k with
      | zero => omega
      | succ k =>
        simp only [List.getElem?_cons_succ]
        exact h3 k (by omega) (by simpa using hk2)
    | none =>
      simp only [hl] at h
      split at h
      · rename_i hx
        simp only [Option.some.injEq] at h
        subst h
        obtain ⟨a, rfl⟩ := Option.isSome_iff_exists.mp hx
        refine ⟨by simp, ⟨a, by simp⟩, ?_⟩
        intro k hk hk2
        cases k with
        | zero => omega
        | succ k =>
          simp only [List.getElem?_cons_succ]
          have hnone := lastValid_none xs hl
          have hk3 : k < xs.length := by simpa using hk2
          rw [List.getElem?_eq_getElem hk3]
          exact congrArg some (hnone _ (List.getElem_mem hk3))
      · simp at h
where
  lastValid_none {α} : ∀ (col : List (Option α)), lastValid col = none → ∀ x ∈ col, x = none
    | [], _, x, hx => by simp at hx
    | y :: ys, h, x, hx => by
      simp only [lastValid] at h
      cases hl : lastValid ys with
      | some j => simp [hl] at h
      | none =>
        simp only [hl] at h
        split at h
        · simp at h
        · rename_i hy
          rcases List.mem_cons.mp hx with rfl | hm
          · cases x <;> simp_all
          · exact lastValid_none ys hl x hm

theorem lastValid_none {α} (col : List (Option α)) (h : lastValid col = none) : ∀ x ∈ col, x = none :=
  lastValid_some.lastValid_none col h

theorem lastValid_none_of_all {α} : ∀ (col : List (Option α)), (∀ x ∈ col, x = none) → lastValid col = none
  | [], _ => rfl
  | y :: ys, h => by
    have hy : y = none := h y (by simp)
    have := lastValid_none_of_all ys (fun x hx => h x (by simp [hx]))
    simp [lastValid, this, hy]

/-- the floor index depends only on which layers are valid -/
theorem lastValid_map_isSome {α} : ∀ (col : List (Option α)),
    lastValid (col.map fun x => if x.isSome then some () else none) = lastValid col
  | [] => rfl
  | x :: xs => by
    simp only [List.map_cons, lastValid, lastValid_map_isSome xs]
    cases lastValid xs with
    | some j => rfl
    | none => cases x <;> rfl

theorem floorIndex_congr {α β} (c1 : List (Option α)) (c2 : List (Option β))
    (h : c1.map (·.isSome) = c2.map (·.isSome)) : floorIndex c1 = floorIndex c2 := by
  rw [floorIndex_eq, floorIndex_eq, ← lastValid_map_isSome c1, ← lastValid_map_isSome c2]
  have : (c1.map fun x => if x.isSome then some () else none) = (c2.map fun x => if x.isSome then some () else none) := by
    have e1 : (c1.map fun x => if x.isSome then some () else none)
        = (c1.map (·.isSome)).map (fun b => if b then some () else none) := by simp [List.map_map, Function.comp_def]
    have e2 : (c2.map fun x => if x.isSome then some () else none)
        = (c2.map (·.isSome)).map (fun b => if b then some () else none) := by simp [List.map_map, Function.comp_def]
    rw [e1, e2, h]
  rw [this]

end Ems.Depth
