import EmsModel.Core.CacheKey
/-!
Lemmas/CacheKey.lean — framing lemmas for the cache-key byte stream:
every framed field (`hash_int`, `hash_string`, `hash_attributes`) is *prefix decodable*:
from `enc a ++ x = enc b ++ y` follow `a = b` and `x = y`.
Core Lean only.
-/
namespace Ems.CacheKey

/-! ### int32 -/

theorem le32_length (n : Nat) : (le32 n).length = 4 := rfl

theorem toNat_ofNat_lt (n : Nat) (h : n < 256) : (UInt8.ofNat n).toNat = n := by
  simp [UInt8.toNat_ofNat']
  omega

theorem decode32_le32 (n : Nat) (h : n < 4294967296) :
    decode32 (le32 n) = some (if n < 2147483648 then (n : Int) else (n : Int) - 4294967296) := by
  simp only [le32, decode32]
  rw [toNat_ofNat_lt _ (by omega), toNat_ofNat_lt _ (by omega), toNat_ofNat_lt _ (by omega),
    toNat_ofNat_lt _ (by omega)]
  have : n % 256 + 256 * (n / 256 % 256) + 65536 * (n / 65536 % 256)
      + 16777216 * (n / 16777216 % 256) = n := by omega
  rw [this]

theorem hashInt_eq_some {v : Int} {b : Bytes} (h : hashInt v = some b) :
    (int32Min ≤ v ∧ v ≤ int32Max) ∧ b = le32 (v % 4294967296).toNat := by
  unfold hashInt at h
  split at h
  · rename_i hr
    exact ⟨hr, by simpa using h.symm⟩
  · simp at h

theorem hashInt_of_range {v : Int} (h : int32Min ≤ v ∧ v ≤ int32Max) :
    hashInt v = some (le32 (v % 4294967296).toNat) := by
  simp [hashInt, h]

theorem hashInt_nat_of_lt {n : Nat} (h : n < 2147483648) : hashInt (n : Int) = some (le32 n) := by
  have hr : int32Min ≤ (n : Int) ∧ (n : Int) ≤ int32Max := by
    simp only [int32Min, int32Max]; omega
  rw [hashInt_of_range hr]
  congr 2
  omega

theorem hashInt_length {v : Int} {b : Bytes} (h : hashInt v = some b) : b.length = 4 := by
  rw [(hashInt_eq_some h).2]; rfl

theorem decode32_hashInt {v : Int} {b : Bytes} (h : hashInt v = some b) : decode32 b = some v := by
  obtain ⟨⟨h1, h2⟩, hb⟩ := hashInt_eq_some h
  simp only [int32Min, int32Max] at h1 h2
  subst hb
  rw [decode32_le32 _ (by omega)]
  congr 1
  split <;> omega

theorem hashInt_inj {v w : Int} {b : Bytes} (hv : hashInt v = some b) (hw : hashInt w = some b) :
    v = w := by
  have := decode32_hashInt hv
  rw [decode32_hashInt hw] at this
  exact (Option.some.inj this).symm

/-- Framing of `hash_int`: fixed width, so it can be split off the front of any stream. -/
theorem hashInt_prefix {v w : Int} {a b x y : Bytes} (hv : hashInt v = some a)
    (hw : hashInt w = some b) (h : a ++ x = b ++ y) : v = w ∧ x = y := by
  have hl : a.length = b.length := by rw [hashInt_length hv, hashInt_length hw]
  obtain ⟨hab, hxy⟩ := List.append_inj h hl
  subst hab
  exact ⟨hashInt_inj hv hw, hxy⟩

/-! ### UTF-8 -/

/-- UTF-8 is a prefix code: the first encoded character of a byte stream is determined. -/
theorem utf8EncodeChar_prefix {c d : Char} {x y : Bytes}
    (h : String.utf8EncodeChar c ++ x = String.utf8EncodeChar d ++ y) : c = d ∧ x = y := by
  have h1 := congrArg List.toByteArray h
  simp only [List.toByteArray_append] at h1
  have hc := @ByteArray.utf8DecodeChar?_utf8EncodeChar_append x.toByteArray c
  have hd := @ByteArray.utf8DecodeChar?_utf8EncodeChar_append y.toByteArray d
  rw [h1, hd] at hc
  have : d = c := by simpa using hc
  subst this
  exact ⟨rfl, List.append_cancel_left h⟩

theorem utf8Chars_cons (c : Char) (cs : List Char) :
    utf8Chars (c :: cs) = String.utf8EncodeChar c ++ utf8Chars cs := by
  simp [utf8Chars]

/-- Two code point sequences of the same length whose encodings start the same stream
are equal: the character count makes the UTF-8 field decodable. -/
theorem utf8Chars_prefix : ∀ (cs ds : List Char) (x y : Bytes), cs.length = ds.length →
    utf8Chars cs ++ x = utf8Chars ds ++ y → cs = ds ∧ x = y
  | [], [], x, y, _, h => by simpa [utf8Chars] using h
  | [], _ :: _, _, _, hl, _ => by simp at hl
  | _ :: _, [], _, _, hl, _ => by simp at hl
  | c :: cs, d :: ds, x, y, hl, h => by
    rw [utf8Chars_cons, utf8Chars_cons, List.append_assoc, List.append_assoc] at h
    obtain ⟨hcd, hrest⟩ := utf8EncodeChar_prefix h
    obtain ⟨hcs, hxy⟩ := utf8Chars_prefix cs ds x y (by simpa using hl) hrest
    exact ⟨by rw [hcd, hcs], hxy⟩

theorem hashChars_eq_some {cs : List Char} {b : Bytes} (h : hashChars cs = some b) :
    ∃ l, hashInt cs.length = some l ∧ b = l ++ utf8Chars cs := by
  unfold hashChars at h
  cases hl : hashInt (cs.length : Int) with
  | none => simp [hl] at h
  | some l => exact ⟨l, rfl, by simpa [hl] using h.symm⟩

/-- Framing of `hash_string` on code point lists. -/
theorem hashChars_prefix {cs ds : List Char} {a b x y : Bytes} (hc : hashChars cs = some a)
    (hd : hashChars ds = some b) (h : a ++ x = b ++ y) : cs = ds ∧ x = y := by
  obtain ⟨l, hl, rfl⟩ := hashChars_eq_some hc
  obtain ⟨m, hm, rfl⟩ := hashChars_eq_some hd
  rw [List.append_assoc, List.append_assoc] at h
  obtain ⟨hlen, hrest⟩ := hashInt_prefix hl hm h
  exact utf8Chars_prefix cs ds x y (by omega) hrest

/-- Framing of `hash_string`: the string can be split off the front of any stream. -/
theorem hashString_prefix {s t : String} {a b x y : Bytes} (hs : hashString s = some a)
    (ht : hashString t = some b) (h : a ++ x = b ++ y) : s = t ∧ x = y := by
  obtain ⟨hst, hxy⟩ := hashChars_prefix hs ht h
  exact ⟨String.toList_injective hst, hxy⟩

theorem hashString_length {s : String} {a : Bytes} (hs : hashString s = some a) :
    a.length = 4 + (utf8 s).length := by
  obtain ⟨l, hl, rfl⟩ := hashChars_eq_some hs
  simp [hashInt_length hl, utf8]

/-! ### attributes -/

theorem hashAttrs_eq_some {c : Nat} {blob a : Bytes} (h : hashAttrs c blob = some a) :
    ∃ v n l, hashInt 4 = some v ∧ hashInt c = some n ∧ hashInt blob.length = some l
      ∧ a = v ++ n ++ l ++ blob := by
  unfold hashAttrs at h
  split at h
  · rename_i v n l hv hn hl
    exact ⟨v, n, l, hv, hn, hl, by simpa using h.symm⟩
  · simp at h

theorem hashAttrs_length {c : Nat} {blob a : Bytes} (h : hashAttrs c blob = some a) :
    a.length = 12 + blob.length := by
  obtain ⟨v, n, l, hv, hn, hl, rfl⟩ := hashAttrs_eq_some h
  simp [hashInt_length hv, hashInt_length hn, hashInt_length hl]
  omega

/-- Framing of `hash_attributes`: count, byte length, then exactly that many bytes. -/
theorem hashAttrs_prefix {c c' : Nat} {blob blob' a a' x y : Bytes}
    (h1 : hashAttrs c blob = some a) (h2 : hashAttrs c' blob' = some a')
    (h : a ++ x = a' ++ y) : c = c' ∧ blob = blob' ∧ x = y := by
  obtain ⟨v, n, l, hv, hn, hl, rfl⟩ := hashAttrs_eq_some h1
  obtain ⟨v', n', l', hv', hn', hl', rfl⟩ := hashAttrs_eq_some h2
  simp only [List.append_assoc] at h
  obtain ⟨_, h⟩ := hashInt_prefix hv hv' h
  obtain ⟨hc, h⟩ := hashInt_prefix hn hn' h
  obtain ⟨hlen, h⟩ := hashInt_prefix hl hl' h
  obtain ⟨hb, hxy⟩ := List.append_inj h (by omega)
  exact ⟨by omega, hb, hxy⟩

/-! ### shape -/

theorem shapeBytes_cons_eq_some {d : Nat} {ds : List Nat} {b : Bytes}
    (h : shapeBytes (d :: ds) = some b) :
    ∃ a r, hashInt d = some a ∧ shapeBytes ds = some r ∧ b = a ++ r := by
  simp only [shapeBytes] at h
  split at h
  · rename_i a r ha hr
    exact ⟨a, r, ha, hr, by simpa using h.symm⟩
  · simp at h

theorem shapeBytes_length : ∀ (s : List Nat) (b : Bytes), shapeBytes s = some b →
    b.length = 4 * s.length
  | [], b, h => by simp [shapeBytes] at h; subst h; rfl
  | d :: ds, b, h => by
    obtain ⟨a, r, ha, hr, rfl⟩ := shapeBytes_cons_eq_some h
    simp [hashInt_length ha, shapeBytes_length ds r hr]
    omega

/-- The shape is decodable **once its rank is known**: the extents are fixed width but
their number is not written. -/
theorem shapeBytes_prefix : ∀ (s s' : List Nat) (a a' x y : Bytes), s.length = s'.length →
    shapeBytes s = some a → shapeBytes s' = some a' → a ++ x = a' ++ y → s = s' ∧ x = y
  | [], [], a, a', x, y, _, h1, h2, h => by
    simp [shapeBytes] at h1 h2; subst h1; subst h2; simpa using h
  | [], _ :: _, _, _, _, _, hl, _, _, _ => by simp at hl
  | _ :: _, [], _, _, _, _, hl, _, _, _ => by simp at hl
  | d :: ds, d' :: ds', a, a', x, y, hl, h1, h2, h => by
    obtain ⟨p, r, hp, hr, rfl⟩ := shapeBytes_cons_eq_some h1
    obtain ⟨p', r', hp', hr', rfl⟩ := shapeBytes_cons_eq_some h2
    simp only [List.append_assoc] at h
    obtain ⟨hd, h⟩ := hashInt_prefix hp hp' h
    obtain ⟨hds, hxy⟩ := shapeBytes_prefix ds ds' r r' x y (by simpa using hl) hr hr' h
    exact ⟨by rw [hds]; congr 1; omega, hxy⟩

/-! ### one variable -/

theorem hashVar_eq_some {r : GeomRec} {b : Bytes} (h : hashVar r = some b) :
    ∃ n t s sh a, hashString r.name = some n ∧ hashString r.dtype = some t
      ∧ hashInt (Ems.size r.shape) = some s ∧ shapeBytes r.shape = some sh
      ∧ hashAttrs r.attrCount r.attrBlob = some a
      ∧ b = n ++ (t ++ (s ++ (sh ++ (r.data ++ a)))) := by
  unfold hashVar at h
  split at h
  · rename_i n t s sh a hn ht hs hsh ha
    exact ⟨n, t, s, sh, a, hn, ht, hs, hsh, ha, by simpa using h.symm⟩
  · simp at h

theorem hashVar_length {r : GeomRec} {b : Bytes} (h : hashVar r = some b) :
    b.length = varLength r := by
  obtain ⟨n, t, s, sh, a, hn, ht, hs, hsh, ha, rfl⟩ := hashVar_eq_some h
  simp only [List.length_append, hashString_length hn, hashString_length ht, hashInt_length hs,
    shapeBytes_length _ _ hsh, hashAttrs_length ha, varLength, dataOffset]
  omega

/-- The framed header of a variable (name, dtype name, element count) can always be read
off the front of a stream. -/
theorem hashVar_prefix_header {r r' : GeomRec} {a a' x y : Bytes} (h1 : hashVar r = some a)
    (h2 : hashVar r' = some a') (h : a ++ x = a' ++ y) :
    r.name = r'.name ∧ r.dtype = r'.dtype ∧ Ems.size r.shape = Ems.size r'.shape := by
  obtain ⟨n, t, s, sh, at_, hn, ht, hs, hsh, ha, rfl⟩ := hashVar_eq_some h1
  obtain ⟨n', t', s', sh', at', hn', ht', hs', hsh', ha', rfl⟩ := hashVar_eq_some h2
  simp only [List.append_assoc] at h
  obtain ⟨hname, h⟩ := hashString_prefix hn hn' h
  obtain ⟨hdt, h⟩ := hashString_prefix ht ht' h
  obtain ⟨hsz, h⟩ := hashInt_prefix hs hs' h
  exact ⟨hname, hdt, by omega⟩

/-- With the rank and the number of data bytes known, a whole variable can be read off
the front of a stream. -/
theorem hashVar_prefix_full {r r' : GeomRec} {a a' x y : Bytes} (h1 : hashVar r = some a)
    (h2 : hashVar r' = some a') (hnd : r.shape.length = r'.shape.length)
    (hdl : r.name = r'.name → r.dtype = r'.dtype → r.shape = r'.shape →
      r.data.length = r'.data.length)
    (h : a ++ x = a' ++ y) : r = r' ∧ x = y := by
  obtain ⟨n, t, s, sh, at_, hn, ht, hs, hsh, ha, rfl⟩ := hashVar_eq_some h1
  obtain ⟨n', t', s', sh', at', hn', ht', hs', hsh', ha', rfl⟩ := hashVar_eq_some h2
  simp only [List.append_assoc] at h
  obtain ⟨hname, h⟩ := hashString_prefix hn hn' h
  obtain ⟨hdt, h⟩ := hashString_prefix ht ht' h
  obtain ⟨_, h⟩ := hashInt_prefix hs hs' h
  obtain ⟨hshape, h⟩ := shapeBytes_prefix _ _ _ _ _ _ hnd hsh hsh' h
  obtain ⟨hdata, h⟩ := List.append_inj h (hdl hname hdt hshape)
  obtain ⟨hcnt, hblob, hxy⟩ := hashAttrs_prefix ha ha' h
  refine ⟨?_, hxy⟩
  cases r; cases r'; simp_all

/-! ### the whole stream -/

theorem hashGeometry_cons_eq_some {r : GeomRec} {rs : List GeomRec} {b : Bytes}
    (h : hashGeometry (r :: rs) = some b) :
    ∃ a g, hashVar r = some a ∧ hashGeometry rs = some g ∧ b = a ++ g := by
  simp only [hashGeometry] at h
  split at h
  · rename_i a g ha hg
    exact ⟨a, g, ha, hg, by simpa using h.symm⟩
  · simp at h

theorem hashGeometry_cons_of {r : GeomRec} {rs : List GeomRec} {a g : Bytes}
    (ha : hashVar r = some a) (hg : hashGeometry rs = some g) :
    hashGeometry (r :: rs) = some (a ++ g) := by
  simp [hashGeometry, ha, hg]

theorem hashGeometry_append_eq_some : ∀ (pre post : List GeomRec) (b : Bytes),
    hashGeometry (pre ++ post) = some b →
    ∃ p q, hashGeometry pre = some p ∧ hashGeometry post = some q ∧ b = p ++ q
  | [], post, b, h => ⟨[], b, rfl, by simpa using h, rfl⟩
  | r :: pre, post, b, h => by
    obtain ⟨a, g, ha, hg, rfl⟩ := hashGeometry_cons_eq_some (by simpa using h)
    obtain ⟨p, q, hp, hq, rfl⟩ := hashGeometry_append_eq_some pre post g hg
    exact ⟨a ++ p, q, hashGeometry_cons_of ha hp, hq, by simp⟩

theorem hashGeometry_append_of : ∀ (pre post : List GeomRec) (p q : Bytes),
    hashGeometry pre = some p → hashGeometry post = some q →
    hashGeometry (pre ++ post) = some (p ++ q)
  | [], post, p, q, hp, hq => by simp [hashGeometry] at hp; subst hp; simpa using hq
  | r :: pre, post, p, q, hp, hq => by
    obtain ⟨a, g, ha, hg, rfl⟩ := hashGeometry_cons_eq_some hp
    have := hashGeometry_append_of pre post g q hg hq
    simpa using hashGeometry_cons_of ha this

theorem hashGeometry_length : ∀ (rs : List GeomRec) (b : Bytes), hashGeometry rs = some b →
    b.length = geomLength rs
  | [], b, h => by simp [hashGeometry] at h; subst h; rfl
  | r :: rs, b, h => by
    obtain ⟨a, g, ha, hg, rfl⟩ := hashGeometry_cons_eq_some h
    simp [geomLength, hashVar_length ha, hashGeometry_length rs g hg]

theorem trailer_eq_some {c : ConvId} {ver : String} {b : Bytes} (h : trailer c ver = some b) :
    ∃ m n v, hashString c.module = some m ∧ hashString c.className = some n
      ∧ hashString ver = some v ∧ b = m ++ (n ++ v) := by
  unfold trailer at h
  split at h
  · rename_i m n v hm hn hv
    exact ⟨m, n, v, hm, hn, hv, by simpa using h.symm⟩
  · simp at h

/-- The trailer, being the END of the stream, determines convention identity and version. -/
theorem trailer_inj {c c' : ConvId} {ver ver' : String} {b : Bytes} (h1 : trailer c ver = some b)
    (h2 : trailer c' ver' = some b) : c = c' ∧ ver = ver' := by
  obtain ⟨m, n, v, hm, hn, hv, rfl⟩ := trailer_eq_some h1
  obtain ⟨m', n', v', hm', hn', hv', h⟩ := trailer_eq_some h2
  obtain ⟨hmod, h⟩ := hashString_prefix hm hm' h
  obtain ⟨hcls, h⟩ := hashString_prefix hn hn' h
  have h' : v ++ [] = v' ++ [] := by simpa using h
  obtain ⟨hver, _⟩ := hashString_prefix hv hv' h'
  refine ⟨?_, hver⟩
  cases c; cases c'; simp_all

theorem cacheStream_eq_some {rs : List GeomRec} {c : ConvId} {ver : String} {s : Bytes}
    (h : cacheStream rs c ver = some s) :
    ∃ g t, hashGeometry rs = some g ∧ trailer c ver = some t ∧ s = g ++ t := by
  unfold cacheStream at h
  split at h
  · rename_i g t hg ht
    exact ⟨g, t, hg, ht, by simpa using h.symm⟩
  · simp at h

/-- Splitting the stream at variable number `pre.length`. -/
theorem cacheStream_split {pre post : List GeomRec} {r : GeomRec} {c : ConvId} {ver : String}
    {s : Bytes} (h : cacheStream (pre ++ r :: post) c ver = some s) :
    ∃ p a q t, hashGeometry pre = some p ∧ hashVar r = some a ∧ hashGeometry post = some q
      ∧ trailer c ver = some t ∧ s = p ++ (a ++ (q ++ t)) := by
  obtain ⟨g, t, hg, ht, rfl⟩ := cacheStream_eq_some h
  obtain ⟨p, q', hp, hq', rfl⟩ := hashGeometry_append_eq_some _ _ _ hg
  obtain ⟨a, q, ha, hq, rfl⟩ := hashGeometry_cons_eq_some hq'
  exact ⟨p, a, q, t, hp, ha, hq, ht, by simp⟩

/-- Two streams that share the variables `pre` and then continue with `r` / `r'`:
if the streams are equal, so are the two continuations from that point on. -/
theorem diverge {pre post post' : List GeomRec} {r r' : GeomRec} {c c' : ConvId}
    {ver ver' : String} {s : Bytes}
    (h : cacheStream (pre ++ r :: post) c ver = some s)
    (h' : cacheStream (pre ++ r' :: post') c' ver' = some s) :
    ∃ a a' q q' t t', hashVar r = some a ∧ hashVar r' = some a' ∧
      hashGeometry post = some q ∧ hashGeometry post' = some q' ∧
      trailer c ver = some t ∧ trailer c' ver' = some t' ∧
      a ++ (q ++ t) = a' ++ (q' ++ t') := by
  obtain ⟨p, a, q, t, hp, ha, hq, ht, hs⟩ := cacheStream_split h
  obtain ⟨p', a', q', t', hp', ha', hq', ht', hs'⟩ := cacheStream_split h'
  rw [hp] at hp'
  have : p = p' := Option.some.inj hp'
  subst this
  rw [hs] at hs'
  exact ⟨a, a', q, q', t, t', ha, ha', hq, hq', ht, ht', List.append_cancel_left hs'⟩

theorem set_middle {α} (X D Y : List α) (k : Nat) (b : α) (hk : k < D.length) :
    (X ++ (D ++ Y)).set (X.length + k) b = X ++ (D.set k b ++ Y) := by
  rw [List.set_append_right _ _ (by omega)]
  congr 1
  rw [Nat.add_sub_cancel_left, List.set_append_left _ _ hk]

theorem hashGeometry_prefix_partial (itemsize : String → Nat) :
    ∀ (rs rs' : List GeomRec) (g g' x y : Bytes),
    (∀ r ∈ rs, WellFormed itemsize r) → (∀ r ∈ rs', WellFormed itemsize r) →
    SameRanks rs rs' → hashGeometry rs = some g → hashGeometry rs' = some g' →
    g ++ x = g' ++ y → rs = rs' ∧ x = y
  | [], [], g, g', x, y, _, _, _, h, h', e => by
    simp [hashGeometry] at h h'; subst h; subst h'; simpa using e
  | [], _ :: _, _, _, _, _, _, _, hr, _, _, _ => by simp [SameRanks] at hr
  | _ :: _, [], _, _, _, _, _, _, hr, _, _, _ => by simp [SameRanks] at hr
  | r :: rs, r' :: rs', g, g', x, y, hwf, hwf', hr, h, h', e => by
    obtain ⟨a, q, ha, hq, rfl⟩ := hashGeometry_cons_eq_some h
    obtain ⟨a', q', ha', hq', rfl⟩ := hashGeometry_cons_eq_some h'
    simp only [SameRanks, List.map_cons, List.cons.injEq] at hr
    simp only [List.append_assoc] at e
    have w := hwf r (by simp)
    have w' := hwf' r' (by simp)
    obtain ⟨hrr, e⟩ := hashVar_prefix_full ha ha' hr.1
      (fun _ hd hs => by unfold WellFormed at w w'; rw [w, w', hd, hs]) e
    obtain ⟨hrs, hxy⟩ := hashGeometry_prefix_partial itemsize rs rs' q q' x y
      (fun r hr => hwf r (by simp [hr])) (fun r hr => hwf' r (by simp [hr])) hr.2 hq hq' e
    exact ⟨by rw [hrr, hrs], hxy⟩

end Ems.CacheKey
