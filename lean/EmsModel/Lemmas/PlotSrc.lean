import EmsModel.Lemmas.NDArray
import EmsModel.Core.PlotSrc
/-!
Lemmas/PlotSrc.lean — how many dimensions a ravelled variable has depends on its dimension NAMES only.
`Convention.make_quiver` tests `u.dims != v.dims` and afterwards `len(u.dims) > 1` for `u` alone; this is why that covers `v`.
-/
namespace Ems.NArr
variable {α : Type}

theorem plotsrc_lookup_isSome (d : String) (dims : List Dim) :
    (List.lookup d dims).isSome = (dims.map (·.1)).contains d := by
  induction dims with
  | nil => rfl
  | cons h t ih =>
    obtain ⟨n, s⟩ := h
    simp only [List.lookup_cons, List.map_cons, List.contains_cons]
    cases hd : d == n <;> simp [ih]

theorem plotsrc_transposeTo_dims_length [Inhabited α] (a : NArr α) (order : List String) :
    (a.transposeTo order).dims.length = (order.filter (a.names.contains ·)).length := by
  simp only [transposeTo, ofFn_dims]
  induction order with
  | nil => rfl
  | cons d t ih =>
    have h := plotsrc_lookup_isSome d a.dims
    simp only [List.filterMap_cons, List.filter_cons]
    cases hl : List.lookup d a.dims with
    | none =>
      rw [hl] at h
      have : a.names.contains d = false := by simpa [names] using h.symm
      simp at this
      simp [this, ih]
    | some s =>
      rw [hl] at h
      have : a.names.contains d = true := by simpa [names] using h.symm
      simp at this
      simp [this, ih]

/-- variables with the same dimension names ravel to the same number of dimensions -/
theorem plotsrc_ravelDims_length_congr [Inhabited α] (u v : NArr α) (gd : List String) (h : u.names = v.names)
    (ru rv : NArr α) (hu : u.ravelDims gd none = some ru) (hv : v.ravelDims gd none = some rv) :
    ru.dims.length = rv.dims.length := by
  have key : ∀ order, (u.transposeTo order).dims.length = (v.transposeTo order).dims.length := by
    intro order
    rw [plotsrc_transposeTo_dims_length, plotsrc_transposeTo_dims_length, h]
  unfold ravelDims moveToEnd at hu hv
  rw [h] at hu
  by_cases hall : (gd.all (v.names.contains ·)) = true
  · rw [if_pos hall] at hu hv
    simp only at hu hv
    split at hu
    · cases hu
    · split at hv
      · cases hv
      · cases hu; cases hv
        simp only [List.length_append, List.length_take, List.length_cons, List.length_nil, key]
  · rw [if_neg hall] at hu
    cases hu

end Ems.NArr
