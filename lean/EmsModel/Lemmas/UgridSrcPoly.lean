import EmsModel.Core.UgridSrcPoly
import EmsModel.Lemmas.MeshMask
import EmsModel.Lemmas.Polygons
/-! Lemmas about the batch-loop language of `Core/UgridSrcPoly.lean` (`UGrid._make_polygons`): what one pass of the loop
writes, what the whole loop leaves in the array, and the row functions of the source against those of the hand model.
Core Lean only. -/
set_option linter.unusedSimpArgs false
namespace Ems.UgridSrc
open Ems.Clip

/-- the number of unmasked entries of a row, the way the source counts it:
`numpy.sum(~numpy.ma.getmaskarray(face_node), axis=1)` -/
def usize (r : List (Nat × Bool)) : Nat := ((r.map (·.2)).map (!·)).count true

/-- The environment of a mesh: `face_count` is the number of rows of `face_node_array`. -/
def polyEnv (T : DTable) (xs ys : List Rat) : PEnv :=
  { faceNode := T, nodeX := xs, nodeY := ys, nFaces := T.length }

theorem zipWith_map_same {α β γ δ : Type} (f : β → γ → δ) (g : α → β) (h : α → γ) : ∀ l : List α,
    List.zipWith f (l.map g) (l.map h) = l.map fun a => f (g a) (h a)
  | [] => rfl
  | a :: as => by simp [zipWith_map_same f g h as]

theorem zip_map_same {α β γ : Type} (g : α → β) (h : α → γ) : ∀ l : List α,
    List.zip (l.map g) (l.map h) = l.map fun a => (g a, h a)
  | [] => rfl
  | a :: as => by simp [zip_map_same g h as]

/-! ### one pass, the whole loop -/

/-- `shapely.polygons(coords, indices=I, out=out)` with `coords[k]` made from row `I[k]`: `out[i] = g i` for `i` in `I` -/
theorem getElem?_writePolys (g : Nat → Poly) : ∀ (I : List Nat) (out : List (Option Poly)) (i : Nat), i < out.length →
    (writePolys out I (I.map g))[i]? = if i ∈ I then some (some (g i)) else out[i]?
  | [], out, i, _ => by simp [writePolys]
  | j :: js, out, i, hi => by
    simp only [List.map_cons, writePolys]
    rw [getElem?_writePolys g js _ i (by simpa using hi)]
    by_cases hm : i ∈ js
    · simp [hm]
    · by_cases hij : i = j
      · subst hij; simp [hm, List.getElem?_set, hi]
      · have : ¬ j = i := fun h => hij h.symm
        simp [hm, hij, List.getElem?_set, this]

theorem length_writePolys : ∀ (I : List Nat) (C : List Poly) (out : List (Option Poly)),
    (writePolys out I C).length = out.length
  | [], _, out => by simp [writePolys]
  | _ :: _, [], out => by simp [writePolys]
  | i :: is, c :: cs, out => by simp [writePolys, length_writePolys is cs]

/-- If every pass `s` writes `g s i` to exactly the rows `i` of size `s`, then after the passes `S` row `i` holds
`g (size i) i` when its size is among `S`, and what it held before otherwise. -/
theorem batchFold_spec (env : PEnv) (coords indices : PExpr) (n : Nat) (size : Nat → Nat) (g : Nat → Nat → Poly)
    (hstep : ∀ s out, out.length = n →
      batchStep out (pEval { env with loopVar := s } coords) (pEval { env with loopVar := s } indices) =
        some (writePolys out ((List.range n).filter fun i => size i == s)
          (((List.range n).filter fun i => size i == s).map (g s)))) :
    ∀ (S : List Nat) (out : List (Option Poly)), out.length = n →
      ∃ out', batchFold env coords indices S out = some out' ∧ out'.length = n ∧
        ∀ i, i < n → out'[i]? = if size i ∈ S then some (some (g (size i) i)) else out[i]?
  | [], out, h => ⟨out, rfl, h, by simp⟩
  | s :: ss, out, h => by
    have h1 := hstep s out h
    have hl : (writePolys out ((List.range n).filter fun i => size i == s)
          (((List.range n).filter fun i => size i == s).map (g s))).length = n := by
      rw [length_writePolys]; exact h
    obtain ⟨out', e1, e2, e3⟩ := batchFold_spec env coords indices n size g hstep ss _ hl
    refine ⟨out', ?_, e2, ?_⟩
    · simp only [batchFold, h1]; exact e1
    · intro i hi
      rw [e3 i hi, getElem?_writePolys (g s) _ out i (by omega)]
      by_cases hm : size i ∈ ss
      · simp [hm]
      · by_cases hs : size i = s
        · subst hs; simp [hm, hi]
        · have : ¬ (size i == s) = true := by simpa using hs
          simp [hm, hs, this]

/-- `batchFold_spec` as an equation: the loop returns the array `R` that holds these entries. -/
theorem batchFold_eq (env : PEnv) (coords indices : PExpr) (n : Nat) (size : Nat → Nat) (g : Nat → Nat → Poly)
    (S : List Nat) (out R : List (Option Poly)) (hout : out.length = n) (hR : R.length = n)
    (hpt : ∀ i, i < n → R[i]? = if size i ∈ S then some (some (g (size i) i)) else out[i]?)
    (hstep : ∀ s out, out.length = n →
      batchStep out (pEval { env with loopVar := s } coords) (pEval { env with loopVar := s } indices) =
        some (writePolys out ((List.range n).filter fun i => size i == s)
          (((List.range n).filter fun i => size i == s).map (g s)))) :
    batchFold env coords indices S out = some R := by
  obtain ⟨out', e1, e2, e3⟩ := batchFold_spec env coords indices n size g hstep S out hout
  rw [e1]
  congr 1
  apply List.ext_getElem?
  intro i
  by_cases hi : i < n
  · rw [e3 i hi, hpt i hi]
  · rw [List.getElem?_eq_none (by omega), List.getElem?_eq_none (by omega)]


/-! ### the row functions of the source -/

/-- `numpy.sum(~numpy.ma.getmaskarray(face_node), axis=1)` is `usize` row by row -/
theorem sizes_eq (T : DTable) :
    List.map (fun r => List.count true r)
      (List.map (fun r => List.map (fun x => !x) r) (List.map (fun r => List.map (fun x => x.snd) r) T)) =
    T.map usize := by
  simp [List.map_map, usize, Function.comp_def]

/-- `numpy.flatnonzero(polygon_sizes == s)`: the rows of size `s`, ascending -/
theorem flatnonzero_sizes (T : DTable) (s : Nat) :
    flatnonzeroL ((T.map usize).map (· == s)) = (List.range T.length).filter fun i => usize (T.getD i []) == s := by
  unfold flatnonzeroL
  simp only [List.length_map]
  apply List.filter_congr
  intro i hi
  have hi' : i < T.length := List.mem_range.mp hi
  simp [List.getD_eq_getElem?_getD, List.getElem?_map, List.getElem?_eq_getElem hi']

theorem usize_cons (d : Nat) (m : Bool) (r : List (Nat × Bool)) :
    usize ((d, m) :: r) = (if m then 0 else 1) + usize r := by
  cases m <;> simp [usize, List.count_cons] <;> omega

theorem all_masked {r : List (Nat × Bool)} (h : r.all (·.2) = true) : usize r = 0 ∧ compressD r = [] := by
  induction r with
  | nil => exact ⟨rfl, rfl⟩
  | cons e r ih =>
    obtain ⟨d, m⟩ := e
    simp only [List.all_cons, Bool.and_eq_true] at h
    obtain ⟨hm, hr⟩ := h
    have hm' : m = true := hm
    subst hm'
    obtain ⟨h1, h2⟩ := ih hr
    constructor
    · rw [usize_cons]; simpa using h1
    · simpa [compressD] using h2

/-- **Where the source and the model agree.** When the masked entries of a row are trailing, the first `size` entries of
the data (`numpy.ma.getdata(face_node)[i, :size]`) are the unmasked entries (`face_node[i].compressed()`). -/
theorem take_usize_of_trailing : ∀ (r : List (Nat × Bool)), trailingMasked r = true →
    (r.map (·.1)).take (usize r) = compressD r
  | [], _ => rfl
  | (d, false) :: rest, h => by
    have ih := take_usize_of_trailing rest (by simpa [trailingMasked] using h)
    rw [usize_cons]
    simp only [Bool.false_eq_true, if_false, List.map_cons]
    rw [Nat.add_comm, List.take_succ_cons, ih]
    simp [compressD]
  | (d, true) :: rest, h => by
    have hr : rest.all (·.2) = true := by simpa [trailingMasked] using h
    obtain ⟨h1, h2⟩ := all_masked hr
    rw [usize_cons, h1]
    simp only [if_true, List.take_zero]
    simp [compressD] at h2 ⊢
    exact h2

theorem mem_compressD {r : List (Nat × Bool)} {n : Nat} (h : n ∈ compressD r) : (n, false) ∈ r := by
  simp only [compressD, List.mem_map, List.mem_filter] at h
  obtain ⟨⟨d, m⟩, ⟨h1, h2⟩, h3⟩ := h
  simp at h2 h3
  subst h2 h3
  exact h1

end Ems.UgridSrc
