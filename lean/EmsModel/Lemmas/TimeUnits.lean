import EmsModel.Core.TimeUnits
/-!
Lemmas/TimeUnits.lean — reading back what the formatter writes.

`parseDate ∘ render` and `datesplit ∘ render` on the EMS form, used by `Props/C17.lean`.
Core Lean only (`simp`, `omega`, `decide`).
-/
namespace Ems.TimeUnits

/-! ### digits -/

theorem dchR_spec : ∀ r, r < 10 → isDig (dchR r) = true ∧ dval (dchR r) = r := by decide

theorem isDig_dch (k : Nat) : isDig (dch k) = true := (dchR_spec (k % 10) (Nat.mod_lt _ (by decide))).1
theorem dval_dch (k : Nat) : dval (dch k) = k % 10 := (dchR_spec (k % 10) (Nat.mod_lt _ (by decide))).2

theorem dchR_not_ws : ∀ r, r < 10 → isWs (dchR r) = false := by decide
theorem isWs_dch (k : Nat) : isWs (dch k) = false := dchR_not_ws (k % 10) (Nat.mod_lt _ (by decide))

theorem ne_of_isDig {c d : Char} (hc : isDig c = true) (hd : isDig d = false) : c ≠ d := by
  intro h; rw [h, hd] at hc; cases hc

theorem dch_ne (k : Nat) (d : Char) (hd : isDig d = false) : dch k ≠ d := ne_of_isDig (isDig_dch k) hd

/-- the rest of the string does not begin with a digit -/
def NoDigHead : Str → Prop
  | [] => True
  | c :: _ => isDig c = false

theorem takeDigs2_two (a b : Char) (ha : isDig a = true) (hb : isDig b = true) (r : Str) :
    takeDigs 2 (a :: b :: r) = ([a, b], r) := by
  simp [takeDigs, ha, hb]

theorem takeDigs2_one (a : Char) (ha : isDig a = true) (r : Str) (hr : NoDigHead r) :
    takeDigs 2 (a :: r) = ([a], r) := by
  cases r with
  | nil => simp [takeDigs, ha]
  | cons c r => simp [NoDigHead] at hr; simp [takeDigs, ha, hr]

theorem digitsVal_two (a b : Char) : digitsVal [a, b] = 10 * dval a + dval b := by
  simp [digitsVal]

theorem num2_two (a b : Char) (ha : isDig a = true) (hb : isDig b = true) (r : Str) :
    num2 (a :: b :: r) = some (10 * dval a + dval b, r) := by
  simp [num2, takeDigs2_two a b ha hb r, digitsVal]

theorem num2_one (a : Char) (ha : isDig a = true) (r : Str) (hr : NoDigHead r) :
    num2 (a :: r) = some (dval a, r) := by
  simp [num2, takeDigs2_one a ha r hr, digitsVal]

theorem num2_pad2 (n : Nat) (hn : n < 100) (r : Str) : num2 (pad2 n ++ r) = some (n, r) := by
  have := num2_two (dch (n / 10)) (dch n) (isDig_dch _) (isDig_dch _) r
  simp only [pad2, List.cons_append, List.nil_append, this, dval_dch]
  congr 2
  omega

theorem two_pad2 (n : Nat) (hn : n < 100) (r : Str) : two (pad2 n ++ r) = some (n, r) := by
  simp only [pad2, two, List.cons_append, List.nil_append, isDig_dch, dval_dch, Bool.and_self, if_true]
  congr 2
  omega

theorem dashNum_pad2 (n : Nat) (hn : n < 100) (r : Str) : dashNum ('-' :: (pad2 n ++ r)) = some (n, r) := by
  simp [dashNum, num2_pad2 n hn r]

theorem spanDigs_nodig (c : Char) (hc : isDig c = false) (r : Str) : spanDigs (c :: r) = ([], c :: r) := by
  simp [spanDigs, hc]

theorem spanDigs_pad4 (y : Nat) (c : Char) (hc : isDig c = false) (r : Str) :
    spanDigs (pad4 y ++ c :: r) = (pad4 y, c :: r) := by
  simp [spanDigs, pad4, isDig_dch, hc]

theorem digitsVal_pad4 (y : Nat) (hy : y < 10000) : digitsVal (pad4 y) = y := by
  simp [digitsVal, pad4, dval_dch]
  omega

theorem parseYear_pad4 (y : Nat) (hy : y < 10000) (c : Char) (hc : isDig c = false) (r : Str) :
    parseYear (pad4 y ++ c :: r) = some ((y : Int), c :: r) := by
  have hs := spanDigs_pad4 y c hc r
  have h1 : dch (y / 1000) ≠ '+' := dch_ne _ _ (by decide)
  have h2 : dch (y / 1000) ≠ '-' := dch_ne _ _ (by decide)
  have hv := digitsVal_pad4 y hy
  simp only [pad4, List.cons_append, List.nil_append] at hs hv ⊢
  simp only [parseYear, h1, h2, or_self, if_false, hs, hv]

/-! ### offsets -/

theorem tzMinutes_colon_pad2 (n : Nat) (hn : n < 100) (r : Str) :
    tzMinutes (':' :: (pad2 n ++ r)) = (n, r) := by
  simp [tzMinutes, two_pad2 n hn r]

theorem parseTz_formatOffset (m : Int) (h : m.natAbs < 1440) (r : Str) :
    parseTz (formatOffset m ++ r) = some (m, r) := by
  have h1 : m.natAbs / 60 < 100 := by omega
  have h2 : m.natAbs % 60 < 100 := by omega
  unfold formatOffset
  by_cases hm : m < 0
  · simp only [hm, if_true, List.cons_append, List.append_assoc, parseTz]
    simp [two_pad2 _ h1, tzMinutes_colon_pad2 _ h2]
    omega
  · simp only [hm, if_false, List.cons_append, List.append_assoc, parseTz]
    simp [two_pad2 _ h1, tzMinutes_colon_pad2 _ h2]
    omega

theorem parseOffset_formatOffset (m : Int) (h : m.natAbs < 1440) :
    parseOffset (formatOffset m) = some m := by
  have := parseTz_formatOffset m h []
  simp only [List.append_nil] at this
  simp [parseOffset, this]

theorem parseTzGroup_formatOffset (m : Int) (h : m.natAbs < 1440) :
    parseTzGroup (' ' :: formatOffset m) = some m := by
  simp [parseTzGroup, parseOffset_formatOffset m h]

/-! ### the date and time of the EMS form -/

/-- `YYYY-MM-DD HH:MM:SS ±HH:MM` -/
def emsDate (f : Fields) (off : Int) : Str :=
  pad4 f.year.toNat ++ '-' :: (pad2 f.month ++ '-' :: (pad2 f.day ++ ' ' :: (pad2 f.hour ++ ':' ::
    (pad2 f.minute ++ ':' :: (pad2 f.second ++ ' ' :: formatOffset off)))))

theorem parseFrac_space (r : Str) : parseFrac (' ' :: r) = (false, ' ' :: r) := by
  simp [parseFrac]

theorem parseSec_pad2_space (s : Nat) (hs : s < 100) (r : Str) :
    parseSec (':' :: (pad2 s ++ ' ' :: r)) = (s, false, ' ' :: r) := by
  simp [parseSec, num2_pad2 s hs, parseFrac_space]

theorem parseTime_ems (h mi s : Nat) (hh : h < 100) (hmi : mi < 100) (hs : s < 100) (r : Str) :
    parseTime (' ' :: (pad2 h ++ ':' :: (pad2 mi ++ ':' :: (pad2 s ++ ' ' :: r)))) =
      some (h, mi, s, false, ' ' :: r) := by
  simp [parseTime, num2_pad2 h hh, num2_pad2 mi hmi, parseSec_pad2_space s hs]

/-- `cftime._parse_date` reads the EMS form back as exactly the fields and the offset written. -/
theorem parseDate_emsDate (f : Fields) (off : Int)
    (hy : 0 ≤ f.year ∧ f.year < 10000) (hmo : f.month < 100) (hd : f.day < 100)
    (hh : f.hour < 100) (hmi : f.minute < 100) (hs : f.second < 100) (hoff : off.natAbs < 1440) :
    parseDate (emsDate f off) = some ⟨f, false, off⟩ := by
  have hyn : f.year.toNat < 10000 := by omega
  have hyi : (f.year.toNat : Int) = f.year := by omega
  unfold emsDate parseDate
  rw [parseYear_pad4 _ hyn '-' (by decide)]
  simp only [dashNum_pad2 _ hmo, dashNum_pad2 _ hd, parseTime_ems _ _ _ hh hmi hs,
    parseTzGroup_formatOffset off hoff, Option.getD_some, hyi]

/-! ### `_datesplit` on `<period> since <date>` -/

/-- a unit name as `_datesplit` returns it: non-empty, no blank, already lower case -/
structure IsPeriod (p : Str) : Prop where
  ne : p ≠ []
  nows : ∀ c ∈ p, isWs c = false
  low : lower p = p

theorem token_nows (p : Str) (hp : ∀ c ∈ p, isWs c = false) (r : Str) :
    token (p ++ ' ' :: r) = (p, ' ' :: r) := by
  induction p with
  | nil => simp [token, show isWs ' ' = true by decide]
  | cons c p ih =>
    have hc : isWs c = false := hp c (by simp)
    have := ih (fun d hd => hp d (by simp [hd]))
    simp [token, hc, this]

theorem dropWs_nows (c : Char) (hc : isWs c = false) (r : Str) : dropWs (c :: r) = c :: r := by
  simp [dropWs, hc]

theorem dropWs_space (r : Str) : dropWs (' ' :: r) = dropWs r := by
  simp [dropWs, show isWs ' ' = true by decide]

theorem lower_since : lower since = since := by decide

theorem datesplit_render (p : Str) (hp : IsPeriod p) (c : Char) (hc : isWs c = false) (r : Str) :
    datesplit (p ++ ' ' :: (since ++ ' ' :: c :: r)) = some (p, c :: r) := by
  obtain ⟨hne, hnows, hlow⟩ := hp
  cases p with
  | nil => exact absurd rfl hne
  | cons a p =>
    have ha : isWs a = false := hnows a (by simp)
    have t1 : token (a :: p ++ ' ' :: (since ++ ' ' :: c :: r)) = (a :: p, ' ' :: (since ++ ' ' :: c :: r)) :=
      token_nows (a :: p) hnows _
    have t2 : token (since ++ ' ' :: c :: r) = (since, ' ' :: c :: r) :=
      token_nows since (by decide) _
    have d1 : dropWs (a :: p ++ ' ' :: (since ++ ' ' :: c :: r)) = a :: p ++ ' ' :: (since ++ ' ' :: c :: r) := by
      simp [dropWs, ha]
    have d2 : dropWs (' ' :: (since ++ ' ' :: c :: r)) = since ++ ' ' :: c :: r := by
      rw [dropWs_space]; exact dropWs_nows 's' (by decide) _
    have d3 : dropWs (' ' :: c :: r) = c :: r := by
      rw [dropWs_space]; exact dropWs_nows c hc r
    unfold datesplit
    simp only [d1, t1, d2, t2, d3, lower_since, hlow]
    simp [since]

theorem stripR_snoc (s : Str) (c : Char) (hc : isWs c = false) : stripR (s ++ [c]) = s ++ [c] := by
  simp [stripR, hc]

end Ems.TimeUnits
