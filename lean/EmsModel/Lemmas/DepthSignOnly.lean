import EmsModel.Lemmas.DepthIdem
/-!
Lemmas/DepthSignOnly.lean — the normaliser with `deep_to_shallow` left unset, for depth
coordinates with **any number of levels** (one level: a surface-only / bottom-only extract
that kept its depth axis, a single sediment layer; also zero levels, NaN entries,
non-monotonic values).

The closed form of `Lemmas/DepthNorm` (`normalize_eq`) asks for two distinct first values
because the ordering test `d1, d2 = values[0:2]` needs them.  With `deep_to_shallow = None`
that test is never reached, and the same closed form holds without any hypothesis on the
values.  C13 (used by `Props/C13`: `sign_only_*`).
-/
namespace Ems.Depth

open Ems

/-- what the sign-only closed form needs to know about one coordinate: it exists and is
one-dimensional.  Nothing about its values. -/
structure CoordAny (ds : Dataset) (c : String) (cv : Var) (d : String) : Prop where
  found : ds.find c = some cv
  dims : cv.dims = [d]

/-- The hypotheses of the sign-only theorems on the list of depth coordinates: each is a
one-dimensional variable of the dataset, they are pairwise different, live on pairwise
different dimensions, none is the bounds variable of another, and variable names are unique.
No hypothesis on the number of levels or on the values. -/
structure ValidSign (ds : Dataset) (coords : List String) : Prop where
  oneD : ∀ c ∈ coords, ∃ cv d, CoordAny ds c cv d
  indep : coords.Pairwise (fun c1 c2 => c1 ≠ c2 ∧ Indep ds c1 c2)
  names : (ds.vars.map (·.name)).Nodup

theorem Valid.validSign {ds : Dataset} {coords : List String} (h : Valid ds coords) : ValidSign ds coords :=
  ⟨fun c hc => by obtain ⟨cv, d, hg⟩ := h.good c hc; exact ⟨cv, d, hg.found, hg.dims⟩, h.indep, h.names⟩

theorem planOf_rev_none (cv : Var) (d : String) (pd : Option Bool) : (planOf cv d pd none).rev = false := rfl

/-- one loop iteration with `deep_to_shallow = None` is the plan of the coordinate, whatever its values -/
theorem normStep_signOnly (orig S : Dataset) (pd : Option Bool) (c : String) (cv : Var) (dim : String)
    (hag : Agree orig S c cv) (hdim : cv.dims = [dim]) :
    normStep orig pd none S c = some (S.mapVars (applyPlan S.sz (planOf cv dim pd none)), warnOf c cv) := by
  obtain ⟨hfound, sv, hsv, _, hsb, _⟩ := hag
  have hcn : cv.name = c := find_name _ _ _ hfound
  generalize hp : planOf cv dim pd none = p
  have hpname : p.name = c := by rw [← hp]; exact hcn
  have hpb : p.bounds = cv.bounds := by rw [← hp]; rfl
  have hpos : p.setPos = pd.map posName := by rw [← hp]; rfl
  have hflip : wantFlip pd (signDown cv) = p.flip := by rw [← hp]; rfl
  have hrev : p.rev = false := by rw [← hp]; rfl
  have e1 := posStep_eq S c pd p hpname hpos
  have hfind1 : (S.mapVars (stepPos p)).find c = some (stepPos p sv) := by
    rw [find_mapVars _ _ _ (stepPos_name p), hsv]; rfl
  have e2 := flipStep_eq (S.mapVars (stepPos p)) c p (stepPos p sv) hpname hfind1
    (by rw [stepPos_bounds, hsb, hpb])
  unfold normStep
  simp only [hfound, hdim]
  rw [e1, hflip, e2]
  have hwarn : (if cv.positive.isNone = true then [c ++ ":" ++ posName (signDown cv)] else []) = warnOf c cv := rfl
  rw [hwarn]
  congr 2
  rw [mapVars_mapVars]
  apply mapVars_congr
  intro v _
  simp [applyPlan, stepRev, hrev]

theorem normLoop_signOnly (orig : Dataset) (pd : Option Bool) :
    ∀ (cs : List String) (S : Dataset) (w : List String),
      (∀ c ∈ cs, ∃ cv d, CoordAny orig c cv d ∧ Agree orig S c cv) →
      cs.Pairwise (fun c1 c2 => c1 ≠ c2 ∧ Indep orig c1 c2) →
      S.sz = orig.sz →
      normLoop orig pd none cs S w
        = some (S.mapVars (applyPlans orig.sz (cs.map (planFor orig pd none))), w ++ cs.flatMap (warnFor orig))
  | [], S, w, _, _, _ => by
    simp only [normLoop, List.map_nil, List.flatMap_nil, List.append_nil]
    congr 2
    symm; apply mapVars_id; intro v _; rfl
  | c :: cs, S, w, hok, hpw, hsz => by
    obtain ⟨cv, d, hc, hag⟩ := hok c (by simp)
    have hstep := normStep_signOnly orig S pd c cv d hag hc.dims
    have hplan : planFor orig pd none c = planOf cv d pd none := by
      simp [planFor, hc.found, hc.dims]
    have hwarn : warnFor orig c = warnOf c cv := by simp [warnFor, hc.found]
    rw [List.pairwise_cons] at hpw
    obtain ⟨hpc, hpw⟩ := hpw
    simp only [normLoop, hstep]
    have hsz' : (S.mapVars (applyPlan S.sz (planOf cv d pd none))).sz = orig.sz := by simpa using hsz
    have hok' : ∀ c' ∈ cs, ∃ cv' d', CoordAny orig c' cv' d' ∧
        Agree orig (S.mapVars (applyPlan S.sz (planOf cv d pd none))) c' cv' := by
      intro c' hc'
      obtain ⟨cv', d', hc'ok, hag'⟩ := hok c' (by simp [hc'])
      refine ⟨cv', d', hc'ok, hag'.found, ?_⟩
      obtain ⟨sv', hsv', hsd', hsb', hsdim'⟩ := hag'.same
      obtain ⟨hne, hind⟩ := hpc c' hc'
      obtain ⟨hdims, hb1, hb2⟩ := hind cv cv' hc.found hc'ok.found
      have hname' : sv'.name = c' := find_name _ _ _ hsv'
      have hunt : Untouched (planOf cv d pd none) sv'.name sv'.dims := by
        refine ⟨?_, ?_, ?_⟩
        · show sv'.name ≠ cv.name
          rw [hname', find_name _ _ _ hc.found]; exact fun e => hne e.symm
        · show cv.bounds ≠ some sv'.name
          rw [hname']; exact hb1
        · show d ∉ sv'.dims
          rw [hsdim']; exact hdims d (by simp [hc.dims])
      refine ⟨sv', ?_, hsd', hsb', hsdim'⟩
      rw [find_mapVars _ _ _ (applyPlan_name _ _), hsv']
      simp [applyPlan_untouched _ _ _ hunt]
    rw [normLoop_signOnly orig pd cs _ _ hok' hpw hsz']
    simp only [List.map_cons, List.flatMap_cons, hplan, hwarn, List.append_assoc]
    congr 2
    rw [mapVars_mapVars, hsz]
    apply mapVars_congr
    intro v _
    simp [applyPlans]

/-- `normalize_depth_variables(…, deep_to_shallow=None)` in closed form, for coordinates with
any number of levels and any values -/
theorem normalize_signOnly (ds : Dataset) (coords : List String) (pd : Option Bool) (h : ValidSign ds coords) :
    normalize ds coords pd none = some (normOut ds coords pd none, coords.flatMap (warnFor ds)) := by
  unfold normalize
  rw [normLoop_signOnly ds pd coords ds [] ?_ h.indep rfl]
  · simp [normOut]
  · intro c hc
    obtain ⟨cv, d, hcv⟩ := h.oneD c hc
    exact ⟨cv, d, hcv, agree_self ds c cv hcv.found⟩

/-! ### what the plans do to each kind of variable -/

/-- the plan of another coordinate leaves coordinate `c` alone -/
theorem untouched_other_any (ds : Dataset) (pd dts : Option Bool) (c c2 : String) (cv : Var)
    (hf : ds.find c = some cv) (hne : c2 ≠ c) (hind : Indep ds c2 c)
    (hg2 : ∃ cv2 d2, CoordAny ds c2 cv2 d2) :
    Untouched (planFor ds pd dts c2) cv.name cv.dims := by
  obtain ⟨cv2, d2, hc2⟩ := hg2
  obtain ⟨hd, hb1, _⟩ := hind cv2 cv hc2.found hf
  have hplan : planFor ds pd dts c2 = planOf cv2 d2 pd dts := by simp [planFor, hc2.found, hc2.dims]
  have hn : cv.name = c := find_name _ _ _ hf
  have hn2 : cv2.name = c2 := find_name _ _ _ hc2.found
  rw [hplan]
  refine ⟨?_, ?_, ?_⟩
  · show cv.name ≠ cv2.name
    rw [hn, hn2]; exact fun e => hne e.symm
  · show cv2.bounds ≠ some cv.name
    rw [hn]; exact hb1
  · show d2 ∉ cv.dims
    exact hd d2 (by simp [hc2.dims])

/-- a coordinate is transformed by its own plan only -/
theorem coord_out_any (ds : Dataset) (coords : List String) (pd dts : Option Bool) (h : ValidSign ds coords)
    (c : String) (hc : c ∈ coords) (cv : Var) (d : String) (hg : CoordAny ds c cv d) :
    (normOut ds coords pd dts).find c = some (applyPlan ds.sz (planOf cv d pd dts) cv) := by
  rw [find_normOut, hg.found, Option.map_some]
  obtain ⟨l1, l2, rfl⟩ := List.append_of_mem hc
  have hpw := h.indep
  rw [List.pairwise_append] at hpw
  obtain ⟨_, hpw2, hcross⟩ := hpw
  rw [List.pairwise_cons] at hpw2
  have hplan : planFor ds pd dts c = planOf cv d pd dts := by simp [planFor, hg.found, hg.dims]
  rw [List.map_append, List.map_cons, hplan, applyPlans_single]
  · intro q hq
    obtain ⟨c2, hc2, rfl⟩ := List.mem_map.mp hq
    obtain ⟨hne, hind⟩ := hcross c2 hc2 c (by simp)
    exact untouched_other_any ds pd dts c c2 cv hg.found hne hind (h.oneD c2 (by simp [hc2]))
  · intro q hq
    obtain ⟨c2, hc2, rfl⟩ := List.mem_map.mp hq
    obtain ⟨hne, hind⟩ := hpw2.1 c2 hc2
    exact untouched_other_any ds pd dts c c2 cv hg.found (fun e => hne e.symm) hind.symm (h.oneD c2 (by simp [hc2]))

/-- a plan that does not reverse: the coordinate's values are negated iff the sign is flipped -/
theorem applyPlan_data_norev (sz : String → Nat) (p : Plan) (cv : Var)
    (hn : p.name = cv.name) (hb : p.bounds = cv.bounds) (hrev : p.rev = false)
    (hself : cv.bounds ≠ some cv.name) :
    (applyPlan sz p cv).data = negIf p.flip cv.data := by
  have e3 : stepBnd p (stepNeg p (stepPos p cv)) = stepNeg p (stepPos p cv) := by
    unfold stepBnd
    have : p.bounds ≠ some (stepNeg p (stepPos p cv)).name := by
      rw [stepNeg_name, stepPos_name, hb]; exact hself
    simp [this]
  unfold applyPlan
  rw [e3]
  unfold stepRev
  simp only [hrev, Bool.false_eq_true, if_false]
  rw [stepNeg_data_self p _ (by rw [stepPos_name]; exact hn), stepPos_data]

/-- everything about one coordinate after a sign-only pass -/
theorem coord_after_signOnly (ds : Dataset) (coords : List String) (pd : Option Bool) (h : ValidSign ds coords)
    (c : String) (hc : c ∈ coords) (cv : Var) (hf : ds.find c = some cv) (hself : cv.bounds ≠ some c) :
    ∃ cv', (normOut ds coords pd none).find c = some cv' ∧ CoordAfter ds pd none cv cv' := by
  obtain ⟨cv0, d, hg0⟩ := h.oneD c hc
  have hcv : cv0 = cv := Option.some.inj (hg0.found.symm.trans hf)
  subst hcv
  refine ⟨_, coord_out_any ds coords pd none h c hc cv0 d hg0, ?_⟩
  have hn : cv0.name = c := find_name _ _ _ hf
  have hself' : cv0.bounds ≠ some cv0.name := by rw [hn]; exact hself
  have hdata : (applyPlan ds.sz (planOf cv0 d pd none) cv0).data
      = revIf (wantRev none (deepFirst (signDown cv0) cv0.data)) (negIf (wantFlip pd (signDown cv0)) cv0.data) :=
    applyPlan_data_norev ds.sz _ cv0 rfl rfl rfl hself'
  have hpos := applyPlan_positive_self ds.sz (planOf cv0 d pd none) cv0 pd rfl rfl
  exact ⟨hdata, hpos, applyPlan_name .., applyPlan_dims .., applyPlan_bounds .., applyPlan_isCoord ..,
    applyPlan_extra .., signDown_after cv0 _ pd _ _ hdata hpos rfl, phys_after cv0 _ pd _ _ hdata hpos rfl⟩

/-- a sign-only plan leaves every variable that is neither its coordinate nor its bounds as it is -/
theorem applyPlan_signOnly_plain (sz : String → Nat) (cv : Var) (d : String) (pd : Option Bool) (v : Var)
    (h1 : v.name ≠ cv.name) (h2 : cv.bounds ≠ some v.name) :
    applyPlan sz (planOf cv d pd none) v = v := by
  rw [applyPlan_plain sz _ v h1 h2]
  simp [stepRev, planOf_rev_none]

/-- the output again satisfies the sign-only hypotheses -/
theorem validSign_after (ds : Dataset) (coords : List String) (pd dts : Option Bool) (h : ValidSign ds coords) :
    ValidSign (normOut ds coords pd dts) coords := by
  refine ⟨?_, ?_, ?_⟩
  · intro c hc
    obtain ⟨cv, d, hg⟩ := h.oneD c hc
    exact ⟨_, d, by rw [find_normOut, hg.found]; rfl, by rw [applyPlans_dims]; exact hg.dims⟩
  · refine h.indep.imp_of_mem ?_
    intro c1 c2 hc1 hc2 ⟨hne, hind⟩
    refine ⟨hne, ?_⟩
    intro cv1' cv2' h1 h2
    rw [find_normOut] at h1 h2
    cases hf1 : ds.find c1 with
    | none => simp [hf1] at h1
    | some cv1 =>
      cases hf2 : ds.find c2 with
      | none => simp [hf2] at h2
      | some cv2 =>
        simp only [hf1, hf2, Option.map_some, Option.some.injEq] at h1 h2
        subst h1; subst h2
        rw [applyPlans_dims, applyPlans_dims, applyPlans_bounds, applyPlans_bounds]
        exact hind cv1 cv2 hf1 hf2
  · rw [names_normOut]; exact h.names

/-- after a sign-only pass the plan of the same options is empty -/
theorem plan_after_noop_signOnly (ds : Dataset) (coords : List String) (pd : Option Bool) (h : ValidSign ds coords)
    (hself : ∀ c ∈ coords, ∀ cv, ds.find c = some cv → cv.bounds ≠ some c)
    (c : String) (hc : c ∈ coords) (v : Var) (hv : v ∈ (normOut ds coords pd none).vars) :
    applyPlan (normOut ds coords pd none).sz (planFor (normOut ds coords pd none) pd none c) v = v := by
  obtain ⟨cv, d, hg⟩ := h.oneD c hc
  obtain ⟨cv', hfind', ha⟩ := coord_after_signOnly ds coords pd h c hc cv hg.found (hself c hc cv hg.found)
  have hdims' : cv'.dims = [d] := by rw [ha.dims]; exact hg.dims
  have hplan : planFor (normOut ds coords pd none) pd none c = planOf cv' d pd none := by
    simp [planFor, hfind', hdims']
  rw [hplan]
  have hflip : (planOf cv' d pd none).flip = false := by
    show wantFlip pd (signDown cv') = false
    cases pd with
    | none => rfl
    | some b =>
      have : signDown cv' = b := by
        rw [ha.sign]; simp only [wantFlip]
        cases signDown cv <;> cases b <;> rfl
      simp [wantFlip, this]
  have e2 : ∀ w, stepNeg (planOf cv' d pd none) w = w := by intro w; simp [stepNeg, hflip]
  have e3 : ∀ w, stepBnd (planOf cv' d pd none) w = w := by intro w; simp [stepBnd, hflip]
  have e4 : ∀ w, stepRev (normOut ds coords pd none).sz (planOf cv' d pd none) w = w := by
    intro w; simp [stepRev, planOf_rev_none]
  simp only [applyPlan, e2, e3, e4]
  unfold stepPos
  by_cases hname : v.name = (planOf cv' d pd none).name
  · have hvn : v.name = c := hname.trans (find_name _ _ _ hfind')
    have hvv : v = cv' := by
      have := find_of_mem _ (validSign_after ds coords pd none h).names v hv
      rw [hvn, hfind'] at this
      exact (Option.some.inj this).symm
    simp only [hname, if_true]
    show (match pd.map posName with
      | some s => v.setPositive s
      | none => v) = v
    cases pd with
    | none => rfl
    | some b =>
      simp only [Option.map_some]
      apply setPositive_same
      rw [hvv, ha.positive]; rfl
  · simp [hname]

end Ems.Depth
