import EmsModel.Core.Binding
/-!
Lemmas/Binding.lean — well-formedness invariant of the binding state machine and the
one-step facts the C11 theorems are assembled from.
-/
namespace Ems.Bind
open Ems.Reg

theorem upd_same {β : Type} (f : Nat → Option β) (i : Nat) (v : Option β) : upd f i v i = v := by
  simp [upd]

theorem upd_other {β : Type} (f : Nat → Option β) (i j : Nat) (v : Option β) (h : j ≠ i) :
    upd f i v j = f j := by
  simp [upd, h]

/-- Well-formed worlds: ids are allocated densely, a bound instance was constructed for the
dataset it is bound to. -/
structure Inv (w : World) : Prop where
  feat_lt : ∀ d, (w.feat d).isSome ↔ d < w.nDs
  bound_lt : ∀ d k, w.bound d = some k → d < w.nDs
  obj_lt : ∀ k o, w.obj k = some o → k < w.nObj
  obj_ds : ∀ k o, w.obj k = some o → o.ds < w.nDs
  bound_obj : ∀ d k, w.bound d = some k → ∃ c, w.obj k = some ⟨d, c⟩

theorem inv_init (dss : List Features) (reg : List Cls) : Inv (World.init dss reg) where
  feat_lt := by
    intro d
    simp only [World.init]
    by_cases h : d < dss.length
    · simp [h]
    · simp [h]
  bound_lt := by intro d k h; simp [World.init] at h
  obj_lt := by intro k o h; simp [World.init] at h
  obj_ds := by intro k o h; simp [World.init] at h
  bound_obj := by intro d k h; simp [World.init] at h

theorem inv_bindNew (w : World) (hw : Inv w) (d : Nat) (c : Cls) (hd : d < w.nDs) : Inv (w.bindNew d c) where
  feat_lt := hw.feat_lt
  bound_lt := by
    intro d' k h
    simp only [World.bindNew, upd] at h
    split at h
    · subst_vars; exact hd
    · exact hw.bound_lt d' k h
  obj_lt := by
    intro k o h
    simp only [World.bindNew, upd] at h ⊢
    split at h
    · omega
    · have := hw.obj_lt k o h; omega
  obj_ds := by
    intro k o h
    simp only [World.bindNew, upd] at h ⊢
    split at h
    · cases h; exact hd
    · exact hw.obj_ds k o h
  bound_obj := by
    intro d' k h
    simp only [World.bindNew, upd] at h ⊢
    split at h
    · cases h; subst_vars; exact ⟨c, by simp⟩
    · obtain ⟨c', hc'⟩ := hw.bound_obj d' k h
      have := hw.obj_lt k _ hc'
      have hne : ¬ k = w.nObj := by omega
      exact ⟨c', by simp [hne, hc']⟩

theorem inv_step (det : Detector) (w : World) (hw : Inv w) (op : Op) : Inv (step det w op).1 := by
  cases op with
  | access d =>
    simp only [step]
    cases hf : w.feat d with
    | none => exact hw
    | some f =>
      have hd : d < w.nDs := (hw.feat_lt d).1 (by simp [hf])
      cases hb : w.bound d with
      | some k => exact hw
      | none =>
        simp only
        cases hdet : det w.reg f with
        | error e => exact hw
        | ok r =>
          cases r with
          | none => exact hw
          | some c =>
            simp only
            split
            · exact inv_bindNew w hw d c hd
            · exact hw
  | new d c =>
    simp only [step]
    cases hf : w.feat d with
    | none => exact hw
    | some f =>
      have hd : d < w.nDs := (hw.feat_lt d).1 (by simp [hf])
      simp only
      split
      · refine ⟨hw.feat_lt, hw.bound_lt, ?_, ?_, ?_⟩
        · intro k o h
          simp only [upd] at h ⊢
          split at h
          · omega
          · have := hw.obj_lt k o h; omega
        · intro k o h
          simp only [upd] at h ⊢
          split at h
          · cases h; exact hd
          · exact hw.obj_ds k o h
        · intro d' k h
          obtain ⟨c', hc'⟩ := hw.bound_obj d' k h
          have := hw.obj_lt k _ hc'
          have hne : ¬ k = w.nObj := by omega
          exact ⟨c', by simp [upd, hne, hc']⟩
      · exact hw
  | bind k =>
    simp only [step]
    cases ho : w.obj k with
    | none => exact hw
    | some o =>
      simp only
      cases hb : w.bound o.ds with
      | some k' => exact hw
      | none =>
        refine ⟨hw.feat_lt, ?_, hw.obj_lt, hw.obj_ds, ?_⟩
        · intro d' k' h
          simp only [upd] at h
          split at h
          · subst_vars; exact hw.obj_ds k o ho
          · exact hw.bound_lt d' k' h
        · intro d' k' h
          simp only [upd] at h
          split at h
          · cases h; subst_vars; exact ⟨o.cls, ho⟩
          · exact hw.bound_obj d' k' h
  | cbind d c =>
    simp only [step]
    cases hf : w.feat d with
    | none => exact hw
    | some f =>
      have hd : d < w.nDs := (hw.feat_lt d).1 (by simp [hf])
      simp only
      split
      · cases hb : w.bound d with
        | some k => exact hw
        | none => exact inv_bindNew w hw d c hd
      · exact hw
  | copy d =>
    simp only [step]
    cases hf : w.feat d with
    | none => exact hw
    | some f =>
      refine ⟨?_, ?_, hw.obj_lt, ?_, hw.bound_obj⟩
      · intro d'
        simp only [upd]
        split
        · subst_vars; simp
        · rw [hw.feat_lt d']; omega
      · intro d' k h
        have := hw.bound_lt d' k h
        simp only; omega
      · intro k o h
        have := hw.obj_ds k o h
        simp only; omega
  | register c => exact ⟨hw.feat_lt, hw.bound_lt, hw.obj_lt, hw.obj_ds, hw.bound_obj⟩

theorem inv_run (det : Detector) (ops : List Op) : ∀ (w : World), Inv w → Inv (run det w ops) := by
  induction ops with
  | nil => intro w hw; exact hw
  | cons op ops ih => intro w hw; exact ih _ (inv_step det w hw op)

theorem run_append (det : Detector) (ops₁ ops₂ : List Op) : ∀ (w : World),
    run det w (ops₁ ++ ops₂) = run det (run det w ops₁) ops₂ := by
  induction ops₁ with
  | nil => intro w; rfl
  | cons op ops ih => intro w; simp only [List.cons_append, run]; exact ih _

/-- one step never detaches or replaces a bound convention -/
theorem step_keeps_bound (det : Detector) (w : World) (op : Op) (d k : Nat)
    (h : w.bound d = some k) : (step det w op).1.bound d = some k := by
  cases op with
  | access d' =>
    simp only [step]
    cases hf : w.feat d' with
    | none => exact h
    | some f =>
      cases hb : w.bound d' with
      | some k' => exact h
      | none =>
        simp only
        cases hdet : det w.reg f with
        | error e => exact h
        | ok r =>
          cases r with
          | none => exact h
          | some c =>
            simp only
            split
            · have hne : ¬ d = d' := by rintro rfl; rw [h] at hb; cases hb
              simp [World.bindNew, upd, hne, h]
            · exact h
  | new d' c =>
    simp only [step]
    cases hf : w.feat d' with
    | none => exact h
    | some f => simp only; split <;> exact h
  | bind k' =>
    simp only [step]
    cases ho : w.obj k' with
    | none => exact h
    | some o =>
      simp only
      cases hb : w.bound o.ds with
      | some k'' => exact h
      | none =>
        have hne : ¬ d = o.ds := by rintro rfl; rw [h] at hb; cases hb
        simp [upd, hne, h]
  | cbind d' c =>
    simp only [step]
    cases hf : w.feat d' with
    | none => exact h
    | some f =>
      simp only
      split
      · cases hb : w.bound d' with
        | some k' => exact h
        | none =>
          have hne : ¬ d = d' := by rintro rfl; rw [h] at hb; cases hb
          simp [World.bindNew, upd, hne, h]
      · exact h
  | copy d' =>
    simp only [step]
    cases hf : w.feat d' with
    | none => exact h
    | some f => exact h
  | register c => exact h

theorem run_keeps_bound (det : Detector) (ops : List Op) : ∀ (w : World) (d k : Nat),
    w.bound d = some k → (run det w ops).bound d = some k := by
  induction ops with
  | nil => intro w d k h; exact h
  | cons op ops ih => intro w d k h; exact ih _ d k (step_keeps_bound det w op d k h)

/-- one step changes the binding and the content of no dataset but its target
(and the dataset a copy creates) -/
theorem step_frame (det : Detector) (w : World) (op : Op) (d' : Nat)
    (ht : op.target w ≠ some d') (hex : d' ≠ w.nDs) :
    (step det w op).1.bound d' = w.bound d' ∧ (step det w op).1.feat d' = w.feat d' := by
  cases op with
  | access d =>
    have hne : ¬ d' = d := by rintro rfl; exact ht rfl
    simp only [step]
    cases hf : w.feat d with
    | none => exact ⟨rfl, rfl⟩
    | some f =>
      cases hb : w.bound d with
      | some k => exact ⟨rfl, rfl⟩
      | none =>
        simp only
        cases hdet : det w.reg f with
        | error e => exact ⟨rfl, rfl⟩
        | ok r =>
          cases r with
          | none => exact ⟨rfl, rfl⟩
          | some c =>
            simp only
            split
            · simp [World.bindNew, upd, hne]
            · exact ⟨rfl, rfl⟩
  | new d c =>
    simp only [step]
    cases hf : w.feat d with
    | none => exact ⟨rfl, rfl⟩
    | some f => simp only; split <;> exact ⟨rfl, rfl⟩
  | bind k =>
    simp only [step]
    cases ho : w.obj k with
    | none => exact ⟨rfl, rfl⟩
    | some o =>
      have hne : ¬ d' = o.ds := by
        rintro rfl; exact ht (by simp [Op.target, ho])
      simp only
      cases hb : w.bound o.ds with
      | some k' => exact ⟨rfl, rfl⟩
      | none => simp [upd, hne]
  | cbind d c =>
    have hne : ¬ d' = d := by rintro rfl; exact ht rfl
    simp only [step]
    cases hf : w.feat d with
    | none => exact ⟨rfl, rfl⟩
    | some f =>
      simp only
      split
      · cases hb : w.bound d with
        | some k => exact ⟨rfl, rfl⟩
        | none => simp [World.bindNew, upd, hne]
      · exact ⟨rfl, rfl⟩
  | copy d =>
    simp only [step]
    cases hf : w.feat d with
    | none => exact ⟨rfl, rfl⟩
    | some f => simp [upd, hex]
  | register c => exact ⟨rfl, rfl⟩

end Ems.Bind
