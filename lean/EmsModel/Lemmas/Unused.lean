import EmsModel.Core.NDArray
import Std.Data.String.ToNat
/-! `find_unused_dimension` always returns a name that is not in use (pigeonhole). -/
namespace Ems.NArr

theorem cand_injective (pfx : String) (i j : Nat) (h : s!"{pfx}_{i}" = s!"{pfx}_{j}") : i = j := by
  have h' : pfx ++ "_" ++ toString i = pfx ++ "_" ++ toString j := h
  have h2 := congrArg String.toList h'
  simp only [String.toList_append, List.append_assoc, List.append_cancel_left_eq] at h2
  have h3 : toString i = toString j := String.ext h2
  exact Nat.repr_injective h3

theorem go_spec (existing : List String) (pfx : String) : ∀ (fuel k : Nat),
    (findUnused.go existing pfx fuel k ∉ existing) ∨
    (∀ j, k ≤ j → j ≤ k + fuel → s!"{pfx}_{j}" ∈ existing)
  | 0, k => by
    unfold findUnused.go
    by_cases h : s!"{pfx}_{k}" ∈ existing
    · right
      intro j h1 h2
      have : j = k := by omega
      subst this; exact h
    · left; exact h
  | fuel + 1, k => by
    unfold findUnused.go
    by_cases h : s!"{pfx}_{k}" ∈ existing
    · have hm : existing.contains s!"{pfx}_{k}" = true := List.contains_iff_mem.mpr h
      rw [if_neg (by rw [hm]; decide)]
      rcases go_spec existing pfx fuel (k + 1) with hl | hr
      · left; exact hl
      · right
        intro j h1 h2
        by_cases hj : j = k
        · subst hj; exact h
        · exact hr j (by omega) (by omega)
    · have hm : existing.contains s!"{pfx}_{k}" = false := by
        cases hc : existing.contains s!"{pfx}_{k}" with
        | false => rfl
        | true => exact absurd (List.contains_iff_mem.mp hc) h
      rw [if_pos (by rw [hm]; rfl)]
      left; exact h

/-- **`find_unused_dimension` is never a name already in use.** -/
theorem findUnused_fresh (existing : List String) (pfx : String) : findUnused existing pfx ∉ existing := by
  unfold findUnused
  by_cases h : pfx ∈ existing
  · have hm : existing.contains pfx = true := List.contains_iff_mem.mpr h
    rw [if_neg (by rw [hm]; decide)]
    rcases go_spec existing pfx existing.length 0 with hl | hr
    · exact hl
    · exfalso
      -- existing.length + 1 distinct candidates all lie in `existing`
      let cands := (List.range (existing.length + 1)).map fun j => s!"{pfx}_{j}"
      have hsub : cands ⊆ existing := by
        intro x hx
        obtain ⟨j, hj, rfl⟩ := List.mem_map.mp hx
        exact hr j (by omega) (by have := List.mem_range.mp hj; omega)
      have hnd : cands.Nodup := by
        simp only [cands, List.Nodup, List.pairwise_map]
        refine List.Pairwise.imp ?_ (List.nodup_range (n := existing.length + 1))
        intro a b hab heq
        exact hab (cand_injective pfx a b heq)
      have := hnd.length_le_of_subset hsub
      simp only [cands, List.length_map, List.length_range] at this
      omega
  · have hm : existing.contains pfx = false := by
      cases hc : existing.contains pfx with
      | false => rfl
      | true => exact absurd (List.contains_iff_mem.mp hc) h
    rw [if_pos (by rw [hm]; rfl)]; exact h

/-- it is the requested name itself whenever that is free -/
theorem findUnused_prefix_if_free (existing : List String) (pfx : String) (h : pfx ∉ existing) :
    findUnused existing pfx = pfx := by
  unfold findUnused
  have hm : existing.contains pfx = false := by
    cases hc : existing.contains pfx with
    | false => rfl
    | true => exact absurd (List.contains_iff_mem.mp hc) h
  rw [if_pos (by rw [hm]; rfl)]

end Ems.NArr
